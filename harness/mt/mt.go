// Package mt drives a single connection matcher directly: it loads the real
// matcher module from JSON, preloads a layer4.Connection with a prefix over a
// counting scripted conn, evaluates it through layer4.MatcherSet.Match and
// classifies the verdict.
package mt

import (
	"encoding/json"
	"errors"
	"fmt"
	"io"
	"net"
	"sync/atomic"
	"time"

	"github.com/caddyserver/caddy/v2"

	"github.com/mholt/caddy-l4/layer4"

	"verifharness/hmods"
	"verifharness/vnet"
)

// Verdict of one evaluation.
type Verdict string

const (
	Yes  Verdict = "yes"
	No   Verdict = "no"
	More Verdict = "more" // asked for more data (ErrConsumedAllPrefetchedBytes)
	Err  Verdict = "err"  // any other error
)

// Matcher is a provisioned matcher module.
type Matcher struct {
	ID     string
	M      layer4.ConnMatcher
	cancel func()
}

// Load provisions the matcher module "layer4.matchers.<name>" from its JSON config ("{}" / "null" for defaults).
func Load(name, cfg string) (*Matcher, error) {
	ctx, cancel := hmods.NewContext()
	if cfg == "" {
		cfg = "{}"
	}
	mod, err := ctx.LoadModuleByID("layer4.matchers."+name, json.RawMessage(cfg))
	if err != nil {
		cancel()
		return nil, err
	}
	m, ok := mod.(layer4.ConnMatcher)
	if !ok {
		cancel()
		return nil, fmt.Errorf("%s is not a ConnMatcher", name)
	}
	return &Matcher{ID: name, M: m, cancel: cancel}, nil
}

// Close releases the module's context.
func (m *Matcher) Close() { m.cancel() }

// Opts configure the scripted connection a matcher is evaluated on.
type Opts struct {
	UDP      bool      // UDP-like addresses (*net.UDPAddr) instead of *net.TCPAddr
	Local    net.Addr  // overrides the local address
	Remote   net.Addr  // overrides the remote address
	WrapTime time.Time // if non-zero, value of {l4.conn.wrap_time}
}

var seq atomic.Int64

// NewConn returns a layer4.Connection preloaded with prefix (as if those bytes
// had been prefetched) over a scripted conn that has nothing more to read; the
// returned End counts any Read the matcher issues on the network.
func NewConn(prefix []byte, o Opts) (*layer4.Connection, *vnet.End) {
	n := seq.Add(1)
	var local, remote net.Addr
	if o.UDP {
		local, remote = vnet.UDPAddr("192.0.2.1", 53), vnet.UDPAddr("198.51.100.7", 40000+int(n%20000))
	} else {
		local, remote = vnet.TCPAddr("192.0.2.1", 443), vnet.TCPAddr("198.51.100.7", 40000+int(n%20000))
	}
	if o.Local != nil {
		local = o.Local
	}
	if o.Remote != nil {
		remote = o.Remote
	}
	client, server := vnet.Pair(fmt.Sprintf("mt-%d", n), remote, local)
	_ = client.CloseWrite() // a matcher that does touch the network gets EOF at once; End.ReadCalls counts it
	buf := make([]byte, len(prefix), len(prefix)+16)
	copy(buf, prefix)
	cx := layer4.WrapConnection(server, buf, hmods.NopLogger)
	if !o.WrapTime.IsZero() {
		if repl, ok := cx.Context.Value(layer4.ReplacerCtxKey).(*caddy.Replacer); ok {
			repl.Set("l4.conn.wrap_time", o.WrapTime)
		}
	}
	return cx, server
}

// Classify maps Match's return values to a Verdict.
func Classify(matched bool, err error) Verdict {
	switch {
	case err == nil && matched:
		return Yes
	case err == nil:
		return No
	case errors.Is(err, layer4.ErrConsumedAllPrefetchedBytes):
		return More
	}
	return Err
}

// EvalOn evaluates the matcher on an existing connection through MatcherSet.Match
// (so that freeze/unfreeze happen exactly as in the router).
func (m *Matcher) EvalOn(cx *layer4.Connection) (Verdict, error) {
	matched, err := layer4.MatcherSet{m.M}.Match(cx)
	return Classify(matched, err), err
}

// Eval evaluates the matcher on a fresh connection preloaded with prefix.
func (m *Matcher) Eval(prefix []byte, o Opts) (Verdict, error) {
	cx, _ := NewConn(prefix, o)
	return m.EvalOn(cx)
}

// floodConn is a connection whose peer never stops sending: every Read fills the buffer (up to a generous total, then
// an error). A matcher evaluated in matching mode never gets to read from it; it is there to show what happens when one does.
type floodConn struct {
	local, remote net.Addr
	left          int64
}

func (f *floodConn) Read(p []byte) (int, error) {
	if f.left <= 0 {
		return 0, io.ErrUnexpectedEOF
	}
	for i := range p {
		p[i] = byte(int64(i) + f.left)
	}
	f.left -= int64(len(p))
	return len(p), nil
}
func (f *floodConn) Write(p []byte) (int, error)      { return len(p), nil }
func (f *floodConn) Close() error                     { return nil }
func (f *floodConn) LocalAddr() net.Addr              { return f.local }
func (f *floodConn) RemoteAddr() net.Addr             { return f.remote }
func (f *floodConn) SetDeadline(time.Time) error      { return nil }
func (f *floodConn) SetReadDeadline(time.Time) error  { return nil }
func (f *floodConn) SetWriteDeadline(time.Time) error { return nil }

// NewFloodConn is NewConn over a peer that has (practically) unlimited data waiting behind the prefetched prefix.
func NewFloodConn(prefix []byte, o Opts) *layer4.Connection {
	n := seq.Add(1)
	var local, remote net.Addr
	if o.UDP {
		local, remote = vnet.UDPAddr("192.0.2.1", 53), vnet.UDPAddr("198.51.100.7", 40000+int(n%20000))
	} else {
		local, remote = vnet.TCPAddr("192.0.2.1", 443), vnet.TCPAddr("198.51.100.7", 40000+int(n%20000))
	}
	buf := make([]byte, len(prefix), len(prefix)+16)
	copy(buf, prefix)
	return layer4.WrapConnection(&floodConn{local: local, remote: remote, left: 24 << 20}, buf, hmods.NopLogger)
}

// EvalBehind evaluates the matcher as the last member of a matcher set whose earlier members are given (they are
// evaluated first, in this order), on an existing connection.
func (m *Matcher) EvalBehind(cx *layer4.Connection, first ...*Matcher) (Verdict, error) {
	set := layer4.MatcherSet{}
	for _, f := range first {
		set = append(set, f.M)
	}
	set = append(set, m.M)
	matched, err := set.Match(cx)
	return Classify(matched, err), err
}
