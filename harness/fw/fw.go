// Package fw is the small framework shared by all property monitors: a
// property is registered with a plan (which child processes to run for a
// tier) and a run function (the workload + monitor executed inside a child).
// The parent spawns the children, merges what they observed, matches
// violations against /verif/known_findings.jsonl, writes the evidence file
// and prints the verdict lines.
package fw

import (
	"encoding/json"
	"fmt"
	"hash/fnv"
	"math/rand"
	"os"
	"path/filepath"
	"regexp"
	"sort"
	"sync"
	"time"
)

// ChildSpec describes one kind of child process of a check.
type ChildSpec struct {
	Name    string        // label, also the name of the output directory
	Race    bool          // run on the -race binary
	Env     []string      // extra environment (K=V)
	Shards  int           // number of processes the case list is split over (>=1)
	Timeout time.Duration // watchdog for each process
	Mode    string        // free-form, passed to Run via Ctx.Mode
}

// Prop is a registered property monitor.
type Prop struct {
	ID          string
	Level       string // evidence level, normally "exploration"
	Rule        string
	Assumptions []string
	MinEvals    int64 // floor: fewer evaluations than this is a machinery failure
	Plan        func(tier string) []ChildSpec
	Run         func(c *Ctx)
	// Replay re-runs one recorded case (optional).
	Replay func(c *Ctx, rawCase json.RawMessage)
}

var registry = map[string]*Prop{}

func Register(p *Prop) {
	if p.Level == "" {
		p.Level = "exploration"
	}
	registry[p.ID] = p
}

func Lookup(id string) *Prop { return registry[id] }

func IDs() []string {
	var ids []string
	for id := range registry {
		ids = append(ids, id)
	}
	sort.Strings(ids)
	return ids
}

// Violation is one observed refutation of the property.
type Violation struct {
	Signature string          `json:"signature"`
	What      string          `json:"what"`
	Count     int64           `json:"count"`
	Replay    string          `json:"replay,omitempty"`
	Case      json.RawMessage `json:"case,omitempty"`
}

// Result is what one child process observed.
type Result struct {
	Evaluations  int64               `json:"evaluations"`
	Distinct     []uint64            `json:"distinct"`
	Samples      []any               `json:"samples"`
	Violations   []*Violation        `json:"violations"`
	Inconclusive map[string]int64    `json:"inconclusive"`
	Obs          map[string]int64    `json:"obs"`
	ObsMax       map[string]int64    `json:"obs_max"`
	Sets         map[string][]string `json:"sets"`
	Notes        []string            `json:"notes"`
	Completed    bool                `json:"completed"`
}

// Ctx is handed to a property's Run function inside a child.
type Ctx struct {
	Prop    *Prop
	Tier    string
	Seed    int64
	Shard   int
	NShards int
	Mode    string
	OutDir  string

	mu          sync.Mutex
	res         Result
	distinct    map[uint64]struct{}
	viol        map[string]*Violation
	sets        map[string]map[string]struct{}
	journal     *os.File
	journalSize int64
	maxSamples  int
	flushMu     sync.Mutex
}

// Exclusive runs f while the periodic result flush is held off (for
// measurements that must not see the harness' own allocations).
func (c *Ctx) Exclusive(f func()) {
	c.flushMu.Lock()
	defer c.flushMu.Unlock()
	f()
}

// Abort flushes what was observed so far and ends the child process normally
// (used by watchdogs after they recorded their finding).
func (c *Ctx) Abort(note string) {
	c.Note("aborted: %s", note)
	locked := c.flushMu.TryLock() // the stuck call may hold it; flush anyway
	_ = c.flushNoLock(true)
	if locked {
		c.flushMu.Unlock()
	}
	os.Exit(0)
}

func newCtx(p *Prop, tier string, seed int64, shard, nshards int, mode, out string) *Ctx {
	return &Ctx{Prop: p, Tier: tier, Seed: seed, Shard: shard, NShards: nshards, Mode: mode, OutDir: out,
		distinct: map[uint64]struct{}{}, viol: map[string]*Violation{}, sets: map[string]map[string]struct{}{},
		res: Result{Inconclusive: map[string]int64{}, Obs: map[string]int64{}, ObsMax: map[string]int64{}}, maxSamples: 4}
}

// Thorough reports whether the thorough tier is running.
func (c *Ctx) Thorough() bool { return c.Tier == "thorough" }

// Pick returns q for the quick tier and t for the thorough tier.
func (c *Ctx) Pick(q, t int) int {
	if c.Thorough() {
		return t
	}
	return q
}

// Mine reports whether case number i belongs to this shard.
func (c *Ctx) Mine(i int) bool { return c.NShards <= 1 || i%c.NShards == c.Shard }

// Hash hashes a case signature.
func Hash(parts ...any) uint64 {
	h := fnv.New64a()
	for _, p := range parts {
		fmt.Fprintf(h, "%v\x00", p)
	}
	return h.Sum64()
}

// Mix derives a sub-seed from a seed and labels (splitmix64 finaliser).
func Mix(seed int64, parts ...any) int64 {
	z := uint64(seed)*0x9E3779B97F4A7C15 ^ Hash(parts...)
	z = (z ^ (z >> 30)) * 0xBF58476D1CE4E5B9
	z = (z ^ (z >> 27)) * 0x94D049BB133111EB
	z ^= z >> 31
	return int64(z & 0x7fffffffffffffff)
}

// Rand returns a deterministic PRNG for the given seed and labels.
func Rand(seed int64, parts ...any) *rand.Rand {
	return rand.New(rand.NewSource(Mix(seed, parts...)))
}

// Case records that one case was evaluated. sig identifies the case's class
// for the distinct count; nontrivial says whether it satisfies the property's
// non-triviality rule; sample (may be nil) is kept for the evidence file for
// the first few cases.
func (c *Ctx) Case(sig uint64, nontrivial bool, sample func() any) {
	c.mu.Lock()
	defer c.mu.Unlock()
	c.res.Evaluations++
	if nontrivial {
		if _, ok := c.distinct[sig]; !ok {
			c.distinct[sig] = struct{}{}
			if sample != nil && len(c.res.Samples) < c.maxSamples {
				c.res.Samples = append(c.res.Samples, sample())
			}
		}
	}
}

// Evals adds n evaluations without distinct accounting.
func (c *Ctx) Evals(n int64) {
	c.mu.Lock()
	c.res.Evaluations += n
	c.mu.Unlock()
}

// Violation records a refutation. signature names the specific failing
// class (input class / call site / history shape); witness is stored in a
// replay file for the first few occurrences of each signature.
func (c *Ctx) Violation(signature, what string, witness any) {
	c.mu.Lock()
	defer c.mu.Unlock()
	v := c.viol[signature]
	if v == nil {
		v = &Violation{Signature: signature, What: what}
		raw, err := json.Marshal(witness)
		if err != nil {
			raw, _ = json.Marshal(fmt.Sprintf("%+v", witness))
		}
		v.Case = raw
		name := fmt.Sprintf("replay-%s-%016x.json", c.Prop.ID, Hash(signature, c.Shard, c.Mode))
		path := filepath.Join(c.OutDir, name)
		doc := map[string]any{"property": c.Prop.ID, "signature": signature, "what": what, "seed": c.Seed,
			"tier": c.Tier, "mode": c.Mode, "case": json.RawMessage(raw)}
		b, _ := json.MarshalIndent(doc, "", " ")
		if os.WriteFile(path, b, 0o644) == nil {
			v.Replay = path
		}
		c.viol[signature] = v
		c.res.Violations = append(c.res.Violations, v)
	}
	v.Count++
}

// Inconclusive records a case whose verdict could not be decided.
func (c *Ctx) Inconclusive(reason string) {
	reason = addrRe.ReplaceAllString(reason, "<addr>") // (one evidence entry per kind of reason, not per port)
	c.mu.Lock()
	c.res.Inconclusive[reason]++
	c.mu.Unlock()
}

var addrRe = regexp.MustCompile(`\d+\.\d+\.\d+\.\d+:\d+`)

// Obs adds delta to a named counter that is reported in the evidence.
func (c *Ctx) Obs(key string, delta int64) {
	c.mu.Lock()
	c.res.Obs[key] += delta
	c.mu.Unlock()
}

// ObsMax keeps the maximum of a named gauge.
func (c *Ctx) ObsMax(key string, v int64) {
	c.mu.Lock()
	if v > c.res.ObsMax[key] {
		c.res.ObsMax[key] = v
	}
	c.mu.Unlock()
}

// SetAdd adds an element to a named set whose size is reported (distinct
// interleavings, distinct states, ...). Sets are capped at 100000 elements.
func (c *Ctx) SetAdd(set, elem string) {
	c.mu.Lock()
	m := c.sets[set]
	if m == nil {
		m = map[string]struct{}{}
		c.sets[set] = m
	}
	if len(m) < 100000 {
		m[elem] = struct{}{}
	}
	c.mu.Unlock()
}

// Note adds a free-text note to the evidence.
func (c *Ctx) Note(format string, a ...any) {
	c.mu.Lock()
	if len(c.res.Notes) < 50 {
		c.res.Notes = append(c.res.Notes, fmt.Sprintf(format, a...))
	}
	c.mu.Unlock()
}

// Journal appends a line to the child's journal before a risky call, so that
// a fatal error can be attributed to its input.
func (c *Ctx) Journal(format string, a ...any) {
	c.mu.Lock()
	defer c.mu.Unlock()
	if c.journal == nil {
		f, err := os.OpenFile(filepath.Join(c.OutDir, fmt.Sprintf("journal-%d.txt", c.Shard)), os.O_CREATE|os.O_WRONLY|os.O_TRUNC, 0o644)
		if err != nil {
			return
		}
		c.journal = f
	}
	// Only the last line is ever used (crash attribution), so the file is kept small: it starts over at 4 MiB.
	if c.journalSize > 4<<20 {
		if err := c.journal.Truncate(0); err == nil {
			_, _ = c.journal.Seek(0, 0)
		}
		c.journalSize = 0
	}
	n, _ := fmt.Fprintf(c.journal, format+"\n", a...)
	c.journalSize += int64(n)
}

func (c *Ctx) flush(completed bool) error {
	c.flushMu.Lock()
	defer c.flushMu.Unlock()
	return c.flushNoLock(completed)
}

func (c *Ctx) flushNoLock(completed bool) error {
	c.mu.Lock()
	defer c.mu.Unlock()
	c.res.Completed = completed
	c.res.Distinct = c.res.Distinct[:0]
	for h := range c.distinct {
		c.res.Distinct = append(c.res.Distinct, h)
	}
	c.res.Sets = map[string][]string{}
	for k, m := range c.sets {
		for e := range m {
			c.res.Sets[k] = append(c.res.Sets[k], e)
		}
	}
	b, err := json.Marshal(&c.res)
	if err != nil {
		return err
	}
	tmp := filepath.Join(c.OutDir, fmt.Sprintf("result-%d.json.tmp", c.Shard))
	if err := os.WriteFile(tmp, b, 0o644); err != nil {
		return err
	}
	return os.Rename(tmp, filepath.Join(c.OutDir, fmt.Sprintf("result-%d.json", c.Shard)))
}
