package fw

import (
	"bufio"
	"context"
	"encoding/json"
	"flag"
	"fmt"
	"os"
	"os/exec"
	"path/filepath"
	"regexp"
	"runtime"
	"runtime/debug"
	"sort"
	"strconv"
	"strings"
	"sync"
	"syscall"
	"time"
)

const (
	repoPrefix    = "github.com/mholt/caddy-l4/"
	harnessPrefix = "verifharness/"
)

func root() string {
	if r := os.Getenv("VERIF_ROOT"); r != "" {
		return r
	}
	return "/verif"
}

// Main is the entry point of the vprops binary.
func Main() {
	if len(os.Args) < 2 {
		fmt.Fprintln(os.Stderr, "usage: vprops parent <ID> <tier> | child ... | replay <ID> <file> | list")
		os.Exit(2)
	}
	switch os.Args[1] {
	case "list":
		for _, id := range IDs() {
			fmt.Println(id)
		}
	case "needs-race":
		if len(os.Args) < 4 {
			os.Exit(2)
		}
		if p := Lookup(os.Args[2]); p != nil {
			for _, s := range p.Plan(os.Args[3]) {
				if s.Race {
					os.Exit(0)
				}
			}
		}
		os.Exit(1)
	case "parent":
		if len(os.Args) < 4 {
			fmt.Fprintln(os.Stderr, "usage: vprops parent <ID> <tier>")
			os.Exit(2)
		}
		os.Exit(parent(os.Args[2], os.Args[3]))
	case "child":
		os.Exit(child(os.Args[2:]))
	case "replay":
		if len(os.Args) < 4 {
			fmt.Fprintln(os.Stderr, "usage: vprops replay <ID> <file>")
			os.Exit(2)
		}
		os.Exit(replay(os.Args[2], os.Args[3]))
	default:
		fmt.Fprintln(os.Stderr, "unknown command", os.Args[1])
		os.Exit(2)
	}
}

func seedFromEnv() int64 {
	if s := os.Getenv("VERIF_SEED"); s != "" {
		if v, err := strconv.ParseInt(s, 10, 64); err == nil {
			return v
		}
	}
	return 1
}

func child(args []string) int {
	fs := flag.NewFlagSet("child", flag.ExitOnError)
	mode := fs.String("mode", "", "")
	shard := fs.Int("shard", 0, "")
	nshards := fs.Int("nshards", 1, "")
	out := fs.String("out", "", "")
	seed := fs.Int64("seed", 1, "")
	if len(args) < 2 {
		return 2
	}
	id, tier := args[0], args[1]
	_ = fs.Parse(args[2:])
	p := Lookup(id)
	if p == nil {
		fmt.Fprintln(os.Stderr, "unknown property", id)
		return 2
	}
	c := newCtx(p, tier, *seed, *shard, *nshards, *mode, *out)
	// periodic flush so that a hard crash still leaves partial observations
	stop := make(chan struct{})
	go func() {
		t := time.NewTicker(2 * time.Second)
		defer t.Stop()
		for {
			select {
			case <-t.C:
				_ = c.flush(false)
			case <-stop:
				return
			}
		}
	}()
	p.Run(c)
	close(stop)
	if err := c.flush(true); err != nil {
		fmt.Fprintln(os.Stderr, "flush:", err)
		return 2
	}
	return 0
}

func replay(id, path string) int {
	p := Lookup(id)
	if p == nil || p.Replay == nil {
		fmt.Fprintln(os.Stderr, "property has no replay function:", id)
		return 2
	}
	b, err := os.ReadFile(path)
	if err != nil {
		fmt.Fprintln(os.Stderr, err)
		return 2
	}
	var doc struct {
		Seed int64           `json:"seed"`
		Tier string          `json:"tier"`
		Mode string          `json:"mode"`
		Case json.RawMessage `json:"case"`
	}
	if err := json.Unmarshal(b, &doc); err != nil {
		fmt.Fprintln(os.Stderr, err)
		return 2
	}
	out := filepath.Join(root(), "evidence", ".work", id, "replay")
	_ = os.MkdirAll(out, 0o755)
	c := newCtx(p, doc.Tier, doc.Seed, 0, 1, doc.Mode, out)
	p.Replay(c, doc.Case)
	if len(c.res.Violations) > 0 {
		for _, v := range c.res.Violations {
			fmt.Printf("VIOLATION property=%s replay=%s\n  %s: %s\n", id, path, v.Signature, v.What)
		}
		return 1
	}
	fmt.Println("replay: no violation reproduced")
	return 0
}

type finding struct {
	Property  string
	Signature string
	Status    string
	What      string
}

// loadFindings reads /verif/known_findings.txt. Line formats:
//
//	known: property=<id> signature=<signature> :: <what fails>
//	fixed: property=<id> <commit> <what failed>
//
// Only "known" lines suppress a violation (it is then printed as KNOWN-FINDING);
// "fixed" lines are documentation and suppress nothing.
func loadFindings() []finding {
	var out []finding
	f, err := os.Open(filepath.Join(root(), "known_findings.txt"))
	if err != nil {
		return nil
	}
	defer f.Close()
	sc := bufio.NewScanner(f)
	sc.Buffer(make([]byte, 1<<20), 1<<20)
	for sc.Scan() {
		line := strings.TrimSpace(sc.Text())
		if !strings.HasPrefix(line, "known: property=") {
			continue
		}
		rest := strings.TrimPrefix(line, "known: property=")
		sp := strings.Index(rest, " signature=")
		if sp < 0 {
			continue
		}
		fd := finding{Property: rest[:sp], Status: "known"}
		rest = rest[sp+len(" signature="):]
		if k := strings.Index(rest, " :: "); k >= 0 {
			fd.Signature, fd.What = rest[:k], rest[k+4:]
		} else {
			fd.Signature = rest
		}
		out = append(out, fd)
	}
	return out
}

type procOutcome struct {
	spec     ChildSpec
	shard    int
	dir      string
	res      *Result
	exitErr  error
	timedOut bool
	output   string
	wall     time.Duration
}

func parent(id, tier string) int {
	start := time.Now()
	p := Lookup(id)
	if p == nil {
		fmt.Fprintln(os.Stderr, "unknown property", id)
		return 2
	}
	if tier != "quick" && tier != "thorough" {
		fmt.Fprintln(os.Stderr, "tier must be quick or thorough")
		return 2
	}
	seed := seedFromEnv()
	work := filepath.Join(root(), "evidence", ".work", id)
	runDir := filepath.Join(work, "run-"+tier)
	if alt := os.Getenv("VERIF_REPO"); alt != "" {
		// self-validation against a scratch copy: its own directory, so that such a run never touches the files of a
		// registered run that happens at the same time
		runDir = filepath.Join(work, fmt.Sprintf("run-%s-alt-%x", tier, fnvHash(alt)))
	}
	_ = os.RemoveAll(runDir)
	if err := os.MkdirAll(runDir, 0o755); err != nil {
		fmt.Fprintln(os.Stderr, err)
		return 2
	}
	specs := p.Plan(tier)
	self, _ := os.Executable()
	raceBin := ""
	for _, s := range specs {
		if s.Race {
			raceBin = os.Getenv("VERIF_RACE_BIN")
			if raceBin == "" {
				fmt.Fprintln(os.Stderr, "VERIF_RACE_BIN not set but plan needs the race build")
				return 2
			}
			break
		}
	}

	maxProcs := runtime.NumCPU()
	if maxProcs < 2 {
		maxProcs = 2
	}
	sem := make(chan struct{}, maxProcs)
	var wg sync.WaitGroup
	var mu sync.Mutex
	var outcomes []*procOutcome
	for _, s := range specs {
		if s.Shards < 1 {
			s.Shards = 1
		}
		if s.Timeout == 0 {
			s.Timeout = 10 * time.Minute
		}
		for sh := 0; sh < s.Shards; sh++ {
			s, sh := s, sh
			wg.Add(1)
			go func() {
				defer wg.Done()
				sem <- struct{}{}
				defer func() { <-sem }()
				o := runChild(self, raceBin, id, tier, seed, s, sh, runDir)
				mu.Lock()
				outcomes = append(outcomes, o)
				mu.Unlock()
			}()
		}
	}
	wg.Wait()
	sort.Slice(outcomes, func(i, j int) bool {
		if outcomes[i].spec.Name != outcomes[j].spec.Name {
			return outcomes[i].spec.Name < outcomes[j].spec.Name
		}
		return outcomes[i].shard < outcomes[j].shard
	})

	// merge
	merged := Result{Inconclusive: map[string]int64{}, Obs: map[string]int64{}, ObsMax: map[string]int64{}}
	distinct := map[uint64]struct{}{}
	sets := map[string]map[string]struct{}{}
	viol := map[string]*Violation{}
	var violOrder []string
	var machinery []string
	addViolation := func(v *Violation) {
		if old := viol[v.Signature]; old != nil {
			old.Count += v.Count
			return
		}
		cp := *v
		viol[v.Signature] = &cp
		violOrder = append(violOrder, v.Signature)
	}
	raceReports := 0
	raceDistinct := map[string]struct{}{}
	for _, o := range outcomes {
		if o.res != nil {
			merged.Evaluations += o.res.Evaluations
			for _, h := range o.res.Distinct {
				distinct[h] = struct{}{}
			}
			if len(merged.Samples) < 6 {
				for _, s := range o.res.Samples {
					if len(merged.Samples) < 6 {
						merged.Samples = append(merged.Samples, s)
					}
				}
			}
			for _, v := range o.res.Violations {
				addViolation(v)
			}
			for k, n := range o.res.Inconclusive {
				merged.Inconclusive[k] += n
			}
			for k, n := range o.res.Obs {
				merged.Obs[k] += n
			}
			for k, n := range o.res.ObsMax {
				if n > merged.ObsMax[k] {
					merged.ObsMax[k] = n
				}
			}
			for k, es := range o.res.Sets {
				m := sets[k]
				if m == nil {
					m = map[string]struct{}{}
					sets[k] = m
				}
				for _, e := range es {
					m[e] = struct{}{}
				}
			}
			for _, n := range o.res.Notes {
				if len(merged.Notes) < 50 {
					merged.Notes = append(merged.Notes, n)
				}
			}
		}
		label := fmt.Sprintf("%s/%d", o.spec.Name, o.shard)
		if o.exitErr != nil || o.res == nil || !o.res.Completed {
			// the process did not finish normally: crash, fatal error or watchdog
			kind, frame, owner, head := classifyCrash(o.output)
			journal := lastJournalLine(o.dir, o.shard)
			switch {
			case o.timedOut:
				machinery = append(machinery, fmt.Sprintf("child %s: watchdog fired after %s (output %s)", label, o.spec.Timeout, filepath.Join(o.dir, fmt.Sprintf("output-%d.txt", o.shard))))
			case kind != "" && owner == "repo":
				sig := fmt.Sprintf("%s crash %s in %s", id, kind, frame)
				w := map[string]any{"kind": kind, "frame": frame, "headline": head, "last_journal": journal, "child": label,
					"output": filepath.Join(o.dir, fmt.Sprintf("output-%d.txt", o.shard))}
				raw, _ := json.Marshal(w)
				rp := filepath.Join(o.dir, fmt.Sprintf("replay-crash-%d.json", o.shard))
				doc, _ := json.MarshalIndent(map[string]any{"property": id, "signature": sig, "seed": seed, "tier": tier, "mode": o.spec.Mode, "case": json.RawMessage(raw)}, "", " ")
				_ = os.WriteFile(rp, doc, 0o644)
				addViolation(&Violation{Signature: sig, What: fmt.Sprintf("process crashed: %s (last journalled input: %s)", head, journal), Count: 1, Replay: rp, Case: raw})
			default:
				machinery = append(machinery, fmt.Sprintf("child %s failed: err=%v kind=%q owner=%q frame=%q head=%q (output %s)", label, o.exitErr, kind, owner, frame, head, filepath.Join(o.dir, fmt.Sprintf("output-%d.txt", o.shard))))
			}
		}
		if o.spec.Race {
			reps := parseRaceLogs(o.dir, o.shard, o.output)
			for _, r := range reps {
				raceReports++
				switch r.owner {
				case "repo":
					raceDistinct[r.key] = struct{}{}
					sig := fmt.Sprintf("%s race %s", id, r.key)
					raw, _ := json.Marshal(map[string]any{"report": r.text, "child": label})
					rp := filepath.Join(o.dir, fmt.Sprintf("replay-race-%016x.json", Hash(r.key)))
					doc, _ := json.MarshalIndent(map[string]any{"property": id, "signature": sig, "seed": seed, "tier": tier, "mode": o.spec.Mode, "case": json.RawMessage(raw)}, "", " ")
					_ = os.WriteFile(rp, doc, 0o644)
					addViolation(&Violation{Signature: sig, What: "data race reported by the Go race detector: " + r.key, Count: 1, Replay: rp, Case: raw})
				case "harness":
					machinery = append(machinery, fmt.Sprintf("child %s: race inside the harness itself: %s", label, r.key))
				default:
					merged.Obs["race_reports_unattributed"]++
				}
			}
		}
	}
	for k, m := range sets {
		merged.Obs["distinct_"+k] = int64(len(m))
	}
	if raceBin != "" {
		merged.Obs["race_reports"] = int64(raceReports)
		merged.Obs["race_reports_repo_distinct"] = int64(len(raceDistinct))
	}

	// verdicts
	findings := loadFindings()
	unlisted := 0
	knownHit := 0
	for _, sig := range violOrder {
		v := viol[sig]
		listed := false
		for _, f := range findings {
			if f.Property == id && f.Status == "known" && f.Signature == v.Signature {
				listed = true
				fmt.Printf("KNOWN-FINDING: property=%s %s (%s; seen %d times this run)\n", id, v.Signature, f.What, v.Count)
				knownHit++
				break
			}
		}
		if !listed {
			unlisted++
			fmt.Printf("VIOLATION property=%s replay=%s\n", id, v.Replay)
			fmt.Printf("  signature: %s\n  what: %s\n  occurrences: %d\n", v.Signature, v.What, v.Count)
		}
	}
	for _, m := range machinery {
		fmt.Printf("MACHINERY-FAILURE: %s\n", m)
	}
	totalInc := int64(0)
	for _, n := range merged.Inconclusive {
		totalInc += n
	}

	anchorCov := anchorCoverage(id, filepath.Join(runDir, "cov"))

	// evidence
	cov := map[string]any{
		"evaluations":         merged.Evaluations,
		"distinct_nontrivial": len(distinct),
		"rule":                p.Rule,
		"samples":             merged.Samples,
		"inconclusive":        merged.Inconclusive,
		"observed":            merged.Obs,
		"observed_max":        merged.ObsMax,
		"known_findings_hit":  knownHit,
		"children":            len(outcomes),
	}
	if len(merged.Notes) > 0 {
		cov["notes"] = merged.Notes
	}
	if anchorCov != nil {
		cov["anchor_file_statement_coverage_percent"] = anchorCov
	}
	if cov["samples"] == nil {
		cov["samples"] = []any{}
	}
	ev := map[string]any{
		"property_id": id,
		"tier":        tier,
		"seed":        seed,
		"level":       p.Level,
		"coverage":    cov,
		"assumptions": p.Assumptions,
		"wall_s":      time.Since(start).Seconds(),
		"violations":  unlisted,
	}
	b, _ := json.MarshalIndent(ev, "", " ")
	_ = os.MkdirAll(filepath.Join(root(), "evidence"), 0o755)
	if err := os.WriteFile(filepath.Join(root(), "evidence", id+".json"), append(b, '\n'), 0o644); err != nil {
		fmt.Fprintln(os.Stderr, "writing evidence:", err)
		return 2
	}

	fmt.Printf("SUMMARY property=%s tier=%s seed=%d evaluations=%d distinct_nontrivial=%d violations=%d known=%d inconclusive=%d wall=%.1fs\n",
		id, tier, seed, merged.Evaluations, len(distinct), unlisted, knownHit, totalInc, time.Since(start).Seconds())
	if unlisted > 0 {
		return 1
	}
	if len(machinery) > 0 {
		return 2
	}
	if merged.Evaluations < p.MinEvals {
		fmt.Printf("MACHINERY-FAILURE: observed only %d evaluations, floor is %d\n", merged.Evaluations, p.MinEvals)
		return 2
	}
	return 0
}

func runChild(self, raceBin, id, tier string, seed int64, s ChildSpec, shard int, runDir string) *procOutcome {
	dir := filepath.Join(runDir, s.Name)
	_ = os.MkdirAll(dir, 0o755)
	bin := self
	if s.Race {
		bin = raceBin
	} else if cb := os.Getenv("VERIF_COVER_BIN"); cb != "" {
		bin = cb
	}
	args := []string{"child", id, tier, "--mode", s.Mode, "--shard", strconv.Itoa(shard), "--nshards", strconv.Itoa(s.Shards),
		"--out", dir, "--seed", strconv.FormatInt(seed, 10)}
	ctx, cancel := context.WithCancel(context.Background())
	defer cancel()
	cmd := exec.CommandContext(ctx, bin, args...)
	outPath := filepath.Join(dir, fmt.Sprintf("output-%d.txt", shard))
	outF, _ := os.Create(outPath)
	cmd.Stdout = outF
	cmd.Stderr = outF
	cmd.Env = append(os.Environ(), s.Env...)
	cmd.Env = append(cmd.Env, "GOTRACEBACK=all")
	if !s.Race && os.Getenv("VERIF_COVER_BIN") != "" {
		covDir := filepath.Join(runDir, "cov")
		_ = os.MkdirAll(covDir, 0o755)
		cmd.Env = append(cmd.Env, "GOCOVERDIR="+covDir)
	}
	if s.Race {
		cmd.Env = append(cmd.Env, fmt.Sprintf("GORACE=halt_on_error=0 exitcode=0 history_size=3 log_path=%s", filepath.Join(dir, fmt.Sprintf("race-%d", shard))))
	}
	cmd.SysProcAttr = &syscall.SysProcAttr{Setpgid: true}
	o := &procOutcome{spec: s, shard: shard, dir: dir}
	t0 := time.Now()
	if err := cmd.Start(); err != nil {
		o.exitErr = err
		return o
	}
	done := make(chan error, 1)
	go func() { done <- cmd.Wait() }()
	select {
	case err := <-done:
		o.exitErr = err
	case <-time.After(s.Timeout):
		o.timedOut = true
		_ = syscall.Kill(-cmd.Process.Pid, syscall.SIGQUIT)
		select {
		case err := <-done:
			o.exitErr = err
		case <-time.After(10 * time.Second):
			_ = syscall.Kill(-cmd.Process.Pid, syscall.SIGKILL)
			o.exitErr = <-done
		}
	}
	o.wall = time.Since(t0)
	outF.Close()
	// make sure no stray grandchildren survive
	_ = syscall.Kill(-cmd.Process.Pid, syscall.SIGKILL)
	if b, err := os.ReadFile(outPath); err == nil {
		if len(b) > 4<<20 {
			b = append(b[:2<<20:2<<20], b[len(b)-(2<<20):]...)
		}
		o.output = string(b)
	}
	if b, err := os.ReadFile(filepath.Join(dir, fmt.Sprintf("result-%d.json", shard))); err == nil {
		var r Result
		if json.Unmarshal(b, &r) == nil {
			o.res = &r
		}
	}
	return o
}

func lastJournalLine(dir string, shard int) string {
	b, err := os.ReadFile(filepath.Join(dir, fmt.Sprintf("journal-%d.txt", shard)))
	if err != nil || len(b) == 0 {
		return ""
	}
	lines := strings.Split(strings.TrimRight(string(b), "\n"), "\n")
	l := lines[len(lines)-1]
	if len(l) > 600 {
		l = l[:600] + "..."
	}
	return l
}

var frameRe = regexp.MustCompile(`^([A-Za-z0-9_./\-]+(?:\.\([^)]*\))?[A-Za-z0-9_.\-\[\]·]*)\(`)

// frameOwner classifies a function name found in a stack trace.
func frameOwner(fn string) string {
	switch {
	case strings.HasPrefix(fn, repoPrefix):
		return "repo"
	case strings.HasPrefix(fn, harnessPrefix) || strings.HasPrefix(fn, "main."):
		return "harness"
	}
	return ""
}

// classifyCrash inspects a child's output for a Go panic / fatal error and
// attributes it to the first repo or harness frame of the crashing goroutine.
func classifyCrash(out string) (kind, frame, owner, headline string) {
	lines := strings.Split(out, "\n")
	idx := -1
	for i, l := range lines {
		if strings.HasPrefix(l, "panic: ") || strings.HasPrefix(l, "fatal error: ") {
			idx = i
			headline = l
			if strings.HasPrefix(l, "panic: ") {
				kind = "panic"
			} else {
				kind = "fatal"
			}
			break
		}
	}
	if idx < 0 {
		return "", "", "", ""
	}
	if len(headline) > 300 {
		headline = headline[:300]
	}
	// first goroutine block after the headline
	i := idx + 1
	for i < len(lines) && !strings.HasPrefix(lines[i], "goroutine ") {
		i++
	}
	for i++; i < len(lines); i++ {
		l := lines[i]
		if l == "" {
			break
		}
		if strings.HasPrefix(l, "\t") || strings.HasPrefix(l, " ") {
			continue
		}
		fn := l
		if k := strings.LastIndex(fn, "("); k > 0 {
			fn = fn[:k]
		}
		if o := frameOwner(fn); o != "" {
			return kind, normaliseFunc(fn), o, headline
		}
	}
	return kind, "", "", headline
}

var closureRe = regexp.MustCompile(`\.func\d+(\.\d+)*$|\.gowrap\d+$`)

func normaliseFunc(fn string) string {
	fn = strings.TrimPrefix(fn, repoPrefix)
	fn = closureRe.ReplaceAllString(fn, "")
	return fn
}

type raceReport struct {
	key   string
	owner string
	text  string
}

// parseRaceLogs reads the race detector's log files of one child and
// attributes each report to the repository or to the harness by the first
// repo/harness frame of each of the two access stacks.
func parseRaceLogs(dir string, shard int, output string) []raceReport {
	var texts []string
	matches, _ := filepath.Glob(filepath.Join(dir, fmt.Sprintf("race-%d.*", shard)))
	for _, m := range matches {
		if b, err := os.ReadFile(m); err == nil {
			texts = append(texts, string(b))
		}
	}
	texts = append(texts, output)
	seen := map[string]bool{}
	var reps []raceReport
	for _, t := range texts {
		blocks := strings.Split(t, "WARNING: DATA RACE")
		for _, b := range blocks[1:] {
			if k := strings.Index(b, "=================="); k >= 0 {
				b = b[:k]
			}
			// the two access stacks are the first two paragraphs
			paras := strings.Split(b, "\n\n")
			var sites []string
			var owners []string
			for _, para := range paras {
				pl := strings.Split(strings.TrimLeft(para, "\n"), "\n")
				if len(pl) == 0 {
					continue
				}
				head := pl[0]
				if !(strings.Contains(head, "Write at") || strings.Contains(head, "Read at") || strings.Contains(head, "Previous write at") || strings.Contains(head, "Previous read at") ||
					strings.Contains(head, "write at") || strings.Contains(head, "read at")) {
					continue
				}
				site, owner := "", ""
				for _, l := range pl[1:] {
					if strings.HasPrefix(l, "      ") { // file:line
						continue
					}
					fn := strings.TrimSpace(l)
					if k := strings.LastIndex(fn, "("); k > 0 {
						fn = fn[:k]
					}
					if o := frameOwner(fn); o != "" {
						site, owner = normaliseFunc(fn), o
						break
					}
				}
				sites = append(sites, site)
				owners = append(owners, owner)
				if len(sites) == 2 {
					break
				}
			}
			owner := ""
			for _, o := range owners {
				if o == "repo" {
					owner = "repo"
				}
			}
			if owner == "" {
				for _, o := range owners {
					if o == "harness" {
						owner = "harness"
					}
				}
			}
			sort.Strings(sites)
			key := strings.Join(sites, " <-> ")
			if seen[key] {
				continue
			}
			seen[key] = true
			if len(b) > 6000 {
				b = b[:6000]
			}
			reps = append(reps, raceReport{key: key, owner: owner, text: b})
		}
	}
	return reps
}

func init() {
	// children of timing-sensitive checks should not be disturbed by GC of huge heaps
	debug.SetGCPercent(100)
}

// anchorCoverage converts the coverage counters that the children of a -cover build wrote into per-file statement
// coverage of the property's anchored repository files (nil when the run was not a coverage run).
func anchorCoverage(id, covDir string) map[string]float64 {
	if os.Getenv("VERIF_COVER_BIN") == "" {
		return nil
	}
	ents, err := os.ReadDir(covDir)
	if err != nil || len(ents) == 0 {
		return nil
	}
	prof := filepath.Join(covDir, "profile.txt")
	cmd := exec.Command("go", "tool", "covdata", "textfmt", "-i="+covDir, "-o="+prof)
	if out, err := cmd.CombinedOutput(); err != nil {
		fmt.Printf("note: covdata failed: %v %s\n", err, string(out))
		return nil
	}
	// anchors of this property
	anchors := map[string]bool{}
	if f, err := os.Open(filepath.Join(root(), "properties.jsonl")); err == nil {
		sc := bufio.NewScanner(f)
		sc.Buffer(make([]byte, 1<<20), 1<<20)
		for sc.Scan() {
			var p struct {
				ID      string `json:"id"`
				Anchors struct {
					Files []string `json:"files"`
				} `json:"anchors"`
			}
			if json.Unmarshal(sc.Bytes(), &p) == nil && p.ID == id {
				for _, fn := range p.Anchors.Files {
					anchors[fn] = true
				}
			}
		}
		f.Close()
	}
	type cnt struct{ total, covered int }
	per := map[string]*cnt{}
	seen := map[string]int{} // block -> max count
	stm := map[string]int{}
	if f, err := os.Open(prof); err == nil {
		sc := bufio.NewScanner(f)
		sc.Buffer(make([]byte, 1<<20), 1<<20)
		for sc.Scan() {
			line := sc.Text()
			if strings.HasPrefix(line, "mode:") {
				continue
			}
			// github.com/mholt/caddy-l4/layer4/routes.go:12.3,14.5 2 1
			k := strings.LastIndex(line, ":")
			if k < 0 {
				continue
			}
			file := strings.TrimPrefix(line[:k], repoPrefix)
			var blk string
			var n, c int
			if _, err := fmt.Sscanf(line[k+1:], "%s %d %d", &blk, &n, &c); err != nil {
				continue
			}
			key := file + "|" + blk
			stm[key] = n
			if c > seen[key] {
				seen[key] = c
			} else if _, ok := seen[key]; !ok {
				seen[key] = c
			}
		}
		f.Close()
	}
	for key, n := range stm {
		file := key[:strings.Index(key, "|")]
		if !anchors[file] {
			continue
		}
		p := per[file]
		if p == nil {
			p = &cnt{}
			per[file] = p
		}
		p.total += n
		if seen[key] > 0 {
			p.covered += n
		}
	}
	out := map[string]float64{}
	for file, p := range per {
		if p.total > 0 {
			out[file] = float64(int(1000*float64(p.covered)/float64(p.total))) / 10
		}
	}
	return out
}

func fnvHash(s string) uint32 {
	h := uint32(2166136261)
	for i := 0; i < len(s); i++ {
		h = (h ^ uint32(s[i])) * 16777619
	}
	return h
}
