// Package ref holds independent reference encoders/decoders and predicates
// written from the wire definitions (not from the repository's code).
package ref

import (
	"encoding/binary"
	"errors"
	"fmt"
	"net"
	"strconv"
	"strings"
)

// ProxyHeader is an abstract PROXY protocol header.
type ProxyHeader struct {
	Version int    // 1 or 2
	Local   bool   // v2 LOCAL command
	Family  string // "tcp4","tcp6","unknown" (v1: UNKNOWN; v2: UNSPEC), "udp4","udp6","unix"
	SrcIP   net.IP
	DstIP   net.IP
	SrcPort int
	DstPort int
	SrcUnix string
	DstUnix string
	TLVs    []byte // raw TLV bytes appended (v2)
	V1Tail  string // extra text after UNKNOWN (v1)
}

var v2sig = []byte{0x0D, 0x0A, 0x0D, 0x0A, 0x00, 0x0D, 0x0A, 0x51, 0x55, 0x49, 0x54, 0x0A}

// Encode serialises the header per the HAProxy PROXY protocol specification.
func (h *ProxyHeader) Encode() []byte {
	if h.Version == 1 {
		switch h.Family {
		case "tcp4":
			return []byte(fmt.Sprintf("PROXY TCP4 %s %s %d %d\r\n", h.SrcIP.To4().String(), h.DstIP.To4().String(), h.SrcPort, h.DstPort))
		case "tcp6":
			return []byte(fmt.Sprintf("PROXY TCP6 %s %s %d %d\r\n", h.SrcIP.To16().String(), h.DstIP.To16().String(), h.SrcPort, h.DstPort))
		default:
			return []byte("PROXY UNKNOWN" + h.V1Tail + "\r\n")
		}
	}
	out := append([]byte(nil), v2sig...)
	cmd := byte(0x21)
	if h.Local {
		cmd = 0x20
	}
	out = append(out, cmd)
	var fam byte
	var addr []byte
	switch h.Family {
	case "tcp4", "udp4":
		fam = 0x11
		if h.Family == "udp4" {
			fam = 0x12
		}
		addr = append(addr, h.SrcIP.To4()...)
		addr = append(addr, h.DstIP.To4()...)
		addr = binary.BigEndian.AppendUint16(addr, uint16(h.SrcPort))
		addr = binary.BigEndian.AppendUint16(addr, uint16(h.DstPort))
	case "tcp6", "udp6":
		fam = 0x21
		if h.Family == "udp6" {
			fam = 0x22
		}
		addr = append(addr, h.SrcIP.To16()...)
		addr = append(addr, h.DstIP.To16()...)
		addr = binary.BigEndian.AppendUint16(addr, uint16(h.SrcPort))
		addr = binary.BigEndian.AppendUint16(addr, uint16(h.DstPort))
	case "unix":
		fam = 0x31
		s := make([]byte, 108)
		copy(s, h.SrcUnix)
		d := make([]byte, 108)
		copy(d, h.DstUnix)
		addr = append(addr, s...)
		addr = append(addr, d...)
	default:
		fam = 0x00
	}
	out = append(out, fam)
	out = binary.BigEndian.AppendUint16(out, uint16(len(addr)+len(h.TLVs)))
	out = append(out, addr...)
	out = append(out, h.TLVs...)
	return out
}

// ParseProxyHeader is an independent parser: it returns the header and the
// number of bytes it occupies at the start of b.
func ParseProxyHeader(b []byte) (*ProxyHeader, int, error) {
	if len(b) >= 12 && string(b[:12]) == string(v2sig) {
		if len(b) < 16 {
			return nil, 0, errors.New("short v2 header")
		}
		h := &ProxyHeader{Version: 2}
		switch b[12] {
		case 0x20:
			h.Local = true
		case 0x21:
		default:
			return nil, 0, fmt.Errorf("bad version/command byte %#x", b[12])
		}
		l := int(binary.BigEndian.Uint16(b[14:16]))
		if len(b) < 16+l {
			return nil, 0, errors.New("short v2 body")
		}
		body := b[16 : 16+l]
		switch b[13] {
		case 0x11, 0x12:
			if len(body) < 12 {
				return nil, 0, errors.New("short inet body")
			}
			h.Family = map[byte]string{0x11: "tcp4", 0x12: "udp4"}[b[13]]
			h.SrcIP = net.IP(append([]byte(nil), body[0:4]...))
			h.DstIP = net.IP(append([]byte(nil), body[4:8]...))
			h.SrcPort = int(binary.BigEndian.Uint16(body[8:10]))
			h.DstPort = int(binary.BigEndian.Uint16(body[10:12]))
			h.TLVs = append([]byte(nil), body[12:]...)
		case 0x21, 0x22:
			if len(body) < 36 {
				return nil, 0, errors.New("short inet6 body")
			}
			h.Family = map[byte]string{0x21: "tcp6", 0x22: "udp6"}[b[13]]
			h.SrcIP = net.IP(append([]byte(nil), body[0:16]...))
			h.DstIP = net.IP(append([]byte(nil), body[16:32]...))
			h.SrcPort = int(binary.BigEndian.Uint16(body[32:34]))
			h.DstPort = int(binary.BigEndian.Uint16(body[34:36]))
			h.TLVs = append([]byte(nil), body[36:]...)
		case 0x31, 0x32:
			if len(body) < 216 {
				return nil, 0, errors.New("short unix body")
			}
			h.Family = "unix"
			h.SrcUnix = strings.TrimRight(string(body[0:108]), "\x00")
			h.DstUnix = strings.TrimRight(string(body[108:216]), "\x00")
			h.TLVs = append([]byte(nil), body[216:]...)
		case 0x00:
			h.Family = "unknown"
			h.TLVs = append([]byte(nil), body...)
		default:
			return nil, 0, fmt.Errorf("bad family byte %#x", b[13])
		}
		return h, 16 + l, nil
	}
	if len(b) >= 5 && string(b[:5]) == "PROXY" {
		end := -1
		lim := len(b)
		if lim > 108 {
			lim = 108
		}
		for i := 0; i+1 < lim; i++ {
			if b[i] == '\r' && b[i+1] == '\n' {
				end = i
				break
			}
		}
		if end < 0 {
			return nil, 0, errors.New("v1 header without CRLF in 107 bytes")
		}
		f := strings.Split(string(b[:end]), " ")
		h := &ProxyHeader{Version: 1}
		if len(f) < 2 {
			return nil, 0, errors.New("v1: too few fields")
		}
		switch f[1] {
		case "UNKNOWN":
			h.Family = "unknown"
			return h, end + 2, nil
		case "TCP4", "TCP6":
			if len(f) != 6 {
				return nil, 0, fmt.Errorf("v1: %d fields", len(f))
			}
			h.Family = strings.ToLower(f[1])
			h.SrcIP = net.ParseIP(f[2])
			h.DstIP = net.ParseIP(f[3])
			if h.SrcIP == nil || h.DstIP == nil {
				return nil, 0, errors.New("v1: bad ip")
			}
			var err error
			if h.SrcPort, err = strconv.Atoi(f[4]); err != nil {
				return nil, 0, err
			}
			if h.DstPort, err = strconv.Atoi(f[5]); err != nil {
				return nil, 0, err
			}
			return h, end + 2, nil
		}
		return nil, 0, fmt.Errorf("v1: bad protocol %q", f[1])
	}
	return nil, 0, errors.New("no PROXY signature")
}
