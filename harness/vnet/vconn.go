// Package vnet is the scripted in-memory transport used by the monitors: a
// duplex connection pair with TCP-like semantics (segments are never
// coalesced, deadlines always settable, half-close, reset), a listener whose
// Accept hands out injected connections, and a packet conn whose ReadFrom
// returns injected datagrams. Every call on the server side is logged.
package vnet

import (
	"errors"
	"io"
	"net"
	"os"
	"sync"
	"sync/atomic"
	"time"
)

var epoch = time.Now()

// Now is the monotonic clock all harness events are stamped with.
func Now() time.Duration { return time.Since(epoch) }

// CallLog is one logged call on an End.
type CallLog struct {
	Seq   int64
	Op    string // read, write, close, closewrite, setreaddeadline, setdeadline, setwritedeadline
	T0    time.Duration
	T1    time.Duration
	N     int
	Err   string
	Value time.Time // deadline value for set*deadline
}

type half struct {
	mu       sync.Mutex
	cond     *sync.Cond
	segs     [][]byte // queued segments, head may be partially consumed
	eof      bool     // writer finished (CloseWrite / Close)
	reset    bool     // writer aborted
	rclosed  bool     // reader closed its end
	deadline time.Time
	timer    *time.Timer
	queued   int
	limit    int // max queued bytes before Write blocks (0 = unlimited)
	total    int64
}

func newHalf() *half {
	h := &half{}
	h.cond = sync.NewCond(&h.mu)
	return h
}

type timeoutError struct{}

func (timeoutError) Error() string   { return "i/o timeout" }
func (timeoutError) Timeout() bool   { return true }
func (timeoutError) Temporary() bool { return true }
func (timeoutError) Unwrap() error   { return os.ErrDeadlineExceeded }

// ErrReset is returned by reads/writes after the peer aborted the connection.
var ErrReset = &net.OpError{Op: "read", Net: "verif", Err: errors.New("connection reset by peer")}

// End is one end of a virtual connection; it implements net.Conn plus
// CloseWrite/CloseRead.
type End struct {
	ID     string
	in     *half // what this end reads
	out    *half // what this end writes (peer's in)
	local  net.Addr
	remote net.Addr

	closed  atomic.Bool
	wclosed atomic.Bool

	logMu   sync.Mutex
	log     []CallLog
	seq     int64
	logging bool

	// counters readable without the log
	ReadCalls  atomic.Int64
	BytesRead  atomic.Int64
	CloseCalls atomic.Int64
	// FirstReadT0 is the entry time of the first Read call (ns since epoch), 0 if none.
	FirstReadT0 atomic.Int64

	// OnRead, if set, is called after each Read returns (n, cumulative bytes, return time).
	OnRead func(n int, total int64, t time.Duration)
	// NoCloseWrite makes the CloseWrite method fail the closeWriter type
	// assertion semantics? (not possible); kept for documentation.
}

// Pair creates a connected pair. The first End is meant for the scripted
// client (harness side), the second is given to the code under test; the
// second logs its calls.
func Pair(id string, clientAddr, serverAddr net.Addr) (client, server *End) {
	a, b := newHalf(), newHalf()
	client = &End{ID: id, in: a, out: b, local: clientAddr, remote: serverAddr}
	server = &End{ID: id, in: b, out: a, local: serverAddr, remote: clientAddr, logging: true}
	return
}

func (e *End) addLog(c CallLog) {
	if !e.logging {
		return
	}
	e.logMu.Lock()
	e.seq++
	c.Seq = e.seq
	if len(e.log) < 20000 {
		e.log = append(e.log, c)
	}
	e.logMu.Unlock()
}

// Log returns a copy of the call log.
func (e *End) Log() []CallLog {
	e.logMu.Lock()
	defer e.logMu.Unlock()
	return append([]CallLog(nil), e.log...)
}

func errStr(err error) string {
	if err == nil {
		return ""
	}
	return err.Error()
}

func (e *End) Read(p []byte) (n int, err error) {
	t0 := Now()
	e.FirstReadT0.CompareAndSwap(0, int64(t0)+1)
	e.ReadCalls.Add(1)
	n, err = e.read(p)
	t1 := Now()
	total := e.BytesRead.Add(int64(n))
	if e.OnRead != nil {
		e.OnRead(n, total, t1)
	}
	e.addLog(CallLog{Op: "read", T0: t0, T1: t1, N: n, Err: errStr(err)})
	return
}

func (e *End) read(p []byte) (int, error) {
	h := e.in
	h.mu.Lock()
	defer h.mu.Unlock()
	for {
		if e.closed.Load() || h.rclosed {
			return 0, net.ErrClosed
		}
		if h.reset {
			return 0, ErrReset
		}
		// like the runtime poller, an expired deadline fails the read even if data is queued
		if !h.deadline.IsZero() && !time.Now().Before(h.deadline) {
			return 0, &net.OpError{Op: "read", Net: "verif", Err: timeoutError{}}
		}
		if len(h.segs) > 0 {
			if len(p) == 0 {
				return 0, nil
			}
			seg := h.segs[0]
			n := copy(p, seg)
			if n == len(seg) {
				h.segs = h.segs[1:]
			} else {
				h.segs[0] = seg[n:]
			}
			h.queued -= n
			h.cond.Broadcast()
			return n, nil
		}
		if h.eof {
			return 0, io.EOF
		}
		h.cond.Wait()
	}
}

func (e *End) Write(p []byte) (n int, err error) {
	t0 := Now()
	n, err = e.write(p)
	e.addLog(CallLog{Op: "write", T0: t0, T1: Now(), N: n, Err: errStr(err)})
	return
}

func (e *End) write(p []byte) (int, error) {
	h := e.out
	h.mu.Lock()
	defer h.mu.Unlock()
	if e.closed.Load() || e.wclosed.Load() {
		return 0, net.ErrClosed
	}
	if len(p) == 0 {
		return 0, nil
	}
	for h.limit > 0 && h.queued >= h.limit && !h.rclosed && !e.closed.Load() {
		h.cond.Wait()
	}
	if e.closed.Load() {
		return 0, net.ErrClosed
	}
	if h.rclosed {
		return 0, &net.OpError{Op: "write", Net: "verif", Err: errors.New("broken pipe")}
	}
	seg := append([]byte(nil), p...)
	h.segs = append(h.segs, seg)
	h.queued += len(seg)
	h.total += int64(len(seg))
	h.cond.Broadcast()
	return len(p), nil
}

// CloseWrite half-closes: the peer reads EOF after the queued data.
func (e *End) CloseWrite() error {
	e.wclosed.Store(true)
	h := e.out
	h.mu.Lock()
	h.eof = true
	h.cond.Broadcast()
	h.mu.Unlock()
	e.addLog(CallLog{Op: "closewrite", T0: Now(), T1: Now()})
	return nil
}

// Close closes both directions; idempotent.
func (e *End) Close() error {
	e.CloseCalls.Add(1)
	t := Now()
	first := e.closed.CompareAndSwap(false, true)
	if first {
		e.out.mu.Lock()
		e.out.eof = true
		e.out.cond.Broadcast()
		e.out.mu.Unlock()
		e.in.mu.Lock()
		e.in.rclosed = true
		if e.in.timer != nil {
			e.in.timer.Stop()
		}
		e.in.cond.Broadcast()
		e.in.mu.Unlock()
	}
	e.addLog(CallLog{Op: "close", T0: t, T1: Now()})
	if !first {
		return nil
	}
	return nil
}

// Abort models an RST: the peer's pending and future reads fail.
func (e *End) Abort() {
	e.closed.Store(true)
	e.out.mu.Lock()
	e.out.reset = true
	e.out.cond.Broadcast()
	e.out.mu.Unlock()
	e.in.mu.Lock()
	e.in.rclosed = true
	e.in.cond.Broadcast()
	e.in.mu.Unlock()
}

// Closed reports whether Close was called on this end.
func (e *End) Closed() bool { return e.closed.Load() }

// PeerClosed reports whether the other end has closed (its read side is gone).
func (e *End) PeerClosed() bool {
	e.out.mu.Lock()
	defer e.out.mu.Unlock()
	return e.out.rclosed
}

// WaitPeerClosed waits until the other end called Close, up to d.
func (e *End) WaitPeerClosed(d time.Duration) bool {
	deadline := time.Now().Add(d)
	for !e.PeerClosed() {
		if time.Now().After(deadline) {
			return false
		}
		time.Sleep(200 * time.Microsecond)
	}
	return true
}

// Pending returns the number of bytes written by this end that the peer has not read yet.
func (e *End) Pending() int {
	e.out.mu.Lock()
	defer e.out.mu.Unlock()
	return e.out.queued
}

// SetWriteLimit bounds the bytes this end may have queued at the peer before Write blocks.
func (e *End) SetWriteLimit(n int) {
	e.out.mu.Lock()
	e.out.limit = n
	e.out.mu.Unlock()
}

func (e *End) LocalAddr() net.Addr  { return e.local }
func (e *End) RemoteAddr() net.Addr { return e.remote }

func (e *End) SetDeadline(t time.Time) error {
	e.addLog(CallLog{Op: "setdeadline", T0: Now(), T1: Now(), Value: t})
	e.setReadDeadline(t)
	return nil
}

func (e *End) SetReadDeadline(t time.Time) error {
	e.addLog(CallLog{Op: "setreaddeadline", T0: Now(), T1: Now(), Value: t})
	e.setReadDeadline(t)
	return nil
}

func (e *End) setReadDeadline(t time.Time) {
	h := e.in
	h.mu.Lock()
	h.deadline = t
	if h.timer != nil {
		h.timer.Stop()
		h.timer = nil
	}
	if !t.IsZero() {
		d := time.Until(t)
		if d < 0 {
			d = 0
		}
		h.timer = time.AfterFunc(d, func() {
			h.mu.Lock()
			h.cond.Broadcast()
			h.mu.Unlock()
		})
	}
	h.cond.Broadcast()
	h.mu.Unlock()
}

func (e *End) SetWriteDeadline(t time.Time) error {
	e.addLog(CallLog{Op: "setwritedeadline", T0: Now(), T1: Now(), Value: t})
	return nil
}

// NoHalfClose wraps an End so that it does not offer CloseWrite (models
// transports without half-close).
type NoHalfClose struct{ net.Conn }

// Addr helpers ---------------------------------------------------------------

// TCPAddr builds a *net.TCPAddr.
func TCPAddr(ip string, port int) *net.TCPAddr {
	return &net.TCPAddr{IP: net.ParseIP(ip), Port: port}
}

// UDPAddr builds a *net.UDPAddr.
func UDPAddr(ip string, port int) *net.UDPAddr {
	return &net.UDPAddr{IP: net.ParseIP(ip), Port: port}
}
