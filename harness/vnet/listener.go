package vnet

import (
	"context"
	"errors"
	"fmt"
	"net"
	"sync"
	"sync/atomic"
	"time"

	"github.com/caddyserver/caddy/v2"
)

// Listener is a scripted net.Listener: Accept returns the connections the
// harness injects, in injection order.
type Listener struct {
	Name    string
	addr    net.Addr
	ch      chan net.Conn
	done    chan struct{}
	once    sync.Once
	Accepts atomic.Int64
	handed  sync.Map // conns that Accept returned
	// TempErrs, if >0, makes Accept return that many temporary errors first.
}

func NewListener(name string) *Listener {
	return &Listener{Name: name, addr: TCPAddr("127.0.0.9", 9), ch: make(chan net.Conn, 4096), done: make(chan struct{})}
}

func (l *Listener) Accept() (net.Conn, error) {
	select {
	case <-l.done:
		return nil, net.ErrClosed
	default:
	}
	select {
	case c := <-l.ch:
		l.Accepts.Add(1)
		l.handed.Store(c, true)
		return c, nil
	case <-l.done:
		return nil, net.ErrClosed
	}
}

func (l *Listener) Close() error {
	l.once.Do(func() { close(l.done) })
	return nil
}

func (l *Listener) Addr() net.Addr { return l.addr }

// WasAccepted reports whether Accept has returned c (connections still queued when the
// listener is closed are never accepted, like a kernel backlog that is reset).
func (l *Listener) WasAccepted(c net.Conn) bool {
	_, ok := l.handed.Load(c)
	return ok
}

// Inject queues a server-side connection for Accept.
func (l *Listener) Inject(c net.Conn) { l.ch <- c }

// Closed reports whether Close was called.
func (l *Listener) Closed() bool {
	select {
	case <-l.done:
		return true
	default:
		return false
	}
}

// Datagram is one scripted datagram.
type Datagram struct {
	Payload []byte
	Addr    net.Addr
}

// SentDatagram is one datagram written by the code under test.
type SentDatagram struct {
	Payload []byte
	Addr    string
	T       time.Duration
}

// PacketConn is a scripted net.PacketConn.
type PacketConn struct {
	Name  string
	local net.Addr
	in    chan Datagram
	done  chan struct{}
	once  sync.Once

	mu   sync.Mutex
	sent []SentDatagram
	// OnWrite, if set, is called for each WriteTo (under no lock).
	OnWrite func(SentDatagram)
	Reads   atomic.Int64
}

func NewPacketConn(name string) *PacketConn {
	return &PacketConn{Name: name, local: UDPAddr("127.0.0.9", 9), in: make(chan Datagram, 1<<16), done: make(chan struct{})}
}

func (p *PacketConn) ReadFrom(b []byte) (int, net.Addr, error) {
	select {
	case <-p.done:
		return 0, nil, net.ErrClosed
	default:
	}
	select {
	case d := <-p.in:
		p.Reads.Add(1)
		n := copy(b, d.Payload)
		return n, d.Addr, nil
	case <-p.done:
		return 0, nil, net.ErrClosed
	}
}

func (p *PacketConn) WriteTo(b []byte, addr net.Addr) (int, error) {
	select {
	case <-p.done:
		return 0, net.ErrClosed
	default:
	}
	sd := SentDatagram{Payload: append([]byte(nil), b...), Addr: addr.String(), T: Now()}
	p.mu.Lock()
	p.sent = append(p.sent, sd)
	p.mu.Unlock()
	if p.OnWrite != nil {
		p.OnWrite(sd)
	}
	return len(b), nil
}

// Sent returns a copy of everything written so far.
func (p *PacketConn) Sent() []SentDatagram {
	p.mu.Lock()
	defer p.mu.Unlock()
	return append([]SentDatagram(nil), p.sent...)
}

// Inject queues a datagram for ReadFrom.
func (p *PacketConn) Inject(payload []byte, addr net.Addr) {
	select {
	case p.in <- Datagram{Payload: append([]byte(nil), payload...), Addr: addr}:
	case <-p.done: // closed: nobody will read it any more
	}
}

// Backlog is the number of injected datagrams not yet read by the server loop.
func (p *PacketConn) Backlog() int { return len(p.in) }

func (p *PacketConn) Close() error {
	p.once.Do(func() { close(p.done) })
	return nil
}
func (p *PacketConn) LocalAddr() net.Addr                { return p.local }
func (p *PacketConn) SetDeadline(t time.Time) error      { return nil }
func (p *PacketConn) SetReadDeadline(t time.Time) error  { return nil }
func (p *PacketConn) SetWriteDeadline(t time.Time) error { return nil }

// Registry of named endpoints reachable through Caddy network addresses:
//
//	verif/<name>:1        -> *Listener (scripted)
//	verifudp/<name>:1     -> *PacketConn (scripted)
//	veriftcp/<name>:1     -> real loopback TCP listener (address recorded)
//	verifrealudp/<name>:1 -> real loopback UDP socket (address recorded)
var (
	regMu     sync.Mutex
	listeners = map[string]*Listener{}
	pconns    = map[string]*PacketConn{}
	realTCP   = map[string]net.Listener{}
	realUDP   = map[string]net.PacketConn{}
)

func hostOf(addr string) string {
	h, _, err := net.SplitHostPort(addr)
	if err != nil {
		return addr
	}
	return h
}

// GetListener returns (creating if needed) the scripted listener with that name.
func GetListener(name string) *Listener {
	regMu.Lock()
	defer regMu.Unlock()
	l := listeners[name]
	if l == nil || l.Closed() {
		l = NewListener(name)
		listeners[name] = l
	}
	return l
}

// GetPacketConn returns (creating if needed) the scripted packet conn with that name.
func GetPacketConn(name string) *PacketConn {
	regMu.Lock()
	defer regMu.Unlock()
	p := pconns[name]
	if p == nil {
		p = NewPacketConn(name)
		pconns[name] = p
	}
	return p
}

// NewNamedPacketConn replaces the scripted packet conn registered under name.
func NewNamedPacketConn(name string) *PacketConn {
	regMu.Lock()
	defer regMu.Unlock()
	p := NewPacketConn(name)
	pconns[name] = p
	return p
}

// RealTCPAddr returns the address of the real TCP listener created for name.
func RealTCPAddr(name string) (string, error) {
	regMu.Lock()
	defer regMu.Unlock()
	if l := realTCP[name]; l != nil {
		return l.Addr().String(), nil
	}
	return "", errors.New("no such real tcp listener: " + name)
}

// RealUDPAddr returns the address of the real UDP socket created for name.
func RealUDPAddr(name string) (string, error) {
	regMu.Lock()
	defer regMu.Unlock()
	if l := realUDP[name]; l != nil {
		return l.LocalAddr().String(), nil
	}
	return "", errors.New("no such real udp socket: " + name)
}

var uniq atomic.Int64

// UniqueName returns a process-unique endpoint name.
func UniqueName(prefix string) string {
	return fmt.Sprintf("%s%d", prefix, uniq.Add(1))
}

func init() {
	caddy.RegisterNetwork("verif", func(_ context.Context, _ string, addr string, _ net.ListenConfig) (any, error) {
		return GetListener(hostOf(addr)), nil
	})
	caddy.RegisterNetwork("verifudp", func(_ context.Context, _ string, addr string, _ net.ListenConfig) (any, error) {
		return GetPacketConn(hostOf(addr)), nil
	})
	caddy.RegisterNetwork("veriftcp", func(_ context.Context, _ string, addr string, _ net.ListenConfig) (any, error) {
		l, err := net.Listen("tcp", "127.0.0.1:0")
		if err != nil {
			return nil, err
		}
		regMu.Lock()
		realTCP[hostOf(addr)] = l
		regMu.Unlock()
		return l, nil
	})
	caddy.RegisterNetwork("verifrealudp", func(_ context.Context, _ string, addr string, _ net.ListenConfig) (any, error) {
		l, err := net.ListenPacket("udp", "127.0.0.1:0")
		if err != nil {
			return nil, err
		}
		regMu.Lock()
		realUDP[hostOf(addr)] = l
		regMu.Unlock()
		return l, nil
	})
}
