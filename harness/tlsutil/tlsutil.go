// Package tlsutil creates throw-away certificates and full Caddy configs with
// a tls app that serves them (needed by the layer4 tls handler).
package tlsutil

import (
	"crypto/ecdsa"
	"crypto/elliptic"
	"crypto/rand"
	"crypto/tls"
	"crypto/x509"
	"crypto/x509/pkix"
	"encoding/json"
	"encoding/pem"
	"math/big"
	"net"
	"time"
)

// Cert is a self-signed certificate.
type Cert struct {
	CertPEM string
	KeyPEM  string
	Pool    *x509.CertPool
	TLS     tls.Certificate
	Names   []string
}

// NewCert creates a self-signed ECDSA certificate valid for the names.
func NewCert(names ...string) (*Cert, error) {
	key, err := ecdsa.GenerateKey(elliptic.P256(), rand.Reader)
	if err != nil {
		return nil, err
	}
	tmpl := &x509.Certificate{
		SerialNumber:          big.NewInt(time.Now().UnixNano()),
		Subject:               pkix.Name{CommonName: names[0]},
		NotBefore:             time.Now().Add(-time.Hour),
		NotAfter:              time.Now().Add(240 * time.Hour),
		KeyUsage:              x509.KeyUsageDigitalSignature | x509.KeyUsageCertSign,
		ExtKeyUsage:           []x509.ExtKeyUsage{x509.ExtKeyUsageServerAuth},
		BasicConstraintsValid: true,
		IsCA:                  true,
		DNSNames:              names,
		IPAddresses:           []net.IP{net.ParseIP("127.0.0.1")},
	}
	der, err := x509.CreateCertificate(rand.Reader, tmpl, tmpl, &key.PublicKey, key)
	if err != nil {
		return nil, err
	}
	kb, err := x509.MarshalECPrivateKey(key)
	if err != nil {
		return nil, err
	}
	c := &Cert{Names: names}
	c.CertPEM = string(pem.EncodeToMemory(&pem.Block{Type: "CERTIFICATE", Bytes: der}))
	c.KeyPEM = string(pem.EncodeToMemory(&pem.Block{Type: "EC PRIVATE KEY", Bytes: kb}))
	c.Pool = x509.NewCertPool()
	c.Pool.AppendCertsFromPEM([]byte(c.CertPEM))
	c.TLS, err = tls.X509KeyPair([]byte(c.CertPEM), []byte(c.KeyPEM))
	return c, err
}

// ClientConfig returns a client config that trusts the certificate.
func (c *Cert) ClientConfig() *tls.Config {
	return &tls.Config{RootCAs: c.Pool, ServerName: c.Names[0]}
}

// CaddyConfig builds a full Caddy JSON config: admin off, logs discarded, a
// tls app serving the certificate, plus the given apps.
func CaddyConfig(c *Cert, apps map[string]any) string {
	all := map[string]any{
		"tls": map[string]any{
			"certificates": map[string]any{
				"load_pem": []any{map[string]any{"certificate": c.CertPEM, "key": c.KeyPEM, "tags": []string{"verif"}}},
			},
			"automation": map[string]any{"policies": []any{map[string]any{"subjects": c.Names, "issuers": []any{map[string]any{"module": "internal"}}, "on_demand": false}}},
		},
	}
	for k, v := range apps {
		all[k] = v
	}
	cfg := map[string]any{
		"admin":   map[string]any{"disabled": true, "config": map[string]any{"persist": false}},
		"logging": map[string]any{"logs": map[string]any{"default": map[string]any{"writer": map[string]any{"output": "discard"}}}},
		"apps":    all,
	}
	b, _ := json.Marshal(cfg)
	return string(b)
}

// FromPEM rebuilds a Cert from its PEM parts (a certificate created by another process).
func FromPEM(certPEM, keyPEM string, names ...string) (*Cert, error) {
	c := &Cert{Names: names, CertPEM: certPEM, KeyPEM: keyPEM}
	c.Pool = x509.NewCertPool()
	c.Pool.AppendCertsFromPEM([]byte(certPEM))
	var err error
	c.TLS, err = tls.X509KeyPair([]byte(certPEM), []byte(keyPEM))
	return c, err
}
