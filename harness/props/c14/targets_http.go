package c14

// HTTP target. The reference works on an abstract request (method, target, version, host, header fields, query):
// the generator serialises it itself as an HTTP/1.x message (RFC 9112: request-line, header section, empty line;
// CRLF or bare LF as documented by the module's tests) or as an HTTP/2 prior-knowledge connection start (RFC 9113
// 3.4: preface, SETTINGS, HEADERS with an HPACK block built with x/net/http2/hpack), and evaluates the configured
// caddyhttp request matchers with its own small implementation of their documented semantics (host, path, method,
// header, query, protocol, not; sets OR'ed, matchers in a set AND'ed). The bytes are never parsed by the reference.
//
// Only cases with an unambiguous verdict are judged; the rest abstains (versions other than 1.0/1.1, missing Host in
// HTTP/1.1, empty line before the request line, a broken preface body with nothing configured).

import (
	"bytes"
	"encoding/binary"
	"encoding/json"
	"fmt"
	"math/rand"
	"sort"
	"strings"

	"golang.org/x/net/http2/hpack"
)

type httpReq struct {
	method  string
	path    string
	query   [][2]string
	host    string // as sent (may carry a port, any case)
	major   int
	minor   int
	headers [][2]string // without Host
	h2      bool
	scheme  string
}

func (q *httpReq) headerVals(name string) []string {
	var out []string
	for _, h := range q.headers {
		if strings.EqualFold(h[0], name) {
			out = append(out, h[1])
		}
	}
	return out
}

func httpWild(pat, s string) bool {
	switch {
	case pat == "*":
		return true
	case len(pat) >= 2 && strings.HasPrefix(pat, "*") && strings.HasSuffix(pat, "*"):
		return strings.Contains(s, pat[1:len(pat)-1])
	case strings.HasPrefix(pat, "*"):
		return strings.HasSuffix(s, pat[1:])
	case strings.HasSuffix(pat, "*"):
		return strings.HasPrefix(s, pat[:len(pat)-1])
	}
	return pat == s
}

// httpEvalSet evaluates one matcher set (AND of its matchers).
func httpEvalSet(set map[string]any, q *httpReq) bool {
	for name, v := range set {
		ok := false
		switch name {
		case "host":
			h := strings.ToLower(q.host)
			if i := strings.LastIndexByte(h, ':'); i >= 0 {
				h = h[:i]
			}
			hl := strings.Split(h, ".")
			for _, p := range v.([]string) {
				pl := strings.Split(strings.ToLower(p), ".")
				if len(pl) != len(hl) {
					continue
				}
				m := true
				for i := range pl {
					m = m && (pl[i] == "*" || pl[i] == hl[i])
				}
				ok = ok || m
			}
		case "path":
			for _, p := range v.([]string) {
				ok = ok || httpWild(strings.ToLower(p), strings.ToLower(q.path))
			}
		case "method":
			for _, m := range v.([]string) {
				ok = ok || m == q.method
			}
		case "header":
			ok = true
			for field, allowed := range v.(map[string]any) {
				actual := q.headerVals(field)
				switch a := allowed.(type) {
				case nil: // null: the field must not exist
					ok = ok && len(actual) == 0
				case []string:
					if len(a) == 0 { // empty list: the field must exist
						ok = ok && len(actual) > 0
						continue
					}
					m := false
					for _, av := range actual {
						for _, p := range a {
							m = m || httpWild(p, av)
						}
					}
					ok = ok && m
				}
			}
		case "query":
			want := v.(map[string][]string)
			if len(want) == 0 {
				ok = len(q.query) == 0
				break
			}
			ok = true
			for k, vals := range want {
				m := false
				for _, kv := range q.query {
					if kv[0] != k {
						continue
					}
					for _, p := range vals {
						m = m || p == "*" || p == kv[1]
					}
				}
				ok = ok && m
			}
		case "protocol":
			ge := func(maj, min int) bool { return q.major > maj || (q.major == maj && q.minor >= min) }
			switch v.(string) {
			case "http":
				ok = true // no TLS handler ran before the matcher
			case "https":
				ok = false
			case "grpc":
				ct := q.headerVals("Content-Type")
				ok = len(ct) > 0 && strings.HasPrefix(ct[0], "application/grpc")
			case "http/1.0":
				ok = q.major == 1 && q.minor == 0
			case "http/1.1":
				ok = q.major == 1 && q.minor == 1
			case "http/1.1+":
				ok = ge(1, 1)
			case "http/2":
				ok = q.major == 2
			case "http/2+":
				ok = ge(2, 0)
			case "http/3":
				ok = q.major == 3
			}
		case "not":
			ok = !httpEvalSets(v.([]map[string]any), q, false)
		}
		if !ok {
			return false
		}
	}
	return true
}

// httpEvalSets: OR of the sets; an empty list matches (emptyMatches) at the top level.
func httpEvalSets(sets []map[string]any, q *httpReq, emptyMatches bool) bool {
	if len(sets) == 0 {
		return emptyMatches
	}
	for _, s := range sets {
		if httpEvalSet(s, q) {
			return true
		}
	}
	return false
}

// ---- generator ----

var (
	httpMethods = []string{"GET", "GET", "GET", "POST", "HEAD", "PUT", "DELETE", "OPTIONS", "PATCH", "PURGE", "M-SEARCH"}
	httpHosts   = []string{"localhost", "example.com", "www.example.com", "api.example.com", "a.b.example.com", "internal", "example.org", "10.0.0.5"}
	httpSegs    = []string{"foo", "bar", "api", "v1", "users", "index.html", "static", "app.js", "x", "img_01.png", "health"}
	httpQKeys   = []string{"aaa", "q", "page", "id", "lang"}
	httpQVals   = []string{"bbb", "1", "2", "en", "hello", ""}
	httpHdrs    = [][2]string{{"User-Agent", "curl/7.82.0"}, {"User-Agent", "Mozilla/5.0"}, {"Accept", "*/*"}, {"Accept", "text/html"}, {"X-Foo", "bar"},
		{"X-Foo", "baz"}, {"X-Request-Id", "abc123"}, {"Content-Type", "application/json"}, {"Content-Type", "application/grpc+proto"},
		{"Authorization", "Bearer tok"}, {"Cookie", "a=b; c=d"}, {"Accept-Encoding", "gzip"}}
)

func httpRandReq(r *rand.Rand) *httpReq {
	q := &httpReq{method: httpMethods[r.Intn(len(httpMethods))], major: 1, minor: 1, scheme: "http"}
	if r.Intn(5) == 0 {
		q.minor = 0
	}
	q.host = httpHosts[r.Intn(len(httpHosts))]
	if r.Intn(6) == 0 {
		b := []byte(q.host)
		for i := range b {
			if b[i] >= 'a' && b[i] <= 'z' && r.Intn(2) == 0 {
				b[i] -= 32
			}
		}
		q.host = string(b)
	}
	if r.Intn(3) == 0 {
		q.host += fmt.Sprintf(":%d", []int{80, 8080, 10443, 1 + r.Intn(65535)}[r.Intn(4)])
	}
	n := r.Intn(4)
	q.path = "/"
	for i := 0; i < n; i++ {
		if i > 0 {
			q.path += "/"
		}
		q.path += httpSegs[r.Intn(len(httpSegs))]
	}
	if n > 0 && r.Intn(6) == 0 {
		q.path += "/"
	}
	for k := r.Intn(3); k > 0 && r.Intn(2) == 0; k-- {
		q.query = append(q.query, [2]string{httpQKeys[r.Intn(len(httpQKeys))], httpQVals[r.Intn(len(httpQVals))]})
	}
	seen := map[string]bool{}
	for k := r.Intn(5); k > 0; k-- {
		h := httpHdrs[r.Intn(len(httpHdrs))]
		if seen[h[0]] {
			continue
		}
		seen[h[0]] = true
		q.headers = append(q.headers, h)
	}
	return q
}

func (q *httpReq) target() string {
	t := q.path
	for i, kv := range q.query {
		if i == 0 {
			t += "?"
		} else {
			t += "&"
		}
		t += kv[0] + "=" + kv[1]
	}
	return t
}

func httpCaseName(r *rand.Rand, n string) string {
	switch r.Intn(4) {
	case 0:
		return strings.ToLower(n)
	case 1:
		return strings.ToUpper(n)
	}
	return n
}

// h1 serialises the request as HTTP/1.x.
func (q *httpReq) h1(r *rand.Rand, eol string, withHost bool) []byte {
	var b bytes.Buffer
	fmt.Fprintf(&b, "%s %s HTTP/%d.%d%s", q.method, q.target(), q.major, q.minor, eol)
	var lines []string
	if withHost {
		lines = append(lines, httpCaseName(r, "Host")+": "+q.host)
	}
	for _, h := range q.headers {
		sep := ": "
		if r.Intn(8) == 0 {
			sep = ":" // optional whitespace may be absent
		}
		lines = append(lines, httpCaseName(r, h[0])+sep+h[1])
	}
	body := ""
	if (q.method == "POST" || q.method == "PUT" || q.method == "PATCH") && r.Intn(2) == 0 {
		body = `{"k":"v"}`
		lines = append(lines, fmt.Sprintf("Content-Length: %d", len(body)))
	}
	if withHost && len(lines) > 1 && r.Intn(3) == 0 { // Host need not be the first field
		k := 1 + r.Intn(len(lines)-1)
		lines[0], lines[k] = lines[k], lines[0]
	}
	for _, l := range lines {
		b.WriteString(l + eol)
	}
	b.WriteString(eol)
	b.WriteString(body)
	return b.Bytes()
}

const httpPreface = "PRI * HTTP/2.0\r\n\r\nSM\r\n\r\n"

func httpFrame(typ, flags byte, stream uint32, payload []byte) []byte {
	b := []byte{byte(len(payload) >> 16), byte(len(payload) >> 8), byte(len(payload)), typ, flags}
	b = binary.BigEndian.AppendUint32(b, stream&0x7fffffff)
	return append(b, payload...)
}

func httpSettings(r *rand.Rand) []byte {
	var p []byte
	for k := r.Intn(4); k > 0; k-- {
		id := uint16([]int{1, 3, 4, 6}[r.Intn(4)])
		val := uint32([]int{4096, 100, 65535, 1 << 20}[r.Intn(4)])
		p = binary.BigEndian.AppendUint16(p, id)
		p = binary.BigEndian.AppendUint32(p, val)
	}
	return httpFrame(4, 0, 0, p)
}

func (q *httpReq) hpackBlock() []byte {
	var b bytes.Buffer
	e := hpack.NewEncoder(&b)
	// Two HPACK variants that involve the decoder's dynamic table (chosen by a fixed function of the request): a block
	// that starts with "dynamic table size update 0", and a block in which a header occurs twice, so that the second
	// occurrence is a reference to the dynamic-table entry the first one created.
	mode := (len(q.path) + len(q.host) + 3*len(q.headers)) % 5
	if mode == 4 {
		e.SetMaxDynamicTableSize(0)
	}
	defer func() { _ = mode }()
	if mode == 3 {
		e.WriteField(hpack.HeaderField{Name: "x-verif-dup", Value: "same-value-twice"})
		e.WriteField(hpack.HeaderField{Name: "x-verif-dup", Value: "same-value-twice"})
	}
	e.WriteField(hpack.HeaderField{Name: ":method", Value: q.method})
	e.WriteField(hpack.HeaderField{Name: ":scheme", Value: q.scheme})
	e.WriteField(hpack.HeaderField{Name: ":authority", Value: q.host})
	e.WriteField(hpack.HeaderField{Name: ":path", Value: q.target()})
	for _, h := range q.headers {
		e.WriteField(hpack.HeaderField{Name: strings.ToLower(h[0]), Value: h[1]})
	}
	return b.Bytes()
}

// h2 serialises the request as an HTTP/2 prior-knowledge connection start; before = number of frames in front of HEADERS.
func (q *httpReq) h2start(r *rand.Rand, before int) []byte {
	out := []byte(httpPreface)
	for i := 0; i < before; i++ {
		switch {
		case i == 0:
			out = append(out, httpSettings(r)...)
		case r.Intn(3) == 0:
			out = append(out, httpFrame(8, 0, 0, binary.BigEndian.AppendUint32(nil, uint32(1+r.Intn(1<<30))))...) // WINDOW_UPDATE
		case r.Intn(2) == 0:
			out = append(out, httpFrame(2, 0, uint32(3+2*r.Intn(5)), []byte{0, 0, 0, 0, byte(r.Intn(256))})...) // PRIORITY
		default:
			out = append(out, httpFrame(6, 0, 0, make([]byte, 8))...) // PING
		}
	}
	block := q.hpackBlock()
	flags := byte(0x04) // END_HEADERS
	if r.Intn(2) == 0 {
		flags |= 0x01 // END_STREAM
	}
	var payload []byte
	pad := 0
	if r.Intn(5) == 0 {
		flags |= 0x08
		pad = r.Intn(16)
		payload = append(payload, byte(pad))
	}
	if r.Intn(4) == 0 {
		flags |= 0x20
		payload = append(payload, 0, 0, 0, 0, byte(r.Intn(256)))
	}
	payload = append(payload, block...)
	payload = append(payload, make([]byte, pad)...)
	out = append(out, httpFrame(1, flags, 1, payload)...)
	if flags&0x01 == 0 && r.Intn(2) == 0 {
		out = append(out, httpFrame(0, 0x01, 1, []byte("hello"))...)
	}
	return out
}

// httpRandMatcher draws one matcher for a set: derived from the request ("in") or from the pools.
func httpRandMatcher(r *rand.Rand, q *httpReq, set map[string]any, depth int) {
	fromReq := r.Intn(2) == 0
	hostOnly := strings.ToLower(q.host)
	if i := strings.LastIndexByte(hostOnly, ':'); i >= 0 {
		hostOnly = hostOnly[:i]
	}
	kinds := []string{"host", "path", "method", "header", "query", "protocol", "not"}
	k := kinds[r.Intn(len(kinds))]
	if k == "not" && depth > 0 {
		k = "method"
	}
	switch k {
	case "host":
		var hs []string
		if fromReq {
			hs = append(hs, hostOnly)
			if r.Intn(4) == 0 && strings.Contains(hostOnly, ".") {
				hs[0] = "*" + hostOnly[strings.IndexByte(hostOnly, '.'):]
			}
		}
		for n := r.Intn(2) + map[bool]int{true: 0, false: 1}[fromReq]; n > 0; n-- {
			c := httpHosts[r.Intn(len(httpHosts))]
			if r.Intn(5) == 0 {
				c = "*.example.com"
			}
			dup := false
			for _, h := range hs {
				dup = dup || h == c
			}
			if !dup { // duplicate entries are a configuration error
				hs = append(hs, c)
			}
		}
		set["host"] = hs
	case "path":
		var ps []string
		if fromReq {
			switch r.Intn(4) {
			case 0:
				ps = append(ps, q.path)
			case 1:
				ps = append(ps, q.path[:strings.LastIndexByte(q.path, '/')+1]+"*")
			case 2:
				if i := strings.LastIndexByte(q.path, '.'); i >= 0 {
					ps = append(ps, "*"+q.path[i:])
				} else {
					ps = append(ps, q.path+"*")
				}
			default:
				ps = append(ps, strings.ToUpper(q.path)) // path matching is case-insensitive
			}
		} else {
			ps = append(ps, []string{"/foo/bar", "/api/*", "*.html", "/", "/static/*", "*/users/*", "/health"}[r.Intn(7)])
		}
		set["path"] = ps
	case "method":
		ms := []string{httpMethods[r.Intn(len(httpMethods))]}
		if fromReq {
			ms = []string{q.method}
		}
		if r.Intn(3) == 0 {
			ms = append(ms, "TRACE")
		}
		set["method"] = ms
	case "header":
		hm := map[string]any{}
		h := httpHdrs[r.Intn(len(httpHdrs))]
		if fromReq && len(q.headers) > 0 {
			h = q.headers[r.Intn(len(q.headers))]
		}
		name := httpCaseName(r, h[0])
		switch r.Intn(6) {
		case 0:
			hm[name] = []string{}
		case 1:
			hm[name] = nil
		case 2:
			hm[name] = []string{h[1][:1+r.Intn(len(h[1]))] + "*"}
		case 3:
			hm[name] = []string{"*" + h[1][r.Intn(len(h[1])):]}
		default:
			hm[name] = []string{h[1]}
			if r.Intn(3) == 0 {
				hm[name] = []string{"nope", h[1]}
			}
		}
		set["header"] = hm
	case "query":
		qm := map[string][]string{}
		switch {
		case fromReq && len(q.query) > 0:
			kv := q.query[r.Intn(len(q.query))]
			qm[kv[0]] = []string{kv[1]}
			if r.Intn(3) == 0 {
				qm[kv[0]] = []string{"*"}
			}
		case r.Intn(4) == 0: // empty object: matches an empty query string only
		default:
			qm[httpQKeys[r.Intn(len(httpQKeys))]] = []string{httpQVals[r.Intn(len(httpQVals)-1)]}
		}
		set["query"] = qm
	case "protocol":
		set["protocol"] = []string{"http", "http", "https", "grpc", "http/1.0", "http/1.1", "http/1.1+", "http/2", "http/2+", "http/3"}[r.Intn(10)]
	case "not":
		inner := map[string]any{}
		httpRandMatcher(r, q, inner, depth+1)
		set["not"] = []map[string]any{inner}
	}
}

func httpRandSets(r *rand.Rand, q *httpReq) []map[string]any {
	n := 1
	if r.Intn(4) == 0 {
		n = 2
	}
	var sets []map[string]any
	for i := 0; i < n; i++ {
		set := map[string]any{}
		for k := 1 + r.Intn(3); k > 0; k-- {
			httpRandMatcher(r, q, set, 0)
		}
		sets = append(sets, set)
	}
	return sets
}

func httpSetNames(sets []map[string]any) string {
	seen := map[string]bool{}
	for _, s := range sets {
		for k := range s {
			seen[k] = true
		}
	}
	var ks []string
	for k := range seen {
		ks = append(ks, k)
	}
	sort.Strings(ks)
	return strings.Join(ks, "+")
}

func httpCfg(sets []map[string]any) string {
	if sets == nil {
		return "[]"
	}
	b, _ := json.Marshal(sets)
	return string(b)
}

func httpGen(r *rand.Rand, i int) Case {
	cs := Case{Matcher: "http", Config: "[]"}
	q := httpRandReq(r)
	h2 := r.Intn(4) == 0
	proto := "h1"
	eol := "\r\n"
	if r.Intn(4) == 0 {
		eol = "\n"
	}
	if h2 {
		proto = "h2"
		q.h2, q.major, q.minor = true, 2, 0
		if r.Intn(3) == 0 {
			q.scheme = "https"
		}
	}
	ser := func() []byte {
		if h2 {
			return q.h2start(r, 1+r.Intn(3))
		}
		return q.h1(r, eol, true)
	}
	sel := r.Intn(100)
	switch {
	case sel < 22:
		cs.Class = proto + ":valid"
		if !h2 && eol == "\n" {
			cs.Class += ":bare-lf"
		}
		cs.Input, cs.Want = ser(), true
	case sel < 62:
		sets := httpRandSets(r, q)
		cs.Config = httpCfg(sets)
		cs.Want = httpEvalSets(sets, q, true)
		cs.Class = proto + ":filter:" + httpSetNames(sets) + map[bool]string{true: ":in", false: ":out"}[cs.Want]
		cs.Input = ser()
	case sel < 90:
		if !h2 {
			corr := []string{"version-token", "version-lowercase", "version-separator", "no-version", "missing-target", "double-space", "method-invalid-char",
				"header-no-colon", "header-name-space", "header-leading-space", "no-blank-line", "no-line-end", "short-line", "cr-only", "empty",
				"binary", "tls-client-hello", "version-length"}
			c := corr[r.Intn(len(corr))]
			cs.Class = "h1:corrupt:" + c
			good := q.h1(r, eol, true)
			line := fmt.Sprintf("%s %s HTTP/%d.%d", q.method, q.target(), q.major, q.minor)
			rest := good[len(line):]
			repl := func(nl string) []byte { return append([]byte(nl), rest...) }
			switch c {
			case "version-token":
				cs.Input = repl(fmt.Sprintf("%s %s %s/1.1", q.method, q.target(), []string{"HTTX", "HTTPS", "XTTP", "ICAP", "RTSP"}[r.Intn(5)]))
			case "version-lowercase":
				cs.Input = repl(fmt.Sprintf("%s %s http/1.1", q.method, q.target()))
			case "version-separator":
				cs.Input = repl(fmt.Sprintf("%s %s HTTP%s1.1", q.method, q.target(), []string{"-", " ", ":", "\\"}[r.Intn(4)]))
			case "version-length":
				cs.Input = repl(fmt.Sprintf("%s %s HTTP/%s", q.method, q.target(), []string{"1", "1.", "1.10", "11", "1.1.1", ""}[r.Intn(6)]))
			case "no-version":
				cs.Input = repl(fmt.Sprintf("%s %s", q.method, q.target()))
			case "missing-target":
				cs.Input = repl(fmt.Sprintf("%s HTTP/1.1", q.method))
			case "double-space":
				if r.Intn(2) == 0 {
					cs.Input = repl(fmt.Sprintf("%s  %s HTTP/1.1", q.method, q.target()))
				} else {
					cs.Input = repl(fmt.Sprintf("%s %s  HTTP/1.1", q.method, q.target()))
				}
			case "method-invalid-char":
				bad := []string{"G(T", "GE\"T", "G@T", "GET,", "{GET}", "G\x01T", "GÉT"}[r.Intn(7)]
				cs.Input = repl(fmt.Sprintf("%s %s HTTP/1.1", bad, q.target()))
			case "header-no-colon":
				cs.Input = []byte(line + eol + "Host: " + q.host + eol + "X-Broken-Line" + eol + eol)
			case "header-name-space":
				cs.Input = []byte(line + eol + "Host: " + q.host + eol + "X Foo: bar" + eol + eol)
			case "header-leading-space":
				cs.Input = []byte(line + eol + " Host: " + q.host + eol + eol)
			case "no-blank-line":
				cs.Input = bytes.TrimSuffix(q.h1(r, eol, true), []byte(eol))
				if q.method == "POST" || q.method == "PUT" || q.method == "PATCH" {
					cs.Input = []byte(line + eol + "Host: " + q.host + eol)
				}
			case "no-line-end":
				cs.Input = []byte(line)
			case "short-line":
				cs.Input = []byte([]string{"GET /\n\n", "dum\n", "GET / H\r\n\r\n", "\n", "HTTP/1.1\n"}[r.Intn(5)])
			case "cr-only":
				cs.Input = bytes.ReplaceAll(q.h1(r, "\r\n", true), []byte("\r\n"), []byte("\r"))
			case "empty":
				cs.Input = nil
			case "binary":
				cs.Input = make([]byte, 20+r.Intn(200))
				r.Read(cs.Input)
				for k := range cs.Input { // no accidental request line
					if cs.Input[k] == ' ' {
						cs.Input[k] = 0xA0
					}
				}
			case "tls-client-hello":
				cs.Input = append([]byte{0x16, 0x03, 0x01, 0x00, 0xc8, 0x01, 0x00, 0x00, 0xc4, 0x03, 0x03}, make([]byte, 189)...)
				r.Read(cs.Input[11:])
				for k := 11; k < len(cs.Input); k++ {
					if cs.Input[k] == ' ' {
						cs.Input[k] = 0xA0
					}
				}
			}
			cs.Want = false
			if c == "header-name-space" {
				cs.Abstain = "field name with an inner space: invalid per RFC 9110 5.1, tolerated on purpose by net/textproto (go.dev/issue/34540)"
			}
		} else {
			corr := []string{"preface-body", "settings-bad-length", "headers-on-stream-0", "hpack-invalid-index", "no-headers-frame", "frames-before-headers-11",
				"headers-truncated", "preface-only", "window-update-zero"}
			c := corr[r.Intn(len(corr))]
			cs.Class = "h2:corrupt:" + c
			switch c {
			case "preface-body":
				good := q.h2start(r, 1) // the PRI pseudo request itself cannot satisfy a method matcher for the real method
				cs.Input = append([]byte(nil), good...)
				copy(cs.Input[18:], []string{"XX", "sm", "SN", "MS"}[r.Intn(4)])
				cs.Config = httpCfg([]map[string]any{{"method": []string{q.method}}})
			case "settings-bad-length":
				cs.Input = append([]byte(httpPreface), httpFrame(4, 0, 0, make([]byte, 1+r.Intn(5)))...)
				cs.Input = append(cs.Input, httpFrame(1, 0x05, 1, q.hpackBlock())...)
			case "headers-on-stream-0":
				cs.Input = append([]byte(httpPreface), httpSettings(r)...)
				cs.Input = append(cs.Input, httpFrame(1, 0x05, 0, q.hpackBlock())...)
			case "hpack-invalid-index":
				cs.Input = append([]byte(httpPreface), httpSettings(r)...)
				cs.Input = append(cs.Input, httpFrame(1, 0x05, 1, append([]byte{0x80}, q.hpackBlock()...))...) // indexed field, index 0
			case "no-headers-frame":
				cs.Input = append([]byte(httpPreface), httpSettings(r)...)
				cs.Input = append(cs.Input, httpFrame(8, 0, 0, []byte{0, 1, 0, 0})...)
			case "frames-before-headers-11": // documented: only the first 10 frames are inspected
				cs.Input = q.h2start(r, 10+r.Intn(3))
			case "headers-truncated":
				cs.Input = append([]byte(httpPreface), httpSettings(r)...)
				cs.Input = append(cs.Input, httpFrame(1, 0x05, 1, q.hpackBlock())...)
				cs.Input = cs.Input[:len(cs.Input)-1-r.Intn(8)]
			case "preface-only":
				cs.Input = []byte(httpPreface)[:18+r.Intn(7)]
			case "window-update-zero":
				cs.Input = append([]byte(httpPreface), httpSettings(r)...)
				cs.Input = append(cs.Input, httpFrame(8, 0, 0, []byte{0, 0, 0, 0})...)
				cs.Input = append(cs.Input, httpFrame(1, 0x05, 1, q.hpackBlock())...)
			}
			cs.Want = false
		}
	default:
		odd := []string{"h1:version-other", "h1:no-host-1.1", "h1:no-host-1.0", "h1:leading-empty-line", "h1:absolute-form", "h1:options-asterisk",
			"h1:lowercase-method", "h1:long-target", "h2:headers-is-10th-frame", "h2:preface-body-no-config", "h1:many-headers", "h1:h2c-upgrade"}
		o := odd[r.Intn(len(odd))]
		cs.Class = "boundary:" + o
		h2 = strings.HasPrefix(o, "h2:")
		if !h2 {
			q.major, q.minor, q.h2, q.scheme = 1, 1, false, "http"
		} else {
			q.major, q.minor, q.h2 = 2, 0, true
		}
		switch o {
		case "h1:version-other":
			q.major, q.minor = []int{0, 2, 3, 9}[r.Intn(4)], r.Intn(10)
			cs.Input, cs.Abstain = q.h1(r, eol, true), "HTTP version other than 1.0 / 1.1 in an HTTP/1-style request"
		case "h1:no-host-1.1":
			cs.Input, cs.Abstain = q.h1(r, eol, false), "HTTP/1.1 request without Host"
		case "h1:no-host-1.0":
			q.minor = 0
			sets := []map[string]any{{"method": []string{q.method}, "path": []string{q.path}}}
			cs.Config, cs.Input, cs.Want = httpCfg(sets), q.h1(r, eol, false), true
		case "h1:leading-empty-line":
			cs.Input, cs.Abstain = append([]byte(eol), q.h1(r, eol, true)...), "empty line before the request line"
		case "h1:absolute-form":
			good := q.h1(r, eol, true)
			cs.Input = bytes.Replace(good, []byte(" /"), []byte(" http://"+q.host+"/"), 1)
			sets := []map[string]any{{"path": []string{q.path}, "host": []string{strings.ToLower(strings.Split(q.host, ":")[0])}}}
			cs.Config, cs.Want = httpCfg(sets), true
		case "h1:options-asterisk":
			q.method, q.path, q.query = "OPTIONS", "*", nil
			sets := []map[string]any{{"method": []string{"OPTIONS"}}}
			cs.Config, cs.Input, cs.Want = httpCfg(sets), q.h1(r, eol, true), true
		case "h1:lowercase-method": // methods are case-sensitive tokens
			q.method = strings.ToLower(q.method)
			sets := []map[string]any{{"method": []string{strings.ToUpper(q.method)}}}
			cs.Config, cs.Input, cs.Want = httpCfg(sets), q.h1(r, eol, true), false
		case "h1:long-target":
			q.path = "/" + strings.Repeat("a", 1000+r.Intn(3000))
			cs.Input, cs.Want = q.h1(r, eol, true), true
		case "h1:many-headers":
			for k := 0; k < 60; k++ {
				q.headers = append(q.headers, [2]string{fmt.Sprintf("X-Pad-%d", k), strings.Repeat("v", 1+r.Intn(40))})
			}
			sets := []map[string]any{{"header": map[string]any{"X-Pad-59": []string{}}}}
			cs.Config, cs.Input, cs.Want = httpCfg(sets), q.h1(r, eol, true), true
		case "h1:h2c-upgrade":
			q.headers = append(q.headers, [2]string{"Connection", "Upgrade, HTTP2-Settings"}, [2]string{"Upgrade", "h2c"}, [2]string{"HTTP2-Settings", "AAMAAABkAAQCAAAAAAIAAAAA"})
			sets := []map[string]any{{"header": map[string]any{"Upgrade": []string{"h2c"}}, "protocol": "http/1.1"}}
			cs.Config, cs.Input, cs.Want = httpCfg(sets), q.h1(r, eol, true), true
		case "h2:headers-is-10th-frame":
			sets := []map[string]any{{"method": []string{q.method}, "protocol": "http/2"}}
			cs.Config, cs.Input, cs.Want = httpCfg(sets), q.h2start(r, 9), true
		case "h2:preface-body-no-config":
			cs.Input = q.h2start(r, 1)
			copy(cs.Input[18:], "XX")
			cs.Abstain = "broken preface body: still a syntactically valid request line, nothing configured to tell"
		}
	}
	return cs
}

func init() {
	RegisterTarget(&Target{Name: "http", Gen: httpGen, Quick: 2000, Thorough: 100000})
}
