package c14

// Small helpers shared by the dns / rdp / openvpn / winbox / http targets.

import (
	"regexp"
	"sync"
)

var bReCache sync.Map

// bRe compiles (and caches) a regular expression used by a reference predicate.
func bRe(p string) *regexp.Regexp {
	if v, ok := bReCache.Load(p); ok {
		return v.(*regexp.Regexp)
	}
	re := regexp.MustCompile(p)
	bReCache.Store(p, re)
	return re
}
