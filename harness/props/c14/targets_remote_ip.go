package c14

import (
	"math/rand"
)

// Reference (documentation of MatchRemoteIP / MatchLocalIP): "matches requests by remote [local] IP (or CIDR range)":
// Ranges is a list of IP addresses or CIDR expressions; a connection matches iff its remote [local] address is a
// member of at least one range. Membership is the CIDR definition (the first <prefix length> bits agree, a bare
// address is a full-length prefix); families do not mix (net/netip: "An IPv4 address will not match an IPv6
// prefix"); a v4-mapped IPv6 endpoint is reported by Go's net package as an IPv4 endpoint; where the v4-mapped
// block would have to be interpreted the reference abstains.
type gaIPCfg struct {
	Ranges []string `json:"ranges,omitempty"`
}

// gaGenIP generates a case for remote_ip (remote=true) or local_ip.
func gaGenIP(r *rand.Rand, remote bool) Case {
	cs := Case{Matcher: "local_ip"}
	if remote {
		cs.Matcher = "remote_ip"
	}
	cs.UDP = r.Intn(4) == 0
	cs.Input = gaBytes(r, r.Intn(6))

	// the configured ranges
	var ps []gaPrefix
	fam6 := r.Intn(5) < 2 // family of the range the case is built around
	n := 1 + r.Intn(4)
	for j := 0; j < n; j++ {
		v6 := fam6
		if j > 0 {
			v6 = r.Intn(3) == 0
		}
		p := gaRandPrefix(r, v6)
		if p.bits == 0 && j > 0 { // keep /0 to the deliberate case below, otherwise nothing is ever outside
			p.bits = 16
		}
		ps = append(ps, p)
	}
	focus := ps[0]

	randomAddr := func(v6 bool) []byte {
		if v6 {
			a := gaBytes(r, 16)
			if a[0] == 0 {
				a[0] = 0x2a
			}
			return a
		}
		return gaBytes(r, 4)
	}
	outsideAll := func() []byte {
		for try := 0; try < 30; try++ {
			p := ps[r.Intn(len(ps))]
			if p.bits == 0 {
				continue
			}
			a := gaOutside(r, p)
			if in, abst := gaMatchAny(ps, a); !in && abst == "" {
				return a
			}
		}
		return nil
	}

	var ip []byte
	switch k := r.Intn(100); {
	case k < 34: // inside one of the ranges (random host part, first or last address)
		ip, cs.Class = gaInside(r, ps[r.Intn(len(ps))]), "valid:in-range"
	case k < 40: // bare address / full-length prefix: exactly that address
		ps[0] = gaPrefix{addr: randomAddr(fam6), bits: 32, bare: r.Intn(2) == 0}
		if fam6 {
			ps[0].bits = 128
		}
		ip, cs.Class = append([]byte(nil), ps[0].addr...), "valid:exact-address"
	case k < 62: // just outside: one network bit flipped (adjacent block or far block)
		if focus.bits == 0 {
			focus.bits = 8
			ps[0] = focus
		}
		if a := outsideAll(); a != nil {
			ip, cs.Class = a, "filter:range:out"
		} else {
			ip, cs.Class = gaInside(r, focus), "valid:in-range"
		}
	case k < 68: // full-length prefix, neighbouring address (last bit differs)
		a := randomAddr(fam6)
		ps = []gaPrefix{{addr: a, bits: len(a) * 8, bare: r.Intn(2) == 0}}
		b := append([]byte(nil), a...)
		b[len(b)-1] ^= 1 << uint(r.Intn(8))
		ip, cs.Class = b, "filter:exact-address:out"
	case k < 76: // other family than every range
		for j := range ps {
			ps[j] = gaRandPrefix(r, fam6)
			if ps[j].bits == 0 {
				ps[j].bits = 1
			}
		}
		ip, cs.Class = randomAddr(!fam6), "filter:family:out"
	case k < 80: // the other endpoint is inside the range, the one that counts is not (and the other way round)
		if focus.bits == 0 {
			focus.bits = 8
			ps[0] = focus
		}
		ps = ps[:1]
		inside, outside := gaInside(r, focus), gaOutside(r, focus)
		other := inside
		ip, cs.Class = outside, "filter:other-endpoint-in-range"
		if r.Intn(2) == 0 {
			ip, other, cs.Class = inside, outside, "valid:other-endpoint-out-of-range"
		}
		if remote {
			cs.Local = gaHostPort(other, int(gaPort(r)))
		} else {
			cs.Remote = gaHostPort(other, int(gaPort(r)))
		}
	case k < 84: // /0 matches every address of its family, and none of the other family
		ps = []gaPrefix{{addr: make([]byte, 4), bits: 0}}
		if fam6 {
			ps = []gaPrefix{{addr: make([]byte, 16), bits: 0}}
		}
		if r.Intn(3) == 0 {
			ip, cs.Class = randomAddr(!fam6), "boundary:/0-other-family"
		} else {
			ip, cs.Class = randomAddr(fam6), "boundary:/0"
		}
	case k < 88: // no ranges at all: nothing matches
		ps = nil
		ip, cs.Class = randomAddr(r.Intn(2) == 0), "boundary:no-ranges"
	case k < 93: // v4-mapped IPv6 endpoint against IPv4 ranges: Go reports such an endpoint as IPv4
		p := gaRandPrefix(r, false)
		if p.bits == 0 {
			p.bits = 8
		}
		ps = []gaPrefix{p}
		a := gaInside(r, p)
		cs.Class = "boundary:v4-mapped-endpoint:in"
		if r.Intn(2) == 0 {
			a, cs.Class = gaOutside(r, p), "boundary:v4-mapped-endpoint:out"
		}
		ip = append([]byte{0, 0, 0, 0, 0, 0, 0, 0, 0, 0, 0xff, 0xff}, a...)
	case k < 96: // v4-mapped range (::ffff:a.b.c.d/96+n) against an IPv4 endpoint: not settled by the definition
		p := gaRandPrefix(r, false)
		a := gaInside(r, p)
		m := gaPrefix{addr: append([]byte{0, 0, 0, 0, 0, 0, 0, 0, 0, 0, 0xff, 0xff}, p.addr...), bits: 96 + p.bits}
		ps = []gaPrefix{m}
		ip, cs.Class = a, "boundary:v4-mapped-range"
	case k < 98: // special addresses
		sp := [][]byte{{0, 0, 0, 0}, {255, 255, 255, 255}, {127, 0, 0, 1}, make([]byte, 16), {0, 0, 0, 0, 0, 0, 0, 0, 0, 0, 0, 0, 0, 0, 0, 1},
			{0xff, 0xff, 0xff, 0xff, 0xff, 0xff, 0xff, 0xff, 0xff, 0xff, 0xff, 0xff, 0xff, 0xff, 0xff, 0xff}}
		ip = sp[r.Intn(len(sp))]
		cs.Class = "boundary:special-address"
		if r.Intn(2) == 0 {
			ps = []gaPrefix{{addr: append([]byte(nil), ip...), bits: len(ip) * 8, bare: true}}
		}
	default: // arbitrary address against the ranges
		ip, cs.Class = randomAddr(r.Intn(2) == 0), "random"
	}

	cs.Config = gaJSON(gaIPCfg{Ranges: gaPrefixStrings(ps)})
	port := int(gaPort(r))
	if remote {
		cs.Remote = gaHostPort(ip, port)
	} else {
		cs.Local = gaHostPort(ip, port)
	}
	cs.Want, cs.Abstain = gaMatchAny(ps, gaConnIP(ip))
	return cs
}

func init() {
	RegisterTarget(&Target{Name: "remote_ip", Gen: func(r *rand.Rand, i int) Case { return gaGenIP(r, true) }, Quick: 2000, Thorough: 150000})
}
