package c14

import (
	"encoding/binary"
	"math/rand"
)

// Reference (PostgreSQL frontend/backend protocol, "Message Formats"):
//
//	StartupMessage: Int32 length (counts itself), Int32 protocol version (major<<16 | minor), then one or more
//	  pairs String name, String value (NUL-terminated), and a zero byte as terminator after the last pair.
//	SSLRequest:     Int32(8), Int32(80877103).
//
// The module documents that protocol versions below 3.0 are not supported, and that a message "looks like
// Postgres" if it is an SSLRequest or a StartupMessage carrying at least one parameter.
// The reference is strict about the wire format; where strictness is a matter of interpretation it abstains.
const (
	gaPgSSLRequest = 80877103
	gaPgMaxLen     = 8192 // never generate a length field above this for a non-corrupt case (and never above 1<<20 at all)
)

func gaRefPostgres(in []byte) (want bool, abstain string) {
	if len(in) < 4 {
		return false, ""
	}
	L := int64(binary.BigEndian.Uint32(in))
	if L < 8 { // the length counts itself and the 4-byte code is mandatory
		return false, ""
	}
	if L > int64(len(in)) { // incomplete message
		return false, ""
	}
	code := binary.BigEndian.Uint32(in[4:8])
	if code == gaPgSSLRequest {
		if L == 8 {
			return true, ""
		}
		return false, "SSLRequest code with a length other than 8: the message format fixes Int32(8), the module documents only the code"
	}
	if code>>16 == 1234 {
		return false, "request code of the 1234.x family other than SSLRequest (CancelRequest, GSSENCRequest, ...): not a StartupMessage, not documented by the module"
	}
	if code>>16 < 3 {
		return false, ""
	}
	p := in[8:L]
	pos, pairs := 0, 0
	next := func() (s []byte, ok bool) {
		for e := pos; e < len(p); e++ {
			if p[e] == 0 {
				s = p[pos:e]
				pos = e + 1
				return s, true
			}
		}
		return nil, false
	}
	for {
		k, ok := next()
		if !ok {
			return false, "" // unterminated name, or the terminator after the last pair is missing
		}
		if len(k) == 0 { // terminator
			if pairs > 0 && pos != len(p) {
				return false, "bytes after the terminator inside the declared length"
			}
			return pairs > 0, ""
		}
		if _, ok := next(); !ok {
			return false, "" // unterminated value
		}
		pairs++
	}
}

var gaPgKeys = []string{"user", "database", "options", "application_name", "client_encoding", "replication", "DateStyle", "TimeZone", "_pq_.x"}

// gaPgString draws a non-empty string without NUL over the full range 1..255.
func gaPgString(r *rand.Rand, allowEmpty bool) []byte {
	switch r.Intn(4) {
	case 0:
		return []byte(gaPgKeys[r.Intn(len(gaPgKeys))])
	case 1:
		if allowEmpty {
			return nil
		}
	}
	n := 1 + r.Intn(24)
	b := make([]byte, n)
	for i := range b {
		b[i] = byte(1 + r.Intn(255))
	}
	return b
}

// gaPgStartup builds a StartupMessage with the given version code and number of pairs.
func gaPgStartup(r *rand.Rand, code uint32, pairs int, terminator bool) []byte {
	var p []byte
	for j := 0; j < pairs; j++ {
		k := gaPgString(r, false)
		if j == 0 && r.Intn(2) == 0 {
			k = []byte("user")
		}
		p = append(p, k...)
		p = append(p, 0)
		// without the terminator the last value is kept non-empty, otherwise its NUL could be read as the terminator
		p = append(p, gaPgString(r, terminator || j < pairs-1)...)
		p = append(p, 0)
	}
	if terminator {
		p = append(p, 0)
	}
	return gaPgFrame(code, p)
}

func gaPgFrame(code uint32, payload []byte) []byte {
	b := make([]byte, 8, 8+len(payload))
	binary.BigEndian.PutUint32(b, uint32(8+len(payload)))
	binary.BigEndian.PutUint32(b[4:], code)
	return append(b, payload...)
}

func gaPgVersion3(r *rand.Rand) uint32 {
	switch r.Intn(10) {
	case 0:
		return 3<<16 | uint32(r.Intn(65536)) // 3.x, all minors
	case 1:
		return 3<<16 | 2 // 3.2
	case 2:
		// any major >= 3 except the 1234 request-code family
		for {
			m := uint32(3 + r.Intn(65533))
			if m != 1234 {
				return m<<16 | uint32(r.Intn(65536))
			}
		}
	}
	return 3 << 16 // 3.0
}

func genPostgres(r *rand.Rand, i int) Case {
	cs := Case{Matcher: "postgres", Config: "{}"}
	switch k := r.Intn(100); {
	case k < 30:
		cs.Input, cs.Class = gaPgStartup(r, 3<<16, 1+r.Intn(6), true), "valid:startup-3.0"
	case k < 34:
		cs.Input, cs.Class = gaPgStartup(r, gaPgVersion3(r), 1+r.Intn(6), true), "valid:startup-version>=3"
	case k < 40:
		cs.Input, cs.Class = gaPgFrame(gaPgSSLRequest, nil), "valid:sslrequest"
	case k < 44: // the length field says less than 8: 4..7 (0..3 would make the module allocate 4 GiB: not generated, see report)
		b := gaPgStartup(r, 3<<16, 1+r.Intn(3), true)
		binary.BigEndian.PutUint32(b, uint32(4+r.Intn(4)))
		cs.Input, cs.Class = b, "corrupt:len<8"
	case k < 50: // the length field promises more than there is
		b := gaPgStartup(r, 3<<16, 1+r.Intn(3), true)
		L := len(b) + 1 + r.Intn(64)
		if r.Intn(4) == 0 {
			L = gaPgMaxLen
		}
		binary.BigEndian.PutUint32(b, uint32(L))
		cs.Input, cs.Class = b, "corrupt:len>data"
	case k < 56: // terminator after the last pair missing
		cs.Input, cs.Class = gaPgStartup(r, 3<<16, 1+r.Intn(6), false), "corrupt:missing-terminator"
	case k < 62: // no parameter at all
		cs.Input, cs.Class = gaPgStartup(r, gaPgVersion3(r), 0, true), "corrupt:zero-pairs"
	case k < 64:
		cs.Input, cs.Class = gaPgStartup(r, 3<<16, 0, false), "corrupt:zero-pairs-no-terminator"
	case k < 72: // protocol major version below 3: all of 0.x, 1.x, 2.x
		code := uint32(r.Intn(3))<<16 | uint32(r.Intn(65536))
		if r.Intn(2) == 0 {
			code = 2 << 16
		}
		cs.Input, cs.Class = gaPgStartup(r, code, 1+r.Intn(4), true), "corrupt:version<3"
	case k < 78: // the last string (value or name) is not terminated
		b := gaPgStartup(r, 3<<16, r.Intn(3), false)
		tail := gaPgString(r, false)
		if r.Intn(2) == 0 {
			tail = append(append(gaPgString(r, false), 0), gaPgString(r, false)...)
		}
		b = append(b, tail...)
		binary.BigEndian.PutUint32(b, uint32(len(b)))
		cs.Input, cs.Class = b, "corrupt:unterminated-string"
	case k < 80: // first name empty, i.e. the terminator comes first and pairs follow
		b := gaPgStartup(r, 3<<16, 1+r.Intn(3), true)
		b = append(b[:8:8], append([]byte{0}, b[8:]...)...)
		binary.BigEndian.PutUint32(b, uint32(len(b)))
		cs.Input, cs.Class = b, "corrupt:terminator-first"
	case k < 84: // well-formed message followed by more bytes of the stream (beyond the declared length)
		b := gaPgStartup(r, 3<<16, 1+r.Intn(4), true)
		if r.Intn(3) == 0 {
			b = gaPgFrame(gaPgSSLRequest, nil)
		}
		cs.Input, cs.Class = append(b, gaBytes(r, 1+r.Intn(40))...), "boundary:valid+trailing-stream"
	case k < 87: // name without value (odd number of strings) before the terminator
		b := gaPgStartup(r, 3<<16, r.Intn(3), false)
		b = append(b, gaPgString(r, false)...)
		b = append(b, 0, 0)
		binary.BigEndian.PutUint32(b, uint32(len(b)))
		cs.Input, cs.Class = b, "boundary:name-without-value"
		cs.Abstain = "a name followed directly by the terminator can also be read as a pair with an empty value whose terminator is missing"
	case k < 89: // SSLRequest code with a wrong length
		cs.Input, cs.Class = gaPgFrame(gaPgSSLRequest, gaBytes(r, 1+r.Intn(16))), "boundary:sslrequest-len!=8"
	case k < 91: // CancelRequest / GSSENCRequest
		if r.Intn(2) == 0 {
			cs.Input = gaPgFrame(80877102, gaBytes(r, 8))
		} else {
			cs.Input = gaPgFrame(80877104, nil)
		}
		cs.Class = "boundary:other-request-code"
	case k < 93: // duplicate names
		b := gaPgFrame(3<<16, []byte("user\x00a\x00user\x00b\x00\x00"))
		cs.Input, cs.Class = b, "boundary:duplicate-names"
	case k < 95: // large but legal message
		var p []byte
		for len(p) < 7000 {
			p = append(p, gaPgString(r, false)...)
			p = append(p, 0)
			p = append(p, gaPgString(r, true)...)
			p = append(p, 0)
		}
		p = append(p, 0)
		cs.Input, cs.Class = gaPgFrame(3<<16, p), "boundary:large"
	case k < 97: // shorter than the length field itself
		cs.Input, cs.Class = []byte{0, 0, 0, 0x29}[:r.Intn(4)], "boundary:short"
	default: // every value empty
		var p []byte
		for j, n := 0, 1+r.Intn(4); j < n; j++ {
			p = append(append(p, gaPgString(r, false)...), 0, 0)
		}
		cs.Input, cs.Class = gaPgFrame(3<<16, append(p, 0)), "boundary:empty-values"
	}
	if cs.Abstain == "" {
		cs.Want, cs.Abstain = gaRefPostgres(cs.Input)
	}
	return cs
}

func init() {
	RegisterTarget(&Target{Name: "postgres", Gen: genPostgres, Quick: 2000, Thorough: 150000})
}
