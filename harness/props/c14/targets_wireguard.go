package c14

import (
	"fmt"
	"math/rand"
)

// Reference (https://www.wireguard.com/protocol/ and the module's documentation). Every WireGuard message starts
// with a 1-byte type (1 handshake initiation, 2 handshake response, 3 cookie reply, 4 transport data) followed by
// three reserved zero bytes; sizes are fixed: initiation 148, response 92, cookie reply 64; transport data is
// 16 bytes of header + a multiple of 16 bytes of encrypted packet + 16 bytes tag, i.e. 32 for a keepalive.
// The module documents that it matches a datagram that is a handshake initiation (exactly 148 bytes, type 1) or
// a keepalive (exactly 32 bytes, type 4) and that "anything else, can also be a valid non-empty transport message"
// does not match; the configured Zero replaces the expected value of the three reserved bytes ("0xFF770000 in
// order to match custom handshake initiation messages starting with 0x010077FF").
type gaWGCfg struct {
	Zero uint32 `json:"zero,omitempty"`
}

func gaRefWireGuard(c *gaWGCfg, dgram []byte) bool {
	var typ byte
	switch len(dgram) {
	case 148:
		typ = 1
	case 32:
		typ = 4
	default:
		return false
	}
	return dgram[0] == typ && dgram[1] == byte(c.Zero>>8) && dgram[2] == byte(c.Zero>>16) && dgram[3] == byte(c.Zero>>24)
}

func gaWGMsg(r *rand.Rand, c *gaWGCfg, typ byte, size int) []byte {
	b := gaBytes(r, size)
	if size >= 4 {
		b[0], b[1], b[2], b[3] = typ, byte(c.Zero>>8), byte(c.Zero>>16), byte(c.Zero>>24)
	}
	return b
}

func genWireGuard(r *rand.Rand, i int) Case {
	cs := Case{Matcher: "wireguard", UDP: true}
	c := &gaWGCfg{}
	switch r.Intn(6) {
	case 0:
		c.Zero = 0xFF770000 // the documented example
	case 1:
		c.Zero = uint32(r.Intn(1<<24)) << 8
	case 2:
		c.Zero = uint32(1+r.Intn(255)) << uint(8*(1+r.Intn(3))) // a single reserved byte non-zero
	}
	lowByte := false
	valid := func() []byte {
		if r.Intn(2) == 0 {
			return gaWGMsg(r, c, 1, 148)
		}
		return gaWGMsg(r, c, 4, 32)
	}
	validType := func(b []byte) string {
		if len(b) == 148 {
			return "initiation"
		}
		return "keepalive"
	}
	switch k := r.Intn(100); {
	case k < 22:
		cs.Input, cs.Class = gaWGMsg(r, c, 1, 148), "valid:initiation"
	case k < 40:
		cs.Input, cs.Class = gaWGMsg(r, c, 4, 32), "valid:keepalive"
	case k < 52: // type byte: all 255 other values, among them the type that belongs to the other size
		b := valid()
		b[0] = gaOtherByte(r, b[0])
		if r.Intn(4) == 0 {
			if len(b) == 148 {
				b[0] = 4
			} else {
				b[0] = 1
			}
		}
		cs.Input, cs.Class = b, "corrupt:type:"+validType(b)
	case k < 64: // one reserved byte differs from the configured value (all 255 other values)
		b := valid()
		pos := 1 + r.Intn(3)
		b[pos] = gaOtherByte(r, b[pos])
		cs.Input, cs.Class = b, fmt.Sprintf("corrupt:reserved[%d]:%s", pos, validType(b))
	case k < 74: // size off: one byte more or less, and other sizes
		var size int
		var typ byte
		if r.Intn(2) == 0 {
			typ, size = 1, []int{147, 149, 150, 146, 148 + 16, 148 - 16, 4, 8, 200, 1000}[r.Intn(10)]
		} else {
			typ, size = 4, []int{31, 33, 30, 34, 16, 28, 4, 5}[r.Intn(8)]
		}
		cs.Input, cs.Class = gaWGMsg(r, c, typ, size), fmt.Sprintf("corrupt:size:type%d", typ)
	case k < 80: // configured reserved value non-zero, standard message on the wire (and the other way round)
		if c.Zero == 0 {
			b := valid()
			pos := 1 + r.Intn(3)
			b[pos] = byte(1 + r.Intn(255))
			cs.Input, cs.Class = b, "filter:zero:out:nonzero-reserved-vs-default"
		} else {
			std := &gaWGCfg{}
			b := gaWGMsg(r, std, 1, 148)
			if r.Intn(2) == 0 {
				b = gaWGMsg(r, std, 4, 32)
			}
			cs.Input, cs.Class = b, "filter:zero:out:standard-vs-configured"
		}
	case k < 85: // other well-formed WireGuard messages: the module documents that it does not match them
		switch r.Intn(3) {
		case 0:
			cs.Input, cs.Class = gaWGMsg(r, c, 2, 92), "other-message:response"
		case 1:
			cs.Input, cs.Class = gaWGMsg(r, c, 3, 64), "other-message:cookie-reply"
		default:
			cs.Input, cs.Class = gaWGMsg(r, c, 4, 32+16*(1+r.Intn(90))), "other-message:transport-data"
		}
	case k < 88: // sizes and types crossed: 148 bytes of type 4 (a legal transport data size is 32+16k; 148 is not), 32 bytes of type 1
		if r.Intn(2) == 0 {
			cs.Input = gaWGMsg(r, c, 4, 148)
		} else {
			cs.Input = gaWGMsg(r, c, 1, 32)
		}
		cs.Class = "corrupt:type-size-crossed"
	case k < 91: // tiny datagrams
		cs.Input, cs.Class = gaWGMsg(r, c, 1, r.Intn(4)), "boundary:tiny"
	case k < 94: // low byte of the configured value set: it has no counterpart among the reserved bytes
		c.Zero |= uint32(1 + r.Intn(255))
		lowByte = true
		cs.Input, cs.Class = valid(), "boundary:zero-low-byte"
	case k < 97: // stream transport: WireGuard is a datagram protocol
		cs.UDP = false
		cs.Input, cs.Class = valid(), "boundary:tcp"
		cs.Abstain = "WireGuard is defined over UDP datagrams only; the module does not document its behaviour on stream connections"
	default:
		cs.Input, cs.Class = gaBytes(r, []int{148, 32}[r.Intn(2)]), "random"
	}
	cs.Config = gaJSON(c)
	if lowByte {
		cs.Abstain = "the low byte of 'zero' overlaps the message type and is not described by the documentation"
	}
	if cs.Abstain == "" {
		cs.Want = gaRefWireGuard(c, cs.Input)
	}
	return cs
}

func init() {
	RegisterTarget(&Target{Name: "wireguard", Gen: genWireGuard, Quick: 2000, Thorough: 150000})
}
