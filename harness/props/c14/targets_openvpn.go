package c14

// OpenVPN target: reference predicate for the client hard-reset messages (P_CONTROL_HARD_RESET_CLIENT_V2 in the
// plain / tls-auth / tls-crypt layouts, P_CONTROL_HARD_RESET_CLIENT_V3 in the tls-crypt-v2 layout) written from the
// OpenVPN protocol description (openvpn.net "OpenVPN protocol", doc/tls-crypt-v2.txt) and from the documentation of
// MatchOpenVPN (modes, ignore_crypto, ignore_timestamp, group_key, auth_digest, group_key_direction, server_key,
// client_keys) and of its message types (field meanings and mandatory values).
//
// All HMACs, the AES-256-CTR encryption and the client key wrapping are computed here with the Go standard library
// and x/crypto; nothing of the module is used.
//
// The replay timestamp is validated against the wall clock by the module (documented +-15 s window), so cases
// whose verdict needs a timestamp inside the window take time.Now() when they are generated (classes "...:ts-now");
// everything else is a function of the PRNG only. The reference abstains between 12 and 18 s off.

import (
	"crypto/aes"
	"crypto/cipher"
	"crypto/hmac"
	"crypto/md5"
	"crypto/sha1"
	"crypto/sha256"
	"crypto/sha512"
	"encoding/base64"
	"encoding/binary"
	"encoding/hex"
	"encoding/json"
	"hash"
	"math/rand"
	"strings"
	"time"

	"golang.org/x/crypto/blake2b"
	"golang.org/x/crypto/blake2s"
	"golang.org/x/crypto/ripemd160"
	"golang.org/x/crypto/sha3"
)

type ovpnCfg struct {
	Modes             []string `json:"modes,omitempty"`
	IgnoreCrypto      bool     `json:"ignore_crypto,omitempty"`
	IgnoreTimestamp   bool     `json:"ignore_timestamp,omitempty"`
	GroupKey          string   `json:"group_key,omitempty"`
	AuthDigest        string   `json:"auth_digest,omitempty"`
	GroupKeyDirection string   `json:"group_key_direction,omitempty"`
	ClientKeys        []string `json:"client_keys,omitempty"`
	ServerKey         string   `json:"server_key,omitempty"`
}

type ovpnDigest struct {
	name string
	size int
	mk   func() hash.Hash // nil: only the size is known to the reference
}

var ovpnDigests = []ovpnDigest{
	{"MD5", 16, md5.New}, {"SHA-1", 20, sha1.New}, {"RIPEMD-160", 20, ripemd160.New},
	{"SHA-224", 28, sha256.New224}, {"SHA-256", 32, sha256.New}, {"SHA-384", 48, sha512.New384}, {"SHA-512", 64, sha512.New},
	{"SHA-512/224", 28, sha512.New512_224}, {"SHA-512/256", 32, sha512.New512_256},
	{"SHA3-224", 28, sha3.New224}, {"SHA3-256", 32, sha3.New256}, {"SHA3-384", 48, sha3.New384}, {"SHA3-512", 64, sha3.New512},
	{"BLAKE2s-256", 32, func() hash.Hash { h, _ := blake2s.New256(nil); return h }},
	{"BLAKE2b-512", 64, func() hash.Hash { h, _ := blake2b.New512(nil); return h }},
	{"SHAKE-128", 32, func() hash.Hash { return sha3.NewShake128() }}, {"SHAKE-256", 64, func() hash.Hash { return sha3.NewShake256() }},
}

// alternative notations the documentation promises ("a number of popular notations, including lowercase")
var ovpnDigestAlias = map[string]string{"sha256": "SHA-256", "sha1": "SHA-1", "md5": "MD5", "sha512": "SHA-512", "SHA384": "SHA-384",
	"sha3-256": "SHA3-256", "ripemd160": "RIPEMD-160", "sha-224": "SHA-224", "blake2b-512": "BLAKE2b-512"}

func ovpnDigestByName(n string) *ovpnDigest {
	if a, ok := ovpnDigestAlias[n]; ok {
		n = a
	}
	for i := range ovpnDigests {
		if ovpnDigests[i].name == n {
			return &ovpnDigests[i]
		}
	}
	return nil
}

func ovpnHMAC(mk func() hash.Hash, key []byte, parts ...[]byte) []byte {
	h := hmac.New(mk, key)
	for _, p := range parts {
		h.Write(p)
	}
	return h.Sum(nil)
}

func ovpnCTR(key, iv, in []byte) []byte {
	blk, _ := aes.NewCipher(key)
	out := make([]byte, len(in))
	cipher.NewCTR(blk, iv).XORKeyStream(out, in)
	return out
}

// tls-auth HMAC key of the client for a 2048-bit static key: second HMAC slot with key direction 1 on the client
// ("normal"), first HMAC slot with direction 0 on the client ("inverse") or without direction ("bidi").
func ovpnAuthKey(key []byte, direction string, size int) []byte {
	off := 192
	switch strings.ToLower(direction) {
	case "inverse", "bidi", "bidirectional":
		off = 64
	}
	return key[off : off+min(size, 64)]
}

func ovpnTimestampOK(cfg *ovpnCfg, ts uint32, now int64) (ok bool, abstain string) {
	if cfg.IgnoreTimestamp {
		return true, ""
	}
	d := int64(ts) - now
	if d < 0 {
		d = -d
	}
	switch {
	case d <= 12:
		return true, ""
	case d >= 18:
		return false, ""
	}
	return false, "timestamp at the edge of the window"
}

// ovpnTLSCrypt verifies the tls-crypt part (54 bytes with opcode) against a 2048-bit key kc used by the client
// (cipher key 2 / HMAC key 2): returns whether the tag verifies and the inner fields are zero.
func ovpnTLSCryptOK(msg []byte, kc []byte) bool {
	tag, enc := msg[17:49], msg[49:54]
	plain := ovpnCTR(kc[128:160], tag[:16], enc)
	want := ovpnHMAC(sha256.New, kc[192:224], msg[:17], plain)
	return hmac.Equal(want, tag) && plain[0] == 0 && binary.BigEndian.Uint32(plain[1:]) == 0
}

// ovpnRef is the reference predicate on one message (opcode byte first, without the TCP length prefix).
func ovpnRef(cfg *ovpnCfg, msg []byte, now int64) (want bool, abstain string) {
	accept := map[string]bool{}
	for _, m := range cfg.Modes {
		accept[strings.ToLower(m)] = true
	}
	if len(cfg.Modes) == 0 {
		accept = map[string]bool{"plain": true, "auth": true, "crypt": true, "crypt2": true}
	}
	if len(msg) < 14 {
		return false, ""
	}
	op, keyID := msg[0]>>3, msg[0]&7
	if keyID != 0 {
		return false, ""
	}
	var groupKey []byte
	if cfg.GroupKey != "" {
		groupKey, _ = hex.DecodeString(cfg.GroupKey)
	}
	sid := binary.BigEndian.Uint64(msg[1:9])
	var abst string
	note := func(a string) {
		if a != "" && abst == "" {
			abst = a
		}
	}
	if op == 7 {
		if accept["plain"] && len(msg) == 14 && sid != 0 && msg[9] == 0 && binary.BigEndian.Uint32(msg[10:]) == 0 {
			return true, ""
		}
		if accept["auth"] && len(msg) >= 14+8+16 {
			sz := len(msg) - 14 - 8
			var cands []*ovpnDigest
			known := sz == 36 // MD5+SHA1 is named in the source only; treat its size as known
			for i := range ovpnDigests {
				if ovpnDigests[i].size == sz {
					known = true
					cands = append(cands, &ovpnDigests[i])
				}
			}
			mac := msg[9 : 9+sz]
			rest := msg[9+sz:] // packet id, timestamp, ack count, message packet id
			ok := known && sid != 0 && binary.BigEndian.Uint32(rest[0:]) == 1 && rest[8] == 0 && binary.BigEndian.Uint32(rest[9:]) == 0
			if ok {
				tsok, a := ovpnTimestampOK(cfg, binary.BigEndian.Uint32(rest[4:]), now)
				skipCrypto := cfg.IgnoreCrypto || groupKey == nil
				switch {
				case a != "":
					note(a)
				case !tsok:
				default:
					if cfg.AuthDigest != "" {
						d := ovpnDigestByName(cfg.AuthDigest)
						if d == nil || d.size != sz {
							cands = nil
							if skipCrypto {
								note("auth_digest of another size while authentication is skipped")
							}
						} else {
							cands = []*ovpnDigest{d}
						}
					}
					if skipCrypto {
						if cands != nil || cfg.AuthDigest == "" {
							return true, ""
						}
					} else {
						for _, d := range cands {
							if d.mk == nil {
								note("digest not implemented by the reference")
								continue
							}
							exp := ovpnHMAC(d.mk, ovpnAuthKey(groupKey, cfg.GroupKeyDirection, d.size), rest[:8], msg[:9], rest[8:])
							if hmac.Equal(exp, mac) {
								return true, ""
							}
						}
						if sz == 36 && cfg.AuthDigest == "" {
							note("digest not implemented by the reference")
						}
					}
				}
			}
		}
		if accept["crypt"] && len(msg) == 54 {
			if sid != 0 && binary.BigEndian.Uint32(msg[9:]) == 1 {
				tsok, a := ovpnTimestampOK(cfg, binary.BigEndian.Uint32(msg[13:]), now)
				switch {
				case a != "":
					note(a)
				case !tsok:
				case cfg.IgnoreCrypto || groupKey == nil:
					return true, ""
				case ovpnTLSCryptOK(msg, groupKey):
					return true, ""
				}
			}
		}
	}
	if op == 10 && accept["crypt2"] && len(msg) >= 54+290 && len(msg) <= 54+1024 {
		wkc := msg[54:]
		pid := binary.BigEndian.Uint32(msg[9:])
		if sid != 0 && (pid == 1 || pid == 0x0f000001) && int(binary.BigEndian.Uint16(wkc[len(wkc)-2:])) == len(wkc) {
			tsok, a := ovpnTimestampOK(cfg, binary.BigEndian.Uint32(msg[13:]), now)
			switch {
			case a != "":
				note(a)
			case !tsok:
			case cfg.IgnoreCrypto:
				return true, ""
			case len(cfg.ClientKeys) > 0:
				found := false
				for _, ck := range cfg.ClientKeys {
					raw, _ := base64.StdEncoding.DecodeString(ck)
					if len(raw) > 256 && string(raw[256:]) == string(wkc) {
						found = true
						if ovpnTLSCryptOK(msg[:54], raw[:256]) {
							return true, ""
						}
					}
				}
				if !found && cfg.ServerKey != "" {
					note("client key not listed while a server key could unwrap it")
				}
			case cfg.ServerKey != "":
				sk, _ := base64.StdEncoding.DecodeString(cfg.ServerKey)
				tag, enc := wkc[:32], wkc[32:len(wkc)-2]
				plain := ovpnCTR(sk[0:32], tag[:16], enc)
				// tls-crypt-v2: tag = HMAC-SHA256(Ka, len || Kc || metadata), metadata = type || payload (payload may be empty)
				if hmac.Equal(ovpnHMAC(sha256.New, sk[64:96], wkc[len(wkc)-2:], plain), tag) && ovpnTLSCryptOK(msg[:54], plain[:256]) {
					return true, ""
				}
			default:
				return true, "" // no keys: structure only
			}
		}
	}
	return false, abst
}

// ovpnRefStream adds the transport framing: TCP carries a 16-bit length followed by exactly that many bytes.
func ovpnRefStream(cfg *ovpnCfg, in []byte, udp bool, now int64) (bool, string) {
	if udp {
		return ovpnRef(cfg, in, now)
	}
	if len(in) < 2 || int(binary.BigEndian.Uint16(in)) != len(in)-2 {
		return false, ""
	}
	return ovpnRef(cfg, in[2:], now)
}

// ---- message builders ----

type ovpnFields struct {
	op, keyID byte
	sid       uint64
	pid       uint32 // replay packet id
	ts        uint32
	ack       byte
	mpid      uint32
}

func (f *ovpnFields) head() []byte {
	return binary.BigEndian.AppendUint64([]byte{f.op<<3 | f.keyID}, f.sid)
}

func (f *ovpnFields) plain() []byte {
	return binary.BigEndian.AppendUint32(append(f.head(), f.ack), f.mpid)
}

func (f *ovpnFields) auth(mac []byte) []byte {
	b := append(f.head(), mac...)
	b = binary.BigEndian.AppendUint32(b, f.pid)
	b = binary.BigEndian.AppendUint32(b, f.ts)
	return binary.BigEndian.AppendUint32(append(b, f.ack), f.mpid)
}

func (f *ovpnFields) authMAC(d *ovpnDigest, key []byte, direction string) []byte {
	pidts := binary.BigEndian.AppendUint32(binary.BigEndian.AppendUint32(nil, f.pid), f.ts)
	tail := binary.BigEndian.AppendUint32([]byte{f.ack}, f.mpid)
	return ovpnHMAC(d.mk, ovpnAuthKey(key, direction, d.size), pidts, f.head(), tail)
}

func (f *ovpnFields) crypt(kc []byte) []byte {
	hdr := binary.BigEndian.AppendUint32(binary.BigEndian.AppendUint32(f.head(), f.pid), f.ts)
	plain := binary.BigEndian.AppendUint32([]byte{f.ack}, f.mpid)
	tag := ovpnHMAC(sha256.New, kc[192:224], hdr, plain)
	return append(append(hdr, tag...), ovpnCTR(kc[128:160], tag[:16], plain)...)
}

func ovpnWrap(serverKey, kc, meta []byte) []byte {
	n := 32 + len(kc) + len(meta) + 2
	lenb := []byte{byte(n >> 8), byte(n)}
	plain := append(append([]byte(nil), kc...), meta...)
	tag := ovpnHMAC(sha256.New, serverKey[64:96], lenb, plain)
	return append(append(append([]byte(nil), tag...), ovpnCTR(serverKey[0:32], tag[:16], plain)...), lenb...)
}

func ovpnKeyBytes(seed int64, n int) []byte {
	b := make([]byte, n)
	rand.New(rand.NewSource(seed)).Read(b)
	return b
}

var (
	ovpnGroupKeys  = [][]byte{ovpnKeyBytes(0x6f76706e01, 256), ovpnKeyBytes(0x6f76706e02, 256), ovpnKeyBytes(0x6f76706e03, 256)}
	ovpnServerKeys = [][]byte{ovpnKeyBytes(0x6f76706e11, 128), ovpnKeyBytes(0x6f76706e12, 128)}
	ovpnClientKeys = [][]byte{ovpnKeyBytes(0x6f76706e21, 256), ovpnKeyBytes(0x6f76706e22, 256), ovpnKeyBytes(0x6f76706e23, 256)}
)

func ovpnRandSID(r *rand.Rand) uint64 {
	for {
		if v := r.Uint64(); v != 0 {
			if r.Intn(16) == 0 {
				return 1 << uint(r.Intn(64)) // a single non-zero bit anywhere
			}
			return v
		}
	}
}

func ovpnModeList(r *rand.Rand, must string, exclude string) []string {
	all := []string{"plain", "auth", "crypt", "crypt2"}
	var out []string
	for _, m := range all {
		if m == exclude {
			continue
		}
		if m == must || r.Intn(2) == 0 {
			if r.Intn(6) == 0 {
				m = strings.ToUpper(m)
			}
			out = append(out, m)
		}
	}
	if exclude == "" && r.Intn(3) == 0 {
		return nil // empty list: all modes
	}
	r.Shuffle(len(out), func(i, j int) { out[i], out[j] = out[j], out[i] })
	return out
}

var ovpnDirections = []string{"", "normal", "inverse", "bidi", "bidirectional", "Inverse", "BIDI"}

func ovpnMeta(r *rand.Rand) ([]byte, string) {
	switch r.Intn(5) {
	case 0:
		return nil, "none"
	case 1:
		m := make([]byte, 9)
		m[0] = 1
		binary.BigEndian.PutUint64(m[1:], uint64(1600000000+r.Intn(200000000)))
		return m, "timestamp"
	default:
		m := make([]byte, 2+r.Intn(64))
		r.Read(m)
		m[0] = 0
		return m, "user"
	}
}

// ovpnBuild produces a well-formed message of the given mode with the configuration that accepts it.
// tsNow=true: timestamps are validated (window around now); otherwise ignore_timestamp is set and the timestamp is arbitrary.
type ovpnBuilt struct {
	cfg    *ovpnCfg
	f      *ovpnFields
	mode   string
	msg    []byte
	detail string
	// material for re-building after a field mutation
	digest    *ovpnDigest
	groupKey  []byte
	direction string
	kc        []byte
	wkc       []byte
	sk        []byte
}

func (b *ovpnBuilt) rebuild(r *rand.Rand) {
	switch b.mode {
	case "plain":
		b.msg = b.f.plain()
	case "auth":
		var mac []byte
		if b.groupKey != nil {
			mac = b.f.authMAC(b.digest, b.groupKey, b.direction)
		} else {
			mac = make([]byte, b.digest.size)
			r.Read(mac)
		}
		b.msg = b.f.auth(mac)
	case "crypt":
		b.msg = b.f.crypt(b.kc)
	case "crypt2":
		b.msg = append(b.f.crypt(b.kc), b.wkc...)
	}
}

func ovpnBuild(r *rand.Rand, mode string, now int64) *ovpnBuilt {
	b := &ovpnBuilt{cfg: &ovpnCfg{}, mode: mode}
	f := &ovpnFields{op: 7, sid: ovpnRandSID(r), pid: 1}
	b.f = f
	tsNow := r.Intn(3) == 0
	if mode != "plain" {
		if tsNow {
			f.ts = uint32(now + int64(r.Intn(21)) - 10)
			b.detail = ":ts-now"
		} else {
			b.cfg.IgnoreTimestamp = true
			f.ts = r.Uint32()
		}
	} else if r.Intn(2) == 0 {
		b.cfg.IgnoreTimestamp = r.Intn(2) == 0
	}
	b.cfg.Modes = ovpnModeList(r, mode, "")
	switch mode {
	case "plain":
	case "auth":
		for {
			b.digest = &ovpnDigests[r.Intn(len(ovpnDigests))]
			if b.digest.mk != nil {
				break
			}
		}
		if r.Intn(3) > 0 {
			k := r.Intn(len(ovpnGroupKeys))
			b.groupKey = ovpnGroupKeys[k]
			b.cfg.GroupKey = hex.EncodeToString(b.groupKey)
			b.direction = ovpnDirections[r.Intn(len(ovpnDirections))]
			b.cfg.GroupKeyDirection = b.direction
			b.detail += ":key"
		} else {
			b.detail += ":nokey"
		}
		if r.Intn(2) == 0 {
			b.cfg.AuthDigest = b.digest.name
			if r.Intn(4) == 0 {
				for a, n := range ovpnDigestAlias {
					if n == b.digest.name {
						b.cfg.AuthDigest = a
					}
				}
			}
		}
	case "crypt":
		b.kc = ovpnGroupKeys[r.Intn(len(ovpnGroupKeys))]
		if r.Intn(3) > 0 {
			b.cfg.GroupKey = hex.EncodeToString(b.kc)
			b.detail += ":key"
			if r.Intn(3) == 0 {
				b.cfg.GroupKeyDirection = ovpnDirections[r.Intn(len(ovpnDirections))] // documented as relevant to the auth mode only
			}
		} else {
			b.detail += ":nokey"
		}
	case "crypt2":
		f.op = 10
		if r.Intn(4) == 0 {
			f.pid = 0x0f000001
		}
		sk := ovpnServerKeys[r.Intn(len(ovpnServerKeys))]
		b.sk = sk
		b.kc = ovpnClientKeys[r.Intn(len(ovpnClientKeys))]
		meta, mk := ovpnMeta(r)
		b.wkc = ovpnWrap(sk, b.kc, meta)
		b.detail += ":meta-" + mk
		ck := base64.StdEncoding.EncodeToString(append(append([]byte(nil), b.kc...), b.wkc...))
		switch r.Intn(4) {
		case 0:
			b.detail += ":nokeys"
		case 1:
			b.cfg.ServerKey = base64.StdEncoding.EncodeToString(sk)
			b.detail += ":serverkey"
		case 2:
			b.cfg.ClientKeys = []string{ck}
			if r.Intn(2) == 0 { // another listed key (wrapped with the same server key, the module checks that when it has one)
				other := ovpnClientKeys[(r.Intn(2)+1)%3]
				ow := ovpnWrap(sk, other, []byte{0, 9, 9})
				b.cfg.ClientKeys = append([]string{base64.StdEncoding.EncodeToString(append(append([]byte(nil), other...), ow...))}, ck)
			}
			b.detail += ":clientkey"
		default:
			b.cfg.ServerKey = base64.StdEncoding.EncodeToString(sk)
			b.cfg.ClientKeys = []string{ck}
			b.detail += ":serverkey+clientkey"
		}
	}
	b.rebuild(r)
	return b
}

func ovpnFrame(msg []byte, udp bool) []byte {
	if udp {
		return msg
	}
	return append([]byte{byte(len(msg) >> 8), byte(len(msg))}, msg...)
}

func ovpnGen(r *rand.Rand, i int) Case {
	now := time.Now().Unix()
	udp := r.Intn(2) == 0
	cs := Case{Matcher: "openvpn", UDP: udp}
	mode := []string{"plain", "auth", "auth", "crypt", "crypt", "crypt2"}[r.Intn(6)]
	b := ovpnBuild(r, mode, now)
	sel := r.Intn(100)
	var in []byte
	nz := func(n int) int { return 1 + r.Intn(n-1) }
	switch {
	case sel < 38:
		cs.Class = "valid:" + mode + b.detail
		in = ovpnFrame(b.msg, udp)
	case sel < 48: // a valid message of a mode that the configured list excludes
		b.cfg.Modes = ovpnModeList(r, "", mode)
		if len(b.cfg.Modes) == 0 {
			b.cfg.Modes = []string{map[string]string{"plain": "auth", "auth": "crypt2", "crypt": "plain", "crypt2": "crypt"}[mode]}
		}
		cs.Class = "filter:modes:excluded:" + mode
		in = ovpnFrame(b.msg, udp)
	case sel < 82:
		common := []string{"opcode", "keyid", "sid-zero", "tcp-len-under", "tcp-len-over", "tcp-len-small", "trailing-byte", "truncated", "empty"}
		per := map[string][]string{
			"plain":  {"ack-count", "msg-packet-id"},
			"auth":   {"ack-count", "msg-packet-id", "replay-packet-id", "timestamp", "hmac-bit", "hmac-size", "wrong-key", "wrong-direction", "wrong-digest-same-size", "wrong-digest-other-size"},
			"crypt":  {"inner-ack-count", "inner-msg-packet-id", "replay-packet-id", "timestamp", "hmac-bit", "encrypted-bit", "wrong-key"},
			"crypt2": {"inner-ack-count", "inner-msg-packet-id", "replay-packet-id", "timestamp", "hmac-bit", "encrypted-bit", "wkc-len-field", "wkc-tag-bit", "wkc-enc-bit", "wkc-too-short", "wkc-unlisted", "wrong-server-key"},
		}
		cl := append(append([]string{}, common...), per[mode]...)
		c := cl[r.Intn(len(cl))]
		// corruptions of authenticated content need the keys, or they are not observable
		needKey := map[string]bool{"hmac-bit": true, "wrong-key": true, "wrong-direction": true, "wrong-digest-same-size": true, "inner-ack-count": true,
			"inner-msg-packet-id": true, "encrypted-bit": true, "wkc-tag-bit": true, "wkc-enc-bit": true, "wkc-unlisted": true, "wrong-server-key": true}
		if needKey[c] {
			for !strings.Contains(b.detail, "key") || strings.Contains(b.detail, "nokey") {
				b = ovpnBuild(r, mode, now)
			}
		}
		cs.Class = "corrupt:" + mode + ":" + c
		f := b.f
		switch c {
		case "opcode":
			for {
				f.op = byte(r.Intn(32))
				if f.op != 7 && f.op != 10 {
					break
				}
			}
			if r.Intn(3) == 0 { // the other client reset opcode on a layout it does not belong to
				f.op = map[bool]byte{true: 7, false: 10}[mode == "crypt2"]
			}
			b.rebuild(r)
		case "keyid":
			f.keyID = byte(nz(8))
			b.rebuild(r)
		case "sid-zero":
			f.sid = 0
			b.rebuild(r)
		case "ack-count", "inner-ack-count":
			f.ack = byte(nz(256))
			b.rebuild(r)
		case "msg-packet-id", "inner-msg-packet-id":
			f.mpid = uint32(1) << uint(r.Intn(32))
			b.rebuild(r)
		case "replay-packet-id":
			f.pid = uint32([]int64{0, 2, 0x01000000, 0x0f000002, int64(r.Uint32())}[r.Intn(5)])
			if f.pid == 1 || f.pid == 0x0f000001 {
				f.pid = 2
			}
			b.rebuild(r)
		case "timestamp":
			b.cfg.IgnoreTimestamp = false
			d := int64(20 + r.Intn(100))
			switch r.Intn(4) {
			case 0:
				d = int64(3600 + r.Intn(1<<30))
			case 1:
				f.ts = uint32(r.Intn(1 << 30)) // far in the past
				d = 0
			}
			if d != 0 {
				if r.Intn(2) == 0 {
					d = -d
				}
				f.ts = uint32(now + d)
			}
			b.rebuild(r)
		case "hmac-bit":
			b.rebuild(r)
			off, n := 9, 32
			if mode == "auth" {
				n = b.digest.size
			} else {
				off = 17
			}
			b.msg[off+r.Intn(n)] ^= 1 << uint(r.Intn(8))
		case "encrypted-bit":
			b.msg[49+r.Intn(5)] ^= 1 << uint(r.Intn(8))
		case "hmac-size": // a MAC length that no digest has
			mac := make([]byte, []int{15, 17, 24, 30, 40, 63}[r.Intn(6)])
			r.Read(mac)
			b.msg = f.auth(mac)
		case "wrong-key":
			for _, k := range ovpnGroupKeys {
				if hex.EncodeToString(k) != b.cfg.GroupKey {
					b.cfg.GroupKey = hex.EncodeToString(k)
					break
				}
			}
		case "wrong-direction":
			if ovpnAuthKey(b.groupKey, b.direction, 16)[0] == b.groupKey[192] {
				b.cfg.GroupKeyDirection = []string{"inverse", "bidi"}[r.Intn(2)]
			} else {
				b.cfg.GroupKeyDirection = []string{"", "normal"}[r.Intn(2)]
			}
		case "wrong-digest-same-size", "wrong-digest-other-size":
			var alt []string
			for _, d := range ovpnDigests {
				if d.name != b.digest.name && (d.size == b.digest.size) == (c == "wrong-digest-same-size") {
					alt = append(alt, d.name)
				}
			}
			if len(alt) == 0 { // MD5 is the only digest of 16 bytes
				alt = []string{"SHA-1"}
				cs.Class = "corrupt:auth:wrong-digest-other-size"
			}
			b.cfg.AuthDigest = alt[r.Intn(len(alt))]
			if c == "wrong-digest-other-size" && b.groupKey == nil && r.Intn(2) == 0 {
				b.cfg.IgnoreCrypto = r.Intn(2) == 0
			}
		case "wkc-len-field":
			n := len(b.wkc)
			binary.BigEndian.PutUint16(b.msg[len(b.msg)-2:], uint16(n+[]int{-1, 1, 2, -n, 256}[r.Intn(5)]))
		case "wkc-tag-bit":
			b.msg[54+r.Intn(32)] ^= 1 << uint(r.Intn(8))
		case "wkc-enc-bit":
			b.msg[54+32+r.Intn(len(b.wkc)-34)] ^= 1 << uint(r.Intn(8))
		case "wkc-too-short": // consistent length field, but less than a tag + a 2048-bit key + length
			short := make([]byte, 34+r.Intn(255))
			r.Read(short)
			binary.BigEndian.PutUint16(short[len(short)-2:], uint16(len(short)))
			b.msg = append(b.msg[:54], short...)
		case "wkc-unlisted": // client keys are listed, the message carries another (validly wrapped) one
			sk := ovpnServerKeys[0]
			other := ovpnKeyBytes(int64(r.Intn(1000)), 256)
			b.kc, b.wkc = other, ovpnWrap(sk, other, []byte{0, 1, 2, 3})
			listed := ovpnClientKeys[0]
			lw := ovpnWrap(sk, listed, nil)
			b.cfg.ServerKey = ""
			b.cfg.ClientKeys = []string{base64.StdEncoding.EncodeToString(append(append([]byte(nil), listed...), lw...))}
			b.rebuild(r)
		case "wrong-server-key":
			b.cfg.ClientKeys = nil
			for _, k := range ovpnServerKeys {
				if string(k) != string(b.sk) {
					b.cfg.ServerKey = base64.StdEncoding.EncodeToString(k)
				}
			}
		case "trailing-byte":
			b.msg = append(b.msg, byte(r.Intn(256)))
		case "truncated":
			b.msg = b.msg[:len(b.msg)-nz(min(len(b.msg), 12))]
		case "empty":
			b.msg = nil
		}
		in = ovpnFrame(b.msg, udp)
		switch c {
		case "tcp-len-under", "tcp-len-over", "tcp-len-small":
			udp, cs.UDP = false, false
			n := len(b.msg) - nz(5)
			if c == "tcp-len-over" {
				n = len(b.msg) + nz(5)
			}
			if c == "tcp-len-small" {
				n = r.Intn(14)
			}
			in = append([]byte{byte(n >> 8), byte(n)}, b.msg...)
		}
	default: // boundary oddities
		odd := []string{"timestamp-edge", "ignore-crypto-bad-hmac", "ignore-timestamp-old", "auth-digest-shake", "auth-hmac-36", "crypt2-max-size",
			"crypt2-over-max-size", "crypt2-meta-type-only", "crypt-54-as-auth", "sid-one-bit"}
		o := odd[r.Intn(len(odd))]
		cs.Class = "boundary:" + o
		f := b.f
		switch o {
		case "timestamp-edge":
			if mode == "plain" {
				mode = "auth"
				b = ovpnBuild(r, mode, now)
				f = b.f
			}
			b.cfg.IgnoreTimestamp = false
			f.ts = uint32(now + int64([]int{-17, -16, -15, -14, -13, 13, 14, 15, 16, 17}[r.Intn(10)]))
			b.rebuild(r)
		case "ignore-crypto-bad-hmac":
			for mode == "plain" || strings.Contains(b.detail, "nokey") {
				mode = []string{"auth", "crypt", "crypt2"}[r.Intn(3)]
				b = ovpnBuild(r, mode, now)
			}
			b.cfg.IgnoreCrypto = true
			off := 17
			if mode == "auth" {
				off = 9
			}
			b.msg[off+r.Intn(16)] ^= 0x80
		case "ignore-timestamp-old":
			if mode == "plain" {
				mode = "crypt"
				b = ovpnBuild(r, mode, now)
				f = b.f
			}
			b.cfg.IgnoreTimestamp = true
			f.ts = uint32(r.Intn(1 << 28))
			b.rebuild(r)
		case "auth-digest-shake": // named in the documentation; the reference knows their sizes only
			mode = "auth"
			b = ovpnBuild(r, mode, now)
			d := []ovpnDigest{{"SHAKE-128", 32, nil}, {"SHAKE-256", 64, nil}}[r.Intn(2)]
			b.cfg.AuthDigest, b.cfg.GroupKey, b.cfg.GroupKeyDirection = d.name, "", ""
			mac := make([]byte, d.size)
			r.Read(mac)
			b.msg = b.f.auth(mac)
		case "auth-hmac-36":
			mode = "auth"
			b = ovpnBuild(r, mode, now)
			b.cfg.AuthDigest = ""
			mac := make([]byte, 36)
			r.Read(mac)
			b.msg = b.f.auth(mac)
		case "crypt2-max-size", "crypt2-over-max-size", "crypt2-meta-type-only":
			mode = "crypt2"
			b = ovpnBuild(r, mode, now)
			sk := ovpnServerKeys[0]
			n := 1024 - 290
			if o == "crypt2-over-max-size" {
				n++
			}
			if o == "crypt2-meta-type-only" {
				n = 1
			}
			meta := make([]byte, n)
			r.Read(meta)
			meta[0] = 0
			b.wkc = ovpnWrap(sk, b.kc, meta)
			b.cfg.ClientKeys, b.cfg.ServerKey = nil, ""
			if r.Intn(2) == 0 || o == "crypt2-meta-type-only" {
				b.cfg.ServerKey = base64.StdEncoding.EncodeToString(sk)
			}
			b.rebuild(r)
		case "crypt-54-as-auth": // a tls-crypt message has the length of a tls-auth message with a 32-byte MAC
			mode = "crypt"
			b = ovpnBuild(r, mode, now)
			b.cfg.Modes = []string{"auth"}
		case "sid-one-bit":
			f.sid = 1 << uint(r.Intn(64))
			b.rebuild(r)
		}
		in = ovpnFrame(b.msg, udp)
	}
	cj, _ := json.Marshal(b.cfg)
	cs.Config = string(cj)
	cs.Input = in
	cs.Want, cs.Abstain = ovpnRefStream(b.cfg, in, udp, now)
	return cs
}

func init() {
	RegisterTarget(&Target{Name: "openvpn", Gen: ovpnGen, Quick: 2000, Thorough: 100000})
}
