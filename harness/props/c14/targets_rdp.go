package c14

// RDP target: reference predicate for the X.224 Connection Request PDU of MS-RDPBCGR 2.2.1.1 as documented in
// /repo/modules/l4rdp/matcher.go (comment block "Remote Desktop Protocol (RDP)", the notes on UnmarshalCaddyfile
// and the NOTE comments that document deliberate restrictions: a payload is required, the correlation id
// "SHOULD NOT" values are rejected, at least one character before CR LF).
//
// The reference is a byte-level decoder: rdpRef(cfg, bytes) -> verdict.

import (
	"encoding/binary"
	"encoding/json"
	"fmt"
	"math/rand"
	"net/netip"
	"strconv"
	"strings"
)

type rdpCfg struct {
	CookieHash       string   `json:"cookie_hash,omitempty"`
	CookieHashRegexp string   `json:"cookie_hash_regexp,omitempty"`
	CookieIPs        []string `json:"cookie_ips,omitempty"`
	CookiePorts      []uint16 `json:"cookie_ports,omitempty"`
	CustomInfo       string   `json:"custom_info,omitempty"`
	CustomInfoRegexp string   `json:"custom_info_regexp,omitempty"`
}

const (
	rdpCookiePrefix = "Cookie: mstshash="
	rdpTokenPrefix  = "Cookie: msts="
)

// rdpParseToken decodes a routing token (the bytes up to and including CR LF); ok=false if it is not one.
func rdpParseToken(t []byte) (ip netip.Addr, port uint16, ok bool) {
	if len(t) < 11 || t[0] != 3 || t[1] != 0 || int(binary.BigEndian.Uint16(t[2:])) != len(t) || int(t[4]) != len(t)-5 ||
		t[5] != 0xE0 || t[6] != 0 || t[7] != 0 || t[8] != 0 || t[9] != 0 || t[10] != 0 {
		return ip, 0, false
	}
	opt := string(t[11:])
	if !strings.HasPrefix(opt, rdpTokenPrefix) || !strings.HasSuffix(opt, "\r\n") {
		return ip, 0, false
	}
	f := strings.Split(opt[len(rdpTokenPrefix):len(opt)-2], ".")
	if len(f) != 3 || f[2] != "0000" {
		return ip, 0, false
	}
	dec := func(s string, max int) bool {
		if len(s) < 1 || len(s) > max || (len(s) > 1 && s[0] == '0') {
			return false
		}
		for _, c := range s {
			if c < '0' || c > '9' {
				return false
			}
		}
		return true
	}
	if !dec(f[0], 10) || !dec(f[1], 5) {
		return ip, 0, false
	}
	ipn, err := strconv.ParseUint(f[0], 10, 32)
	if err != nil {
		return ip, 0, false
	}
	pn, err := strconv.ParseUint(f[1], 10, 16)
	if err != nil {
		return ip, 0, false
	}
	// IP' and PORT' are the values with reversed byte order
	ip = netip.AddrFrom4([4]byte{byte(ipn), byte(ipn >> 8), byte(ipn >> 16), byte(ipn >> 24)})
	port = uint16(pn)>>8 | uint16(pn)<<8
	return ip, port, true
}

func rdpRef(cfg *rdpCfg, b []byte) (want bool, abstain string) {
	if len(b) < 11 {
		return false, ""
	}
	// tpktHeader
	L := int(binary.BigEndian.Uint16(b[2:]))
	if b[0] != 3 || b[1] != 0 || L < 11 || L > 4+1+254 || L != len(b) {
		return false, ""
	}
	// x224Crq
	if int(b[4]) != L-5 || b[5] != 0xE0 || b[6] != 0 || b[7] != 0 || b[8] != 0 || b[9] != 0 || b[10] != 0 {
		return false, ""
	}
	p := b[11:]
	if len(p) == 0 {
		return false, "" // documented restriction: headers only is not accepted
	}
	idx := strings.Index(string(p), "\r\n")
	kind := "none"
	var line, rest []byte
	rest = p
	if idx >= 0 {
		line, rest = p[:idx], p[idx+2:]
		switch {
		case len(line) == 0:
			return false, "" // at least one character is required before CR LF
		case strings.HasPrefix(string(line), rdpCookiePrefix) && len(line) > len(rdpCookiePrefix):
			kind = "cookie"
		default:
			if _, _, ok := rdpParseToken(p[:idx+2]); ok {
				kind = "token"
			} else {
				kind = "custom"
			}
		}
	}
	hashF := cfg.CookieHash != "" || cfg.CookieHashRegexp != ""
	ipF := len(cfg.CookieIPs) > 0 || len(cfg.CookiePorts) > 0
	custF := cfg.CustomInfo != "" || cfg.CustomInfoRegexp != ""
	if hashF {
		if kind != "cookie" {
			return false, ""
		}
		hash := string(line[len(rdpCookiePrefix):])
		if cfg.CookieHash != "" && cfg.CookieHash != hash {
			return false, ""
		}
		if cfg.CookieHashRegexp != "" && !bRe(cfg.CookieHashRegexp).MatchString(hash) {
			return false, ""
		}
	}
	if ipF {
		if kind != "token" {
			return false, ""
		}
		ip, port, _ := rdpParseToken(p[:idx+2])
		if len(cfg.CookieIPs) > 0 {
			found := false
			for _, s := range cfg.CookieIPs {
				if pf, err := netip.ParsePrefix(s); err == nil {
					found = found || pf.Contains(ip)
				} else if a, err := netip.ParseAddr(s); err == nil {
					found = found || a == ip
				}
			}
			if !found {
				return false, ""
			}
		}
		if len(cfg.CookiePorts) > 0 {
			found := false
			for _, q := range cfg.CookiePorts {
				found = found || q == port
			}
			if !found {
				return false, ""
			}
		}
	}
	if custF {
		if kind != "custom" {
			return false, ""
		}
		if cfg.CustomInfo != "" && cfg.CustomInfo != string(line) {
			return false, ""
		}
		if cfg.CustomInfoRegexp != "" && !bRe(cfg.CustomInfoRegexp).MatchString(string(line)) {
			return false, ""
		}
	}
	if len(rest) == 0 {
		return true, "" // rdpNegReq and rdpCorrelationInfo are optional
	}
	// rdpNegReq
	if len(rest) < 8 {
		return false, ""
	}
	flags := rest[1]
	protos := binary.LittleEndian.Uint32(rest[4:])
	if rest[0] != 1 || flags&^0x0B != 0 || binary.LittleEndian.Uint16(rest[2:]) != 8 || protos&^0x1F != 0 ||
		(protos&0x08 != 0 && protos&0x02 == 0) || (protos&0x02 != 0 && protos&0x01 == 0) {
		return false, ""
	}
	rest = rest[8:]
	if flags&0x08 == 0 {
		return len(rest) == 0, ""
	}
	// rdpCorrelationInfo
	if len(rest) != 36 {
		return false, ""
	}
	if rest[0] != 6 || rest[1] != 0 || binary.LittleEndian.Uint16(rest[2:]) != 36 || rest[4] == 0 || rest[4] == 0xF4 {
		return false, ""
	}
	for _, c := range rest[4:20] {
		if c == 0x0D {
			return false, ""
		}
	}
	for _, c := range rest[20:36] {
		if c != 0 {
			return false, ""
		}
	}
	return true, ""
}

// ---- generator ----

type rdpGenMsg struct {
	line     []byte // cookie / token / custom info including CR LF; nil = absent
	neg      []byte // rdpNegReq (8 bytes) or nil
	corr     []byte // rdpCorrelationInfo (36 bytes) or nil
	trailing []byte
}

func (m *rdpGenMsg) bytes() []byte {
	var p []byte
	p = append(p, m.line...)
	p = append(p, m.neg...)
	p = append(p, m.corr...)
	p = append(p, m.trailing...)
	L := 11 + len(p)
	b := []byte{3, 0, byte(L >> 8), byte(L), byte(L - 5), 0xE0, 0, 0, 0, 0, 0}
	return append(b, p...)
}

const rdpHashChars = "abcdefghijklmnopqrstuvwxyzABCDEFGHIJKLMNOPQRSTUVWXYZ0123456789._-/\\@$ "

func rdpRandText(r *rand.Rand, n int) string {
	s := make([]byte, n)
	for i := range s {
		s[i] = rdpHashChars[r.Intn(len(rdpHashChars))]
	}
	return string(s)
}

var rdpHashPool = []string{"admin", "Administrator", "CORP/jsmith", "user1", "a", "domain/us", "eltons", "guest-01"}
var rdpInfoPool = []string{"lb-token-42", "pool=A;srv=7", "guac:host-3", "x", "route 10.1.2.3", "tenant/alpha"}

func rdpNeg(flags byte, protos uint32) []byte {
	b := []byte{1, flags, 8, 0, 0, 0, 0, 0}
	binary.LittleEndian.PutUint32(b[4:], protos)
	return b
}

var rdpValidProtos = []uint32{0, 1, 3, 0xB, 4, 0x10, 5, 7, 0xF, 0x1F, 0x11, 0x13, 0x14, 0x1B}

func rdpCorr(r *rand.Rand) []byte {
	b := make([]byte, 36)
	b[0], b[2] = 6, 36
	for i := 4; i < 20; i++ {
		for {
			b[i] = byte(r.Intn(256))
			if b[i] != 0x0D && !(i == 4 && (b[i] == 0 || b[i] == 0xF4)) {
				break
			}
		}
	}
	return b
}

func rdpToken(ip netip.Addr, port uint16) []byte {
	a := ip.As4()
	ipn := uint32(a[0]) | uint32(a[1])<<8 | uint32(a[2])<<16 | uint32(a[3])<<24
	pn := port>>8 | port<<8
	return rdpTokenRaw(fmt.Sprintf("%s%d.%d.0000\r\n", rdpTokenPrefix, ipn, pn))
}

func rdpTokenRaw(opt string) []byte {
	L := 11 + len(opt)
	t := []byte{3, 0, byte(L >> 8), byte(L), byte(L - 5), 0xE0, 0, 0, 0, 0, 0}
	return append(t, opt...)
}

func rdpRandIP(r *rand.Rand) netip.Addr {
	switch r.Intn(6) {
	case 0:
		return netip.AddrFrom4([4]byte{10, byte(r.Intn(256)), byte(r.Intn(256)), byte(r.Intn(256))})
	case 1:
		return netip.AddrFrom4([4]byte{192, 168, byte(r.Intn(4)), byte(r.Intn(256))})
	case 2:
		return netip.AddrFrom4([4]byte{172, byte(16 + r.Intn(20)), byte(r.Intn(256)), byte(r.Intn(256))})
	case 3: // addresses whose reversed decimal form is short (1..3 digits)
		return netip.AddrFrom4([4]byte{byte(r.Intn(256)), 0, 0, 0})
	}
	return netip.AddrFrom4([4]byte{byte(r.Intn(256)), byte(r.Intn(256)), byte(r.Intn(256)), byte(r.Intn(256))})
}

func rdpRandPort(r *rand.Rand) uint16 {
	switch r.Intn(5) {
	case 0, 1:
		return 3389
	case 2:
		return uint16(3390 + r.Intn(4))
	case 3: // ports whose byte-swapped decimal form is short
		return uint16(r.Intn(10)) << 8
	}
	return uint16(r.Intn(65536))
}

// rdpRandValid returns a well-formed message; kind selects the first payload element ("" = random).
func rdpRandValid(r *rand.Rand, kind string) (*rdpGenMsg, string) {
	m := &rdpGenMsg{}
	if kind == "" {
		kind = []string{"cookie", "cookie", "token", "custom", "none"}[r.Intn(5)]
	}
	switch kind {
	case "cookie":
		h := rdpHashPool[r.Intn(len(rdpHashPool))]
		switch r.Intn(4) {
		case 0:
			h = rdpRandText(r, 1+r.Intn(9))
		case 1:
			h = rdpRandText(r, 1+r.Intn(60))
		}
		m.line = []byte(rdpCookiePrefix + h + "\r\n")
	case "token":
		for {
			ip, port := rdpRandIP(r), rdpRandPort(r)
			m.line = rdpToken(ip, port)
			// very short decimal forms are generated by the boundary class only (stable class names)
			if len(m.line)-11-len(rdpTokenPrefix)-len("..0000\r\n") >= 4 {
				break
			}
		}
	case "custom":
		h := rdpInfoPool[r.Intn(len(rdpInfoPool))]
		if r.Intn(3) == 0 {
			h = rdpRandText(r, 1+r.Intn(60))
		}
		m.line = []byte(h + "\r\n")
	}
	neg := r.Intn(4)
	if kind == "none" || neg > 0 {
		flags := byte([]int{0, 0, 1, 2, 3}[r.Intn(5)])
		withCorr := r.Intn(3) == 0
		if withCorr {
			flags |= 8
			m.corr = rdpCorr(r)
		}
		m.neg = rdpNeg(flags, rdpValidProtos[r.Intn(len(rdpValidProtos))])
	}
	return m, kind
}

var rdpHashRegexps = []string{"^admin", "^[A-Z]+/", "^(admin|guest-01|user1)$", "[0-9]$", "^a$"}
var rdpInfoRegexps = []string{"^lb-token-[0-9]+$", "^guac:", "srv=7$", "^(x|y)$", "/alpha"}
var rdpIPSets = [][]string{{"10.0.0.0/8"}, {"192.168.1.0/24", "192.168.2.17"}, {"172.16.0.0/12", "10.1.2.3"}, {"0.0.0.0/0"}, {"203.0.113.5"}, {"0.0.0.0/1"}}
var rdpPortSets = [][]uint16{{3389}, {3389, 3390, 3391}, {0, 256, 512}, {65535}}

func rdpGen(r *rand.Rand, i int) Case {
	cfg := &rdpCfg{}
	cs := Case{Matcher: "rdp"}
	sel := r.Intn(100)
	var in []byte
	switch {
	case sel < 26: // well-formed, no filter
		m, kind := rdpRandValid(r, "")
		cs.Class = "valid:" + kind
		if m.neg != nil {
			cs.Class += "+negreq"
		}
		if m.corr != nil {
			cs.Class += "+corrinfo"
		}
		in = m.bytes()
	case sel < 56: // filters
		f := []string{"cookie_hash", "cookie_hash_regexp", "cookie_hash+regexp", "cookie_ips", "cookie_ports", "cookie_ips+ports",
			"custom_info", "custom_info_regexp", "combo", "wrong-kind"}[r.Intn(10)]
		cs.Class = "filter:" + f
		switch f {
		case "cookie_hash", "cookie_hash_regexp", "cookie_hash+regexp":
			m, _ := rdpRandValid(r, "cookie")
			hash := string(m.line[len(rdpCookiePrefix) : len(m.line)-2])
			if f != "cookie_hash_regexp" {
				cfg.CookieHash = rdpHashPool[r.Intn(len(rdpHashPool))]
				if r.Intn(2) == 0 && !strings.ContainsAny(hash, "{}") {
					cfg.CookieHash = hash
				}
			}
			if f != "cookie_hash" {
				cfg.CookieHashRegexp = rdpHashRegexps[r.Intn(len(rdpHashRegexps))]
			}
			in = m.bytes()
		case "cookie_ips", "cookie_ports", "cookie_ips+ports":
			m, _ := rdpRandValid(r, "token")
			if f != "cookie_ports" {
				cfg.CookieIPs = rdpIPSets[r.Intn(len(rdpIPSets))]
			}
			if f != "cookie_ips" {
				cfg.CookiePorts = rdpPortSets[r.Intn(len(rdpPortSets))]
			}
			in = m.bytes()
		case "custom_info", "custom_info_regexp":
			m, _ := rdpRandValid(r, "custom")
			info := string(m.line[:len(m.line)-2])
			if f == "custom_info" {
				cfg.CustomInfo = rdpInfoPool[r.Intn(len(rdpInfoPool))]
				if r.Intn(2) == 0 {
					cfg.CustomInfo = info
				}
			} else {
				cfg.CustomInfoRegexp = rdpInfoRegexps[r.Intn(len(rdpInfoRegexps))]
			}
			in = m.bytes()
		case "combo": // documented: options of different families never match together
			m, kind := rdpRandValid(r, "")
			switch r.Intn(3) {
			case 0:
				cfg.CookieHashRegexp, cfg.CookieIPs = ".", []string{"0.0.0.0/0"}
			case 1:
				cfg.CookieHashRegexp, cfg.CustomInfoRegexp = ".", "."
			default:
				cfg.CookiePorts, cfg.CustomInfoRegexp = []uint16{3389}, "."
			}
			cs.Class += ":" + kind
			in = m.bytes()
		case "wrong-kind": // the filtered element is absent from an otherwise valid packet
			m, kind := rdpRandValid(r, "")
			switch r.Intn(3) {
			case 0:
				cfg.CookieHashRegexp = "."
			case 1:
				cfg.CookieIPs = []string{"0.0.0.0/0"}
			default:
				cfg.CustomInfoRegexp = "."
			}
			cs.Class += ":" + kind
			in = m.bytes()
		}
	case sel < 90: // single-field corruptions
		corr := []string{"tpkt-version", "tpkt-reserved", "tpkt-len-under", "tpkt-len-over", "tpkt-len-small", "x224-li", "x224-type", "x224-dst",
			"x224-src", "x224-class", "headers-only", "empty-line", "negreq-type", "negreq-flags", "negreq-len", "negreq-proto-undefined",
			"negreq-hybrid-without-ssl", "negreq-hybridex-without-hybrid", "negreq-truncated", "negreq-trailing", "corr-missing", "corr-without-flag",
			"corr-type", "corr-flags", "corr-len", "corr-id0", "corr-id-cr", "corr-reserved", "corr-truncated", "corr-trailing",
			"token-version", "token-reserved", "token-length", "token-li", "token-type", "token-dst", "token-src", "token-class", "token-prefix",
			"token-ip-overflow", "token-port-overflow", "token-reserved-field", "token-missing-field", "cookie-empty-hash", "garbage"}
		c := corr[r.Intn(len(corr))]
		cs.Class = "corrupt:" + c
		m, _ := rdpRandValid(r, "")
		ensureNeg := func(corrinfo bool) {
			if m.neg == nil || (corrinfo && m.corr == nil) || (!corrinfo && m.corr != nil) {
				fl := byte(r.Intn(4))
				m.corr = nil
				if corrinfo {
					fl |= 8
					m.corr = rdpCorr(r)
				}
				m.neg = rdpNeg(fl, rdpValidProtos[r.Intn(len(rdpValidProtos))])
			}
		}
		nz := func(n int) int { return 1 + r.Intn(n-1) }
		switch {
		case strings.HasPrefix(c, "negreq-"):
			ensureNeg(r.Intn(3) == 0)
			switch c {
			case "negreq-type":
				m.neg[0] = byte([]int{0, 2, 3, 6, r.Intn(256)}[r.Intn(5)])
				if m.neg[0] == 1 {
					m.neg[0] = 2
				}
			case "negreq-flags":
				m.neg[1] |= byte([]int{0x04, 0x10, 0x20, 0x40, 0x80}[r.Intn(5)])
			case "negreq-len":
				binary.LittleEndian.PutUint16(m.neg[2:], uint16([]int{0, 7, 9, 0x0800, r.Intn(65536)}[r.Intn(5)]))
				if binary.LittleEndian.Uint16(m.neg[2:]) == 8 {
					m.neg[2] = 9
				}
			case "negreq-proto-undefined":
				binary.LittleEndian.PutUint32(m.neg[4:], binary.LittleEndian.Uint32(m.neg[4:])|1<<uint(5+r.Intn(27)))
			case "negreq-hybrid-without-ssl":
				binary.LittleEndian.PutUint32(m.neg[4:], uint32([]int{0x02, 0x06, 0x12, 0x0A}[r.Intn(4)]))
			case "negreq-hybridex-without-hybrid":
				binary.LittleEndian.PutUint32(m.neg[4:], uint32([]int{0x08, 0x09, 0x0C, 0x19}[r.Intn(4)]))
			case "negreq-truncated":
				m.corr = nil
				m.neg[1] &^= 8
				m.neg = m.neg[:nz(8)]
			case "negreq-trailing":
				m.corr = nil
				m.neg[1] &^= 8
				m.trailing = make([]byte, 1+r.Intn(40))
				r.Read(m.trailing)
			}
		case strings.HasPrefix(c, "corr-"):
			ensureNeg(true)
			switch c {
			case "corr-missing":
				m.corr = nil
			case "corr-without-flag":
				m.neg[1] &^= 8
			case "corr-type":
				m.corr[0] = byte([]int{0, 1, 2, 3, r.Intn(256)}[r.Intn(5)])
				if m.corr[0] == 6 {
					m.corr[0] = 7
				}
			case "corr-flags":
				m.corr[1] = byte(nz(256))
			case "corr-len":
				binary.LittleEndian.PutUint16(m.corr[2:], uint16([]int{0, 35, 37, 0x2400, 8}[r.Intn(5)]))
			case "corr-id0":
				m.corr[4] = byte([]int{0, 0xF4}[r.Intn(2)])
			case "corr-id-cr":
				m.corr[4+r.Intn(16)] = 0x0D
			case "corr-reserved":
				m.corr[20+r.Intn(16)] = byte(nz(256))
			case "corr-truncated":
				m.corr = m.corr[:nz(36)]
			case "corr-trailing":
				m.trailing = make([]byte, 1+r.Intn(40))
				r.Read(m.trailing)
			}
		case strings.HasPrefix(c, "token-"):
			m, _ = rdpRandValid(r, "token")
			ip, port, _ := rdpParseToken(m.line)
			cfg.CookieIPs = []string{"0.0.0.0/0"} // any valid token satisfies it; a line that is not a token does not
			if r.Intn(3) == 0 {
				cfg.CookieIPs, cfg.CookiePorts = nil, []uint16{port}
			}
			_ = ip
			switch c {
			case "token-version":
				m.line[0] = byte([]int{0, 2, 4, r.Intn(256)}[r.Intn(4)])
				if m.line[0] == 3 {
					m.line[0] = 2
				}
			case "token-reserved":
				m.line[1] = byte(nz(256))
			case "token-length":
				v := int(binary.BigEndian.Uint16(m.line[2:])) + []int{-1, 1, 2, 256, -5}[r.Intn(5)]
				binary.BigEndian.PutUint16(m.line[2:], uint16(v))
			case "token-li":
				m.line[4] += byte(nz(256))
			case "token-type":
				m.line[5] = byte([]int{0xD0, 0xF0, 0xE1, 0x00}[r.Intn(4)])
			case "token-dst":
				m.line[6+r.Intn(2)] = byte(nz(256))
			case "token-src":
				m.line[8+r.Intn(2)] = byte([]int{1, 2, 0x80, 0xff}[r.Intn(4)])
			case "token-class":
				m.line[10] = byte([]int{1, 2, 0x10, 0xff}[r.Intn(4)])
			case "token-prefix":
				bad := []string{"Cookie: mstz=", "cookie: msts=", "Cookie:msts=", "Cookie: msts:"}[r.Intn(4)]
				m.line = rdpTokenRaw(bad + string(m.line[11+len(rdpTokenPrefix):]))
			case "token-ip-overflow":
				m.line = rdpTokenRaw(fmt.Sprintf("%s%d.%d.0000\r\n", rdpTokenPrefix, uint64(1)<<32+uint64(r.Intn(1000)), 15629))
			case "token-port-overflow":
				m.line = rdpTokenRaw(fmt.Sprintf("%s%d.%d.0000\r\n", rdpTokenPrefix, 16777226, 65536+r.Intn(1000)))
				cfg.CookieIPs, cfg.CookiePorts = []string{"0.0.0.0/0"}, nil
			case "token-reserved-field":
				m.line = rdpTokenRaw(fmt.Sprintf("%s%d.%d.%s\r\n", rdpTokenPrefix, 16777226, 15629, []string{"0001", "000", "00000", "abcd", ""}[r.Intn(5)]))
				cfg.CookieIPs, cfg.CookiePorts = []string{"0.0.0.0/0"}, nil
			case "token-missing-field":
				m.line = rdpTokenRaw(fmt.Sprintf("%s%d.0000\r\n", rdpTokenPrefix, 16777226))
				cfg.CookieIPs, cfg.CookiePorts = []string{"0.0.0.0/0"}, nil
			}
		case c == "cookie-empty-hash":
			m.line = []byte(rdpCookiePrefix + "\r\n")
			cfg.CookieHashRegexp = "^" // any cookie satisfies it; a line without a hash is not a cookie
		case c == "empty-line":
			m.line = []byte("\r\n")
		case c == "headers-only":
			m = &rdpGenMsg{}
		case c == "garbage":
			m = &rdpGenMsg{trailing: []byte(rdpRandText(r, 1+r.Intn(40)))}
		}
		in = m.bytes()
		switch c {
		case "tpkt-version":
			in[0] = byte([]int{0, 1, 2, 4, r.Intn(256)}[r.Intn(5)])
			if in[0] == 3 {
				in[0] = 2
			}
		case "tpkt-reserved":
			in[1] = byte(nz(256))
		case "tpkt-len-under": // both length fields consistently announce fewer bytes than follow
			d := 1 + r.Intn(3)
			if len(in)-d < 12 {
				in = append(in, make([]byte, d)...)
			}
			binary.BigEndian.PutUint16(in[2:], uint16(len(in)-d))
			in[4] = byte(len(in) - d - 5)
		case "tpkt-len-over":
			d := 1 + r.Intn(3)
			binary.BigEndian.PutUint16(in[2:], uint16(len(in)+d))
			in[4] = byte(len(in) + d - 5)
		case "tpkt-len-small":
			v := r.Intn(11)
			binary.BigEndian.PutUint16(in[2:], uint16(v))
		case "x224-li":
			in[4] += byte(nz(256))
		case "x224-type":
			in[5] = byte([]int{0xD0, 0xF0, 0xE1, 0xE8, 0x00, 0x80}[r.Intn(6)])
		case "x224-dst":
			in[6+r.Intn(2)] = byte(nz(256))
		case "x224-src":
			in[8+r.Intn(2)] = byte(nz(256))
		case "x224-class":
			in[10] = byte(nz(256))
		}
	default: // boundary oddities
		odd := []string{"max-size", "over-max-size", "hash-with-bare-lf", "hash-with-bare-cr", "token-short-decimals", "token-leading-zeros",
			"cookie-prefix-case", "all-flags-all-protocols", "payload-ends-with-cr", "custom-looks-like-cookie-with-custom-filter", "hash-1-char", "info-1-char"}
		o := odd[r.Intn(len(odd))]
		cs.Class = "boundary:" + o
		m, _ := rdpRandValid(r, "")
		switch o {
		case "max-size": // x224 length indicator 254 -> 248 payload bytes
			m = &rdpGenMsg{neg: rdpNeg(0, 1)}
			m.line = []byte(rdpCookiePrefix + rdpRandText(r, 248-8-len(rdpCookiePrefix)-2) + "\r\n")
		case "over-max-size": // length indicator 255 is reserved for extensions (documented)
			m = &rdpGenMsg{neg: rdpNeg(0, 1)}
			m.line = []byte(rdpCookiePrefix + rdpRandText(r, 249-8-len(rdpCookiePrefix)-2) + "\r\n")
		case "hash-with-bare-lf":
			m.line = []byte(rdpCookiePrefix + "ab\ncd\r\n")
		case "hash-with-bare-cr":
			m.line = []byte(rdpCookiePrefix + "ab\rcd\r\n")
		case "token-short-decimals": // documented minimum: one digit for IP', one digit for PORT'
			ip := netip.AddrFrom4([4]byte{byte(r.Intn(100)), 0, 0, 0})
			port := uint16(r.Intn(10)) << 8
			if r.Intn(2) == 0 {
				ip, port = netip.AddrFrom4([4]byte{byte(r.Intn(10)), 0, 0, 0}), uint16(r.Intn(100))<<8
			}
			m.line = rdpToken(ip, port)
			cfg.CookieIPs = []string{"0.0.0.0/0"}
		case "token-leading-zeros":
			m.line = rdpTokenRaw(fmt.Sprintf("%s%010d.%05d.0000\r\n", rdpTokenPrefix, 1+r.Intn(1<<20), 1+r.Intn(999)))
			cfg.CookieIPs = []string{"0.0.0.0/0"}
		case "cookie-prefix-case":
			m.line = []byte("cookie: MSTSHASH=admin\r\n")
			cfg.CookieHash = "admin"
		case "payload-ends-with-cr": // no CR LF anywhere: the payload is not a rdpNegReq either
			m = &rdpGenMsg{trailing: []byte(rdpRandText(r, 1+r.Intn(30)) + "\r")}
		case "all-flags-all-protocols":
			m.neg, m.corr = rdpNeg(0x0B, 0x1F), rdpCorr(r)
		case "custom-looks-like-cookie-with-custom-filter":
			m.line = []byte(rdpCookiePrefix + "admin\r\n")
			cfg.CustomInfo = rdpCookiePrefix + "admin"
		case "hash-1-char":
			m.line = []byte(rdpCookiePrefix + rdpRandText(r, 1) + "\r\n")
			cfg.CookieHashRegexp = "^.$"
		case "info-1-char":
			m.line = []byte(string(rdpHashChars[r.Intn(62)]) + "\r\n")
			cfg.CustomInfoRegexp = "^.$"
		}
		in = m.bytes()
		if o == "over-max-size" {
			in[4] = 255
		}
		if o == "token-leading-zeros" {
			cj, _ := json.Marshal(cfg)
			cs.Config, cs.Input, cs.Want = string(cj), in, false
			cs.Abstain = "decimal fields with leading zeros: the definition does not say"
			return cs
		}
	}
	cj, _ := json.Marshal(cfg)
	cs.Config = string(cj)
	cs.Input = in
	cs.Want, cs.Abstain = rdpRef(cfg, in)
	return cs
}

func init() {
	RegisterTarget(&Target{Name: "rdp", Gen: rdpGen, Quick: 2000, Thorough: 100000})
}
