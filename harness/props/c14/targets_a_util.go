package c14

// Shared helpers of the "group a" targets (ssh, xmpp, postgres, socks4, socks5,
// proxy_protocol, regexp, clock, remote_ip, local_ip, not, wireguard). All
// identifiers carry the prefix "ga" so that they cannot collide with the
// helpers of other targets_*.go files in this package.

import (
	"bytes"
	"encoding/json"
	"fmt"
	"math/rand"
	"net"
	"strings"
)

// gaBytes returns n bytes drawn uniformly from the full byte range.
func gaBytes(r *rand.Rand, n int) []byte {
	b := make([]byte, n)
	for i := range b {
		b[i] = byte(r.Intn(256))
	}
	return b
}

// gaOtherByte returns a byte value different from b, uniformly over the other 255 values.
func gaOtherByte(r *rand.Rand, b byte) byte {
	return byte((int(b) + 1 + r.Intn(255)) % 256)
}

// gaPrintable returns n printable ASCII bytes (0x21..0x7e).
func gaPrintable(r *rand.Rand, n int) []byte {
	b := make([]byte, n)
	for i := range b {
		b[i] = byte(0x21 + r.Intn(0x7e-0x21+1))
	}
	return b
}

// gaScrub overwrites every occurrence of word in b (so that b does not contain it); the replacement byte differs
// from the first byte of word, which cannot create a new occurrence to the left of the position already scanned.
func gaScrub(b []byte, word string) {
	w := []byte(word)
	for {
		i := bytes.Index(b, w)
		if i < 0 {
			return
		}
		b[i] = '_'
	}
}

func gaJSON(v any) string {
	b, err := json.Marshal(v)
	if err != nil {
		panic(err)
	}
	return string(b)
}

// gaPort draws a port with emphasis on the boundaries.
func gaPort(r *rand.Rand) uint16 {
	switch r.Intn(10) {
	case 0:
		return 0
	case 1:
		return 1
	case 2:
		return 65535
	case 3:
		return uint16([]int{22, 80, 443, 1080, 255, 256, 257, 65280, 32767, 32768}[r.Intn(10)])
	}
	return uint16(r.Intn(65536))
}

// ---------------------------------------------------------------------------------------------------------------
// IP prefixes: a structured form (address bytes + prefix length) from which both the configuration string and the
// reference membership test are derived; membership is the definition of CIDR: the first `bits` bits are equal.

type gaPrefix struct {
	addr []byte // 4 or 16 bytes (host bits may be non-zero: "non-canonical" prefixes are legal in the configuration)
	bits int
	bare bool // written as a bare address (implies a full-length prefix)
}

func gaIPString(a []byte) string {
	if len(a) == 4 {
		return fmt.Sprintf("%d.%d.%d.%d", a[0], a[1], a[2], a[3])
	}
	// 16-byte form; written so that it is always an IPv6 literal (v4-mapped stays "::ffff:a.b.c.d")
	if gaIsMapped(a) {
		return fmt.Sprintf("::ffff:%d.%d.%d.%d", a[12], a[13], a[14], a[15])
	}
	var sb strings.Builder
	for i := 0; i < 16; i += 2 {
		if i > 0 {
			sb.WriteByte(':')
		}
		fmt.Fprintf(&sb, "%x", int(a[i])<<8|int(a[i+1]))
	}
	return sb.String() // uncompressed form, e.g. 2001:db8:0:0:0:0:0:1 (a legal textual form)
}

func gaIsMapped(a []byte) bool {
	if len(a) != 16 {
		return false
	}
	for i := 0; i < 10; i++ {
		if a[i] != 0 {
			return false
		}
	}
	return a[10] == 0xff && a[11] == 0xff
}

func (p gaPrefix) String() string {
	if p.bare {
		return gaIPString(p.addr)
	}
	return fmt.Sprintf("%s/%d", gaIPString(p.addr), p.bits)
}

// gaBitsEqual reports whether the first n bits of a and b are equal.
func gaBitsEqual(a, b []byte, n int) bool {
	for i := 0; i < n; i++ {
		if (a[i/8]>>(7-uint(i%8)))&1 != (b[i/8]>>(7-uint(i%8)))&1 {
			return false
		}
	}
	return true
}

// gaContains is the reference membership. ok=false means "not authoritative" (family-mixing through v4-mapped
// notation, where the textual definition of a CIDR range does not settle the answer).
func (p gaPrefix) contains(ip []byte) (in bool, ok bool) {
	if len(p.addr) == len(ip) {
		return gaBitsEqual(p.addr, ip, p.bits), true
	}
	// different families: an IPv4 address is not a member of an IPv6 range and vice versa (net/netip: "An IPv4
	// address will not match an IPv6 prefix"), unless the v4-mapped block is involved, which is ambiguous.
	if len(p.addr) == 16 && len(ip) == 4 {
		mapped := append([]byte{0, 0, 0, 0, 0, 0, 0, 0, 0, 0, 0xff, 0xff}, ip...)
		if gaBitsEqual(p.addr, mapped, p.bits) && p.bits > 0 {
			return false, false
		}
		return false, true
	}
	if len(p.addr) == 4 && gaIsMapped(ip) {
		return false, false
	}
	return false, true
}

// gaRandPrefix draws a prefix: IPv4 or IPv6, all prefix lengths with emphasis on /0, /8../32 and /128.
func gaRandPrefix(r *rand.Rand, v6 bool) gaPrefix {
	n, max := 4, 32
	if v6 {
		n, max = 16, 128
	}
	p := gaPrefix{addr: gaBytes(r, n)}
	if v6 && r.Intn(2) == 0 {
		copy(p.addr, []byte{0x20, 0x01, 0x0d, 0xb8})
	}
	if v6 && p.addr[0] == 0 { // keep clear of ::/8 so that only deliberate cases touch the v4-mapped block
		p.addr[0] = 0xfd
	}
	switch r.Intn(8) {
	case 0:
		p.bits = max
	case 1:
		p.bits = max
		p.bare = true
	case 2:
		p.bits = []int{0, 1, max - 1, max - 2}[r.Intn(4)]
	case 3:
		p.bits = 8 * (1 + r.Intn(n-1))
	default:
		p.bits = r.Intn(max + 1)
	}
	if r.Intn(4) != 0 { // canonical form: host bits zero
		gaMaskHost(p.addr, p.bits)
	}
	return p
}

func gaMaskHost(a []byte, bits int) {
	for i := bits; i < len(a)*8; i++ {
		a[i/8] &^= 1 << (7 - uint(i%8))
	}
}

// gaInside draws an address inside p: random host bits, or the first / last address of the range.
func gaInside(r *rand.Rand, p gaPrefix) []byte {
	a := append([]byte(nil), p.addr...)
	mode := r.Intn(4)
	for i := p.bits; i < len(a)*8; i++ {
		var bit int
		switch mode {
		case 0:
			bit = 0
		case 1:
			bit = 1
		default:
			bit = r.Intn(2)
		}
		a[i/8] &^= 1 << (7 - uint(i%8))
		a[i/8] |= byte(bit) << (7 - uint(i%8))
	}
	return a
}

// gaOutside draws an address of the same family outside p (p.bits must be > 0): one bit of the network part is
// flipped (the last one gives the adjacent block, the first one a far block), host bits random or all-ones/zeros.
func gaOutside(r *rand.Rand, p gaPrefix) []byte {
	a := gaInside(r, p)
	var k int
	switch r.Intn(3) {
	case 0:
		k = p.bits - 1
	case 1:
		k = 0
	default:
		k = r.Intn(p.bits)
	}
	a[k/8] ^= 1 << (7 - uint(k%8))
	return a
}

// gaHostPort renders an address for Case.Local / Case.Remote.
func gaHostPort(ip []byte, port int) string {
	return net.JoinHostPort(gaIPString(ip), fmt.Sprint(port))
}

// gaConnIP is the address the connection reports for ip: Go's net package prints a v4-mapped IPv6 address of a
// TCP/UDP endpoint in dotted-quad form, i.e. such a peer is an IPv4 peer.
func gaConnIP(ip []byte) []byte {
	if gaIsMapped(ip) {
		return ip[12:16]
	}
	return ip
}

// gaMatchAny is the reference for a list of ranges: member of any of them. If the only possible "true" came from a
// non-authoritative comparison the result is an abstention.
func gaMatchAny(ps []gaPrefix, ip []byte) (in bool, abstain string) {
	amb := false
	for _, p := range ps {
		v, ok := p.contains(ip)
		if !ok {
			amb = true
			continue
		}
		if v {
			return true, ""
		}
	}
	if amb {
		return false, "address family mixing through the v4-mapped block (::ffff:0:0/96): CIDR membership is not settled by the definition"
	}
	return false, ""
}

func gaPrefixStrings(ps []gaPrefix) []string {
	out := make([]string, len(ps))
	for i, p := range ps {
		out[i] = p.String()
	}
	return out
}
