package c14

// DNS target: reference predicate written from RFC 1035 (message format), RFC 6891 (OPT pseudo-RR) and the
// documentation of layer4.matchers.dns (allow/deny rule lists, default_deny, prefer_allow).
//
// The reference is a byte-level decoder for the sub-language {header, questions, optional OPT additional
// record, no compression}; it abstains on everything else (answer/authority records, compression pointers,
// EDNS options with library-specific validation, names with characters that need escaping when rules are
// configured, numeric types/classes without a mnemonic when rules are configured).

import (
	"encoding/binary"
	"encoding/json"
	"fmt"
	"math/rand"
	"strings"
)

type dnsRule struct {
	Class       string `json:"class,omitempty"`
	ClassRegexp string `json:"class_regexp,omitempty"`
	Name        string `json:"name,omitempty"`
	NameRegexp  string `json:"name_regexp,omitempty"`
	Type        string `json:"type,omitempty"`
	TypeRegexp  string `json:"type_regexp,omitempty"`
}

type dnsCfg struct {
	Allow       []dnsRule `json:"allow,omitempty"`
	Deny        []dnsRule `json:"deny,omitempty"`
	DefaultDeny bool      `json:"default_deny,omitempty"`
	PreferAllow bool      `json:"prefer_allow,omitempty"`
}

// mnemonics of the IANA registry (subset); numbers outside this table make the reference abstain when rules exist.
var dnsTypeName = map[uint16]string{1: "A", 2: "NS", 5: "CNAME", 6: "SOA", 12: "PTR", 13: "HINFO", 15: "MX", 16: "TXT",
	28: "AAAA", 33: "SRV", 35: "NAPTR", 39: "DNAME", 43: "DS", 46: "RRSIG", 47: "NSEC", 48: "DNSKEY", 50: "NSEC3",
	52: "TLSA", 64: "SVCB", 65: "HTTPS", 99: "SPF", 251: "IXFR", 252: "AXFR", 255: "ANY", 256: "URI", 257: "CAA"}
var dnsClassName = map[uint16]string{1: "IN", 3: "CH", 4: "HS", 254: "NONE", 255: "ANY"}

type dnsQuestion struct {
	name   string // presentation form, lower case, trailing dot; "" if it needs escaping
	simple bool   // all label bytes in [A-Za-z0-9_-]
	qtype  uint16
	qclass uint16
}

// dnsParseName decodes an uncompressed name at off. ok=false: malformed; abstain!="" : outside the reference's scope.
func dnsParseName(b []byte, off int) (name string, simple bool, next int, ok bool, abstain string) {
	var sb strings.Builder
	simple = true
	wire := 0
	for {
		if off >= len(b) {
			return "", false, off, false, ""
		}
		l := int(b[off])
		off++
		wire++
		if l == 0 {
			break
		}
		switch l & 0xC0 {
		case 0xC0:
			return "", false, off, false, "compression pointer"
		case 0x40, 0x80:
			return "", false, off, false, "" // reserved label types
		}
		if off+l > len(b) {
			return "", false, off, false, ""
		}
		wire += l
		if wire+1 > 255 { // +1: the terminating root label still has to fit
			return "", false, off, false, ""
		}
		for _, c := range b[off : off+l] {
			switch {
			case c >= 'a' && c <= 'z', c >= '0' && c <= '9', c == '-', c == '_':
				sb.WriteByte(c)
			case c >= 'A' && c <= 'Z':
				sb.WriteByte(c + 32)
			default:
				simple = false
			}
		}
		sb.WriteByte('.')
		off += l
	}
	if sb.Len() == 0 {
		return ".", simple, off, true, ""
	}
	return sb.String(), simple, off, true, ""
}

func dnsRuleMatch(r *dnsRule, q *dnsQuestion) bool {
	if r.Class != "" && r.Class != dnsClassName[q.qclass] {
		return false
	}
	if r.ClassRegexp != "" && !bRe(r.ClassRegexp).MatchString(dnsClassName[q.qclass]) {
		return false
	}
	if r.Type != "" && r.Type != dnsTypeName[q.qtype] {
		return false
	}
	if r.TypeRegexp != "" && !bRe(r.TypeRegexp).MatchString(dnsTypeName[q.qtype]) {
		return false
	}
	if r.Name != "" && r.Name != q.name {
		return false
	}
	if r.NameRegexp != "" && !bRe(r.NameRegexp).MatchString(q.name) {
		return false
	}
	return true
}

func dnsAny(rs []dnsRule, q *dnsQuestion) bool {
	for i := range rs {
		if dnsRuleMatch(&rs[i], q) {
			return true
		}
	}
	return false
}

// dnsRef is the reference predicate on the DNS payload (without the TCP length prefix).
func dnsRef(cfg *dnsCfg, b []byte) (want bool, abstain string) {
	if len(b) < 12 {
		return false, ""
	}
	flags := binary.BigEndian.Uint16(b[2:])
	qd, an, ns, ar := binary.BigEndian.Uint16(b[4:]), binary.BigEndian.Uint16(b[6:]), binary.BigEndian.Uint16(b[8:]), binary.BigEndian.Uint16(b[10:])
	off := 12
	var qs []dnsQuestion
	for i := 0; i < int(qd); i++ {
		name, simple, next, ok, abst := dnsParseName(b, off)
		if abst != "" {
			return false, abst
		}
		if !ok || next+4 > len(b) {
			return false, ""
		}
		qs = append(qs, dnsQuestion{name: name, simple: simple, qtype: binary.BigEndian.Uint16(b[next:]), qclass: binary.BigEndian.Uint16(b[next+2:])})
		off = next + 4
	}
	extRcode := 0
	if an != 0 || ns != 0 {
		if off == len(b) {
			return false, "" // counts announce records that are not there
		}
		return false, "answer/authority records"
	}
	for k := 0; k < int(ar); k++ {
		if off == len(b) {
			return false, "" // ARCOUNT announces records that are not there
		}
		if k > 0 {
			return false, "more than one additional record"
		}
		name, _, next, ok, abst := dnsParseName(b, off)
		if abst != "" {
			return false, abst
		}
		if !ok || next+10 > len(b) {
			return false, ""
		}
		typ := binary.BigEndian.Uint16(b[next:])
		ttl := binary.BigEndian.Uint32(b[next+4:])
		rdlen := int(binary.BigEndian.Uint16(b[next+8:]))
		if typ != 41 {
			return false, "additional record other than OPT"
		}
		if name != "." {
			return false, "OPT with a non-root owner name"
		}
		if ttl>>16&0xff != 0 {
			return false, "EDNS version != 0"
		}
		extRcode = int(ttl >> 24)
		rd := next + 10
		if rd+rdlen > len(b) {
			return false, ""
		}
		end := rd + rdlen
		for rd < end {
			if rd+4 > end {
				return false, ""
			}
			code := binary.BigEndian.Uint16(b[rd:])
			ol := int(binary.BigEndian.Uint16(b[rd+2:]))
			if rd+4+ol > end {
				return false, ""
			}
			if !(code == 12 || code == 3 || (code >= 65001 && code <= 65534)) {
				return false, "EDNS option with its own syntax"
			}
			rd += 4 + ol
		}
		off = end
	}
	if off != len(b) {
		return false, "" // trailing bytes
	}
	if qd == 0 || flags&0x8000 != 0 || flags&0x0040 != 0 || flags&0x000f != 0 || extRcode != 0 {
		return false, ""
	}
	if len(cfg.Allow) == 0 && len(cfg.Deny) == 0 {
		return true, ""
	}
	for i := range qs {
		q := &qs[i]
		if !q.simple {
			return false, "rules on a name that needs escaping"
		}
		if dnsTypeName[q.qtype] == "" || dnsClassName[q.qclass] == "" {
			return false, "rules on a type/class without mnemonic"
		}
		allowed, denied := dnsAny(cfg.Allow, q), dnsAny(cfg.Deny, q)
		switch {
		case len(cfg.Deny) == 0: // only allow rules: deny all unless explicitly allowed
			if !allowed {
				return false, ""
			}
		case len(cfg.Allow) == 0: // only deny rules: allow all unless explicitly denied
			if denied {
				return false, ""
			}
			if cfg.DefaultDeny {
				return false, "default_deny with deny rules only"
			}
		case denied && allowed:
			if !cfg.PreferAllow {
				return false, ""
			}
		case denied:
			return false, ""
		case !allowed:
			if cfg.DefaultDeny {
				return false, ""
			}
		}
	}
	return true, ""
}

// ---- generator ----

type dnsGenQ struct {
	labels [][]byte
	qtype  uint16
	qclass uint16
}

type dnsGenOpt struct {
	udpSize uint16
	ttl     uint32
	opts    [][2]any // code uint16, data []byte
}

type dnsGenMsg struct {
	id             uint16
	flags          uint16
	qs             []dnsGenQ
	opt            *dnsGenOpt
	qd, an, ns, ar int // header counts; -1 = derive
}

func dnsAppendName(b []byte, labels [][]byte) []byte {
	for _, l := range labels {
		b = append(b, byte(len(l)))
		b = append(b, l...)
	}
	return append(b, 0)
}

func (m *dnsGenMsg) bytes() []byte {
	qd, ar := len(m.qs), 0
	if m.opt != nil {
		ar = 1
	}
	if m.qd >= 0 {
		qd = m.qd
	}
	if m.ar >= 0 {
		ar = m.ar
	}
	an, ns := 0, 0
	if m.an >= 0 {
		an = m.an
	}
	if m.ns >= 0 {
		ns = m.ns
	}
	b := make([]byte, 12, 64)
	binary.BigEndian.PutUint16(b[0:], m.id)
	binary.BigEndian.PutUint16(b[2:], m.flags)
	binary.BigEndian.PutUint16(b[4:], uint16(qd))
	binary.BigEndian.PutUint16(b[6:], uint16(an))
	binary.BigEndian.PutUint16(b[8:], uint16(ns))
	binary.BigEndian.PutUint16(b[10:], uint16(ar))
	for _, q := range m.qs {
		b = dnsAppendName(b, q.labels)
		b = binary.BigEndian.AppendUint16(b, q.qtype)
		b = binary.BigEndian.AppendUint16(b, q.qclass)
	}
	if m.opt != nil {
		b = append(b, 0)
		b = binary.BigEndian.AppendUint16(b, 41)
		b = binary.BigEndian.AppendUint16(b, m.opt.udpSize)
		b = binary.BigEndian.AppendUint32(b, m.opt.ttl)
		var rd []byte
		for _, o := range m.opt.opts {
			d := o[1].([]byte)
			rd = binary.BigEndian.AppendUint16(rd, o[0].(uint16))
			rd = binary.BigEndian.AppendUint16(rd, uint16(len(d)))
			rd = append(rd, d...)
		}
		b = binary.BigEndian.AppendUint16(b, uint16(len(rd)))
		b = append(b, rd...)
	}
	return b
}

var dnsPoolNames = []string{"example.com", "www.example.com", "mail.example.com", "example.org", "a.b.c.example.org", "test", "localhost",
	"internal.corp", "db-1.internal.corp", "_dmarc.example.com", "xn--bcher-kva.example", "version.bind", ""}
var dnsPoolTypes = []uint16{1, 1, 1, 28, 28, 15, 2, 16, 5, 6, 12, 33, 255, 252, 65, 257, 48, 43}
var dnsPoolClasses = []uint16{1, 1, 1, 1, 1, 3, 255, 4, 254}

const dnsLabelChars = "abcdefghijklmnopqrstuvwxyz0123456789-_"

func dnsRandLabels(r *rand.Rand) [][]byte {
	n := 1 + r.Intn(4)
	var ls [][]byte
	for i := 0; i < n; i++ {
		l := 1 + r.Intn(12)
		if r.Intn(20) == 0 {
			l = 63
		}
		lab := make([]byte, l)
		for k := range lab {
			lab[k] = dnsLabelChars[r.Intn(len(dnsLabelChars))]
		}
		ls = append(ls, lab)
	}
	return ls
}

func dnsLabelsOf(name string) [][]byte {
	if name == "" {
		return nil
	}
	var ls [][]byte
	for _, p := range strings.Split(name, ".") {
		ls = append(ls, []byte(p))
	}
	return ls
}

func dnsRandQ(r *rand.Rand, pool bool) dnsGenQ {
	var q dnsGenQ
	if pool || r.Intn(3) > 0 {
		q.labels = dnsLabelsOf(dnsPoolNames[r.Intn(len(dnsPoolNames))])
	} else {
		q.labels = dnsRandLabels(r)
	}
	q.qtype = dnsPoolTypes[r.Intn(len(dnsPoolTypes))]
	q.qclass = dnsPoolClasses[r.Intn(len(dnsPoolClasses))]
	if !pool && r.Intn(6) == 0 {
		q.qtype = uint16(r.Intn(65536))
	}
	if !pool && r.Intn(8) == 0 {
		q.qclass = uint16(r.Intn(65536))
	}
	return q
}

func dnsRandValid(r *rand.Rand, pool bool) *dnsGenMsg {
	m := &dnsGenMsg{id: uint16(r.Intn(65536)), qd: -1, an: -1, ns: -1, ar: -1}
	// flags: QR=0, Z=0, RCODE=0; opcode mostly QUERY, RD usually set, AD/CD/TC/AA/RA free
	if r.Intn(4) > 0 {
		m.flags |= 0x0100
	}
	if r.Intn(5) == 0 {
		m.flags |= 0x0020
	}
	if r.Intn(8) == 0 {
		m.flags |= 0x0010
	}
	if r.Intn(16) == 0 {
		m.flags |= uint16([]int{0x0400, 0x0200, 0x0080}[r.Intn(3)])
	}
	if r.Intn(10) == 0 {
		m.flags |= uint16(r.Intn(16)) << 11
	}
	nq := 1
	if r.Intn(6) == 0 {
		nq = 2 + r.Intn(2)
	}
	for i := 0; i < nq; i++ {
		m.qs = append(m.qs, dnsRandQ(r, pool))
	}
	if r.Intn(2) == 0 {
		o := &dnsGenOpt{udpSize: uint16([]int{512, 1232, 4096, 65535, r.Intn(65536)}[r.Intn(5)])}
		if r.Intn(3) == 0 {
			o.ttl |= 0x8000 // DO
		}
		for k := r.Intn(3); k > 0; k-- {
			d := make([]byte, r.Intn(24))
			r.Read(d)
			code := uint16(65001 + r.Intn(534))
			switch r.Intn(3) {
			case 0:
				code = 12
				for j := range d {
					d[j] = 0
				}
			case 1:
				code = 3
			}
			o.opts = append(o.opts, [2]any{code, d})
		}
		m.opt = o
	}
	return m
}

var dnsNameRegexps = []string{`^(|[-0-9a-z]+\.)example\.com\.$`, `\.org\.$`, `^[a-z]+\.$`, `corp\.$`, `^www\.`, `^_`}
var dnsTypeRegexps = []string{`^(MX|NS)$`, `^A`, `^(A|AAAA)$`, `^(ANY|AXFR|IXFR)$`, `^[A-Z][A-Z][A-Z]?$`}
var dnsClassRegexps = []string{`^(IN|CH)$`, `^IN$`, `^(ANY|NONE)$`, `^.H$`}

func dnsRandRule(r *rand.Rand) dnsRule {
	var ru dnsRule
	switch r.Intn(4) {
	case 0, 1:
		ru.Name = dnsPoolNames[r.Intn(len(dnsPoolNames))] + "."
	case 2:
		ru.NameRegexp = dnsNameRegexps[r.Intn(len(dnsNameRegexps))]
	}
	switch r.Intn(5) {
	case 0, 1:
		ru.Type = dnsTypeName[dnsPoolTypes[r.Intn(len(dnsPoolTypes))]]
	case 2:
		ru.TypeRegexp = dnsTypeRegexps[r.Intn(len(dnsTypeRegexps))]
	}
	switch r.Intn(6) {
	case 0:
		ru.Class = dnsClassName[dnsPoolClasses[r.Intn(len(dnsPoolClasses))]]
	case 1:
		ru.ClassRegexp = dnsClassRegexps[r.Intn(len(dnsClassRegexps))]
	}
	return ru
}

func dnsRandCfg(r *rand.Rand) *dnsCfg {
	c := &dnsCfg{}
	shape := r.Intn(4) // 0 allow only, 1 deny only, 2/3 both
	if shape != 1 {
		for k := 1 + r.Intn(3); k > 0; k-- {
			c.Allow = append(c.Allow, dnsRandRule(r))
		}
	}
	if shape != 0 {
		for k := 1 + r.Intn(3); k > 0; k-- {
			c.Deny = append(c.Deny, dnsRandRule(r))
		}
	}
	c.DefaultDeny = r.Intn(2) == 0
	c.PreferAllow = r.Intn(2) == 0
	if shape == 1 && r.Intn(8) > 0 {
		c.DefaultDeny = false // default_deny with deny rules only is a boundary class of its own (reference abstains)
	}
	return c
}

func dnsFrame(payload []byte, udp bool) []byte {
	if udp {
		return payload
	}
	return append(binary.BigEndian.AppendUint16(nil, uint16(len(payload))), payload...)
}

func dnsGen(r *rand.Rand, i int) Case {
	udp := r.Intn(2) == 0
	cfg := &dnsCfg{}
	cs := Case{Matcher: "dns", UDP: udp}
	sel := r.Intn(100)
	filtered := sel >= 30 && sel < 62
	m := dnsRandValid(r, filtered)
	var payload []byte
	frame := func(p []byte) []byte { return dnsFrame(p, udp) }
	switch {
	case sel < 30: // well-formed, no rules
		cs.Class = "valid"
		if m.opt != nil {
			cs.Class = "valid:edns"
		}
		if len(m.qs) > 1 {
			cs.Class += ":multi-question"
		}
		payload = m.bytes()
	case sel < 62: // rule lists over pool names/types/classes
		cfg = dnsRandCfg(r)
		shape := "allow+deny"
		if len(cfg.Deny) == 0 {
			shape = "allow"
		} else if len(cfg.Allow) == 0 {
			shape = "deny"
		}
		cs.Class = "filter:" + shape
		if sel >= 56 { // 0x20-style mixed case in the query name: the documentation promises lower-case names to the rules
			m.qs = m.qs[:1]
			name := dnsPoolNames[r.Intn(len(dnsPoolNames)-1)]
			m.qs[0].labels = dnsLabelsOf(name)
			ru := dnsRule{Name: name + "."}
			if r.Intn(3) == 0 {
				ru = dnsRule{NameRegexp: "^" + strings.ReplaceAll(name, ".", `\.`) + `\.$`}
			}
			if r.Intn(2) == 0 {
				cfg = &dnsCfg{Allow: []dnsRule{ru}}
				cs.Class = "filter:name-allow:mixed-case"
			} else {
				cfg = &dnsCfg{Deny: []dnsRule{ru}}
				cs.Class = "filter:name-deny:mixed-case"
			}
			for li := range m.qs[0].labels {
				lab := append([]byte(nil), m.qs[0].labels[li]...)
				for k := range lab {
					if lab[k] >= 'a' && lab[k] <= 'z' && (r.Intn(2) == 0 || (li == 0 && k == 0)) {
						lab[k] -= 32
					}
				}
				m.qs[0].labels[li] = lab
			}
		}
		payload = m.bytes()
	case sel < 92: // single-field corruptions
		corr := []string{"qr", "rcode", "z", "qdcount-zero", "qdcount-more", "section-count-overstated", "section-count-overstated", "trailing-byte",
			"truncated-question", "label-overrun", "label-reserved-type", "name-too-long", "opt-extrcode", "opt-rdlen-over", "opt-rdlen-under",
			"opt-option-overrun", "short-header", "tcp-len-under", "tcp-len-over", "tcp-len-small", "empty"}
		c := corr[r.Intn(len(corr))]
		cs.Class = "corrupt:" + c
		switch c {
		case "qr":
			m.flags |= 0x8000
		case "rcode":
			m.flags |= uint16(1 + r.Intn(15))
		case "z":
			m.flags |= 0x0040
		case "qdcount-zero":
			m.qs, m.qd = nil, 0
		case "qdcount-more":
			m.qd = len(m.qs) + 1 + r.Intn(3)
			m.opt = nil
		case "section-count-overstated": // ANCOUNT / NSCOUNT / ARCOUNT announce records that are not in the message
			switch r.Intn(3) {
			case 0:
				m.ar = 1 + r.Intn(3)
				if m.opt != nil {
					m.ar++
				}
				cs.Note = fmt.Sprintf("ARCOUNT=%d", m.ar)
			case 1:
				m.an = 1 + r.Intn(3)
				m.opt = nil
				cs.Note = fmt.Sprintf("ANCOUNT=%d without records", m.an)
			default:
				m.ns = 1 + r.Intn(3)
				m.opt = nil
				cs.Note = fmt.Sprintf("NSCOUNT=%d without records", m.ns)
			}
		case "opt-extrcode":
			if m.opt == nil {
				m.opt = &dnsGenOpt{udpSize: 1232}
			}
			m.opt.ttl |= uint32(1+r.Intn(255)) << 24
		case "name-too-long":
			var ls [][]byte
			for k := 0; k < 4; k++ {
				lab := make([]byte, 63)
				for j := range lab {
					lab[j] = dnsLabelChars[r.Intn(26)]
				}
				ls = append(ls, lab)
			}
			m.qs[0].labels = ls // 4*(63+1)+1 = 257 > 255
		}
		payload = m.bytes()
		switch c {
		case "trailing-byte":
			payload = append(payload, byte(r.Intn(256)))
		case "truncated-question":
			m.opt = nil
			payload = m.bytes()
			payload = payload[:len(payload)-1-r.Intn(3)]
		case "label-overrun":
			m.opt = nil
			m.qs = m.qs[:1]
			if len(m.qs[0].labels) == 0 {
				m.qs[0].labels = [][]byte{[]byte("example")}
			}
			payload = m.bytes()
			payload[12] = 63 // first label now claims more bytes than the message has
			if len(payload) >= 12+1+63 {
				payload = payload[:12+1+40]
			}
		case "label-reserved-type":
			if len(m.qs[0].labels) == 0 {
				m.qs[0].labels = [][]byte{[]byte("example")}
				payload = m.bytes()
			}
			payload[12] |= byte([]int{0x40, 0x80}[r.Intn(2)])
		case "opt-rdlen-over", "opt-rdlen-under", "opt-option-overrun":
			if m.opt == nil || len(m.opt.opts) == 0 {
				if m.opt == nil {
					m.opt = &dnsGenOpt{udpSize: 4096}
				}
				m.opt.opts = [][2]any{{uint16(65001), []byte{1, 2, 3, 4}}}
				payload = m.bytes()
			}
			rdAt := len(payload)
			var rdl int
			for _, o := range m.opt.opts {
				rdl += 4 + len(o[1].([]byte))
			}
			rdAt -= rdl + 2
			switch c {
			case "opt-rdlen-over":
				binary.BigEndian.PutUint16(payload[rdAt:], uint16(rdl+1+r.Intn(50)))
			case "opt-rdlen-under":
				binary.BigEndian.PutUint16(payload[rdAt:], uint16(r.Intn(rdl)))
			case "opt-option-overrun":
				// the last option claims more data than RDLENGTH leaves
				last := m.opt.opts[len(m.opt.opts)-1][1].([]byte)
				binary.BigEndian.PutUint16(payload[len(payload)-len(last)-2:], uint16(len(last)+1+r.Intn(9)))
			}
		case "short-header":
			payload = payload[:r.Intn(12)]
		case "empty":
			payload = nil
		}
		switch c {
		case "tcp-len-under", "tcp-len-over", "tcp-len-small":
			cs.UDP, udp = false, false
			d := 1 + r.Intn(4)
			n := len(payload) - d
			if c == "tcp-len-over" {
				n = len(payload) + d
			}
			if c == "tcp-len-small" {
				n = r.Intn(12)
			}
			cs.Input = append(binary.BigEndian.AppendUint16(nil, uint16(n)), payload...)
			// reference for the stream: the announced length must be >= 12 and equal the number of bytes that follow
			cs.Want = false
			cs.Config = "{}"
			cs.Note = fmt.Sprintf("announced %d, present %d", n, len(payload))
			return cs
		}
	default: // boundary oddities
		odd := []string{"name-255", "label-63", "root-name", "max-questions", "opcode", "numeric-type-class", "unknown-type-with-rules",
			"label-needs-escaping-with-rules", "opt-version", "compression", "answer-record", "deny-only-default-deny", "both-allow-deny-overlap", "large-message"}
		o := odd[r.Intn(len(odd))]
		cs.Class = "boundary:" + o
		switch o {
		case "name-255": // 3*(63+1) + (61+1) + 1 = 255 octets on the wire: the maximum of RFC 1035 2.3.4
			var ls [][]byte
			for k := 0; k < 4; k++ {
				n := 63
				if k == 3 {
					n = 61
				}
				lab := make([]byte, n)
				for j := range lab {
					lab[j] = dnsLabelChars[r.Intn(36)]
				}
				ls = append(ls, lab)
			}
			m.qs[0].labels = ls
		case "label-63":
			lab := make([]byte, 63)
			for j := range lab {
				lab[j] = dnsLabelChars[r.Intn(36)]
			}
			m.qs[0].labels = [][]byte{lab, []byte("example"), []byte("com")}
		case "root-name":
			m.qs[0].labels = nil
			m.qs[0].qtype = 2
		case "max-questions":
			for len(m.qs) < 8+r.Intn(8) {
				m.qs = append(m.qs, dnsRandQ(r, false))
			}
		case "opcode":
			m.flags = m.flags&^0x7800 | uint16(1+r.Intn(15))<<11
		case "numeric-type-class":
			m.qs[0].qtype, m.qs[0].qclass = uint16(r.Intn(65536)), uint16(r.Intn(65536))
		case "unknown-type-with-rules":
			cfg = dnsRandCfg(r)
			m.qs[0].qtype = uint16(1000 + r.Intn(60000))
		case "label-needs-escaping-with-rules":
			cfg = dnsRandCfg(r)
			m.qs[0].labels = [][]byte{[]byte("a.b"), []byte("ex ample"), []byte("com")}
		case "opt-version":
			if m.opt == nil {
				m.opt = &dnsGenOpt{udpSize: 1232}
			}
			m.opt.ttl |= uint32(1+r.Intn(255)) << 16
		case "large-message": // larger than one 512-byte read: padding option and many questions
			m.opt = &dnsGenOpt{udpSize: 4096, opts: [][2]any{{uint16(12), make([]byte, 600+r.Intn(2400))}}}
			for len(m.qs) < 2+r.Intn(20) {
				m.qs = append(m.qs, dnsRandQ(r, false))
			}
		case "deny-only-default-deny":
			cfg = &dnsCfg{Deny: []dnsRule{dnsRandRule(r)}, DefaultDeny: true}
			m = dnsRandValid(r, true)
		case "both-allow-deny-overlap":
			ru := dnsRandRule(r)
			cfg = &dnsCfg{Allow: []dnsRule{ru}, Deny: []dnsRule{ru}, PreferAllow: r.Intn(2) == 0, DefaultDeny: r.Intn(2) == 0}
			m = dnsRandValid(r, true)
		}
		payload = m.bytes()
		switch o {
		case "compression": // second question's name is a pointer to the first
			m.opt = nil
			m.qs = m.qs[:1]
			payload = m.bytes()
			payload[5] = 2
			payload = append(payload, 0xC0, 12, 0, 1, 0, 1)
		case "answer-record":
			m.opt = nil
			payload = m.bytes()
			payload[7] = 1
			payload = append(payload, 0, 0, 1, 0, 1, 0, 0, 0, 60, 0, 4, 192, 0, 2, 1)
		}
	}
	cj, _ := json.Marshal(cfg)
	cs.Config = string(cj)
	cs.Input = frame(payload)
	cs.Want, cs.Abstain = dnsRef(cfg, payload)
	return cs
}

func init() {
	RegisterTarget(&Target{Name: "dns", Gen: dnsGen, Quick: 2000, Thorough: 100000})
}
