// Package c14 is the reference-model monitor for protocol matchers: for each
// matcher with a precise wire definition, generated first messages (valid,
// single-field corruptions, filter configurations) are evaluated by the real
// matcher and by an independent reference predicate; the verdicts must agree.
//
// Each targets_*.go file registers Targets; this file is the shared runner.
package c14

import (
	"encoding/hex"
	"encoding/json"
	"fmt"
	"math/rand"
	"net"
	"os"
	"sort"
	"strings"
	"sync"
	"time"

	"verifharness/fw"
	"verifharness/hmods"
	"verifharness/mt"
)

// Case is one (message, configuration) pair with the reference verdict.
type Case struct {
	Matcher string `json:"matcher"` // module name under layer4.matchers., e.g. "ssh"
	Config  string `json:"config"`  // JSON configuration of the matcher ("{}" = defaults)
	UDP     bool   `json:"udp,omitempty"`
	Local   string `json:"local,omitempty"`  // "ip:port" override of the local address
	Remote  string `json:"remote,omitempty"` // "ip:port" override of the remote address
	// WrapTime, RFC3339Nano, sets {l4.conn.wrap_time} (clock matcher)
	WrapTime string `json:"wrap_time,omitempty"`
	Input    []byte `json:"-"`
	InputHex string `json:"input_hex"`
	// Want is the reference verdict for the complete first message: true = must match.
	Want bool `json:"want"`
	// Abstain != "" means the reference is not authoritative for this input: the case is counted, not judged.
	Abstain string `json:"abstain,omitempty"`
	// Class names the input class ("valid", "corrupt:<field>", "filter:<name>:<in|out>", ...): it is part of
	// the distinct signature and of a violation's signature, so keep it stable and specific.
	Class string `json:"class"`
	Note  string `json:"note,omitempty"`
	// Env: environment variables that the configuration refers to through {env.NAME} placeholders
	Env map[string]string `json:"env,omitempty"`
}

// Target generates cases for one matcher.
type Target struct {
	Name string // matcher module name
	// Gen returns the i-th case; all randomness must come from r.
	Gen func(r *rand.Rand, i int) Case
	// Quick / Thorough: number of cases per tier.
	Quick, Thorough int
}

var (
	tmu     sync.Mutex
	targets []*Target
)

// RegisterTarget adds a target (call from init() in a targets_*.go file).
func RegisterTarget(t *Target) {
	tmu.Lock()
	targets = append(targets, t)
	tmu.Unlock()
}

// Targets returns the registered targets sorted by name.
func Targets() []*Target {
	tmu.Lock()
	defer tmu.Unlock()
	out := append([]*Target(nil), targets...)
	sort.SliceStable(out, func(i, j int) bool { return out[i].Name < out[j].Name })
	return out
}

// Seed is a well-formed first message that the reference says must match; other monitors (C04, C06) reuse them.
type Seed struct {
	Matcher string
	Config  string
	Opts    mt.Opts
	Input   []byte
	Class   string
}

// Seeds draws up to n matching cases for the matcher from its registered targets.
func Seeds(matcher string, seed int64, n int) []Seed {
	var out []Seed
	for _, t := range Targets() {
		if t.Name != matcher {
			continue
		}
		for i := 0; i < n*40 && len(out) < n; i++ {
			cs := t.Gen(fw.Rand(seed, "c14seed", t.Name, i), i)
			if cs.Want && cs.Abstain == "" {
				out = append(out, Seed{Matcher: cs.Matcher, Config: cs.Config, Opts: cs.opts(), Input: cs.Input, Class: cs.Class})
			}
		}
	}
	return out
}

func parseAddr(s string, udp bool) net.Addr {
	if s == "" {
		return nil
	}
	host, port, err := net.SplitHostPort(s)
	if err != nil {
		return nil
	}
	var p int
	fmt.Sscanf(port, "%d", &p)
	if udp {
		return &net.UDPAddr{IP: net.ParseIP(host), Port: p}
	}
	return &net.TCPAddr{IP: net.ParseIP(host), Port: p}
}

func (cs *Case) opts() mt.Opts {
	o := mt.Opts{UDP: cs.UDP, Local: parseAddr(cs.Local, cs.UDP), Remote: parseAddr(cs.Remote, cs.UDP)}
	if cs.WrapTime != "" {
		if t, err := time.Parse(time.RFC3339Nano, cs.WrapTime); err == nil {
			o.WrapTime = t
		}
	}
	return o
}

func init() {
	fw.Register(&fw.Prop{
		ID: "C14",
		Rule: "case = (matcher, filter configuration, complete first message) from per-protocol generators: well-formed messages over the full field ranges, " +
			"single-field corruptions, and filter configurations; oracle: real matcher verdict on the complete message == independent reference predicate " +
			"(want=true requires a match; want=false accepts no-match, error or need-more). non-trivial = the reference did not abstain; " +
			"distinct = hash(matcher, class, config, input). every fourth case gives the string options that the matcher documents as placeholder-capable (winbox, rdp, regexp, dns rules, ip ranges, openvpn) as {env.NAME} placeholders of variables set in the process: same verdict expected. remote_ip / local_ip cases are evaluated once more on a connection that wraps one with other addresses which the matcher had evaluated before (what proxy_protocol does to a connection): same verdict as on a fresh connection.",
		Assumptions: []string{
			"reference predicates are hand-written from the wire definitions cited by the modules (DESIGN.md appendix B); agreement shows consistency with that reading",
			"inputs for which the reference is not authoritative are abstentions (counted, not judged)",
		},
		MinEvals: 1000,
		Plan: func(tier string) []fw.ChildSpec {
			if tier == "thorough" {
				return []fw.ChildSpec{{Name: "ref", Mode: "ref", Shards: 16, Timeout: 60 * time.Minute}}
			}
			return []fw.ChildSpec{{Name: "ref", Mode: "ref", Shards: 8, Timeout: 10 * time.Minute}}
		},
		Run:    run,
		Replay: replay,
	})
}

type loaded struct {
	m   *mt.Matcher
	err error
	cfg string
}

func run(c *fw.Ctx) {
	hmods.Quiet(c.OutDir + "/caddyhome")
	cache := map[string]*loaded{}
	for _, t := range Targets() {
		n := t.Quick
		if c.Thorough() {
			n = t.Thorough
		}
		for i := 0; i < n; i++ {
			if !c.Mine(i) {
				continue
			}
			cs := t.Gen(fw.Rand(c.Seed, "c14", t.Name, i), i)
			if cs.Matcher == "" {
				cs.Matcher = t.Name
			}
			if i%4 == 3 {
				// the same case with its string options given as environment placeholders: same verdict expected
				if cfg2, env := placeholderise(cs.Matcher, cs.Config); env != nil {
					cs.Config, cs.Env = cfg2, env
					cs.Note = strings.TrimSpace(cs.Note + " [string options given as {env.NAME} placeholders]")
				}
			}
			judge(c, cache, &cs)
		}
		if len(cache) > 4000 {
			prevLoaded = map[string]*loaded{}
			for k, l := range cache {
				if l.m != nil {
					l.m.Close()
				}
				delete(cache, k)
			}
		}
	}
}

var prevLoaded = map[string]*loaded{}

func judge(c *fw.Ctx, cache map[string]*loaded, cs *Case) {
	cs.InputHex = hex.EncodeToString(cs.Input)
	if cs.Config == "" {
		cs.Config = "{}"
	}
	key := cs.Matcher + "\x00" + cs.Config
	l := cache[key]
	if l == nil {
		m, err := mt.Load(cs.Matcher, cs.Config)
		l = &loaded{m: m, err: err, cfg: cs.Config}
		cache[key] = l
	}
	if l.err != nil {
		c.Violation(fmt.Sprintf("C14 %s: generated configuration rejected", cs.Matcher), l.err.Error(), cs)
		return
	}
	c.Obs("cases_"+cs.Matcher, 1)
	if cs.Abstain != "" {
		c.Inconclusive("abstain " + cs.Matcher + ": " + cs.Abstain)
		c.Case(fw.Hash(cs.Matcher, cs.Class, cs.Config, cs.InputHex), false, nil)
		return
	}
	c.Journal("%s cfg=%s udp=%v in=%s", cs.Matcher, cs.Config, cs.UDP, cs.InputHex)
	var v mt.Verdict
	var err error
	func() {
		defer func() {
			if r := recover(); r != nil {
				v = "panic"
				err = fmt.Errorf("%v", r)
			}
		}()
		v, err = l.m.Eval(cs.Input, cs.opts())
	}()
	// companion law: another matcher of the same kind (the previous case's, usually with another configuration) looks
	// at the connection first; the verdict of this one must be the same as on a fresh connection (routes commonly hold
	// several matchers of one kind with different filters)
	if pl := prevLoaded[cs.Matcher]; pl != nil && pl != l && pl.m != nil && v != "panic" {
		var v2 mt.Verdict
		func() {
			defer func() {
				if r := recover(); r != nil {
					v2 = v
				}
			}()
			cx, _ := mt.NewConn(cs.Input, cs.opts())
			_, _ = pl.m.EvalOn(cx)
			v2, _ = l.m.EvalOn(cx)
		}()
		c.Obs("companion_evaluations", 1)
		if v2 != v {
			c.Violation(fmt.Sprintf("C14 %s: verdict depends on another %s matcher having evaluated the connection first", cs.Matcher, cs.Matcher),
				fmt.Sprintf("matcher %s with config %s on input %s: %s on a fresh connection, %s after a %s matcher with config %s had evaluated the same connection", cs.Matcher, cs.Config, trimHex(cs.InputHex), v, v2, cs.Matcher, pl.cfg), cs)
		}
	}
	// address matchers: the connection a matcher sees may be the one a handler (proxy_protocol) put in place of the
	// accepted one, after address matchers already looked at the accepted one. The verdict is about the addresses of the
	// connection at hand: evaluated on a connection with other addresses first, then - wrapped with this case's addresses -
	// again, the matcher answers as on a fresh connection.
	if (cs.Matcher == "remote_ip" || cs.Matcher == "local_ip") && v != "panic" {
		var v3 mt.Verdict
		func() {
			defer func() {
				if r := recover(); r != nil {
					v3 = v
				}
			}()
			o := cs.opts()
			want := mt.Opts{UDP: o.UDP, Local: o.Local, Remote: o.Remote}
			o.Remote, o.Local = parseAddr("203.0.113.99:40000", cs.UDP), parseAddr("203.0.113.1:443", cs.UDP)
			if strings.Contains(cs.Remote, ":") && strings.Count(cs.Remote, ":") > 1 { // the other family now and then
				o.Remote, o.Local = parseAddr("[2001:db8:99::99]:40000", cs.UDP), parseAddr("[2001:db8:99::1]:443", cs.UDP)
			}
			cx, _ := mt.NewConn(cs.Input, o)
			_, _ = l.m.EvalOn(cx)
			ref, _ := mt.NewConn(cs.Input, want) // (a connection that reports this case's addresses)
			cx2 := cx.Wrap(addrConn{Conn: cx, local: ref.LocalAddr(), remote: ref.RemoteAddr()})
			v3, _ = l.m.EvalOn(cx2)
		}()
		c.Obs("address_change_evaluations", 1)
		if v3 != v {
			c.Violation(fmt.Sprintf("C14 %s: verdict does not follow the connection's address after a handler replaced the connection", cs.Matcher),
				fmt.Sprintf("matcher %s with config %s: %s on a fresh connection from %s, %s on a connection that reports the same addresses but wraps one (from 203.0.113.99 / 2001:db8:99::99) which the matcher had evaluated before", cs.Matcher, cs.Config, v, cs.Remote, v3), cs)
		}
	}
	// reload law (a sample of the cases): the same configuration is provisioned a second time while the first instance
	// exists, then the first one is released (what a configuration reload does). The second instance answers like a fresh
	// one; the retired first instance, which may still be asked about connections accepted before the reload, does not
	// start to match what it rejected.
	if v != "panic" && fw.Hash("reload", key, cs.InputHex)%8 == 0 {
		var vOld, vNew mt.Verdict = v, v
		func() {
			defer func() { _ = recover() }()
			a, err := mt.Load(cs.Matcher, cs.Config)
			if err != nil {
				return
			}
			b, err := mt.Load(cs.Matcher, cs.Config)
			if err != nil {
				a.Close()
				return
			}
			a.Close()
			vNew, _ = b.Eval(cs.Input, cs.opts())
			vOld, _ = a.Eval(cs.Input, cs.opts())
			b.Close()
		}()
		c.Obs("reload_evaluations", 1)
		if vNew != v {
			c.Violation(fmt.Sprintf("C14 %s: verdict changes when the configuration is provisioned again and the earlier instance released", cs.Matcher),
				fmt.Sprintf("matcher %s with config %s on input %s: %s from a fresh instance, %s from an instance provisioned while an earlier one with the same configuration existed, after that one was cleaned up", cs.Matcher, cs.Config, trimHex(cs.InputHex), v, vNew), cs)
		}
		if vOld == mt.Yes && v != mt.Yes {
			c.Violation(fmt.Sprintf("C14 %s: a released instance matches what it rejected", cs.Matcher),
				fmt.Sprintf("matcher %s with config %s on input %s: %s while loaded, %s after its configuration was unloaded (connections accepted before still reach it)", cs.Matcher, cs.Config, trimHex(cs.InputHex), v, vOld), cs)
		}
	}
	// rotation law for the address matchers: the range is given as an environment placeholder; an instance provisioned
	// when the variable had another value exists; the variable changes and the same configuration text is provisioned
	// again: the new instance works with the new value.
	if _, rot := rotating[cs.Matcher]; rot && v != "panic" && cs.Env == nil && fw.Hash("rotate", key, cs.InputHex)%4 == 0 {
		if cfg2, env, earlier := placeholderiseFixed(cs.Matcher, cs.Config, "VERIF_C14_ROTATING"); env != "" {
			var vNew mt.Verdict = v
			func() {
				defer func() { _ = recover() }()
				_ = os.Setenv("VERIF_C14_ROTATING", earlier)
				a, err := mt.Load(cs.Matcher, cfg2)
				if err != nil {
					return
				}
				_ = os.Setenv("VERIF_C14_ROTATING", env)
				b, err := mt.Load(cs.Matcher, cfg2)
				a.Close()
				if err != nil {
					return
				}
				vNew, _ = b.Eval(cs.Input, cs.opts())
				b.Close()
			}()
			c.Obs("rotation_evaluations", 1)
			if vNew != v {
				c.Violation(fmt.Sprintf("C14 %s: an option given as {env.NAME} keeps an earlier value of the variable after the configuration was provisioned again", cs.Matcher),
					fmt.Sprintf("matcher %s with config %s (option %s through {env.VERIF_C14_ROTATING}, which was %q when an earlier instance was provisioned and is %q now): %s with the literal, %s through the placeholder", cs.Matcher, cs.Config, rotating[cs.Matcher][0], earlier, env, v, vNew), cs)
			}
		}
	}
	prevLoaded[cs.Matcher] = l
	ok := (cs.Want && v == mt.Yes) || (!cs.Want && (v == mt.No || v == mt.Err || v == mt.More))
	if v == "panic" {
		// panics are C04's subject; here they only make the verdict undecidable
		c.Inconclusive("panic in " + cs.Matcher + " (see C04)")
		ok = true
	}
	c.Case(fw.Hash(cs.Matcher, cs.Class, cs.Config, cs.InputHex), true, func() any { return cs })
	if cs.Want {
		c.Obs("want_match_"+cs.Matcher, 1)
	} else {
		c.Obs("want_reject_"+cs.Matcher, 1)
	}
	c.SetAdd("classes", cs.Matcher+"/"+cs.Class)
	if !ok {
		es := ""
		if err != nil {
			es = err.Error()
		}
		c.Violation(fmt.Sprintf("C14 %s: %s: reference says %s, matcher says %s", cs.Matcher, cs.Class, wantWord(cs.Want), v),
			fmt.Sprintf("matcher %s with config %s on input %s (%s): reference verdict %s, real verdict %s %s", cs.Matcher, cs.Config, trimHex(cs.InputHex), cs.Note, wantWord(cs.Want), v, es), cs)
	}
}

// addrConn reports other addresses than the connection it wraps (what the proxy_protocol handler's connection does).
type addrConn struct {
	net.Conn
	local, remote net.Addr
}

func (a addrConn) LocalAddr() net.Addr  { return a.local }
func (a addrConn) RemoteAddr() net.Addr { return a.remote }

func wantWord(b bool) string {
	if b {
		return "match"
	}
	return "no-match"
}

func trimHex(s string) string {
	if len(s) > 160 {
		return s[:160] + "..."
	}
	return s
}

func replay(c *fw.Ctx, raw json.RawMessage) {
	var cs Case
	if err := json.Unmarshal(raw, &cs); err != nil {
		fmt.Println("replay: cannot decode case:", err)
		return
	}
	hmods.Quiet(c.OutDir + "/caddyhome")
	cs.Input, _ = hex.DecodeString(cs.InputHex)
	for k, v := range cs.Env {
		_ = os.Setenv(k, v)
	}
	judge(c, map[string]*loaded{}, &cs)
}
