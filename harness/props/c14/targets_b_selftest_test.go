package c14

// Self-tests of the dns / rdp / openvpn / winbox / http references and builders. They do not run the matchers:
//   - the references must agree with the sample packets (data, not code) that the modules' own tests document
//     as matching / not matching, including packets captured from real OpenVPN clients with the sample keys;
//   - the DNS builder must emit messages that an unrelated codec (miekg/dns) decodes and re-encodes to the same length;
//   - the HTTP builders must emit messages that net/http and x/net/http2 decode to the abstract request.
//
// Run: cd harness && go test -tags verif -run SelfTest ./props/c14

import (
	"bufio"
	"bytes"
	"go/ast"
	"go/parser"
	"go/token"
	"io"
	"math/rand"
	"net/http"
	"strconv"
	"strings"
	"testing"

	"github.com/miekg/dns"
	"golang.org/x/net/http2"
	"golang.org/x/net/http2/hpack"
)

// sampleVars extracts top-level `var x = []byte{...}` and string variables from a Go source file.
func sampleVars(t *testing.T, path string) (map[string][]byte, map[string]string) {
	t.Helper()
	f, err := parser.ParseFile(token.NewFileSet(), path, nil, 0)
	if err != nil {
		t.Skipf("cannot read %s: %v", path, err)
	}
	bs, ss := map[string][]byte{}, map[string]string{}
	var str func(e ast.Expr) (string, bool)
	str = func(e ast.Expr) (string, bool) {
		switch v := e.(type) {
		case *ast.BasicLit:
			if v.Kind == token.STRING {
				s, err := strconv.Unquote(v.Value)
				return s, err == nil
			}
		case *ast.BinaryExpr:
			a, ok1 := str(v.X)
			b, ok2 := str(v.Y)
			return a + b, ok1 && ok2 && v.Op == token.ADD
		case *ast.ParenExpr:
			return str(v.X)
		}
		return "", false
	}
	for _, d := range f.Decls {
		gd, ok := d.(*ast.GenDecl)
		if !ok || gd.Tok != token.VAR {
			continue
		}
		for _, sp := range gd.Specs {
			vs := sp.(*ast.ValueSpec)
			if len(vs.Names) != 1 || len(vs.Values) != 1 {
				continue
			}
			if s, ok := str(vs.Values[0]); ok {
				ss[vs.Names[0].Name] = s
				continue
			}
			cl, ok := vs.Values[0].(*ast.CompositeLit)
			if !ok {
				continue
			}
			var out []byte
			good := true
			for _, el := range cl.Elts {
				bl, ok := el.(*ast.BasicLit)
				if !ok {
					good = false
					break
				}
				switch bl.Kind {
				case token.INT:
					n, err := strconv.ParseInt(bl.Value, 0, 16)
					good = good && err == nil
					out = append(out, byte(n))
				case token.CHAR:
					c, _, _, err := strconv.UnquoteChar(strings.Trim(bl.Value, "'"), '\'')
					good = good && err == nil
					out = append(out, byte(c))
				default:
					good = false
				}
			}
			if good {
				bs[vs.Names[0].Name] = out
			}
		}
	}
	return bs, ss
}

func TestSelfTestRDPSamples(t *testing.T) {
	bs, _ := sampleVars(t, "/repo/modules/l4rdp/matcher_test.go")
	n := 0
	for name, b := range bs {
		var want bool
		switch {
		case strings.HasPrefix(name, "packetValid"):
			want = true
		case strings.HasPrefix(name, "packetInvalid"), strings.HasPrefix(name, "packetSemiValid"), name == "packetTooShort", name == "packetExtraByte":
		default:
			continue
		}
		got, abst := rdpRef(&rdpCfg{}, b)
		if abst != "" || got != want {
			t.Errorf("%s: reference says %v (abstain %q), the module documents %v", name, got, abst, want)
		}
		n++
	}
	if n < 15 {
		t.Errorf("only %d sample packets found", n)
	}
	// documented filter examples
	for _, c := range []struct {
		cfg  rdpCfg
		pkt  string
		want bool
	}{
		{rdpCfg{CookieHash: "a0123"}, "packetValid3", true}, {rdpCfg{CookieHash: "admin"}, "packetValid3", false},
		{rdpCfg{CookieHashRegexp: "^[a-z]\\d+$"}, "packetValid3", true}, {rdpCfg{CookieHashRegexp: "^[A-Z]\\d+$"}, "packetValid3", false},
		{rdpCfg{CookiePorts: []uint16{3389}}, "packetValid5", true}, {rdpCfg{CookiePorts: []uint16{5000}}, "packetValid5", false},
		{rdpCfg{CookieIPs: []string{"127.0.0.1/8"}}, "packetValid7", true}, {rdpCfg{CookieIPs: []string{"192.168.0.1/16"}}, "packetValid7", false},
		{rdpCfg{CustomInfo: "anything could be here"}, "packetValid9", true}, {rdpCfg{CustomInfo: "arbitrary text"}, "packetValid9", false},
		{rdpCfg{CustomInfoRegexp: "^([A-Za-z0-9 ]+)$"}, "packetValid9", true},
	} {
		if got, _ := rdpRef(&c.cfg, bs[c.pkt]); got != c.want {
			t.Errorf("%s with %+v: reference says %v, documented %v", c.pkt, c.cfg, got, c.want)
		}
	}
}

func TestSelfTestWinboxSamples(t *testing.T) {
	bs, _ := sampleVars(t, "/repo/modules/l4winbox/matcher_test.go")
	for _, c := range []struct {
		cfg  wbxCfg
		pkt  string
		want bool
	}{
		{wbxCfg{}, "packetS1", true}, {wbxCfg{}, "packetS2", true}, {wbxCfg{}, "packetR1", true}, {wbxCfg{}, "packetR2", true},
		{wbxCfg{Modes: []string{"standard"}}, "packetS1", true}, {wbxCfg{Modes: []string{"standard"}}, "packetR1", false},
		{wbxCfg{Modes: []string{"romon"}}, "packetS2", false}, {wbxCfg{Modes: []string{"romon"}}, "packetR2", true},
		{wbxCfg{Username: "toms"}, "packetS1", true}, {wbxCfg{Username: "toms"}, "packetR1", true}, {wbxCfg{Username: "toms"}, "packetS2", false},
		{wbxCfg{UsernameRegexp: "^andris$"}, "packetR2", true}, {wbxCfg{UsernameRegexp: "^andris$"}, "packetS1", false},
	} {
		b := bs[c.pkt]
		if len(b) == 0 {
			t.Fatalf("sample %s not found", c.pkt)
		}
		if got, abst := wbxRef(&c.cfg, b); got != c.want || abst != "" {
			t.Errorf("%s with %+v: reference says %v (%q), documented %v", c.pkt, c.cfg, got, abst, c.want)
		}
		if got, _ := wbxRef(&c.cfg, b[:len(b)-1]); got {
			t.Errorf("%s truncated: reference matches", c.pkt)
		}
	}
}

func TestSelfTestOpenVPNSamples(t *testing.T) {
	bs, ss := sampleVars(t, "/repo/modules/l4openvpn/matcher_test.go")
	key := ss["groupKey12Hex"]
	if len(key) != 512 {
		t.Fatalf("sample group key not found")
	}
	now := int64(0)
	n := 0
	for name, b := range bs {
		if !(strings.HasSuffix(name, "Packet1") || strings.HasSuffix(name, "Packet2")) {
			continue
		}
		switch {
		case strings.HasPrefix(name, "plain"):
			if got, _ := ovpnRef(&ovpnCfg{}, b, now); !got {
				t.Errorf("%s: reference rejects", name)
			}
		case strings.HasPrefix(name, "authMD5SHA1"), strings.HasPrefix(name, "authSM3"), strings.HasPrefix(name, "authWhirlpool"):
			continue // digests outside the reference
		case strings.HasPrefix(name, "auth"):
			// captured with the sample ta.key, client key direction 1 ("normal")
			if got, abst := ovpnRef(&ovpnCfg{IgnoreTimestamp: true, GroupKey: key}, b, now); !got {
				t.Errorf("%s: HMAC does not verify with the sample key (abstain %q)", name, abst)
			}
			if got, _ := ovpnRef(&ovpnCfg{IgnoreTimestamp: true, GroupKey: key, GroupKeyDirection: "inverse"}, b, now); got {
				t.Errorf("%s: verifies with the inverse direction", name)
			}
			if got, _ := ovpnRef(&ovpnCfg{GroupKey: key}, b, 1791070000); got {
				t.Errorf("%s: old timestamp accepted", name)
			}
			if got, _ := ovpnRef(&ovpnCfg{IgnoreTimestamp: true, Modes: []string{"crypt", "crypt2", "plain"}}, b, now); got {
				t.Errorf("%s: accepted although auth is not in the mode list", name)
			}
		case strings.HasPrefix(name, "crypt2"):
			continue
		case strings.HasPrefix(name, "crypt"):
			if got, _ := ovpnRef(&ovpnCfg{IgnoreTimestamp: true, GroupKey: key}, b, now); !got {
				t.Errorf("%s: tls-crypt message does not verify with the sample key", name)
			}
		default:
			continue
		}
		n++
	}
	for _, name := range []string{"cryptPacket3", "cryptPacket4", "authSHA256Packet3", "authSHA1Packet4"} { // other key
		if got, _ := ovpnRef(&ovpnCfg{IgnoreTimestamp: true, GroupKey: key, Modes: []string{"auth", "crypt"}}, bs[name], now); got || len(bs[name]) == 0 {
			t.Errorf("%s: verifies with a key it was not made with", name)
		}
		if got, _ := ovpnRef(&ovpnCfg{IgnoreTimestamp: true}, bs[name], now); !got {
			t.Errorf("%s: rejected without key", name)
		}
	}
	sk, ck := ss["serverKey56Base64"], ss["clientKey56Base64"]
	for _, name := range []string{"crypt2Packet5", "crypt2Packet6"} {
		b := bs[name]
		if len(b) == 0 || sk == "" || ck == "" {
			t.Fatalf("tls-crypt-v2 samples not found")
		}
		for _, cfg := range []ovpnCfg{{IgnoreTimestamp: true}, {IgnoreTimestamp: true, ServerKey: sk}, {IgnoreTimestamp: true, ClientKeys: []string{ck}},
			{IgnoreTimestamp: true, ServerKey: sk, ClientKeys: []string{ck}}} {
			if got, abst := ovpnRef(&cfg, b, now); !got {
				t.Errorf("%s: rejected with server_key=%v client_keys=%d (%q)", name, cfg.ServerKey != "", len(cfg.ClientKeys), abst)
			}
		}
		n++
	}
	if n < 30 {
		t.Errorf("only %d sample packets checked", n)
	}
}

func TestSelfTestDNSSamples(t *testing.T) {
	bs, _ := sampleVars(t, "/repo/modules/l4dns/matcher_test.go")
	for name, b := range bs {
		p := b
		if strings.HasPrefix(name, "tcp") {
			p = b[2:]
		}
		if got, abst := dnsRef(&dnsCfg{}, p); !got || abst != "" {
			t.Errorf("%s: reference says %v (%q)", name, got, abst)
		}
	}
	ex := bs["tcpPacketExampleComA"][2:]
	for _, c := range []struct {
		cfg  dnsCfg
		want bool
	}{
		{dnsCfg{Deny: []dnsRule{{Name: "example.com.", Type: "A", Class: "IN"}}}, false},
		{dnsCfg{Allow: []dnsRule{{Name: "example.com.", Type: "A", Class: "IN"}}}, true},
		{dnsCfg{Allow: []dnsRule{{Name: "example.org."}}}, false},
		{dnsCfg{Allow: []dnsRule{{NameRegexp: `^(|[-0-9a-z]+\.)example\.com\.$`}}, Deny: []dnsRule{{Type: "A"}}, PreferAllow: true}, true},
		{dnsCfg{Allow: []dnsRule{{NameRegexp: `^(|[-0-9a-z]+\.)example\.com\.$`}}, Deny: []dnsRule{{Type: "A"}}}, false},
	} {
		if got, _ := dnsRef(&c.cfg, ex); got != c.want {
			t.Errorf("example.com A IN with %+v: reference says %v", c.cfg, got)
		}
	}
}

func TestSelfTestDNSBuilder(t *testing.T) {
	for i := 0; i < 5000; i++ {
		r := rand.New(rand.NewSource(int64(i)))
		m := dnsRandValid(r, i%2 == 0)
		b := m.bytes()
		var msg dns.Msg
		if err := msg.Unpack(b); err != nil {
			t.Fatalf("case %d: %x does not unpack: %v", i, b, err)
		}
		if msg.Len() != len(b) || len(msg.Question) != len(m.qs) || msg.Response || msg.Rcode != 0 {
			t.Fatalf("case %d: %x decodes to another message (len %d vs %d)", i, b, msg.Len(), len(b))
		}
		if (msg.IsEdns0() != nil) != (m.opt != nil) {
			t.Fatalf("case %d: OPT record lost", i)
		}
		if got, abst := dnsRef(&dnsCfg{}, b); !got || abst != "" {
			t.Fatalf("case %d: reference rejects its own valid message %x (%q)", i, b, abst)
		}
	}
}

func TestSelfTestHTTPBuilder(t *testing.T) {
	for i := 0; i < 3000; i++ {
		r := rand.New(rand.NewSource(int64(i)))
		q := httpRandReq(r)
		if i%3 != 0 {
			eol := []string{"\r\n", "\n"}[i%2]
			b := q.h1(r, eol, true)
			req, err := http.ReadRequest(bufio.NewReader(bytes.NewReader(b)))
			if err != nil {
				t.Fatalf("case %d: %q: %v", i, b, err)
			}
			if req.Method != q.method || req.URL.Path != q.path || req.Host != q.host || req.ProtoMinor != q.minor {
				t.Fatalf("case %d: %q decodes to %s %s %s", i, b, req.Method, req.URL.Path, req.Host)
			}
			for _, h := range q.headers {
				if req.Header.Get(h[0]) != h[1] {
					t.Fatalf("case %d: header %s lost in %q", i, h[0], b)
				}
			}
			continue
		}
		before := 1 + r.Intn(4)
		b := q.h2start(r, before)
		if !bytes.HasPrefix(b, []byte(httpPreface)) {
			t.Fatalf("no preface")
		}
		fr := http2.NewFramer(io.Discard, bytes.NewReader(b[len(httpPreface):]))
		seen := 0
		for {
			f, err := fr.ReadFrame()
			if err != nil {
				t.Fatalf("case %d: frame %d: %v", i, seen, err)
			}
			if hf, ok := f.(*http2.HeadersFrame); ok {
				if seen != before || !hf.HeadersEnded() {
					t.Fatalf("case %d: HEADERS is frame %d, want %d", i, seen, before)
				}
				fields, err := hpack.NewDecoder(4096, nil).DecodeFull(hf.HeaderBlockFragment())
				if err != nil {
					t.Fatalf("case %d: hpack: %v", i, err)
				}
				got := map[string]string{}
				for _, f := range fields {
					got[f.Name] = f.Value
				}
				if got[":method"] != q.method || got[":path"] != q.target() || got[":authority"] != q.host {
					t.Fatalf("case %d: fields %v", i, got)
				}
				break
			}
			seen++
		}
	}
}
