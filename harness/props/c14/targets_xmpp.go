package c14

import (
	"bytes"
	"fmt"
	"math/rand"
)

// Reference: the module documents a heuristic ("needs at least 50 (fix for adium/pidgin)"): it inspects the first
// 50 bytes of the stream and matches iff they contain the word "jabber" (the XMPP namespaces are jabber:client,
// jabber:server and http://etherx.jabber.org/streams, RFC 6120 section 4.8).
func gaRefXMPP(in []byte) bool {
	return len(in) >= 50 && bytes.Contains(in[:50], []byte("jabber"))
}

// gaXMPPHeader builds an RFC 6120 stream header; attribute order and the XML declaration vary, which moves the
// first occurrence of "jabber" around (possibly beyond byte 50).
func gaXMPPHeader(r *rand.Rand) []byte {
	ns := []string{"jabber:client", "jabber:server"}[r.Intn(2)]
	host := []string{"example.com", "im.example.org", "a.b", "conference.very-long-domain-name.example.net"}[r.Intn(4)]
	q := []string{"'", "\""}[r.Intn(2)]
	attrs := []string{
		"xmlns=" + q + ns + q,
		"xmlns:stream=" + q + "http://etherx.jabber.org/streams" + q,
		"to=" + q + host + q,
		"version=" + q + "1.0" + q,
	}
	if r.Intn(2) == 0 {
		attrs = append(attrs, "xml:lang="+q+"en"+q)
	}
	if r.Intn(3) == 0 {
		attrs = append(attrs, "from="+q+"juliet@"+host+q)
	}
	r.Shuffle(len(attrs), func(a, b int) { attrs[a], attrs[b] = attrs[b], attrs[a] })
	if r.Intn(10) < 6 { // most clients write a namespace declaration first
		for j, a := range attrs {
			if a[:5] == "xmlns" {
				attrs[0], attrs[j] = attrs[j], attrs[0]
				break
			}
		}
	}
	s := ""
	if r.Intn(3) != 0 {
		s = "<?xml version=" + q + "1.0" + q + "?>"
		if r.Intn(4) == 0 {
			s = "<?xml version=" + q + "1.0" + q + " encoding=" + q + "UTF-8" + q + "?>"
		}
	}
	s += "<stream:stream"
	for _, a := range attrs {
		s += " " + a
	}
	s += ">"
	return []byte(s)
}

func genXMPP(r *rand.Rand, i int) Case {
	cs := Case{Matcher: "xmpp", Config: "{}"}
	word := []byte("jabber")
	// filler: n bytes over the full byte range that do not contain the word
	filler := func(n int) []byte {
		b := gaBytes(r, n)
		if r.Intn(2) == 0 {
			b = gaPrintable(r, n)
		}
		gaScrub(b, "jabber")
		return b
	}
	place := func(b []byte, off int, w []byte) []byte {
		copy(b[off:], w)
		return b
	}
	switch k := r.Intn(100); {
	case k < 14: // real stream headers
		b := gaXMPPHeader(r)
		cs.Input, cs.Class = b, "valid:stream-header"
		cs.Want = gaRefXMPP(b)
		if !cs.Want {
			// well-formed XMPP by the wire definition, but the word is outside the window of the documented heuristic
			cs.Class = "valid:stream-header:word-beyond-window"
			cs.Abstain = "well-formed RFC 6120 stream header whose first 'jabber' lies beyond the module's documented 50-byte window (or the header is shorter than 50 bytes): wire definition and documented heuristic disagree"
		}
		return cs
	case k < 40: // the word at every possible offset of the window
		off := r.Intn(45) // 0..44: completely inside the first 50 bytes
		b := place(filler(50+r.Intn(100)), off, word)
		cs.Input, cs.Class = b, "valid:word-in-window"
	case k < 56: // one byte of the word replaced (all 255 other values)
		off := r.Intn(45)
		w := append([]byte(nil), word...)
		pos := r.Intn(6)
		w[pos] = gaOtherByte(r, w[pos])
		b := place(filler(50+r.Intn(100)), off, w)
		gaScrub(b, "jabber") // the replacement cannot have recreated the word, but stay safe
		cs.Input, cs.Class = b, fmt.Sprintf("corrupt:word[%d]", pos)
	case k < 60: // letter case
		b := place(filler(50+r.Intn(60)), r.Intn(45), [][]byte{[]byte("Jabber"), []byte("JABBER"), []byte("jabbeR"), []byte("jaber:"), []byte("jabbr:")}[r.Intn(5)])
		cs.Input, cs.Class = b, "corrupt:word-case"
	case k < 70: // the word straddles the end of the window
		off := 45 + r.Intn(5) // 45..49
		b := place(filler(60+r.Intn(60)), off, word)
		cs.Input, cs.Class = b, "window:straddle"
	case k < 78: // the word only after the window
		b := filler(60 + r.Intn(100))
		off := 50 + r.Intn(len(b)-50-5)
		place(b, off, word)
		cs.Input, cs.Class = b, "window:beyond"
	case k < 82: // no word at all
		cs.Input, cs.Class = filler(50+r.Intn(100)), "corrupt:no-word"
	case k < 88: // fewer than 50 bytes, with the word
		n := 6 + r.Intn(44) // 6..49
		b := place(filler(n), r.Intn(n-5), word)
		cs.Input, cs.Class = b, "boundary:short-with-word"
	case k < 94: // exactly 50 bytes, the word in the last possible position / first position
		off := []int{0, 44, 43, 1}[r.Intn(4)]
		cs.Input, cs.Class = place(filler(50), off, word), "boundary:exactly-50"
	case k < 97: // the word twice: once outside, once inside
		b := filler(120)
		place(b, 70, word)
		place(b, r.Intn(45), word)
		cs.Input, cs.Class = b, "boundary:word-twice"
	default:
		cs.Input, cs.Class = nil, "boundary:empty"
	}
	cs.Want = gaRefXMPP(cs.Input)
	return cs
}

func init() {
	RegisterTarget(&Target{Name: "xmpp", Gen: genXMPP, Quick: 2000, Thorough: 150000})
}
