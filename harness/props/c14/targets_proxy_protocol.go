package c14

import (
	"bytes"
	"fmt"
	"math/rand"
)

// Reference (https://www.haproxy.org/download/1.8/doc/proxy-protocol.txt, sections 2.1 and 2.2, and the module,
// which "looks like it is using the Proxy Protocol" on the first 12 bytes): a stream matches iff it has at least
// 12 bytes and starts either with the version 1 signature "PROXY" or with the 12-byte version 2 signature
// 0D 0A 0D 0A 00 0D 0A 51 55 49 54 0A.
var gaPPv2Sig = []byte{0x0D, 0x0A, 0x0D, 0x0A, 0x00, 0x0D, 0x0A, 0x51, 0x55, 0x49, 0x54, 0x0A}

func gaRefProxyProtocol(in []byte) bool {
	if len(in) < 12 {
		return false
	}
	return bytes.Equal(in[:5], []byte("PROXY")) || bytes.Equal(in[:12], gaPPv2Sig)
}

func gaPPv1(r *rand.Rand) []byte {
	switch r.Intn(5) {
	case 0:
		s := "PROXY UNKNOWN\r\n"
		if r.Intn(2) == 0 {
			s = "PROXY UNKNOWN ffff:f...f:ffff ffff:f...f:ffff 65535 65535\r\n"
		}
		return []byte(s)
	case 1, 2:
		a, b := gaBytes(r, 4), gaBytes(r, 4)
		return []byte(fmt.Sprintf("PROXY TCP4 %s %s %d %d\r\n", gaIPString(a), gaIPString(b), gaPort(r), gaPort(r)))
	default:
		a, b := gaBytes(r, 16), gaBytes(r, 16)
		a[0], b[0] = 0x20, 0xfd
		return []byte(fmt.Sprintf("PROXY TCP6 %s %s %d %d\r\n", gaIPString(a), gaIPString(b), gaPort(r), gaPort(r)))
	}
}

func gaPPv2(r *rand.Rand, vercmd byte) []byte {
	b := append([]byte(nil), gaPPv2Sig...)
	b = append(b, vercmd)
	var addr []byte
	var fam byte
	switch r.Intn(4) {
	case 0: // UNSPEC
		fam = 0x00
	case 1: // TCP/UDP over IPv4
		fam = 0x10 | byte(1+r.Intn(2))
		addr = gaBytes(r, 12)
	case 2: // TCP/UDP over IPv6
		fam = 0x20 | byte(1+r.Intn(2))
		addr = gaBytes(r, 36)
	default: // UNIX stream/dgram
		fam = 0x30 | byte(1+r.Intn(2))
		addr = gaBytes(r, 216)
	}
	if r.Intn(3) == 0 { // TLVs
		addr = append(addr, gaBytes(r, 3+r.Intn(40))...)
	}
	b = append(b, fam, byte(len(addr)>>8), byte(len(addr)))
	return append(b, addr...)
}

func genProxyProtocol(r *rand.Rand, i int) Case {
	cs := Case{Matcher: "proxy_protocol", Config: "{}"}
	payload := func(b []byte) []byte { // the proxied connection's own first bytes may follow the header
		if r.Intn(3) == 0 {
			return append(b, gaBytes(r, 1+r.Intn(64))...)
		}
		return b
	}
	switch k := r.Intn(100); {
	case k < 20:
		cs.Input, cs.Class = payload(gaPPv1(r)), "valid:v1"
	case k < 40:
		cs.Input, cs.Class = payload(gaPPv2(r, 0x20|byte(r.Intn(2)))), "valid:v2"
	case k < 55: // one byte of "PROXY" replaced: all 255 other values
		b := payload(gaPPv1(r))
		pos := r.Intn(5)
		b[pos] = gaOtherByte(r, b[pos])
		cs.Input, cs.Class = b, fmt.Sprintf("corrupt:v1-signature[%d]", pos)
	case k < 75: // one byte of the v2 signature replaced
		b := payload(gaPPv2(r, 0x21))
		pos := r.Intn(12)
		b[pos] = gaOtherByte(r, b[pos])
		cs.Input, cs.Class = b, fmt.Sprintf("corrupt:v2-signature[%d]", pos)
	case k < 78: // letter case, mixed-up signatures
		b := payload(gaPPv1(r))
		copy(b, [][]byte{[]byte("proxy"), []byte("Proxy"), []byte("PROXy"), []byte("PORXY"), []byte("\r\nPRO")}[r.Intn(5)])
		cs.Input, cs.Class = b, "corrupt:v1-signature-case"
	case k < 80: // the first five bytes of v2 signature followed by v1 text and the like
		b := append(append([]byte(nil), gaPPv2Sig[:4+r.Intn(8)]...), gaPPv1(r)...)
		cs.Input, cs.Class = b, "corrupt:v2-signature-truncated+v1"
	case k < 86: // fewer than 12 bytes of an otherwise valid header
		var b []byte
		if r.Intn(2) == 0 {
			b = gaPPv1(r)
		} else {
			b = gaPPv2(r, 0x21)
		}
		cs.Input, cs.Class = b[:r.Intn(12)], "boundary:short"
	case k < 90: // exactly 12 bytes
		if r.Intn(2) == 0 {
			cs.Input = gaPPv1(r)[:12]
		} else {
			cs.Input = append([]byte(nil), gaPPv2Sig...)
		}
		cs.Class = "boundary:exactly-12"
	case k < 93: // v2 signature followed by a version nibble other than 2 or a command other than 0/1
		vc := byte(r.Intn(256))
		for vc == 0x20 || vc == 0x21 {
			vc = byte(r.Intn(256))
		}
		cs.Input, cs.Class = gaPPv2(r, vc), "boundary:v2-bad-version-command"
		cs.Abstain = "v2 signature present but the 13th byte is not version 2 / command LOCAL|PROXY: the protocol says the receiver must reject, the module documents a signature check only"
	case k < 96: // "PROXY" not followed by a space
		b := gaPPv1(r)
		b[5] = gaOtherByte(r, ' ')
		cs.Input, cs.Class = b, "boundary:v1-no-space"
		cs.Abstain = "the protocol's v1 signature is 'PROXY' followed by a single space; the module documents the 5-byte word only"
	case k < 98: // other protocols
		other := [][]byte{[]byte("GET / HTTP/1.1\r\nHost: x\r\n\r\n"), []byte("SSH-2.0-OpenSSH_9.6\r\n"), []byte("\r\n\r\n\x00\r\nQUIT \n"), []byte("\n\r\n\r\x00\n\rQUIT\n...")}
		cs.Input, cs.Class = other[r.Intn(len(other))], "other-protocol"
	default:
		cs.Input, cs.Class = gaBytes(r, 12+r.Intn(30)), "random"
	}
	if cs.Abstain == "" {
		cs.Want = gaRefProxyProtocol(cs.Input)
	}
	return cs
}

func init() {
	RegisterTarget(&Target{Name: "proxy_protocol", Gen: genProxyProtocol, Quick: 2000, Thorough: 150000})
}
