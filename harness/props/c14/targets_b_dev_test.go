package c14

import (
	"encoding/hex"
	"fmt"
	"os"
	"sort"
	"strconv"
	"testing"

	_ "github.com/caddyserver/caddy/v2/modules/standard"
	_ "github.com/mholt/caddy-l4"

	"verifharness/fw"
	"verifharness/hmods"
	"verifharness/mt"
)

// TestDev is a development aid: DEV_TARGET=<matcher|all> [DEV_N=n] [VERIF_SEED=s] go test -tags verif -v -run TestDev ./props/c14
// prints, per class, how many cases the reference accepts / rejects / abstains on and where the real matcher disagrees.
func TestDev(t *testing.T) {
	only := os.Getenv("DEV_TARGET")
	if only == "" {
		t.Skip("set DEV_TARGET")
	}
	if only == "all" {
		only = ""
	}
	hmods.Quiet(t.TempDir())
	n, _ := strconv.Atoi(os.Getenv("DEV_N"))
	if n == 0 {
		n = 3000
	}
	seed, _ := strconv.ParseInt(os.Getenv("VERIF_SEED"), 10, 64)
	for _, tg := range Targets() {
		if only != "" && tg.Name != only {
			continue
		}
		cache := map[string]*mt.Matcher{}
		classes := map[string][4]int{} // want-true, want-false, abstain, disagree
		shown := map[string]int{}
		for i := 0; i < n; i++ {
			cs := tg.Gen(fw.Rand(seed, "c14", tg.Name, i), i)
			if cs.Config == "" {
				cs.Config = "{}"
			}
			c := classes[cs.Class]
			if cs.Abstain != "" {
				c[2]++
				classes[cs.Class] = c
				continue
			}
			m := cache[cs.Config]
			if m == nil {
				var err error
				m, err = mt.Load(tg.Name, cs.Config)
				if err != nil {
					t.Fatalf("config %s: %v", cs.Config, err)
				}
				cache[cs.Config] = m
			}
			var v mt.Verdict
			var err error
			func() {
				defer func() {
					if r := recover(); r != nil {
						v = "panic"
					}
				}()
				v, err = m.Eval(cs.Input, cs.opts())
			}()
			ok := (cs.Want && v == mt.Yes) || (!cs.Want && (v == mt.No || v == mt.Err || v == mt.More)) || v == "panic"
			if cs.Want {
				c[0]++
			} else {
				c[1]++
			}
			if !ok {
				c[3]++
				if shown[cs.Class] < 3 {
					shown[cs.Class]++
					fmt.Printf("DISAGREE %s class=%s udp=%v cfg=%s want=%v got=%v err=%v note=%s\n   in=%s\n", tg.Name, cs.Class, cs.UDP, cs.Config, cs.Want, v, err, cs.Note, hex.EncodeToString(cs.Input))
				}
			}
			classes[cs.Class] = c
		}
		var ks []string
		for k := range classes {
			ks = append(ks, k)
		}
		sort.Strings(ks)
		tot := [4]int{}
		for _, k := range ks {
			c := classes[k]
			fmt.Printf("%-10s %-50s true=%-5d false=%-5d abstain=%-5d DISAGREE=%d\n", tg.Name, k, c[0], c[1], c[2], c[3])
			for j := range tot {
				tot[j] += c[j]
			}
		}
		fmt.Printf("%-10s TOTAL true=%d false=%d abstain=%d disagree=%d\n", tg.Name, tot[0], tot[1], tot[2], tot[3])
	}
}
