package c14

import (
	"encoding/binary"
	"encoding/json"
	"fmt"
	"math/rand"
	"time"
)

// Reference (documentation of MatchNot): the configuration is an array of matcher sets, each an object keyed by
// matcher name; "Each matcher set is OR'ed; in other words, if any matcher set returns true, the final result of
// the 'not' matcher is false. Individual matchers within a set work the same (i.e. different matchers in the same
// set are AND'ed)"; a matcher set without matchers matches (MatcherSet.Match: "or if there are no matchers").
// So: verdict = NOT ( OR over sets ( AND over the set's matchers ) ), with the inner verdicts given by the
// references of the inner matchers (composed from the other targets of this group). Inputs are chosen such that
// every inner matcher can decide on the complete message (an inner "need more data" or error would terminate
// matching instead of producing a verdict).

type gaNotCtx struct {
	r          *rand.Rand
	in         []byte
	udp        bool
	kind       string
	remote     []byte
	local      []byte
	unix       int64
	zone       gaClockZone
	localSec   int
	usedNested bool
}

type gaInner struct {
	name    string
	cfg     json.RawMessage
	verdict bool
}

// gaPgClean: the message is one on which the Postgres matcher produces a verdict without an error.
func gaPgClean(in []byte) bool {
	if len(in) < 8 {
		return false
	}
	L := int64(binary.BigEndian.Uint32(in))
	if L < 8 || L > int64(len(in)) {
		return false
	}
	code := binary.BigEndian.Uint32(in[4:8])
	if code == gaPgSSLRequest {
		return L == 8
	}
	if code>>16 < 3 || code>>16 == 1234 {
		return false
	}
	p := in[8:L]
	if len(p) == 0 || p[len(p)-1] != 0 {
		return false
	}
	// names and values must pair up and the terminator must be the last byte
	nul := func(from int) int {
		for e := from; e < len(p); e++ {
			if p[e] == 0 {
				return e
			}
		}
		return -1
	}
	pos := 0
	for {
		e := nul(pos)
		if e < 0 {
			return false
		}
		if e == pos { // terminator
			return e == len(p)-1
		}
		if e = nul(e + 1); e < 0 {
			return false
		}
		pos = e + 1
	}
}

// gaNotInner tries to build the inner matcher `name` for the context; wantTrue is the verdict aimed at where the
// configuration gives a choice. ok=false: not applicable / not decidable on this input.
func gaNotInner(x *gaNotCtx, name string, wantTrue bool) (gaInner, bool) {
	r := x.r
	in := x.in
	raw := func(s string) json.RawMessage { return json.RawMessage(s) }
	switch name {
	case "ssh":
		return gaInner{name, raw("{}"), gaRefSSH(in)}, len(in) >= 4
	case "xmpp":
		return gaInner{name, raw("{}"), gaRefXMPP(in)}, len(in) >= 50
	case "proxy_protocol":
		return gaInner{name, raw("{}"), gaRefProxyProtocol(in)}, len(in) >= 12
	case "postgres":
		if x.kind != "postgres" || !gaPgClean(in) {
			return gaInner{}, false
		}
		v, abst := gaRefPostgres(in)
		return gaInner{name, raw("{}"), v}, abst == ""
	case "socks4":
		if len(in) < 8 {
			return gaInner{}, false
		}
		c := gaSocks4Config(r)
		if x.kind == "socks4" && wantTrue { // the destination port of the message, so that the filter can pass
			c.Ports = nil
			if r.Intn(2) == 0 {
				c.Ports = []uint16{uint16(in[2])<<8 | uint16(in[3])}
			}
			c.Networks, c.nets = nil, nil
		}
		v, abst := gaRefSocks4(c, in)
		return gaInner{name, raw(gaJSON(c)), v}, abst == ""
	case "socks5":
		if len(in) < 1 {
			return gaInner{}, false
		}
		if in[0] == 5 && (len(in) < 2 || in[1] == 0 || len(in) < 2+int(in[1])) {
			return gaInner{}, false // undecidable or the (reported) NMETHODS=0 class
		}
		c := gaSocks5Config(r)
		if in[0] == 5 && wantTrue { // exactly the offered methods
			c.AuthMethods = nil
			for _, m := range in[2 : 2+int(in[1])] {
				c.AuthMethods = append(c.AuthMethods, uint16(m))
			}
		}
		return gaInner{name, raw(gaJSON(c)), gaRefSocks5(c, in)}, true
	case "regexp":
		pats := []string{`^SSH-`, `^PROXY`, `^\x05`, `^\x04[\x01\x02]`, `jabber`, `^\x00\x00`, `(?s)^.`, `^[[:print:]]+$`, `^\x01\x00\x00\x00`}
		c := &gaRegexpCfg{Pattern: pats[r.Intn(len(pats))]}
		if wantTrue && r.Intn(2) == 0 {
			c.Pattern = `(?s)^.`
		}
		if len(in) < 4 {
			if len(in) == 0 {
				return gaInner{}, false
			}
			c.Count = uint16(1 + r.Intn(len(in)))
		} else if r.Intn(2) == 0 {
			c.Count = uint16(1 + r.Intn(len(in)))
		}
		return gaInner{name, raw(gaJSON(c)), gaRefRegexp(c, in)}, true
	case "remote_ip", "local_ip":
		ip := x.remote
		if name == "local_ip" {
			ip = x.local
		}
		var ps []gaPrefix
		for tries := 0; tries < 40; tries++ {
			p := gaRandPrefix(r, len(ip) == 16)
			if p.bits == 0 {
				p.bits = 4
			}
			if wantTrue {
				// a range around the address: copy the address into the prefix
				p.addr = append([]byte(nil), ip...)
				if r.Intn(2) == 0 {
					gaMaskHost(p.addr, p.bits)
				}
			}
			ps = []gaPrefix{p}
			if r.Intn(3) == 0 { // an unrelated range of the other family in front
				q := gaRandPrefix(r, len(ip) != 16)
				if q.bits == 0 {
					q.bits = 9
				}
				ps = []gaPrefix{q, p}
			}
			v, abst := gaMatchAny(ps, ip)
			if abst == "" && v == wantTrue {
				return gaInner{name, raw(gaJSON(gaIPCfg{Ranges: gaPrefixStrings(ps)})), v}, true
			}
		}
		return gaInner{}, false
	case "clock":
		s := x.localSec
		var a, b int
		if wantTrue {
			a = r.Intn(s + 1)
			b = s + 1 + r.Intn(86400-s)
		} else if s > 0 && r.Intn(2) == 0 { // window entirely before
			b = 1 + r.Intn(s)
			a = r.Intn(b)
		} else if s < 86398 { // window entirely after
			a = s + 1 + r.Intn(86398-s)
			b = a + 1 + r.Intn(86400-a-1)
		} else {
			a, b = 1, 2
		}
		if b == 86400 {
			b = 0
		}
		cfg := gaClockCfg{After: gaHMS(a), Before: gaHMS(b), Timezone: x.zone.cfg}
		return gaInner{name, raw(gaJSON(cfg)), gaRefClock(a, b, s)}, true
	case "wireguard":
		if !x.udp || len(in) == 0 {
			return gaInner{}, false
		}
		c := &gaWGCfg{}
		if len(in) >= 4 && r.Intn(2) == 0 {
			c.Zero = uint32(in[1])<<8 | uint32(in[2])<<16 | uint32(in[3])<<24
		}
		return gaInner{name, raw(gaJSON(c)), gaRefWireGuard(c, in)}, true
	case "not": // nested: NOT of a single set with one simple matcher
		if x.usedNested {
			return gaInner{}, false
		}
		x.usedNested = true
		simple := []string{"ssh", "proxy_protocol", "remote_ip", "local_ip", "clock", "regexp"}
		inner, ok := gaNotInner(x, simple[r.Intn(len(simple))], !wantTrue)
		if !ok {
			return gaInner{}, false
		}
		cfg := []map[string]json.RawMessage{{inner.name: inner.cfg}}
		return gaInner{name, raw(gaJSON(cfg)), !inner.verdict}, true
	}
	return gaInner{}, false
}

var gaNotNames = []string{"ssh", "xmpp", "proxy_protocol", "postgres", "socks4", "socks5", "regexp", "remote_ip", "local_ip", "clock", "wireguard", "not"}

func genNot(r *rand.Rand, i int) Case {
	cs := Case{Matcher: "not"}
	x := &gaNotCtx{r: r}

	// the message: a first message of one of the protocols (valid or corrupted, from that protocol's generator)
	var base Case
	switch r.Intn(8) {
	case 0:
		base, x.kind = genSSH(r, i), "ssh"
	case 1:
		base, x.kind = genXMPP(r, i), "xmpp"
	case 2:
		base, x.kind = genProxyProtocol(r, i), "proxy_protocol"
	case 3:
		base, x.kind = genSocks4(r, i), "socks4"
	case 4:
		base, x.kind = genSocks5(r, i), "socks5"
	case 5:
		base, x.kind = genPostgres(r, i), "postgres"
	case 6:
		base, x.kind = genWireGuard(r, i), "wireguard"
	default:
		base, x.kind = Case{Input: gaBytes(r, 64+r.Intn(64))}, "random"
	}
	x.in = base.Input
	x.udp = base.UDP
	if x.kind != "wireguard" && x.kind != "postgres" && r.Intn(10) < 7 && len(x.in) < 64 {
		x.in = append(append([]byte(nil), x.in...), gaBytes(r, 64-len(x.in)+r.Intn(16))...)
	}
	if x.kind != "wireguard" && r.Intn(6) == 0 {
		x.udp = true
	}

	// the connection's attributes
	v6 := r.Intn(3) == 0
	mk := func() []byte {
		if v6 {
			a := gaBytes(r, 16)
			if a[0] == 0 {
				a[0] = 0x20
			}
			return a
		}
		return gaBytes(r, 4)
	}
	x.remote, x.local = mk(), mk()
	x.zone = gaPickZone(r)
	d0, d1 := gaDaysFromCivil(x.zone.lo, 1, 1), gaDaysFromCivil(x.zone.hi, 12, 31)
	x.unix = (d0+r.Int63n(d1-d0+1))*86400 + r.Int63n(86400)
	x.localSec = int(gaFloorMod(x.unix+int64(x.zone.offset(x.unix)), 86400))

	// the matcher sets
	nsets := []int{1, 1, 1, 1, 1, 1, 1, 1, 2, 2, 2, 2, 2, 2, 3, 3, 3, 3, 3, 0}[r.Intn(20)]
	var sets []map[string]json.RawMessage
	or := false
	maxSize, nested := 0, false
	emptySet := false
	for s := 0; s < nsets; s++ {
		set := map[string]json.RawMessage{}
		and := true
		size := []int{1, 1, 2, 2, 3, 0}[r.Intn(6)]
		if size == 0 && r.Intn(4) != 0 {
			size = 1
		}
		// aim: with one set, the set's verdict is a coin flip; with more sets, most sets are false
		aimSet := r.Intn(nsets+1) == 0
		for tries := 0; len(set) < size && tries < 30; tries++ {
			name := gaNotNames[r.Intn(len(gaNotNames))]
			if _, dup := set[name]; dup {
				continue
			}
			aim := aimSet || r.Intn(3) == 0
			inner, ok := gaNotInner(x, name, aim)
			if !ok {
				continue
			}
			if aimSet && !inner.verdict && tries < 20 { // prefer matchers that hold on this connection
				continue
			}
			set[inner.name] = inner.cfg
			and = and && inner.verdict
			if name == "not" {
				nested = true
			}
		}
		if len(set) == 0 {
			emptySet = true
		}
		if len(set) > maxSize {
			maxSize = len(set)
		}
		sets = append(sets, set)
		or = or || and
	}
	cs.Want = !or
	if sets == nil {
		sets = []map[string]json.RawMessage{}
	}
	cs.Config = gaJSON(sets)
	cs.Input = x.in
	cs.UDP = x.udp
	port := int(gaPort(r))
	cs.Remote, cs.Local = gaHostPort(x.remote, port), gaHostPort(x.local, int(gaPort(r)))
	cs.WrapTime = time.Unix(x.unix, r.Int63n(1000000000)).UTC().Format(time.RFC3339Nano)
	switch {
	case nsets == 0:
		cs.Class = "boundary:no-sets"
	case emptySet:
		cs.Class = fmt.Sprintf("boundary:empty-set:sets=%d", nsets)
	default:
		cs.Class = fmt.Sprintf("or-of-and:sets=%d:max-set-size=%d", nsets, maxSize)
	}
	if nested {
		cs.Class += ":nested"
	}
	cs.Note = "message kind " + x.kind
	return cs
}

func init() {
	RegisterTarget(&Target{Name: "not", Gen: genNot, Quick: 2000, Thorough: 150000})
}
