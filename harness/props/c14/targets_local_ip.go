package c14

import "math/rand"

// local_ip: same reference and generator as remote_ip (targets_remote_ip.go), applied to the connection's local
// address (Case.Local); the remote address is the distractor.
func init() {
	RegisterTarget(&Target{Name: "local_ip", Gen: func(r *rand.Rand, i int) Case { return gaGenIP(r, false) }, Quick: 2000, Thorough: 150000})
}
