package c14

import (
	"fmt"
	"math/rand"
)

// Reference (RFC 4253 section 4.2): the client's first message is the identification string
// "SSH-protoversion-softwareversion SP comments CR LF"; the module documents that it looks at the first 4 bytes.
// A stream matches iff it has at least 4 bytes and they are "SSH-".
func gaRefSSH(in []byte) bool {
	return len(in) >= 4 && in[0] == 'S' && in[1] == 'S' && in[2] == 'H' && in[3] == '-'
}

func gaSSHBanner(r *rand.Rand) []byte {
	proto := []string{"2.0", "1.99", "1.5", "2.0", "2.0"}[r.Intn(5)]
	sw := []string{"OpenSSH_9.6", "OpenSSH_for_Windows_8.1", "dropbear_2022.83", "libssh2_1.11.0", "PuTTY_Release_0.80", "Go", "x"}[r.Intn(7)]
	if r.Intn(4) == 0 {
		sw = string(gaPrintable(r, 1+r.Intn(40)))
	}
	s := fmt.Sprintf("SSH-%s-%s", proto, sw)
	if r.Intn(3) == 0 {
		s += " " + string(gaPrintable(r, 1+r.Intn(20)))
	}
	if r.Intn(8) == 0 {
		s += "\n"
	} else {
		s += "\r\n"
	}
	b := []byte(s)
	if r.Intn(3) == 0 { // the KEXINIT packet may follow in the same segment
		b = append(b, gaBytes(r, 8+r.Intn(200))...)
	}
	return b
}

func genSSH(r *rand.Rand, i int) Case {
	cs := Case{Matcher: "ssh", Config: "{}"}
	switch k := r.Intn(100); {
	case k < 30:
		cs.Input, cs.Class = gaSSHBanner(r), "valid"
	case k < 40: // "SSH-" followed by arbitrary bytes over the full range
		cs.Input, cs.Class = append([]byte("SSH-"), gaBytes(r, 1+r.Intn(64))...), "valid:prefix+random"
	case k < 72: // one byte of the prefix replaced by any of the 255 other values
		b := gaSSHBanner(r)
		pos := r.Intn(4)
		b[pos] = gaOtherByte(r, b[pos])
		cs.Input, cs.Class = b, fmt.Sprintf("corrupt:prefix[%d]", pos)
	case k < 76: // letter case / look-alikes
		b := gaSSHBanner(r)
		copy(b, [][]byte{[]byte("ssh-"), []byte("Ssh-"), []byte("SSH_"), []byte("SSH2"), []byte("SSh-"), []byte("sSH-")}[r.Intn(6)])
		cs.Input, cs.Class = b, "corrupt:prefix-case"
	case k < 80: // something in front of the identification string (only a server may send lines before it)
		pre := [][]byte{[]byte(" "), []byte("\r\n"), []byte("\n"), {0}, []byte("Welcome\r\n"), []byte("S"), []byte("SS"), []byte("SSH")}[r.Intn(8)]
		cs.Input, cs.Class = append(append([]byte(nil), pre...), gaSSHBanner(r)...), "corrupt:leading-bytes"
	case k < 84:
		cs.Input, cs.Class = []byte("SSH-"), "boundary:exactly-4-bytes"
	case k < 90: // fewer than 4 bytes: cannot be decided as SSH
		cs.Input, cs.Class = []byte("SSH-")[:r.Intn(4)], "boundary:short"
	case k < 94: // other protocols' first messages
		other := [][]byte{[]byte("GET / HTTP/1.1\r\nHost: x\r\n\r\n"), {0x16, 0x03, 0x01, 0x00, 0x05, 1, 0, 0, 1, 0}, []byte("PROXY TCP4 1.2.3.4 5.6.7.8 1 2\r\n"),
			{5, 1, 0}, {4, 1, 0, 80, 1, 2, 3, 4, 0}, []byte("HSS-2.0-x\r\n"), []byte("-HSS2.0-x\r\n")}
		cs.Input, cs.Class = other[r.Intn(len(other))], "other-protocol"
	default: // arbitrary bytes, 4..40 of them, over a small alphabet so that near misses occur
		al := []byte("SH-sh_2")
		b := make([]byte, 4+r.Intn(36))
		for j := range b {
			b[j] = al[r.Intn(len(al))]
		}
		cs.Input, cs.Class = b, "random:small-alphabet"
	}
	cs.Want = gaRefSSH(cs.Input)
	return cs
}

func init() {
	RegisterTarget(&Target{Name: "ssh", Gen: genSSH, Quick: 2000, Thorough: 150000})
}
