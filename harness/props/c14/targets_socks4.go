package c14

import (
	"math/rand"
)

// Reference (https://www.openssh.com/txt/socks4.protocol and the module's documentation):
//
//	VN(1)=4  CD(1)  DSTPORT(2, network order)  DSTIP(4)  USERID(variable)  NULL(1)   [SOCKS4a: hostname NULL]
//
// "By default, CONNECT & BIND commands are matched with any destination ip and port"; commands / ports / networks
// restrict the match to requests with one of these commands / destination ports / destination networks.
type gaSocks4Cfg struct {
	Commands []string `json:"commands,omitempty"`
	Networks []string `json:"networks,omitempty"`
	Ports    []uint16 `json:"ports,omitempty"`

	nets []gaPrefix
}

func (c *gaSocks4Cfg) commandAllowed(cd byte) bool {
	if len(c.Commands) == 0 {
		return cd == 1 || cd == 2
	}
	for _, s := range c.Commands {
		if (s == "CONNECT" && cd == 1) || (s == "BIND" && cd == 2) {
			return true
		}
	}
	return false
}

func gaRefSocks4(c *gaSocks4Cfg, in []byte) (want bool, abstain string) {
	if len(in) < 8 {
		return false, ""
	}
	if in[0] != 4 {
		return false, ""
	}
	if !c.commandAllowed(in[1]) {
		return false, ""
	}
	if len(c.Ports) > 0 {
		port := uint16(in[2])<<8 | uint16(in[3])
		ok := false
		for _, p := range c.Ports {
			ok = ok || p == port
		}
		if !ok {
			return false, ""
		}
	}
	if len(c.nets) > 0 {
		in4, abst := gaMatchAny(c.nets, in[4:8])
		if abst != "" {
			return false, abst
		}
		if !in4 {
			return false, ""
		}
	}
	return true, ""
}

func gaSocks4Config(r *rand.Rand) *gaSocks4Cfg {
	c := &gaSocks4Cfg{}
	switch r.Intn(6) {
	case 0:
		c.Commands = []string{"CONNECT"}
	case 1:
		c.Commands = []string{"BIND"}
	case 2:
		c.Commands = [][]string{{"CONNECT", "BIND"}, {"BIND", "CONNECT"}, {"CONNECT", "CONNECT"}}[r.Intn(3)]
	}
	if r.Intn(2) == 0 {
		for j, n := 0, 1+r.Intn(4); j < n; j++ {
			c.Ports = append(c.Ports, gaPort(r))
		}
	}
	if r.Intn(2) == 0 {
		for j, n := 0, 1+r.Intn(3); j < n; j++ {
			p := gaRandPrefix(r, false)
			if p.bits == 0 && r.Intn(4) != 0 {
				p.bits = 8 + r.Intn(25)
			}
			c.nets = append(c.nets, p)
		}
		if r.Intn(6) == 0 { // an IPv6 network in the list can never contain a SOCKS4 (IPv4) destination
			c.nets = append(c.nets, gaRandPrefix(r, true))
		}
		c.Networks = gaPrefixStrings(c.nets)
	}
	return c
}

// gaSocks4Msg builds a complete request.
func gaSocks4Msg(r *rand.Rand, vn, cd byte, port uint16, ip []byte) []byte {
	b := []byte{vn, cd, byte(port >> 8), byte(port), ip[0], ip[1], ip[2], ip[3]}
	switch r.Intn(3) {
	case 0: // empty user id
	case 1:
		b = append(b, []byte([]string{"root", "anonymous", "u", "nobody"}[r.Intn(4)])...)
	default:
		for j, n := 0, 1+r.Intn(16); j < n; j++ {
			b = append(b, byte(1+r.Intn(255)))
		}
	}
	b = append(b, 0)
	if ip[0] == 0 && ip[1] == 0 && ip[2] == 0 && ip[3] != 0 { // SOCKS4a: the host name follows
		b = append(b, []byte([]string{"example.com", "a.b", "host.internal.example.org"}[r.Intn(3)])...)
		b = append(b, 0)
	}
	return b
}

func genSocks4(r *rand.Rand, i int) Case {
	cs := Case{Matcher: "socks4"}
	c := gaSocks4Config(r)
	cs.Config = gaJSON(c)

	// a request that satisfies the configuration
	cd := byte(1 + r.Intn(2))
	for !c.commandAllowed(cd) {
		cd = 3 - cd
	}
	port := gaPort(r)
	if len(c.Ports) > 0 {
		port = c.Ports[r.Intn(len(c.Ports))]
	}
	ip := gaBytes(r, 4)
	if ip[0] == 0 {
		ip[0] = 10
	}
	var v4nets []gaPrefix
	for _, p := range c.nets {
		if len(p.addr) == 4 {
			v4nets = append(v4nets, p)
		}
	}
	if len(c.nets) > 0 {
		ip = gaInside(r, v4nets[r.Intn(len(v4nets))])
	}
	outsideAll := func() ([]byte, bool) { // an address outside every configured network
		for try := 0; try < 20; try++ {
			p := v4nets[r.Intn(len(v4nets))]
			if p.bits == 0 {
				continue
			}
			a := gaOutside(r, p)
			if in, abst := gaMatchAny(c.nets, a); !in && abst == "" {
				return a, true
			}
		}
		return nil, false
	}

	switch k := r.Intn(100); {
	case k < 40:
		cs.Input, cs.Class = gaSocks4Msg(r, 4, cd, port, ip), "valid"
	case k < 52: // VN: all 255 other values (5 = SOCKS5 among them)
		cs.Input, cs.Class = gaSocks4Msg(r, gaOtherByte(r, 4), cd, port, ip), "corrupt:vn"
	case k < 62: // CD: any value that is not an allowed command (0, 3..255, and the other command if only one is configured)
		bad := byte(r.Intn(256))
		for c.commandAllowed(bad) {
			bad = byte(r.Intn(256))
		}
		if len(c.Commands) == 1 && r.Intn(2) == 0 {
			bad = 3 - cd
			if c.commandAllowed(bad) {
				bad = 0
			}
		}
		cs.Input, cs.Class = gaSocks4Msg(r, 4, bad, port, ip), "corrupt:cd"
		if bad == 1 || bad == 2 {
			cs.Class = "filter:command:out"
		}
	case k < 72: // DSTPORT not among the configured ports
		if len(c.Ports) == 0 {
			cs.Input, cs.Class = gaSocks4Msg(r, 4, cd, gaPort(r), ip), "valid:any-port"
			break
		}
		bad := port
		switch r.Intn(4) {
		case 0:
			bad = port + 1
		case 1:
			bad = port - 1
		case 2:
			bad = port>>8 | port<<8 // byte order mixed up
		default:
			bad = gaPort(r)
		}
		cs.Input, cs.Class = gaSocks4Msg(r, 4, cd, bad, ip), "filter:port:out"
		// (if bad happens to be configured as well, the reference says match: the class name then is "filter:port:in")
		for _, p := range c.Ports {
			if p == bad {
				cs.Class = "filter:port:in"
			}
		}
	case k < 82: // DSTIP outside the configured networks
		if len(c.nets) == 0 {
			cs.Input, cs.Class = gaSocks4Msg(r, 4, cd, port, gaBytes(r, 4)), "valid:any-network"
			break
		}
		if a, ok := outsideAll(); ok {
			cs.Input, cs.Class = gaSocks4Msg(r, 4, cd, port, a), "filter:network:out"
		} else {
			cs.Input, cs.Class = gaSocks4Msg(r, 4, cd, port, ip), "filter:network:in"
		}
	case k < 88: // SOCKS4a: DSTIP 0.0.0.x, x != 0, the host name follows the user id
		a := []byte{0, 0, 0, byte(1 + r.Intn(255))}
		cs.Input, cs.Class = gaSocks4Msg(r, 4, cd, port, a), "boundary:socks4a"
		if len(c.nets) > 0 {
			cs.Class = "boundary:socks4a+networks"
		}
	case k < 92: // first / last address of a configured network, boundary ports
		if len(v4nets) > 0 {
			p := v4nets[r.Intn(len(v4nets))]
			a := append([]byte(nil), p.addr...)
			gaMaskHost(a, p.bits)
			if r.Intn(2) == 0 {
				for j := p.bits; j < 32; j++ {
					a[j/8] |= 1 << (7 - uint(j%8))
				}
			}
			ip = a
		}
		cs.Input, cs.Class = gaSocks4Msg(r, 4, cd, port, ip), "boundary:network-edge"
	case k < 95: // header only: the USERID terminator never arrives in this message
		cs.Input, cs.Class = gaSocks4Msg(r, 4, cd, port, ip)[:8], "boundary:header-only"
		cs.Abstain = "request without the USERID NULL terminator is incomplete per the protocol, the module documents that it decides on the 8-byte header"
	case k < 98: // fewer than 8 bytes
		cs.Input, cs.Class = gaSocks4Msg(r, 4, cd, port, ip)[:r.Intn(8)], "boundary:short"
	default: // 0.0.0.0 destination
		cs.Input, cs.Class = gaSocks4Msg(r, 4, cd, port, []byte{0, 0, 0, 0}), "boundary:dstip-zero"
	}
	if cs.Abstain == "" {
		cs.Want, cs.Abstain = gaRefSocks4(c, cs.Input)
	}
	return cs
}

func init() {
	RegisterTarget(&Target{Name: "socks4", Gen: genSocks4, Quick: 2000, Thorough: 150000})
}
