package c14

import (
	"math/rand"
	"regexp"
	"strings"
	"sync"
)

// Reference (module documentation): "match any connections with regular expressions"; Pattern is an RE2 regular
// expression, Count the number of bytes that are read and matched ("by default, read this many bytes to match
// against": 4). A stream matches iff it has at least Count bytes and the pattern matches the first Count bytes.
// Go's regexp package is the definition of the RE2 dialect here, so it is the reference on input[:count].
type gaRegexpCfg struct {
	Count   uint16 `json:"count,omitempty"`
	Pattern string `json:"pattern,omitempty"`
}

var (
	gaReMu    sync.Mutex
	gaReCache = map[string]*regexp.Regexp{}
)

func gaRefRegexp(c *gaRegexpCfg, in []byte) bool {
	n := int(c.Count)
	if n == 0 {
		n = 4
	}
	if len(in) < n {
		return false
	}
	gaReMu.Lock()
	re := gaReCache[c.Pattern]
	if re == nil {
		re = regexp.MustCompile(c.Pattern)
		gaReCache[c.Pattern] = re
	}
	gaReMu.Unlock()
	return re.Match(in[:n])
}

// one pattern with a way to produce a hit of exactly n bytes (nil if impossible for that n) and near misses
type gaRePat struct {
	pat  string
	hit  func(r *rand.Rand, n int) []byte
	miss func(r *rand.Rand, n int) []byte
	min  int // smallest n for which hit works
}

func gaFill(r *rand.Rand, n int, alphabet string) []byte {
	b := make([]byte, n)
	for i := range b {
		b[i] = alphabet[r.Intn(len(alphabet))]
	}
	return b
}

func gaPutAt(b []byte, off int, s string) []byte {
	copy(b[off:], s)
	return b
}

var gaRePats = []gaRePat{
	{pat: `^GET `, min: 4,
		hit: func(r *rand.Rand, n int) []byte { return gaPutAt(gaFill(r, n, "abc /"), 0, "GET ") },
		miss: func(r *rand.Rand, n int) []byte {
			return gaPutAt(gaFill(r, n, "abc /"), 0, []string{"GET\t", "get ", " GET", "PUT ", "GE T"}[r.Intn(5)])
		}},
	{pat: `^(GET|POST|PUT|HEAD) `, min: 5,
		hit: func(r *rand.Rand, n int) []byte {
			return gaPutAt(gaFill(r, n, "xyz/"), 0, []string{"GET ", "POST ", "PUT ", "HEAD "}[r.Intn(4)])
		},
		miss: func(r *rand.Rand, n int) []byte {
			return gaPutAt(gaFill(r, n, "xyz/"), 0, []string{"GETX", "POS T", "PATCH ", "HEAD\n", "xGET "}[r.Intn(5)])
		}},
	{pat: `^SSH-[12]\.[0-9]+-`, min: 9,
		hit: func(r *rand.Rand, n int) []byte {
			return gaPutAt(gaFill(r, n, "OpenSSH_9."), 0, []string{"SSH-2.0-", "SSH-1.99-", "SSH-1.5-"}[r.Intn(3)])
		},
		miss: func(r *rand.Rand, n int) []byte {
			return gaPutAt(gaFill(r, n, "OpenSSH_9"), 0, []string{"SSH-3.0-", "SSH-2.x-", "SSH-2.0_", "ssh-2.0-", "SSH-2-0-"}[r.Intn(5)])
		}},
	{pat: `^\x16\x03[\x00-\x04]`, min: 3,
		hit: func(r *rand.Rand, n int) []byte { return append([]byte{0x16, 3, byte(r.Intn(5))}, gaBytes(r, n-3)...) },
		miss: func(r *rand.Rand, n int) []byte {
			return append([]byte{0x16, 3, byte(5 + r.Intn(120))}, gaBytes(r, n-3)...)
		}},
	{pat: `^[[:alpha:]]+$`, min: 1,
		hit: func(r *rand.Rand, n int) []byte { return gaFill(r, n, "abcXYZ") },
		miss: func(r *rand.Rand, n int) []byte {
			return gaPutAt(gaFill(r, n, "abcXYZ"), r.Intn(n), []string{"1", " ", "_", "\x00"}[r.Intn(4)])
		}},
	{pat: `^\d+\r\n$`, min: 3,
		hit:  func(r *rand.Rand, n int) []byte { return append(gaFill(r, n-2, "0123456789"), '\r', '\n') },
		miss: func(r *rand.Rand, n int) []byte { return append(gaFill(r, n-2, "0123456789"), '\n', '\r') }},
	{pat: `hello`, min: 5, // unanchored: anywhere inside the first count bytes
		hit: func(r *rand.Rand, n int) []byte { return gaPutAt(gaFill(r, n, "xyzHELO "), r.Intn(n-4), "hello") },
		miss: func(r *rand.Rand, n int) []byte {
			return gaPutAt(gaFill(r, n, "xyzHELO "), r.Intn(n-4), []string{"hellO", "helo ", "hell0"}[r.Intn(3)])
		}},
	{pat: `(?i)^user\s`, min: 5,
		hit: func(r *rand.Rand, n int) []byte {
			return gaPutAt(gaFill(r, n, "anonymous"), 0, []string{"USER ", "user\t", "UsEr\n", "uSER\r"}[r.Intn(4)])
		},
		miss: func(r *rand.Rand, n int) []byte {
			return gaPutAt(gaFill(r, n, "anonymous"), 0, []string{"USERS", "USE R", "PASS "}[r.Intn(3)])
		}},
	{pat: `^....$`, min: 4, // exactly four characters other than newline
		hit:  func(r *rand.Rand, n int) []byte { return gaFill(r, 4, "abcd\x00\xff ") },
		miss: func(r *rand.Rand, n int) []byte { return gaPutAt(gaFill(r, 4, "abcd"), r.Intn(4), "\n") }},
	{pat: `(?s)^.*\z`, min: 1, // anything, newlines included
		hit:  func(r *rand.Rand, n int) []byte { return gaBytes(r, n) },
		miss: nil},
	{pat: ``, min: 1, // the empty pattern matches everything
		hit:  func(r *rand.Rand, n int) []byte { return gaBytes(r, n) },
		miss: nil},
	{pat: `^[\x21-\x7e]+$`, min: 1, // printable ASCII only
		hit: func(r *rand.Rand, n int) []byte { return gaPrintable(r, n) },
		miss: func(r *rand.Rand, n int) []byte {
			b := gaPrintable(r, n)
			b[r.Intn(n)] = byte([]int{0, 0x1f, 0x7f, 0x80, 0xff, '\n'}[r.Intn(6)])
			return b
		}},
	{pat: `^(a|bc)*d$`, min: 1,
		hit: func(r *rand.Rand, n int) []byte {
			var b []byte
			for len(b) < n-1 {
				if n-1-len(b) >= 2 && r.Intn(2) == 0 {
					b = append(b, 'b', 'c')
				} else {
					b = append(b, 'a')
				}
			}
			return append(b, 'd')
		},
		miss: func(r *rand.Rand, n int) []byte { return append(gaFill(r, n-1, "abc"), []byte("dcx")[r.Intn(3)]) }},
	{pat: `\bQUIT\b`, min: 6,
		hit:  func(r *rand.Rand, n int) []byte { return gaPutAt(gaFill(r, n, " \r\n."), r.Intn(n-5)+1, "QUIT") },
		miss: func(r *rand.Rand, n int) []byte { return gaPutAt(gaFill(r, n, "ab"), r.Intn(n-5)+1, "QUIT") }},
	{pat: `^\x00\x00\x00[\x08-\xff]`, min: 4, // code points: [\x08-\xff] matches bytes 08..7f and the 2-byte UTF-8 forms of U+0080..U+00FF
		hit: func(r *rand.Rand, n int) []byte {
			return append([]byte{0, 0, 0, byte(8 + r.Intn(0x78))}, gaBytes(r, n-4)...)
		},
		miss: func(r *rand.Rand, n int) []byte { return append([]byte{0, 0, 0, byte(r.Intn(8))}, gaBytes(r, n-4)...) }},
}

// patterns using a counted repetition: RE2 syntax x{n,m}
var gaReBracePats = []gaRePat{
	{pat: `^x{3}$`, min: 3, hit: func(r *rand.Rand, n int) []byte { return []byte("xxx") }},
	{pat: `^[0-9]{2,4}-`, min: 5, hit: func(r *rand.Rand, n int) []byte {
		return gaPutAt(gaFill(r, n, "ab"), 0, []string{"12-", "123-", "1234-"}[r.Intn(3)])
	}},
	{pat: `^\x16\x03.{2}\x01`, min: 5, hit: func(r *rand.Rand, n int) []byte { return gaPutAt(gaFill(r, n, "ab"), 0, "\x16\x03AB\x01") }},
}

func genRegexp(r *rand.Rand, i int) Case {
	cs := Case{Matcher: "regexp"}
	p := gaRePats[r.Intn(len(gaRePats))]
	c := &gaRegexpCfg{Pattern: p.pat}
	// count: explicit (1..64, sometimes large) or the default (0 => 4)
	pickCount := func() int {
		switch r.Intn(8) {
		case 0:
			return p.min
		case 1:
			return p.min + r.Intn(4)
		case 2:
			return []int{255, 256, 1024, 4096, 8192}[r.Intn(5)]
		case 3:
			if r.Intn(20) == 0 {
				return 65535
			}
		}
		return p.min + r.Intn(60)
	}
	n := pickCount()
	useDefault := p.min <= 4 && r.Intn(4) == 0
	if p.pat == `^....$` {
		n = 4
		useDefault = r.Intn(2) == 0
	}
	if useDefault {
		n = 4
	} else {
		c.Count = uint16(n)
	}
	tail := func(b []byte) []byte { // bytes beyond count belong to the message but not to the matched window
		if r.Intn(2) == 0 {
			return append(b, gaBytes(r, 1+r.Intn(32))...)
		}
		return b
	}
	switch k := r.Intn(100); {
	case k < 40:
		cs.Input, cs.Class = tail(p.hit(r, n)), "valid"
	case k < 62:
		if p.miss == nil {
			cs.Input, cs.Class = tail(p.hit(r, n)), "valid:match-all-pattern"
			break
		}
		cs.Input, cs.Class = tail(p.miss(r, n)), "corrupt:near-miss"
	case k < 72: // the window holds a miss, the bytes right after the window would make a hit
		if p.miss == nil {
			cs.Input, cs.Class = tail(p.hit(r, n)), "valid:match-all-pattern"
			break
		}
		cs.Input, cs.Class = append(p.miss(r, n), p.hit(r, n)...), "window:hit-only-beyond-count"
	case k < 80: // fewer bytes than count, although the pattern would match them (when it can)
		b := p.hit(r, n)
		if p.min < n {
			b = p.hit(r, p.min+r.Intn(n-p.min))
		} else {
			b = b[:len(b)-1]
		}
		cs.Input, cs.Class = b, "corrupt:shorter-than-count"
	case k < 85: // count cuts an anchored-at-end hit: a hit of n+1 bytes, of which only n are looked at
		b := p.hit(r, n+1)
		cs.Input, cs.Class = b, "window:cut-by-count"
	case k < 90: // exactly count bytes
		cs.Input, cs.Class = p.hit(r, n), "boundary:exactly-count"
	case k < 93: // counted repetition in the pattern
		bp := gaReBracePats[r.Intn(len(gaReBracePats))]
		c = &gaRegexpCfg{Pattern: bp.pat, Count: uint16(bp.min)}
		cs.Input, cs.Class = bp.hit(r, bp.min), "valid:counted-repetition"
		// The README documents that regular-expression options support placeholders evaluated at provision,
		// so "{3}" in a pattern is read as a placeholder (and must be written "\\{3\\}" to be a repetition).
		// That makes the unescaped form outside what the documentation defines: abstain.
		cs.Abstain = "unescaped {n} in a pattern is a placeholder per README (documented placeholder support in regexp options)"
	case k < 96: // arbitrary bytes
		cs.Input, cs.Class = gaBytes(r, n+r.Intn(8)), "random"
	case k < 98: // count = 1
		c.Count = 1
		cs.Input, cs.Class = tail(p.hit(r, n)), "boundary:count=1"
	default:
		cs.Input, cs.Class = nil, "boundary:empty"
	}
	cs.Config = gaJSON(c)
	cs.Want = gaRefRegexp(c, cs.Input)
	// the class names say what the generator aimed at; where the aim was missed the name says so
	if aimedHit := strings.HasPrefix(cs.Class, "valid") || cs.Class == "boundary:exactly-count"; aimedHit && !cs.Want {
		cs.Class += ":not-a-hit"
	} else if (cs.Class == "corrupt:near-miss" || cs.Class == "window:hit-only-beyond-count") && cs.Want {
		cs.Class += ":still-a-hit"
	}
	return cs
}

func init() {
	RegisterTarget(&Target{Name: "regexp", Gen: genRegexp, Quick: 2000, Thorough: 150000})
}
