package c14

import (
	"math/rand"
)

// Reference (RFC 1928 section 3 and the module's documentation): the client's first message is
//
//	VER(1)=5  NMETHODS(1)  METHODS(1 to 255 octets; NMETHODS of them)
//
// "use AuthMethods to exactly specify which METHODS you expect your clients to send. By default, only the most
// common methods are matched NO AUTH, GSSAPI & USERNAME/PASSWORD" (0, 1, 2): every offered method must be one of the
// configured ones.
type gaSocks5Cfg struct {
	AuthMethods []uint16 `json:"auth_methods,omitempty"`
}

func (c *gaSocks5Cfg) allowed(m byte) bool {
	if len(c.AuthMethods) == 0 {
		return m <= 2
	}
	for _, a := range c.AuthMethods {
		if a == uint16(m) {
			return true
		}
	}
	return false
}

func gaRefSocks5(c *gaSocks5Cfg, in []byte) bool {
	if len(in) < 2 || in[0] != 5 {
		return false
	}
	n := int(in[1])
	if n < 1 { // METHODS is "1 to 255" octets long
		return false
	}
	if len(in) < 2+n {
		return false
	}
	for _, m := range in[2 : 2+n] {
		if !c.allowed(m) {
			return false
		}
	}
	return true
}

func gaSocks5Config(r *rand.Rand) *gaSocks5Cfg {
	c := &gaSocks5Cfg{}
	switch r.Intn(8) {
	case 0, 1, 2: // defaults
	case 3:
		c.AuthMethods = []uint16{uint16(r.Intn(256))}
	case 4:
		c.AuthMethods = [][]uint16{{0}, {2}, {0, 2}, {0, 1, 2}, {255}, {0, 255}, {0x80, 0xfe}}[r.Intn(7)]
	case 5: // every method
		for m := 0; m < 256; m++ {
			c.AuthMethods = append(c.AuthMethods, uint16(m))
		}
	case 6: // every method but one
		skip := r.Intn(256)
		for m := 0; m < 256; m++ {
			if m != skip {
				c.AuthMethods = append(c.AuthMethods, uint16(m))
			}
		}
	default:
		for j, n := 0, 1+r.Intn(6); j < n; j++ {
			c.AuthMethods = append(c.AuthMethods, uint16(r.Intn(256)))
		}
	}
	return c
}

func genSocks5(r *rand.Rand, i int) Case {
	cs := Case{Matcher: "socks5"}
	c := gaSocks5Config(r)
	cs.Config = gaJSON(c)
	var good, bad []byte
	for m := 0; m < 256; m++ {
		if c.allowed(byte(m)) {
			good = append(good, byte(m))
		} else {
			bad = append(bad, byte(m))
		}
	}
	nm := func() int { // NMETHODS over 1..255 with emphasis on small values and the maximum
		switch r.Intn(6) {
		case 0:
			return 1
		case 1:
			return 255
		case 2:
			return 1 + r.Intn(255)
		}
		return 1 + r.Intn(4)
	}
	greeting := func(ver byte, n int) []byte {
		b := []byte{ver, byte(n)}
		for j := 0; j < n; j++ {
			b = append(b, good[r.Intn(len(good))])
		}
		return b
	}
	switch k := r.Intn(100); {
	case k < 40:
		cs.Input, cs.Class = greeting(5, nm()), "valid"
	case k < 55: // VER: all 255 other values
		cs.Input, cs.Class = greeting(gaOtherByte(r, 5), nm()), "corrupt:ver"
	case k < 75: // one offered method is not configured: first, last or any position
		if len(bad) == 0 {
			cs.Input, cs.Class = greeting(5, nm()), "valid:all-methods-configured"
			break
		}
		b := greeting(5, nm())
		n := int(b[1])
		pos := []int{0, n - 1, r.Intn(n)}[r.Intn(3)]
		b[2+pos] = bad[r.Intn(len(bad))]
		cs.Input, cs.Class = b, "filter:method:out"
	case k < 80: // NMETHODS = 0: no method offered at all
		cs.Input, cs.Class = []byte{5, 0}, "corrupt:nmethods=0"
		if r.Intn(2) == 0 {
			cs.Input = append(cs.Input, gaBytes(r, 1+r.Intn(8))...)
		}
	case k < 86: // fewer method octets than announced
		b := greeting(5, 2+r.Intn(254))
		cs.Input, cs.Class = b[:2+r.Intn(int(b[1]))], "corrupt:truncated-methods"
	case k < 90: // more bytes of the stream follow the greeting; they are not methods
		b := greeting(5, nm())
		tail := gaBytes(r, 1+r.Intn(16))
		if len(bad) > 0 {
			tail[0] = bad[r.Intn(len(bad))]
		}
		cs.Input, cs.Class = append(b, tail...), "boundary:valid+trailing-stream"
	case k < 94: // the maximum: 255 methods
		cs.Input, cs.Class = greeting(5, 255), "boundary:nmethods=255"
	case k < 97: // one or zero bytes
		cs.Input, cs.Class = []byte{5}[:r.Intn(2)], "boundary:short"
	default: // the same method many times
		b := greeting(5, 2+r.Intn(30))
		for j := 3; j < len(b); j++ {
			b[j] = b[2]
		}
		cs.Input, cs.Class = b, "boundary:duplicate-methods"
	}
	cs.Want = gaRefSocks5(c, cs.Input)
	return cs
}

func init() {
	RegisterTarget(&Target{Name: "socks5", Gen: genSocks5, Quick: 2000, Thorough: 150000})
}
