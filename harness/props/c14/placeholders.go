package c14

import (
	"bytes"
	"crypto/sha256"
	"encoding/hex"
	"encoding/json"
	"os"
	"strings"
)

// Options that the matchers document as accepting placeholders may be given as {env.NAME} instead of a literal: the
// matcher then has to behave exactly as with the literal. placeholderise rewrites the string options listed below into
// environment placeholders (the variables are set in this process) and leaves everything else as it was. Some of these
// options are expanded when the matcher is provisioned, others (winbox username, rdp cookie_hash / custom_info, dns
// name / type / class) only while a connection is matched, with the connection's own replacer.
var placeholderOptions = map[string][]string{
	"winbox":    {"username", "username_regexp"},
	"rdp":       {"cookie_hash", "cookie_hash_regexp", "custom_info", "custom_info_regexp"},
	"regexp":    {"pattern"},
	"openvpn":   {"auth_digest", "group_key_direction", "group_key", "server_key"},
	"remote_ip": {"ranges[]"},
	"local_ip":  {"ranges[]"},
	"dns": {"allow[].name", "allow[].type", "allow[].class", "allow[].name_regexp", "allow[].type_regexp", "allow[].class_regexp",
		"deny[].name", "deny[].type", "deny[].class", "deny[].name_regexp", "deny[].type_regexp", "deny[].class_regexp"},
}

func envFor(v string) (string, bool) {
	if v == "" || strings.ContainsAny(v, "{}\x00") {
		return "", false
	}
	h := sha256.Sum256([]byte(v))
	name := "VERIF_C14_" + strings.ToUpper(hex.EncodeToString(h[:8]))
	if os.Setenv(name, v) != nil {
		return "", false
	}
	return "{env." + name + "}", true
}

// placeholderise returns the rewritten configuration and the variables it relies on (nil if nothing was rewritten).
func placeholderise(matcher, cfg string) (string, map[string]string) {
	paths := placeholderOptions[matcher]
	if len(paths) == 0 {
		return cfg, nil
	}
	dec := json.NewDecoder(bytes.NewReader([]byte(cfg)))
	dec.UseNumber()
	var root map[string]any
	if dec.Decode(&root) != nil || root == nil {
		return cfg, nil
	}
	env := map[string]string{}
	sub := func(v any) (any, bool) {
		s, ok := v.(string)
		if !ok {
			return v, false
		}
		p, ok := envFor(s)
		if !ok {
			return v, false
		}
		env[p[5:len(p)-1]] = s
		return p, true
	}
	for _, path := range paths {
		switch {
		case strings.HasSuffix(path, "[]"): // list of strings
			k := strings.TrimSuffix(path, "[]")
			if l, ok := root[k].([]any); ok {
				for i := range l {
					l[i], _ = sub(l[i])
				}
			}
		case strings.Contains(path, "[]."): // list of objects
			parts := strings.SplitN(path, "[].", 2)
			if l, ok := root[parts[0]].([]any); ok {
				for _, e := range l {
					if o, ok := e.(map[string]any); ok {
						if v, ok := o[parts[1]]; ok {
							o[parts[1]], _ = sub(v)
						}
					}
				}
			}
		default:
			if v, ok := root[path]; ok {
				root[path], _ = sub(v)
			}
		}
	}
	if len(env) == 0 {
		return cfg, nil
	}
	out, err := json.Marshal(root)
	if err != nil {
		return cfg, nil
	}
	return string(out), env
}

// rotating lists, per matcher, the string option that the rotation law gives as {env.NAME} and the value that the variable
// holds while an earlier instance is provisioned.
var rotating = map[string][2]string{
	"remote_ip": {"ranges[]", "203.0.113.77/32"},
	"local_ip":  {"ranges[]", "203.0.113.77/32"},
	"regexp":    {"pattern", "^\\x00never-matches$"},
	"winbox":    {"username", "nobody-at-all"},
	"rdp":       {"cookie_hash", "nobody-at-all"},
}

// placeholderiseFixed rewrites the matcher's rotating option (first entry of a list) into {env.<name>} and returns the
// literal it stood for and the earlier value to use ("" if the configuration has no such option).
func placeholderiseFixed(matcher, cfg, name string) (string, string, string) {
	rot, ok := rotating[matcher]
	if !ok {
		return cfg, "", ""
	}
	dec := json.NewDecoder(bytes.NewReader([]byte(cfg)))
	dec.UseNumber()
	var root map[string]any
	if dec.Decode(&root) != nil || root == nil {
		return cfg, "", ""
	}
	ph := "{env." + name + "}"
	var lit string
	if k := strings.TrimSuffix(rot[0], "[]"); k != rot[0] {
		l, ok := root[k].([]any)
		if !ok || len(l) == 0 {
			return cfg, "", ""
		}
		lit, _ = l[0].(string)
		l[0] = ph
	} else {
		lit, _ = root[k].(string)
		root[k] = ph
	}
	if lit == "" || strings.ContainsAny(lit, "{}\x00") || lit == "private_ranges" {
		return cfg, "", ""
	}
	out, err := json.Marshal(root)
	if err != nil {
		return cfg, "", ""
	}
	return string(out), lit, rot[1]
}
