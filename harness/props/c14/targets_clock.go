package c14

import (
	"fmt"
	"math/rand"
	"time"
)

// Reference (documentation of MatchClock): After is "the lowest valid time point", Before "the highest valid time
// point plus one second", both in 15:04:05 format; "00:00:00 is treated here as 24:00:00" for Before; "If Before is
// lower than After, their values are swapped"; the connection matches if "time_now is greater than or equal to
// time_after AND less than time_before", where time_now is the time of day of {l4.conn.wrap_time} in the configured
// time zone: an IANA location, "a fixed offset to the east of UTC (e.g. +02, -03:30, or even +12:34:56)", "Local",
// or UTC if empty.
//
// The reference works in seconds-of-day arithmetic on the Unix time; the UTC offsets of the IANA zones used are
// computed from their published rules (hand-written below for the years 2012..2035), not from the tz database.
type gaClockCfg struct {
	After    string `json:"after,omitempty"`
	Before   string `json:"before,omitempty"`
	Timezone string `json:"timezone,omitempty"`
}

func gaHMS(s int) string { return fmt.Sprintf("%02d:%02d:%02d", s/3600, s/60%60, s%60) }

func gaFloorMod(a, m int64) int64 { return ((a % m) + m) % m }

// days from civil (proleptic Gregorian) to days since 1970-01-01
func gaDaysFromCivil(y, m, d int) int64 {
	if m <= 2 {
		y--
	}
	era := y / 400
	if y < 0 {
		era = (y - 399) / 400
	}
	yoe := y - era*400
	mp := (m + 9) % 12
	doy := (153*mp+2)/5 + d - 1
	doe := yoe*365 + yoe/4 - yoe/100 + doy
	return int64(era)*146097 + int64(doe) - 719468
}

// weekday of a day number: 0 = Sunday (1970-01-01 was a Thursday)
func gaWeekday(days int64) int { return int(gaFloorMod(days+4, 7)) }

// first Sunday on or after y-m-d, as day number
func gaSundayOnOrAfter(y, m, d int) int64 {
	n := gaDaysFromCivil(y, m, d)
	return n + int64((7-gaWeekday(n))%7)
}

// last Sunday of month m (31- or 30-day months as given by last)
func gaLastSunday(y, m, last int) int64 {
	n := gaDaysFromCivil(y, m, last)
	return n - int64(gaWeekday(n))
}

func gaCivilYear(unix int64) int {
	// year of the UTC date of unix (civil-from-days)
	z := unix/86400 + 719468
	if unix < 0 && unix%86400 != 0 {
		z--
	}
	era := z / 146097
	if z < 0 {
		era = (z - 146096) / 146097
	}
	doe := z - era*146097
	yoe := (doe - doe/1460 + doe/36524 - doe/146096) / 365
	y := yoe + era*400
	doy := doe - (365*yoe + yoe/4 - yoe/100)
	mp := (5*doy + 2) / 153
	m := mp + 3
	if mp >= 10 {
		m = mp - 9
	}
	if m <= 2 {
		y++
	}
	return int(y)
}

type gaZone struct {
	name string
	std  int    // standard offset east of UTC, seconds
	dst  int    // offset while daylight saving time is in force
	rule string // "", "us", "eu", "lordhowe", "chatham"
}

var gaZones = []gaZone{
	{name: ""}, {name: "UTC"},
	{name: "Asia/Kolkata", std: 19800}, {name: "Asia/Kathmandu", std: 20700}, {name: "Asia/Tokyo", std: 32400},
	{name: "Pacific/Kiritimati", std: 14 * 3600}, {name: "Pacific/Pago_Pago", std: -11 * 3600}, {name: "America/Phoenix", std: -7 * 3600},
	{name: "America/St_Johns", std: -12600, dst: -9000, rule: "us"},
	{name: "America/New_York", std: -18000, dst: -14400, rule: "us"},
	{name: "America/Los_Angeles", std: -28800, dst: -25200, rule: "us"},
	{name: "Europe/Berlin", std: 3600, dst: 7200, rule: "eu"},
	{name: "Europe/London", std: 0, dst: 3600, rule: "eu"},
	{name: "Australia/Lord_Howe", std: 37800, dst: 39600, rule: "lordhowe"},
	{name: "Pacific/Chatham", std: 45900, dst: 49500, rule: "chatham"},
}

// transitions returns the instants (Unix seconds) at which DST starts and ends in year y.
func (z *gaZone) transitions(y int) (start, end int64) {
	switch z.rule {
	case "us": // second Sunday of March 02:00 local standard time .. first Sunday of November 02:00 local daylight time
		start = gaSundayOnOrAfter(y, 3, 8)*86400 + 7200 - int64(z.std)
		end = gaSundayOnOrAfter(y, 11, 1)*86400 + 7200 - int64(z.dst)
	case "eu": // last Sunday of March 01:00 UTC .. last Sunday of October 01:00 UTC
		start = gaLastSunday(y, 3, 31)*86400 + 3600
		end = gaLastSunday(y, 10, 31)*86400 + 3600
	case "lordhowe": // first Sunday of October 02:00 local standard time .. first Sunday of April 02:00 local daylight time
		start = gaSundayOnOrAfter(y, 10, 1)*86400 + 7200 - int64(z.std)
		end = gaSundayOnOrAfter(y, 4, 1)*86400 + 7200 - int64(z.dst)
	case "chatham": // last Sunday of September 02:45 local standard time .. first Sunday of April 03:45 local daylight time
		start = gaLastSunday(y, 9, 30)*86400 + 2*3600 + 45*60 - int64(z.std)
		end = gaSundayOnOrAfter(y, 4, 1)*86400 + 3*3600 + 45*60 - int64(z.dst)
	}
	return
}

func (z *gaZone) offset(unix int64) int {
	if z.rule == "" {
		return z.std
	}
	y := gaCivilYear(unix)
	start, end := z.transitions(y)
	if start < end { // northern hemisphere
		if unix >= start && unix < end {
			return z.dst
		}
		return z.std
	}
	if unix >= end && unix < start { // southern hemisphere: standard time in the middle of the year
		return z.std
	}
	return z.dst
}

// gaClockZone is what a case needs from the chosen time zone.
type gaClockZone struct {
	cfg    string
	offset func(unix int64) int
	lo, hi int     // range of years instants are drawn from
	trans  []int64 // interesting instants (DST transitions), may be empty
}

func gaPickZone(r *rand.Rand) gaClockZone {
	switch k := r.Intn(10); {
	case k < 3: // fixed offsets in the three documented notations
		sign, hh, mm, ss := 1, r.Intn(15), 0, 0
		if r.Intn(6) == 0 {
			hh = r.Intn(24)
		}
		if r.Intn(2) == 0 {
			sign = -1
		}
		var s string
		switch r.Intn(3) {
		case 0:
			s = fmt.Sprintf("%02d", hh)
		case 1:
			mm = []int{0, 30, 45, 15, r.Intn(60)}[r.Intn(5)]
			s = fmt.Sprintf("%02d:%02d", hh, mm)
		default:
			mm, ss = r.Intn(60), r.Intn(60)
			s = fmt.Sprintf("%02d:%02d:%02d", hh, mm, ss)
		}
		off := sign * (hh*3600 + mm*60 + ss)
		if sign > 0 {
			s = "+" + s
		} else {
			s = "-" + s
		}
		return gaClockZone{cfg: s, offset: func(int64) int { return off }, lo: 1972, hi: 2100}
	case k == 3 && r.Intn(3) == 0:
		return gaClockZone{cfg: "Local", lo: 2012, hi: 2035, offset: func(unix int64) int {
			_, off := time.Unix(unix, 0).In(time.Local).Zone() // the system's zone is by definition what the process sees
			return off
		}}
	}
	z := &gaZones[r.Intn(len(gaZones))]
	cz := gaClockZone{cfg: z.name, offset: z.offset, lo: 1996, hi: 2100}
	if z.rule != "" {
		cz.lo, cz.hi = 2012, 2035
		y := cz.lo + r.Intn(cz.hi-cz.lo+1)
		a, b := z.transitions(y)
		cz.trans = []int64{a, b}
	}
	return cz
}

func gaRefClock(after, before int, localSecond int) bool {
	a, b := after, before
	if b == 0 {
		b = 86400
	}
	if b < a {
		a, b = b, a
	}
	return localSecond >= a && localSecond < b
}

func genClock(r *rand.Rand, i int) Case {
	cs := Case{Matcher: "clock"}
	z := gaPickZone(r)

	// the window
	var after, before int
	shape := ""
	switch k := r.Intn(20); {
	case k < 9:
		after = r.Intn(86399)
		before = after + 1 + r.Intn(86399-after)
	case k < 12: // swapped at provision
		before = 1 + r.Intn(86398)
		after = before + 1 + r.Intn(86399-before)
		shape = ":swapped"
	case k < 14: // before 00:00:00 = end of day
		after, before = r.Intn(86400), 0
		shape = ":before=midnight"
	case k == 14: // empty window
		after = 1 + r.Intn(86399)
		before = after
		shape = ":equal"
	case k == 15: // all day
		after, before = 0, 0
		shape = ":all-day"
	case k == 16: // from midnight
		after, before = 0, 1+r.Intn(86399)
		shape = ":after=midnight"
	case k == 17: // one second wide
		after = r.Intn(86399)
		before = after + 1
		shape = ":one-second"
	case k == 18: // last second of the day excluded / included
		after, before = r.Intn(86399), 86399
		shape = ":before=23:59:59"
	default: // round hours
		after = 3600 * r.Intn(23)
		before = after + 3600*(1+r.Intn(23-after/3600))
	}
	a, b := after, before
	if b == 0 {
		b = 86400
	}
	if b < a {
		a, b = b, a
	}

	// the intended local time of day
	var s int
	switch k := r.Intn(100); {
	case k < 30 && b > a:
		s = a + r.Intn(b-a)
	case k < 36:
		s = a
	case k < 42 && b > a:
		s = b - 1
	case k < 52:
		s = b % 86400 // first second after the window (or 00:00:00 if the window ends with the day)
	case k < 60:
		s = (a + 86399) % 86400 // last second before the window (or 23:59:59)
	case k < 75 && a > 0:
		s = r.Intn(a)
	case k < 90 && b < 86400:
		s = b + r.Intn(86400-b)
	case k < 94:
		s = []int{0, 86399, 1, 43200}[r.Intn(4)]
	default:
		s = r.Intn(86400)
	}

	// the date: any day of the zone's year range, or the neighbourhood of a DST transition
	var unix int64
	if len(z.trans) > 0 && r.Intn(3) == 0 {
		tr := z.trans[r.Intn(2)]
		switch r.Intn(4) {
		case 0: // the very second of the transition and its neighbours: the intended second is dropped here
			unix = tr + int64(r.Intn(5)-2)
			s = -1
		case 1: // within a few hours of it
			unix = tr + int64(r.Intn(6*3600)-3*3600)
			s = -1
		default: // same civil day
			unix = tr - gaFloorMod(tr, 86400)
		}
	} else {
		d0 := gaDaysFromCivil(z.lo, 1, 1)
		d1 := gaDaysFromCivil(z.hi, 12, 31)
		unix = (d0 + r.Int63n(d1-d0+1)) * 86400
	}
	if s >= 0 { // solve for the instant of that day whose local time of day is s
		base := unix
		off := z.offset(base + int64(s))
		unix = base + int64(s) - int64(off)
		if off2 := z.offset(unix); off2 != off {
			unix = base + int64(s) - int64(off2)
		}
	}
	nanos := []int64{0, 999999999, 1, 500000000, r.Int63n(1000000000)}[r.Intn(5)]

	// the forward computation is the reference
	local := int(gaFloorMod(unix+int64(z.offset(unix)), 86400))
	cs.Want = gaRefClock(after, before, local)

	cfg := gaClockCfg{After: gaHMS(after), Before: gaHMS(before), Timezone: z.cfg}
	cs.Config = gaJSON(cfg)
	// the instant may be written with any offset in RFC 3339 notation
	loc := time.UTC
	if r.Intn(2) == 0 {
		loc = time.FixedZone("", (r.Intn(27)-12)*3600+[]int{0, 1800, 2700}[r.Intn(3)])
	}
	cs.WrapTime = time.Unix(unix, nanos).In(loc).Format(time.RFC3339Nano)
	cs.Input = gaBytes(r, r.Intn(8))
	cs.Note = fmt.Sprintf("unix=%d local second of day=%d (%s) window=[%d,%d)", unix, local, gaHMS(local), a, b)

	switch {
	case local == a && cs.Want:
		cs.Class = "boundary:at-after"
	case local == b-1 && cs.Want:
		cs.Class = "boundary:last-second"
	case cs.Want:
		cs.Class = "valid"
	case local == b:
		cs.Class = "filter:before:out:at-before"
	case local == a-1:
		cs.Class = "filter:after:out:second-before"
	case a == b:
		cs.Class = "filter:empty-window"
	case local < a:
		cs.Class = "filter:after:out"
	default:
		cs.Class = "filter:before:out"
	}
	cs.Class += shape
	if len(z.trans) > 0 {
		if d := unix - z.trans[0]; d > -86400 && d < 86400 {
			cs.Class += ":dst-start-day"
		} else if d := unix - z.trans[1]; d > -86400 && d < 86400 {
			cs.Class += ":dst-end-day"
		}
	}
	return cs
}

func init() {
	RegisterTarget(&Target{Name: "clock", Gen: genClock, Quick: 2000, Thorough: 150000})
}
