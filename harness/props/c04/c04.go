// Package c04 monitors "no remote input makes a matcher or handler panic or
// allocate without bound": every shipped matcher (default and filtered
// configurations, TCP-like and UDP-like addresses) and the parsing handlers
// are fed random inputs, every prefix of well-formed messages and
// boundary-aware mutations of them; a crash and an allocation monitor watch
// every call.
package c04

import (
	"encoding/hex"
	"encoding/json"
	"fmt"
	"regexp"
	"runtime"
	"runtime/debug"
	"strings"
	"sync/atomic"
	"syscall"
	"time"

	"github.com/mholt/caddy-l4/layer4"

	"verifharness/fw"
	"verifharness/gen"
	"verifharness/hmods"
	"verifharness/mt"
	"verifharness/seedpool"
	"verifharness/vnet"
)

const allocLimit = 256 << 10 // 32 x MaxMatchingBytes

func init() {
	fw.Register(&fw.Prop{
		ID: "C04",
		Rule: "case = (target, input): targets are every shipped matcher in default and filtered configurations with TCP-like and UDP-like addresses, plus the proxy_protocol and socks5 handlers; " +
			"inputs are (i) uniform random strings of boundary lengths with protocol magic, (ii) every prefix of each well-formed seed message, (iii) boundary-aware mutations of seeds " +
			"(8/16/32-bit fields at every offset set to boundary values in both byte orders, truncation, terminator removal, CR/LF at the end, growth to size classes). " +
			"oracle: no panic / fatal error; bytes allocated by the call (runtime.MemStats.TotalAlloc delta, single goroutine, confirmed by re-measuring) <= 256 KiB. " +
			"non-trivial = the target got past its first check (verdict was not an immediate no on the first bytes) or the input is a mutation of a valid message; distinct = hash(target, input). every matcher target is also evaluated as the second member of a matcher set behind a not matcher on a connection whose peer has 24 MiB waiting (verdict at once, same allocation bound); dns / rdp / winbox targets whose options are placeholders of an environment variable that is not set. every matcher is also evaluated from an instance whose configuration was unloaded before (released targets). retention runs: the first seeds a target matches are evaluated 100000 times each from different client addresses; the live heap after two collections must not grow by more than 60 bytes per connection in three bursts in a row. loop children: a server whose routes hold every shipped stream matcher plus a route that stays undecided until 6000..8192 bytes have arrived; seed messages (and mutations) grown to 6-9 KiB arrive in segments of arbitrary sizes: the process survives every connection and every connection is finished.",
		Assumptions: []string{
			"the tls handler's parsing is crypto/tls itself and is not driven here",
			"quic matcher inputs are fewer because a single evaluation may wait 100 ms for its internal listener",
			"allocation is measured per call on one goroutine; calls whose first measurement exceeds the limit are re-measured twice and reported only if every measurement exceeds it",
		},
		MinEvals: 5000,
		Plan: func(tier string) []fw.ChildSpec {
			if tier == "thorough" {
				return []fw.ChildSpec{
					{Name: "inputs", Mode: "inputs", Shards: 16, Timeout: 60 * time.Minute},
					{Name: "race", Mode: "race", Race: true, Shards: 4, Timeout: 60 * time.Minute},
					{Name: "loop", Mode: "loop", Shards: 4, Timeout: 60 * time.Minute},
				}
			}
			return []fw.ChildSpec{{Name: "inputs", Mode: "inputs", Shards: 14, Timeout: 10 * time.Minute}, {Name: "loop", Mode: "loop", Shards: 2, Timeout: 10 * time.Minute}}
		},
		Run:    run,
		Replay: replay,
	})
}

type target struct {
	name  string
	udp   bool
	slow  bool
	seeds [][]byte
	call  func(input []byte) (verdict string, err error)
	again func() // optional second evaluation on the connection of the last call
	// callFrom evaluates the input on a connection from the k-th of many client addresses (retention runs)
	callFrom func(input []byte, k int) string
	matcher  string
	config   string
}

// Witness is what a replay file holds.
type Witness struct {
	Target   string `json:"target"`
	Matcher  string `json:"matcher"`
	Config   string `json:"config"`
	UDP      bool   `json:"udp"`
	InputHex string `json:"input_hex"`
	Kind     string `json:"kind"`
	Detail   string `json:"detail"`
}

func buildTargets(c *fw.Ctx) []*target {
	var out []*target
	// a matcher that says yes without looking at the stream, to sit in front of the matcher under test in one matcher set
	notM, notErr := mt.Load("not", `[{"remote_ip":{"ranges":["203.0.113.0/24"]}}]`)
	if notErr != nil {
		c.Violation("C04 config rejected not", notErr.Error(), nil)
	}
	for _, gt := range seedpool.Targets(c.Seed) {
		m, err := mt.Load(gt.Matcher, gt.Config)
		if err != nil {
			c.Violation("C04 config rejected "+gt.Name(), err.Error(), gt.Config)
			continue
		}
		kinds := []bool{gt.UDP}
		switch gt.Matcher {
		case "dns", "openvpn", "wireguard", "quic":
			kinds = []bool{false, true}
		}
		for _, udp := range kinds {
			udp, m := udp, m
			var last *layer4.Connection
			name := gt.Name()
			if udp {
				name += "@udp"
			} else {
				name += "@tcp"
			}
			out = append(out, &target{name: name, udp: udp, slow: gt.Slow, seeds: gt.Seeds, matcher: gt.Matcher, config: gt.Config,
				call: func(in []byte) (string, error) {
					cx, _ := mt.NewConn(in, mt.Opts{UDP: udp})
					last = cx
					v, err := m.EvalOn(cx)
					return string(v), err
				},
				callFrom: func(in []byte, k int) string {
					ip, port := fmt.Sprintf("198.51.%d.%d", (k>>8)&255, k&255), 1024+(k*7)%60000
					o := mt.Opts{UDP: udp, Remote: vnet.TCPAddr(ip, port)}
					if udp {
						o.Remote = vnet.UDPAddr(ip, port)
					}
					cx, _ := mt.NewConn(in, o)
					v, _ := m.EvalOn(cx)
					return string(v)
				},
				// evaluated a second time on the same connection, as the routing loop does when a second route holds a
				// matcher of the same kind or when matching is repeated after a prefetch (not part of the allocation
				// measurement of the first evaluation): it must not panic either
				again: func() {
					if last != nil {
						_, _ = m.EvalOn(last)
						last = nil
					}
				}})
			// the same matcher as the second member of a matcher set, behind a "not" matcher (which evaluates matcher sets
			// of its own), on a connection whose peer has unlimited data waiting behind the prefetched bytes: matching
			// works on the prefetched bytes alone, so the verdict comes at once and costs no more than on its own
			// the same matcher after its configuration was unloaded (connections accepted before a reload are still matched
			// by the old instance, whose clean-up has run by then): it answers or errs, it does not panic
			if !strings.Contains(gt.Name(), "/c14#") || gt.Matcher == "openvpn" {
				gtc := gt
				var released *mt.Matcher
				out = append(out, &target{name: name + "+released", udp: udp, slow: true, seeds: gt.Seeds, matcher: gt.Matcher, config: gt.Config,
					call: func(in []byte) (string, error) {
						if released == nil {
							r, err := mt.Load(gtc.Matcher, gtc.Config)
							if err != nil {
								return "err", err
							}
							r.Close()
							released = r
						}
						cx, _ := mt.NewConn(in, mt.Opts{UDP: udp})
						v, err := released.EvalOn(cx)
						return string(v), err
					}})
			}
			if notM != nil && !strings.Contains(gt.Name(), "/c14#") {
				out = append(out, &target{name: name + "+behind-not", udp: udp, slow: true, seeds: gt.Seeds, matcher: gt.Matcher, config: gt.Config,
					call: func(in []byte) (string, error) {
						v, err := m.EvalBehind(mt.NewFloodConn(in, mt.Opts{UDP: udp}), notM)
						return string(v), err
					}})
			}
		}
	}
	out = append(out, handlerTargets(c)...)
	return out
}

// handlerTargets drives the protocol-parsing handlers with the input arriving on the scripted connection.
func handlerTargets(c *fw.Ctx) []*target {
	var out []*target
	type hcfg struct{ name, id, cfg string }
	v1 := []byte("PROXY TCP4 192.168.0.1 192.168.0.11 56324 443\r\npayload")
	v2 := []byte{0x0D, 0x0A, 0x0D, 0x0A, 0x00, 0x0D, 0x0A, 0x51, 0x55, 0x49, 0x54, 0x0A, 0x21, 0x11, 0x00, 0x0C, 10, 0, 0, 1, 10, 0, 0, 2, 0x1f, 0x90, 0x01, 0xbb, 'p', 'l'}
	v2u := append([]byte{0x0D, 0x0A, 0x0D, 0x0A, 0x00, 0x0D, 0x0A, 0x51, 0x55, 0x49, 0x54, 0x0A, 0x21, 0x31, 0x00, 0xD8}, make([]byte, 216)...)
	socksAuth := []byte{5, 1, 2, 1, 1, 'u', 1, 'p', 5, 2, 0, 1, 127, 0, 0, 1, 0, 80}
	for _, h := range []struct {
		hcfg
		seeds [][]byte
	}{
		{hcfg{"handler:proxy_protocol", "layer4.handlers.proxy_protocol", `{}`}, [][]byte{v1, v2, v2u}},
		{hcfg{"handler:proxy_protocol/allow", "layer4.handlers.proxy_protocol", `{"allow":["10.0.0.0/8","198.51.100.0/24"],"timeout":"1s"}`}, [][]byte{v1, v2}},
		{hcfg{"handler:socks5/creds", "layer4.handlers.socks5", `{"commands":["BIND"],"credentials":{"u":"p"}}`}, [][]byte{socksAuth, {5, 1, 0}, {5, 2, 0, 2}}},
	} {
		ctx, _ := hmods.NewContext()
		mod, err := ctx.LoadModuleByID(h.id, json.RawMessage(h.cfg))
		if err != nil {
			c.Violation("C04 config rejected "+h.name, err.Error(), h.cfg)
			continue
		}
		nh := mod.(layer4.NextHandler)
		out = append(out, &target{name: h.name, seeds: h.seeds, matcher: h.id, config: h.cfg, call: func(in []byte) (string, error) {
			client, server := vnet.Pair("c04h", vnet.TCPAddr("198.51.100.7", 40000), vnet.TCPAddr("192.0.2.1", 443))
			_, _ = client.Write(in)
			_ = client.CloseWrite()
			go func() { // drain whatever the handler writes back
				buf := make([]byte, 4096)
				for {
					if _, err := client.Read(buf); err != nil {
						return
					}
				}
			}()
			cx := layer4.WrapConnection(server, make([]byte, 0, 2048), hmods.NopLogger)
			err := nh.Handle(cx, layer4.HandlerFunc(func(cx *layer4.Connection) error {
				buf := make([]byte, 512)
				for {
					if _, err := cx.Read(buf); err != nil {
						return nil
					}
				}
			}))
			_ = server.Close()
			_ = client.Close()
			if err != nil {
				return "err", err
			}
			return "handled", nil
		}})
	}
	return out
}

var frameRe = regexp.MustCompile(`(?m)^(github\.com/mholt/caddy-l4/[^\s(]+(?:\([^)]*\))?[^\s(]*)\(`)

func topRepoFrame(stack string) string {
	// skip the frames of the panic machinery: the first repo frame in the stack is the faulting function
	m := frameRe.FindStringSubmatch(stack)
	if m == nil {
		return "?"
	}
	f := strings.TrimPrefix(m[1], "github.com/mholt/caddy-l4/")
	return f
}

var busy atomic.Int64 // unix-nano start of the call in flight (0 = idle)
var busyWhat atomic.Value

func run(c *fw.Ctx) {
	if c.Mode == "loop" {
		runLoop(c)
		return
	}
	hmods.Quiet(c.OutDir + "/caddyhome")
	if c.Mode != "race" {
		// an attacker-sized allocation should die fast with a stack instead of zeroing gigabytes
		lim := syscall.Rlimit{Cur: 6 << 30, Max: 6 << 30}
		_ = syscall.Setrlimit(syscall.RLIMIT_AS, &lim)
	}
	debug.SetGCPercent(400)
	targets := buildTargets(c)
	go watchdog(c)
	perTarget := c.Pick(15000, 400000)
	if c.Mode == "race" {
		perTarget = 3000
	}
	var ms runtime.MemStats
	for ti, t := range targets {
		n := perTarget
		if strings.Contains(t.name, "/c14#") {
			n = c.Pick(4000, 100000) // many configurations per matcher come from the C14 generators
		}
		if t.slow {
			n = c.Pick(300, 5000)
		}
		if c.Mode == "race" {
			// the race children repeat a sample of the workload (they are 10-20 times slower per call)
			n = min(n, 3000)
			if t.slow {
				n = 300
			}
		}
		var maxAlloc uint64
		idx := 0
		eval := func(class string, in []byte) {
			idx++
			if !c.Mine(idx) {
				return
			}
			w := &Witness{Target: t.name, Matcher: t.matcher, Config: t.config, UDP: t.udp, InputHex: hex.EncodeToString(in)}
			c.Journal("%s %s", t.name, w.InputHex)
			verdict, kind, detail, alloc := measure(c, t, in, &ms)
			if kind == "alloc" {
				// confirm: a genuinely input-driven allocation is deterministic
				_, k2, _, a2 := measure(c, t, in, &ms)
				_, k3, _, a3 := measure(c, t, in, &ms)
				if k2 != "alloc" || k3 != "alloc" {
					kind = ""
					c.Obs("alloc_not_reproduced", 1)
				} else if a2 < alloc {
					alloc = a2
				}
				if a3 < alloc && kind == "alloc" {
					alloc = a3
				}
			}
			if alloc > maxAlloc && kind != "alloc" {
				maxAlloc = alloc
			}
			nt := class != "random" || (verdict != "no")
			c.Case(fw.Hash(t.name, w.InputHex), nt, func() any {
				return map[string]any{"target": t.name, "class": class, "input_hex": trimHex(w.InputHex), "verdict": verdict, "alloc_bytes": alloc}
			})
			c.Obs("calls_"+t.name, 1)
			c.Obs("verdict_"+verdict, 1)
			switch kind {
			case "panic":
				w.Kind, w.Detail = "panic", detail
				frame := topRepoFrame(detail)
				c.Violation(fmt.Sprintf("C04 %s panic in %s", strings.SplitN(t.name, "@", 2)[0], frame),
					fmt.Sprintf("target %s panicked on a %d-byte input (%s): %s", t.name, len(in), class, firstLine(detail)), w)
			case "alloc":
				w.Kind, w.Detail = "alloc", fmt.Sprintf("%d bytes", alloc)
				c.Violation(fmt.Sprintf("C04 %s allocates unbounded", strings.SplitN(t.name, "@", 2)[0]),
					fmt.Sprintf("target %s allocated %d bytes (> %d) for a %d-byte input (%s)", t.name, alloc, allocLimit, len(in), class), w)
			}
		}
		r := fw.Rand(c.Seed, "c04", t.name)
		// (ii) every prefix of each seed
		for _, s := range t.seeds {
			for k := 0; k <= len(s); k++ {
				eval("prefix", s[:k])
			}
		}
		// (iv) trailing length-prefixed block (the tls-crypt-v2 wrapped client key at the end of an OpenVPN reset ends with
		// its own 16-bit length): the block is shortened by 1..12 bytes in front of that length, or inside, the length
		// is made consistent again, and one byte near the cut takes all 256 values (the block is AES-CTR ciphertext,
		// so this walks one plaintext byte - a metadata type, say - through every value)
		if t.matcher == "openvpn" {
			for _, sd := range t.seeds {
				if len(sd) < 300 {
					continue
				}
				L := int(sd[len(sd)-2])<<8 | int(sd[len(sd)-1])
				if L < 290 || L > len(sd) {
					continue
				}
				for cut := -12; cut <= 12 && cut < L-34; cut++ {
					if cut == 0 {
						continue
					}
					var m []byte
					if cut > 0 {
						m = append([]byte(nil), sd[:len(sd)-2-cut]...)
					} else {
						m = append([]byte(nil), sd[:len(sd)-2]...)
						m = append(m, make([]byte, -cut)...) // (a negative cut lengthens the block)
					}
					nl := L - cut
					m = append(m, byte(nl>>8), byte(nl))
					eval("trailer-resized", m)
					// the byte that follows the 256-byte key inside the block: block = 32-byte tag + ciphertext + length
					if at := len(m) - nl + 32 + 256; at < len(m)-2 {
						orig := m[at]
						for v := 0; v < 256; v++ {
							m2 := append([]byte(nil), m...)
							m2[at] = orig ^ byte(v)
							eval("trailer-resized+byte", m2)
						}
					}
				}
			}
		}
		// (v) what stays behind: the first seed that the target matches is evaluated 100000 times, every time on a new
		// connection from another client address. What the process holds afterwards (live heap after two collections) must
		// not have grown with the number of connections (a table keyed by client that nothing ever removes from, say).
		if c.Mode == "inputs" && !t.slow && t.callFrom != nil && (!strings.Contains(t.name, "/c14#") || t.matcher == "openvpn") && c.Mine(ti) {
			tried := 0
			kSeq := 0
			for _, sd := range t.seeds {
				if tried >= 4 {
					break
				}
				if t.callFrom(sd, 0) != "yes" {
					continue
				}
				tried++
				const rounds = 100000
				live := func() uint64 {
					runtime.GC()
					runtime.GC()
					runtime.ReadMemStats(&ms)
					return ms.HeapAlloc
				}
				burst := func(n int) {
					for w := 0; w < n; w++ {
						kSeq++
						_ = t.callFrom(sd, kSeq)
					}
				}
				burst(5000) // warm-up: lazily built tables, pools
				before := live()
				burst(rounds)
				after := live()
				var grown int64
				if after > before {
					grown = int64(after - before)
				}
				c.ObsMax("retained_bytes_per_1000_connections_"+t.name, grown*1000/rounds)
				c.Obs("retention_runs", 1)
				if grown > 60*rounds {
					// a table that grows with every connection grows again and again: two more bursts, each measured on its own
					// (a single large reading can be the collector's timing)
					b2 := live()
					burst(rounds)
					a2 := live()
					b3 := live()
					burst(rounds)
					a3 := live()
					if a2 > b2 && int64(a2-b2) > 60*rounds && a3 > b3 && int64(a3-b3) > 60*rounds {
						w := &Witness{Target: t.name, Matcher: t.matcher, Config: t.config, UDP: t.udp, InputHex: hex.EncodeToString(sd), Kind: "retention", Detail: fmt.Sprintf("%d, %d and %d bytes retained after %d connections each", grown, a2-b2, a3-b3, rounds)}
						c.Violation(fmt.Sprintf("C04 %s keeps memory for every connection it has matched", strings.SplitN(t.name, "@", 2)[0]),
							fmt.Sprintf("target %s: after %d matched connections from different client addresses the live heap (after two collections) is %d bytes larger, after %d more %d bytes larger again, and again %d after the next %d: what is retained grows with the number of connections ever seen", t.name, rounds, grown, rounds, a2-b2, a3-b3, rounds), w)
						break
					}
				}
			}
		}
		// (i) random and (iii) mutations
		for i := 0; i < n; i++ {
			if len(t.seeds) > 0 && i%4 != 0 {
				eval("mutation", gen.Mutate(t.seeds[r.Intn(len(t.seeds))], r))
			} else {
				eval("random", gen.RandomInput(r))
			}
		}
		c.ObsMax("max_alloc_bytes_"+t.name, int64(maxAlloc))
		_ = ti
	}
	busy.Store(0)
}

func measure(c *fw.Ctx, t *target, in []byte, ms *runtime.MemStats) (verdict, kind, detail string, alloc uint64) {
	c.Exclusive(func() {
		busyWhat.Store(t.name + " " + hex.EncodeToString(in))
		busy.Store(time.Now().UnixNano())
		runtime.ReadMemStats(ms)
		before := ms.TotalAlloc
		func() {
			defer func() {
				if r := recover(); r != nil {
					kind = "panic"
					detail = fmt.Sprintf("%v\n%s", r, debug.Stack())
					verdict = "panic"
				}
			}()
			verdict, _ = t.call(in)
		}()
		runtime.ReadMemStats(ms)
		alloc = ms.TotalAlloc - before
		if t.again != nil && kind == "" {
			func() {
				defer func() {
					if r := recover(); r != nil {
						kind = "panic"
						detail = fmt.Sprintf("second evaluation on the same connection: %v\n%s", r, debug.Stack())
						verdict = "panic"
					}
				}()
				t.again()
			}()
		}
		busy.Store(0)
	})
	if kind == "" && alloc > allocLimit {
		kind = "alloc"
	}
	return
}

// watchdog ends the child with a recorded finding when a single call does not return.
func watchdog(c *fw.Ctx) {
	for {
		time.Sleep(time.Second)
		if t0 := busy.Load(); t0 != 0 && time.Since(time.Unix(0, t0)) > 30*time.Second {
			what, _ := busyWhat.Load().(string)
			name := strings.SplitN(what, " ", 2)[0]
			c.Violation(fmt.Sprintf("C04 %s hang", strings.SplitN(name, "@", 2)[0]), "a single call did not return within 30 s: "+trimHex(what), what)
			c.Abort("call did not return: " + trimHex(what))
		}
	}
}

func firstLine(s string) string {
	if k := strings.IndexByte(s, '\n'); k >= 0 {
		return s[:k]
	}
	return s
}

func trimHex(s string) string {
	if len(s) > 200 {
		return s[:200] + "..."
	}
	return s
}

func replay(c *fw.Ctx, raw json.RawMessage) {
	if replayLoop(c, raw) {
		return
	}
	var w Witness
	if err := json.Unmarshal(raw, &w); err != nil {
		fmt.Println("replay:", err)
		return
	}
	hmods.Quiet(c.OutDir + "/caddyhome")
	in, _ := hex.DecodeString(w.InputHex)
	var ms runtime.MemStats
	for _, t := range buildTargets(c) {
		if t.name != w.Target {
			continue
		}
		verdict, kind, detail, alloc := measure(c, t, in, &ms)
		fmt.Printf("replay: target=%s verdict=%s kind=%s alloc=%d\n%s\n", t.name, verdict, kind, alloc, detail)
		if kind == "panic" {
			c.Violation(fmt.Sprintf("C04 %s panic in %s", strings.SplitN(t.name, "@", 2)[0], topRepoFrame(detail)), firstLine(detail), w)
		} else if kind == "alloc" {
			c.Violation(fmt.Sprintf("C04 %s allocates unbounded", strings.SplitN(t.name, "@", 2)[0]), fmt.Sprintf("%d bytes", alloc), w)
		}
	}
}
