package c04

import (
	"encoding/hex"
	"encoding/json"
	"fmt"
	"sort"
	"time"

	"verifharness/drive"
	"verifharness/fw"
	"verifharness/gen"
	"verifharness/hmods"
	"verifharness/oracle"
	"verifharness/seedpool"
)

// Loop mode: the matchers as the routing loop runs them. A server whose routes hold every shipped stream matcher (default
// configuration, each with its own sink) plus a route that stays undecided until N bytes (6000..8192) have arrived, so
// that the prefetch loop fills the matching buffer; inputs (seed messages grown with random bytes up to 9 KiB, and their
// mutations) arrive in segments of arbitrary sizes. The process must survive every connection (a panic in the prefetch
// path or in a matcher evaluated again and again on a growing buffer ends the child and is attributed through the journal)
// and every connection must be finished.

// LoopWitness is the replay record.
type LoopWitness struct {
	Need     int    `json:"need"`
	InputHex string `json:"input_hex"`
	Segs     []int  `json:"segments"`
}

var loopProtos = []string{"tls", "ssh", "xmpp", "postgres", "http", "socks4", "socks5", "rdp", "winbox", "proxy_protocol", "regexp"}

func loopRoutes(need int) string {
	var rs []any
	for _, p := range loopProtos {
		var cfg any = map[string]any{}
		if p == "http" {
			cfg = []any{}
		}
		if p == "regexp" {
			cfg = map[string]any{"pattern": "^zzzz", "count": 4}
		}
		rs = append(rs, map[string]any{"match": []any{map[string]any{p: cfg}}, "handle": []any{map[string]any{"handler": "verif_sink", "name": p, "bufsize": 4096}}})
	}
	rs = append(rs, map[string]any{"match": []any{map[string]any{"verif_m1": map[string]any{"id": "big", "need": need, "at": 0, "eq": 256, "neg": true, "pattern": "peek"}}},
		"handle": []any{map[string]any{"handler": "verif_sink", "name": "big", "bufsize": 4096}}})
	return drive.J(rs)
}

func runLoop(c *fw.Ctx) {
	hmods.Quiet(c.OutDir + "/caddyhome")
	var seeds [][]byte
	for _, t := range seedpool.Targets(c.Seed) {
		if t.UDP {
			continue
		}
		for _, s := range t.Seeds {
			if len(s) > 0 && len(seeds) < 400 {
				seeds = append(seeds, s)
			}
		}
	}
	sort.Slice(seeds, func(i, j int) bool { return hex.EncodeToString(seeds[i]) < hex.EncodeToString(seeds[j]) })
	n := c.Pick(2400, 60000)
	needs := []int{6000, 6145, 6500, 7000, 7777, 8000, 8191, 8192}
	apps := map[int]*drive.AppRun{}
	defer func() {
		for _, a := range apps {
			a.Stop()
		}
	}()
	for i := 0; i < n; i++ {
		if !c.Mine(i) {
			continue
		}
		r := fw.Rand(c.Seed, "c04loop", i)
		need := needs[r.Intn(len(needs))]
		app := apps[need]
		if app == nil {
			var err error
			if app, err = drive.StartApp(loopRoutes(need), "2s"); err != nil {
				c.Violation("C04 loop config rejected", err.Error(), nil)
				return
			}
			apps[need] = app
		}
		in := append([]byte(nil), seeds[r.Intn(len(seeds))]...)
		if r.Intn(3) == 0 {
			in = gen.Mutate(in, r)
		}
		if r.Intn(4) != 0 {
			// grown to the neighbourhood of the matching limit
			L := []int{6000, 6144, 6145, 7000, 8000, 8191, 8192, 8193, 9000}[r.Intn(9)]
			if len(in) < L {
				in = append(in, oracle.Stream(0xC04, uint64(i), L-len(in))...)
			}
		}
		// segmentation: a first segment of any size, then pieces of any size (often less than a prefetch chunk)
		var segs []int
		for rest := len(in); rest > 0; {
			k := 1 + r.Intn(2600)
			if r.Intn(5) == 0 {
				k = 1 + r.Intn(9000)
			}
			if k > rest {
				k = rest
			}
			segs = append(segs, k)
			rest -= k
		}
		w := &LoopWitness{Need: need, InputHex: hex.EncodeToString(in), Segs: segs}
		c.Journal("loop need=%d segs=%v in=%s", need, segs, w.InputHex)
		loopCase(c, app, w, in, fmt.Sprintf("c04l-%d-%d", c.Shard, i))
	}
}

func loopCase(c *fw.Ctx, app *drive.AppRun, w *LoopWitness, in []byte, id string) {
	rec := hmods.Track(id)
	defer hmods.Untrack(id)
	client, server := drive.NewPair(id)
	app.L.Inject(server)
	go drive.ReadAll(client)
	off := 0
	for k, sz := range w.Segs {
		if _, err := client.Write(in[off : off+sz]); err != nil {
			break
		}
		off += sz
		if k%2 == 0 {
			time.Sleep(100 * time.Microsecond) // let the loop read the segment on its own now and then
		}
	}
	_ = client.CloseWrite()
	ok := client.WaitPeerClosed(20 * time.Second)
	_ = client.Close()
	cons := rec.Consumers()
	sort.Strings(cons)
	if !ok {
		c.Violation("C04 loop connection never finished", "20 s after the client had sent its input and closed its side the connection was still held by the routing loop", w)
	}
	c.Obs("loop_connections", 1)
	c.Case(fw.Hash("loop", w.Need, len(in)/512, len(w.Segs) > 4, fmt.Sprint(cons)), len(cons) > 0, func() any { return w })
}

func replayLoop(c *fw.Ctx, raw json.RawMessage) bool {
	var w LoopWitness
	if json.Unmarshal(raw, &w) != nil || w.Need == 0 || len(w.Segs) == 0 {
		return false
	}
	hmods.Quiet(c.OutDir + "/caddyhome")
	app, err := drive.StartApp(loopRoutes(w.Need), "2s")
	if err != nil {
		fmt.Println("replay:", err)
		return true
	}
	defer app.Stop()
	in, _ := hex.DecodeString(w.InputHex)
	loopCase(c, app, &w, in, "c04l-replay")
	fmt.Println("replay: the process survived the connection")
	return true
}
