// Package c03 monitors the proxy handler's relay over real loopback sockets:
// both directions byte-exact (including prefetched bytes), half-close
// propagated while the other direction keeps flowing, handler return and
// cleanup of upstream connections, goroutines and file descriptors.
package c03

import (
	"crypto/tls"
	"encoding/json"
	"fmt"
	"io"
	"net"
	"os"
	"runtime/debug"
	"strings"
	"sync"
	"time"

	"github.com/caddyserver/caddy/v2"

	"verifharness/drive"
	"verifharness/fw"
	"verifharness/hmods"
	"verifharness/oracle"
	"verifharness/tlsutil"
	"verifharness/vnet"
)

const (
	domClient = 0xC03A
	domUp     = 0xC03B
)

func init() {
	fw.Register(&fw.Prop{
		ID: "C03",
		Rule: "case = one proxied session over real sockets: client TCP (optionally TLS-terminated by the tls handler) -> layer4 proxy -> 1-2 harness upstream servers (tcp / unix / tls), " +
			"payload sizes {0,1,2047..2049,64KiB,1MiB(+4MiB thorough)} per direction with distinct PRF domains and random chunking, a matcher that prefetches 0..4096 bytes first, and a close order " +
			"(client-first / upstream-first / upstream-first behind a throttle or tee handler whose connection cannot half-close / simultaneous / upstream-close-early / client-abort / upstream-reset / one of two peers resetting while the other waits for end-of-stream); " +
			"plus dial-failure sessions (2-3 peers, one refusing for ever or until it recovers inside try_duration, PROXY header v0/v1/v2, garbage collector off so that finalizers cannot close a leaked socket): every " +
			"connection of an abandoned attempt is closed when the handler returns. oracle: (a) each upstream received exactly the client's stream, (b) the client received each upstream's " +
			"bytes in order, (c) the side that is still open observes EOF while its own direction keeps flowing, (d) the handler returns and every upstream connection is closed, (e) no goroutine left in " +
			"l4proxy and the fd count returns to the baseline. non-trivial = bytes flowed in both directions or an abrupt close was injected; distinct = hash(all session parameters). sessions in the client-first / simultaneous orders may have a proxy_protocol handler in front of the proxy (v1, v1 UNKNOWN or v2 header written together with the first payload bytes; route chosen by the proxy_protocol matcher or not): the upstream must still get exactly the client's stream. sessions may start with a short first segment while a matcher asks for 6200..8000 bytes (the prefetch fills up in uneven steps and crosses the matching limit), or reach the proxy by falling through a subroute (300 ms matching timeout) that decides without reading, with a client that pauses 450 ms after its first bytes.",
		Assumptions: []string{
			"for abrupt orders (reset/abort/early close) only prefix integrity, handler return and cleanup are asserted: the kernel may discard queued data on reset",
			"kernel coalescing makes chunking best effort",
		},
		MinEvals: 100,
		Plan: func(tier string) []fw.ChildSpec {
			if tier == "thorough" {
				return []fw.ChildSpec{
					{Name: "relay", Mode: "relay", Shards: 8, Timeout: 40 * time.Minute},
					{Name: "relay-race", Mode: "relay-race", Race: true, Shards: 4, Timeout: 40 * time.Minute},
					{Name: "dialfail", Mode: "dialfail", Shards: 4, Timeout: 40 * time.Minute},
				}
			}
			return []fw.ChildSpec{{Name: "relay", Mode: "relay", Shards: 6, Timeout: 10 * time.Minute},
				{Name: "relay-race", Mode: "relay-race", Race: true, Shards: 2, Timeout: 10 * time.Minute},
				{Name: "dialfail", Mode: "dialfail", Shards: 2, Timeout: 10 * time.Minute}}
		},
		Run:    run,
		Replay: replay,
	})
}

// Session is one generated proxied session.
type Session struct {
	Index    int    `json:"index"`
	UpNet    string `json:"up_net"`   // tcp, unix, tls
	Peers    int    `json:"peers"`    // 1 or 2 peers in the upstream
	DownTLS  bool   `json:"down_tls"` // tls handler before proxy
	TLS12    bool   `json:"tls12"`    // the TLS client speaks at most TLS 1.2 (its last data record and close_notify can be read together)
	Prefetch int    `json:"prefetch"` // bytes the matcher wants
	CLen     int    `json:"c_len"`    // client -> upstream bytes
	ULen     int    `json:"u_len"`    // upstream -> client bytes
	Order    string `json:"order"`    // client-first, upstream-first, simultaneous, upstream-close-early, client-abort, upstream-reset
	Chunk    int    `json:"chunk"`    // write chunk size
	DelayUs  int    `json:"delay_us"` // between chunks
	Policy   string `json:"policy"`
	// UpTLS12: the TLS upstream speaks at most TLS 1.2 and sends its last record together with its close_notify
	UpTLS12 bool `json:"up_tls12,omitempty"`
	// Wrap is the handler in front of the proxy handler in the upstream-first-wrapped order
	Wrap string `json:"wrap,omitempty"`
	// PP: the client's stream is preceded by a PROXY header ("v1", "unknown", "v2"), stripped by a proxy_protocol handler
	// in front of the proxy handler; PPMatch: the route is selected by the proxy_protocol matcher
	PP      string `json:"pp,omitempty"`
	PPMatch bool   `json:"pp_match,omitempty"`
	// FirstSeg > 0: in the client-first / simultaneous orders the client's first write is this short and the rest follows
	// 30 ms later (the matcher's prefetch then fills up in steps that are not whole chunks)
	FirstSeg int `json:"first_seg,omitempty"`
	// FallSub: the proxy handler is reached by falling through a subroute (matching timeout 300 ms) whose only route is
	// decided as not matching without a read; the client pauses for 450 ms after its first segment
	FallSub bool `json:"fall_sub,omitempty"`
	// ResetPeer is the peer that resets in the peer-reset-mixed order
	ResetPeer int `json:"reset_peer,omitempty"`
}

var sizes = []int{0, 1, 100, 2047, 2048, 2049, 5000, 65536, 1 << 20}

func genSession(c *fw.Ctx, i int) *Session {
	r := fw.Rand(c.Seed, "c03", i)
	s := &Session{Index: i}
	s.UpNet = []string{"tcp", "tcp", "unix", "tls"}[r.Intn(4)]
	s.Peers = 1 + r.Intn(4)/3
	s.DownTLS = r.Intn(5) == 0
	s.TLS12 = s.DownTLS && r.Intn(2) == 0
	s.Prefetch = []int{0, 1, 5, 2048, 4096}[r.Intn(5)]
	s.CLen = sizes[r.Intn(len(sizes))]
	s.ULen = sizes[r.Intn(len(sizes))]
	if c.Thorough() && r.Intn(40) == 0 {
		s.CLen = 4 << 20
	}
	s.Order = []string{"client-first", "upstream-first", "simultaneous", "client-first", "upstream-first", "upstream-close-early", "client-abort", "upstream-reset"}[r.Intn(8)]
	s.Chunk = []int{1 << 20, 65536, 4096, 1000, 17}[r.Intn(5)]
	if s.Chunk < 1000 && s.CLen+s.ULen > 70000 {
		s.Chunk = 4096
	}
	s.DelayUs = []int{0, 0, 50, 500}[r.Intn(4)]
	s.Policy = []string{"first", "round_robin", "random", "least_conn", "ip_hash", "random_choose"}[r.Intn(6)]
	if s.Prefetch > s.CLen {
		s.Prefetch = s.CLen
	}
	if s.Order == "client-abort" && s.Prefetch > s.CLen/2 {
		s.Prefetch = 0 // the client aborts after half of its stream: the matcher must be satisfied by then
	}
	if r.Intn(12) == 0 {
		// one peer of a two-peer upstream resets its connection early, the other one waits for the end of the
		// client's stream before it answers
		s.Order, s.Peers, s.UpNet, s.DownTLS, s.TLS12 = "peer-reset-mixed", 2, "tcp", false, false
		s.ResetPeer = r.Intn(2)
		if s.CLen < 100 {
			s.CLen = 65536
		}
		if s.Prefetch > s.CLen {
			s.Prefetch = s.CLen
		}
	}
	s.UpTLS12 = s.UpNet == "tls" && r.Intn(2) == 0
	if r2 := fw.Rand(c.Seed, "c03firstseg", i); (s.Order == "client-first" || s.Order == "simultaneous") && s.CLen >= 12000 && r2.Intn(3) == 0 {
		// a short first segment and a matcher that wants most of the matching buffer
		s.FirstSeg = []int{700, 1000, 1448, 3000, 6500}[r2.Intn(5)]
		s.Prefetch = []int{6200, 7000, 7500, 8000}[r2.Intn(4)]
		s.Chunk = 1 << 20
	}
	if s.Order != "peer-reset-mixed" && r.Intn(10) == 0 {
		// the downstream connection reaches the proxy handler wrapped by a handler whose connection type cannot
		// half-close (throttle, tee); the upstream finishes first and the client, which knows how much to expect,
		// sends its stream afterwards
		s.Order, s.DownTLS, s.TLS12, s.Prefetch = "upstream-first-wrapped", false, false, 0
		s.Wrap = []string{"throttle", "tee"}[r.Intn(2)]
	}
	if (s.Order == "client-first" || s.Order == "simultaneous") && !s.DownTLS && r.Intn(6) == 0 {
		// a PROXY header in front of the client's stream, received by the proxy_protocol handler in front of the proxy
		// handler (with large chunks the header and the first payload bytes arrive in the same read)
		s.PP = []string{"v1", "unknown", "v2"}[r.Intn(3)]
		s.PPMatch = r.Intn(2) == 0
		s.Prefetch = 0
	}
	if r3 := fw.Rand(c.Seed, "c03fallsub", i); s.Order == "client-first" && !s.DownTLS && s.PP == "" && s.Wrap == "" && s.CLen >= 100 && r3.Intn(6) == 0 {
		s.FallSub, s.Prefetch, s.FirstSeg = true, 0, 1+r3.Intn(s.CLen/2)
	}
	if s.Order == "upstream-first" {
		// (in the upstream-first order the client sends nothing until it has seen EOF, so no matcher may wait for its bytes)
		s.Prefetch = 0
	}
	if s.DownTLS && r.Intn(2) == 0 {
		s.Prefetch = 0 // otherwise the proxy handler sits in a subroute behind a matcher on the decrypted stream
	}
	return s
}

type world struct {
	cert *tlsutil.Cert
	dir  string
}

func run(c *fw.Ctx) {
	hmods.Quiet(c.OutDir + "/caddyhome")
	cert, err := tlsutil.NewCert("verif.test")
	if err != nil {
		c.Note("cert: %v", err)
		return
	}
	if err := caddy.Load([]byte(tlsutil.CaddyConfig(cert, nil)), true); err != nil {
		c.Note("caddy.Load: %v", err)
		return
	}
	if c.Mode == "dialfail" {
		runDialFailMode(c)
		_ = caddy.Stop()
		return
	}
	w := &world{cert: cert, dir: c.OutDir}
	canary := oracle.StartCanary()
	defer canary.Stop()
	n := c.Pick(300, 6000)
	if c.Mode == "relay-race" {
		n = c.Pick(120, 1500)
	}
	baseFDs := countFDs()
	var mine []int
	if dbg := os.Getenv("VERIF_C03_DEBUG"); dbg != "" {
		var i int
		fmt.Sscanf(dbg, "%d", &i)
		runSession(c, w, canary, genSession(c, i))
		return
	}
	for i := 0; i < n; i++ {
		if c.Mine(i) {
			mine = append(mine, i)
		}
	}
	// sessions run 4 at a time
	sem := make(chan struct{}, 4)
	var wg sync.WaitGroup
	for _, i := range mine {
		wg.Add(1)
		sem <- struct{}{}
		go func(i int) {
			defer wg.Done()
			defer func() { <-sem }()
			runSession(c, w, canary, genSession(c, i))
		}(i)
	}
	wg.Wait()
	// (e) quiescence
	if n, first := oracle.WaitGoroutinesGone("l4proxy.(*Handler)", 10*time.Second); n > 0 {
		c.Violation("C03 goroutine-left-in-proxy", fmt.Sprintf("%d goroutine(s) still inside l4proxy after all sessions finished", n), map[string]any{"stack": first})
	}
	deadline := time.Now().Add(5 * time.Second)
	fds := countFDs()
	for fds > baseFDs+2 && time.Now().Before(deadline) {
		time.Sleep(20 * time.Millisecond)
		fds = countFDs()
	}
	c.ObsMax("fd_delta_after_all_sessions", int64(fds-baseFDs))
	if fds > baseFDs+2 {
		c.Violation("C03 fd-leak", fmt.Sprintf("file descriptors: %d before, %d after all sessions finished and every harness socket was closed", baseFDs, fds), nil)
	}
	_ = caddy.Stop()
}

func countFDs() int {
	ents, err := os.ReadDir("/proc/self/fd")
	if err != nil {
		return 0
	}
	return len(ents)
}

func writeChunks(w io.Writer, b []byte, chunk, delayUs int) error {
	for off := 0; off < len(b); off += chunk {
		end := off + chunk
		if end > len(b) {
			end = len(b)
		}
		if _, err := w.Write(b[off:end]); err != nil {
			return err
		}
		if delayUs > 0 {
			time.Sleep(time.Duration(delayUs) * time.Microsecond)
		}
	}
	return nil
}

type closeWriter interface{ CloseWrite() error }

var watchdog = 60 * time.Second

func runSession(c *fw.Ctx, w *world, canary *oracle.Canary, s *Session) {
	if os.Getenv("VERIF_C03_DEBUG") != "" {
		watchdog = 5 * time.Second
	}
	graceful := s.Order == "client-first" || s.Order == "upstream-first" || s.Order == "simultaneous" || s.Order == "upstream-first-wrapped"
	C := oracle.Stream(domClient, uint64(fw.Mix(c.Seed, "c", s.Index)), s.CLen)
	report := func(kind, what string, extra any) {
		c.Violation(fmt.Sprintf("C03 %s [%s, up=%s]", kind, s.Order, s.UpNet), what, map[string]any{"session": s, "detail": extra})
	}
	// upstream servers
	type upState struct {
		up *drive.Upstream
		U  []byte
	}
	clientGotEOF := make(chan struct{}) // closed when the client has read EOF (for ordering assertions)
	var ups []*upState
	for p := 0; p < s.Peers; p++ {
		U := oracle.Stream(domUp, uint64(fw.Mix(c.Seed, "u", s.Index, p)), s.ULen)
		us := &upState{U: U}
		p := p
		handler := func(uc *drive.UpConn) {
			defer uc.Conn.Close()
			order := s.Order
			if order == "upstream-first-wrapped" {
				order = "upstream-first"
			}
			if order == "peer-reset-mixed" {
				order = "client-first"
				if p == s.ResetPeer {
					order = "upstream-reset"
				}
			}
			// sendAll writes U and half-closes; on a TLS <= 1.2 upstream the last piece and the close_notify leave together
			sendAll := func() {
				if s.UpTLS12 && len(U) > 0 {
					last := 1 + (s.Index*131)%min(len(U), 1200)
					_ = writeChunks(uc.Conn, U[:len(U)-last], s.Chunk, s.DelayUs)
					_ = uc.WriteLastAndCloseWrite(U[len(U)-last:])
					return
				}
				_ = writeChunks(uc.Conn, U, s.Chunk, s.DelayUs)
				if cw, ok := uc.Conn.(closeWriter); ok {
					_ = cw.CloseWrite()
				}
			}
			switch order {
			case "client-first":
				uc.ReadAllRecord() // EOF first ...
				sendAll()          // ... then our direction must still flow
			case "upstream-first":
				sendAll()
				uc.ReadAllRecord()
			case "simultaneous":
				done := make(chan struct{})
				go func() { uc.ReadAllRecord(); close(done) }()
				sendAll()
				<-done
			case "upstream-close-early":
				_ = writeChunks(uc.Conn, U, s.Chunk, 0)
				return // full close while the client may still be sending
			case "upstream-reset":
				if s.Order == "peer-reset-mixed" {
					// not before the relay is running (a reset that races with the proxy's connect makes the dial
					// itself fail): wait for the first relayed byte
					uc.ReadOneRecord()
				}
				go uc.ReadAllRecord()
				_ = writeChunks(uc.Conn, U[:len(U)/2], s.Chunk, 0)
				if tc, ok := uc.Conn.(*net.TCPConn); ok {
					_ = tc.SetLinger(0)
				}
				return
			case "client-abort":
				go func() { _ = writeChunks(uc.Conn, U, s.Chunk, s.DelayUs) }()
				uc.ReadAllRecord()
			}
		}
		var cert *tls.Certificate
		if s.UpNet == "tls" {
			cert = &w.cert.TLS
		}
		var up *drive.Upstream
		var err error
		if s.UpTLS12 {
			up, err = drive.NewUpstreamTLS(cert, tls.VersionTLS12, handler)
		} else {
			up, err = drive.NewUpstream(s.UpNet, w.dir, cert, handler)
		}
		if err != nil {
			c.Inconclusive("cannot start upstream: " + err.Error())
			return
		}
		defer up.Close()
		us.up = up
		ups = append(ups, us)
	}
	var dials []string
	for _, u := range ups {
		dials = append(dials, u.up.Addr)
	}
	upstream := map[string]any{"dial": dials}
	if s.UpNet == "tls" {
		upstream["tls"] = map[string]any{"insecure_skip_verify": true}
	}
	var handlers []any
	if s.DownTLS {
		handlers = append(handlers, map[string]any{"handler": "tls"})
	}
	W := C // what the client writes
	switch s.PP {
	case "v1":
		W = append([]byte("PROXY TCP4 10.9.8.7 10.1.2.3 4567 443\r\n"), C...)
	case "unknown":
		W = append([]byte("PROXY UNKNOWN\r\n"), C...)
	case "v2":
		W = append(append([]byte("\r\n\r\n\x00\r\nQUIT\n"), 0x21, 0x11, 0, 12, 10, 9, 8, 7, 10, 1, 2, 3, 0x11, 0xd7, 1, 187), C...)
	}
	if s.PP != "" {
		handlers = append(handlers, map[string]any{"handler": "proxy_protocol"})
	}
	switch s.Wrap {
	case "throttle":
		handlers = append(handlers, map[string]any{"handler": "throttle", "read_bytes_per_second": 1e9, "read_burst_size": 1 << 20})
	case "tee":
		handlers = append(handlers, map[string]any{"handler": "tee", "branch": []any{map[string]any{"handler": "verif_sink", "name": "teeb", "bufsize": 4096}}})
	}
	pol := map[string]any{"policy": s.Policy}
	tail := []any{map[string]any{"handler": "verif_span", "name": "span"},
		map[string]any{"handler": "proxy", "upstreams": []any{upstream}, "load_balancing": map[string]any{"selection": pol}}}
	if s.DownTLS && s.Prefetch > 0 {
		// matching (prefetch) on the connection that the tls handler wrapped, then the relay of those bytes
		at := s.Prefetch - 1
		tail = []any{map[string]any{"handler": "subroute", "matching_timeout": "20s", "routes": []any{map[string]any{
			"match":  []any{map[string]any{"verif_m1": map[string]any{"id": "pf", "need": s.Prefetch, "at": at, "eq": int(C[at])}}},
			"handle": tail}}}}
	}
	if s.FallSub {
		f := false
		handlers = append(handlers, map[string]any{"handler": "subroute", "matching_timeout": "300ms", "routes": []any{map[string]any{
			"match":  []any{map[string]any{"verif_m2": map[string]any{"id": "never", "need": 0, "const": f}}},
			"handle": []any{map[string]any{"handler": "verif_sink", "name": "WRONG"}}}}})
	}
	handlers = append(handlers, tail...)
	route := map[string]any{"handle": handlers}
	if s.PPMatch {
		route["match"] = []any{map[string]any{"proxy_protocol": map[string]any{}}}
	}
	if s.DownTLS {
		route["match"] = []any{map[string]any{"tls": map[string]any{}}}
	} else if s.Prefetch > 0 {
		at := s.Prefetch - 1
		route["match"] = []any{map[string]any{"verif_m1": map[string]any{"id": "pf", "need": s.Prefetch, "at": at, "eq": int(C[at])}}}
	}
	name := vnet.UniqueName("c03")
	cfg := fmt.Sprintf(`{"servers":{"s":{"listen":["veriftcp/%s:1"],"routes":%s,"matching_timeout":"20s"}}}`, name, drive.J([]any{route}))
	ctx, cancel := caddy.NewContext(caddy.ActiveContext())
	app, err := hmods.LoadApp(ctx, cfg)
	if err == nil {
		err = app.Start()
	}
	if err != nil {
		cancel()
		report("config-rejected", err.Error(), cfg)
		return
	}
	defer func() { _ = app.Stop(); cancel() }()
	addr, _ := vnet.RealTCPAddr(name)

	raw, err := net.Dial("tcp", addr)
	if err != nil {
		c.Inconclusive("dial: " + err.Error())
		return
	}
	rec := hmods.Track(hmods.RealConnID(raw.LocalAddr().String(), raw.RemoteAddr().String()))
	defer rec.Release()
	var conn net.Conn = raw
	if s.DownTLS {
		tcfg := &tls.Config{RootCAs: w.cert.Pool, ServerName: "verif.test", NextProtos: []string{"http/1.1"}}
		if s.TLS12 {
			tcfg.MaxVersion = tls.VersionTLS12
		}
		tc := tls.Client(raw, tcfg)
		_ = raw.SetDeadline(time.Now().Add(60 * time.Second))
		if err := tc.Handshake(); err != nil {
			c.Inconclusive("client tls handshake: " + err.Error())
			raw.Close()
			return
		}
		conn = tc
	}
	_ = raw.SetDeadline(time.Now().Add(90 * time.Second))
	canary.Reset()

	var got []byte
	var eofBeforeSend, clientEOF bool
	readAll := func() {
		b, err := io.ReadAll(conn)
		got = b
		clientEOF = err == nil
		close(clientGotEOF)
	}
	switch s.Order {
	case "client-first":
		if s.FirstSeg > 0 && s.FirstSeg < len(W) {
			_, _ = conn.Write(W[:s.FirstSeg])
			if s.FallSub {
				time.Sleep(420 * time.Millisecond)
			}
			time.Sleep(30 * time.Millisecond)
			W = W[s.FirstSeg:]
		}
		_ = writeChunks(conn, W, s.Chunk, s.DelayUs)
		_ = conn.(closeWriter).CloseWrite()
		readAll()
	case "upstream-first":
		readAll() // must see every upstream byte and EOF while our write side is still open
		eofBeforeSend = true
		_ = writeChunks(conn, C, s.Chunk, s.DelayUs)
		_ = conn.(closeWriter).CloseWrite()
	case "upstream-first-wrapped":
		// no end-of-stream can reach us while our own direction is open (the wrapped downstream cannot be
		// half-closed): read what the peers are known to send, then send, then wait for the end
		first := make([]byte, s.ULen*s.Peers)
		_, rerr := io.ReadFull(conn, first)
		_ = writeChunks(conn, C, s.Chunk, s.DelayUs)
		_ = conn.(closeWriter).CloseWrite()
		rest, err2 := io.ReadAll(conn)
		got = append(first, rest...)
		if rerr != nil {
			got = got[:0]
		}
		clientEOF = rerr == nil && err2 == nil
		close(clientGotEOF)
	case "simultaneous", "upstream-close-early", "upstream-reset", "peer-reset-mixed":
		done := make(chan struct{})
		go func() { readAll(); close(done) }()
		if s.FirstSeg > 0 && s.FirstSeg < len(W) {
			_, _ = conn.Write(W[:s.FirstSeg])
			time.Sleep(30 * time.Millisecond)
			W = W[s.FirstSeg:]
		}
		_ = writeChunks(conn, W, s.Chunk, s.DelayUs)
		_ = conn.(closeWriter).CloseWrite()
		<-done
	case "client-abort":
		go func() { buf := make([]byte, 4096); _, _ = conn.Read(buf) }()
		_ = writeChunks(conn, C[:len(C)/2], s.Chunk, 0)
		_ = raw.(*net.TCPConn).SetLinger(0)
		_ = raw.Close()
		close(clientGotEOF)
	}
	_ = eofBeforeSend

	// (d) handler returns, upstream connections closed
	returned := rec.WaitDone("span", watchdog)
	_ = conn.Close()
	reached := false
	for _, us := range ups {
		if len(us.up.Conns()) > 0 {
			reached = true
		}
	}
	for _, e := range rec.Events() {
		if e.Kind == "exit" && e.Who == "span" && strings.Contains(e.S, "dial ") {
			// the proxy could not even connect to an upstream (seen: "connect: connection reset by peer" from the
			// kernel while another peer of the same session was being reset): nothing was relayed, nothing to judge
			c.Inconclusive("upstream dial failed: " + e.S[:min(len(e.S), 60)])
			c.Case(fw.Hash("dialfail", s.Order), false, nil)
			_ = conn.Close()
			return
		}
	}
	if !returned && !graceful && !reached && rec.Count("enter", "span") == 0 {
		// the connection was torn down before the proxy handler was reached: nothing to judge
		c.Inconclusive("abrupt close before the proxy handler started")
		c.Case(fw.Hash("unreached", s.Order), false, nil)
		return
	}
	if !returned && os.Getenv("VERIF_C03_DEBUG") != "" {
		fmt.Printf("DEBUG not returned: events=%+v upstream conns=%d tracked id=%s\n", rec.Events(), len(ups[0].up.Conns()), hmods.RealConnID(raw.LocalAddr().String(), raw.RemoteAddr().String()))
	}
	if !returned {
		if canary.MaxOversleep() > 5*time.Second {
			c.Inconclusive("noisy scheduler")
		} else {
			n, stack := oracle.GoroutinesIn("l4proxy.(*Handler)")
			report("handler-never-returned", "the proxy handler did not return within 60 s after both sides had finished", map[string]any{"goroutines_in_l4proxy": n, "first_stack": stack, "events": rec.Events(), "tracked_id": rec.ID, "t": vnet.Now().String()})
		}
	}
	for pi, us := range ups {
		for _, uc := range us.up.Conns() {
			select {
			case <-uc.Done():
			case <-time.After(20 * time.Second):
				report("upstream-conn-not-closed", fmt.Sprintf("upstream %d still has an open connection 20 s after the handler returned", pi), nil)
			}
		}
	}
	// (a) (b) (c)
	for pi, us := range ups {
		conns := us.up.Conns()
		if !graceful && len(conns) == 0 {
			continue // an abrupt close may end the session before every peer was dialled
		}
		if len(conns) != 1 {
			report("upstream-conn-count", fmt.Sprintf("upstream peer %d saw %d connections for one proxied session", pi, len(conns)), nil)
			continue
		}
		recv := conns[0].Received()
		if graceful {
			if d := oracle.Diff(recv, C); d != "" {
				report("client-to-upstream "+oracle.DiffKind(recv, C), fmt.Sprintf("upstream peer %d did not receive exactly the client's stream: %s", pi, d), nil)
			}
			if eof, _, rerr := conns[0].SawEOF(); !eof {
				report("half-close-not-propagated-to-upstream", fmt.Sprintf("upstream peer %d did not observe a clean end-of-stream after the client half-closed (read error %q)", pi, rerr), nil)
			}
		} else if len(recv) > len(C) || string(recv) != string(C[:len(recv)]) {
			report("client-to-upstream not-a-prefix", fmt.Sprintf("upstream peer %d received bytes that are not a prefix of the client's stream: %s", pi, oracle.Diff(recv, C)), nil)
		}
	}
	if s.Order == "peer-reset-mixed" {
		// the peer that did not reset must still be told that the client's direction is over (it answers only then)
		other := 1 - s.ResetPeer
		if conns := ups[other].up.Conns(); len(conns) == 1 {
			if eof, _, rerr := conns[0].SawEOF(); !eof {
				report("half-close-not-propagated-to-upstream", fmt.Sprintf("upstream peer %d did not observe end-of-stream after the client half-closed while peer %d had reset its connection (read error %q)", other, s.ResetPeer, rerr), nil)
			}
		}
	}
	if graceful {
		if !clientEOF {
			report("half-close-not-propagated-to-client", "the client did not observe a clean end-of-stream after every upstream had finished sending", nil)
		}
		if len(ups) == 1 {
			if d := oracle.Diff(got, ups[0].U); d != "" {
				report("upstream-to-client "+oracle.DiffKind(got, ups[0].U), "the client did not receive exactly the upstream's stream: "+d, nil)
			}
		} else if !interleavingOf(got, ups[0].U, ups[1].U) {
			report("upstream-to-client not-an-interleaving", fmt.Sprintf("the client received %d bytes that are not an order-preserving interleaving of the two upstream streams (%d + %d bytes)", len(got), len(ups[0].U), len(ups[1].U)), nil)
		}
	}
	nt := (s.CLen > 0 && s.ULen > 0) || !graceful
	c.Obs("sessions_"+s.Order, 1)
	c.Obs("bytes_relayed", int64(s.CLen*len(ups)+len(got)))
	c.Case(fw.Hash(s.UpNet, s.UpTLS12, s.Peers, s.DownTLS, s.TLS12, s.PP, s.PPMatch, s.FirstSeg, s.FallSub, s.Prefetch, s.CLen, s.ULen, s.Order, s.Chunk, s.DelayUs > 0), nt, func() any { return s })
}

// interleavingOf reports whether got is an order-preserving interleaving of a and b. Both streams are PRF content
// from different domains, so a greedy two-pointer walk with backtracking only where both candidates agree suffices.
func interleavingOf(got, a, b []byte) bool {
	if len(got) != len(a)+len(b) {
		return false
	}
	// dynamic programming over (i, j) is quadratic; streams are chunked by the relay in >=1-byte pieces, so use a
	// frontier set that stays tiny for distinguishable content
	frontier := map[int]bool{0: true} // set of i (bytes taken from a); j = k - i
	for k := 0; k < len(got); k++ {
		next := map[int]bool{}
		for i := range frontier {
			j := k - i
			if i < len(a) && a[i] == got[k] {
				next[i+1] = true
			}
			if j < len(b) && b[j] == got[k] {
				next[i] = true
			}
		}
		if len(next) == 0 {
			return false
		}
		frontier = next
	}
	return true
}

func replay(c *fw.Ctx, raw json.RawMessage) {
	var w struct {
		Session *Session `json:"session"`
	}
	if err := json.Unmarshal(raw, &w); err != nil || w.Session == nil {
		fmt.Println("replay: cannot decode session:", err)
		return
	}
	hmods.Quiet(c.OutDir + "/caddyhome")
	cert, err := tlsutil.NewCert("verif.test")
	if err != nil {
		fmt.Println("replay:", err)
		return
	}
	if err := caddy.Load([]byte(tlsutil.CaddyConfig(cert, nil)), true); err != nil {
		fmt.Println("replay:", err)
		return
	}
	canary := oracle.StartCanary()
	defer canary.Stop()
	if w.Session.Peers > 0 && w.Session.Order == "" {
		var d struct {
			Session *DialFail `json:"session"`
		}
		if json.Unmarshal(raw, &d) == nil && d.Session != nil {
			debug.SetGCPercent(-1)
			runDialFail(c, canary, d.Session)
			_ = caddy.Stop()
			return
		}
	}
	runSession(c, &world{cert: cert, dir: c.OutDir}, canary, w.Session)
	_ = caddy.Stop()
}
