package c03

import (
	"fmt"
	"io"
	"net"
	"runtime"
	"runtime/debug"
	"strings"
	"sync"
	"time"

	"github.com/caddyserver/caddy/v2"

	"verifharness/drive"
	"verifharness/fw"
	"verifharness/hmods"
	"verifharness/oracle"
	"verifharness/vnet"
)

// DialFail is one session whose upstream has several peers, one of which refuses connections (for ever, or until it
// comes back while the handler is still retrying). Every connection the handler opened to the other peers in an
// abandoned attempt has to be closed when the handler returns.
//
// These sessions run with the garbage collector switched off: a net.Conn that is dropped without Close is closed
// by its finalizer at some later collection, which would let a leaked upstream connection look like a closed one.
type DialFail struct {
	Index    int  `json:"index"`
	Peers    int  `json:"peers"`     // 2 or 3
	FailPeer int  `json:"fail_peer"` // index of the refusing peer
	TryMs    int  `json:"try_ms"`    // lb try_duration (0 = single attempt)
	Recover  bool `json:"recover"`   // the refusing peer starts listening while the handler retries
	CLen     int  `json:"c_len"`
	ULen     int  `json:"u_len"`
	PPv      int  `json:"proxy_protocol"` // 0, 1, 2: header sent to every peer before relaying
	// Reset: the failing peer does not refuse the connection, it accepts and resets it at once: the dial succeeds and
	// (with a PROXY header configured) the write of the header may fail
	Reset bool `json:"reset,omitempty"`
}

func genDialFail(seed int64, i int) *DialFail {
	r := fw.Rand(seed, "c03df", i)
	d := &DialFail{Index: i}
	d.Peers = 2 + r.Intn(2)
	d.FailPeer = r.Intn(d.Peers)
	if r.Intn(3) != 0 && d.FailPeer == 0 {
		d.FailPeer = d.Peers - 1 // mostly a later peer: earlier ones are connected by then
	}
	d.TryMs = []int{0, 300, 600}[r.Intn(3)]
	d.Recover = d.TryMs > 0 && r.Intn(2) == 0
	d.CLen = []int{1, 100, 5000}[r.Intn(3)]
	d.ULen = []int{1, 100, 5000}[r.Intn(3)]
	d.PPv = []int{0, 0, 1, 2}[r.Intn(4)]
	if r.Intn(2) == 0 {
		d.Reset, d.Recover = true, false
		if d.PPv == 0 {
			d.PPv = 1 + r.Intn(2)
		}
	}
	return d
}

func runDialFailMode(c *fw.Ctx) {
	debug.SetGCPercent(-1)
	canary := oracle.StartCanary()
	defer canary.Stop()
	n := c.Pick(120, 1200)
	baseFDs := countFDs()
	fdReported := false
	var mine []int
	for i := 0; i < n; i++ {
		if c.Mine(i) {
			mine = append(mine, i)
		}
	}
	for w := 0; w < len(mine); w += 6 {
		var wg sync.WaitGroup
		for _, i := range mine[w:min(w+6, len(mine))] {
			wg.Add(1)
			go func(i int) {
				defer wg.Done()
				runDialFail(c, canary, genDialFail(c.Seed, i))
			}(i)
		}
		wg.Wait()
		// no session is in flight: every socket the handlers opened must be closed by now (the collector is off, so
		// a connection that was dropped without Close keeps its descriptor)
		fds := countFDs()
		for dl := time.Now().Add(3 * time.Second); fds > baseFDs && time.Now().Before(dl); fds = countFDs() {
			time.Sleep(10 * time.Millisecond)
		}
		if fds > baseFDs && !fdReported {
			fdReported = true
			var kinds []string
			for _, i := range mine[w:min(w+6, len(mine))] {
				d := genDialFail(c.Seed, i)
				kinds = append(kinds, fmt.Sprintf("peers=%d fail=%d try=%dms recover=%v pp=v%d reset=%v", d.Peers, d.FailPeer, d.TryMs, d.Recover, d.PPv, d.Reset))
			}
			c.Violation("C03 fd-leak [dial-failure]", fmt.Sprintf("%d file descriptors more than at the start are still open after a wave of dial-failure sessions finished (collector off): a connection the handler opened was dropped without Close", fds-baseFDs), map[string]any{"wave": kinds})
		}
		if w%60 == 54 && !fdReported {
			runtime.GC() // every session so far has been judged
		}
	}
	if n, first := oracle.WaitGoroutinesGone("l4proxy.(*Handler)", 10*time.Second); n > 0 {
		c.Violation("C03 goroutine-left-in-proxy", fmt.Sprintf("%d goroutine(s) still inside l4proxy after all sessions finished", n), map[string]any{"stack": first})
	}
	deadline := time.Now().Add(5 * time.Second)
	fds := countFDs()
	for fds > baseFDs+2 && time.Now().Before(deadline) {
		time.Sleep(20 * time.Millisecond)
		fds = countFDs()
	}
	c.ObsMax("fd_delta_after_all_sessions", int64(fds-baseFDs))
}

func runDialFail(c *fw.Ctx, canary *oracle.Canary, d *DialFail) {
	report := func(kind, what string, extra any) {
		c.Violation(fmt.Sprintf("C03 %s [dial-failure, peers=%d, try=%dms, recover=%v]", kind, d.Peers, d.TryMs, d.Recover), what, map[string]any{"session": d, "detail": extra})
	}
	C := oracle.Stream(domClient, uint64(fw.Mix(c.Seed, "dfc", d.Index)), d.CLen)
	U := make([][]byte, d.Peers)
	handlerFor := func(p int) func(uc *drive.UpConn) {
		return func(uc *drive.UpConn) {
			defer uc.Conn.Close()
			uc.ReadAllRecord()
			_, _ = uc.Conn.Write(U[p])
		}
	}
	ups := make([]*drive.Upstream, d.Peers)
	var upMu sync.Mutex
	var dials []string
	res, err := drive.ReservePort()
	if err != nil {
		c.Inconclusive("reserve port: " + err.Error())
		return
	}
	defer res.Release()
	for p := 0; p < d.Peers; p++ {
		U[p] = oracle.Stream(domUp, uint64(fw.Mix(c.Seed, "dfu", d.Index, p)), d.ULen)
		if p == d.FailPeer && d.Reset {
			// accept and reset at once, in the accept loop itself: the sooner the RST is out, the more often the proxy's
			// write of the PROXY header finds the connection already reset
			l, err := net.Listen("tcp", "127.0.0.1:0")
			if err != nil {
				c.Inconclusive("cannot start upstream: " + err.Error())
				return
			}
			defer l.Close()
			go func() {
				for {
					cn, err := l.Accept()
					if err != nil {
						return
					}
					if tc, ok := cn.(*net.TCPConn); ok {
						_ = tc.SetLinger(0)
					}
					_ = cn.Close()
				}
			}()
			dials = append(dials, "tcp/"+l.Addr().String())
			continue
		}
		if p == d.FailPeer {
			dials = append(dials, "tcp/"+res.HostPort)
			continue
		}
		up, err := drive.NewUpstream("tcp", c.OutDir, nil, handlerFor(p))
		if err != nil {
			c.Inconclusive("cannot start upstream: " + err.Error())
			return
		}
		defer up.Close()
		ups[p] = up
		dials = append(dials, up.Addr)
	}
	proxy := map[string]any{"handler": "proxy", "upstreams": []any{map[string]any{"dial": dials}}}
	if d.TryMs > 0 {
		proxy["load_balancing"] = map[string]any{"try_duration": fmt.Sprintf("%dms", d.TryMs), "try_interval": "40ms"}
	}
	if d.PPv > 0 {
		proxy["proxy_protocol"] = fmt.Sprintf("v%d", d.PPv)
	}
	route := map[string]any{"handle": []any{map[string]any{"handler": "verif_span", "name": "span"}, proxy}}
	name := vnet.UniqueName("c03df")
	cfg := fmt.Sprintf(`{"servers":{"s":{"listen":["veriftcp/%s:1"],"routes":%s}}}`, name, drive.J([]any{route}))
	ctx, cancel := caddy.NewContext(caddy.ActiveContext())
	app, err := hmods.LoadApp(ctx, cfg)
	if err == nil {
		err = app.Start()
	}
	if err != nil {
		cancel()
		report("config-rejected", err.Error(), cfg)
		return
	}
	defer func() { _ = app.Stop(); cancel() }()
	addr, _ := vnet.RealTCPAddr(name)
	raw, err := net.Dial("tcp", addr)
	if err != nil {
		c.Inconclusive("dial: " + err.Error())
		return
	}
	defer raw.Close()
	rec := hmods.Track(hmods.RealConnID(raw.LocalAddr().String(), raw.RemoteAddr().String()))
	defer rec.Release()
	_ = raw.SetDeadline(time.Now().Add(60 * time.Second))

	recovered := make(chan struct{})
	if d.Recover {
		go func() {
			defer close(recovered)
			time.Sleep(time.Duration(d.TryMs/3) * time.Millisecond)
			l, err := res.Listen()
			if err != nil {
				return
			}
			up := drive.NewUpstreamOn(l, handlerFor(d.FailPeer))
			upMu.Lock()
			ups[d.FailPeer] = up
			upMu.Unlock()
		}()
	} else {
		close(recovered)
	}
	_, _ = raw.Write(C)
	_ = raw.(*net.TCPConn).CloseWrite()
	got, _ := io.ReadAll(raw)
	returned := rec.WaitDone("span", 30*time.Second)
	<-recovered
	upMu.Lock()
	if up := ups[d.FailPeer]; up != nil {
		defer up.Close()
	}
	upMu.Unlock()
	if !returned {
		if canary.MaxOversleep() > 5*time.Second {
			c.Inconclusive("noisy scheduler")
			return
		}
		report("handler-never-returned", "the proxy handler did not return within 30 s", map[string]any{"events": rec.Events()})
		return
	}
	spanErr := ""
	for _, e := range rec.Events() {
		if e.Kind == "exit" && e.Who == "span" {
			spanErr = e.S
		}
	}
	relayed := spanErr == ""
	// every connection the handler opened is closed once it has returned: the peers' servers see end-of-stream
	// or an error on each of them (1 s is ample on loopback; the collector is off, so nothing else closes them)
	abandoned, total := 0, 0
	for p := 0; p < d.Peers; p++ {
		upMu.Lock()
		up := ups[p]
		upMu.Unlock()
		if up == nil {
			continue
		}
		full := 0
		for _, uc := range up.Conns() {
			total++
			select {
			case <-uc.Done():
			case <-time.After(3 * time.Second):
				report("upstream-conn-not-closed", fmt.Sprintf("a connection the handler opened to peer %d (attempt abandoned because peer %d refused) is still open 3 s after the handler returned: the peer has seen neither end-of-stream nor an error", p, d.FailPeer), map[string]any{"received_bytes": len(uc.Received()), "handler_error": spanErr})
				continue
			}
			recv := uc.Received()
			if d.PPv > 0 {
				recv = stripPP(recv, d.PPv)
			}
			switch {
			case len(recv) == 0:
				abandoned++
			case string(recv) == string(C):
				full++
			case d.Reset && len(recv) <= len(C) && string(recv) == string(C[:len(recv)]):
				// (a peer that resets breaks the relay at an arbitrary point: the others get a prefix)
			default:
				report("client-to-upstream "+oracle.DiffKind(recv, C), fmt.Sprintf("peer %d received a stream that is neither empty (abandoned attempt) nor the client's stream: %s", p, oracle.Diff(recv, C)), nil)
			}
		}
		if relayed && full != 1 && !d.Reset {
			report("upstream-conn-count", fmt.Sprintf("the session was relayed, yet peer %d received the client's stream on %d connections", p, full), nil)
		}
		if !relayed && full != 0 {
			report("relayed-despite-failure", fmt.Sprintf("the handler failed with %q, yet peer %d received the client's stream", spanErr, p), nil)
		}
	}
	if !d.Recover && relayed && !d.Reset {
		report("no-error-for-refused-peer", "one peer refused every connection, yet the handler reported success", nil)
	}
	if relayed && !d.Reset {
		want := 0
		for p := range U {
			want += len(U[p])
		}
		if len(got) != want {
			report("upstream-to-client wrong-length", fmt.Sprintf("the client received %d bytes, the peers sent %d", len(got), want), nil)
		}
	}
	if d.Reset {
		cat := "relayed"
		switch {
		case strings.Contains(spanErr, "write"):
			cat = "header-write-failed"
		case strings.Contains(spanErr, "dial"):
			cat = "dial-failed"
		case spanErr != "":
			cat = "other-error"
		}
		c.Obs("dialfail_reset_peer_"+cat, 1)
	}
	c.Obs("dialfail_sessions", 1)
	c.Obs("dialfail_abandoned_upstream_conns_closed", int64(abandoned))
	c.Case(fw.Hash("dialfail", d.Peers, d.FailPeer, d.TryMs, d.Recover, d.PPv, relayed, abandoned > 0), total > 0, func() any {
		return map[string]any{"session": d, "relayed": relayed, "abandoned": abandoned, "error": spanErr}
	})
}

// stripPP removes a PROXY protocol header (v1 line or v2 block) from the front of b; b is returned unchanged when
// it does not start with one.
func stripPP(b []byte, v int) []byte {
	if v == 1 {
		if i := strings.Index(string(b), "\r\n"); i >= 0 && strings.HasPrefix(string(b), "PROXY ") {
			return b[i+2:]
		}
		return b
	}
	if len(b) >= 16 && string(b[:12]) == "\r\n\r\n\x00\r\nQUIT\n" {
		n := int(b[14])<<8 | int(b[15])
		if len(b) >= 16+n {
			return b[16+n:]
		}
	}
	return b
}
