// Package c01 monitors "match-and-rewind": whatever matchers inspected, every
// consuming handler reads the client's stream exactly once and in order.
package c01

import (
	"crypto/tls"
	"encoding/json"
	"errors"
	"fmt"
	"io"
	"math/rand"
	"net"
	"strings"
	"time"

	"github.com/caddyserver/caddy/v2"

	"verifharness/drive"
	"verifharness/fw"
	"verifharness/hmods"
	"verifharness/oracle"
	"verifharness/ref"
	"verifharness/tlsutil"
	"verifharness/vnet"
)

const streamDomain = 0xC01

func init() {
	fw.Register(&fw.Prop{
		ID: "C01",
		Rule: "case = (generated route list with scripted/shipped matchers and a chain of shipped wrapping handlers " +
			"[throttle, tee, subroute, proxy_protocol, tls, echo] plus recording take/sink consumers, PRF stream of length 0..40KiB, " +
			"segmentation class); oracle: concatenation of what each consumer read == the expected slice of the client's stream " +
			"(tee branch == main chain from the tee point; echo == stream). non-trivial = some matcher needed >=1 byte and some consumer read >=1 byte; " +
			"distinct = hash(config shape, segmentation class, stream-length bucket). udp children: 1-3 clients of a scripted packet listener send 1-12 datagrams of 1..4096 bytes each (interleaved, " +
			"mostly queued at once); routes: optional non-terminal take route (with or without a matcher that needs up to 6000 bytes), consumer route (with or without such a matcher) reading " +
			"exactly the rest with read sizes 1..9000, optionally inside a subroute; oracle: take read the first bytes, the consumer the rest of the client's datagram stream. prologue handlers (proxy_protocol, tls) may sit in a route of their own, in front of a subroute or chain, or inside a non-terminal subroute that the consuming chain follows",
		Assumptions: []string{
			"scripted in-memory transport (vnet) stands in for TCP; segments are delivered one per Read",
			"third-party handlers are out of scope; only shipped wrapping handlers and harness consumers are composed",
			"every scripted matcher's total need stays within the matching limit so that a dropped connection is never legitimate",
		},
		MinEvals: 200,
		Plan: func(tier string) []fw.ChildSpec {
			if tier == "thorough" {
				return []fw.ChildSpec{
					{Name: "plain", Mode: "plain", Shards: 12, Timeout: 40 * time.Minute, Env: []string{"VERIF_POISON=1"}},
					{Name: "tls", Mode: "tls", Shards: 3, Timeout: 40 * time.Minute, Env: []string{"VERIF_POISON=1"}},
					{Name: "realtcp", Mode: "realtcp", Shards: 4, Timeout: 40 * time.Minute, Env: []string{"VERIF_POISON=1"}},
					{Name: "udp", Mode: "udp", Shards: 2, Timeout: 40 * time.Minute, Env: []string{"VERIF_POISON=1"}},
					{Name: "plain-race", Mode: "plain-race", Race: true, Shards: 4, Timeout: 40 * time.Minute},
				}
			}
			return []fw.ChildSpec{
				{Name: "plain", Mode: "plain", Shards: 10, Timeout: 8 * time.Minute, Env: []string{"VERIF_POISON=1"}},
				{Name: "tls", Mode: "tls", Shards: 2, Timeout: 8 * time.Minute, Env: []string{"VERIF_POISON=1"}},
				{Name: "realtcp", Mode: "realtcp", Shards: 2, Timeout: 8 * time.Minute, Env: []string{"VERIF_POISON=1"}},
				{Name: "udp", Mode: "udp", Shards: 1, Timeout: 8 * time.Minute, Env: []string{"VERIF_POISON=1"}},
			}
		},
		Run:    run,
		Replay: replay,
	})
}

// Expect says which slice of the client's stream a named consumer must read.
type Expect struct {
	Name string `json:"name"`
	From int    `json:"from"`
	Len  int    `json:"len"` // -1 = to the end of the stream
}

// Config is one generated configuration together with its expectations.
type Config struct {
	Index     int      `json:"index"`
	Routes    string   `json:"routes"`
	StreamID  uint64   `json:"stream_id"`
	StreamLen int      `json:"stream_len"`
	Prologue  string   `json:"prologue"` // "", "proxy1", "proxy2", "tls"
	Header    []byte   `json:"header,omitempty"`
	Expects   []Expect `json:"expects"`
	Echo      bool     `json:"echo"`
	EchoFrom  int      `json:"echo_from"`
	Shape     string   `json:"shape"`
	MaxNeed   int      `json:"max_need"`
}

// Case is one execution: a configuration plus a segmentation of the wire bytes.
type Case struct {
	Cfg        *Config `json:"cfg"`
	SegClass   string  `json:"seg_class"`
	SegSeed    int64   `json:"seg_seed"`
	PauseEvery int     `json:"pause_every"`
}

type builder struct {
	r        *rand.Rand
	S        []byte
	off      int // stream bytes consumed by handlers so far
	wireOff  int // bytes of wire that precede S in the current buffer domain (PROXY header)
	expects  []Expect
	tees     []Expect
	shape    []string
	names    int
	maxNeed  int
	echo     bool
	echoFrom int
	// floor: within one route list every matcher of a later route needs at least as
	// many bytes as decides the previous route, so that a later route can only answer
	// "more" while an earlier one is still undecided (otherwise the router may
	// legitimately evaluate it at an offset it was not designed for).
	floor  int
	curMax int
}

func (b *builder) name(prefix string) string {
	b.names++
	return fmt.Sprintf("%s%d", prefix, b.names)
}

var needChoices = []int{1, 1, 2, 3, 17, 100, 600, 2047, 2048, 2049, 4096, 5000, 8191, 8192}

// limit is the largest need a matcher at the current offset may have.
func (b *builder) limit() int {
	remaining := len(b.S) - b.off
	limit := 8192 - b.off - b.wireOff
	if remaining < limit {
		limit = remaining
	}
	return limit
}

// feasible reports whether another route with matchers can be added to the current route list.
func (b *builder) feasible() bool {
	lo := b.floor
	if lo < 1 {
		lo = 1
	}
	return b.limit() >= lo
}

// need picks how many bytes a matcher wants: at least floor, and offset+need within the matching limit.
func (b *builder) need() int {
	limit := b.limit()
	lo := b.floor
	if lo < 1 {
		lo = 1
	}
	if limit < lo {
		return 0
	}
	if b.r.Intn(6) == 0 {
		return limit // everything up to the end of the stream (or the matching limit): the matcher needs the client's last bytes
	}
	for tries := 0; tries < 8; tries++ {
		n := needChoices[b.r.Intn(len(needChoices))]
		if n <= limit && n >= lo {
			return n
		}
	}
	return lo + b.r.Intn(limit-lo+1)
}

var patterns = []string{"full", "full", "sip", "peek", "over"}

func (b *builder) spec(id string, yes bool) map[string]any {
	n := b.need()
	if n == 0 {
		return map[string]any{"id": id, "need": 0, "const": yes}
	}
	if n > b.maxNeed {
		b.maxNeed = n
	}
	if n > b.curMax {
		b.curMax = n
	}
	at := b.r.Intn(n)
	m := map[string]any{"id": id, "need": n, "at": at, "eq": int(b.S[b.off+at]), "neg": !yes,
		"pattern": patterns[b.r.Intn(len(patterns))]}
	if m["pattern"] == "sip" {
		m["sip"] = []int{1, 3, 64, 1000}[b.r.Intn(4)]
	}
	return m
}

// matcherSets returns the "match" value of a route that evaluates to yes/no on the stream at the current offset.
func (b *builder) matcherSets(yes bool) []any {
	b.curMax = 0
	defer func() {
		if b.curMax > b.floor {
			b.floor = b.curMax
		}
	}()
	switch k := b.r.Intn(10); {
	case k == 0 && yes && b.floor == 0:
		b.shape = append(b.shape, "m:none")
		return nil // no matchers: matches everything
	case k <= 2:
		// two matchers ANDed in one set
		b.shape = append(b.shape, "m:and")
		s1 := b.spec(b.name("m"), true)
		s2 := b.spec(b.name("m"), yes)
		return []any{map[string]any{"verif_m1": s1, "verif_m2": s2}}
	case k == 3:
		// two sets ORed: first says no, second decides
		b.shape = append(b.shape, "m:or")
		s1 := b.spec(b.name("m"), false)
		s2 := b.spec(b.name("m"), yes)
		return []any{map[string]any{"verif_m1": s1}, map[string]any{"verif_m2": s2}}
	case k == 4:
		// not-wrapped
		b.shape = append(b.shape, "m:not")
		s1 := b.spec(b.name("m"), !yes)
		return []any{map[string]any{"not": []any{map[string]any{"verif_m3": s1}}}}
	default:
		s := b.spec(b.name("m"), yes)
		b.shape = append(b.shape, fmt.Sprintf("m:%v:%s", s["pattern"], bucket(asInt(s["need"]))))
		return []any{map[string]any{"verif_m1": s}}
	}
}

func asInt(v any) int {
	if i, ok := v.(int); ok {
		return i
	}
	return 0
}

func bucket(n int) string {
	switch {
	case n == 0:
		return "0"
	case n < 16:
		return "s"
	case n < 2047:
		return "m"
	case n <= 2049:
		return "edge2k"
	case n < 8191:
		return "l"
	default:
		return "edge8k"
	}
}

var takeChoices = []int{0, 1, 5, 100, 2047, 2048, 2049, 3000, 10000}
var sinkBufs = []int{1, 7, 512, 4096, 32768}

func (b *builder) take() map[string]any {
	k := takeChoices[b.r.Intn(len(takeChoices))]
	if rem := len(b.S) - b.off; k > rem {
		k = rem
	}
	name := b.name("take")
	b.expects = append(b.expects, Expect{Name: name, From: b.off, Len: k})
	b.off += k
	b.shape = append(b.shape, "take:"+bucket(k))
	return map[string]any{"handler": "verif_take", "name": name, "n": k}
}

func (b *builder) throttle() map[string]any {
	b.shape = append(b.shape, "throttle")
	switch b.r.Intn(3) {
	case 0:
		return map[string]any{"handler": "throttle", "read_bytes_per_second": 1e9, "read_burst_size": 1 << 20}
	case 1:
		return map[string]any{"handler": "throttle", "read_bytes_per_second": 5e7, "read_burst_size": 7,
			"total_read_bytes_per_second": 1e9, "total_read_burst_size": 100000}
	default:
		return map[string]any{"handler": "throttle", "total_read_bytes_per_second": 1e9, "total_read_burst_size": 4096}
	}
}

func (b *builder) tee() map[string]any {
	name := b.name("branch")
	b.tees = append(b.tees, Expect{Name: name, From: b.off, Len: -1})
	b.shape = append(b.shape, "tee")
	return map[string]any{"handler": "tee", "branch": []any{
		map[string]any{"handler": "verif_sink", "name": name, "bufsize": sinkBufs[b.r.Intn(len(sinkBufs))]}}}
}

func (b *builder) terminal() map[string]any {
	if b.r.Intn(5) == 0 {
		b.shape = append(b.shape, "echo")
		b.echo = true
		b.echoFrom = b.off
		b.off = len(b.S)
		return map[string]any{"handler": "echo"}
	}
	name := b.name("sink")
	bs := sinkBufs[b.r.Intn(len(sinkBufs))]
	b.expects = append(b.expects, Expect{Name: name, From: b.off, Len: -1})
	b.off = len(b.S)
	b.shape = append(b.shape, fmt.Sprintf("sink:%d", bs))
	return map[string]any{"handler": "verif_sink", "name": name, "bufsize": bs}
}

// chain builds a handler list; if terminal it ends with a consumer that reads to EOF.
func (b *builder) chain(depth int, terminal bool) []any {
	var hs []any
	n := b.r.Intn(3)
	for i := 0; i < n; i++ {
		switch b.r.Intn(6) {
		case 0, 1:
			hs = append(hs, b.take())
		case 2:
			hs = append(hs, b.throttle())
		case 3:
			hs = append(hs, b.tee())
		case 4:
			if depth < 2 {
				// non-terminal nested subroute: its routes consume a bit, then the outer chain continues
				b.shape = append(b.shape, "sub(")
				hs = append(hs, map[string]any{"handler": "subroute", "matching_timeout": "30s", "routes": b.routes(depth+1, false, 0)})
				b.shape = append(b.shape, ")")
			}
		}
	}
	if terminal {
		if depth < 2 && b.r.Intn(4) == 0 {
			b.shape = append(b.shape, "sub(")
			hs = append(hs, map[string]any{"handler": "subroute", "matching_timeout": "30s", "routes": b.routes(depth+1, true, 0)})
			b.shape = append(b.shape, ")")
		} else {
			hs = append(hs, b.terminal())
		}
	}
	return hs
}

// routes builds a route list evaluated at the current offset.
func (b *builder) routes(depth int, terminal bool, floor0 int) []any {
	savedFloor := b.floor
	b.floor = floor0
	defer func() { b.floor = savedFloor }()
	var rs []any
	lastReal := -1
	stuck := func() bool { return b.floor > 0 && !b.feasible() }
	decoy := func() {
		if stuck() {
			return
		}
		fl, nshape := b.floor, len(b.shape)
		d := map[string]any{"match": b.matcherSets(false), "handle": []any{
			map[string]any{"handler": "verif_sink", "name": b.name("WRONG")}}}
		if stuck() {
			// a decoy must never be the reason why no further route can be added
			b.floor = fl
			b.shape = b.shape[:nshape]
			return
		}
		b.shape = append(b.shape, "decoy")
		rs = append(rs, d)
	}
	if b.r.Intn(3) == 0 {
		decoy()
	}
	// non-terminal routes
	for n := b.r.Intn(3); n > 0 && !stuck(); n-- {
		ms := b.matcherSets(true)
		var hs []any
		switch b.r.Intn(4) {
		case 0:
			hs = append(hs, b.throttle(), b.take())
		case 1:
			hs = append(hs, b.take(), b.take())
		default:
			hs = append(hs, b.take())
		}
		r := map[string]any{"handle": hs}
		if ms != nil {
			r["match"] = ms
		}
		rs = append(rs, r)
		lastReal = len(rs) - 1
		b.shape = append(b.shape, "|")
		if b.r.Intn(4) == 0 {
			decoy()
		}
	}
	if terminal {
		if stuck() && lastReal >= 0 {
			// no room for another matcher: the consuming chain continues in the last route
			r := rs[lastReal].(map[string]any)
			r["handle"] = append(r["handle"].([]any), b.chain(depth, true)...)
			return rs
		}
		ms := b.matcherSets(true)
		r := map[string]any{"handle": b.chain(depth, true)}
		if ms != nil {
			r["match"] = ms
		}
		rs = append(rs, r)
	}
	return rs
}

var lenChoices = []int{0, 1, 2, 11, 12, 100, 1500, 2047, 2048, 2049, 4096, 5000, 8191, 8192, 8193, 10240, 20000, 40960}

func genConfig(seed int64, index int, prologue string) *Config {
	r := fw.Rand(seed, "c01cfg", index, prologue)
	n := lenChoices[r.Intn(len(lenChoices))]
	if r.Intn(4) == 0 {
		n = r.Intn(12000)
	}
	id := uint64(fw.Mix(seed, "c01stream", index, prologue))
	S := oracle.Stream(streamDomain, id, n)
	b := &builder{r: r, S: S}
	cfg := &Config{Index: index, StreamID: id, StreamLen: n, Prologue: prologue}
	var rs []any
	var pr map[string]any
	decided := 0 // bytes of wire that decide the prologue route
	switch prologue {
	case "proxy1", "proxy2":
		h := &ref.ProxyHeader{Version: 1, Family: "tcp4", SrcIP: net.IPv4(1, 2, 3, 4), DstIP: net.IPv4(5, 6, 7, 8), SrcPort: 1111, DstPort: 2222}
		if prologue == "proxy1" && r.Intn(3) == 0 {
			// the address-less v1 form: the handler keeps the real addresses, the stream behind the header is
			// the client's all the same
			h = &ref.ProxyHeader{Version: 1, Family: "unknown"}
		}
		if prologue == "proxy2" {
			h.Version = 2
			if r.Intn(2) == 0 {
				h.Family = "tcp6"
				h.SrcIP = net.ParseIP("2001:db8::1")
				h.DstIP = net.ParseIP("2001:db8::2")
			}
			if r.Intn(4) == 0 {
				h.Local = true // the LOCAL command (a load balancer's own health check): real addresses, same stream
			}
			// (no TLVs here: the PROXY library in use rejects v2 headers that carry TLVs,
			// so such a header is never "accepted"; C12 records that separately)
		}
		cfg.Header = h.Encode()
		set := map[string]any{"proxy_protocol": map[string]any{}}
		b.shape = append(b.shape, prologue)
		decided = 12
		// optionally force a large prefetch before the PROXY handler runs: an extra
		// scripted matcher on the wire bytes (header followed by the stream)
		if r.Intn(2) == 0 && n > 0 {
			wire := append(append([]byte(nil), cfg.Header...), S...)
			lim := len(wire)
			if lim > 8192 {
				lim = 8192
			}
			need := needChoices[r.Intn(len(needChoices))]
			if need > lim {
				need = lim
			}
			at := r.Intn(need)
			set["verif_m4"] = map[string]any{"id": "wire", "need": need, "at": at, "eq": int(wire[at]), "pattern": "peek"}
			b.shape = append(b.shape, "wire:"+bucket(need))
			if need > b.maxNeed {
				b.maxNeed = need
			}
			if need > decided {
				decided = need
			}
		}
		pr = map[string]any{"match": []any{set}, "handle": []any{map[string]any{"handler": "proxy_protocol"}}}
	case "tls":
		b.shape = append(b.shape, "tls")
		b.maxNeed = 5
		decided = 4096 // larger than any ClientHello crypto/tls emits here
		pr = map[string]any{"match": []any{map[string]any{"tls": map[string]any{}}}, "handle": []any{map[string]any{"handler": "tls"}}}
	}
	if pr == nil {
		rs = b.routes(0, true, 0)
	} else {
		structure := r.Intn(3)
		if structure == 0 && b.limit() < decided {
			structure = 1
		}
		if fw.Rand(seed, "c01structure", index).Intn(5) == 0 {
			structure = 3
		}
		switch structure {
		case 3:
			// the wrapping handler runs inside a (non-terminal) subroute and the consuming chain follows the subroute in the
			// outer route: the connection as the subroute's handlers left it is the one that goes on
			b.shape = append(b.shape, "in-subroute-then-chain")
			rs = []any{map[string]any{"handle": append([]any{map[string]any{"handler": "subroute", "matching_timeout": "30s", "routes": []any{pr}}}, b.chain(0, true)...)}}
		case 0:
			// further top-level routes on the wrapped connection; they can only answer
			// "more" while the prologue route is still undecided
			b.shape = append(b.shape, "then-routes")
			rs = append([]any{pr}, b.routes(0, true, decided)...)
		case 1:
			b.shape = append(b.shape, "then-subroute")
			pr["handle"] = append(pr["handle"].([]any), map[string]any{"handler": "subroute", "matching_timeout": "30s", "routes": b.routes(1, true, 0)})
			rs = []any{pr}
		default:
			b.shape = append(b.shape, "then-chain")
			pr["handle"] = append(pr["handle"].([]any), b.chain(0, true)...)
			rs = []any{pr}
		}
	}
	cfg.Routes = drive.J(rs)
	cfg.Expects = append(b.expects, b.tees...)
	cfg.Echo = b.echo
	cfg.EchoFrom = b.echoFrom
	cfg.Shape = strings.Join(b.shape, " ")
	cfg.MaxNeed = b.maxNeed
	return cfg
}

func lenBucket(n int) string {
	switch {
	case n == 0:
		return "0"
	case n <= 12:
		return "tiny"
	case n < 2047:
		return "sub-chunk"
	case n <= 2049:
		return "chunk-edge"
	case n < 8191:
		return "multi-chunk"
	case n <= 8193:
		return "limit-edge"
	default:
		return "beyond-limit"
	}
}

func run(c *fw.Ctx) {
	hmods.Quiet(c.OutDir + "/caddyhome")
	canary := oracle.StartCanary()
	defer canary.Stop()
	switch c.Mode {
	case "tls":
		runTLS(c, canary)
	case "realtcp":
		runRealTCP(c, canary)
	case "udp":
		runUDP(c)
	default:
		runPlain(c, canary)
	}
}

func runPlain(c *fw.Ctx, canary *oracle.Canary) {
	nCfg := c.Pick(700, 22000)
	if c.Mode == "plain-race" {
		nCfg = 1500
	}
	prologues := []string{"", "", "", "proxy1", "proxy2"}
	for i := 0; i < nCfg; i++ {
		if !c.Mine(i) {
			continue
		}
		cfg := genConfig(c.Seed, i, prologues[i%len(prologues)])
		app, err := drive.StartApp(cfg.Routes, "30s")
		if err != nil {
			c.Violation("C01 config rejected", fmt.Sprintf("generated configuration failed to load: %v", err), cfg)
			continue
		}
		r := fw.Rand(c.Seed, "c01seg", i)
		for k := 0; k < 6; k++ {
			cs := &Case{Cfg: cfg, SegClass: drive.SegClasses[(i+k)%len(drive.SegClasses)], SegSeed: r.Int63()}
			if cfg.StreamLen > 12000 && cs.SegClass == "trickle1" {
				cs.SegClass = "headtrickle"
			}
			if k%3 == 2 {
				cs.PauseEvery = 1 + r.Intn(4)
			}
			runCase(c, canary, cs, func(id string) *vnet.End { cl, _ := app.Dial(id); return cl }, nil)
		}
		app.Stop()
	}
}

var caseSeq int

// runCase plays one scripted client against a started app and checks what every consumer read.
// clientConn is what runCase needs from the client side of a connection (scripted End or real *net.TCPConn).
type clientConn interface {
	net.Conn
	CloseWrite() error
}

func runCase(c *fw.Ctx, canary *oracle.Canary, cs *Case, dial func(id string) *vnet.End, tlsCfg *tls.Config) {
	runCaseOn(c, canary, cs, func(id string) (clientConn, string) { return dial(id), id }, tlsCfg)
}

// runCaseOn: dial returns the client connection and the recorder id under which the harness modules will find it.
func runCaseOn(c *fw.Ctx, canary *oracle.Canary, cs *Case, dial func(id string) (clientConn, string), tlsCfg *tls.Config) {
	cfg := cs.Cfg
	caseSeq++
	S := oracle.Stream(streamDomain, cfg.StreamID, cfg.StreamLen)
	canary.Reset()
	// (track before the connection is offered: a handler of a matcher-less first route runs at once)
	name := fmt.Sprintf("c01-%d-%d-%d", c.Shard, cfg.Index, caseSeq)
	rec := hmods.Track(name)
	client, id := dial(name)
	if client == nil {
		rec.Release()
		c.Inconclusive("dial failed")
		return
	}
	if id != name {
		rec.Release()
		rec = hmods.Track(id) // real sockets: the id is the 4-tuple, known only now (earlier events are adopted)
	}
	defer rec.Release()
	_ = client.SetReadDeadline(time.Now().Add(25 * time.Second))

	r := rand.New(rand.NewSource(cs.SegSeed))
	var received []byte
	if cfg.Prologue == "tls" {
		segs := drive.Segmentation(cs.SegClass, 6000, r)
		if len(segs) > 64 {
			segs = segs[:64]
		}
		if cs.SegSeed%2 == 0 {
			// at most TLS 1.2: the close_notify that follows the client's last record is then reported by the
			// server's tls.Conn together with that record's bytes (n > 0 and io.EOF from one Read)
			tlsCfg = tlsCfg.Clone()
			tlsCfg.MaxVersion = tls.VersionTLS12
		}
		hw := &drive.HoldWriter{Conn: &drive.SegWriter{Conn: client, Sizes: segs}}
		tc := tls.Client(hw, tlsCfg)
		werr := make(chan error, 1)
		go func() {
			if err := tc.Handshake(); err != nil {
				werr <- err
				_ = client.Close()
				return
			}
			// the last piece of the stream and the close_notify behind it leave in one segment in every other case
			// (what a TCP stack does with two small writes in a row)
			last := 0
			if cs.SegSeed%4 < 2 && len(S) > 0 {
				last = 1 + int(cs.SegSeed/4%1400)
				if last > len(S) {
					last = len(S)
				}
			}
			head := S[:len(S)-last]
			app := drive.Segmentation(cs.SegClass, len(head), rand.New(rand.NewSource(cs.SegSeed+1)))
			if err := drive.WriteSegments(tc, head, app, cs.PauseEvery, 50*time.Microsecond); err != nil {
				werr <- err
				return
			}
			if last > 0 {
				hw.Hold()
				if _, err := tc.Write(S[len(S)-last:]); err != nil {
					werr <- err
					return
				}
			}
			err := tc.CloseWrite()
			if ferr := hw.Flush(); err == nil {
				err = ferr
			}
			werr <- err
		}()
		received = drive.ReadAll(tc)
		if err := <-werr; err != nil {
			c.Inconclusive("tls client error: " + trim(err.Error(), 60))
		}
	} else {
		wire := append(append([]byte(nil), cfg.Header...), S...)
		segs := drive.Segmentation(cs.SegClass, len(wire), r)
		go func() {
			_ = drive.WriteSegments(client, wire, segs, cs.PauseEvery, 50*time.Microsecond)
			_ = client.CloseWrite()
		}()
		received = drive.ReadAll(client)
	}
	closed := true
	if e, ok := client.(*vnet.End); ok {
		closed = e.WaitPeerClosed(25 * time.Second)
	} else {
		// real socket: the server closing is observed as EOF; one more read tells EOF from the watchdog
		_ = client.SetReadDeadline(time.Now().Add(2 * time.Second))
		var one [1]byte
		if _, err := client.Read(one[:]); err == nil || !errors.Is(err, io.EOF) {
			closed = false
		}
	}
	for _, e := range cfg.Expects {
		if strings.HasPrefix(e.Name, "branch") {
			rec.WaitDone(e.Name, 5*time.Second)
		}
	}
	_ = client.Close()

	nontrivial := false
	sig := fw.Hash(cfg.Shape, cs.SegClass, lenBucket(cfg.StreamLen), cs.PauseEvery > 0)
	report := func(kind, what string) {
		events := rec.Events()
		if len(events) > 60 {
			events = events[:60]
		}
		c.Violation("C01 "+kind+" ["+shapeClass(cfg)+"]", what, map[string]any{"case": cs, "events": events})
	}
	if !closed {
		if canary.MaxOversleep() > time.Second {
			c.Inconclusive("stall-with-noisy-scheduler")
		} else {
			report("stall", fmt.Sprintf("server did not finish the connection within 25 s after the client half-closed (consumers seen: %v)", rec.Consumers()))
		}
		c.Case(sig, false, nil)
		return
	}
	for _, e := range cfg.Expects {
		want := S[e.From:]
		if e.Len >= 0 {
			want = S[e.From : e.From+e.Len]
		}
		got := rec.Stream(e.Name)
		if len(got) > 0 && cfg.MaxNeed > 0 {
			nontrivial = true
		}
		if d := oracle.Diff(got, want); d != "" {
			kind := oracle.DiffKind(got, want)
			who := "consumer"
			if strings.HasPrefix(e.Name, "branch") {
				who = "tee-branch"
			}
			report(who+" "+kind, fmt.Sprintf("%s %q read a stream that is not the client's stream from offset %d: %s", who, e.Name, e.From, d))
		}
	}
	for _, name := range rec.Consumers() {
		if strings.HasPrefix(name, "WRONG") {
			report("decoy-ran", fmt.Sprintf("handler %q of a route whose matcher evaluates to NO consumed the stream", name))
		}
	}
	if cfg.Echo {
		want := S[cfg.EchoFrom:]
		if len(received) > 0 && cfg.MaxNeed > 0 {
			nontrivial = true
		}
		if d := oracle.Diff(received, want); d != "" {
			report("echo "+oracle.DiffKind(received, want), "bytes echoed back to the client differ from the client's stream: "+d)
		}
	} else if len(received) != 0 {
		report("unexpected-bytes-to-client", fmt.Sprintf("client received %d bytes although no handler writes", len(received)))
	}
	c.Case(sig, nontrivial, func() any {
		return map[string]any{"shape": cfg.Shape, "stream_len": cfg.StreamLen, "seg_class": cs.SegClass, "routes": json.RawMessage(cfg.Routes)}
	})
	c.Obs("consumer_streams_compared", int64(len(cfg.Expects)))
	c.Obs("bytes_compared", int64(cfg.StreamLen))
}

// shapeClass names the most specific wrapper the case exercised (part of a violation's signature).
func shapeClass(cfg *Config) string {
	if strings.Contains(cfg.Shape, "tee") {
		return "tee"
	}
	if strings.HasPrefix(cfg.Prologue, "proxy") {
		return "proxy_protocol"
	}
	if cfg.Prologue == "tls" {
		return "tls"
	}
	for _, k := range []string{"throttle", "sub(", "echo"} {
		if strings.Contains(cfg.Shape, k) {
			return strings.TrimSuffix(k, "(")
		}
	}
	return "plain"
}

func trim(s string, n int) string {
	if len(s) > n {
		return s[:n]
	}
	return s
}

// ---------------------------------------------------------------------------
// TLS mode: the whole configuration is loaded through caddy.Load so that the
// tls app (with a harness certificate) is available to the tls handler.

func runTLS(c *fw.Ctx, canary *oracle.Canary) {
	cert, err := tlsutil.NewCert("verif.test")
	if err != nil {
		c.Note("tls: cannot create certificate: %v", err)
		return
	}
	rounds := c.Pick(4, 60)
	perRound := 12
	idx := 0
	for round := 0; round < rounds; round++ {
		var cfgs []*Config
		var names []string
		servers := map[string]any{}
		for k := 0; k < perRound; k++ {
			idx++
			if !c.Mine(idx) {
				continue
			}
			cfg := genConfig(c.Seed, idx, "tls")
			name := vnet.UniqueName("tlsapp")
			cfgs = append(cfgs, cfg)
			names = append(names, name)
			servers[name] = map[string]any{"listen": []string{"verif/" + name + ":1"}, "routes": json.RawMessage(cfg.Routes), "matching_timeout": "30s"}
		}
		if len(cfgs) == 0 {
			continue
		}
		full := tlsutil.CaddyConfig(cert, map[string]any{"layer4": map[string]any{"servers": servers}})
		if err := caddy.Load([]byte(full), true); err != nil {
			c.Violation("C01 config rejected", fmt.Sprintf("generated TLS configuration failed to load: %v", err), map[string]any{"config": json.RawMessage(full)})
			continue
		}
		r := fw.Rand(c.Seed, "c01tlsseg", round)
		for i, cfg := range cfgs {
			l := vnet.GetListener(names[i])
			for k := 0; k < 5; k++ {
				cs := &Case{Cfg: cfg, SegClass: drive.SegClasses[(i+k)%len(drive.SegClasses)], SegSeed: r.Int63()}
				if cs.SegClass == "trickle1" && cfg.StreamLen > 3000 {
					cs.SegClass = "small"
				}
				runCase(c, canary, cs, func(id string) *vnet.End {
					cl, sv := drive.NewPair(id)
					l.Inject(sv)
					return cl
				}, cert.ClientConfig())
			}
		}
	}
	_ = caddy.Stop()
}

func replay(c *fw.Ctx, raw json.RawMessage) {
	if replayUDP(c, raw) {
		return
	}
	var w struct {
		Case *Case `json:"case"`
	}
	if err := json.Unmarshal(raw, &w); err != nil || w.Case == nil || w.Case.Cfg == nil {
		fmt.Println("replay: cannot decode case:", err)
		return
	}
	hmods.Quiet(c.OutDir + "/caddyhome")
	canary := oracle.StartCanary()
	defer canary.Stop()
	cs := w.Case
	if cs.Cfg.Prologue == "tls" {
		cert, _ := tlsutil.NewCert("verif.test")
		name := vnet.UniqueName("tlsapp")
		full := tlsutil.CaddyConfig(cert, map[string]any{"layer4": map[string]any{"servers": map[string]any{
			name: map[string]any{"listen": []string{"verif/" + name + ":1"}, "routes": json.RawMessage(cs.Cfg.Routes), "matching_timeout": "30s"}}}})
		if err := caddy.Load([]byte(full), true); err != nil {
			fmt.Println("replay: load:", err)
			return
		}
		l := vnet.GetListener(name)
		runCase(c, canary, cs, func(id string) *vnet.End { cl, sv := drive.NewPair(id); l.Inject(sv); return cl }, cert.ClientConfig())
		return
	}
	app, err := drive.StartApp(cs.Cfg.Routes, "30s")
	if err != nil {
		fmt.Println("replay: load:", err)
		return
	}
	defer app.Stop()
	runCase(c, canary, cs, func(id string) *vnet.End { cl, _ := app.Dial(id); return cl }, nil)
}

// runRealTCP runs the plain and PROXY-prologue configurations over real loopback TCP sockets (kernel coalescing makes
// the segmentation best effort; TCP_NODELAY and short pauses between writes keep most boundaries).
func runRealTCP(c *fw.Ctx, canary *oracle.Canary) {
	nCfg := c.Pick(160, 4000)
	prologues := []string{"", "", "proxy1", "proxy2"}
	for i := 0; i < nCfg; i++ {
		if !c.Mine(i) {
			continue
		}
		cfg := genConfig(c.Seed, 1000000+i, prologues[i%len(prologues)])
		name := vnet.UniqueName("c01real")
		appCfg := fmt.Sprintf(`{"servers":{"s":{"listen":["veriftcp/%s:1"],"routes":%s,"matching_timeout":"30s"}}}`, name, cfg.Routes)
		app, err := drive.StartAppConfig(appCfg, "")
		if err != nil {
			c.Violation("C01 config rejected", fmt.Sprintf("generated configuration failed to load: %v", err), cfg)
			continue
		}
		addr, _ := vnet.RealTCPAddr(name)
		r := fw.Rand(c.Seed, "c01realseg", i)
		for k := 0; k < 3; k++ {
			cs := &Case{Cfg: cfg, SegClass: []string{"single", "random", "edges", "chunk2048", "headtrickle"}[(i+k)%5], SegSeed: r.Int63(), PauseEvery: 1}
			runCaseOn(c, canary, cs, func(string) (clientConn, string) {
				raw, err := net.Dial("tcp", addr)
				if err != nil {
					return nil, ""
				}
				tc := raw.(*net.TCPConn)
				_ = tc.SetNoDelay(true)
				return tc, hmods.RealConnID(tc.LocalAddr().String(), tc.RemoteAddr().String())
			}, nil)
			c.Obs("cases_real_tcp", 1)
		}
		app.Stop()
	}
}
