package c01

import (
	"encoding/json"
	"fmt"
	"net"
	"time"

	"verifharness/drive"
	"verifharness/fw"
	"verifharness/hmods"
	"verifharness/oracle"
	"verifharness/vnet"
)

// UDP associations are connections too: the datagrams of one client, in arrival order, are the client's byte stream. The
// routes of a UDP server match on prefetched datagrams and rewind like TCP routes do; consumers that read a known number
// of bytes (there is no end-of-stream on UDP) must get the stream from the first unconsumed byte, whatever the datagram
// sizes, however many datagrams were queued before the handlers ran, and whatever the consumer's read size.

// UDPCase is the replay record of this mode.
type UDPCase struct {
	Index     int   `json:"index"`
	Datagrams []int `json:"datagram_sizes"`
	Need1     int   `json:"need1"`   // bytes the first route's matcher needs (0: no matcher)
	Take      int   `json:"take"`    // bytes the first (non-terminal) route's handler consumes (0: no such route)
	Need2     int   `json:"need2"`   // bytes the consumer route's matcher needs (0: no matcher)
	BufSize   int   `json:"bufsize"` // the consumer's read size
	BurstAll  bool  `json:"burst_all"`
	Clients   int   `json:"clients"`
	Subroute  bool  `json:"subroute"`
	StreamIDs []int `json:"-"`
}

func genUDP(seed int64, i int) *UDPCase {
	r := fw.Rand(seed, "c01udp", i)
	u := &UDPCase{Index: i}
	n := 1 + r.Intn(12)
	total := 0
	for k := 0; k < n; k++ {
		sz := []int{1, 17, 100, 512, 1200, 1472, 2047, 2048, 2049, 3000, 4096}[r.Intn(11)]
		if r.Intn(3) == 0 {
			sz = 1 + r.Intn(2500)
		}
		u.Datagrams = append(u.Datagrams, sz)
		total += sz
	}
	if r.Intn(2) == 0 {
		u.Take = 1 + r.Intn(min(total, 3000))
		if u.Take >= total {
			u.Take = total / 2
		}
		if r.Intn(3) != 0 && u.Take > 0 {
			u.Need1 = 1 + r.Intn(min(total, 6000))
		}
	}
	rest := total - u.Take
	if rest > 0 && r.Intn(3) != 0 {
		u.Need2 = 1 + r.Intn(min(rest, 6000))
	}
	if u.Take > 0 && u.Need1 > 0 {
		// A later route that can be decided while an earlier one still waits for data runs first (that is how the routing
		// loop works). The consumer must come after the take route here, so its matcher never needs less than the take
		// route's matcher does.
		u.Need1 = min(u.Need1, rest, 6000)
		u.Need2 = u.Need1 + r.Intn(min(rest, 6000)-u.Need1+1)
	}
	// What a matcher asks for has to fit into the matching buffer, which also still holds what earlier handlers of the
	// connection consumed: beyond 8 KiB matching is abandoned and the association dropped, by design (C05).
	if u.Take+u.Need2 > 8000 {
		u.Need2 = max(0, 8000-u.Take)
		if u.Need1 > u.Need2 {
			u.Need1 = u.Need2
		}
	}
	u.BufSize = []int{1, 7, 64, 512, 2048, 4096, 9000}[r.Intn(7)]
	u.BurstAll = r.Intn(3) != 0
	u.Clients = 1 + r.Intn(3)
	u.Subroute = r.Intn(4) == 0
	return u
}

func (u *UDPCase) routes(total int) string {
	peek := func(id string, need int) []any {
		return []any{map[string]any{"verif_m1": map[string]any{"id": id, "need": need, "at": 0, "eq": 256, "neg": true, "pattern": "peek"}}}
	}
	var rs []any
	if u.Take > 0 {
		rt := map[string]any{"handle": []any{map[string]any{"handler": "verif_take", "name": "take", "n": u.Take}}}
		if u.Need1 > 0 {
			rt["match"] = peek("m1", u.Need1)
		}
		rs = append(rs, rt)
	}
	cons := map[string]any{"handle": []any{map[string]any{"handler": "verif_sink", "name": "sink", "bufsize": u.BufSize, "max": total - u.Take}}}
	if u.Need2 > 0 {
		cons["match"] = peek("m2", u.Need2)
	}
	rs = append(rs, cons)
	if u.Subroute {
		rs = []any{map[string]any{"handle": []any{map[string]any{"handler": "subroute", "matching_timeout": "20s", "routes": rs}}}}
	}
	return drive.J(rs)
}

func runUDP(c *fw.Ctx) {
	n := c.Pick(400, 8000)
	for i := 0; i < n; i++ {
		if !c.Mine(i) {
			continue
		}
		udpCase(c, genUDP(c.Seed, i))
	}
}

var udpSeq int

func udpCase(c *fw.Ctx, u *UDPCase) {
	total := 0
	for _, d := range u.Datagrams {
		total += d
	}
	if total-u.Take <= 0 {
		return
	}
	name := vnet.UniqueName("c01pc")
	pc := vnet.NewNamedPacketConn(name)
	cfg := fmt.Sprintf(`{"servers":{"s":{"listen":["verifudp/%s:1"],"routes":%s,"matching_timeout":"20s"}}}`, name, u.routes(total))
	app, err := drive.StartAppConfig(cfg, "")
	if err != nil {
		c.Violation("C01 udp config rejected", err.Error(), u)
		return
	}
	defer app.Stop()
	c.Journal("udp case %s", drive.J(u))
	udpSeq++
	type cl struct {
		addr net.Addr
		rec  *hmods.ConnRec
		S    []byte
	}
	cls := make([]*cl, u.Clients)
	for k := range cls {
		a := vnet.UDPAddr(fmt.Sprintf("198.18.%d.%d", (udpSeq>>8)&0xff, udpSeq&0xff), 3000+k)
		cls[k] = &cl{addr: a, rec: hmods.Track(a.Network() + ":" + a.String()), S: oracle.Stream(streamDomain, uint64(fw.Mix(c.Seed, "udp", u.Index, k)), total)}
	}
	// the clients' datagrams are interleaved: datagram j of every client, then datagram j+1
	off := 0
	for j, d := range u.Datagrams {
		for _, x := range cls {
			pc.Inject(x.S[off:off+d], x.addr)
		}
		off += d
		if !u.BurstAll && j%3 == 2 {
			time.Sleep(300 * time.Microsecond)
		}
	}
	nt := u.Need1 > 0 || u.Need2 > 0
	for k, x := range cls {
		done := x.rec.WaitDone("sink", 20*time.Second)
		got := x.rec.Stream("sink")
		took := x.rec.Stream("take")
		_ = k
		w := func() any { return u }
		class := fmt.Sprintf("[udp take=%v need1=%v need2=%v]", u.Take > 0, u.Need1 > 0, u.Need2 > 0)
		if u.Take > 0 {
			if d := oracle.Diff(took, x.S[:u.Take]); d != "" {
				c.Violation("C01 udp take "+oracle.DiffKind(took, x.S[:u.Take])+" "+class, "the non-terminal handler of a UDP association did not read the first bytes of the client's datagram stream: "+d, w())
			}
		}
		want := x.S[u.Take:]
		if !done {
			c.Violation("C01 udp consumer never-finished "+class, fmt.Sprintf("all %d datagrams (%d bytes) of a client were delivered to the listener, the consumer had read %d of the %d bytes it waits for after 20 s", len(u.Datagrams), total, len(got), len(want)), w())
		} else if d := oracle.Diff(got, want); d != "" {
			c.Violation("C01 udp consumer "+oracle.DiffKind(got, want)+" "+class, "the consumer of a UDP association did not read the client's datagram stream from the first unconsumed byte: "+d, w())
		}
		hmods.Untrack(x.addr.Network() + ":" + x.addr.String())
		c.Obs("udp_associations", 1)
		c.Obs("udp_bytes_compared", int64(len(got)))
	}
	c.Case(fw.Hash("udp", len(u.Datagrams), u.Take > 0, bucket(u.Need1), bucket(u.Need2), u.BufSize, u.Clients, u.Subroute, u.BurstAll), nt, func() any { return u })
}

func replayUDP(c *fw.Ctx, raw json.RawMessage) bool {
	var w struct {
		Case *UDPCase `json:"case"`
	}
	if json.Unmarshal(raw, &w) != nil || w.Case == nil || len(w.Case.Datagrams) == 0 {
		return false
	}
	hmods.Quiet(c.OutDir + "/caddyhome")
	udpCase(c, w.Case)
	return true
}
