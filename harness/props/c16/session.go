package c16

import (
	"encoding/hex"
	"encoding/json"
	"errors"
	"fmt"
	"io"
	"net"
	"os"
	"runtime/debug"
	"strings"
	"sync"
	"syscall"
	"time"

	"github.com/caddyserver/caddy/v2/caddyconfig/caddyfile"

	"github.com/mholt/caddy-l4/layer4"
	"github.com/mholt/caddy-l4/modules/l4socks"

	"verifharness/hmods"
	"verifharness/oracle"
	"verifharness/vnet"
)

const watchdog = 20 * time.Second

// ---------------------------------------------------------------------------
// Harness-owned targets

type listener struct {
	l    net.Listener
	port int
	addr string
	mu   sync.Mutex
	cond *sync.Cond
	log  []string // remote address of every accepted connection, in accept order
}

func newListener(addr string) (*listener, error) {
	l, err := net.Listen("tcp", addr)
	if err != nil {
		return nil, err
	}
	t := &listener{l: l, port: l.Addr().(*net.TCPAddr).Port, addr: l.Addr().String()}
	t.cond = sync.NewCond(&t.mu)
	go func() {
		for {
			c, err := l.Accept()
			if err != nil {
				return
			}
			t.mu.Lock()
			t.log = append(t.log, c.RemoteAddr().String())
			t.cond.Broadcast()
			t.mu.Unlock()
			go func() {
				_, _ = io.Copy(c, c) // echo until the peer half-closes
				_ = c.Close()
			}()
		}
	}()
	return t, nil
}

func (t *listener) count() int {
	t.mu.Lock()
	defer t.mu.Unlock()
	return len(t.log)
}

// flush connects a sentinel and waits until the accept loop has logged it: the
// accept queue is FIFO, so every earlier connection is then in the log.
// It returns the log entries from index `from` on, without the sentinel.
func (t *listener) flush(from int) ([]string, error) {
	d, err := net.DialTimeout("tcp", t.addr, watchdog)
	if err != nil {
		return nil, err
	}
	me := d.LocalAddr().String()
	deadline := time.Now().Add(watchdog)
	timer := time.AfterFunc(watchdog, func() { t.mu.Lock(); t.cond.Broadcast(); t.mu.Unlock() })
	defer timer.Stop()
	t.mu.Lock()
	defer t.mu.Unlock()
	for {
		for _, a := range t.log[from:] {
			if a == me {
				_ = d.Close()
				var out []string
				for _, b := range t.log[from:] {
					if b != me {
						out = append(out, b)
					}
				}
				return out, nil
			}
		}
		if time.Now().After(deadline) {
			_ = d.Close()
			return nil, errors.New("sentinel connection was not accepted in time")
		}
		t.cond.Wait()
	}
}

type world struct {
	live4 []*listener
	live6 []*listener
	ports Ports
}

func (w *world) all() []*listener { return append(append([]*listener(nil), w.live4...), w.live6...) }

// newWorld creates the listeners (this also makes the Go runtime run its one-time
// IPv6 capability probes) and picks a closed port below the ephemeral range.
func newWorld(shard int) (*world, error) {
	w := &world{}
	for i := 0; i < 4; i++ {
		l, err := newListener("127.0.0.1:0")
		if err != nil {
			return nil, err
		}
		w.live4 = append(w.live4, l)
		w.ports.Live4 = append(w.ports.Live4, l.port)
	}
	for i := 0; i < 2; i++ {
		l, err := newListener("[::1]:0")
		if err != nil {
			break // no IPv6 loopback: IPv6 requests then count as "other"
		}
		w.live6 = append(w.live6, l)
		w.ports.Live6 = append(w.ports.Live6, l.port)
	}
	for try := 0; try < 500; try++ {
		port := 20011 + (shard*131+try*17)%9000
		l4, err := net.Listen("tcp4", fmt.Sprintf("127.0.0.1:%d", port))
		if err != nil {
			continue
		}
		l6, err6 := net.Listen("tcp6", fmt.Sprintf("[::1]:%d", port))
		_ = l4.Close()
		if err6 == nil {
			_ = l6.Close()
		} else if len(w.live6) > 0 {
			continue
		}
		w.ports.Dead = port
		break
	}
	if w.ports.Dead == 0 {
		return nil, errors.New("no closed port found")
	}
	return w, nil
}

func (w *world) port(t Target) int {
	switch t.Kind {
	case "live4":
		return w.live4[t.Index%len(w.live4)].port
	case "live6":
		if len(w.live6) == 0 {
			return w.ports.Dead
		}
		return w.live6[t.Index%len(w.live6)].port
	}
	return w.ports.Dead
}

// ---------------------------------------------------------------------------
// Loading the handler

func setChildEnv() {
	for k, v := range childEnv {
		os.Setenv(k, v)
	}
	os.Unsetenv("VERIF_EMPTY")
}

// loadHandler provisions the real handler through the module loader. Via the
// Caddyfile the text is first decoded by the handler's own UnmarshalCaddyfile.
func loadHandler(spec *CfgSpec) (layer4.NextHandler, func(), string, error) {
	cfgJSON := spec.JSON
	if spec.Via == "caddyfile" {
		h := &l4socks.Socks5Handler{}
		if err := h.UnmarshalCaddyfile(caddyfile.NewTestDispenser(spec.Caddyfile)); err != nil {
			return nil, nil, "", fmt.Errorf("caddyfile: %w", err)
		}
		b, err := json.Marshal(h)
		if err != nil {
			return nil, nil, "", err
		}
		cfgJSON = string(b)
	}
	ctx, cancel := hmods.NewContext()
	mod, err := ctx.LoadModuleByID("layer4.handlers.socks5", json.RawMessage(cfgJSON))
	if err != nil {
		cancel()
		return nil, nil, cfgJSON, err
	}
	h, ok := mod.(layer4.NextHandler)
	if !ok {
		cancel()
		return nil, nil, cfgJSON, fmt.Errorf("module is %T, not a layer4.NextHandler", mod)
	}
	return h, cancel, cfgJSON, nil
}

// ---------------------------------------------------------------------------
// One session

// V is one finding of monitors (a)/(b).
type V struct {
	Sig  string `json:"sig"`
	What string `json:"what"`
}

// Witness is everything needed to replay a session.
type Witness struct {
	Config    string   `json:"config_json"`
	Via       string   `json:"via"`
	Caddyfile string   `json:"caddyfile,omitempty"`
	CmdLabel  string   `json:"cmd_label"`
	CredLabel string   `json:"cred_label"`
	Model     Model    `json:"model"`
	Env       []string `json:"env"`
	ScriptHex string   `json:"script_hex"`
	Cuts      []int    `json:"cuts,omitempty"`
	PortAt    []int    `json:"port_at,omitempty"`
	Target    Target   `json:"target"`
	Ports     Ports    `json:"ports"`
	Class     []string `json:"class"`
	Expect    Expect   `json:"expect"`
	ReplyHex  string   `json:"server_bytes_hex"`
	Accepts   []string `json:"target_accepts,omitempty"`
	Handler   string   `json:"handler_result,omitempty"`
}

// Record is one line of sessions.jsonl.
type Record struct {
	N            int              `json:"n"`
	Class        []string         `json:"class"`
	CmdLabel     string           `json:"cmd_label"`
	CredLabel    string           `json:"cred_label"`
	Via          string           `json:"via"`
	Verdict      string           `json:"verdict"`
	Reason       string           `json:"reason"`
	DeadTarget   bool             `json:"dead_target,omitempty"`
	Cmd          int              `json:"cmd"`
	Rep          int              `json:"rep"`
	Nontrivial   bool             `json:"nontrivial"`
	Viol         []V              `json:"viol,omitempty"`
	Inconclusive string           `json:"inconclusive,omitempty"`
	Obs          map[string]int64 `json:"obs,omitempty"`
	Witness      *Witness         `json:"witness"`
}

func sigDetail(spec *CfgSpec, s *Session, e *Expect) string {
	cmd := s.Class[2]
	if k := strings.Index(cmd, "/"); k >= 0 {
		cmd = cmd[:k]
	}
	return fmt.Sprintf("[%s %s creds=%s]", e.Reason, cmd, spec.CredLabel)
}

func hexClip(b []byte) string {
	if len(b) > 1500 {
		return hex.EncodeToString(b[:1500]) + "..."
	}
	return hex.EncodeToString(b)
}

// runSession plays s against handler h and applies monitors (a) and (b).
// begin/end are called right before the first byte is handed to the handler and
// right after the handler has returned (the syscall-trace brackets).
func (w *world) runSession(spec *CfgSpec, cfgJSON string, h layer4.NextHandler, s *Session, begin, end func()) *Record {
	return w.runSessionUnload(spec, cfgJSON, h, s, begin, end, nil)
}

// runSessionUnload: with unload != nil and a session that must be refused, the client sends its greeting, waits for the
// method reply, then the handler's configuration is unloaded (its context is cancelled, clean-up runs, as on a reload or a
// stop: established connections go on in the old handler) and only then the rest of the script follows.
func (w *world) runSessionUnload(spec *CfgSpec, cfgJSON string, h layer4.NextHandler, s *Session, begin, end func(), unload func()) *Record {
	script := withPort(s.Script, s.PortAt, w.port(s.Target))
	exp := Reference(&spec.Model, &w.ports, script)
	rec := &Record{N: s.N, Class: s.Class, CmdLabel: spec.CmdLabel, CredLabel: spec.CredLabel, Via: spec.Via,
		Verdict: exp.Verdict, Reason: exp.Reason, DeadTarget: exp.DeadTarget, Cmd: exp.Cmd, Rep: -1, Obs: map[string]int64{}}
	var envs []string
	for k, v := range childEnv {
		envs = append(envs, k+"="+v)
	}
	wit := &Witness{Config: cfgJSON, Via: spec.Via, Caddyfile: spec.Caddyfile, CmdLabel: spec.CmdLabel, CredLabel: spec.CredLabel,
		Model: spec.Model, Env: envs, ScriptHex: hex.EncodeToString(script), Cuts: s.Cuts, PortAt: s.PortAt, Target: s.Target,
		Ports: w.ports, Class: s.Class, Expect: exp}
	rec.Witness = wit
	detail := sigDetail(spec, s, &exp)
	viol := func(kind, what string) {
		rec.Viol = append(rec.Viol, V{Sig: "C16 " + kind + " " + detail, What: what})
	}

	starts := map[*listener]int{}
	for _, l := range w.all() {
		starts[l] = l.count()
	}

	id := fmt.Sprintf("c16-%d", s.N)
	client, server := vnet.Pair(id, vnet.TCPAddr("10.16.0.9", 20000+s.N%40000), vnet.TCPAddr("10.16.0.1", 1080))
	cx := layer4.WrapConnection(server, make([]byte, 0, 2048), hmods.NopLogger)
	nextCalled := false
	done := make(chan string, 1)
	begin()
	go func() {
		defer func() {
			if p := recover(); p != nil {
				done <- fmt.Sprintf("panic: %v\n%s", p, debug.Stack())
			}
		}()
		err := h.Handle(cx, layer4.HandlerFunc(func(*layer4.Connection) error { nextCalled = true; return nil }))
		if err != nil {
			done <- "error: " + err.Error()
		} else {
			done <- "ok"
		}
	}()

	// the scripted client
	_ = client.SetReadDeadline(time.Now().Add(watchdog))
	off := 0
	var got []byte
	if unload != nil && exp.Verdict != VerdictPermit && ((exp.Reason == "auth-wrong" && s.N%2 == 0) || s.N%4 == 1) && len(script) > 3 && script[0] == 5 && int(script[1]) > 0 && len(script) > 2+int(script[1])+2 {
		g := 2 + int(script[1])
		_, _ = client.Write(script[:g])
		off = g
		two := make([]byte, 2)
		if n, _ := io.ReadFull(client, two); n > 0 {
			got = append(got, two[:n]...)
		}
		unload()
		rec.Obs["unloaded_mid_session"] = 1
	}
	for _, c := range s.Cuts {
		if c > off && c < len(script) {
			_, _ = client.Write(script[off:c])
			off = c
		}
	}
	if off < len(script) {
		_, _ = client.Write(script[off:])
	}
	timedOut := false
	buf := make([]byte, 8192)
	readUntil := func(stop func() bool) (eof bool) {
		for !stop() {
			n, err := client.Read(buf)
			got = append(got, buf[:n]...)
			if err != nil {
				var ne net.Error
				if errors.As(err, &ne) && ne.Timeout() {
					timedOut = true
				}
				return true
			}
		}
		return false
	}
	var wantRelay []byte
	if exp.Verdict == VerdictPermit {
		eof := readUntil(func() bool {
			rp := ParseReplies(got)
			return (rp.HasReply && rp.Garbled == "") || (rp.HasMethod && rp.Method != 0 && rp.Method != 2) || (rp.HasAuth && rp.AuthStatus != 0)
		})
		if rp := ParseReplies(got); !eof && rp.HasReply && rp.Rep == 0 {
			payload := oracle.Stream(0xC16, uint64(s.N), 1+(s.N*37)%3000)
			wantRelay = append(append([]byte(nil), exp.Trailing...), payload...)
			_, _ = client.Write(payload)
			readUntil(func() bool { return len(got)-rp.ReplyEnd >= len(wantRelay) })
		}
	}
	_ = client.CloseWrite()
	if !timedOut {
		readUntil(func() bool { return false })
	}
	handlerResult := ""
	select {
	case handlerResult = <-done:
	case <-time.After(watchdog):
		handlerResult = "watchdog"
	}
	end()
	_ = client.Close()
	wit.Handler = handlerResult
	if len(wit.Handler) > 300 {
		wit.Handler = wit.Handler[:300]
	}

	// (b) the accept log; sentinels run outside the bracket
	foreign := map[*listener][]string{}
	total := 0
	for _, l := range w.all() {
		f, err := l.flush(starts[l])
		if err != nil {
			rec.Inconclusive = "watchdog: " + err.Error()
			return rec
		}
		foreign[l] = f
		total += len(f)
		for _, a := range f {
			wit.Accepts = append(wit.Accepts, fmt.Sprintf("%s<-%s", l.addr, a))
		}
	}
	wit.ReplyHex = hexClip(got)
	rp := ParseReplies(got)
	rec.Rep = rp.Rep
	rec.Nontrivial = len(got) > 0

	if strings.HasPrefix(handlerResult, "panic:") {
		frame := "?"
		for _, l := range strings.Split(handlerResult, "\n") {
			if strings.HasPrefix(l, "github.com/mholt/caddy-l4/") || strings.HasPrefix(l, "github.com/things-go/go-socks5") {
				frame = l
				if k := strings.LastIndex(frame, "("); k > 0 {
					frame = frame[:k]
				}
				break
			}
		}
		rec.Viol = append(rec.Viol, V{Sig: "C16 panic in " + frame, What: "the handler panicked: " + strings.SplitN(handlerResult, "\n", 2)[0]})
		return rec
	}
	if timedOut || handlerResult == "watchdog" {
		rec.Inconclusive = "watchdog: session did not finish within 20 s"
		return rec
	}
	if nextCalled {
		rec.Obs["next_handler_called"]++
	}

	// (a) protocol oracle
	if spec.Model.CredsConfigured && rp.HasMethod && rp.Method == 0 {
		viol("method: NO AUTHENTICATION selected although credentials are configured",
			fmt.Sprintf("server answered %x to greeting %s", got[:2], hexClip(script[:min(len(script), 8)])))
	}
	if exp.Method >= 0 {
		switch {
		case !rp.HasMethod:
			viol("method: no METHOD selection message for a well-formed greeting", fmt.Sprintf("server sent %q, reference method %#x", hexClip(got), exp.Method))
		case rp.Method != exp.Method:
			viol(fmt.Sprintf("method: selected %#x, reference %#x", rp.Method, exp.Method), fmt.Sprintf("server sent %s", hexClip(got)))
		}
	} else if rp.HasMethod && rp.Method != 0xFF {
		rec.Obs["method_selected_for_malformed_greeting"]++
	}
	switch exp.Auth {
	case "ok":
		if rec.Obs["unloaded_mid_session"] > 0 {
			// (a handler whose configuration was unloaded under the session may refuse everybody: refusing is always allowed)
			rec.Obs["auth_ok_not_judged_after_unload"]++
		} else if !rp.HasAuth || rp.AuthStatus != 0 {
			viol("auth: configured username/password not accepted", fmt.Sprintf("server sent %s", hexClip(got)))
		}
	case "fail":
		if rp.HasAuth && rp.AuthStatus == 0 {
			viol("auth: STATUS 0 for a client that did not present a configured username/password", fmt.Sprintf("server sent %s", hexClip(got)))
		}
	case "abstain":
		if rp.HasAuth {
			rec.Obs[fmt.Sprintf("empty_password_auth_status_%d", rp.AuthStatus)]++
		}
	}
	if rp.Garbled != "" {
		rec.Obs["garbled_reply:"+rp.Garbled]++
	}
	named := w.namedListener(&exp)
	switch exp.Verdict {
	case VerdictRefuse:
		if rp.HasReply && rp.Rep == 0 {
			viol("reply: REP 0 (succeeded) in a session that must be refused", fmt.Sprintf("server sent %s", hexClip(got)))
		}
		if exp.ReplyRequired && !rp.HasReply && rec.Obs["unloaded_mid_session"] > 0 && exp.Auth == "ok" && (!rp.HasAuth || rp.AuthStatus != 0) {
			// (refused at the authentication step by a handler that was unloaded under the session: no request was read)
			rec.Obs["reply_not_judged_after_unload"]++
		} else if exp.ReplyRequired && !rp.HasReply {
			viol("reply: no failure reply to a well-formed request", fmt.Sprintf("server sent %s", hexClip(got)))
		}
		if rp.HasReply && rp.Rep != 0 {
			rec.Obs[fmt.Sprintf("refusal_rep_%d", rp.Rep)]++
			if len(got) > rp.ReplyEnd {
				rec.Obs["bytes_after_failure_reply"]++
			}
		}
		if total > 0 {
			viol("accept: a harness target accepted a connection in a session that must be refused", fmt.Sprintf("accepted: %v", wit.Accepts))
		}
	case VerdictPermit:
		switch {
		case !rp.HasReply:
			viol("permit: no reply to an enabled CONNECT of an authenticated client to a live target", fmt.Sprintf("server sent %s", hexClip(got)))
		case rp.Rep != 0:
			viol(fmt.Sprintf("permit: REP %d for an enabled CONNECT of an authenticated client to a live target", rp.Rep), fmt.Sprintf("server sent %s", hexClip(got)))
		default:
			if d := oracle.Diff(got[rp.ReplyEnd:], wantRelay); d != "" {
				viol("permit: relay "+oracle.DiffKind(got[rp.ReplyEnd:], wantRelay), "bytes echoed by the target through the relay differ from what the client sent: "+d)
			}
			if named == nil || len(foreign[named]) != 1 || total != 1 {
				viol("permit: success reply but the named target did not see exactly one connection", fmt.Sprintf("accepted: %v", wit.Accepts))
			}
		}
	case VerdictMay:
		if exp.DeadTarget {
			switch {
			case !rp.HasReply:
				viol("reply: no reply to CONNECT to a closed port", fmt.Sprintf("server sent %s", hexClip(got)))
			case rp.Rep == 0:
				viol("reply: REP 0 for CONNECT to a closed port", fmt.Sprintf("server sent %s", hexClip(got)))
			}
		}
		if rp.HasReply {
			rec.Obs[fmt.Sprintf("may_%s_rep_%d", exp.Reason, rp.Rep)]++
		}
		if total > 0 {
			rec.Obs["may_sessions_with_target_connection"]++
		}
	}
	return rec
}

func (w *world) namedListener(e *Expect) *listener {
	switch e.DestKind {
	case "live4":
		for _, l := range w.live4 {
			if l.port == e.DestPort {
				return l
			}
		}
	case "live6":
		for _, l := range w.live6 {
			if l.port == e.DestPort {
				return l
			}
		}
	}
	return nil
}

// marker issues a listen(2) on an invalid descriptor: it fails with EBADF and
// shows up in the syscall trace as listen(-1, n) / listen(-2, n).
func marker(fd, n int) { _ = syscall.Listen(fd, n) }
