package c16

import (
	"bufio"
	"os"
	"regexp"
	"strconv"
	"strings"
)

// TraceEvent is one connect/bind/listen call seen by strace inside a session's bracket.
type TraceEvent struct {
	Call   string `json:"call"`
	Family string `json:"family,omitempty"`
	Addr   string `json:"addr,omitempty"`
	Port   int    `json:"port,omitempty"`
	Line   string `json:"line"`
}

// Bracket is everything strace logged between listen(-1, n) and listen(-2, n).
type Bracket struct {
	N       int
	Closed  bool
	Events  []TraceEvent
	Sockets int // socket(AF_INET|AF_INET6, ...) calls
}

var (
	reMarker = regexp.MustCompile(`\blisten\((-1|-2), (\d+)`)
	reCall   = regexp.MustCompile(`^(?:\[pid\s+\d+\]\s+|\d+\s+)?(connect|bind|listen|socket)\((.*)$`)
	reFamily = regexp.MustCompile(`sa_family=(AF_[A-Z0-9_]+)`)
	rePort   = regexp.MustCompile(`sin6?_port=htons\((\d+)\)`)
	reAddr4  = regexp.MustCompile(`inet_addr\("([^"]+)"\)`)
	reAddr6  = regexp.MustCompile(`inet_pton\(AF_INET6, "([^"]+)"`)
)

// parseTrace reads an strace -f output file and groups the traced calls by session bracket.
func parseTrace(path string) (map[int]*Bracket, int, error) {
	f, err := os.Open(path)
	if err != nil {
		return nil, 0, err
	}
	defer f.Close()
	out := map[int]*Bracket{}
	var cur *Bracket
	lines := 0
	sc := bufio.NewScanner(f)
	sc.Buffer(make([]byte, 1<<20), 1<<20)
	for sc.Scan() {
		line := sc.Text()
		lines++
		if m := reMarker.FindStringSubmatch(line); m != nil {
			n, _ := strconv.Atoi(m[2])
			if m[1] == "-1" {
				cur = &Bracket{N: n}
				out[n] = cur
			} else {
				if cur != nil && cur.N == n {
					cur.Closed = true
				}
				cur = nil
			}
			continue
		}
		if cur == nil {
			continue
		}
		m := reCall.FindStringSubmatch(strings.TrimSpace(line))
		if m == nil {
			continue // signals, "<... resumed>" halves, exits
		}
		call, args := m[1], m[2]
		if call == "socket" {
			if strings.HasPrefix(args, "AF_INET") {
				cur.Sockets++
			}
			continue
		}
		ev := TraceEvent{Call: call, Line: line}
		if len(ev.Line) > 300 {
			ev.Line = ev.Line[:300]
		}
		if call == "listen" {
			cur.Events = append(cur.Events, ev)
			continue
		}
		if fm := reFamily.FindStringSubmatch(args); fm != nil {
			ev.Family = fm[1]
		}
		if pm := rePort.FindStringSubmatch(args); pm != nil {
			ev.Port, _ = strconv.Atoi(pm[1])
		}
		if am := reAddr4.FindStringSubmatch(args); am != nil {
			ev.Addr = am[1]
		} else if am := reAddr6.FindStringSubmatch(args); am != nil {
			ev.Addr = am[1]
		}
		cur.Events = append(cur.Events, ev)
	}
	return out, lines, sc.Err()
}
