// Package c16 monitors "the SOCKS5 handler serves only enabled commands and only
// authenticated clients": generated handler configurations are loaded through
// the module loader, generated client byte scripts are played against
// Handle() on a scripted in-memory connection, and three observers watch:
// (a) a protocol oracle on the server's replies (RFC 1928 / RFC 1929),
// (b) the accept logs of the harness-owned loopback targets named in the requests,
// (c) the connect/bind/listen system calls of the process (strace), bracketed per session.
package c16

import (
	"bufio"
	"encoding/hex"
	"encoding/json"
	"fmt"
	"os"
	"os/exec"
	"path/filepath"
	"strings"
	"time"

	"verifharness/fw"
	"verifharness/hmods"
)

func init() {
	fw.Register(&fw.Prop{
		ID: "C16",
		Rule: "case = (socks5 handler configuration: every subset of {CONNECT,BIND,ASSOCIATE} incl. default, spelled upper/lower/mixed/placeholder; " +
			"credential map class: none/empty map/one/many/empty username/empty password/255-byte/over-long/placeholders; JSON or Caddyfile) x " +
			"(client byte script: greeting class x RFC 1929 message class x command code x address type x target live/closed x mutation: " +
			"truncation at every offset, trailing garbage, pipelined second request, bit flips, lying length fields). The reference state machine (RFC 1928/1929 + property text) " +
			"Some placeholder configurations are provisioned a second time, while the first handler is still alive, after the variable behind the password placeholder was rotated (a reload): the sessions then run against the new handler and the model with the new password. " +
			"The reference classifies the script as must-refuse / must-permit (enabled CONNECT of an authenticated client to a live target) / not prescribed. " +
			"Monitors: reply oracle, accept log of all harness targets, strace bracket of the session (no connect() to a target port, no bind()/listen() at all when must-refuse). " +
			"non-trivial = the server sent at least one byte; distinct = hash(command-set class, credential class, greeting class, auth class, command class, address/target class, mutation class). must-refuse sessions of single-session configurations may have the handler's configuration unloaded (context cancelled, clean-up run) between the method reply and the rest of the script: still no success, no outbound activity (what a handler unloaded under the session refuses is not judged)",
		Assumptions: []string{
			"the handler is driven directly through Handle() on a scripted in-memory connection (vnet); only TCP control connections are scripted, no UDP datagrams are sent to ASSOCIATE relays",
			"destinations are harness-owned 127.0.0.1/[::1] listeners, one closed port below the ephemeral range, and the name \"localhost\"",
			"sessions run sequentially inside one traced process so that a syscall between two markers belongs to exactly one session",
			"a configured empty password, a non-zero RSV byte, an empty domain name, enabled BIND/ASSOCIATE and CONNECT to foreign loopback ports are not prescribed by the reference (counted, not judged)",
		},
		MinEvals: 500,
		Plan: func(tier string) []fw.ChildSpec {
			if tier == "thorough" {
				return []fw.ChildSpec{{Name: "sessions", Mode: "sessions", Shards: 12, Timeout: 30 * time.Minute}}
			}
			return []fw.ChildSpec{{Name: "sessions", Mode: "sessions", Shards: 4, Timeout: 6 * time.Minute}}
		},
		Run:    run,
		Replay: replay,
	})
}

const tracedEnv = "VERIF_C16_TRACED"

const (
	originalPass = "envpass"
	rotatedPass  = "envpass-rotated"
)

func run(c *fw.Ctx) {
	if os.Getenv(tracedEnv) != "" {
		if err := runInner(c, c.OutDir, true); err != nil {
			fmt.Fprintln(os.Stdout, "c16 traced process:", err)
			os.Exit(2)
		}
		return
	}
	runOuter(c)
}

// ---------------------------------------------------------------------------
// The traced (inner) process: runs the sessions, writes sessions.jsonl, uses no c.* bookkeeping.

type header struct {
	Header   bool  `json:"header"`
	Ports    Ports `json:"ports"`
	Traced   bool  `json:"traced"`
	Sessions int   `json:"sessions_planned"`
}

type trailer struct {
	Done            bool           `json:"done"`
	ConfigsLoaded   int            `json:"configs_loaded"`
	ConfigsRejected map[string]int `json:"configs_rejected"`
	ReloadJobs      int            `json:"reload_jobs"`
}

func sessionsPath(dir string, shard int) string {
	return filepath.Join(dir, fmt.Sprintf("sessions-%d.jsonl", shard))
}

func runInner(c *fw.Ctx, outDir string, traced bool) error {
	hmods.Quiet(outDir + "/caddyhome")
	setChildEnv()
	w, err := newWorld(c.Shard)
	if err != nil {
		return err
	}
	f, err := os.Create(sessionsPath(outDir, c.Shard))
	if err != nil {
		return err
	}
	defer f.Close()
	bw := bufio.NewWriterSize(f, 1<<20)
	defer bw.Flush()
	emit := func(v any) {
		b, _ := json.Marshal(v)
		bw.Write(b)
		bw.WriteByte('\n')
	}

	nRandom := c.Pick(1000, 21500)
	nFamilies := c.Pick(8, 110)

	// the work list (deterministic in the seed)
	type job struct {
		cfgK int
		spec *CfgSpec
		sess []*Session
		// reloadFrom: a handler with the same configuration text was provisioned earlier, when the environment
		// variable behind its password placeholder still had another value, and is still alive (a reload)
		reloadFrom *CfgSpec
	}
	var jobs []job
	planned := 0
	for n := 0; n < nRandom; n++ {
		if !c.Mine(n) {
			continue
		}
		spec := genConfig(c.Seed, n)
		jobs = append(jobs, job{cfgK: n, spec: spec, sess: []*Session{genSession(c.Seed, n, n, spec)}})
		planned++
		if strings.HasPrefix(spec.CredLabel, "placeholder") && !strings.Contains(spec.CredLabel, "empty") && n%2 == 0 {
			// the same configuration text after the password behind {env.VERIF_PASS} was rotated
			spec2 := genConfig(c.Seed, n)
			rot := func(ps []Pair) []Pair {
				out := append([]Pair(nil), ps...)
				for i := range out {
					out[i].Pass = strings.ReplaceAll(out[i].Pass, originalPass, rotatedPass)
				}
				return out
			}
			spec2.Model.Pairs, spec2.GenPairs = rot(spec2.Model.Pairs), rot(spec2.GenPairs)
			var ss []*Session
			for q := 0; q < 6; q++ {
				ss = append(ss, genSession(c.Seed, 3000000+n*8+q, n, spec2))
			}
			jobs = append(jobs, job{cfgK: n, spec: spec2, sess: ss, reloadFrom: spec})
			planned += len(ss)
		}
	}
	for fam := 0; fam < nFamilies; fam++ {
		if !c.Mine(fam) {
			continue
		}
		k := 1000003 + fam*37
		spec := genConfig(c.Seed, k)
		ss := truncationFamily(c.Seed, 1000000+fam*1000, k, spec, fam)
		jobs = append(jobs, job{cfgK: k, spec: spec, sess: ss})
		planned += len(ss)
	}
	emit(header{Header: true, Ports: w.ports, Traced: traced, Sessions: planned})

	if err := w.warmUp(); err != nil {
		return err
	}

	tr := trailer{Done: true, ConfigsRejected: map[string]int{}}
	for _, j := range jobs {
		cancelOld := func() {}
		if j.reloadFrom != nil {
			if _, co, _, err := loadHandler(j.reloadFrom); err == nil {
				cancelOld = co
			}
			os.Setenv("VERIF_PASS", rotatedPass)
			tr.ReloadJobs++
		}
		h, cancel, cfgJSON, err := loadHandler(j.spec)
		if j.reloadFrom != nil {
			os.Setenv("VERIF_PASS", originalPass)
		}
		if err != nil {
			// a configuration the module refuses to load serves nobody: count it, nothing to drive
			tr.ConfigsRejected[j.spec.CmdLabel+"|"+j.spec.CredLabel+"|"+j.spec.Via+": "+clip(err.Error(), 80)]++
			cancelOld()
			continue
		}
		tr.ConfigsLoaded++
		for _, s := range j.sess {
			if os.Getenv("VERIF_C16_MUTANT") == "inner-panic" && traced && s.N > 40 {
				panic("c16 self-test: traced process dies")
			}
			c.Journal("session %d config=%s script=%s", s.N, cfgJSON, hex.EncodeToString(s.Script))
			var unload func()
			if j.reloadFrom == nil && len(j.sess) == 1 {
				// (the handler serves this one session: its configuration can be unloaded in the middle of it)
				unload = func() { cancel(); cancel = func() {} }
			}
			rec := w.runSessionUnload(j.spec, cfgJSON, h, s, func() { marker(-1, s.N) }, func() { marker(-2, s.N) }, unload)
			emit(rec)
		}
		cancel()
		cancelOld()
	}
	emit(tr)
	return nil
}

// warmUp runs, outside any bracket, one CONNECT by address, one by name and one ASSOCIATE so that lazy one-time
// initialisation (resolver configuration, the runtime's IPv6/IPv4-mapped capability probe which bind()s, pools)
// does not fall into a session's bracket.
func (w *world) warmUp() error {
	warm := &CfgSpec{CmdLabel: "warmup", CredLabel: "none", Via: "json", JSON: `{}`, Model: Model{Enabled: [4]bool{false, true, false, true}}}
	h, cancel, cfgJSON, err := loadHandler(warm)
	if err != nil {
		return fmt.Errorf("warm-up configuration rejected: %v", err)
	}
	defer cancel()
	for i, scr := range [][]byte{
		{5, 1, 0, 5, 1, 0, 1, 127, 0, 0, 1, 0, 0},
		{5, 1, 0, 5, 1, 0, 3, 9, 'l', 'o', 'c', 'a', 'l', 'h', 'o', 's', 't', 0, 0},
		{5, 1, 0, 5, 3, 0, 1, 127, 0, 0, 1, 0, 0},
	} {
		s := &Session{N: 900000 + i, Script: scr, PortAt: []int{len(scr) - 2}, Target: Target{Kind: "live4"}, Class: []string{"warm", "", "", "", ""}}
		rec := w.runSession(warm, cfgJSON, h, s, func() {}, func() {})
		if len(rec.Viol) > 0 || rec.Inconclusive != "" {
			b, _ := json.Marshal(rec)
			return fmt.Errorf("warm-up session failed: %s", b)
		}
	}
	return nil
}

func clip(s string, n int) string {
	if len(s) > n {
		return s[:n]
	}
	return s
}

// ---------------------------------------------------------------------------
// The outer process: runs the inner one under strace, then judges.

func straceArgs(tracePath string) []string {
	return []string{"-f", "-qq", "--seccomp-bpf", "-e", "trace=connect,bind,listen,socket", "-e", "signal=none", "-o", tracePath}
}

func runOuter(c *fw.Ctx) {
	innerDir := filepath.Join(c.OutDir, fmt.Sprintf("traced-%d", c.Shard))
	_ = os.MkdirAll(innerDir, 0o755)
	tracePath := filepath.Join(c.OutDir, fmt.Sprintf("strace-%d.txt", c.Shard))
	traced := false
	self, _ := os.Executable()
	if st, err := exec.LookPath("strace"); err == nil && self != "" {
		args := append(straceArgs(tracePath), self)
		args = append(args, os.Args[1:]...)
		args = append(args, "--out", innerDir)
		cmd := exec.Command(st, args...)
		cmd.Env = append(os.Environ(), tracedEnv+"=1")
		// the traced process logs every refused request (Caddy's development logger): keep that out of our output
		errPath := filepath.Join(innerDir, "stderr.txt")
		errF, _ := os.Create(errPath)
		cmd.Stdout, cmd.Stderr = errF, errF
		runErr := cmd.Run()
		errF.Close()
		hdr, _, tr, _ := readSessions(sessionsPath(innerDir, c.Shard))
		switch {
		case hdr == nil:
			copyTail(errPath, 2000)
			c.Note("strace not usable (%v): falling back to monitors (a)+(b) without the syscall monitor", runErr)
		case tr == nil || runErr != nil:
			// the traced process started and died: leave the attribution to the parent (its output is ours)
			if b, err := os.ReadFile(filepath.Join(innerDir, fmt.Sprintf("journal-%d.txt", c.Shard))); err == nil {
				lines := strings.Split(strings.TrimRight(string(b), "\n"), "\n")
				c.Journal("%s", lines[len(lines)-1])
			}
			copyCrash(errPath)
			fmt.Fprintf(os.Stdout, "c16: traced process did not complete: %v (its output: %s)\n", runErr, errPath)
			os.Exit(2)
		default:
			traced = true
		}
	} else {
		c.Note("strace not found: falling back to monitors (a)+(b) without the syscall monitor")
	}
	if !traced {
		if err := runInner(c, innerDir, false); err != nil {
			fmt.Fprintln(os.Stdout, "c16:", err)
			os.Exit(2)
		}
	}
	hdr, recs, tr, err := readSessions(sessionsPath(innerDir, c.Shard))
	if err != nil || hdr == nil || tr == nil {
		fmt.Fprintln(os.Stdout, "c16: cannot read sessions file:", err)
		os.Exit(2)
	}
	var brackets map[int]*Bracket
	if traced {
		var lines int
		brackets, lines, err = parseTrace(tracePath)
		if err != nil {
			fmt.Fprintln(os.Stdout, "c16: cannot read strace output:", err)
			os.Exit(2)
		}
		c.Obs("strace_lines", int64(lines))
		c.Obs("traced_shards", 1)
	} else {
		c.Obs("untraced_shards", 1)
	}
	c.Obs("configs_loaded", int64(tr.ConfigsLoaded))
	for k, n := range tr.ConfigsRejected {
		c.Obs("configs_rejected", int64(n))
		c.SetAdd("config_rejections", k)
	}
	st := judge(c, hdr, recs, brackets)
	if traced && st.permitSuccess > 0 && st.permitSeen == 0 {
		fmt.Fprintf(os.Stdout, "c16: the syscall monitor saw none of %d permitted connects: it is blind\n", st.permitSuccess)
		os.Exit(2)
	}
}

func readSessions(path string) (*header, []*Record, *trailer, error) {
	f, err := os.Open(path)
	if err != nil {
		return nil, nil, nil, err
	}
	defer f.Close()
	var hdr *header
	var tr *trailer
	var recs []*Record
	sc := bufio.NewScanner(f)
	sc.Buffer(make([]byte, 4<<20), 4<<20)
	for sc.Scan() {
		line := sc.Bytes()
		switch {
		case strings.HasPrefix(string(line), `{"header":true`):
			hdr = &header{}
			if err := json.Unmarshal(line, hdr); err != nil {
				return nil, nil, nil, err
			}
		case strings.HasPrefix(string(line), `{"done":true`):
			tr = &trailer{}
			if err := json.Unmarshal(line, tr); err != nil {
				return hdr, recs, nil, err
			}
		default:
			r := &Record{}
			if err := json.Unmarshal(line, r); err != nil {
				return hdr, recs, nil, err
			}
			recs = append(recs, r)
		}
	}
	return hdr, recs, tr, sc.Err()
}

type stats struct {
	permitSuccess int
	permitSeen    int
}

func isInet(fam string) bool { return fam == "AF_INET" || fam == "AF_INET6" }

// judge does the bookkeeping for every recorded session and adds the syscall-trace verdicts.
func judge(c *fw.Ctx, hdr *header, recs []*Record, brackets map[int]*Bracket) stats {
	var st stats
	for _, r := range recs {
		r := r
		sig := fw.Hash(r.CmdLabel, r.CredLabel, r.Via, strings.Join(r.Class, "|"))
		c.Case(sig, r.Nontrivial, func() any {
			return map[string]any{"class": r.Class, "commands": r.CmdLabel, "credentials": r.CredLabel, "verdict": r.Verdict, "reason": r.Reason,
				"config": json.RawMessage(r.Witness.Config), "script_hex": clip(r.Witness.ScriptHex, 200), "server_bytes_hex": clip(r.Witness.ReplyHex, 80)}
		})
		c.SetAdd("config_classes", r.CmdLabel+"|"+r.CredLabel+"|"+r.Via)
		c.SetAdd("reasons", r.Verdict+":"+r.Reason)
		c.Obs("sessions_"+map[string]string{VerdictRefuse: "must_refuse", VerdictPermit: "permitted", VerdictMay: "not_prescribed"}[r.Verdict], 1)
		c.Obs("reason:"+r.Verdict+":"+r.Reason, 1)
		c.Obs("via_"+r.Via, 1)
		for k, n := range r.Obs {
			c.Obs(k, n)
		}
		if r.Inconclusive != "" {
			c.Inconclusive(r.Inconclusive)
			continue
		}
		// The accept log of the harness targets attributes a connection to the session during which it was logged; the
		// syscall trace attributes a connect() to the session between whose markers it was made. Where the trace is there
		// and shows no connect() to a harness target inside the session's bracket, a connection logged by a target meanwhile
		// was not dialled by this session's handler (it was made outside the bracket): recorded, not judged.
		tracedNoDial := false
		if brackets != nil {
			if br := brackets[r.N]; br != nil && br.Closed {
				tracedNoDial = true
				for _, ev := range br.Events {
					if ev.Call == "connect" && isInet(ev.Family) && hdr.Ports.IsTarget(ev.Port) {
						tracedNoDial = false
					}
				}
			}
		}
		bad := 0
		for _, v := range r.Viol {
			if tracedNoDial && strings.HasPrefix(v.Sig, "C16 accept:") {
				c.Obs("target_accepts_without_a_connect_in_the_session's_trace_bracket", 1)
				continue
			}
			bad++
			c.Violation(v.Sig, v.What, r.Witness)
		}
		detail := "[" + r.Reason + " " + strings.SplitN(r.Class[2], "/", 2)[0] + " creds=" + r.CredLabel + "]"
		if brackets != nil {
			br := brackets[r.N]
			if br == nil || !br.Closed {
				c.Inconclusive("trace bracket of the session not found")
				continue
			}
			c.Obs("trace_brackets_matched", 1)
			tv := func(kind string, ev TraceEvent) {
				bad++
				c.Violation("C16 trace: "+kind+" "+detail, "strace saw, between the session's markers: "+ev.Line,
					map[string]any{"session": r.Witness, "trace_events": br.Events})
			}
			sawTarget, sawBind := false, false
			for _, ev := range br.Events {
				switch {
				case ev.Call == "connect" && isInet(ev.Family) && hdr.Ports.IsTarget(ev.Port):
					if ev.Port == r.Witness.Expect.DestPort {
						sawTarget = true
					}
					if r.Verdict == VerdictRefuse {
						tv("connect() to a harness target in a session that must be refused", ev)
					}
				case ev.Call == "connect" && isInet(ev.Family):
					// not a harness target (e.g. the DNS resolver asked about the requested name): recorded, not judged
					if r.Verdict == VerdictRefuse {
						c.Obs("resolver_connects", 1)
					} else {
						c.Obs("resolver_connects_in_other_sessions", 1)
					}
					c.SetAdd("other_connect_destinations", fmt.Sprintf("%s:%d", ev.Addr, ev.Port))
				case ev.Call == "connect":
					c.Obs("non_inet_connects", 1)
				case ev.Call == "bind" && isInet(ev.Family):
					sawBind = true
					if r.Verdict == VerdictRefuse {
						tv("bind() of an internet socket in a session that must be refused", ev)
					}
				case ev.Call == "listen":
					if r.Verdict == VerdictRefuse {
						tv("listen() in a session that must be refused", ev)
					}
				}
			}
			if r.Verdict == VerdictRefuse && br.Sockets > 0 {
				c.Obs("must_refuse_sessions_that_created_an_inet_socket", 1)
			}
			switch {
			case r.Verdict == VerdictPermit && r.Rep == 0:
				st.permitSuccess++
				if sawTarget {
					st.permitSeen++
					c.Obs("permitted_connects_seen_in_trace", 1)
				} else {
					c.Obs("permitted_connects_missing_in_trace", 1)
				}
			case r.DeadTarget && sawTarget:
				c.Obs("closed_port_connects_seen_in_trace", 1)
			case r.Reason == "associate-enabled" && r.Rep == 0 && sawBind:
				c.Obs("associate_binds_seen_in_trace", 1)
			}
		}
		if bad == 0 {
			switch r.Verdict {
			case VerdictRefuse:
				c.Obs("refused_ok", 1)
			case VerdictPermit:
				c.Obs("permitted_ok", 1)
			}
		}
	}
	return st
}

// ---------------------------------------------------------------------------
// Replay of one recorded session (witness). Under strace when available.

func replay(c *fw.Ctx, raw json.RawMessage) {
	var wit Witness
	// a trace violation wraps the session witness
	var wrap struct {
		Session *Witness `json:"session"`
	}
	if json.Unmarshal(raw, &wrap) == nil && wrap.Session != nil {
		wit = *wrap.Session
	} else if err := json.Unmarshal(raw, &wit); err != nil {
		fmt.Println("replay: cannot decode witness:", err)
		return
	}
	script, err := hex.DecodeString(wit.ScriptHex)
	if err != nil {
		fmt.Println("replay: bad script hex:", err)
		return
	}
	class := wit.Class
	for len(class) < 5 {
		class = append(class, "")
	}
	spec := &CfgSpec{CmdLabel: wit.CmdLabel, CredLabel: wit.CredLabel, Via: "json", JSON: wit.Config, Model: wit.Model}
	sess := &Session{N: 1, Script: script, Cuts: wit.Cuts, PortAt: wit.PortAt, Target: wit.Target, Class: class}
	recPath := filepath.Join(c.OutDir, "sessions-0.jsonl")
	tracePath := filepath.Join(c.OutDir, "strace-replay.txt")
	once := func(traced bool) error {
		hmods.Quiet(c.OutDir + "/caddyhome")
		setChildEnv()
		w, err := newWorld(0)
		if err != nil {
			return err
		}
		if err := w.warmUp(); err != nil {
			return err
		}
		h, cancel, cfgJSON, err := loadHandler(spec)
		if err != nil {
			return fmt.Errorf("configuration rejected: %w", err)
		}
		defer cancel()
		rec := w.runSession(spec, cfgJSON, h, sess, func() { marker(-1, 1) }, func() { marker(-2, 1) })
		var sb strings.Builder
		for _, v := range []any{header{Header: true, Ports: w.ports, Traced: traced, Sessions: 1}, rec, trailer{Done: true, ConfigsLoaded: 1}} {
			b, _ := json.Marshal(v)
			sb.Write(b)
			sb.WriteByte('\n')
		}
		return os.WriteFile(recPath, []byte(sb.String()), 0o644)
	}
	if os.Getenv(tracedEnv) != "" {
		if err := once(true); err != nil {
			fmt.Fprintln(os.Stdout, "replay:", err)
			os.Exit(2)
		}
		os.Exit(0)
	}
	_ = os.Remove(recPath)
	traced := false
	self, _ := os.Executable()
	if st, err := exec.LookPath("strace"); err == nil && self != "" {
		cmd := exec.Command(st, append(append(straceArgs(tracePath), self), os.Args[1:]...)...)
		cmd.Env = append(os.Environ(), tracedEnv+"=1")
		cmd.Stdout, cmd.Stderr = os.Stdout, os.Stderr
		if err := cmd.Run(); err == nil {
			if _, err := os.Stat(recPath); err == nil {
				traced = true
			}
		}
	}
	if !traced {
		fmt.Println("replay: strace not usable, replaying with monitors (a)+(b) only")
		if err := once(false); err != nil {
			fmt.Println("replay:", err)
			return
		}
	}
	hdr, recs, tr, err := readSessions(recPath)
	if err != nil || hdr == nil || tr == nil || len(recs) != 1 {
		fmt.Println("replay: cannot read the session record:", err)
		return
	}
	var brackets map[int]*Bracket
	if traced {
		brackets, _, _ = parseTrace(tracePath)
	}
	judge(c, hdr, recs, brackets)
	r := recs[0]
	fmt.Printf("replay: verdict=%s reason=%s server_bytes=%s accepts=%v handler=%s traced=%v\n", r.Verdict, r.Reason, r.Witness.ReplyHex, r.Witness.Accepts, r.Witness.Handler, traced)
	if brackets != nil && brackets[1] != nil {
		for _, ev := range brackets[1].Events {
			fmt.Println("replay: trace:", ev.Line)
		}
	}
}

// copyCrash copies the traced process's panic / fatal error report (if any) to our stderr so that the parent can attribute it.
func copyCrash(path string) {
	b, err := os.ReadFile(path)
	if err != nil {
		return
	}
	s := string(b)
	at := -1
	for _, key := range []string{"\npanic: ", "\nfatal error: "} {
		if k := strings.Index(s, key); k >= 0 && (at < 0 || k < at) {
			at = k + 1
		}
	}
	if at < 0 {
		copyTail(path, 4000)
		return
	}
	s = s[at:]
	if len(s) > 1<<20 {
		s = s[:1<<20]
	}
	fmt.Fprintln(os.Stdout, s)
}

func copyTail(path string, n int) {
	b, err := os.ReadFile(path)
	if err != nil {
		return
	}
	if len(b) > n {
		b = b[len(b)-n:]
	}
	fmt.Fprintln(os.Stdout, string(b))
}
