package c16

import (
	"encoding/json"
	"fmt"
	"math/rand"
	"net"
	"os"
	"sort"
	"strings"

	"verifharness/fw"
)

// Environment the placeholders in generated configurations refer to (set in the child).
var childEnv = map[string]string{
	"VERIF_USER":   "envuser",
	"VERIF_PASS":   "envpass",
	"VERIF_CMD_C":  "CONNECT",
	"VERIF_CMD_B":  "bind",
	"VERIF_CMD_A":  "Associate",
	"VERIF_BINDIP": "127.0.0.1",
	// VERIF_EMPTY is deliberately unset
}

// CredEntry is one configured credentials entry and what it means after placeholder expansion.
type CredEntry struct {
	Key, Val   string
	User, Pass string
}

// CfgSpec is one generated handler configuration together with its model.
type CfgSpec struct {
	CmdLabel  string `json:"cmd_label"`
	CredLabel string `json:"cred_label"`
	Via       string `json:"via"` // "json" or "caddyfile"
	JSON      string `json:"json"`
	Caddyfile string `json:"caddyfile,omitempty"`
	Model     Model  `json:"model"`
	// GenPairs are the pairs the session generator draws "right" credentials from (the model's, unless a mutant falsified the model).
	GenPairs []Pair `json:"-"`
}

var cmdNames = [4]string{"", "CONNECT", "BIND", "ASSOCIATE"}
var cmdEnvKeys = [4]string{"", "VERIF_CMD_C", "VERIF_CMD_B", "VERIF_CMD_A"}

func rep(s string, n int) string { return strings.Repeat(s, n)[:n] }

var long255u = rep("user-0123456789abcdef-", 255)
var long255p = rep("Pass/9876543210-zyxwvu+", 255)
var long300u = rep("overlong-user-", 300)

// credClasses lists the credential maps; nil entries = field omitted.
var credClasses = []struct {
	label   string
	present bool // emit the field even if the map is empty
	entries []CredEntry
}{
	{"none", false, nil},
	{"emptymap", true, nil},
	{"one", true, []CredEntry{{"alice", "wonderland", "alice", "wonderland"}}},
	{"many", true, []CredEntry{{"alice", "wonderland", "alice", "wonderland"}, {"bob", "builder", "bob", "builder"},
		{"carol", "c", "carol", "c"}, {"dave", "correct horse battery staple", "dave", "correct horse battery staple"},
		{"ünï-user", "pässwörd", "ünï-user", "pässwörd"}}},
	{"emptyuser-only", true, []CredEntry{{"", "secret", "", "secret"}}},
	{"emptyuser+one", true, []CredEntry{{"", "secret", "", "secret"}, {"bob", "builder", "bob", "builder"}}},
	{"emptypass", true, []CredEntry{{"carol", "", "carol", ""}}},
	{"emptypass+one", true, []CredEntry{{"carol", "", "carol", ""}, {"alice", "wonderland", "alice", "wonderland"}}},
	{"long255", true, []CredEntry{{long255u, long255p, long255u, long255p}}},
	{"overlong300", true, []CredEntry{{long300u, "pw300", long300u, "pw300"}}},
	{"placeholder", true, []CredEntry{{"{env.VERIF_USER}", "{env.VERIF_PASS}", "envuser", "envpass"}}},
	{"placeholder-mixed", true, []CredEntry{{"u-{env.VERIF_USER}", "p-{env.VERIF_PASS}-x", "u-envuser", "p-envpass-x"},
		{"alice", "wonderland", "alice", "wonderland"}}},
	{"placeholder-emptyuser", true, []CredEntry{{"{env.VERIF_EMPTY}", "secret", "", "secret"}}},
	{"placeholder-emptypass", true, []CredEntry{{"erin", "{env.VERIF_EMPTY}", "erin", ""}}},
}

// credOrder weights the credential classes (indexes into credClasses): the plain ones come up more often.
var credOrder = []int{0, 2, 3, 1, 4, 0, 5, 6, 2, 7, 8, 0, 9, 10, 3, 11, 12, 13}

// genConfig builds configuration number k (deterministic in (seed, k)).
func genConfig(seed int64, k int) *CfgSpec {
	r := fw.Rand(seed, "c16cfg", k)
	subset := k % 8 // bit0 CONNECT, bit1 BIND, bit2 ASSOCIATE; 0 = default
	cc := credClasses[credOrder[(k/8)%len(credOrder)]]
	spec := &CfgSpec{CredLabel: cc.label, Via: "json"}
	cfg := map[string]any{}
	var cmds []string
	style := r.Intn(4)
	if subset == 0 {
		spec.CmdLabel = "default"
		spec.Model.Enabled = [4]bool{false, true, false, true}
		if r.Intn(2) == 0 {
			cfg["commands"] = []string{}
			spec.CmdLabel = "default-emptylist"
		}
	} else {
		var names []string
		for c := 1; c <= 3; c++ {
			if subset&(1<<(c-1)) == 0 {
				continue
			}
			spec.Model.Enabled[c] = true
			names = append(names, cmdNames[c])
			n := cmdNames[c]
			switch style {
			case 1:
				n = strings.ToLower(n)
			case 2:
				n = n[:1] + strings.ToLower(n[1:])
			case 3:
				n = "{env." + cmdEnvKeys[c] + "}"
			}
			cmds = append(cmds, n)
		}
		if r.Intn(4) == 0 {
			cmds = append(cmds, cmds[0]) // duplicate
		}
		r.Shuffle(len(cmds), func(i, j int) { cmds[i], cmds[j] = cmds[j], cmds[i] })
		cfg["commands"] = cmds
		spec.CmdLabel = strings.Join(names, "+") + []string{"", "/lower", "/mixed", "/env"}[style]
	}
	if r.Intn(16) == 0 {
		// a name outside the documented set: the module is expected to refuse the configuration; should it
		// load anyway, only the documented names count as enabled (and nothing at all if there is none)
		bad := []string{"UDP", "", "CONNECT ", "{env.VERIF_EMPTY}", "CONNECT,BIND", "*", "ALL"}[r.Intn(7)]
		if subset == 0 {
			spec.Model.Enabled = [4]bool{}
			spec.CmdLabel = "invalid-only"
		} else {
			spec.CmdLabel += "+invalid"
		}
		cmds = append(cmds, bad)
		cfg["commands"] = cmds
	}
	if cc.present {
		m := map[string]string{}
		for _, e := range cc.entries {
			m[e.Key] = e.Val
			spec.Model.Pairs = append(spec.Model.Pairs, Pair{User: e.User, Pass: e.Pass})
		}
		cfg["credentials"] = m
		spec.Model.CredsConfigured = len(cc.entries) > 0
	}
	bind := []string{"", "", "127.0.0.1", "{env.VERIF_BINDIP}", "::1"}[r.Intn(5)]
	if bind != "" {
		cfg["bind_ip"] = bind
	}
	b, _ := json.Marshal(cfg)
	spec.JSON = string(b)
	spec.GenPairs = append([]Pair(nil), spec.Model.Pairs...)
	applyMutant(&spec.Model)
	// a quarter of the configurations go through the Caddyfile syntax documented on UnmarshalCaddyfile
	if r.Intn(4) == 0 {
		var sb strings.Builder
		sb.WriteString("socks5 {\n")
		if bind != "" {
			fmt.Fprintf(&sb, "\tbind_ip %s\n", bind)
		}
		if len(cmds) > 0 {
			sb.WriteString("\tcommands")
			for _, cn := range cmds {
				sb.WriteString(" " + cfTok(cn)) // quoted: a token is exactly the configured string
			}
			sb.WriteString("\n")
		}
		if cc.present && len(cc.entries) > 0 {
			ents := append([]CredEntry(nil), cc.entries...)
			sort.Slice(ents, func(i, j int) bool { return ents[i].Key < ents[j].Key })
			if r.Intn(2) == 0 {
				sb.WriteString("\tcredentials")
				for _, e := range ents {
					fmt.Fprintf(&sb, " %s %s", cfTok(e.Key), cfTok(e.Val))
				}
				sb.WriteString("\n")
			} else {
				for _, e := range ents {
					fmt.Fprintf(&sb, "\tcredentials %s %s\n", cfTok(e.Key), cfTok(e.Val))
				}
			}
		}
		sb.WriteString("}\n")
		// an emptymap cannot be written in the Caddyfile; it is the same as "none" there
		spec.Via = "caddyfile"
		spec.Caddyfile = sb.String()
	}
	return spec
}

// cfTok quotes a Caddyfile token.
func cfTok(s string) string {
	return `"` + strings.ReplaceAll(strings.ReplaceAll(s, `\`, `\\`), `"`, `\"`) + `"`
}

// ---------------------------------------------------------------------------
// Sessions

// Target names a harness-owned destination symbolically; the port is patched in when the session runs.
type Target struct {
	Kind  string `json:"kind"`  // live4, live6, dead
	Index int    `json:"index"` // which listener of that kind
}

// Session is one scripted client conversation.
type Session struct {
	N      int      `json:"n"`
	CfgK   int      `json:"cfg_k"`
	Script []byte   `json:"-"`
	Hex    string   `json:"script_hex"`
	Cuts   []int    `json:"cuts,omitempty"` // write boundaries (offsets); empty = one write
	PortAt []int    `json:"port_at,omitempty"`
	Target Target   `json:"target"`
	Class  []string `json:"class"` // greeting class, auth class, cmd class, atyp class, mutation class
}

type sbuild struct {
	b      []byte
	portAt []int
	marks  []int // message boundaries
	// offsets that may be flipped without touching an address
	flippable []int
}

func (s *sbuild) add(bs ...byte) { s.b = append(s.b, bs...) }
func (s *sbuild) mark()          { s.marks = append(s.marks, len(s.b)) }

type greet struct {
	label string
	bytes func() []byte
	has0  bool
	has2  bool
}

func fill(n int, v byte) []byte {
	b := make([]byte, n)
	for i := range b {
		b[i] = v
	}
	return b
}

var greetings = []greet{
	{"noauth", func() []byte { return []byte{5, 1, 0} }, true, false},
	{"userpass", func() []byte { return []byte{5, 1, 2} }, false, true},
	{"both", func() []byte { return []byte{5, 2, 0, 2} }, true, true},
	{"both-rev", func() []byte { return []byte{5, 2, 2, 0} }, true, true},
	{"gssapi-only", func() []byte { return []byte{5, 1, 1} }, false, false},
	{"private-only", func() []byte { return []byte{5, 1, 0x80} }, false, false},
	{"ff-only", func() []byte { return []byte{5, 1, 0xff} }, false, false},
	{"zero-methods", func() []byte { return []byte{5, 0} }, false, false},
	{"255-all", func() []byte {
		b := []byte{5, 255}
		for i := 0; i < 255; i++ {
			b = append(b, byte(i))
		}
		return b
	}, true, true},
	{"255-none", func() []byte { return append([]byte{5, 255}, fill(255, 3)...) }, false, false},
	{"255-last2", func() []byte { return append(append([]byte{5, 255}, fill(254, 3)...), 2) }, false, true},
	{"255-last0", func() []byte { return append(append([]byte{5, 255}, fill(254, 0x81)...), 0) }, true, false},
	{"gssapi+userpass", func() []byte { return []byte{5, 2, 1, 2} }, false, true},
	{"dup-noauth", func() []byte { return []byte{5, 3, 0, 0, 0} }, true, false},
}

var badGreetVers = []byte{4, 0, 6, 1, 0xff}

// genSession builds session n for configuration spec (deterministic in (seed, n)).
func genSession(seed int64, n int, cfgK int, spec *CfgSpec) *Session {
	for attempt := 0; ; attempt++ {
		s := genSessionOnce(fw.Rand(seed, "c16sess", n, attempt), n, spec, attempt > 6)
		s.CfgK = cfgK
		if Safe(withPort(s.Script, s.PortAt, 0x1234)) {
			return s
		}
	}
}

func withPort(script []byte, at []int, port int) []byte {
	out := append([]byte(nil), script...)
	for _, p := range at {
		if p+2 <= len(out) {
			out[p], out[p+1] = byte(port>>8), byte(port)
		}
	}
	return out
}

func pickTarget(r *rand.Rand, atypClass string) Target {
	if r.Intn(5) == 0 {
		return Target{Kind: "dead"}
	}
	if atypClass == "ipv6" {
		return Target{Kind: "live6", Index: r.Intn(2)}
	}
	return Target{Kind: "live4", Index: r.Intn(4)}
}

func genSessionOnce(r *rand.Rand, n int, spec *CfgSpec, plain bool) *Session {
	m := &spec.Model
	sb := &sbuild{}
	class := make([]string, 5)

	// --- greeting
	need := byte(0)
	if m.CredsConfigured {
		need = 2
	}
	var g greet
	if r.Intn(100) < 72 {
		// a greeting that can make progress under this configuration
		for {
			g = greetings[r.Intn(len(greetings))]
			if (need == 0 && g.has0) || (need == 2 && g.has2) {
				break
			}
		}
	} else {
		g = greetings[r.Intn(len(greetings))]
	}
	gb := g.bytes()
	class[0] = "g:" + g.label
	if k := r.Intn(100); !plain && k < 5 {
		gb[0] = badGreetVers[r.Intn(len(badGreetVers))]
		class[0] += "/badver"
	} else if !plain && k < 8 && len(gb) > 2 {
		gb[1]++ // NMETHODS promises one more method than listed: swallows the next byte
		class[0] += "/nmethods+1"
	} else if !plain && k < 11 && len(gb) > 3 {
		gb[1]-- // one method less than listed: the last method byte starts the next message
		class[0] += "/nmethods-1"
	}
	for i := range gb {
		if i < 8 {
			sb.flippable = append(sb.flippable, len(sb.b)+i)
		}
	}
	sb.add(gb...)
	sb.mark()

	// --- username/password message
	sendAuth := m.CredsConfigured && g.has2
	if !sendAuth && r.Intn(12) == 0 {
		sendAuth = true // unsolicited
	}
	if sendAuth && r.Intn(40) == 0 {
		sendAuth = false
	}
	class[1] = "a:none"
	if sendAuth {
		var valid []Pair
		for _, p := range spec.GenPairs {
			if p.User != "" && len(p.User) <= 255 && len(p.Pass) <= 255 {
				valid = append(valid, p)
			}
		}
		user, pass, ver := "mallory", "letmein", byte(1)
		kind := "wronguser"
		if len(valid) > 0 {
			p := valid[r.Intn(len(valid))]
			user, pass = p.User, p.Pass
			kind = "right"
			if r.Intn(100) >= 58 {
				kinds := []string{"wronguser", "wrongpass", "otherpass", "emptypass", "emptyuser", "swapped", "case", "passprefix",
					"passplus", "badver", "badver-short", "literal-placeholder", "user255", "ulen+1", "plen-1", "nul-suffix"}
				kind = kinds[r.Intn(len(kinds))]
			}
		} else if r.Intn(2) == 0 {
			kinds := []string{"emptyuser", "emptyuser-configured-pass", "wronguser", "badver", "badver-short", "both-empty", "literal-placeholder"}
			kind = kinds[r.Intn(len(kinds))]
		}
		lieU, lieP := 0, 0
		short := false
		switch kind {
		case "wronguser":
			user = "mallory"
		case "wrongpass":
			pass = "not-" + pass
			if len(pass) > 255 {
				pass = pass[:255]
			}
		case "otherpass":
			if len(valid) > 1 {
				for _, q := range valid {
					if q.User != user && q.Pass != pass {
						pass = q.Pass
					}
				}
			} else {
				pass = "builder-x"
			}
		case "emptypass":
			pass = ""
		case "emptyuser":
			user = ""
		case "emptyuser-configured-pass":
			user, pass = "", "secret"
		case "both-empty":
			user, pass = "", ""
		case "swapped":
			user, pass = pass, user
		case "case":
			user = strings.ToUpper(user)
			if user == strings.ToLower(user) {
				user += "X"
			}
		case "passprefix":
			if len(pass) > 0 {
				pass = pass[:len(pass)-1]
			} else {
				pass = "x"
			}
		case "passplus":
			pass += "x"
		case "badver":
			ver = []byte{0, 2, 5, 0xff}[r.Intn(4)]
		case "badver-short":
			// a sub-negotiation that is over after two bytes (wrong version, one more byte); whatever follows is the
			// client's request, sent without any credentials having been presented
			ver = []byte{0, 2, 5, 0xff}[r.Intn(4)]
			short = true
		case "literal-placeholder":
			user, pass = "{env.VERIF_USER}", "{env.VERIF_PASS}"
			if len(m.Pairs) > 0 && strings.HasPrefix(m.Pairs[0].User, "u-") {
				user, pass = "u-{env.VERIF_USER}", "p-{env.VERIF_PASS}-x"
			}
			if len(m.Pairs) > 0 && m.Pairs[0].User == "" {
				user, pass = "{env.VERIF_EMPTY}", "secret"
			}
		case "user255":
			user = rep("Z", 255)
		case "ulen+1":
			lieU = 1
		case "plen-1":
			lieP = -1
		case "nul-suffix":
			user += "\x00"
		}
		if len(user) > 255 {
			user = user[:255]
		}
		if len(pass) > 255 {
			pass = pass[:255]
		}
		class[1] = "a:" + kind
		if plain {
			lieU, lieP = 0, 0
		}
		if short {
			sb.add(ver, byte(r.Intn(256)))
		} else {
			sb.flippable = append(sb.flippable, len(sb.b), len(sb.b)+1)
			sb.add(ver, byte(len(user)+lieU))
			if len(user) > 0 {
				sb.flippable = append(sb.flippable, len(sb.b)+r.Intn(len(user)))
			}
			sb.add([]byte(user)...)
			sb.flippable = append(sb.flippable, len(sb.b))
			pl := len(pass) + lieP
			if pl < 0 {
				pl = 0
			}
			sb.add(byte(pl))
			if len(pass) > 0 {
				sb.flippable = append(sb.flippable, len(sb.b)+r.Intn(len(pass)))
			}
			sb.add([]byte(pass)...)
		}
		sb.mark()
	}

	// --- request
	var tgt Target
	class[2], class[3] = "c:none", "t:none"
	addReq := func() {
		cmd := byte(1)
		switch k := r.Intn(100); {
		case k < 44:
			cmd = 1
		case k < 58:
			cmd = 2
		case k < 78:
			cmd = 3
		case k < 82:
			cmd = 0
		case k < 86:
			cmd = 4
		case k < 89:
			cmd = 0xff
		case k < 92:
			cmd = 0x81 // CONNECT with the high bit set
		default:
			cmd = byte(4 + r.Intn(252))
		}
		cl := "c:other"
		switch {
		case cmd >= 1 && cmd <= 3:
			cl = "c:" + strings.ToLower(cmdNames[cmd])
		case cmd == 0:
			cl = "c:0"
		case cmd == 4:
			cl = "c:4"
		case cmd >= 0x80:
			cl = "c:high"
		}
		ver, rsv := byte(5), byte(0)
		if k := r.Intn(100); !plain && k < 4 {
			ver = []byte{4, 0, 6, 1}[r.Intn(4)]
			cl += "/badver"
		} else if !plain && k < 8 {
			rsv = byte(1 + r.Intn(255))
			cl += "/rsv"
		}
		atyp := "ipv4"
		switch k := r.Intn(100); {
		case k < 42:
		case k < 57:
			atyp = "ipv6"
		case k < 71:
			atyp = "domain"
		case k < 74:
			atyp = "domain-upper" // resolved from the hosts file like "localhost"; the reference does not prescribe the outcome
		case k < 77:
			atyp = "domain-dot" // "localhost." is not in the hosts file: the resolver asks the (loopback) name server
			if !allowDotName {
				atyp = "domain"
			}
		case k < 82:
			atyp = "v4mapped"
		case k < 86:
			atyp = "domain-empty"
		default:
			atyp = "invalid"
		}
		tgt = pickTarget(r, atyp)
		start := len(sb.b)
		sb.flippable = append(sb.flippable, start, start+1, start+2, start+3)
		switch atyp {
		case "ipv4":
			sb.add(ver, cmd, rsv, 1, 127, 0, 0, 1)
		case "ipv6":
			sb.add(ver, cmd, rsv, 4)
			sb.add(make([]byte, 15)...)
			sb.add(1)
		case "v4mapped":
			sb.add(ver, cmd, rsv, 4)
			sb.add(make([]byte, 10)...)
			sb.add(0xff, 0xff, 127, 0, 0, 1)
		case "domain":
			sb.add(ver, cmd, rsv, 3, 9)
			sb.add([]byte("localhost")...)
		case "domain-upper":
			sb.add(ver, cmd, rsv, 3, 9)
			sb.add([]byte("LOCALHOST")...)
		case "domain-dot":
			sb.add(ver, cmd, rsv, 3, 10)
			sb.add([]byte("localhost.")...)
		case "domain-empty":
			sb.add(ver, cmd, rsv, 3, 0)
		case "invalid":
			sb.add(ver, cmd, rsv, []byte{0, 2, 5, 0xff, 0x41}[r.Intn(5)], 127, 0, 0, 1)
		}
		sb.portAt = append(sb.portAt, len(sb.b))
		sb.add(0, 0)
		class[2], class[3] = cl, "t:"+atyp+"/"+tgt.Kind
		sb.mark()
	}
	if r.Intn(25) != 0 {
		addReq()
	}

	// --- mutation of the whole script
	class[4] = "m:none"
	if !plain {
		switch k := r.Intn(100); {
		case k < 60:
		case k < 68:
			g := make([]byte, 1+r.Intn(64))
			r.Read(g)
			sb.add(g...)
			class[4] = "m:trailing-garbage"
		case k < 73 && len(sb.portAt) > 0:
			// a second, pipelined request: CONNECT to a live target
			first := class[2]
			t2 := Target{Kind: "live4", Index: r.Intn(4)}
			sb.add(5, 1, 0, 1, 127, 0, 0, 1)
			sb.portAt = append(sb.portAt, len(sb.b))
			sb.add(0, 0)
			class[4] = "m:pipelined-connect"
			class[2] = first
			if tgt.Kind != "live4" {
				tgt = t2 // both ports are patched with the same target below; keep it live
			}
		case k < 84:
			if len(sb.b) > 1 {
				cut := r.Intn(len(sb.b))
				sb.b = sb.b[:cut]
				class[4] = "m:truncated"
			}
		case k < 93:
			if len(sb.flippable) > 0 {
				p := sb.flippable[r.Intn(len(sb.flippable))]
				if p < len(sb.b) {
					sb.b[p] ^= byte(1 << uint(r.Intn(8)))
					class[4] = "m:bitflip"
				}
			}
		default:
			class[4] = "m:none"
		}
	}
	s := &Session{N: n, Script: sb.b, PortAt: sb.portAt, Target: tgt, Class: class}
	// write boundaries
	switch r.Intn(4) {
	case 0: // one write
	case 1: // per message
		for _, mk := range sb.marks {
			if mk > 0 && mk < len(sb.b) {
				s.Cuts = append(s.Cuts, mk)
			}
		}
	case 2: // byte by byte (bounded: the first 48 bytes)
		for i := 1; i < len(sb.b) && i <= 48; i++ {
			s.Cuts = append(s.Cuts, i)
		}
	default:
		for i := 1; i < len(sb.b); i++ {
			if r.Intn(6) == 0 {
				s.Cuts = append(s.Cuts, i)
			}
		}
	}
	return s
}

// truncationFamily returns, for base script number b of configuration spec, every strict prefix.
func truncationFamily(seed int64, n0 int, cfgK int, spec *CfgSpec, base int) []*Session {
	r := fw.Rand(seed, "c16trunc", base)
	m := &spec.Model
	sb := &sbuild{}
	if m.CredsConfigured {
		sb.add(5, 2, 0, 2)
		user, pass := "mallory", "letmein"
		for _, p := range spec.GenPairs {
			if p.User != "" && len(p.User) <= 40 && p.Pass != "" {
				user, pass = p.User, p.Pass
			}
		}
		sb.add(1, byte(len(user)))
		sb.add([]byte(user)...)
		sb.add(byte(len(pass)))
		sb.add([]byte(pass)...)
	} else {
		sb.add(5, 1, 0)
	}
	cmd := byte(1 + base%3)
	tgt := Target{Kind: "live4", Index: r.Intn(4)}
	atyp := []string{"ipv4", "ipv6", "domain"}[(base/3)%3]
	switch atyp {
	case "ipv4":
		sb.add(5, cmd, 0, 1, 127, 0, 0, 1)
	case "ipv6":
		tgt = Target{Kind: "live6", Index: r.Intn(2)}
		sb.add(5, cmd, 0, 4)
		sb.add(make([]byte, 15)...)
		sb.add(1)
	case "domain":
		sb.add(5, cmd, 0, 3, 9)
		sb.add([]byte("localhost")...)
	}
	sb.portAt = append(sb.portAt, len(sb.b))
	sb.add(0, 0)
	var out []*Session
	for cut := 0; cut <= len(sb.b); cut++ {
		mc := "m:prefix"
		if cut == len(sb.b) {
			mc = "m:full"
		}
		s := &Session{N: n0 + cut, CfgK: cfgK, Script: append([]byte(nil), sb.b[:cut]...), PortAt: sb.portAt, Target: tgt,
			Class: []string{"g:family", "a:family", "c:" + strings.ToLower(cmdNames[cmd]), "t:" + atyp + "/" + tgt.Kind, mc}}
		if cut%2 == 1 {
			for i := 1; i < cut; i++ {
				s.Cuts = append(s.Cuts, i)
			}
		}
		out = append(out, s)
	}
	return out
}

// applyMutant deliberately falsifies the model (never the configuration) when
// VERIF_C16_MUTANT is set: a self-test that shows each monitor can fire.
func applyMutant(m *Model) {
	switch os.Getenv("VERIF_C16_MUTANT") {
	case "model-no-connect":
		m.Enabled[1] = false
	case "model-no-associate":
		m.Enabled[3] = false
	case "model-creds":
		if !m.CredsConfigured {
			m.CredsConfigured = true
		}
	case "model-no-pairs":
		m.Pairs = nil
	}
}

// allowDotName: the name "localhost." makes the resolver query the configured name servers; it is only used when
// every name server in /etc/resolv.conf is a loopback address (so that nothing leaves the machine).
var allowDotName = loopbackResolversOnly()

func loopbackResolversOnly() bool {
	b, err := os.ReadFile("/etc/resolv.conf")
	if err != nil {
		return false
	}
	n := 0
	for _, l := range strings.Split(string(b), "\n") {
		f := strings.Fields(l)
		if len(f) >= 2 && f[0] == "nameserver" {
			ip := net.ParseIP(f[1])
			if ip == nil || !ip.IsLoopback() {
				return false
			}
			n++
		}
	}
	return n > 0
}
