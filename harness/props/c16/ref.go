package c16

import (
	"fmt"
	"net"
)

// ---------------------------------------------------------------------------
// Reference: what RFC 1928 / RFC 1929 and the property statement say about a
// client byte script, given the *effective* configuration (the model). It is a
// plain state machine over the bytes; it does not call into the server's code.

// Pair is one effective (username, password) entry.
type Pair struct {
	User string `json:"user"`
	Pass string `json:"pass"`
}

// Model is the effective configuration the reference decides on.
type Model struct {
	// Enabled[cmd] for cmd 1 (CONNECT), 2 (BIND), 3 (UDP ASSOCIATE); index 0 unused.
	Enabled [4]bool `json:"enabled"`
	// CredsConfigured: the configuration carries at least one credentials entry
	// (whatever its name): the server must then insist on username/password.
	CredsConfigured bool `json:"creds_configured"`
	// Pairs are the entries after placeholder expansion.
	Pairs []Pair `json:"pairs"`
}

// Ports describes the harness-owned loopback targets.
type Ports struct {
	Live4 []int `json:"live4"`
	Live6 []int `json:"live6"`
	Dead  int   `json:"dead"`
}

func (p *Ports) has(list []int, port int) bool {
	for _, x := range list {
		if x == port {
			return true
		}
	}
	return false
}

// IsTarget reports whether port belongs to any harness-owned target (live or dead).
func (p *Ports) IsTarget(port int) bool {
	return port != 0 && (p.has(p.Live4, port) || p.has(p.Live6, port) || port == p.Dead)
}

const (
	VerdictRefuse = "refuse" // nothing may be executed: no success reply, no outbound connection, no listener
	VerdictPermit = "permit" // enabled CONNECT of an authenticated client to a live target: REP 0 + relay
	VerdictMay    = "may"    // enabled command whose outcome the reference does not prescribe
)

// Expect is the reference's reading of one script.
type Expect struct {
	Verdict string `json:"verdict"`
	// Reason is the class of the decisive fact, e.g. "cmd-disabled", "auth-wrong", "req-truncated".
	Reason string `json:"reason"`
	// Method is the METHOD the server must select (0, 2, 0xFF); -1 = the greeting is not well-formed, nothing prescribed.
	Method int `json:"method"`
	// Auth: "ok" status must be 0; "fail" status must not be 0; "abstain"; "" not reached.
	Auth string `json:"auth,omitempty"`
	// ReplyRequired: a well-formed request that must be refused has to be answered with REP != 0.
	ReplyRequired bool `json:"reply_required,omitempty"`
	// DeadTarget: enabled CONNECT to a closed harness port: a reply with REP != 0 is required.
	DeadTarget bool   `json:"dead_target,omitempty"`
	Cmd        int    `json:"cmd"`  // -1 = request not reached / incomplete
	Atyp       int    `json:"atyp"` // -1 likewise
	Dest       string `json:"dest,omitempty"`
	DestPort   int    `json:"dest_port,omitempty"`
	DestKind   string `json:"dest_kind,omitempty"` // live4, live6, dead, other
	// Trailing are the bytes after a complete request (relay payload for CONNECT).
	Trailing []byte `json:"-"`
	// ReqEnd is the offset just after the request (0 if none).
	ReqEnd int `json:"req_end,omitempty"`
}

func refuse(e Expect, reason string) Expect {
	e.Verdict, e.Reason = VerdictRefuse, reason
	return e
}

// parsedReq is a syntactically complete request.
type parsedReq struct {
	ver, cmd, rsv, atyp int
	ip                  net.IP
	domain              string
	port                int
	end                 int
	state               string // "ok", "truncated", "badatyp"
}

// parseRequest reads VER CMD RSV ATYP DST.ADDR DST.PORT at b[off:].
func parseRequest(b []byte, off int) parsedReq {
	r := parsedReq{state: "truncated", cmd: -1, atyp: -1}
	if len(b)-off < 4 {
		if len(b)-off >= 1 {
			r.ver = int(b[off])
		} else {
			r.ver = -1
		}
		if len(b)-off >= 2 {
			r.cmd = int(b[off+1])
		}
		return r
	}
	r.ver, r.cmd, r.rsv, r.atyp = int(b[off]), int(b[off+1]), int(b[off+2]), int(b[off+3])
	p := off + 4
	switch r.atyp {
	case 1:
		if len(b)-p < 6 {
			return r
		}
		r.ip = net.IP(append([]byte(nil), b[p:p+4]...))
		p += 4
	case 4:
		if len(b)-p < 18 {
			return r
		}
		r.ip = net.IP(append([]byte(nil), b[p:p+16]...))
		p += 16
	case 3:
		if len(b)-p < 1 {
			return r
		}
		n := int(b[p])
		if len(b)-p < 1+n+2 {
			return r
		}
		r.domain = string(b[p+1 : p+1+n])
		p += 1 + n
	default:
		r.state = "badatyp"
		return r
	}
	r.port = int(b[p])<<8 | int(b[p+1])
	r.end = p + 2
	r.state = "ok"
	return r
}

// greeting parses VER NMETHODS METHODS; ok=false if incomplete.
func parseGreeting(b []byte) (ver int, methods []byte, end int, ok bool) {
	if len(b) < 2 {
		return 0, nil, 0, false
	}
	n := int(b[1])
	if len(b) < 2+n {
		return int(b[0]), nil, 0, false
	}
	return int(b[0]), b[2 : 2+n], 2 + n, true
}

// parseAuth parses the RFC 1929 request at b[off:].
func parseAuth(b []byte, off int) (ver int, user, pass []byte, end int, ok bool) {
	if len(b)-off < 2 {
		if len(b)-off >= 1 {
			ver = int(b[off])
		} else {
			ver = -1
		}
		return ver, nil, nil, 0, false
	}
	ver = int(b[off])
	ul := int(b[off+1])
	p := off + 2
	if len(b)-p < ul+1 {
		return ver, nil, nil, 0, false
	}
	user = b[p : p+ul]
	p += ul
	pl := int(b[p])
	p++
	if len(b)-p < pl {
		return ver, nil, nil, 0, false
	}
	pass = b[p : p+pl]
	return ver, user, pass, p + pl, true
}

func contains(b []byte, x byte) bool {
	for _, v := range b {
		if v == x {
			return true
		}
	}
	return false
}

// Reference computes the expectation for script under model m.
func Reference(m *Model, ports *Ports, script []byte) Expect {
	e := Expect{Method: -1, Cmd: -1, Atyp: -1}
	ver, methods, off, ok := parseGreeting(script)
	if !ok {
		return refuse(e, "greeting-truncated")
	}
	if ver != 5 {
		return refuse(e, "greeting-badver")
	}
	// RFC 1928 section 3: the server selects one of the offered methods it accepts, X'FF' if none.
	// With credentials configured the only acceptable method is username/password (2); without, "no auth" (0).
	want := byte(0)
	if m.CredsConfigured {
		want = 2
	}
	if !contains(methods, want) {
		e.Method = 0xFF
		return refuse(e, "no-acceptable-method")
	}
	e.Method = int(want)
	authAbstain := false
	if want == 2 {
		aver, user, pass, end, ok := parseAuth(script, off)
		if !ok {
			if aver >= 0 && aver != 1 {
				e.Auth = "fail"
				return refuse(e, "auth-badver")
			}
			e.Auth = "fail"
			return refuse(e, "auth-truncated")
		}
		if aver != 1 {
			e.Auth = "fail"
			return refuse(e, "auth-badver")
		}
		if len(user) == 0 {
			// RFC 1929: UNAME is 1..255 octets; an empty name is not a username.
			e.Auth = "fail"
			return refuse(e, "auth-empty-user")
		}
		match := false
		for _, p := range m.Pairs {
			if p.User != "" && p.User == string(user) && p.Pass == string(pass) {
				match = true
			}
		}
		if !match {
			e.Auth = "fail"
			return refuse(e, "auth-wrong")
		}
		if len(pass) == 0 {
			// a configured empty password against RFC 1929's PLEN >= 1: the reference abstains on the status
			e.Auth = "abstain"
			authAbstain = true
		} else {
			e.Auth = "ok"
		}
		off = end
	}
	if off == len(script) {
		e.Reason = "no-request"
		e.Verdict = VerdictRefuse // nothing was asked for: nothing may be executed
		return e
	}
	rq := parseRequest(script, off)
	if rq.ver >= 0 && rq.ver != 5 {
		e.Cmd = rq.cmd
		return refuse(e, "req-badver")
	}
	switch rq.state {
	case "truncated":
		return refuse(e, "req-truncated")
	case "badatyp":
		e.Cmd, e.Atyp = rq.cmd, rq.atyp
		return refuse(e, "req-badatyp")
	}
	e.Cmd, e.Atyp, e.DestPort, e.ReqEnd = rq.cmd, rq.atyp, rq.port, rq.end
	e.Trailing = script[rq.end:]
	if rq.domain != "" || rq.atyp == 3 {
		e.Dest = fmt.Sprintf("%q:%d", rq.domain, rq.port)
	} else {
		e.Dest = net.JoinHostPort(rq.ip.String(), fmt.Sprint(rq.port))
	}
	e.DestKind = destKind(ports, rq)
	if rq.cmd < 1 || rq.cmd > 3 {
		e.ReplyRequired = true
		return refuse(e, "cmd-unknown")
	}
	if !m.Enabled[rq.cmd] {
		e.ReplyRequired = true
		return refuse(e, "cmd-disabled")
	}
	// the command is enabled and the client is authenticated (or needs not be)
	switch {
	case authAbstain:
		e.Verdict, e.Reason = VerdictMay, "auth-abstain-empty-password"
	case rq.rsv != 0:
		e.Verdict, e.Reason = VerdictMay, "rsv-nonzero"
	case rq.cmd == 2:
		e.Verdict, e.Reason = VerdictMay, "bind-enabled"
	case rq.cmd == 3:
		e.Verdict, e.Reason = VerdictMay, "associate-enabled"
	case rq.atyp == 3 && rq.domain == "":
		e.Verdict, e.Reason = VerdictMay, "connect-empty-domain"
	case e.DestKind == "live4" || e.DestKind == "live6":
		e.Verdict, e.Reason = VerdictPermit, "connect-live"
	case e.DestKind == "dead":
		e.Verdict, e.Reason, e.DeadTarget = VerdictMay, "connect-dead", true
	default:
		e.Verdict, e.Reason = VerdictMay, "connect-other"
	}
	return e
}

func destKind(ports *Ports, rq parsedReq) string {
	v4 := false
	v6 := false
	if rq.atyp == 3 {
		v4 = rq.domain == "localhost"
	} else if ip4 := rq.ip.To4(); ip4 != nil {
		v4 = ip4.Equal(net.IPv4(127, 0, 0, 1))
	} else {
		v6 = rq.ip.Equal(net.IPv6loopback)
	}
	switch {
	case v4 && ports.has(ports.Live4, rq.port):
		return "live4"
	case v6 && ports.has(ports.Live6, rq.port):
		return "live6"
	case (v4 || v6) && rq.port == ports.Dead:
		return "dead"
	}
	return "other"
}

// safeDest reports whether a request destination stays on the loopback interface.
func safeDest(rq parsedReq) bool {
	if rq.state != "ok" {
		return true
	}
	if rq.atyp == 3 {
		return rq.domain == "localhost" || rq.domain == "" || rq.domain == "LOCALHOST" || rq.domain == "localhost."
	}
	return rq.ip.IsLoopback()
}

// Safe reports whether, under every reading a server could reach (request
// directly after the greeting, or after a username/password message), the
// script names only loopback destinations. Scripts that fail are not run.
func Safe(script []byte) bool {
	_, _, off, ok := parseGreeting(script)
	if !ok {
		return true
	}
	if !safeDest(parseRequest(script, off)) {
		return false
	}
	if _, _, _, end, ok := parseAuth(script, off); ok {
		if !safeDest(parseRequest(script, end)) {
			return false
		}
	}
	return true
}

// ---------------------------------------------------------------------------
// Reading the server's side of the conversation.

// Replies is what the server actually answered, parsed along the path it took.
type Replies struct {
	Raw        []byte
	HasMethod  bool
	Method     int
	HasAuth    bool
	AuthStatus int
	HasReply   bool
	Rep        int
	ReplyEnd   int // offset just after the request reply
	Garbled    string
}

// ParseReplies follows the server's own answers: method selection, then (if it
// selected 2) an auth status, then (if it selected 0 or reported status 0) a
// request reply; the remainder is relay data.
func ParseReplies(raw []byte) Replies {
	r := Replies{Raw: raw, Method: -1, AuthStatus: -1, Rep: -1}
	if len(raw) < 2 {
		if len(raw) == 1 {
			r.Garbled = "one-byte-reply"
		}
		return r
	}
	if raw[0] != 5 {
		r.Garbled = "method-reply-version"
		return r
	}
	r.HasMethod, r.Method = true, int(raw[1])
	p := 2
	switch r.Method {
	case 0:
	case 2:
		if len(raw)-p < 2 {
			return r
		}
		r.HasAuth, r.AuthStatus = true, int(raw[p+1])
		if raw[p] != 1 {
			r.Garbled = "auth-reply-version"
		}
		p += 2
		if r.AuthStatus != 0 {
			r.ReplyEnd = p
			return r
		}
	default:
		r.ReplyEnd = p
		return r
	}
	if len(raw)-p < 4 {
		r.ReplyEnd = p
		return r
	}
	if raw[p] != 5 {
		r.Garbled = "reply-version"
		r.ReplyEnd = p
		return r
	}
	rep := int(raw[p+1])
	n := 0
	switch raw[p+3] {
	case 1:
		n = 4 + 4 + 2
	case 4:
		n = 4 + 16 + 2
	case 3:
		if len(raw)-p < 5 {
			r.ReplyEnd = p
			return r
		}
		n = 4 + 1 + int(raw[p+4]) + 2
	default:
		r.Garbled = "reply-atyp"
		r.HasReply, r.Rep, r.ReplyEnd = true, rep, len(raw)
		return r
	}
	if len(raw)-p < n {
		r.Garbled = "reply-truncated"
		r.HasReply, r.Rep, r.ReplyEnd = true, rep, len(raw)
		return r
	}
	r.HasReply, r.Rep, r.ReplyEnd = true, rep, p+n
	return r
}
