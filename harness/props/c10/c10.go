// Package c10 monitors the upstream selection policies: on every enumerated
// pool state each policy must return an available upstream iff one exists and
// honour its own contract; round_robin's concurrent behaviour is checked for
// linearizability with porcupine.
package c10

import (
	"encoding/json"
	"fmt"
	"net"
	"runtime/debug"
	"sort"
	"strings"
	"sync"
	"time"

	"github.com/anishathalye/porcupine"

	"github.com/mholt/caddy-l4/layer4"
	"github.com/mholt/caddy-l4/modules/l4proxy"

	"verifharness/fw"
	"verifharness/hmods"
	"verifharness/mt"
	"verifharness/vnet"
)

func init() {
	fw.Register(&fw.Prop{
		ID: "C10",
		Rule: "case = (policy, parameters, pool state, client address): pool sizes 0..N with every availability vector over {ok, unhealthy, failed, full} (exhaustive), " +
			"connection-count vectors, single- and multi-peer upstreams, IPv4/IPv6 clients with and without port; oracle: no panic, result is available (independent availability from the state the " +
			"harness set), none only when nothing is available, plus per-policy contract (first = earliest; round_robin = every window of |avail| results is a permutation; ip_hash = stable, " +
			"unaffected by removing another upstream, port-independent; least_conn = minimum connections; random = every available seen). Concurrent round_robin histories are checked with porcupine; tight concurrent loops on an all-available pool must return every upstream floor(T/n)..ceil(T/n) times. " +
			"Provisioned pools: the proxy handler is loaded from JSON (passive policy none / fail_duration only / max_fails 2 / unhealthy_connection_count / both, per-upstream max_connections, 1-2 peers), " +
			"peer counters are set, and every policy must return an upstream that is available under the limits the configuration implies (default max_fails 1, unhealthy_connection_count as default max_connections). " +
			"non-trivial = pool has both available and unavailable members; distinct = hash(policy, parameters, state). a quarter of the provisioned cases use a twin handler: the state is set through one handler instance and the policy of a second instance provisioned from the same configuration is asked.",
		Assumptions: []string{
			"pool state is constructed through the verif-tagged export VerifNewUpstream (white-box) and is static during a sequential case",
			"ip_hash returning none when an FNV hash is 0 (2^-32 per input) is out of reach of sampling",
		},
		MinEvals: 5000,
		Plan: func(tier string) []fw.ChildSpec {
			if tier == "thorough" {
				return []fw.ChildSpec{
					{Name: "enum", Mode: "enum", Shards: 12, Timeout: 30 * time.Minute},
					{Name: "conc", Mode: "conc", Shards: 4, Timeout: 30 * time.Minute},
					{Name: "conc-race", Mode: "conc", Race: true, Shards: 2, Timeout: 30 * time.Minute},
					{Name: "prov", Mode: "prov", Shards: 4, Timeout: 30 * time.Minute},
				}
			}
			return []fw.ChildSpec{
				{Name: "enum", Mode: "enum", Shards: 8, Timeout: 10 * time.Minute},
				{Name: "conc", Mode: "conc", Shards: 2, Timeout: 10 * time.Minute},
				{Name: "prov", Mode: "prov", Shards: 2, Timeout: 10 * time.Minute},
			}
		},
		Run:    run,
		Replay: replay,
	})
}

const (
	maxConns = 3
	maxFails = 2
)

// State is one pool: per upstream a code (o ok, u unhealthy, f failed, F full, m multi-peer with one bad peer,
// M multi-peer all good, S multi-peer with every peer just below the per-peer limit) and a connection count for the ok ones.
type State struct {
	Codes string `json:"codes"`
	Conns []int  `json:"conns"`
}

func (s State) build() (l4proxy.UpstreamPool, []bool) {
	var pool l4proxy.UpstreamPool
	var avail []bool
	for i, c := range s.Codes {
		conns := int32(0)
		if i < len(s.Conns) {
			conns = int32(s.Conns[i])
		}
		dial := []string{fmt.Sprintf("10.9.%d.%d:80", i/200, i%200+1)}
		var st []l4proxy.VerifPeerState
		ok := true
		switch c {
		case 'o':
			st = []l4proxy.VerifPeerState{{NumConns: conns}}
		case 'u':
			st = []l4proxy.VerifPeerState{{Unhealthy: 1, NumConns: conns}}
			ok = false
		case 'f':
			st = []l4proxy.VerifPeerState{{Fails: maxFails, NumConns: conns}}
			ok = false
		case 'F':
			st = []l4proxy.VerifPeerState{{NumConns: maxConns}}
			ok = false
		case 'm':
			dial = append(dial, fmt.Sprintf("10.8.%d.%d:80", i/200, i%200+1))
			st = []l4proxy.VerifPeerState{{NumConns: conns}, {Unhealthy: 1}}
			ok = false
		case 'M':
			dial = append(dial, fmt.Sprintf("10.8.%d.%d:80", i/200, i%200+1))
			st = []l4proxy.VerifPeerState{{NumConns: conns}, {NumConns: 0}}
		case 'S':
			// multi-peer, every peer one below the limit: the limit is per peer, so the upstream is available
			// although the sum over its peers exceeds the limit
			dial = append(dial, fmt.Sprintf("10.8.%d.%d:80", i/200, i%200+1), fmt.Sprintf("10.7.%d.%d:80", i/200, i%200+1))
			st = []l4proxy.VerifPeerState{{NumConns: maxConns - 1}, {NumConns: maxConns - 1}, {NumConns: maxConns - 1}}
		}
		pool = append(pool, l4proxy.VerifNewUpstream(dial, maxConns, maxFails, st))
		avail = append(avail, ok)
	}
	return pool, avail
}

func (s State) conns(i int) int {
	if i < len(s.Conns) {
		return s.Conns[i]
	}
	return 0
}

func indexOf(pool l4proxy.UpstreamPool, u *l4proxy.Upstream) int {
	for i, p := range pool {
		if p == u {
			return i
		}
	}
	return -1
}

var clients = []string{"192.0.2.7:1234", "192.0.2.7:65535", "192.0.2.8:1", "10.0.0.1:80", "255.255.255.255:9", "0.0.0.0:0",
	"[2001:db8::1]:443", "[2001:db8::1]:444", "[::1]:1", "[::ffff:192.0.2.7]:5", "[fe80::1%25eth0]:7", "203.0.113.99:40000"}

func connFor(addr string) *layer4.Connection {
	host, port, _ := net.SplitHostPort(addr)
	var p int
	fmt.Sscanf(port, "%d", &p)
	zone := ""
	if k := strings.Index(host, "%25"); k >= 0 {
		zone = host[k+3:]
		host = host[:k]
	}
	cx, _ := mt.NewConn(nil, mt.Opts{Remote: &net.TCPAddr{IP: net.ParseIP(host), Port: p, Zone: zone}})
	return cx
}

type witness struct {
	Policy string `json:"policy"`
	Param  int    `json:"param,omitempty"`
	State  State  `json:"state"`
	Client string `json:"client,omitempty"`
	Detail string `json:"detail"`
}

func safeSelect(sel l4proxy.Selector, pool l4proxy.UpstreamPool, cx *layer4.Connection) (u *l4proxy.Upstream, panicked string) {
	defer func() {
		if r := recover(); r != nil {
			panicked = fmt.Sprintf("%v\n%s", r, debug.Stack())
		}
	}()
	return sel.Select(pool, cx), ""
}

func topFrame(stack string) string {
	for _, l := range strings.Split(stack, "\n") {
		if strings.HasPrefix(l, "github.com/mholt/caddy-l4/") {
			f := strings.TrimPrefix(l, "github.com/mholt/caddy-l4/")
			if k := strings.LastIndex(f, "("); k > 0 {
				f = f[:k]
			}
			return f
		}
	}
	return "?"
}

func run(c *fw.Ctx) {
	hmods.Quiet(c.OutDir + "/caddyhome")
	if c.Mode == "conc" {
		runConcurrent(c)
		runTight(c)
		return
	}
	if c.Mode == "prov" {
		runProvisioned(c)
		runHistory(c)
		return
	}
	maxN := c.Pick(6, 8)
	codes := "oufF"
	idx := 0
	for n := 0; n <= maxN; n++ {
		total := 1
		for i := 0; i < n; i++ {
			total *= len(codes)
		}
		for v := 0; v < total; v++ {
			idx++
			if !c.Mine(idx) {
				continue
			}
			b := make([]byte, n)
			x := v
			for i := range b {
				b[i] = codes[x%len(codes)]
				x /= len(codes)
			}
			r := fw.Rand(c.Seed, "c10", n, v)
			st := State{Codes: string(b)}
			for i := 0; i < n; i++ {
				st.Conns = append(st.Conns, r.Intn(maxConns))
			}
			// some states get multi-peer upstreams
			if n > 0 && v%5 == 0 {
				k := r.Intn(n)
				if b[k] == 'o' {
					b[k] = "mMS"[r.Intn(3)]
					st.Codes = string(b)
				}
			}
			checkState(c, st, clients[(idx)%len(clients)])
		}
	}
	c.Note("exhaustive over availability vectors {o,u,f,F}^n for n<=%d (shard %d/%d)", maxN, c.Shard, c.NShards)
}

func availSet(avail []bool) []int {
	var s []int
	for i, a := range avail {
		if a {
			s = append(s, i)
		}
	}
	return s
}

func checkState(c *fw.Ctx, st State, client string) {
	pool, avail := st.build()
	as := availSet(avail)
	mixed := len(as) > 0 && len(as) < len(avail)
	cx := connFor(client)
	report := func(policy string, param int, kind, detail string) {
		c.Violation(fmt.Sprintf("C10 %s %s", policy, kind), fmt.Sprintf("policy %s on pool %q (conns %v): %s", policy, st.Codes, st.Conns, detail),
			witness{Policy: policy, Param: param, State: st, Client: client, Detail: detail})
	}
	// common contract for one selection; returns the index (-1 none, -2 invalid)
	one := func(policy string, param int, sel l4proxy.Selector) int {
		u, p := safeSelect(sel, pool, cx)
		if p != "" {
			report(policy, param, "panic in "+topFrame(p), strings.SplitN(p, "\n", 2)[0])
			return -2
		}
		if u == nil {
			if len(as) > 0 {
				report(policy, param, "none-although-available", fmt.Sprintf("returned no upstream although %d are available", len(as)))
				return -2
			}
			return -1
		}
		i := indexOf(pool, u)
		if i < 0 {
			report(policy, param, "foreign-upstream", "returned an upstream that is not in the pool")
			return -2
		}
		if !avail[i] {
			report(policy, param, "unavailable-chosen", fmt.Sprintf("returned upstream %d which is %q (unavailable)", i, st.Codes[i]))
			return -2
		}
		return i
	}
	evals := 0
	// first
	if i := one("first", 0, &l4proxy.FirstSelection{}); i >= 0 && i != as[0] {
		report("first", 0, "not-earliest", fmt.Sprintf("returned %d, earliest available is %d", i, as[0]))
	}
	evals++
	// round_robin: sequential run
	rr := &l4proxy.RoundRobinSelection{}
	var seq []int
	for k := 0; k < 3*len(pool)+3; k++ {
		i := one("round_robin", 0, rr)
		evals++
		if i < 0 {
			break
		}
		seq = append(seq, i)
	}
	if w := len(as); w > 0 && len(seq) >= w {
		for s := 0; s+w <= len(seq); s++ {
			win := append([]int(nil), seq[s:s+w]...)
			sort.Ints(win)
			okp := true
			for k := range win {
				if win[k] != as[k] {
					okp = false
				}
			}
			if !okp {
				report("round_robin", 0, "cycle-not-a-permutation", fmt.Sprintf("selection sequence %v: window %v at %d is not a permutation of the available set %v", seq, seq[s:s+w], s, as))
				break
			}
		}
	}
	// ip_hash
	ih := &l4proxy.IPHashSelection{}
	i1 := one("ip_hash", 0, ih)
	i2 := one("ip_hash", 0, ih)
	evals += 2
	if i1 >= 0 && i2 >= 0 && i1 != i2 {
		report("ip_hash", 0, "not-deterministic", fmt.Sprintf("two calls for the same client returned %d then %d", i1, i2))
	}
	if i1 >= 0 {
		// same IP, other port
		host, _, _ := net.SplitHostPort(client)
		other := connFor(net.JoinHostPort(host, "31337"))
		if u, p := safeSelect(ih, pool, other); p == "" && u != nil && indexOf(pool, u) != i1 {
			report("ip_hash", 0, "depends-on-port", fmt.Sprintf("client %s got %d but the same IP with another port got %d", client, i1, indexOf(pool, u)))
		}
		// making another upstream unavailable keeps the choice
		for _, j := range as {
			if j == i1 {
				continue
			}
			l4proxy.VerifSetPeerState(pool[j], 0, l4proxy.VerifPeerState{Unhealthy: 1})
			u, p := safeSelect(ih, pool, cx)
			l4proxy.VerifSetPeerState(pool[j], 0, l4proxy.VerifPeerState{NumConns: int32(st.conns(j))})
			if p == "" && indexOf(pool, u) != i1 {
				report("ip_hash", 0, "choice-moves-when-other-leaves", fmt.Sprintf("client %s was mapped to %d; after upstream %d became unavailable it is mapped to %d", client, i1, j, indexOf(pool, u)))
			}
			evals++
			break
		}
	}
	// least_conn
	lc := &l4proxy.LeastConnSelection{}
	for k := 0; k < 4; k++ {
		i := one("least_conn", 0, lc)
		evals++
		if i >= 0 {
			min := 1 << 30
			for _, j := range as {
				if t := totalConns(st, j); t < min {
					min = t
				}
			}
			if totalConns(st, i) != min {
				report("least_conn", 0, "not-minimal", fmt.Sprintf("returned upstream %d with %d connections, minimum among available is %d", i, totalConns(st, i), min))
			}
		}
	}
	// random: every result available; every available seen
	rs := &l4proxy.RandomSelection{}
	seen := map[int]bool{}
	reps := 64 * len(as)
	if reps == 0 {
		reps = 4
	}
	for k := 0; k < reps; k++ {
		if i := one("random", 0, rs); i >= 0 {
			seen[i] = true
		} else if i == -2 {
			break
		}
		evals++
	}
	if len(seen) > 0 && len(seen) < len(as) {
		report("random", 0, "available-never-chosen", fmt.Sprintf("in %d selections only %d of %d available upstreams were ever chosen", reps, len(seen), len(as)))
	}
	// random_choose
	for _, k := range []int{2, 3, 5, 9} {
		rc := &l4proxy.RandomChoiceSelection{Choose: k}
		for rep := 0; rep < 24; rep++ {
			if i := one("random_choose", k, rc); i == -2 {
				break
			}
			evals++
		}
	}
	c.Evals(int64(evals) - 1)
	c.Case(fw.Hash(st.Codes, st.Conns), mixed, func() any { return map[string]any{"state": st, "client": client, "available": as} })
	c.Obs("selections", int64(evals))
}

func totalConns(st State, i int) int {
	switch st.Codes[i] {
	case 'F':
		return maxConns
	case 'm', 'M':
		return st.conns(i)
	case 'S':
		return 3 * (maxConns - 1)
	}
	return st.conns(i)
}

// ---------------------------------------------------------------------------
// Concurrent round_robin histories checked with porcupine

type rrOut struct{ Index int }

func rrModel(n int) porcupine.Model {
	return porcupine.Model{
		Init: func() any { return 0 },
		Step: func(state, input, output any) (bool, any) {
			st := state.(int)
			out := output.(rrOut).Index
			want := (st + 1) % n
			return out == want, want
		},
		DescribeOperation: func(input, output any) string { return fmt.Sprintf("select -> %d", output.(rrOut).Index) },
	}
}

func runConcurrent(c *fw.Ctx) {
	histories := c.Pick(300, 6000)
	if c.Prop != nil && strings.Contains(c.OutDir, "race") {
		histories = c.Pick(300, 1500)
	}
	for h := 0; h < histories; h++ {
		if !c.Mine(h) {
			continue
		}
		r := fw.Rand(c.Seed, "c10conc", h)
		n := 2 + r.Intn(6)
		workers := 4 + r.Intn(13)
		per := 2 + r.Intn(4)
		st := State{Codes: strings.Repeat("o", n)}
		pool, _ := st.build()
		rr := &l4proxy.RoundRobinSelection{}
		cx := connFor(clients[0])
		var mu sync.Mutex
		var ops []porcupine.Operation
		var wg sync.WaitGroup
		start := make(chan struct{})
		panicked := ""
		for w := 0; w < workers; w++ {
			wg.Add(1)
			go func(w int) {
				defer wg.Done()
				<-start
				for k := 0; k < per; k++ {
					t0 := int64(vnet.Now())
					u, p := safeSelect(rr, pool, cx)
					t1 := int64(vnet.Now())
					mu.Lock()
					if p != "" {
						panicked = p
					}
					ops = append(ops, porcupine.Operation{ClientId: w, Input: nil, Call: t0, Output: rrOut{indexOf(pool, u)}, Return: t1})
					mu.Unlock()
				}
			}(w)
		}
		close(start)
		wg.Wait()
		if panicked != "" {
			c.Violation("C10 round_robin panic in "+topFrame(panicked), strings.SplitN(panicked, "\n", 2)[0], witness{Policy: "round_robin", State: st})
			continue
		}
		res, _ := porcupine.CheckOperationsVerbose(rrModel(n), ops, 10*time.Second)
		// overlap statistics: how concurrent was this history
		maxOverlap := 0
		for i := range ops {
			o := 0
			for j := range ops {
				if ops[j].Call < ops[i].Return && ops[i].Call < ops[j].Return {
					o++
				}
			}
			if o > maxOverlap {
				maxOverlap = o
			}
		}
		c.ObsMax("max_overlapping_selects", int64(maxOverlap))
		c.Obs("concurrent_selects", int64(len(ops)))
		switch res {
		case porcupine.Illegal:
			outs := make([]int, len(ops))
			for i, o := range ops {
				outs[i] = o.Output.(rrOut).Index
			}
			c.Violation("C10 round_robin concurrent history not linearizable", fmt.Sprintf("%d goroutines x %d selections on %d upstreams: results %v cannot be ordered as consecutive round-robin steps", workers, per, n, outs),
				map[string]any{"n": n, "workers": workers, "per": per, "ops": ops})
		case porcupine.Unknown:
			c.Inconclusive("porcupine timeout")
		}
		c.Case(fw.Hash("conc", n, workers, per, h), maxOverlap > 1, func() any {
			return map[string]any{"upstreams": n, "goroutines": workers, "selections_each": per, "max_overlap": maxOverlap, "verdict": fmt.Sprint(res)}
		})
	}
}

// runHistory: the deterministic policies (first, ip_hash) are functions of the client and the current pool state. One
// selector instance is used through a history - all upstreams up, the chosen one goes down, it comes back - and has
// to agree at every step with a fresh instance asked about the same state.
func runHistory(c *fw.Ctx) {
	for n := 2; n <= 6; n++ {
		for ci, cl := range clients {
			if !c.Mine(n*100 + ci) {
				continue
			}
			st := State{Codes: strings.Repeat("o", n)}
			pool, _ := st.build()
			cx := connFor(cl)
			for _, name := range []string{"ip_hash", "first"} {
				mk := func() l4proxy.Selector {
					if name == "first" {
						return &l4proxy.FirstSelection{}
					}
					return &l4proxy.IPHashSelection{}
				}
				shared := mk()
				step := func(what string) int {
					got := indexOf(pool, shared.Select(pool, cx))
					want := indexOf(pool, mk().Select(pool, cx))
					if got != want {
						c.Violation(fmt.Sprintf("C10 %s result depends on the selector's history", name),
							fmt.Sprintf("%d upstreams, client %s, %s: a selector that has been used before returns upstream %d, a fresh one returns %d for the same pool state", n, cl, what, got, want),
							map[string]any{"policy": name, "n": n, "client": cl, "step": what})
					}
					return got
				}
				r0 := step("all up")
				if r0 < 0 {
					continue
				}
				l4proxy.VerifSetPeerState(pool[r0], 0, l4proxy.VerifPeerState{Unhealthy: 1})
				step("the chosen upstream is down")
				step("the chosen upstream is down (again)")
				l4proxy.VerifSetPeerState(pool[r0], 0, l4proxy.VerifPeerState{})
				step("the chosen upstream is back")
				c.Obs("history_sequences", 1)
			}
		}
	}
}

// runTight: G goroutines call Select in tight loops (nothing recorded inside the loop) on a pool whose upstreams are
// all available. Every selection takes exactly one step of the rotation, so after T selections in total each of
// the n upstreams has been returned floor(T/n) or ceil(T/n) times - whatever the interleaving. A rotation step
// that is not one atomic read-modify-write loses or repeats steps and breaks the count.
func runTight(c *fw.Ctx) {
	rounds := c.Pick(6, 40)
	for k := 0; k < rounds; k++ {
		if !c.Mine(k) {
			continue
		}
		r := fw.Rand(c.Seed, "c10tight", k)
		n := []int{2, 3, 4, 5, 7}[r.Intn(5)]
		workers := []int{4, 8, 16}[r.Intn(3)]
		per := c.Pick(20000, 60000)
		st := State{Codes: strings.Repeat("o", n)}
		pool, _ := st.build()
		rr := &l4proxy.RoundRobinSelection{}
		cx := connFor(clients[0])
		counts := make([][]int, workers)
		var wg sync.WaitGroup
		start := make(chan struct{})
		for w := 0; w < workers; w++ {
			counts[w] = make([]int, n+1)
			wg.Add(1)
			go func(w int) {
				defer wg.Done()
				<-start
				for i := 0; i < per; i++ {
					idx := indexOf(pool, rr.Select(pool, cx))
					if idx < 0 {
						idx = n
					}
					counts[w][idx]++
				}
			}(w)
		}
		close(start)
		wg.Wait()
		total := make([]int, n+1)
		for w := range counts {
			for i, v := range counts[w] {
				total[i] += v
			}
		}
		T := workers * per
		lo, hi := T/n, (T+n-1)/n
		bad := total[n] > 0
		for i := 0; i < n; i++ {
			if total[i] < lo || total[i] > hi {
				bad = true
			}
		}
		c.Obs("tight_loop_selects", int64(T))
		if bad {
			c.Violation("C10 round_robin concurrent selections are not one rotation step each", fmt.Sprintf("%d goroutines x %d selections on %d available upstreams: counts %v (none: %d), every upstream must have been returned %d..%d times", workers, per, n, total[:n], total[n], lo, hi),
				map[string]any{"n": n, "workers": workers, "per": per, "counts": total})
		}
		c.Case(fw.Hash("tight", n, workers, k), true, func() any {
			return map[string]any{"upstreams": n, "goroutines": workers, "selections_each": per, "counts": total[:n]}
		})
	}
}

func replay(c *fw.Ctx, raw json.RawMessage) {
	var pw struct {
		Case *ProvCase `json:"case"`
	}
	var direct ProvCase
	if json.Unmarshal(raw, &direct) == nil && len(direct.Peers) > 0 {
		pw.Case = &direct
	} else {
		_ = json.Unmarshal(raw, &pw)
	}
	if pw.Case != nil && len(pw.Case.Peers) > 0 {
		hmods.Quiet(c.OutDir + "/caddyhome")
		runProvisionedCase(c, pw.Case)
		return
	}
	var w witness
	if err := json.Unmarshal(raw, &w); err != nil || w.State.Codes == "" && w.Policy == "" {
		fmt.Println("replay: cannot decode (concurrent histories are not replayable deterministically):", err)
		return
	}
	hmods.Quiet(c.OutDir + "/caddyhome")
	cl := w.Client
	if cl == "" {
		cl = clients[0]
	}
	checkState(c, w.State, cl)
}
