package c10

import (
	"encoding/json"
	"fmt"

	"verifharness/drive"
	"verifharness/fw"
	"verifharness/hmods"

	"github.com/mholt/caddy-l4/modules/l4proxy"
)

// Provisioned pools: the proxy handler is built from JSON through Caddy's module loader, so that the limits the
// policies consult are the ones Provision derives from the configuration (default max_fails of 1 when only
// fail_duration is given, unhealthy_connection_count as the default max_connections, per-upstream max_connections).
// The peers' counters are then set directly and every policy is asked: it must return an upstream that is
// available under the configured limits, and none only if none is.

// ProvCase is the replay record of this mode.
type ProvCase struct {
	Policy   string                     `json:"policy"`
	Passive  string                     `json:"passive"` // none, default-max-fails, max-fails-2, unhealthy-conns-2, both
	MaxConns []int                      `json:"max_conns"`
	Peers    []int                      `json:"peers"`
	States   [][]l4proxy.VerifPeerState `json:"states"`
	// Twin: a second handler is provisioned from the same configuration while the first one exists (a configuration
	// reload, or two routes that proxy to the same addresses). The counters are set through the first handler and the
	// second handler's policy is asked: both see the same upstreams' state.
	Twin bool `json:"twin,omitempty"`
}

func (pc *ProvCase) config(base int) string {
	var ups []any
	for i := range pc.Peers {
		var dial []string
		for j := 0; j < pc.Peers[i]; j++ {
			dial = append(dial, fmt.Sprintf("tcp/10.77.%d.%d:%d", (base>>8)&0xff, base&0xff, 1000+i*10+j))
		}
		u := map[string]any{"dial": dial}
		if pc.MaxConns[i] > 0 {
			u["max_connections"] = pc.MaxConns[i]
		}
		ups = append(ups, u)
	}
	pol := map[string]any{"policy": pc.Policy}
	if pc.Policy == "random_choose" {
		pol["choose"] = 2
	}
	h := map[string]any{"upstreams": ups, "load_balancing": map[string]any{"selection": pol}}
	switch pc.Passive {
	case "default-max-fails":
		h["health_checks"] = map[string]any{"passive": map[string]any{"fail_duration": "10s"}}
	case "max-fails-2":
		h["health_checks"] = map[string]any{"passive": map[string]any{"fail_duration": "10s", "max_fails": 2}}
	case "unhealthy-conns-2":
		h["health_checks"] = map[string]any{"passive": map[string]any{"unhealthy_connection_count": 2}}
	case "both":
		h["health_checks"] = map[string]any{"passive": map[string]any{"fail_duration": "10s", "unhealthy_connection_count": 2}}
	}
	return drive.J(h)
}

// limits returns (maxFails, defaultMaxConns) that the configuration implies (0 = no limit).
func (pc *ProvCase) limits() (int, int) {
	switch pc.Passive {
	case "default-max-fails":
		return 1, 0
	case "max-fails-2":
		return 2, 0
	case "unhealthy-conns-2":
		return 0, 2
	case "both":
		return 1, 2
	}
	return 0, 0
}

func (pc *ProvCase) available(i int) bool {
	mf, dmc := pc.limits()
	mc := pc.MaxConns[i]
	if mc == 0 {
		mc = dmc
	}
	for _, st := range pc.States[i] {
		if st.Unhealthy != 0 {
			return false
		}
		if mf > 0 && int(st.Fails) >= mf {
			return false
		}
		if mc > 0 && int(st.NumConns) >= mc {
			return false
		}
	}
	return true
}

var provSeq int

var provPolicies = []string{"first", "round_robin", "ip_hash", "least_conn", "random", "random_choose"}

func runProvisionedCase(c *fw.Ctx, pc *ProvCase) {
	provSeq++
	ctx, cancel := hmods.NewContext()
	defer cancel()
	mod, err := ctx.LoadModuleByID("layer4.handlers.proxy", json.RawMessage(pc.config(provSeq+c.Shard*4000)))
	if err != nil {
		c.Violation("C10 provisioned config rejected", err.Error(), pc)
		return
	}
	h := mod.(*l4proxy.Handler)
	for i, u := range h.Upstreams {
		for j, st := range pc.States[i] {
			l4proxy.VerifSetPeerState(u, j, st)
		}
	}
	if pc.Twin {
		ctx2, cancel2 := hmods.NewContext()
		defer cancel2()
		mod2, err := ctx2.LoadModuleByID("layer4.handlers.proxy", json.RawMessage(pc.config(provSeq+c.Shard*4000)))
		if err != nil {
			c.Violation("C10 provisioned config rejected", err.Error(), pc)
			return
		}
		h = mod2.(*l4proxy.Handler)
	}
	anyAvail, mixed := false, false
	for i := range pc.Peers {
		if pc.available(i) {
			anyAvail = true
		} else {
			mixed = true
		}
	}
	for k := 0; k < 6; k++ {
		cx := connFor(clients[(provSeq+k)%len(clients)])
		var got *l4proxy.Upstream
		if p := guardSelect(func() { got = h.LoadBalancing.SelectionPolicy.Select(h.Upstreams, cx) }); p != "" {
			c.Violation(fmt.Sprintf("C10 provisioned %s panic", pc.Policy), p, pc)
			return
		}
		idx := indexOf(h.Upstreams, got)
		switch {
		case got == nil && anyAvail:
			c.Violation(fmt.Sprintf("C10 provisioned %s none-although-available [passive=%s]", pc.Policy, pc.Passive), "the policy returned no upstream although one is available under the configured limits", pc)
			return
		case got != nil && idx < 0:
			c.Violation(fmt.Sprintf("C10 provisioned %s foreign-upstream", pc.Policy), "the policy returned an upstream that is not in the pool", pc)
			return
		case got != nil && !pc.available(idx):
			c.Violation(fmt.Sprintf("C10 provisioned %s unavailable-selected [passive=%s]", pc.Policy, pc.Passive),
				fmt.Sprintf("the policy returned upstream %d, which is not available under the limits the configuration implies (peer states %+v, max_connections %d)", idx, pc.States[idx], pc.MaxConns[idx]), pc)
			return
		}
	}
	c.Obs("provisioned_cases", 1)
	c.Case(fw.Hash("prov", pc.Twin, pc.Policy, pc.Passive, pc.MaxConns, pc.Peers, fmt.Sprint(pc.States)), anyAvail && mixed, func() any { return pc })
}

func guardSelect(f func()) (p string) {
	defer func() {
		if r := recover(); r != nil {
			p = fmt.Sprint(r)
		}
	}()
	f()
	return ""
}

func runProvisioned(c *fw.Ctx) {
	n := c.Pick(3000, 60000)
	passives := []string{"none", "default-max-fails", "max-fails-2", "unhealthy-conns-2", "both"}
	for i := 0; i < n; i++ {
		r := fw.Rand(c.Seed, "c10prov", i)
		pc := &ProvCase{Policy: provPolicies[r.Intn(len(provPolicies))], Passive: passives[r.Intn(len(passives))]}
		nu := 1 + r.Intn(4)
		for u := 0; u < nu; u++ {
			pc.MaxConns = append(pc.MaxConns, []int{0, 0, 1, 3}[r.Intn(4)])
			np := 1 + r.Intn(3)/2
			pc.Peers = append(pc.Peers, np)
			var sts []l4proxy.VerifPeerState
			for p := 0; p < np; p++ {
				sts = append(sts, l4proxy.VerifPeerState{
					NumConns:  int32([]int{0, 0, 1, 2, 3}[r.Intn(5)]),
					Fails:     int32([]int{0, 0, 0, 1, 2}[r.Intn(5)]),
					Unhealthy: int32([]int{0, 0, 0, 0, 1}[r.Intn(5)]),
				})
			}
			pc.States = append(pc.States, sts)
		}
		pc.Twin = r.Intn(4) == 0
		if !c.Mine(i) {
			continue
		}
		runProvisionedCase(c, pc)
	}
}
