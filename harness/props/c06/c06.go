// Package c06 monitors matcher purity and fragmentation-insensitivity with a
// verdict lattice over all prefixes of each input stream.
package c06

import (
	"bytes"
	"encoding/hex"
	"encoding/json"
	"fmt"
	"io"
	"strings"
	"time"

	"verifharness/fw"
	"verifharness/gen"
	"verifharness/hmods"
	"verifharness/mt"
	"verifharness/seedpool"
)

func init() {
	fw.Register(&fw.Prop{
		ID: "C06",
		Rule: "case = (matcher+configuration, stream, prefix length k): streams are well-formed first messages with 0..64 bytes of trailing data and boundary-aware mutations of them; " +
			"for every k (all k<=700, sampled above) a fresh layer4.Connection preloaded with the k-byte prefix over a counting conn is evaluated through MatcherSet.Match. " +
			"oracle: P1 no network read during Match; P2 MatchingBytes and a full read afterwards equal the prefix; P3 two evaluations on one connection and one on a fresh connection agree; " +
			"P4 (stream matchers) NO/ERR at k stays NO/ERR for all longer prefixes; P5 (stream matchers) YES at k implies MORE or YES at every shorter prefix; P6 a stream evaluated again later (fresh connection, after other streams of the target) gets the same verdict; P7 the same holds for a second instance provisioned beside the first and for the first instance after its configuration was unloaded. " +
			"non-trivial = the stream's verdict sequence contains at least one MORE or YES; distinct = hash(target, stream). " +
			"route level: a route list of a proxy_protocol route (non-terminal) followed by 3-8 shipped stream matchers in a shuffled order, each ending in a recording sink; a stream (optional PROXY v1/v2 header + well-formed " +
			"message + trailing bytes) is delivered whole and in 2-4 fragments (separate prefetch rounds): the same route must consume it and its handler must read the same bytes. route level also: HTTP requests of 6.2-8.1 KiB (long header) whole and in equal segments of 536..4000 bytes.",
		Assumptions: []string{
			"time-dependent filters are pinned (clock via the wrap-time placeholder, OpenVPN seeds without timestamps)",
			"datagram matchers (wireguard, quic, dns/UDP, openvpn/UDP) are held to P1-P3 only",
		},
		MinEvals: 20000,
		Plan: func(tier string) []fw.ChildSpec {
			if tier == "thorough" {
				return []fw.ChildSpec{{Name: "lattice", Mode: "lattice", Shards: 16, Timeout: 60 * time.Minute},
					{Name: "routes", Mode: "routes", Shards: 8, Timeout: 60 * time.Minute}}
			}
			return []fw.ChildSpec{{Name: "lattice", Mode: "lattice", Shards: 12, Timeout: 10 * time.Minute},
				{Name: "routes", Mode: "routes", Shards: 4, Timeout: 10 * time.Minute}}
		},
		Run:    run,
		Replay: replay,
	})
}

type histEntry struct {
	stream  []byte
	verdict mt.Verdict
}

// Witness is what a replay file holds.
type Witness struct {
	Target    string `json:"target"`
	Matcher   string `json:"matcher"`
	Config    string `json:"config"`
	UDP       bool   `json:"udp"`
	StreamHex string `json:"stream_hex"`
	K         int    `json:"k"`
	K2        int    `json:"k2,omitempty"`
	Detail    string `json:"detail"`
}

func run(c *fw.Ctx) {
	if c.Mode == "routes" {
		runRoutes(c)
		return
	}
	hmods.Quiet(c.OutDir + "/caddyhome")
	nStreams := c.Pick(250, 5000)
	idx := 0
	for _, t := range seedpool.Targets(c.Seed) {
		if strings.HasPrefix(t.Label, "c14#") {
			nStreams = c.Pick(60, 1200)
		} else {
			nStreams = c.Pick(250, 5000)
		}
		if t.Slow || len(t.Seeds) == 0 {
			continue
		}
		m, err := mt.Load(t.Matcher, t.Config)
		if err != nil {
			c.Violation("C06 config rejected "+t.Name(), err.Error(), t.Config)
			continue
		}
		r := fw.Rand(c.Seed, "c06", t.Name())
		var hist []histEntry
		for i := 0; i < nStreams; i++ {
			idx++
			// generate on every shard (keeps the PRNG aligned), evaluate only our share
			seed := t.Seeds[r.Intn(len(t.Seeds))]
			var stream []byte
			switch i % 4 {
			case 0:
				stream = append([]byte(nil), seed...)
				if i >= 4 {
					trail := make([]byte, 1+r.Intn(64))
					r.Read(trail)
					stream = append(stream, trail...)
				}
			case 1:
				stream = append(append([]byte(nil), seed...), seed...)
			default:
				stream = gen.Mutate(seed, r)
			}
			if !c.Mine(idx) {
				continue
			}
			checkStream(c, m, t, stream)
			// P6: a verdict does not depend on which streams were evaluated before (no state carried from one
			// connection to the next): an earlier stream of this target is evaluated again and must get the verdict it
			// got the first time
			o := mt.Opts{UDP: t.UDP, WrapTime: time.Date(2024, 5, 5, 12, 0, 0, 0, time.UTC)}
			if v, _ := m.Eval(stream, o); len(hist) < 64 {
				hist = append(hist, histEntry{stream, v})
			} else {
				hist[r.Intn(len(hist))] = histEntry{stream, v}
			}
			if r.Intn(2) == 0 && len(hist) > 1 {
				h := hist[r.Intn(len(hist))]
				if v2, _ := m.Eval(h.stream, o); v2 != h.verdict {
					c.Violation(fmt.Sprintf("C06 %s P6 verdict-depends-on-history", t.Matcher),
						fmt.Sprintf("a stream that was answered %s is answered %s when it is evaluated again (fresh connection) after other connections have been matched", h.verdict, v2),
						Witness{Target: t.Name(), Matcher: t.Matcher, Config: t.Config, UDP: t.UDP, StreamHex: hex.EncodeToString(h.stream), K: len(h.stream), Detail: "P6: evaluated again after " + hex.EncodeToString(stream)})
					hist = nil
				}
				c.Obs("history_reevaluations", 1)
			}
		}
		// P7: the verdict on a stream does not depend on the life cycle of the configuration either. A second instance is
		// provisioned from the same configuration while this one exists (a reload), then this one is unloaded: streams
		// evaluated before get the same verdict from the new instance - and from the unloaded one, which goes on matching
		// the connections it accepted before the reload (their bytes may still be arriving).
		o7 := mt.Opts{UDP: t.UDP, WrapTime: time.Date(2024, 5, 5, 12, 0, 0, 0, time.UTC)}
		for k := range hist {
			// (the reference verdicts are taken right now: some verdicts depend on the time of day within seconds)
			if k < 24 {
				func() {
					defer func() { _ = recover() }()
					hist[k].verdict, _ = m.Eval(hist[k].stream, o7)
				}()
			}
		}
		m2, err2 := mt.Load(t.Matcher, t.Config)
		m.Close()
		if err2 == nil {
			o := o7
			for k, h := range hist {
				if k >= 24 || !c.Mine(idx+k) {
					continue
				}
				for which, inst := range []*mt.Matcher{m2, m} {
					var v mt.Verdict
					func() {
						defer func() {
							if r := recover(); r != nil {
								v = "panic"
							}
						}()
						v, _ = inst.Eval(h.stream, o)
					}()
					c.Obs("life_cycle_reevaluations", 1)
					if v != h.verdict {
						who := "a second instance provisioned from the same configuration while the first existed (first one unloaded since)"
						if which == 1 {
							who = "the same instance after its configuration was unloaded (it still serves the connections it accepted before)"
						}
						c.Violation(fmt.Sprintf("C06 %s P7 verdict-depends-on-configuration-life-cycle", t.Matcher),
							fmt.Sprintf("a stream that was answered %s is answered %s by %s", h.verdict, v, who),
							Witness{Target: t.Name(), Matcher: t.Matcher, Config: t.Config, UDP: t.UDP, StreamHex: hex.EncodeToString(h.stream), K: len(h.stream), Detail: "P7: " + who})
						break
					}
				}
			}
			m2.Close()
		}
	}
}

func terminalNo(v mt.Verdict) bool { return v == mt.No || v == mt.Err }

func checkStream(c *fw.Ctx, m *mt.Matcher, t *gen.Target, stream []byte) {
	o := mt.Opts{UDP: t.UDP, WrapTime: time.Date(2024, 5, 5, 12, 0, 0, 0, time.UTC)}
	w := func(k int, detail string) *Witness {
		return &Witness{Target: t.Name(), Matcher: t.Matcher, Config: t.Config, UDP: t.UDP, StreamHex: hex.EncodeToString(stream), K: k, Detail: detail}
	}
	n := len(stream)
	var ks []int
	for k := 0; k <= n; k++ {
		if k <= 700 || k == n || k%97 == 0 || (k%2048 <= 1) || (k%2048 == 2047) {
			ks = append(ks, k)
		}
	}
	verdicts := make([]mt.Verdict, len(ks))
	firstNo := -1
	sawProgress := false
	for i, k := range ks {
		prefix := stream[:k]
		cx, end := mt.NewConn(prefix, o)
		v1, _ := m.EvalOn(cx)
		c.Evals(1)
		verdicts[i] = v1
		if v1 == mt.More || v1 == mt.Yes {
			sawProgress = true
		}
		// P1
		if rc := end.ReadCalls.Load(); rc != 0 {
			c.Violation(fmt.Sprintf("C06 %s P1 reads-network", t.Matcher), fmt.Sprintf("matcher %s read from the network %d times while evaluating a %d-byte prefix", t.Name(), rc, k), w(k, "network reads"))
		}
		// P2 (before any further evaluation)
		if mb := cx.MatchingBytes(); !bytes.Equal(mb, prefix) {
			c.Violation(fmt.Sprintf("C06 %s P2 alters-stream", t.Matcher), fmt.Sprintf("after Match, MatchingBytes() has %d bytes (want the %d-byte prefix unchanged)", len(mb), k), w(k, "matching bytes differ"))
		}
		// P3 same connection
		v2, _ := m.EvalOn(cx)
		if v2 != v1 {
			c.Violation(fmt.Sprintf("C06 %s P3 not-idempotent", t.Matcher), fmt.Sprintf("matcher %s answered %s then %s on the same %d-byte prefix of one connection", t.Name(), v1, v2, k), w(k, string(v1)+" then "+string(v2)))
		}
		if rc := end.ReadCalls.Load(); rc != 0 {
			c.Violation(fmt.Sprintf("C06 %s P1 reads-network", t.Matcher), fmt.Sprintf("matcher %s read from the network on re-evaluation of a %d-byte prefix", t.Name(), k), w(k, "network reads on re-evaluation"))
		}
		got, _ := io.ReadAll(cx)
		if !bytes.Equal(got, prefix) {
			c.Violation(fmt.Sprintf("C06 %s P2 alters-stream", t.Matcher), fmt.Sprintf("after Match, reading the connection returns %d bytes that differ from the %d-byte prefix", len(got), k), w(k, "read-back differs"))
		}
		// P3 fresh connection
		v3, _ := m.Eval(prefix, o)
		if v3 != v1 {
			c.Violation(fmt.Sprintf("C06 %s P3 not-a-function-of-prefix", t.Matcher), fmt.Sprintf("matcher %s answered %s on one connection and %s on a fresh one for the same %d-byte prefix", t.Name(), v1, v3, k), w(k, string(v1)+" vs "+string(v3)))
		}
		if !t.Stream {
			continue
		}
		// P4
		if firstNo >= 0 && !terminalNo(v1) {
			ww := w(ks[firstNo], fmt.Sprintf("%s at %d, %s at %d", verdicts[firstNo], ks[firstNo], v1, k))
			ww.K2 = k
			c.Violation(fmt.Sprintf("C06 %s P4 no-then-%s%s", t.Matcher, v1, region(t, stream, ks[firstNo])), fmt.Sprintf("matcher %s rejected the %d-byte prefix (%s) but answers %s on the longer %d-byte prefix of the same stream", t.Name(), ks[firstNo], verdicts[firstNo], v1, k), ww)
			firstNo = -1 // report once per stream
		}
		if terminalNo(v1) && firstNo < 0 {
			firstNo = i
		}
		// P5
		if v1 == mt.Yes {
			for j := 0; j < i; j++ {
				if terminalNo(verdicts[j]) {
					ww := w(ks[j], fmt.Sprintf("%s at %d, yes at %d", verdicts[j], ks[j], k))
					ww.K2 = k
					c.Violation(fmt.Sprintf("C06 %s P5 fragment-rejected%s", t.Matcher, region(t, stream, ks[j])), fmt.Sprintf("matcher %s matches the %d-byte message delivered whole but answers %s (not need-more) on its %d-byte prefix", t.Name(), k, verdicts[j], ks[j]), ww)
					break
				}
			}
		}
	}
	seq := make([]byte, len(verdicts))
	for i, v := range verdicts {
		seq[i] = v[0]
	}
	c.SetAdd("verdict_sequences", t.Matcher+":"+compress(seq))
	c.Obs("streams_"+t.Name(), 1)
	c.Case(fw.Hash(t.Name(), hex.EncodeToString(stream)), sawProgress, func() any {
		return map[string]any{"target": t.Name(), "stream_len": n, "prefixes": len(ks), "verdicts": compress(seq)}
	})
}

// region names, for matchers whose messages have an internal structure that matters for a finding's
// identity, the part of the message in which the rejected prefix ends (so that a known finding about
// one part does not hide a new violation in another).
func region(t *gen.Target, stream []byte, k int) string {
	switch t.Matcher {
	case "winbox":
		if len(stream) > 0 && stream[0] == 255 && k >= 257 {
			return " [multi-chunk message cut at or inside a continuation chunk]"
		}
		return " [first chunk]"
	}
	return ""
}

// compress run-length encodes a verdict sequence, e.g. "m12 y1 n5".
func compress(seq []byte) string {
	var out []byte
	for i := 0; i < len(seq); {
		j := i
		for j < len(seq) && seq[j] == seq[i] {
			j++
		}
		out = append(out, fmt.Sprintf("%c%d ", seq[i], j-i)...)
		i = j
	}
	return string(bytes.TrimSpace(out))
}

func replay(c *fw.Ctx, raw json.RawMessage) {
	if replayRoutes(c, raw) {
		return
	}
	var w Witness
	if err := json.Unmarshal(raw, &w); err != nil {
		fmt.Println("replay:", err)
		return
	}
	hmods.Quiet(c.OutDir + "/caddyhome")
	stream, _ := hex.DecodeString(w.StreamHex)
	for _, t := range seedpool.Targets(c.Seed) {
		if t.Name() != w.Target {
			continue
		}
		m, err := mt.Load(t.Matcher, t.Config)
		if err != nil {
			fmt.Println("replay:", err)
			return
		}
		checkStream(c, m, t, stream)
	}
}
