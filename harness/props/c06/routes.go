package c06

import (
	"bytes"
	"encoding/hex"
	"encoding/json"
	"fmt"
	"sort"
	"strings"
	"time"

	"verifharness/drive"
	"verifharness/fw"
	"verifharness/gen"
	"verifharness/hmods"
	"verifharness/oracle"
)

// Route-level fragmentation invariance with the shipped matchers: a route list made of a proxy_protocol route
// (non-terminal, it changes the stream the later routes see) followed by one route per stream matcher, each ending
// in its own recording sink. A stream (optional PROXY header + a well-formed first message + trailing bytes) is
// delivered whole and then in two to four fragments; fragments arrive as separate prefetch rounds (the scripted
// transport keeps segment boundaries). The connection must be consumed by the same route and the sink must read
// the same bytes, however the stream was cut. Only streams that some route accepts when delivered whole are judged
// (the property promises nothing for fragments of a stream that is rejected as a whole).

// RouteWitness is the replay record of this mode.
type RouteWitness struct {
	Order     []string `json:"route_order"`
	StreamHex string   `json:"stream_hex"`
	Cuts      []int    `json:"cuts"`
	Detail    string   `json:"detail"`
}

var routeProtos = []string{"tls", "ssh", "xmpp", "postgres", "http", "socks4", "socks5", "rdp"}

func routeMatcherCfg(p string) any {
	if p == "http" {
		return []any{}
	}
	return map[string]any{}
}

func routesConfig(order []string) string {
	rs := []any{map[string]any{"match": []any{map[string]any{"proxy_protocol": map[string]any{}}}, "handle": []any{map[string]any{"handler": "proxy_protocol"}}}}
	for _, p := range order {
		rs = append(rs, map[string]any{"match": []any{map[string]any{p: routeMatcherCfg(p)}},
			"handle": []any{map[string]any{"handler": "verif_sink", "name": p, "bufsize": 512}}})
	}
	return drive.J(rs)
}

type routeOutcome struct {
	consumer string // sink name, "" if none
	stream   []byte
	matches  string // verdict trace signature
}

func deliver(app *drive.AppRun, id string, stream []byte, cuts []int) (*routeOutcome, bool) {
	rec := hmods.Track(id)
	defer hmods.Untrack(id)
	client, server := drive.NewPair(id)
	prev := 0
	for _, k := range cuts {
		_, _ = client.Write(stream[prev:k])
		prev = k
	}
	_, _ = client.Write(stream[prev:])
	_ = client.CloseWrite()
	app.L.Inject(server)
	go drive.ReadAll(client)
	ok := client.WaitPeerClosed(20 * time.Second)
	_ = client.Close()
	o := &routeOutcome{}
	cons := rec.Consumers()
	sort.Strings(cons)
	o.consumer = strings.Join(cons, "+")
	if len(cons) == 1 {
		o.stream = rec.Stream(cons[0])
	}
	return o, ok
}

func runRoutes(c *fw.Ctx) {
	hmods.Quiet(c.OutDir + "/caddyhome")
	seedsOf := map[string][][]byte{}
	var pp [][]byte
	for _, t := range gen.Targets() {
		if t.Config != "{}" && t.Config != "[]" {
			continue
		}
		if t.Matcher == "proxy_protocol" {
			pp = t.Seeds
		}
		for _, p := range routeProtos {
			if t.Matcher == p {
				seedsOf[p] = append(seedsOf[p], t.Seeds...)
			}
		}
	}
	nOrders := c.Pick(6, 24)
	perOrder := c.Pick(1500, 6000)
	idx := 0
	for oi := 0; oi < nOrders; oi++ {
		r := fw.Rand(c.Seed, "c06routes", oi)
		order := append([]string(nil), routeProtos...)
		r.Shuffle(len(order), func(i, j int) { order[i], order[j] = order[j], order[i] })
		order = order[:3+r.Intn(len(order)-2)]
		app, err := drive.StartApp(routesConfig(order), "20s")
		if err != nil {
			c.Violation("C06 routes config rejected", err.Error(), order)
			continue
		}
		for i := 0; i < perOrder; i++ {
			idx++
			proto := routeProtos[r.Intn(len(routeProtos))]
			seeds := seedsOf[proto]
			msg := seeds[r.Intn(len(seeds))]
			var stream []byte
			ppLen := 0
			if r.Intn(3) != 0 && len(pp) > 0 {
				h := pp[r.Intn(len(pp))]
				stream = append(stream, h...)
				ppLen = len(h)
			}
			stream = append(stream, msg...)
			if r.Intn(2) == 0 {
				stream = append(stream, oracle.Stream(0xC06, uint64(idx), 1+r.Intn(40))...)
			}
			if len(stream) > 1900 {
				stream = stream[:1900] // one prefetch chunk when delivered whole
			}
			// two to four fragments; cut points are drawn near the start, around the end of the PROXY header and anywhere
			nc := 1 + r.Intn(3)
			cutSet := map[int]bool{}
			for len(cutSet) < nc && len(cutSet) < len(stream)-1 {
				var k int
				switch r.Intn(4) {
				case 0:
					k = 1 + r.Intn(min(15, len(stream)-1))
				case 1:
					if ppLen > 0 {
						k = ppLen - 2 + r.Intn(5)
					} else {
						k = 1 + r.Intn(len(stream)-1)
					}
				default:
					k = 1 + r.Intn(len(stream)-1)
				}
				if k >= 1 && k < len(stream) {
					cutSet[k] = true
				}
			}
			var cuts []int
			for k := range cutSet {
				cuts = append(cuts, k)
			}
			sort.Ints(cuts)
			if i%12 == 7 && strings.Contains(strings.Join(order, " "), "http") {
				// a first message that needs most of the matching buffer (8 KiB): an HTTP request with a long header, delivered
				// whole and then in equal segments of a usual size (several prefetch rounds of less than a full chunk each)
				L := 6200 + r.Intn(1900)
				head := "GET /big HTTP/1.1\r\nHost: example.com\r\nCookie: k="
				stream = append([]byte(head), bytes.Repeat([]byte{'a' + byte(r.Intn(26))}, L-len(head)-4)...)
				stream = append(stream, "\r\n\r\n"...)
				seg := []int{1448, 1460, 1000, 536, 1200, 2000, 4000}[r.Intn(7)]
				cuts = nil
				for k := seg; k < len(stream); k += seg {
					cuts = append(cuts, k)
				}
				proto, ppLen = "http", 0
			}
			if !c.Mine(idx) {
				continue
			}
			checkRouteCase(c, app, order, stream, cuts, fmt.Sprintf("c06r-%d-%d", c.Shard, idx), proto, ppLen > 0)
		}
		app.Stop()
	}
}

func checkRouteCase(c *fw.Ctx, app *drive.AppRun, order []string, stream []byte, cuts []int, id, proto string, withPP bool) {
	whole, ok1 := deliver(app, id+"w", stream, nil)
	frag, ok2 := deliver(app, id+"f", stream, cuts)
	wit := func(detail string) any {
		return RouteWitness{Order: order, StreamHex: hex.EncodeToString(stream), Cuts: cuts, Detail: detail}
	}
	if !ok1 || !ok2 {
		c.Violation("C06 routes stall", "a connection through the matcher route list was not finished within 20 s", wit("stall"))
		return
	}
	nontrivial := whole.consumer != ""
	if !nontrivial {
		// Rejected when delivered whole: nothing is promised about its fragments (a matcher may accept a shorter
		// prefix - the rdp matcher wants the request to be all there is - and 'no' need only persist towards longer prefixes).
		c.Obs("route_level_cases_rejected_whole", 1)
		c.Case(fw.Hash("routes", order, proto, withPP, len(cuts), ""), false, nil)
		return
	}
	if whole.consumer != frag.consumer {
		d := fmt.Sprintf("delivered whole the stream is handled by route %q, cut at %v it is handled by %q", whole.consumer, cuts, frag.consumer)
		pp := "plain"
		if withPP {
			pp = "behind a PROXY header"
		}
		c.Violation(fmt.Sprintf("C06 routes fragmentation-changes-route [%s %s: whole=%q fragmented=%q]", proto, pp, whole.consumer, frag.consumer), d, wit(d))
	} else if string(whole.stream) != string(frag.stream) {
		d := "the same route handles the stream, but its handler reads different bytes when the stream arrives in fragments: " + oracle.Diff(frag.stream, whole.stream)
		c.Violation(fmt.Sprintf("C06 routes fragmentation-changes-stream [%s]", proto), d, wit(d))
	}
	c.Obs("route_level_cases", 1)
	c.Case(fw.Hash("routes", order, proto, withPP, len(cuts), whole.consumer), nontrivial, func() any { return wit("") })
}

func replayRoutes(c *fw.Ctx, raw json.RawMessage) bool {
	var w struct {
		Case RouteWitness `json:"case"`
	}
	var direct RouteWitness
	if json.Unmarshal(raw, &direct) == nil && len(direct.Order) > 0 {
		w.Case = direct
	} else if json.Unmarshal(raw, &w) != nil || len(w.Case.Order) == 0 {
		return false
	}
	hmods.Quiet(c.OutDir + "/caddyhome")
	stream, _ := hex.DecodeString(w.Case.StreamHex)
	app, err := drive.StartApp(routesConfig(w.Case.Order), "20s")
	if err != nil {
		fmt.Println("replay:", err)
		return true
	}
	defer app.Stop()
	checkRouteCase(c, app, w.Case.Order, stream, w.Case.Cuts, "c06r-replay", "?", false)
	return true
}
