// Package c11 monitors upstream health accounting over timed histories:
// passive failure windows, retry cadence and duration, active health checks,
// and connection limits, with interval logic whose assertions are one-sided
// or guarded by a scheduler canary.
package c11

import (
	"encoding/json"
	"fmt"
	"net"
	"strings"
	"sync"
	"syscall"
	"time"

	"github.com/mholt/caddy-l4/modules/l4proxy"

	"verifharness/drive"
	"verifharness/fw"
	"verifharness/hmods"
	"verifharness/oracle"
	"verifharness/vnet"
)

func init() {
	fw.Register(&fw.Prop{
		ID: "C11",
		Rule: "case = one timed history against real loopback upstreams that the script opens and closes: (passive) sequential connection attempts against a refusing upstream A and a healthy B with " +
			"fail_duration 300-900 ms and max_fails 1-3; (retry) both upstreams refusing, try_duration 0.5-1.2 s, try_interval 50-250 ms, optionally B coming back mid-window; (active) interval 100 ms " +
			"checks while A goes down and comes back; (limit) max_connections / unhealthy_connection_count 1-3 with connections opened sequentially and held. oracle: interval logic - an attempt made while " +
			">= max_fails failures are certainly remembered must avoid A, one made while fewer than max_fails can possibly be remembered must use A; counters never negative and 0 at quiescence; " +
			"consecutive selections of one connection >= try_interval apart, failure not before try_duration, last dial error reported, success when an upstream returns; refusing peer unselected within a " +
			"bounded number of intervals and reselected after it returns (canary-guarded); the (max+1)-th held connection never reaches the full upstream and the next one does after a release. " +
			"non-trivial = the history contains both outcomes; distinct = hash(history parameters, outcome signature). history reload-shared: upstreams {A, limit 1} and {A, M}; one connection held through the first; the configuration is reloaded 2-4 times; in every generation a probe must go to the second upstream (reaches M) and A's pool entry must count the held connection; after it ends the first upstream takes a connection again. history active-passive: both checkers configured; a dial fails right after the upstream stopped accepting (remembered for fail_duration 3 s), the active checker marks it down and, after it accepts again, up: until fail_duration has passed probes avoid the upstream, its failure count stays within 0..1, afterwards it is selected again. after every retry history no upstream counts an open connection. history active-reload: the active checker has marked a refusing upstream down, the configuration is reloaded and the old instance cleaned up while it still refuses: probes keep going to the other upstream; after it accepts again it returns.",
		Assumptions: []string{
			"boundary instants are never asserted: margins >= D/3 separate 'certainly remembered' from 'certainly forgotten'",
			"simultaneous opens racing between selection and counting are not asserted (connections are opened sequentially and confirmed established)",
		},
		MinEvals: 16,
		Plan: func(tier string) []fw.ChildSpec {
			if tier == "thorough" {
				return []fw.ChildSpec{
					{Name: "hist", Mode: "hist", Shards: 8, Timeout: 40 * time.Minute},
					{Name: "hist-race", Mode: "hist", Race: true, Shards: 2, Timeout: 40 * time.Minute},
				}
			}
			return []fw.ChildSpec{{Name: "hist", Mode: "hist", Shards: 4, Timeout: 10 * time.Minute}}
		},
		Run:    run,
		Replay: replay,
	})
}

// switchable upstream: a TCP listener on a fixed port that can be closed and reopened
type upstream struct {
	addr string
	mu   sync.Mutex
	up   *drive.Upstream
	ln   net.Listener
	got  []string // payload tags received (one per connection), in order
	open map[string]net.Conn
	// reserveFD holds the port (bound, not listening) while the upstream is down
	reserveFD int
}

func newUpstream() (*upstream, error) {
	l, err := net.Listen("tcp", "127.0.0.1:0")
	if err != nil {
		return nil, err
	}
	u := &upstream{addr: l.Addr().String(), open: map[string]net.Conn{}}
	u.serve(l)
	return u, nil
}

func (u *upstream) serve(l net.Listener) {
	u.mu.Lock()
	u.ln = l
	u.mu.Unlock()
	go func() {
		for {
			c, err := l.Accept()
			if err != nil {
				return
			}
			go func() {
				buf := make([]byte, 64)
				n, _ := c.Read(buf) // first bytes carry the connection's tag (may be empty for health probes)
				tag := string(buf[:n])
				if tag != "" {
					u.mu.Lock()
					u.got = append(u.got, tag)
					u.open[tag] = c
					u.mu.Unlock()
				}
				for {
					if _, err := c.Read(buf); err != nil {
						break
					}
				}
				u.mu.Lock()
				delete(u.open, tag)
				u.mu.Unlock()
				c.Close()
			}()
		}
	}()
}

// down makes the upstream refuse connections. The port stays reserved by a socket that is bound but not listening
// (connects are refused), so that the kernel cannot hand the port to another listener or connection of this process
// while the upstream is "down" - a proxied connection would otherwise end up at somebody else's server.
func (u *upstream) down() {
	u.mu.Lock()
	defer u.mu.Unlock()
	if u.ln != nil {
		u.ln.Close()
		u.ln = nil
	}
	if u.reserveFD == 0 {
		if ta, err := net.ResolveTCPAddr("tcp", u.addr); err == nil {
			for i := 0; i < 50; i++ {
				fd, err := syscall.Socket(syscall.AF_INET, syscall.SOCK_STREAM, 0)
				if err != nil {
					break
				}
				_ = syscall.SetsockoptInt(fd, syscall.SOL_SOCKET, syscall.SO_REUSEADDR, 1)
				sa := &syscall.SockaddrInet4{Port: ta.Port}
				copy(sa.Addr[:], ta.IP.To4())
				if err := syscall.Bind(fd, sa); err == nil {
					u.reserveFD = fd
					break
				}
				syscall.Close(fd)
				time.Sleep(5 * time.Millisecond)
			}
		}
	}
}

// release gives the reserved port back (end of the history).
func (u *upstream) release() {
	u.down()
	u.mu.Lock()
	if u.reserveFD != 0 {
		syscall.Close(u.reserveFD)
		u.reserveFD = 0
	}
	u.mu.Unlock()
}

func (u *upstream) upAgain() error {
	u.mu.Lock()
	if u.reserveFD != 0 {
		syscall.Close(u.reserveFD)
		u.reserveFD = 0
	}
	u.mu.Unlock()
	var l net.Listener
	var err error
	for i := 0; i < 50; i++ {
		l, err = net.Listen("tcp", u.addr)
		if err == nil {
			u.serve(l)
			return nil
		}
		time.Sleep(10 * time.Millisecond)
	}
	return err
}

func (u *upstream) has(tag string) bool {
	u.mu.Lock()
	defer u.mu.Unlock()
	for _, g := range u.got {
		if g == tag {
			return true
		}
	}
	return false
}

func (u *upstream) waitHas(tag string, d time.Duration) bool {
	deadline := time.Now().Add(d)
	for !u.has(tag) {
		if time.Now().After(deadline) {
			return false
		}
		time.Sleep(time.Millisecond)
	}
	return true
}

// History describes one generated history.
type History struct {
	Index int    `json:"index"`
	Kind  string `json:"kind"` // passive, retry, retry-recover, active, limit
	D     int    `json:"fail_duration_ms,omitempty"`
	M     int    `json:"max_fails,omitempty"`
	T     int    `json:"try_duration_ms,omitempty"`
	I     int    `json:"try_interval_ms,omitempty"`
	Max   int    `json:"max_connections,omitempty"`
	Via   string `json:"via,omitempty"` // max_connections or unhealthy_connection_count
	Steps int    `json:"steps,omitempty"`
	GapMs int    `json:"gap_ms,omitempty"`
	// OmitMaxFails leaves max_fails out of the passive policy: the documented default (1) applies.
	OmitMaxFails bool `json:"omit_max_fails,omitempty"`
	// OmitTryInterval leaves try_interval out of the load-balancing options: the documented default (250 ms) applies.
	OmitTryInterval bool `json:"omit_try_interval,omitempty"`
	// HeldConn keeps one proxied connection to A open across A's outage and recovery (active checks).
	HeldConn bool `json:"held_conn,omitempty"`
}

func genHistory(seed int64, i int) *History {
	r := fw.Rand(seed, "c11", i)
	h := &History{Index: i}
	h.Kind = []string{"passive", "passive", "retry", "retry-recover", "active", "limit", "limit", "passive-reload", "limit-multipeer"}[i%9]
	if i%18 == 13 {
		h.Kind = "overlap"
	}
	if i%18 == 16 {
		h.Kind = "reload-shared"
	}
	if i%36 == 22 {
		h.Kind = "active-passive"
	}
	if i%36 == 25 {
		h.Kind = "active-reload" // (one of the passive-reload slots)
	}
	h.D = 300 + r.Intn(7)*100
	h.M = 1 + r.Intn(3)
	h.T = 500 + r.Intn(8)*100
	h.I = []int{50, 100, 150, 250}[r.Intn(4)]
	h.Max = 1 + r.Intn(3)
	h.Via = []string{"max_connections", "unhealthy_connection_count"}[r.Intn(2)]
	h.Steps = 10 + r.Intn(10)
	h.GapMs = []int{20, 60, 120}[r.Intn(3)]
	if r.Intn(3) == 0 {
		h.OmitMaxFails, h.M = true, 1
	}
	h.HeldConn = r.Intn(2) == 0
	if r.Intn(4) == 0 {
		h.OmitTryInterval, h.I = true, 250 // the documented default
	}
	return h
}

func run(c *fw.Ctx) {
	hmods.Quiet(c.OutDir + "/caddyhome")
	canary := oracle.StartCanary()
	defer canary.Stop()
	n := c.Pick(54, 540)
	var mine []*History
	for i := 0; i < n; i++ {
		if c.Mine(i) {
			mine = append(mine, genHistory(c.Seed, i))
		}
	}
	for i := 0; i < len(mine); i += 6 {
		j := i + 6
		if j > len(mine) {
			j = len(mine)
		}
		canary.Reset()
		var wg sync.WaitGroup
		for _, h := range mine[i:j] {
			wg.Add(1)
			go func(h *History) {
				defer wg.Done()
				switch h.Kind {
				case "passive":
					passive(c, canary, h)
				case "retry", "retry-recover":
					retry(c, canary, h)
				case "active":
					active(c, canary, h)
				case "limit":
					limit(c, canary, h)
				case "passive-reload":
					passiveReload(c, canary, h)
				case "limit-multipeer":
					limitMultiPeer(c, canary, h)
				case "overlap":
					overlap(c, canary, h)
				case "reload-shared":
					reloadShared(c, canary, h)
				case "active-passive":
					activePassive(c, canary, h)
				case "active-reload":
					activeReload(c, canary, h)
				}
			}(h)
		}
		wg.Wait()
	}
}

type attempt struct {
	tag     string
	a, b    time.Duration // before the connection was offered / after it was finished or confirmed
	outcome string        // "A", "B", "fail"
	spanErr string
}

var idSeq struct {
	sync.Mutex
	n int
}

func nextTag(prefix string) string {
	idSeq.Lock()
	defer idSeq.Unlock()
	idSeq.n++
	return fmt.Sprintf("%s%d.", prefix, idSeq.n)
}

// connect offers one connection carrying tag and waits until it was relayed to an upstream or closed by the server.
// hold=true keeps a relayed connection open and returns the client end.
func connect(app *drive.AppRun, A, B *upstream, tag string, hold bool, wait time.Duration) (*attempt, *vnet.End, *hmods.ConnRec) {
	at := &attempt{tag: tag}
	rec := hmods.Track(tag)
	at.a = vnet.Now()
	client, _ := app.Dial(tag)
	_, _ = client.Write([]byte(tag))
	deadline := time.Now().Add(wait)
	for {
		switch {
		case A.has(tag):
			at.outcome = "A"
		case B != nil && B.has(tag):
			at.outcome = "B"
		case client.PeerClosed():
			at.outcome = "fail"
		}
		if at.outcome != "" || time.Now().After(deadline) {
			break
		}
		time.Sleep(500 * time.Microsecond)
	}
	at.b = vnet.Now()
	if at.outcome == "" {
		at.outcome = "timeout"
	}
	if !hold || at.outcome == "fail" || at.outcome == "timeout" {
		_ = client.CloseWrite()
		rec.WaitDone("span", 5*time.Second)
		for _, e := range rec.Events() {
			if e.Kind == "exit" && e.Who == "span" {
				at.spanErr = e.S
			}
		}
		_ = client.Close()
		hmods.Untrack(tag)
		return at, nil, rec
	}
	return at, client, rec
}

func proxyRoutes(ups []map[string]any, extra map[string]any, selName string) string {
	p := map[string]any{"handler": "proxy", "upstreams": ups}
	for k, v := range extra {
		p[k] = v
	}
	lb, _ := p["load_balancing"].(map[string]any)
	if lb == nil {
		lb = map[string]any{}
	}
	lb["selection"] = map[string]any{"policy": "verif_select", "name": selName}
	p["load_balancing"] = lb
	return drive.J([]any{map[string]any{"handle": []any{map[string]any{"handler": "verif_span", "name": "span"}, p}}})
}

func counters(u *upstream) (l4proxy.VerifPeerState, bool) {
	return l4proxy.VerifPoolPeer("tcp/" + u.addr)
}

func dial(u *upstream) map[string]any { return map[string]any{"dial": []string{"tcp/" + u.addr}} }

func report(c *fw.Ctx, h *History, kind, what string, extra any) {
	c.Violation(fmt.Sprintf("C11 %s [%s]", kind, h.Kind), what, map[string]any{"history": h, "detail": extra})
}

// ---------------------------------------------------------------------------

func passive(c *fw.Ctx, canary *oracle.Canary, h *History) {
	A, err := newUpstream()
	if err != nil {
		c.Inconclusive("listen: " + err.Error())
		return
	}
	B, _ := newUpstream()
	defer A.release()
	defer B.release()
	A.down() // A refuses connections
	D := time.Duration(h.D) * time.Millisecond
	slack := D / 3
	if slack < 150*time.Millisecond {
		slack = 150 * time.Millisecond
	}
	sel := nextTag("sel")
	policy := map[string]any{"fail_duration": fmt.Sprintf("%dms", h.D), "max_fails": h.M}
	if h.OmitMaxFails {
		delete(policy, "max_fails")
	}
	routes := proxyRoutes([]map[string]any{dial(A), dial(B)}, map[string]any{"health_checks": map[string]any{"passive": policy}}, sel)
	app, err := drive.StartApp(routes, "5s")
	if err != nil {
		report(c, h, "config-rejected", err.Error(), routes)
		return
	}
	defer app.Stop()
	r := fw.Rand(c.Seed, "c11p", h.Index)
	var hist []*attempt
	outcomes := ""
	for s := 0; s < h.Steps; s++ {
		at, _, _ := connect(app, A, B, nextTag("p"), false, 5*time.Second)
		hist = append(hist, at)
		outcomes += at.outcome[:1]
		// interval logic over earlier failures
		certain, possible := 0, 0
		for _, f := range hist[:len(hist)-1] {
			if f.outcome != "fail" {
				continue
			}
			if f.b <= at.a && at.b <= f.a+D-slack {
				certain++ // recorded before this attempt started and not yet forgettable when it ended
			}
			if at.a < f.b+D+slack {
				possible++ // could still be remembered when this attempt started
			}
		}
		switch {
		case at.outcome == "timeout":
			report(c, h, "attempt-stalled", "a connection attempt was neither relayed nor closed within 5 s", at)
		case certain >= h.M && at.outcome == "fail":
			report(c, h, "failed-upstream-still-in-rotation", fmt.Sprintf("attempt %d was sent to the refusing upstream although %d failures (max_fails %d) from the last fail_duration are certainly remembered", s, certain, h.M), map[string]any{"attempts": hist})
		case possible < h.M && at.outcome == "B":
			if canary.MaxOversleep() > slack/2 {
				c.Inconclusive("noisy scheduler")
			} else {
				report(c, h, "upstream-not-back-in-rotation", fmt.Sprintf("attempt %d avoided the first upstream although at most %d failures (max_fails %d) can still be remembered", s, possible, h.M), map[string]any{"attempts": hist})
			}
		}
		if st, ok := counters(A); ok && (st.Fails < 0 || st.NumConns < 0) {
			report(c, h, "negative-counter", fmt.Sprintf("peer counters went negative: %+v", st), nil)
		}
		gap := time.Duration(h.GapMs) * time.Millisecond
		if r.Intn(4) == 0 {
			gap = D + slack + 50*time.Millisecond // let everything be forgotten
		}
		time.Sleep(gap)
	}
	// quiescence: all failures forgotten, no connections
	time.Sleep(D + slack + 100*time.Millisecond)
	for _, u := range []*upstream{A, B} {
		if st, ok := counters(u); ok && (st.Fails != 0 || st.NumConns != 0) {
			if canary.MaxOversleep() > slack/2 {
				c.Inconclusive("noisy scheduler")
			} else {
				report(c, h, "counters-not-zero-at-quiescence", fmt.Sprintf("after fail_duration + slack with no traffic the peer counters are %+v", st), nil)
			}
		}
	}
	hmods.SelectLog(sel)
	c.Obs("attempts_passive", int64(len(hist)))
	c.Case(fw.Hash("passive", h.D, h.M, h.GapMs, outcomes), strings.Contains(outcomes, "f") && strings.Contains(outcomes, "B"), func() any {
		return map[string]any{"history": h, "outcomes": outcomes}
	})
}

func retry(c *fw.Ctx, canary *oracle.Canary, h *History) {
	A, err := newUpstream()
	if err != nil {
		c.Inconclusive("listen: " + err.Error())
		return
	}
	B, _ := newUpstream()
	defer A.release()
	defer B.release()
	A.down()
	B.down()
	T := time.Duration(h.T) * time.Millisecond
	I := time.Duration(h.I) * time.Millisecond
	sel := nextTag("sel")
	lb := map[string]any{"try_duration": fmt.Sprintf("%dms", h.T), "try_interval": fmt.Sprintf("%dms", h.I)}
	if h.OmitTryInterval {
		delete(lb, "try_interval")
	}
	routes := proxyRoutes([]map[string]any{dial(A), dial(B)}, map[string]any{"load_balancing": lb}, sel)
	app, err := drive.StartApp(routes, "5s")
	if err != nil {
		report(c, h, "config-rejected", err.Error(), routes)
		return
	}
	defer app.Stop()
	recover := h.Kind == "retry-recover"
	if recover {
		go func() {
			time.Sleep(T / 2)
			_ = A.upAgain()
		}()
	}
	tag := nextTag("r")
	at, _, _ := connect(app, A, B, tag, false, T+10*time.Second)
	dur := at.b - at.a
	sels := hmods.SelectLog(sel)
	var mine []hmods.SelectEvent
	for _, e := range sels {
		if e.Conn == tag {
			mine = append(mine, e)
		}
	}
	for k := 1; k < len(mine); k++ {
		if gap := mine[k].T - mine[k-1].T; gap < I {
			report(c, h, "retry-too-soon", fmt.Sprintf("selection %d happened %v after the previous one, try_interval is %v", k, gap, I), mine)
			break
		}
	}
	if recover {
		if at.outcome != "A" {
			if canary.MaxOversleep() > T/4 {
				c.Inconclusive("noisy scheduler")
			} else {
				report(c, h, "no-success-after-recovery", fmt.Sprintf("the upstream came back after try_duration/2 but the connection ended as %q", at.outcome), mine)
			}
		}
	} else {
		switch {
		case at.outcome != "fail":
			report(c, h, "unexpected-outcome", fmt.Sprintf("both upstreams refuse connections but the attempt ended as %q", at.outcome), nil)
		case dur < T:
			report(c, h, "gave-up-before-try-duration", fmt.Sprintf("the handler gave up %v after the connection was offered, try_duration is %v", dur, T), mine)
		case dur > T+I+2*time.Second && canary.MaxOversleep() < 500*time.Millisecond:
			report(c, h, "retrying-beyond-try-duration", fmt.Sprintf("the handler only gave up after %v, try_duration is %v and try_interval %v", dur, T, I), mine)
		}
		if at.outcome == "fail" && !strings.Contains(at.spanErr, "refused") {
			report(c, h, "last-error-not-reported", fmt.Sprintf("after the retries the handler returned %q instead of the last dial error (connection refused)", at.spanErr), nil)
		}
		if len(mine) < 2 {
			report(c, h, "no-retry", fmt.Sprintf("only %d selection(s) were made within try_duration %v", len(mine), T), nil)
		}
	}
	// the attempt is over and its connection closed: nothing is open, whatever was dialled and given up on the way
	for _, u := range []*upstream{A, B} {
		if st, ok := counters(u); ok && st.NumConns != 0 {
			time.Sleep(50 * time.Millisecond)
			if st2, _ := counters(u); st2.NumConns != 0 {
				report(c, h, "connection-count-wrong", fmt.Sprintf("after an attempt with %d selections (retries within try_duration) no proxied connection is open, yet upstream %s counts %d", len(mine), u.addr, st2.NumConns), nil)
			}
		}
	}
	c.Obs("selections_logged", int64(len(mine)))
	c.Case(fw.Hash(h.Kind, h.T, h.I, len(mine)), len(mine) >= 2, func() any {
		return map[string]any{"history": h, "selections": len(mine), "outcome": at.outcome, "duration": dur.String()}
	})
}

func active(c *fw.Ctx, canary *oracle.Canary, h *History) {
	A, err := newUpstream()
	if err != nil {
		c.Inconclusive("listen: " + err.Error())
		return
	}
	B, _ := newUpstream()
	defer A.release()
	defer B.release()
	sel := nextTag("sel")
	routes := proxyRoutes([]map[string]any{dial(A), dial(B)}, map[string]any{
		"health_checks": map[string]any{"active": map[string]any{"interval": "100ms", "timeout": "200ms"}}}, sel)
	app, err := drive.StartApp(routes, "5s")
	if err != nil {
		report(c, h, "config-rejected", err.Error(), routes)
		return
	}
	defer app.Stop()
	outcomes := ""
	step := func(want string, phase string) {
		at, _, _ := connect(app, A, B, nextTag("a"), false, 5*time.Second)
		outcomes += at.outcome[:1]
		if at.outcome != want {
			if canary.MaxOversleep() > 300*time.Millisecond {
				c.Inconclusive("noisy scheduler")
				return
			}
			report(c, h, "active-"+phase, fmt.Sprintf("%s: expected the connection to go to %s, it ended as %q", phase, want, at.outcome), nil)
		}
	}
	time.Sleep(250 * time.Millisecond)
	step("A", "initially-up")
	if h.HeldConn {
		// an established connection to A stays open while A stops (and later resumes) accepting new ones:
		// the checker's verdict is about whether the peer accepts connections, not about old ones
		at, held, _ := connect(app, A, B, nextTag("a"), true, 5*time.Second)
		outcomes += "h"
		if held != nil {
			defer func() { _ = held.Close(); hmods.Untrack(at.tag) }()
		}
		if at.outcome != "A" {
			report(c, h, "active-initially-up", fmt.Sprintf("initially-up: expected the held connection to go to A, it ended as %q", at.outcome), nil)
		}
	}
	A.down()
	time.Sleep(2*100*time.Millisecond + 200*time.Millisecond + 600*time.Millisecond) // 2 intervals + timeout + margin
	step("B", "down-not-selected")
	step("B", "down-not-selected")
	if err := A.upAgain(); err != nil {
		c.Inconclusive("cannot reopen the upstream port")
		return
	}
	time.Sleep(2*100*time.Millisecond + 800*time.Millisecond)
	step("A", "up-again-selected")
	hmods.SelectLog(sel)
	c.Case(fw.Hash("active", outcomes, h.Index%4), true, func() any { return map[string]any{"history": h, "outcomes": outcomes} })
}

func limit(c *fw.Ctx, canary *oracle.Canary, h *History) {
	A, err := newUpstream()
	if err != nil {
		c.Inconclusive("listen: " + err.Error())
		return
	}
	B, _ := newUpstream()
	defer A.release()
	defer B.release()
	sel := nextTag("sel")
	ua := dial(A)
	extra := map[string]any{}
	if h.Via == "max_connections" {
		ua["max_connections"] = h.Max
	} else {
		extra["health_checks"] = map[string]any{"passive": map[string]any{"unhealthy_connection_count": h.Max}}
	}
	routes := proxyRoutes([]map[string]any{ua, dial(B)}, extra, sel)
	app, err := drive.StartApp(routes, "5s")
	if err != nil {
		report(c, h, "config-rejected", err.Error(), routes)
		return
	}
	defer app.Stop()
	type held struct {
		cl  *vnet.End
		rec *hmods.ConnRec
		tag string
	}
	var heldA []held
	outcomes := ""
	// fill A up to its limit: each must reach A
	for k := 0; k < h.Max; k++ {
		at, cl, rec := connect(app, A, B, nextTag("l"), true, 5*time.Second)
		outcomes += at.outcome[:1]
		if at.outcome != "A" {
			report(c, h, "below-limit-not-admitted", fmt.Sprintf("connection %d of %d allowed did not reach the first upstream (%s)", k+1, h.Max, at.outcome), nil)
			return
		}
		heldA = append(heldA, held{cl, rec, at.tag})
	}
	// the next ones must not reach A
	for k := 0; k < 2; k++ {
		at, cl, rec := connect(app, A, B, nextTag("l"), true, 5*time.Second)
		outcomes += at.outcome[:1]
		if at.outcome == "A" {
			report(c, h, "limit-exceeded", fmt.Sprintf("the upstream already has %d open proxied connections (limit %d via %s) and was given another one", h.Max, h.Max, h.Via), nil)
		}
		if cl != nil {
			_ = cl.CloseWrite()
			rec.WaitDone("span", 5*time.Second)
			_ = cl.Close()
			hmods.Untrack(at.tag)
		}
	}
	if st, ok := counters(A); ok && int(st.NumConns) != h.Max {
		report(c, h, "connection-count-wrong", fmt.Sprintf("%d connections are held open on the upstream, its counter says %d", h.Max, st.NumConns), nil)
	}
	// release one, then the next must be admitted
	rel := heldA[0]
	_ = rel.cl.CloseWrite()
	if !rel.rec.WaitDone("span", 5*time.Second) {
		report(c, h, "handler-stalled", "the proxy handler did not return after the client finished", nil)
	}
	_ = rel.cl.Close()
	hmods.Untrack(rel.tag)
	at, cl, rec := connect(app, A, B, nextTag("l"), true, 5*time.Second)
	outcomes += at.outcome[:1]
	if at.outcome != "A" {
		report(c, h, "not-admitted-after-release", fmt.Sprintf("one held connection ended, yet the next connection did not reach the upstream (%s)", at.outcome), nil)
	}
	if cl != nil {
		heldA = append(heldA, held{cl, rec, at.tag})
	}
	for _, hd := range heldA[1:] {
		_ = hd.cl.CloseWrite()
		hd.rec.WaitDone("span", 5*time.Second)
		_ = hd.cl.Close()
		hmods.Untrack(hd.tag)
	}
	time.Sleep(50 * time.Millisecond)
	if st, ok := counters(A); ok && st.NumConns != 0 {
		report(c, h, "counters-not-zero-at-quiescence", fmt.Sprintf("every connection ended but the upstream's connection counter is %d", st.NumConns), nil)
	}
	hmods.SelectLog(sel)
	c.Obs("held_connections", int64(len(heldA)))
	c.Case(fw.Hash("limit", h.Max, h.Via, outcomes), true, func() any { return map[string]any{"history": h, "outcomes": outcomes} })
}

func replay(c *fw.Ctx, raw json.RawMessage) {
	var w struct {
		History *History `json:"history"`
	}
	if err := json.Unmarshal(raw, &w); err != nil || w.History == nil {
		fmt.Println("replay: cannot decode history:", err)
		return
	}
	hmods.Quiet(c.OutDir + "/caddyhome")
	canary := oracle.StartCanary()
	defer canary.Stop()
	switch h := w.History; h.Kind {
	case "passive":
		passive(c, canary, h)
	case "retry", "retry-recover":
		retry(c, canary, h)
	case "active":
		active(c, canary, h)
	case "limit":
		limit(c, canary, h)
	case "passive-reload":
		passiveReload(c, canary, h)
	case "limit-multipeer":
		limitMultiPeer(c, canary, h)
	case "overlap":
		overlap(c, canary, h)
	case "reload-shared":
		reloadShared(c, canary, h)
	case "active-passive":
		activePassive(c, canary, h)
	case "active-reload":
		activeReload(c, canary, h)
	}
}

// passiveReload: a failure is recorded, then the configuration is reloaded (a second handler for the same dial
// addresses is provisioned, the first one is stopped) within fail_duration. Peer state is kept across reloads, so the
// failure must still be forgotten after fail_duration and the upstream must return to rotation.
func passiveReload(c *fw.Ctx, canary *oracle.Canary, h *History) {
	A, err := newUpstream()
	if err != nil {
		c.Inconclusive("listen: " + err.Error())
		return
	}
	B, _ := newUpstream()
	defer A.release()
	defer B.release()
	A.down()
	D := time.Duration(h.D) * time.Millisecond
	slack := D/3 + 150*time.Millisecond
	sel := nextTag("sel")
	routes := proxyRoutes([]map[string]any{dial(A), dial(B)}, map[string]any{
		"health_checks": map[string]any{"passive": map[string]any{"fail_duration": fmt.Sprintf("%dms", h.D), "max_fails": 1}}}, sel)
	app1, err := drive.StartApp(routes, "5s")
	if err != nil {
		report(c, h, "config-rejected", err.Error(), routes)
		return
	}
	at1, _, _ := connect(app1, A, B, nextTag("pr"), false, 5*time.Second)
	if at1.outcome != "fail" {
		app1.Stop()
		report(c, h, "unexpected-outcome", "first attempt against the refusing upstream ended as "+at1.outcome, nil)
		return
	}
	app2, err := drive.StartApp(routes, "5s")
	if err != nil {
		app1.Stop()
		report(c, h, "config-rejected", err.Error(), routes)
		return
	}
	defer app2.Stop()
	app1.Stop() // the old configuration is unloaded while the failure is still remembered
	at2, _, _ := connect(app2, A, B, nextTag("pr"), false, 5*time.Second)
	if at2.outcome == "fail" && at2.b <= at1.a+D-slack {
		report(c, h, "failure-lost-on-reload", "right after the reload the failing upstream was used again although its failure is still within fail_duration", nil)
	}
	time.Sleep(D + slack)
	if st, ok := counters(A); ok && st.Fails != 0 {
		if canary.MaxOversleep() > slack/2 {
			c.Inconclusive("noisy scheduler")
		} else {
			report(c, h, "failure-never-forgotten-after-reload", fmt.Sprintf("a failure recorded before a configuration reload is still counted (fails=%d) after fail_duration + slack", st.Fails), nil)
		}
	}
	at3, _, _ := connect(app2, A, B, nextTag("pr"), false, 5*time.Second)
	if at3.outcome == "B" && canary.MaxOversleep() <= slack/2 {
		report(c, h, "upstream-not-back-in-rotation", "after fail_duration + slack the upstream whose failure was recorded before the reload is still out of rotation", nil)
	}
	hmods.SelectLog(sel)
	c.Case(fw.Hash("passive-reload", h.D, at2.outcome, at3.outcome), true, func() any {
		return map[string]any{"history": h, "outcomes": at1.outcome[:1] + at2.outcome[:1] + at3.outcome[:1]}
	})
}

// limitMultiPeer: an upstream with two dial addresses of which the second refuses. Every attempt dials the first
// peer successfully and then fails; no connection stays open, so the peers' counters must stay at 0 and the upstream
// must not be reported full; once the second peer accepts, a connection must be admitted and reach both peers.
func limitMultiPeer(c *fw.Ctx, canary *oracle.Canary, h *History) {
	A1, err := newUpstream()
	if err != nil {
		c.Inconclusive("listen: " + err.Error())
		return
	}
	A2, _ := newUpstream()
	B, _ := newUpstream()
	defer A1.release()
	defer A2.release()
	defer B.release()
	A2.down()
	sel := nextTag("sel")
	ua := map[string]any{"dial": []string{"tcp/" + A1.addr, "tcp/" + A2.addr}, "max_connections": h.Max}
	routes := proxyRoutes([]map[string]any{ua, dial(B)}, nil, sel)
	app, err := drive.StartApp(routes, "5s")
	if err != nil {
		report(c, h, "config-rejected", err.Error(), routes)
		return
	}
	defer app.Stop()
	outcomes := ""
	for k := 0; k < h.Max+2; k++ {
		at, _, _ := connect(app, A2, B, nextTag("mp"), false, 5*time.Second)
		outcomes += at.outcome[:1]
		if at.outcome == "B" {
			report(c, h, "multi-peer-upstream-reported-full", fmt.Sprintf("after %d failed attempts (second peer refuses) with no connection open, the upstream (max_connections %d) was skipped as if it were full", k, h.Max), nil)
			break
		}
		for _, u := range []*upstream{A1, A2} {
			if st, ok := counters(u); ok && st.NumConns != 0 {
				time.Sleep(30 * time.Millisecond)
				if st2, _ := counters(u); st2.NumConns != 0 {
					report(c, h, "connection-count-wrong", fmt.Sprintf("no proxied connection is open, yet peer %s counts %d connections after a partially failed dial", u.addr, st2.NumConns), nil)
				}
			}
		}
	}
	if err := A2.upAgain(); err == nil {
		tag := nextTag("mp")
		at, cl, rec := connect(app, A2, B, tag, true, 5*time.Second)
		outcomes += at.outcome[:1]
		if at.outcome != "A" || !A1.waitHas(tag, 2*time.Second) {
			report(c, h, "not-admitted-after-peer-recovered", fmt.Sprintf("both peers accept now and no connection is open, yet the connection ended as %q (first peer got it: %v)", at.outcome, A1.has(tag)), nil)
		}
		if cl != nil {
			_ = cl.CloseWrite()
			rec.WaitDone("span", 5*time.Second)
			_ = cl.Close()
			hmods.Untrack(tag)
		}
	}
	hmods.SelectLog(sel)
	c.Case(fw.Hash("limit-multipeer", h.Max, outcomes), true, func() any { return map[string]any{"history": h, "outcomes": outcomes} })
}

// reloadShared: a dial address that two upstreams of one handler list ({A} limited to one connection, and {A, M}), a
// connection held open through the first upstream, and the configuration reloaded several times meanwhile. In every
// generation the limited upstream has its one connection, so probes must be given to the second upstream (they reach
// M as well); once the held connection ends, the limited upstream takes a connection again (M sees nothing of it).
func reloadShared(c *fw.Ctx, canary *oracle.Canary, h *History) {
	A, err := newUpstream()
	if err != nil {
		c.Inconclusive("listen: " + err.Error())
		return
	}
	M, _ := newUpstream()
	defer A.release()
	defer M.release()
	sel := nextTag("sel")
	ups := []map[string]any{
		{"dial": []string{"tcp/" + A.addr}, h.Via: 1},
		{"dial": []string{"tcp/" + A.addr, "tcp/" + M.addr}},
	}
	var extra map[string]any
	if h.Via == "unhealthy_connection_count" {
		delete(ups[0], h.Via)
		extra = map[string]any{"health_checks": map[string]any{"passive": map[string]any{"unhealthy_connection_count": 1}}}
		// (the passive limit applies to every upstream of the handler: the second one is then judged by A's count as well,
		// so with this variant a probe finds no upstream at all while the connection is held)
	}
	routes := proxyRoutes(ups, extra, sel)
	app, err := drive.StartApp(routes, "5s")
	if err != nil {
		report(c, h, "config-rejected", err.Error(), routes)
		return
	}
	defer func() { app.Stop() }()
	heldTag := nextTag("rs")
	at, held, heldRec := connect(app, A, nil, heldTag, true, 5*time.Second)
	if at.outcome != "A" || held == nil {
		report(c, h, "unexpected-outcome", "the first connection ended as "+at.outcome, nil)
		return
	}
	if M.waitHas(heldTag, 100*time.Millisecond) {
		report(c, h, "unexpected-outcome", "the first connection was given to the second upstream although the first one was free", nil)
	}
	outcomes := ""
	probe := func(gen int) {
		tag := nextTag("rs")
		at, _, _ := connect(app, A, nil, tag, false, 5*time.Second)
		viaSecond := at.outcome == "A" && M.waitHas(tag, 2*time.Second)
		switch {
		case extra != nil:
			outcomes += at.outcome[:1]
			if at.outcome != "fail" {
				report(c, h, "limit-lost-on-reload", fmt.Sprintf("generation %d of the configuration: address A has one proxied connection open (unhealthy_connection_count 1), yet a new connection was relayed (%s)", gen, at.outcome), map[string]any{"outcomes": outcomes})
			}
		case viaSecond:
			outcomes += "2"
		default:
			outcomes += at.outcome[:1]
			report(c, h, "limit-lost-on-reload", fmt.Sprintf("generation %d of the configuration: the upstream limited to one connection has one open, yet a new connection ended as %q without reaching the second upstream's other address", gen, at.outcome), map[string]any{"outcomes": outcomes})
		}
		if st, ok := counters(A); !ok || st.NumConns < 1 {
			report(c, h, "connection-count-wrong", fmt.Sprintf("generation %d: a proxied connection to A is open, but the pool counts %d (known: %v)", gen, st.NumConns, ok), nil)
		}
	}
	probe(1)
	reloads := 2 + h.Steps%3
	for g := 2; g <= 1+reloads; g++ {
		next, err := drive.StartApp(routes, "5s")
		if err != nil {
			report(c, h, "config-rejected", err.Error(), routes)
			break
		}
		app.Stop()
		app = next
		probe(g)
	}
	_ = held.CloseWrite()
	heldRec.WaitDone("span", 5*time.Second)
	_ = held.Close()
	hmods.Untrack(heldTag)
	tag := nextTag("rs")
	at2, _, _ := connect(app, A, nil, tag, false, 5*time.Second)
	outcomes += "/" + at2.outcome[:1]
	if at2.outcome != "A" || M.waitHas(tag, 150*time.Millisecond) {
		report(c, h, "limit-not-released", fmt.Sprintf("after the held connection ended the limited upstream should take the next connection; it ended as %q (second upstream's other address saw it: %v)", at2.outcome, M.has(tag)), nil)
	}
	if st, ok := counters(A); ok && st.NumConns != 0 {
		time.Sleep(30 * time.Millisecond)
		if st2, _ := counters(A); st2.NumConns != 0 {
			report(c, h, "connection-count-wrong", fmt.Sprintf("no proxied connection is open, yet A counts %d", st2.NumConns), nil)
		}
	}
	hmods.SelectLog(sel)
	c.Case(fw.Hash("reload-shared", h.Via, reloads, outcomes), true, func() any { return map[string]any{"history": h, "outcomes": outcomes} })
}

// activePassive: active and passive health checks on the same handler. A client's dial fails right after the upstream
// stopped accepting (the failure is remembered for fail_duration = 3 s); the active checker marks the upstream down and,
// after it accepts again, up. The remembered failure is not the active checker's business: until fail_duration has
// passed the upstream stays out of rotation, the failure count never leaves 0..1, and afterwards the upstream returns.
func activePassive(c *fw.Ctx, canary *oracle.Canary, h *History) {
	A, err := newUpstream()
	if err != nil {
		c.Inconclusive("listen: " + err.Error())
		return
	}
	B, _ := newUpstream()
	defer A.release()
	defer B.release()
	D := 3 * time.Second
	slack := 500 * time.Millisecond
	sel := nextTag("sel")
	routes := proxyRoutes([]map[string]any{dial(A), dial(B)}, map[string]any{"health_checks": map[string]any{
		"active":  map[string]any{"interval": "100ms", "timeout": "200ms"},
		"passive": map[string]any{"fail_duration": "3s", "max_fails": 1}}}, sel)
	app, err := drive.StartApp(routes, "5s")
	if err != nil {
		report(c, h, "config-rejected", err.Error(), routes)
		return
	}
	defer app.Stop()
	time.Sleep(250 * time.Millisecond)
	at0, _, _ := connect(app, A, B, nextTag("ap"), false, 5*time.Second)
	outcomes := at0.outcome[:1]
	A.down()
	at1, _, _ := connect(app, A, B, nextTag("ap"), false, 5*time.Second)
	outcomes += at1.outcome[:1]
	negative := func(when string) {
		if st, ok := counters(A); ok && st.Fails < 0 {
			report(c, h, "failure-count-negative", fmt.Sprintf("%s: the upstream's remembered failures number %d", when, st.Fails), map[string]any{"outcomes": outcomes})
		}
	}
	if at0.outcome != "A" || at1.outcome != "fail" {
		// the active checker noticed the outage before the client's dial: no failure was remembered, nothing to judge
		c.Obs("active_passive_without_remembered_failure", 1)
		hmods.SelectLog(sel)
		c.Case(fw.Hash("active-passive", outcomes), false, nil)
		return
	}
	tf := at1.b // the failure was observed before this instant (and after at1.a)
	time.Sleep(500 * time.Millisecond)
	if err := A.upAgain(); err != nil {
		c.Inconclusive("cannot reopen the upstream port")
		return
	}
	time.Sleep(700 * time.Millisecond) // several intervals: the active checker has marked the peer up again
	negative("after the recovery")
	for k := 0; k < 3; k++ {
		p, _, _ := connect(app, A, B, nextTag("ap"), false, 5*time.Second)
		outcomes += p.outcome[:1]
		if p.outcome == "A" && p.b <= at1.a+D-slack {
			if canary.MaxOversleep() > slack/2 {
				c.Inconclusive("noisy scheduler")
			} else {
				report(c, h, "failed-upstream-still-in-rotation", fmt.Sprintf("a dial to the upstream failed at +%v (max_fails 1, fail_duration %v); a connection offered and served by +%v went to it again (the active checker had marked it up in between)", at1.a, D, p.b), map[string]any{"outcomes": outcomes})
			}
			break
		}
		time.Sleep(150 * time.Millisecond)
	}
	for vnet.Now() < tf+D+slack {
		time.Sleep(50 * time.Millisecond)
	}
	negative("after fail_duration")
	if st, ok := counters(A); ok && st.Fails != 0 && canary.MaxOversleep() <= slack/2 {
		report(c, h, "failure-never-forgotten", fmt.Sprintf("fail_duration + slack after the only dial failure the upstream still counts %d", st.Fails), nil)
	}
	p, _, _ := connect(app, A, B, nextTag("ap"), false, 5*time.Second)
	outcomes += "/" + p.outcome[:1]
	if p.outcome != "A" && canary.MaxOversleep() <= slack/2 {
		report(c, h, "upstream-not-back-in-rotation", fmt.Sprintf("fail_duration + slack after its only failure, with the active checker seeing it up, the upstream was not selected (%s)", p.outcome), nil)
	}
	// one more failure must take it out again (a count below zero would swallow it)
	hmods.SelectLog(sel)
	c.Case(fw.Hash("active-passive", outcomes), true, func() any { return map[string]any{"history": h, "outcomes": outcomes} })
}

// activeReload: the active checker has marked a refusing upstream down; the configuration is reloaded (second handler
// for the same addresses, then the first one is stopped and cleaned up) while the upstream still refuses. Whatever the
// old instance's clean-up does, the upstream stays out of rotation for the new instance (its own first check sees it
// down as well); when the upstream accepts again it returns.
func activeReload(c *fw.Ctx, canary *oracle.Canary, h *History) {
	A, err := newUpstream()
	if err != nil {
		c.Inconclusive("listen: " + err.Error())
		return
	}
	B, _ := newUpstream()
	defer A.release()
	defer B.release()
	sel := nextTag("sel")
	routes := proxyRoutes([]map[string]any{dial(A), dial(B)}, map[string]any{
		"health_checks": map[string]any{"active": map[string]any{"interval": "2s", "timeout": "200ms"}}}, sel)
	A.down()
	app1, err := drive.StartApp(routes, "5s")
	if err != nil {
		report(c, h, "config-rejected", err.Error(), routes)
		return
	}
	time.Sleep(500 * time.Millisecond) // the checker's first round (it runs at once) has seen A refuse
	outcomes := ""
	probe := func(app *drive.AppRun, phase string) {
		at, _, _ := connect(app, A, B, nextTag("ar"), false, 5*time.Second)
		outcomes += at.outcome[:1]
		if at.outcome != "B" {
			if canary.MaxOversleep() > 200*time.Millisecond {
				c.Inconclusive("noisy scheduler")
				return
			}
			report(c, h, "active-down-not-honoured", fmt.Sprintf("%s: the upstream refuses connections and the active checker has seen it, yet the connection ended as %q instead of going to the other upstream", phase, at.outcome), map[string]any{"outcomes": outcomes})
		}
	}
	probe(app1, "before the reload")
	app2, err := drive.StartApp(routes, "5s")
	if err != nil {
		app1.Stop()
		report(c, h, "config-rejected", err.Error(), routes)
		return
	}
	defer app2.Stop()
	time.Sleep(400 * time.Millisecond) // the new instance's first round
	app1.Stop()                        // the old instance is unloaded (its clean-up runs)
	probe(app2, "right after the old configuration was unloaded")
	time.Sleep(150 * time.Millisecond)
	probe(app2, "150 ms after the old configuration was unloaded")
	if err := A.upAgain(); err == nil {
		time.Sleep(2*time.Second + 700*time.Millisecond) // one interval + timeout + margin
		at, _, _ := connect(app2, A, B, nextTag("ar"), false, 5*time.Second)
		outcomes += "/" + at.outcome[:1]
		if at.outcome != "A" && canary.MaxOversleep() <= 300*time.Millisecond {
			report(c, h, "active-up-again-selected", fmt.Sprintf("the upstream accepts again for more than one check interval, the connection ended as %q", at.outcome), nil)
		}
	}
	hmods.SelectLog(sel)
	c.Case(fw.Hash("active-reload", outcomes), true, func() any { return map[string]any{"history": h, "outcomes": outcomes} })
}
