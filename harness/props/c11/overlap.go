package c11

import (
	"crypto/tls"
	"fmt"
	"net"
	"strings"
	"sync"
	"time"

	"verifharness/drive"
	"verifharness/fw"
	"verifharness/hmods"
	"verifharness/oracle"
	"verifharness/tlsutil"
	"verifharness/vnet"
)

// overlap: failures that are observed at different times by connections dialled together. The first upstream speaks TLS;
// its server accepts the TCP connections of the first three dials and hangs up on them 0.3, 0.9 and 1.5 s later (the
// dials fail one after the other, the later ones when the peer has already reached max_fails = 2); every later
// connection is served normally. Each of the three failures has to be remembered for fail_duration from the moment it
// was observed: probes made while two of them are certainly remembered must avoid the upstream.
func overlap(c *fw.Ctx, canary *oracle.Canary, h *History) {
	cert, err := tlsutil.NewCert("verif.test")
	if err != nil {
		c.Inconclusive("cert: " + err.Error())
		return
	}
	l, err := net.Listen("tcp", "127.0.0.1:0")
	if err != nil {
		c.Inconclusive("listen: " + err.Error())
		return
	}
	defer l.Close()
	B, err := newUpstream()
	if err != nil {
		c.Inconclusive("listen: " + err.Error())
		return
	}
	defer B.release()
	delays := []time.Duration{300 * time.Millisecond, 900 * time.Millisecond, 1500 * time.Millisecond}
	D := 2 * time.Second
	const M = 2
	slack := 150 * time.Millisecond
	var mu sync.Mutex
	var closedAt []time.Duration // when the server hung up on the k-th early connection
	gotA := map[string]bool{}
	accepted := 0
	go func() {
		for {
			cn, err := l.Accept()
			if err != nil {
				return
			}
			mu.Lock()
			k := accepted
			accepted++
			mu.Unlock()
			if k < len(delays) {
				go func() {
					time.Sleep(delays[k])
					mu.Lock()
					closedAt = append(closedAt, vnet.Now())
					mu.Unlock()
					_ = cn.Close()
				}()
				continue
			}
			go func() {
				tc := tls.Server(cn, &tls.Config{Certificates: []tls.Certificate{cert.TLS}})
				defer tc.Close()
				_ = tc.SetDeadline(time.Now().Add(10 * time.Second))
				buf := make([]byte, 64)
				n, _ := tc.Read(buf)
				if n > 0 {
					mu.Lock()
					gotA[string(buf[:n])] = true
					mu.Unlock()
				}
				for {
					if _, err := tc.Read(buf); err != nil {
						return
					}
				}
			}()
		}
	}()
	sel := nextTag("sel")
	ups := []map[string]any{
		{"dial": []string{"tcp/" + l.Addr().String()}, "tls": map[string]any{"insecure_skip_verify": true}},
		dial(B),
	}
	routes := proxyRoutes(ups, map[string]any{"health_checks": map[string]any{"passive": map[string]any{"fail_duration": "2s", "max_fails": M}}}, sel)
	app, err := drive.StartApp(routes, "5s")
	if err != nil {
		report(c, h, "config-rejected", err.Error(), routes)
		return
	}
	defer app.Stop()
	// three connections dialled together
	var early []*vnet.End
	for i := 0; i < len(delays); i++ {
		tag := nextTag("o")
		cl, _ := app.Dial(tag)
		_, _ = cl.Write([]byte(tag))
		early = append(early, cl)
	}
	defer func() {
		for _, cl := range early {
			_ = cl.Close()
		}
	}()
	time.Sleep(delays[len(delays)-1] + 100*time.Millisecond)
	mu.Lock()
	fails := append([]time.Duration(nil), closedAt...)
	nAcc := accepted
	mu.Unlock()
	if len(fails) != len(delays) || nAcc != len(delays) {
		// the three dials did not all reach the first upstream (or something else connected to it): nothing to judge
		c.Inconclusive(fmt.Sprintf("overlap: %d early connections accepted, %d hung up", nAcc, len(fails)))
		return
	}
	outcomes := ""
	// probes until everything is certainly forgotten
	for vnet.Now() < fails[len(fails)-1]+D+slack+300*time.Millisecond {
		tag := nextTag("q")
		rec := hmods.Track(tag)
		a := vnet.Now()
		cl, _ := app.Dial(tag)
		_, _ = cl.Write([]byte(tag))
		out := ""
		for dl := time.Now().Add(5 * time.Second); out == "" && time.Now().Before(dl); time.Sleep(500 * time.Microsecond) {
			mu.Lock()
			inA := gotA[tag]
			mu.Unlock()
			switch {
			case inA:
				out = "A"
			case B.has(tag):
				out = "B"
			case cl.PeerClosed():
				out = "fail"
			}
		}
		b := vnet.Now()
		_ = cl.CloseWrite()
		rec.WaitDone("span", 2*time.Second)
		_ = cl.Close()
		hmods.Untrack(tag)
		if out == "" {
			out = "timeout"
		}
		outcomes += out[:1]
		certain, possible := 0, 0
		for _, f := range fails {
			if f <= a && b <= f+D-slack {
				certain++
			}
			if a < f+D+slack {
				possible++
			}
		}
		switch {
		case out == "timeout" || out == "fail":
			report(c, h, "probe-not-served", fmt.Sprintf("a probe connection ended as %q although the second upstream is up", out), nil)
		case certain >= M && out == "A":
			if canary.MaxOversleep() > slack/2 {
				c.Inconclusive("noisy scheduler")
			} else {
				report(c, h, "failed-upstream-still-in-rotation", fmt.Sprintf("a probe at +%v went to the first upstream although %d of its dial failures (observed at %v, max_fails %d, fail_duration %v) are certainly still remembered: a failure observed while the peer was already at max_fails was not counted", a, certain, fails, M, D), map[string]any{"outcomes": outcomes})
			}
		case possible < M && out == "B":
			if canary.MaxOversleep() > slack/2 {
				c.Inconclusive("noisy scheduler")
			} else {
				report(c, h, "upstream-not-back-in-rotation", fmt.Sprintf("a probe at +%v avoided the first upstream although at most %d failures can still be remembered", a, possible), map[string]any{"outcomes": outcomes})
			}
		}
		time.Sleep(100 * time.Millisecond)
	}
	hmods.SelectLog(sel)
	c.Obs("overlap_probes", int64(len(outcomes)))
	c.Case(fw.Hash("overlap", outcomes), strings.Contains(outcomes, "A") && strings.Contains(outcomes, "B"), func() any {
		return map[string]any{"history": h, "outcomes": outcomes, "failures_observed_at": fmt.Sprint(fails)}
	})
}
