// Package c17 monitors the throttle handler: bytes pulled from the client
// never exceed burst + rate x time (per connection and, for the total
// limiter, over all connections of the handler), the first read does not
// happen before the configured latency, and the stream stays intact.
package c17

import (
	"bytes"
	"encoding/json"
	"fmt"
	"sort"
	"sync"
	"time"

	"verifharness/drive"
	"verifharness/fw"
	"verifharness/hmods"
	"verifharness/oracle"
	"verifharness/vnet"
)

const streamDomain = 0xC17

func init() {
	fw.Register(&fw.Prop{
		ID: "C17",
		Rule: "case = timed run of 1-16 connections through one throttle handler (rate 1 KiB/s-10 MiB/s, burst {1,100,rate,64 KiB,default}, per-connection and/or total limiter, latency {0,50,300 ms}, " +
			"reader buffer {1,512,32 KiB}, duration 0.4-2 s; one run in six puts the handler on UDP associations (datagrams of 64-4096 bytes, observed at the recording sink); in one run of five the handler is followed by a subroute whose matcher needs 100-8000 bytes under a 0.2-3 s matching timeout, so that the throttled " +
			"connection is read by prefetch under a read deadline) with unlimited data ready at the client. The scripted client connection stamps the entry of the first underlying read (t0) and the return of " +
			"every read (tau_i, cumulative bytes C_i). oracle (one-sided, sound under any load): with t0 = span entry + latency (no token can be taken earlier), C_i <= burst + rate*(tau_i - t0) + 1 per connection; for the total limiter the same on the merged " +
			"stream of all connections; t0 - (span entry) >= latency; bytes the sink read are exactly the prefix of the client's stream that was pulled. non-trivial = >=3 reads observed; " +
			"distinct = hash(all run parameters). layouts: throttle and consumer in one route / throttle alone in a non-terminal route / throttle in a subroute (the stream is read after the handler returned) / a matcher in front of the throttle (prefetched bytes must not be lost). storm rounds: eight connections with a full burst ready enter a full total limiter together; one burst (+ rate x T) may be read. own-route layout may put a matcher (1-200 bytes) in the route that follows the throttle handler's route: the first read is then the matching phase's prefetch. clients with everything ready may write it in segments of 100..4000 bytes (short reads with more data right behind them, reader buffers larger than the burst). a second throttle handler may follow the first (same route or inside a subroute behind it): the bound of each handler holds. in a fifth of the runs the server is stopped and its configuration unloaded halfway through: connections in flight stay within their bounds.",
		Assumptions: []string{
			"unless a run says otherwise no matcher precedes the handler, so every underlying read is a throttled read; in pre-match runs the reads made for matching (before the handler chain is entered) are left out of the bound",
			"observer clock is read after each read returns, so delays can only hide violations",
		},
		MinEvals: 20,
		Plan: func(tier string) []fw.ChildSpec {
			if tier == "thorough" {
				return []fw.ChildSpec{{Name: "timed", Mode: "timed", Shards: 8, Timeout: 30 * time.Minute},
					{Name: "storm", Mode: "storm", Shards: 2, Timeout: 30 * time.Minute}}
			}
			return []fw.ChildSpec{{Name: "timed", Mode: "timed", Shards: 4, Timeout: 8 * time.Minute},
				{Name: "storm", Mode: "storm", Shards: 1, Timeout: 8 * time.Minute}}
		},
		Run:    run,
		Replay: replay,
	})
}

// Run is one timed execution.
type Run struct {
	Index      int     `json:"index"`
	Rate       float64 `json:"rate"`        // per-connection bytes/s (0 = none)
	Burst      int     `json:"burst"`       // 0 = default (rate+1)
	TotalRate  float64 `json:"total_rate"`  // 0 = none
	TotalBurst int     `json:"total_burst"` // 0 = default
	LatencyMs  int     `json:"latency_ms"`
	BufSize    int     `json:"bufsize"`
	Conns      int     `json:"conns"`
	DurationMs int     `json:"duration_ms"`
	// Trickle: this many of the connections do not have unlimited data ready; they write one byte every 20 ms,
	// so their reads return fewer bytes than the batch the limiters were asked for (short reads)
	Trickle int `json:"trickle"`
	// Matcher > 0: the throttle handler is followed by a subroute whose only route has a matcher that needs this many
	// bytes, with MatchTimeoutMs as the subroute's matching timeout: the throttled connection is then read by the
	// matching phase's prefetch, under a read deadline, before (if ever) the sink runs
	// UDP: the handler runs on UDP associations; every client sends datagrams of Datagram bytes
	UDP      bool `json:"udp,omitempty"`
	Datagram int  `json:"datagram,omitempty"`

	// Layout: "" = throttle and the consumer in one route; "own-route" = the throttle handler is the only handler of a
	// (non-terminal) route and the consumer sits in the next route; "subroute" = the throttle handler sits in a subroute
	// and the consumer follows the subroute. In both, the stream is read after the throttle handler's Handle returned.
	Layout string `json:"layout,omitempty"`
	// NextMatch > 0 (own-route layout): the route that follows the throttle handler's route has a matcher that needs this
	// many bytes, so the first read of the connection is the matching phase's prefetch - after the throttle handler ran
	NextMatch int `json:"next_match,omitempty"`
	// PreMatch > 0: a matcher that needs this many bytes decides the route before the throttle handler runs, so the
	// handler starts with prefetched, not yet consumed bytes (they are not throttled; they must not be lost)
	PreMatch int `json:"pre_match,omitempty"`

	Matcher        int `json:"matcher,omitempty"`
	MatchTimeoutMs int `json:"match_timeout_ms,omitempty"`

	// StopMid: halfway through the run the server is stopped and its configuration unloaded (listeners closed, the handler's
	// context cancelled and cleaned up, as on a reload that drops the handler); connections in flight stay throttled
	StopMid bool `json:"stop_mid,omitempty"`
	// Seg > 0: the clients that have everything ready write it in segments of this many bytes (all queued at once), so a
	// read asked for one batch often returns the rest of a segment instead (a short read with more data right behind it)
	Seg int `json:"seg,omitempty"`
	// Rate2 > 0: a second throttle handler (per-connection limit Rate2 / Burst2) follows the first one in the chain
	// (same route, or the first in front of a subroute and the second inside it): both bounds hold
	Rate2       float64 `json:"rate2,omitempty"`
	Burst2      int     `json:"burst2,omitempty"`
	SecondInSub bool    `json:"second_in_subroute,omitempty"`
}

// special runs that are always part of the list: both limiters with the total limiter binding, with and without
// trickling companions
var specials = []*Run{
	{Rate: 10240, Burst: 100, TotalRate: 10240, TotalBurst: 100, BufSize: 512, Conns: 4, DurationMs: 900},
	{Rate: 1 << 20, Burst: 0, TotalRate: 100 * 1024, TotalBurst: 4096, BufSize: 32 << 10, Conns: 3, DurationMs: 800},
	{Rate: 0, Burst: 0, TotalRate: 20480, TotalBurst: 2048, BufSize: 512, Conns: 3, Trickle: 1, DurationMs: 1200},
	{Rate: 102400, Burst: 4096, TotalRate: 20480, TotalBurst: 1024, BufSize: 512, Conns: 4, Trickle: 2, DurationMs: 1200},
	{Rate: 2000, Burst: 400, TotalRate: 0, TotalBurst: 0, BufSize: 32, Conns: 2, Trickle: 1, DurationMs: 900},
	{Rate: 0, Burst: 0, TotalRate: 2000, TotalBurst: 400, BufSize: 32, Conns: 2, Trickle: 1, LatencyMs: 50, DurationMs: 1000},
	// matching (prefetch under a read deadline) on the throttled connection: matching cannot finish in time ...
	{Rate: 2000, Burst: 200, BufSize: 512, Conns: 2, DurationMs: 1500, Matcher: 4000, MatchTimeoutMs: 600},
	{Rate: 0, TotalRate: 4000, TotalBurst: 300, BufSize: 512, Conns: 3, DurationMs: 1500, Matcher: 6000, MatchTimeoutMs: 500},
	// ... and can
	{Rate: 20000, Burst: 500, BufSize: 512, Conns: 2, DurationMs: 1200, Matcher: 3000, MatchTimeoutMs: 3000},
	// total burst left to its default (rate+1) below an explicit, larger per-connection burst
	{Rate: 50000, Burst: 4000, TotalRate: 1000, TotalBurst: 0, BufSize: 32 << 10, Conns: 3, DurationMs: 900},
	{Rate: 0, Burst: 0, TotalRate: 2048, TotalBurst: 0, BufSize: 32 << 10, Conns: 2, DurationMs: 700},
	// the stream is read after the throttle handler's Handle has returned
	{Rate: 2000, Burst: 200, BufSize: 512, Conns: 2, DurationMs: 900, Layout: "own-route"},
	// short reads with more data behind them, reader buffer larger than the burst
	{Rate: 20000, Burst: 1000, BufSize: 32 << 10, Conns: 2, DurationMs: 1200, Seg: 1500},
	{Rate: 0, TotalRate: 20000, TotalBurst: 1000, BufSize: 32 << 10, Conns: 2, DurationMs: 1200, Seg: 1300},
	// the configuration is unloaded halfway through
	{Rate: 0, TotalRate: 2000, TotalBurst: 300, BufSize: 512, Conns: 2, DurationMs: 1200, StopMid: true},
	{Rate: 3000, Burst: 300, BufSize: 512, Conns: 2, DurationMs: 1200, StopMid: true},
	// two throttle handlers in a row: the slower one has the larger burst
	{Rate: 5000, Burst: 20000, Rate2: 20000, Burst2: 1000, BufSize: 32 << 10, Conns: 1, DurationMs: 1200},
	{Rate: 20000, Burst: 1000, Rate2: 5000, Burst2: 20000, BufSize: 512, Conns: 2, DurationMs: 1200, SecondInSub: true},
	{Rate: 2000, Burst: 200, LatencyMs: 120, BufSize: 512, Conns: 2, DurationMs: 900, Layout: "own-route", NextMatch: 16},
	{Rate: 0, TotalRate: 3000, TotalBurst: 250, BufSize: 512, Conns: 2, DurationMs: 900, Layout: "own-route", NextMatch: 1},
	{Rate: 0, TotalRate: 4000, TotalBurst: 300, BufSize: 512, Conns: 3, DurationMs: 900, Layout: "subroute"},
	// prefetched bytes in front of the throttle handler
	{Rate: 20000, Burst: 500, BufSize: 512, Conns: 2, DurationMs: 700, PreMatch: 2000},
	// UDP associations, datagrams larger than the burst, reader buffers larger and smaller than a datagram
	{Rate: 2000, Burst: 200, BufSize: 32 << 10, Conns: 2, DurationMs: 900, UDP: true, Datagram: 1800},
	{Rate: 0, TotalRate: 4000, TotalBurst: 300, BufSize: 512, Conns: 3, DurationMs: 900, UDP: true, Datagram: 1200},
}

var udpSeq struct {
	sync.Mutex
	n int
}

func genRun(seed int64, i int) *Run {
	if i < len(specials) {
		ru := *specials[i]
		ru.Index = i
		return &ru
	}
	r := fw.Rand(seed, "c17", i)
	rates := []float64{1024, 10 * 1024, 100 * 1024, 1 << 20, 10 << 20}
	ru := &Run{Index: i}
	mode := r.Intn(3) // 0 local only, 1 total only, 2 both
	if mode != 1 {
		ru.Rate = rates[r.Intn(len(rates))]
		ru.Burst = []int{1, 100, int(ru.Rate), 64 << 10, 0}[r.Intn(5)]
	}
	if mode != 0 {
		ru.TotalRate = rates[r.Intn(len(rates))]
		ru.TotalBurst = []int{1, 100, int(ru.TotalRate), 64 << 10, 0}[r.Intn(5)]
	}
	ru.LatencyMs = []int{0, 0, 50, 300}[r.Intn(4)]
	ru.BufSize = []int{1, 512, 32 << 10}[r.Intn(3)]
	if ru.BufSize == 1 {
		// one-byte reads: keep the rates low enough that the reader can actually reach them
		if ru.Rate > 100*1024 {
			ru.Rate = 100 * 1024
			if ru.Burst > int(ru.Rate) {
				ru.Burst = int(ru.Rate)
			}
		}
		if ru.TotalRate > 100*1024 {
			ru.TotalRate = 100 * 1024
			if ru.TotalBurst > int(ru.TotalRate) {
				ru.TotalBurst = int(ru.TotalRate)
			}
		}
	}
	ru.Conns = []int{1, 1, 2, 4, 16}[r.Intn(5)]
	ru.DurationMs = 400 + r.Intn(1600)
	if ru.Conns > 1 && r.Intn(3) == 0 {
		ru.Trickle = 1 + r.Intn(ru.Conns-1)
	}
	if r.Intn(6) == 0 {
		ru.UDP, ru.Trickle = true, 0
		ru.Datagram = []int{64, 1200, 1800, 4096}[r.Intn(4)]
		if ru.BufSize == 1 {
			ru.BufSize = 512
		}
		return ru
	}
	switch r.Intn(6) {
	case 0:
		ru.Layout = "own-route"
		if r.Intn(2) == 0 {
			ru.NextMatch = []int{1, 16, 200}[r.Intn(3)]
		}
	case 1:
		ru.Layout = "subroute"
	case 2:
		ru.PreMatch = []int{1, 100, 2000, 5000}[r.Intn(4)]
	}
	r2 := fw.Rand(seed, "c17extra", i)
	ru.StopMid = fw.Rand(seed, "c17stop", i).Intn(5) == 0
	if r2.Intn(3) == 0 {
		ru.Seg = []int{1500, 1300, 700, 4000, 100}[r2.Intn(5)]
	}
	if r2.Intn(5) == 0 && ru.Rate > 0 && ru.Layout == "" && ru.PreMatch == 0 {
		ru.Rate2 = rates[r2.Intn(len(rates))]
		ru.Burst2 = []int{1, 100, int(ru.Rate2), 64 << 10, 0}[r2.Intn(5)]
		if ru.BufSize == 1 && ru.Rate2 > 100*1024 {
			ru.Rate2 = 100 * 1024
			if ru.Burst2 > int(ru.Rate2) {
				ru.Burst2 = int(ru.Rate2)
			}
		}
		ru.SecondInSub = r2.Intn(2) == 0
	}
	if r.Intn(5) == 0 && ru.Layout == "" && ru.PreMatch == 0 && ru.Rate2 == 0 {
		ru.Matcher = []int{100, 3000, 8000}[r.Intn(3)]
		ru.MatchTimeoutMs = []int{200, 600, 3000}[r.Intn(3)]
	}
	return ru
}

func run(c *fw.Ctx) {
	hmods.Quiet(c.OutDir + "/caddyhome")
	if c.Mode == "storm" {
		runStorm(c)
		return
	}
	n := c.Pick(72, 480)
	var mine []*Run
	for i := 0; i < n; i++ {
		if c.Mine(i) {
			mine = append(mine, genRun(c.Seed, i))
		}
	}
	for i := 0; i < len(mine); i += 8 {
		j := i + 8
		if j > len(mine) {
			j = len(mine)
		}
		var wg sync.WaitGroup
		for _, ru := range mine[i:j] {
			wg.Add(1)
			go func(ru *Run) { defer wg.Done(); execute(c, ru) }(ru)
		}
		wg.Wait()
	}
}

type sample struct {
	t  time.Duration
	n  int
	id string // connection (merged list)
}

func execute(c *fw.Ctx, ru *Run) {
	if ru.UDP {
		executeUDP(c, ru)
		return
	}
	th := map[string]any{"handler": "throttle"}
	if ru.Rate > 0 {
		th["read_bytes_per_second"] = ru.Rate
		if ru.Burst > 0 {
			th["read_burst_size"] = ru.Burst
		}
	}
	if ru.TotalRate > 0 {
		th["total_read_bytes_per_second"] = ru.TotalRate
		if ru.TotalBurst > 0 {
			th["total_read_burst_size"] = ru.TotalBurst
		}
	}
	if ru.LatencyMs > 0 {
		th["latency"] = fmt.Sprintf("%dms", ru.LatencyMs)
	}
	var last any = map[string]any{"handler": "verif_sink", "name": "sink", "bufsize": ru.BufSize}
	if ru.Matcher > 0 {
		// the matcher says yes once it has seen Matcher bytes (its verdict does not depend on them: at 0, != 256)
		last = map[string]any{"handler": "subroute", "matching_timeout": fmt.Sprintf("%dms", ru.MatchTimeoutMs), "routes": []any{map[string]any{
			"match":  []any{map[string]any{"verif_m1": map[string]any{"id": "after-throttle", "need": ru.Matcher, "at": 0, "eq": 256, "neg": true, "pattern": "peek"}}},
			"handle": []any{last}}}}
	}
	span := map[string]any{"handler": "verif_span", "name": "span"}
	var th2 any
	if ru.Rate2 > 0 {
		t2 := map[string]any{"handler": "throttle", "read_bytes_per_second": ru.Rate2}
		if ru.Burst2 > 0 {
			t2["read_burst_size"] = ru.Burst2
		}
		if ru.SecondInSub {
			last = map[string]any{"handler": "subroute", "routes": []any{map[string]any{"handle": []any{t2, last}}}}
		} else {
			th2 = t2
		}
	}
	var routeList []any
	switch ru.Layout {
	case "own-route":
		next := map[string]any{"handle": []any{last}}
		if ru.NextMatch > 0 {
			next["match"] = []any{map[string]any{"verif_m1": map[string]any{"id": "next", "need": ru.NextMatch, "at": 0, "eq": 256, "neg": true, "pattern": "peek"}}}
		}
		routeList = []any{map[string]any{"handle": []any{span, th}}, next}
	case "subroute":
		routeList = []any{map[string]any{"handle": []any{span,
			map[string]any{"handler": "subroute", "routes": []any{map[string]any{"handle": []any{th}}}}, last}}}
	default:
		rt := map[string]any{"handle": []any{span, th, last}}
		if th2 != nil {
			rt["handle"] = []any{span, th, th2, last}
		}
		if ru.PreMatch > 0 {
			rt["match"] = []any{map[string]any{"verif_m1": map[string]any{"id": "pre", "need": ru.PreMatch, "at": 0, "eq": 256, "neg": true, "pattern": "peek"}}}
		}
		routeList = []any{rt}
	}
	routes := drive.J(routeList)
	app, err := drive.StartApp(routes, "20s")
	if err != nil {
		c.Violation("C17 config rejected", err.Error(), ru)
		return
	}
	defer app.Stop()
	burst := float64(ru.Burst)
	if ru.Rate > 0 && ru.Burst == 0 {
		burst = float64(int(ru.Rate) + 1)
	}
	tburst := float64(ru.TotalBurst)
	if ru.TotalRate > 0 && ru.TotalBurst == 0 {
		tburst = float64(int(ru.TotalRate) + 1)
	}
	// enough data that the client never runs dry
	need := int((ru.Rate+ru.TotalRate)*float64(ru.DurationMs)/1000*1.5) + 256<<10
	if need > 48<<20 {
		need = 48 << 20
	}
	type connState struct {
		id      string
		client  *vnet.End
		server  *vnet.End
		rec     *hmods.ConnRec
		stream  []byte
		mu      sync.Mutex
		samples []sample
	}
	conns := make([]*connState, ru.Conns)
	var allMu sync.Mutex
	var all []sample // merged (time, n) over all connections
	for k := range conns {
		cs := &connState{id: fmt.Sprintf("c17-%d-%d-%d", c.Shard, ru.Index, k)}
		cs.rec = hmods.Track(cs.id)
		cs.stream = oracle.Stream(streamDomain, uint64(fw.Mix(c.Seed, cs.id)), need/ru.Conns+4096)
		cs.client, cs.server = drive.NewPair(cs.id)
		cs.server.OnRead = func(n int, total int64, t time.Duration) {
			if n <= 0 {
				return
			}
			cs.mu.Lock()
			cs.samples = append(cs.samples, sample{t: t, n: n})
			cs.mu.Unlock()
			allMu.Lock()
			all = append(all, sample{t: t, n: n, id: cs.id})
			allMu.Unlock()
		}
		if k < ru.Trickle {
			go func(cs *connState) {
				for off := 0; off < len(cs.stream); off++ {
					if _, err := cs.client.Write(cs.stream[off : off+1]); err != nil {
						return
					}
					time.Sleep(20 * time.Millisecond)
				}
			}(cs)
		} else if ru.Seg > 0 {
			for off := 0; off < len(cs.stream); off += ru.Seg {
				_, _ = cs.client.Write(cs.stream[off:min(off+ru.Seg, len(cs.stream))]) // all queued at once, segment by segment
			}
		} else {
			_, _ = cs.client.Write(cs.stream) // everything is readable at once
		}
		conns[k] = cs
	}
	for _, cs := range conns {
		app.L.Inject(cs.server)
	}
	if ru.StopMid {
		time.Sleep(time.Duration(ru.DurationMs/2) * time.Millisecond)
		app.Stop()
		time.Sleep(time.Duration(ru.DurationMs-ru.DurationMs/2) * time.Millisecond)
	} else {
		time.Sleep(time.Duration(ru.DurationMs) * time.Millisecond)
	}
	for _, cs := range conns {
		cs.client.Abort()
	}
	// one shared grace period: a reader may sit in the limiter's WaitN for up to burst/rate seconds after the abort
	grace := time.Now().Add(2 * time.Second)
	for _, cs := range conns {
		d := time.Until(grace)
		if d < 0 {
			d = 0
		}
		cs.rec.WaitDone("sink", d)
	}
	report := func(kind, what string, extra any) {
		c.Violation("C17 "+kind, what, map[string]any{"run": ru, "detail": extra})
	}
	reads := 0
	var firstT0 time.Duration = -1
	spanAt := map[string]time.Duration{} // PreMatch runs: when each connection's handler chain was entered
	for _, cs := range conns {
		t0ns := cs.server.FirstReadT0.Load()
		cs.mu.Lock()
		samples := append([]sample(nil), cs.samples...)
		cs.mu.Unlock()
		reads += len(samples)
		if t0ns == 0 {
			continue
		}
		firstRead := time.Duration(t0ns - 1)
		// latency; and the start of the rate bound: the limiters' tokens are taken *before* the underlying
		// read starts, but never before (span entry + latency), so that instant is a sound "time zero"
		t0 := firstRead
		for _, e := range cs.rec.Events() {
			if e.Kind == "enter" && e.Who == "span" {
				if ru.PreMatch > 0 {
					// what was read before the handler chain was entered was read for matching, not through the throttle:
					// the bound is about the reads from then on (the sink gets the prefetched bytes from the buffer)
					var later []sample
					for _, sm := range samples {
						if sm.t >= e.T {
							later = append(later, sm)
						}
					}
					samples = later
					spanAt[cs.id] = e.T
				} else if gap := firstRead - e.T; gap < time.Duration(ru.LatencyMs)*time.Millisecond {
					report("latency-not-honoured", fmt.Sprintf("the first read from the client started %v after the handler chain was entered, configured latency is %d ms", gap, ru.LatencyMs), nil)
				}
				t0 = e.T + time.Duration(ru.LatencyMs)*time.Millisecond
				break
			}
		}
		if firstT0 < 0 || t0 < firstT0 {
			firstT0 = t0
		}
		// per-connection bound
		if ru.Rate > 0 {
			cum := 0
			for _, s := range samples {
				cum += s.n
				allowed := burst + ru.Rate*(s.t-t0).Seconds() + 1
				if float64(cum) > allowed {
					report("per-connection-rate-exceeded", fmt.Sprintf("%d bytes had been read from one client %v after its first read; burst %v + rate %v B/s allows %.0f", cum, s.t-t0, burst, ru.Rate, allowed),
						map[string]any{"cum": cum, "elapsed": (s.t - t0).String()})
					break
				}
			}
		}
		if ru.Rate2 > 0 {
			burst2 := float64(ru.Burst2)
			if ru.Burst2 == 0 {
				burst2 = float64(int(ru.Rate2) + 1)
			}
			cum := 0
			for _, s := range samples {
				cum += s.n
				allowed := burst2 + ru.Rate2*(s.t-t0).Seconds() + 1
				if float64(cum) > allowed {
					report("per-connection-rate-exceeded [second throttle handler of the chain]", fmt.Sprintf("%d bytes had been read from one client %v after its first read; the second handler's burst %v + rate %v B/s allows %.0f", cum, s.t-t0, burst2, ru.Rate2, allowed),
						map[string]any{"cum": cum, "elapsed": (s.t - t0).String()})
					break
				}
			}
		}
		// stream intact: the sink read exactly the bytes that were pulled, and they are the client's prefix
		got := cs.rec.Stream("sink")
		pulled := int(cs.server.BytesRead.Load())
		if len(got) > len(cs.stream) || !bytes.Equal(got, cs.stream[:len(got)]) {
			report("stream-not-intact", "the sink read bytes that are not a prefix of the client's stream: "+oracle.Diff(got, cs.stream[:min(len(got), len(cs.stream))]), nil)
		} else if len(got) != pulled && !((ru.Matcher > 0 || ru.PreMatch > 0 || ru.NextMatch > 0) && len(got) == 0) { // (matching that fails drops what it had prefetched)
			report("stream-lost-bytes", fmt.Sprintf("%d bytes were pulled from the client but the sink read %d", pulled, len(got)), nil)
		}
		hmods.Untrack(cs.id)
	}
	// total bound over the merged stream
	if ru.TotalRate > 0 && firstT0 >= 0 {
		allMu.Lock()
		merged := append([]sample(nil), all...)
		allMu.Unlock()
		sort.Slice(merged, func(i, j int) bool { return merged[i].t < merged[j].t })
		cum := 0
		for _, s := range merged {
			if at, ok := spanAt[s.id]; ru.PreMatch > 0 && (!ok || s.t < at) {
				continue // read for matching, before the throttle handler ran
			}
			cum += s.n
			allowed := tburst + ru.TotalRate*(s.t-firstT0).Seconds() + 1
			if float64(cum) > allowed {
				kind := "total-rate-exceeded"
				if excess := float64(cum) - allowed; ru.Conns > 1 && (excess < 0.005*allowed || excess <= 2) {
					// (at low rates one byte is more than half a percent: the recorded finding is an over-grant of one or two
					// bytes, whatever the total)
					// several goroutines reserve from one x/time/rate limiter; see known_findings.txt
					kind = "total-rate-exceeded marginally (<0.5% over the bound, concurrent readers on the shared limiter)"
				}
				report(kind, fmt.Sprintf("%d bytes had been read over all %d connections %v after the first read; total burst %v + total rate %v B/s allows %.0f", cum, ru.Conns, s.t-firstT0, tburst, ru.TotalRate, allowed), nil)
				break
			}
		}
	}
	c.Obs("reads_observed", int64(reads))
	c.Obs("runs", 1)
	c.Case(fw.Hash(ru.Rate, ru.Burst, ru.TotalRate, ru.TotalBurst, ru.LatencyMs, ru.BufSize, ru.Conns, ru.Trickle, ru.Matcher, ru.MatchTimeoutMs), reads >= 3, func() any {
		return map[string]any{"run": ru, "reads": reads}
	})
}

func replay(c *fw.Ctx, raw json.RawMessage) {
	var w struct {
		Run *Run `json:"run"`
	}
	if err := json.Unmarshal(raw, &w); err != nil || w.Run == nil {
		fmt.Println("replay: cannot decode run:", err)
		return
	}
	hmods.Quiet(c.OutDir + "/caddyhome")
	execute(c, w.Run)
}
