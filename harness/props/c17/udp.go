package c17

import (
	"bytes"
	"fmt"
	"sort"
	"sync/atomic"
	"time"

	"verifharness/drive"
	"verifharness/fw"
	"verifharness/hmods"
	"verifharness/oracle"
	"verifharness/vnet"
)

// executeUDP runs the throttle handler directly on UDP associations (scripted packet conn): every client sends
// datagrams of ru.Datagram bytes, all queued at once. What the handler behind the throttle has read by time t is
// bounded the same way as for TCP; the observation point is the recording sink (a byte reaches it only after the
// throttled read that fetched it returned, so the bound is sound there too).
func executeUDP(c *fw.Ctx, ru *Run) {
	th := map[string]any{"handler": "throttle"}
	if ru.Rate > 0 {
		th["read_bytes_per_second"] = ru.Rate
		if ru.Burst > 0 {
			th["read_burst_size"] = ru.Burst
		}
	}
	if ru.TotalRate > 0 {
		th["total_read_bytes_per_second"] = ru.TotalRate
		if ru.TotalBurst > 0 {
			th["total_read_burst_size"] = ru.TotalBurst
		}
	}
	if ru.LatencyMs > 0 {
		th["latency"] = fmt.Sprintf("%dms", ru.LatencyMs)
	}
	name := vnet.UniqueName("c17pc")
	pc := vnet.NewNamedPacketConn(name)
	routes := drive.J([]any{map[string]any{"handle": []any{
		map[string]any{"handler": "verif_span", "name": "span"}, th,
		map[string]any{"handler": "verif_sink", "name": "sink", "bufsize": ru.BufSize}}}})
	cfg := fmt.Sprintf(`{"servers":{"s":{"listen":["verifudp/%s:1"],"routes":%s,"matching_timeout":"20s"}}}`, name, routes)
	app, err := drive.StartAppConfig(cfg, "")
	if err != nil {
		c.Violation("C17 config rejected", err.Error(), ru)
		return
	}
	burst := float64(ru.Burst)
	if ru.Rate > 0 && ru.Burst == 0 {
		burst = float64(int(ru.Rate) + 1)
	}
	tburst := float64(ru.TotalBurst)
	if ru.TotalRate > 0 && ru.TotalBurst == 0 {
		tburst = float64(int(ru.TotalRate) + 1)
	}
	need := int((ru.Rate+ru.TotalRate)*float64(ru.DurationMs)/1000*1.5) + 64<<10
	if need > 8<<20 {
		need = 8 << 20
	}
	perConn := need/ru.Conns/ru.Datagram + 4
	type client struct {
		addr   string
		rec    *hmods.ConnRec
		stream []byte
	}
	udpSeq.Lock()
	udpSeq.n++
	base := udpSeq.n
	udpSeq.Unlock()
	clients := make([]*client, ru.Conns)
	for k := range clients {
		a := vnet.UDPAddr(fmt.Sprintf("198.19.%d.%d", (base>>8)&0xff, base&0xff), 3000+k)
		cl := &client{addr: a.String()}
		cl.rec = hmods.Track("udp:" + cl.addr)
		cl.stream = oracle.Stream(streamDomain, uint64(fw.Mix(c.Seed, "udp", ru.Index, k)), perConn*ru.Datagram)
		clients[k] = cl
	}
	// the feeder keeps the socket's queue full (Inject blocks while the throttled readers are behind) until the
	// listener is closed
	fed := make(chan struct{})
	go func() {
		defer close(fed)
		for d := 0; d < perConn; d++ {
			for k, cl := range clients {
				pc.Inject(cl.stream[d*ru.Datagram:(d+1)*ru.Datagram], vnet.UDPAddr(fmt.Sprintf("198.19.%d.%d", (base>>8)&0xff, base&0xff), 3000+k))
			}
		}
	}()
	time.Sleep(time.Duration(ru.DurationMs) * time.Millisecond)
	app.Stop()
	_ = pc.Close()
	<-fed
	grace := time.Now().Add(2 * time.Second)
	for _, cl := range clients {
		d := time.Until(grace)
		if d < 0 {
			d = 0
		}
		cl.rec.WaitDone("sink", d)
	}
	report := func(kind, what string, extra any) {
		c.Violation("C17 "+kind+" [udp]", what, map[string]any{"run": ru, "detail": extra})
	}
	var merged []sample
	var firstT0 time.Duration = -1
	reads := 0
	for _, cl := range clients {
		var t0 time.Duration = -1
		var samples []sample
		for _, e := range cl.rec.Events() {
			switch {
			case e.Kind == "enter" && e.Who == "span" && t0 < 0:
				t0 = e.T + time.Duration(ru.LatencyMs)*time.Millisecond
			case e.Kind == "read" && e.Who == "sink":
				samples = append(samples, sample{t: e.T, n: e.N})
			}
		}
		hmods.Untrack("udp:" + cl.addr)
		if t0 < 0 {
			continue
		}
		reads += len(samples)
		if firstT0 < 0 || t0 < firstT0 {
			firstT0 = t0
		}
		if len(samples) > 0 && ru.LatencyMs > 0 && samples[0].t < t0 {
			report("latency-not-honoured", fmt.Sprintf("the handler behind the throttle got its first bytes %v before span entry + latency (%d ms)", t0-samples[0].t, ru.LatencyMs), nil)
		}
		if ru.Rate > 0 {
			cum := 0
			for _, s := range samples {
				cum += s.n
				allowed := burst + ru.Rate*(s.t-t0).Seconds() + 1
				if float64(cum) > allowed {
					report("per-connection-rate-exceeded", fmt.Sprintf("%d bytes had been read from one client %v after its first read; burst %v + rate %v B/s allows %.0f (datagrams of %d bytes)", cum, s.t-t0, burst, ru.Rate, allowed, ru.Datagram),
						map[string]any{"cum": cum, "elapsed": (s.t - t0).String()})
					break
				}
			}
		}
		merged = append(merged, samples...)
		got := cl.rec.Stream("sink")
		if len(got) > len(cl.stream) || !bytes.Equal(got, cl.stream[:len(got)]) {
			report("stream-not-intact", "the sink read bytes that are not a prefix of the client's datagrams in order: "+oracle.Diff(got, cl.stream[:min(len(got), len(cl.stream))]), nil)
		}
	}
	if ru.TotalRate > 0 && firstT0 >= 0 {
		sort.Slice(merged, func(i, j int) bool { return merged[i].t < merged[j].t })
		cum := 0
		for _, s := range merged {
			cum += s.n
			allowed := tburst + ru.TotalRate*(s.t-firstT0).Seconds() + 1
			if float64(cum) > allowed {
				kind := "total-rate-exceeded"
				if excess := float64(cum) - allowed; ru.Conns > 1 && (excess < 0.005*allowed || excess <= 2) {
					kind = "total-rate-exceeded marginally (<0.5% over the bound, concurrent readers on the shared limiter)"
					c.Violation("C17 "+kind, fmt.Sprintf("%d bytes over %d udp associations %v after the first read; allowed %.0f", cum, ru.Conns, s.t-firstT0, allowed), map[string]any{"run": ru})
					break
				}
				report(kind, fmt.Sprintf("%d bytes had been read over all %d associations %v after the first read; total burst %v + total rate %v B/s allows %.0f", cum, ru.Conns, s.t-firstT0, tburst, ru.TotalRate, allowed), nil)
				break
			}
		}
	}
	c.Obs("reads_observed_udp", int64(reads))
	c.Obs("runs_udp", 1)
	c.Case(fw.Hash("udp", ru.Rate, ru.Burst, ru.TotalRate, ru.TotalBurst, ru.LatencyMs, ru.BufSize, ru.Conns, ru.Datagram), reads >= 3, func() any {
		return map[string]any{"run": ru, "reads": reads}
	})
}

// runStorm: many short rounds in which eight connections, each with a full burst of data ready, enter the same
// total limiter at (nearly) the same instant while the bucket holds exactly one burst. Only one of them may read at
// once; the others have to wait for tokens that arrive at 100 B/s. A limiter path that checks and takes tokens in two
// steps lets two of them through.
func runStorm(c *fw.Ctx) {
	rounds := c.Pick(250, 2500)
	const B = 1000
	for k := 0; k < rounds; k++ {
		if !c.Mine(k) {
			continue
		}
		gate := fmt.Sprintf("c17gate-%d-%d", c.Shard, k)
		routes := drive.J([]any{map[string]any{"handle": []any{
			map[string]any{"handler": "throttle", "total_read_bytes_per_second": 100, "total_read_burst_size": B},
			map[string]any{"handler": "verif_sink", "name": "sink", "bufsize": B, "gate": gate}}}})
		app, err := drive.StartApp(routes, "20s")
		if err != nil {
			c.Violation("C17 config rejected", err.Error(), routes)
			return
		}
		const conns = 8
		servers := make([]*vnet.End, conns)
		clients := make([]*vnet.End, conns)
		data := make([]byte, B)
		var firstRead atomic.Int64
		for i := range servers {
			clients[i], servers[i] = drive.NewPair(fmt.Sprintf("c17storm-%d-%d-%d", c.Shard, k, i))
			servers[i].OnRead = func(n int, total int64, t time.Duration) {
				if n > 0 {
					firstRead.CompareAndSwap(0, int64(t)+1)
				}
			}
			_, _ = clients[i].Write(data)
		}
		for i := range servers {
			app.L.Inject(servers[i])
		}
		held := hmods.OpenGate(gate, conns) // all eight are at the start line: go
		c.ObsMax("storm_connections_released_together", int64(held))
		time.Sleep(12 * time.Millisecond)
		total := int64(0)
		for i := range servers {
			total += servers[i].BytesRead.Load()
		}
		now := vnet.Now()
		elapsed := time.Duration(0)
		if f := firstRead.Load(); f > 0 {
			elapsed = now - time.Duration(f-1)
		}
		for i := range clients {
			clients[i].Abort()
		}
		app.Stop()
		allowed := float64(B) + 100*elapsed.Seconds() + 1
		if float64(total) > allowed {
			c.Violation("C17 total-rate-exceeded [simultaneous first reads]", fmt.Sprintf("%d connections entered a full total limiter (burst %d, 100 B/s) together: %d bytes had been read %v after the first read, allowed %.0f", conns, B, total, elapsed, allowed),
				map[string]any{"round": k, "bytes": total})
		}
		c.Obs("storm_rounds", 1)
		c.Case(fw.Hash("storm", k%16), total > 0, func() any { return map[string]any{"round": k, "bytes_read": total} })
	}
}
