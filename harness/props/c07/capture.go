package c07

import (
	"crypto/tls"
	"strconv"
	"sync"

	"github.com/caddyserver/caddy/v2"
	"github.com/caddyserver/caddy/v2/modules/caddytls"
)

func init() {
	caddy.RegisterModule(&Capture{})
}

// Capture is the harness' TLS handshake matcher "tls.handshake_match.verif_capture": it records the ClientHelloInfo
// the l4 TLS matcher built from its own parser and matches everything.
type Capture struct{}

func (*Capture) CaddyModule() caddy.ModuleInfo {
	return caddy.ModuleInfo{ID: "tls.handshake_match.verif_capture", New: func() caddy.Module { return new(Capture) }}
}

// Info is a deep copy of the fields of a tls.ClientHelloInfo that the property speaks about.
type Info struct {
	// ServerName and SupportedProtos may hold arbitrary bytes: the JSON form is Go-quoted (strconv.Quote)
	ServerName        string   `json:"-"`
	SupportedProtos   []string `json:"-"`
	ServerNameQ       string   `json:"server_name_quoted"`
	SupportedProtosQ  []string `json:"supported_protos_quoted"`
	SupportedVersions []uint16 `json:"supported_versions"`
	CipherSuites      []uint16 `json:"cipher_suites"`
	SupportedCurves   []uint16 `json:"supported_curves"`
	SupportedPoints   []uint8  `json:"-"`
	SupportedPointsL  []int    `json:"supported_points"`
	SignatureSchemes  []uint16 `json:"signature_schemes"`
}

func infoOf(h *tls.ClientHelloInfo) *Info {
	in := &Info{ServerName: h.ServerName}
	in.SupportedProtos = append([]string{}, h.SupportedProtos...)
	in.ServerNameQ = strconv.Quote(h.ServerName)
	in.SupportedProtosQ = []string{}
	for _, p := range h.SupportedProtos {
		in.SupportedProtosQ = append(in.SupportedProtosQ, strconv.Quote(p))
	}
	in.SupportedVersions = append([]uint16{}, h.SupportedVersions...)
	in.CipherSuites = append([]uint16{}, h.CipherSuites...)
	for _, c := range h.SupportedCurves {
		in.SupportedCurves = append(in.SupportedCurves, uint16(c))
	}
	in.SupportedPoints = append([]uint8{}, h.SupportedPoints...)
	in.SupportedPointsL = []int{}
	for _, p := range h.SupportedPoints {
		in.SupportedPointsL = append(in.SupportedPointsL, int(p))
	}
	for _, s := range h.SignatureSchemes {
		in.SignatureSchemes = append(in.SignatureSchemes, uint16(s))
	}
	return in
}

var (
	capMu   sync.Mutex
	capLast *Info
	capN    int
)

func (*Capture) Match(h *tls.ClientHelloInfo) bool {
	capMu.Lock()
	capLast = infoOf(h)
	capN++
	capMu.Unlock()
	return true
}

func capReset() {
	capMu.Lock()
	capLast = nil
	capMu.Unlock()
}

func capGet() *Info {
	capMu.Lock()
	defer capMu.Unlock()
	return capLast
}

var _ caddytls.ConnectionMatcher = (*Capture)(nil)
