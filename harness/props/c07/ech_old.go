//go:build !go1.23

package c07

import "crypto/tls"

func setECH(cfg *tls.Config, list []byte) {}
