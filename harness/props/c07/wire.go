package c07

// Wire-level tooling for the mutation classes: a structural decoder/encoder of the first flight (TLS records carrying
// one ClientHello handshake message). It is NOT the oracle - the oracle is crypto/tls' server. It only exists to
// edit hellos produced by crypto/tls' client while keeping every length field consistent.

import (
	"encoding/binary"
	"math/rand"
)

type ext struct {
	T uint16
	D []byte
}

type hello struct {
	Type   byte
	Legacy uint16
	Random []byte
	SID    []byte
	Suites []uint16
	Comp   []byte
	HasExt bool
	Exts   []ext
}

// flightMessage reassembles the first handshake message of a flight of TLS records. It returns the record-layer
// version of the first record, the message (with its 4-byte header), the number of records it spans and the number
// of flight bytes up to the end of the record that completes the message.
func flightMessage(flight []byte) (recVers uint16, msg []byte, nrec int, used int, ok bool) {
	off := 0
	for {
		if len(flight)-off < 5 || flight[off] != 0x16 {
			return 0, nil, 0, 0, false
		}
		if nrec == 0 {
			recVers = binary.BigEndian.Uint16(flight[off+1:])
		}
		n := int(binary.BigEndian.Uint16(flight[off+3:]))
		if len(flight)-off-5 < n {
			return 0, nil, 0, 0, false
		}
		msg = append(msg, flight[off+5:off+5+n]...)
		off += 5 + n
		nrec++
		if len(msg) >= 4 {
			want := 4 + (int(msg[1])<<16 | int(msg[2])<<8 | int(msg[3]))
			if len(msg) >= want {
				return recVers, msg[:want], nrec, off, true
			}
		}
	}
}

type rd struct {
	b  []byte
	ok bool
}

func (r *rd) take(n int) []byte {
	if !r.ok || n < 0 || len(r.b) < n {
		r.ok = false
		return nil
	}
	out := r.b[:n]
	r.b = r.b[n:]
	return out
}
func (r *rd) u8() int {
	b := r.take(1)
	if b == nil {
		return 0
	}
	return int(b[0])
}
func (r *rd) u16() int {
	b := r.take(2)
	if b == nil {
		return 0
	}
	return int(b[0])<<8 | int(b[1])
}

// parseHello decodes the structure of a ClientHello message (with handshake header).
func parseHello(msg []byte) (*hello, bool) {
	r := &rd{b: msg, ok: true}
	h := &hello{}
	hdr := r.take(4)
	if hdr == nil {
		return nil, false
	}
	h.Type = hdr[0]
	h.Legacy = uint16(r.u16())
	h.Random = append([]byte(nil), r.take(32)...)
	h.SID = append([]byte(nil), r.take(r.u8())...)
	cs := r.take(r.u16())
	if !r.ok || len(cs)%2 != 0 {
		return nil, false
	}
	for i := 0; i+1 < len(cs); i += 2 {
		h.Suites = append(h.Suites, binary.BigEndian.Uint16(cs[i:]))
	}
	h.Comp = append([]byte(nil), r.take(r.u8())...)
	if !r.ok {
		return nil, false
	}
	if len(r.b) == 0 {
		return h, true
	}
	h.HasExt = true
	eb := r.take(r.u16())
	if !r.ok || len(r.b) != 0 {
		return nil, false
	}
	er := &rd{b: eb, ok: true}
	for len(er.b) > 0 {
		t := er.u16()
		d := er.take(er.u16())
		if !er.ok {
			return nil, false
		}
		h.Exts = append(h.Exts, ext{T: uint16(t), D: append([]byte(nil), d...)})
	}
	return h, true
}

func put16(b []byte, v int) []byte { return append(b, byte(v>>8), byte(v)) }

func (h *hello) marshal() []byte {
	var body []byte
	body = put16(body, int(h.Legacy))
	body = append(body, h.Random...)
	body = append(body, byte(len(h.SID)))
	body = append(body, h.SID...)
	body = put16(body, 2*len(h.Suites))
	for _, s := range h.Suites {
		body = put16(body, int(s))
	}
	body = append(body, byte(len(h.Comp)))
	body = append(body, h.Comp...)
	if h.HasExt {
		var eb []byte
		for _, e := range h.Exts {
			eb = put16(eb, int(e.T))
			eb = put16(eb, len(e.D))
			eb = append(eb, e.D...)
		}
		body = put16(body, len(eb))
		body = append(body, eb...)
	}
	msg := []byte{h.Type, byte(len(body) >> 16), byte(len(body) >> 8), byte(len(body))}
	return append(msg, body...)
}

func (h *hello) clone() *hello {
	c := *h
	c.Random = append([]byte(nil), h.Random...)
	c.SID = append([]byte(nil), h.SID...)
	c.Suites = append([]uint16(nil), h.Suites...)
	c.Comp = append([]byte(nil), h.Comp...)
	c.Exts = make([]ext, len(h.Exts))
	for i, e := range h.Exts {
		c.Exts[i] = ext{T: e.T, D: append([]byte(nil), e.D...)}
	}
	return &c
}

func (h *hello) find(t uint16) int {
	for i, e := range h.Exts {
		if e.T == t {
			return i
		}
	}
	return -1
}

func (h *hello) remove(t uint16) bool {
	i := h.find(t)
	if i < 0 {
		return false
	}
	h.Exts = append(h.Exts[:i], h.Exts[i+1:]...)
	return true
}

// insert puts e at a random position that keeps pre_shared_key (41), if present, last.
func (h *hello) insert(r *rand.Rand, e ext) {
	h.HasExt = true
	n := len(h.Exts)
	if h.find(41) == n-1 && n > 0 {
		n--
	}
	p := r.Intn(n + 1)
	h.Exts = append(h.Exts, ext{})
	copy(h.Exts[p+1:], h.Exts[p:])
	h.Exts[p] = e
}

// set replaces the extension of e's type or inserts it.
func (h *hello) set(r *rand.Rand, e ext) {
	if i := h.find(e.T); i >= 0 {
		h.Exts[i] = e
		return
	}
	h.insert(r, e)
}

// records frames msg into TLS handshake records; cuts are the fragment sizes of all but the last fragment. Fragments
// larger than 2^14 bytes are further divided, so every record is legal.
func records(msg []byte, recVers uint16, cuts []int) []byte {
	var out []byte
	emit := func(p []byte) {
		for len(p) > 16384 {
			out = append(out, 0x16, byte(recVers>>8), byte(recVers))
			out = put16(out, 16384)
			out = append(out, p[:16384]...)
			p = p[16384:]
		}
		out = append(out, 0x16, byte(recVers>>8), byte(recVers))
		out = put16(out, len(p))
		out = append(out, p...)
	}
	for _, c := range cuts {
		if c <= 0 || c >= len(msg) {
			continue
		}
		emit(msg[:c])
		msg = msg[c:]
	}
	emit(msg)
	return out
}

type sniEntry struct {
	Typ  byte
	Name []byte
}

func sniExt(entries []sniEntry, trailing []byte) ext {
	var list []byte
	for _, e := range entries {
		list = append(list, e.Typ)
		list = put16(list, len(e.Name))
		list = append(list, e.Name...)
	}
	d := put16(nil, len(list))
	d = append(d, list...)
	d = append(d, trailing...)
	return ext{T: 0, D: d}
}

func alpnExt(protos [][]byte) ext {
	var list []byte
	for _, p := range protos {
		list = append(list, byte(len(p)))
		list = append(list, p...)
	}
	d := put16(nil, len(list))
	return ext{T: 16, D: append(d, list...)}
}

func versionsExt(vs []uint16) ext {
	d := []byte{byte(2 * len(vs))}
	for _, v := range vs {
		d = put16(d, int(v))
	}
	return ext{T: 43, D: d}
}

func u16ListExt(t uint16, vs []uint16) ext {
	d := put16(nil, 2*len(vs))
	for _, v := range vs {
		d = put16(d, int(v))
	}
	return ext{T: t, D: d}
}

func u16List(d []byte) ([]uint16, bool) {
	if len(d) < 2 || int(d[0])<<8|int(d[1]) != len(d)-2 || len(d)%2 != 0 {
		return nil, false
	}
	var out []uint16
	for i := 2; i+1 < len(d); i += 2 {
		out = append(out, binary.BigEndian.Uint16(d[i:]))
	}
	return out, true
}

func grease(r *rand.Rand) uint16 {
	k := uint16(r.Intn(16))
	return k<<12 | 0x0a00 | k<<4 | 0x0a
}

// presence is the bitmask of "interesting" extensions present in a hello (part of the distinct signature).
func (h *hello) presence() uint32 {
	var m uint32
	bits := map[uint16]uint{0: 0, 16: 1, 43: 2, 10: 3, 11: 4, 13: 5, 41: 6, 35: 7, 51: 8, 5: 9, 18: 10, 23: 11, 0xff01: 12, 45: 13, 0xfe0d: 14, 50: 15}
	for _, e := range h.Exts {
		if b, ok := bits[e.T]; ok {
			m |= 1 << b
			if e.T == 35 && len(e.D) > 0 {
				m |= 1 << 16
			}
		} else {
			m |= 1 << 17
		}
	}
	if !h.HasExt {
		m |= 1 << 18
	}
	return m
}
