package c07

// Client side: generated tls.Config values and the first flight crypto/tls' client emits for them.

import (
	"bytes"
	"crypto/rand"
	"crypto/rsa"
	"crypto/tls"
	"crypto/x509"
	"crypto/x509/pkix"
	"errors"
	"fmt"
	"io"
	"math/big"
	mrand "math/rand"
	"net"
	"strconv"
	"strings"
	"sync"
	"time"

	"verifharness/tlsutil"
)

// Spec is a JSON-able description of one generated client configuration.
type Spec struct {
	ServerName string   `json:"server_name"`
	SNIKind    string   `json:"sni_kind"`
	NextProtos []string `json:"-"`
	// NextProtosQ is NextProtos Go-quoted (they may hold arbitrary bytes)
	NextProtosQ []string `json:"next_protos_quoted,omitempty"`
	ALPNKind    string   `json:"alpn_kind"`
	Min         uint16   `json:"min"`
	Max         uint16   `json:"max"`
	Suites      []uint16 `json:"suites,omitempty"`
	SuitesKind  string   `json:"suites_kind"`
	Curves      []uint16 `json:"curves,omitempty"`
	CurvesKind  string   `json:"curves_kind"`
	Resume      bool     `json:"resume,omitempty"`
	NoTickets   bool     `json:"no_tickets,omitempty"`
	ECH         bool     `json:"ech,omitempty"`
}

func (s *Spec) class() string {
	return fmt.Sprintf("sni=%s alpn=%s v=%04x-%04x cs=%s curves=%s resume=%v notickets=%v ech=%v", s.SNIKind, s.ALPNKind, s.Min, s.Max, s.SuitesKind, s.CurvesKind, s.Resume, s.NoTickets, s.ECH)
}

var labelAlpha = "abcdefghijklmnopqrstuvwxyz0123456789"

func randLabel(r *mrand.Rand, n int) string {
	b := make([]byte, n)
	for i := range b {
		b[i] = labelAlpha[r.Intn(len(labelAlpha))]
	}
	return string(b)
}

func longName(r *mrand.Rand, total int) string {
	// labels of at most 63 bytes joined by dots, exactly total bytes
	var parts []string
	left := total
	for left > 0 {
		n := 63
		if left <= 63 {
			n = left
		} else if left == 64 {
			n = 62 // leave room for ".x"
		}
		parts = append(parts, randLabel(r, n))
		left -= n
		if left > 0 {
			left-- // the dot
		}
	}
	return strings.Join(parts, ".")
}

var allSuites = func() []uint16 {
	var out []uint16
	for _, s := range tls.CipherSuites() {
		out = append(out, s.ID)
	}
	for _, s := range tls.InsecureCipherSuites() {
		out = append(out, s.ID)
	}
	return out
}()

var allCurves = []uint16{uint16(tls.X25519), uint16(tls.CurveP256), uint16(tls.CurveP384), uint16(tls.CurveP521), 0x6399}

var protoPool = []string{"h2", "http/1.1", "h3", "acme-tls/1", "spdy/3.1", "dot", "imap", "postgresql", "stun.turn", "webrtc", "c-webrtc", "ftp", "managesieve", "coap", "xmpp-client", "mqtt", "h2c", "http/1.0", "irc", "nntp"}

func genSpec(r *mrand.Rand, i int) *Spec {
	s := &Spec{}
	switch k := r.Intn(16); k {
	case 0:
		s.SNIKind, s.ServerName = "short", randLabel(r, 1)+"."+randLabel(r, 2)
	case 1, 2, 3:
		s.SNIKind, s.ServerName = "typical", []string{"www", "api", "mail", "a.b.c", "xn--80ak6aa92e"}[r.Intn(5)]+"."+randLabel(r, 3+r.Intn(10))+"."+[]string{"com", "net", "example", "io", "co.uk"}[r.Intn(5)]
	case 4:
		s.SNIKind, s.ServerName = "long253", longName(r, 253)
	case 5:
		s.SNIKind, s.ServerName = "long", longName(r, 64+r.Intn(189))
	case 6:
		s.SNIKind, s.ServerName = "punycode", "xn--bcher-kva."+randLabel(r, 4)+".xn--p1ai"
	case 7:
		s.SNIKind, s.ServerName = "trailing-dot", "host."+randLabel(r, 5)+".example."
	case 8:
		s.SNIKind, s.ServerName = "ipv4-literal", fmt.Sprintf("192.0.2.%d", r.Intn(256))
	case 9:
		s.SNIKind, s.ServerName = "ipv6-literal", []string{"2001:db8::1", "[2001:db8::2]", "::1", "fe80::1%eth0"}[r.Intn(4)]
	case 10:
		s.SNIKind, s.ServerName = "mixed-case", "WWW."+strings.ToUpper(randLabel(r, 4))+"."+randLabel(r, 3)+".Example.COM"
	case 11:
		s.SNIKind, s.ServerName = "underscore", "_dmarc._tcp."+randLabel(r, 6)+".example.org"
	case 12:
		s.SNIKind, s.ServerName = "single-label", []string{"localhost", "intranet", randLabel(r, 12)}[r.Intn(3)]
	case 13:
		s.SNIKind, s.ServerName = "utf8", "bücher."+randLabel(r, 4)+".рф"
	case 14:
		s.SNIKind, s.ServerName = "empty", ""
	case 15:
		s.SNIKind, s.ServerName = "odd", []string{"*.example.com", "a..b.example", "-leading.example", "1.2.3.4.5", "host:443", "a b.example", "many." + strings.Repeat("x.", 60) + "example"}[r.Intn(7)]
	}
	// ALPN
	switch k := r.Intn(12); {
	case k < 3:
		s.ALPNKind = "none"
	case k < 5:
		s.ALPNKind = "web"
		s.NextProtos = [][]string{{"h2", "http/1.1"}, {"http/1.1"}, {"h2"}, {"h3"}, {"acme-tls/1"}}[r.Intn(5)]
	case k < 9:
		n := 1 + r.Intn(8)
		s.ALPNKind = fmt.Sprintf("pool%d", n)
		for j := 0; j < n; j++ {
			s.NextProtos = append(s.NextProtos, protoPool[r.Intn(len(protoPool))])
		}
	case k < 10:
		n := 1 + r.Intn(8)
		s.ALPNKind = fmt.Sprintf("binary%d", n)
		for j := 0; j < n; j++ {
			b := make([]byte, 1+r.Intn(40))
			r.Read(b)
			s.NextProtos = append(s.NextProtos, string(b))
		}
	case k < 11:
		n := 1 + r.Intn(8)
		s.ALPNKind = fmt.Sprintf("max255x%d", n)
		for j := 0; j < n; j++ {
			if r.Intn(2) == 0 {
				s.NextProtos = append(s.NextProtos, strings.Repeat(string(rune('a'+r.Intn(26))), 255))
			} else {
				s.NextProtos = append(s.NextProtos, randLabel(r, 1+r.Intn(3)))
			}
		}
	default:
		if r.Intn(4) == 0 {
			// more than 16 KiB of ALPN: crypto/tls itself spreads the hello over two records
			n := 66 + r.Intn(30)
			s.ALPNKind = "huge-multi-record"
			for j := 0; j < n; j++ {
				s.NextProtos = append(s.NextProtos, fmt.Sprintf("%03d", j)+strings.Repeat("p", 252))
			}
		} else {
			n := 9 + r.Intn(40)
			s.ALPNKind = "many"
			for j := 0; j < n; j++ {
				s.NextProtos = append(s.NextProtos, protoPool[r.Intn(len(protoPool))]+fmt.Sprint(j))
			}
		}
	}
	// versions
	vers := []uint16{tls.VersionTLS10, tls.VersionTLS11, tls.VersionTLS12, tls.VersionTLS13}
	switch k := r.Intn(10); {
	case k < 3:
		s.Min, s.Max = 0, 0
	case k < 4:
		s.Min, s.Max = 0, vers[2+r.Intn(2)]
	case k < 5:
		s.Min, s.Max = vers[r.Intn(4)], 0
	default:
		a, b := r.Intn(4), r.Intn(4)
		if a > b {
			a, b = b, a
		}
		s.Min, s.Max = vers[a], vers[b]
	}
	// cipher suites
	switch k := r.Intn(6); {
	case k < 3:
		s.SuitesKind = "default"
	case k < 4:
		s.SuitesKind = "one"
		s.Suites = []uint16{allSuites[r.Intn(len(allSuites))]}
	default:
		n := 2 + r.Intn(len(allSuites)-1)
		s.SuitesKind = fmt.Sprintf("subset%d", n/6)
		p := r.Perm(len(allSuites))
		for _, j := range p[:n] {
			s.Suites = append(s.Suites, allSuites[j])
		}
	}
	// curves
	switch k := r.Intn(6); {
	case k < 3:
		s.CurvesKind = "default"
	case k < 4:
		s.CurvesKind = "one"
		s.Curves = []uint16{allCurves[r.Intn(len(allCurves))]}
	default:
		n := 2 + r.Intn(len(allCurves)-1)
		s.CurvesKind = fmt.Sprintf("subset%d", n)
		p := r.Perm(len(allCurves))
		for _, j := range p[:n] {
			s.Curves = append(s.Curves, allCurves[j])
		}
	}
	for _, p := range s.NextProtos {
		s.NextProtosQ = append(s.NextProtosQ, strconv.Quote(p))
	}
	s.NoTickets = r.Intn(10) == 0
	s.Resume = !s.NoTickets && r.Intn(3) == 0
	if r.Intn(12) == 0 && (s.Max == 0 || s.Max == tls.VersionTLS13) && !s.Resume {
		s.ECH = true
		s.Min = []uint16{0, tls.VersionTLS13}[r.Intn(2)]
	}
	return s
}

// detRand is a deterministic byte stream for tls.Config.Rand.
type detRand struct{ r *mrand.Rand }

func (d detRand) Read(p []byte) (int, error) { return d.r.Read(p) }

func (s *Spec) config(r *mrand.Rand) *tls.Config {
	cfg := &tls.Config{
		ServerName:             s.ServerName,
		InsecureSkipVerify:     true,
		NextProtos:             s.NextProtos,
		MinVersion:             s.Min,
		MaxVersion:             s.Max,
		CipherSuites:           s.Suites,
		SessionTicketsDisabled: s.NoTickets,
		Rand:                   detRand{r},
	}
	for _, c := range s.Curves {
		cfg.CurvePreferences = append(cfg.CurvePreferences, tls.CurveID(c))
	}
	if s.Resume {
		cfg.ClientSessionCache = tls.NewLRUClientSessionCache(4)
	}
	if s.ECH {
		setECH(cfg, echConfigList(r, "public."+randLabel(r, 5)+".example"))
	}
	return cfg
}

func echConfigList(r *mrand.Rand, publicName string) []byte {
	pk := make([]byte, 32)
	r.Read(pk)
	var c []byte
	c = append(c, byte(r.Intn(256))) // config id
	c = put16(c, 0x0020)             // DHKEM(X25519, HKDF-SHA256)
	c = put16(c, len(pk))
	c = append(c, pk...)
	c = put16(c, 4)
	c = put16(c, 0x0001) // HKDF-SHA256
	c = put16(c, 0x0001) // AES-128-GCM
	c = append(c, byte(r.Intn(64)))
	c = append(c, byte(len(publicName)))
	c = append(c, publicName...)
	c = put16(c, 0)
	var ec []byte
	ec = put16(ec, 0xfe0d)
	ec = put16(ec, len(c))
	ec = append(ec, c...)
	out := put16(nil, len(ec))
	return append(out, ec...)
}

type dummyAddr string

func (a dummyAddr) Network() string { return "verif" }
func (a dummyAddr) String() string  { return string(a) }

// recConn records what the client writes until its first Read, then reports EOF.
type recConn struct {
	written []byte
	flight  []byte
	read    bool
}

func (c *recConn) Read(p []byte) (int, error) {
	if !c.read {
		c.read = true
		c.flight = append([]byte(nil), c.written...)
	}
	return 0, io.EOF
}
func (c *recConn) Write(p []byte) (int, error) {
	c.written = append(c.written, p...)
	return len(p), nil
}
func (c *recConn) Close() error                       { return nil }
func (c *recConn) LocalAddr() net.Addr                { return dummyAddr("client") }
func (c *recConn) RemoteAddr() net.Addr               { return dummyAddr("server") }
func (c *recConn) SetDeadline(t time.Time) error      { return nil }
func (c *recConn) SetReadDeadline(t time.Time) error  { return nil }
func (c *recConn) SetWriteDeadline(t time.Time) error { return nil }

// captureFlight runs crypto/tls' client handshake against a recording conn and returns everything the client wrote
// before it first waited for the server: the complete first flight.
func captureFlight(cfg *tls.Config) ([]byte, error) {
	rc := &recConn{}
	err := tls.Client(rc, cfg).Handshake()
	if !rc.read {
		if err == nil {
			err = errors.New("client never read")
		}
		return nil, err
	}
	return rc.flight, nil
}

// ---------------------------------------------------------------------------
// In-process TLS server used only to fill client session caches (resumption hellos).

var (
	srvOnce sync.Once
	srvCfg  *tls.Config
	srvErr  error
)

func rsaCert() (tls.Certificate, error) {
	key, err := rsa.GenerateKey(rand.Reader, 2048)
	if err != nil {
		return tls.Certificate{}, err
	}
	tmpl := &x509.Certificate{SerialNumber: big.NewInt(7), Subject: pkix.Name{CommonName: "verif-rsa"},
		NotBefore: time.Now().Add(-time.Hour), NotAfter: time.Now().Add(240 * time.Hour),
		KeyUsage: x509.KeyUsageDigitalSignature | x509.KeyUsageKeyEncipherment, ExtKeyUsage: []x509.ExtKeyUsage{x509.ExtKeyUsageServerAuth}}
	der, err := x509.CreateCertificate(rand.Reader, tmpl, tmpl, &key.PublicKey, key)
	if err != nil {
		return tls.Certificate{}, err
	}
	return tls.Certificate{Certificate: [][]byte{der}, PrivateKey: key}, nil
}

func fillServer() (*tls.Config, error) {
	srvOnce.Do(func() {
		ec, err := tlsutil.NewCert("verif.example")
		if err != nil {
			srvErr = err
			return
		}
		rc, err := rsaCert()
		if err != nil {
			srvErr = err
			return
		}
		srvCfg = &tls.Config{
			Certificates: []tls.Certificate{ec.TLS, rc},
			MinVersion:   tls.VersionTLS10,
			CipherSuites: allSuites,
			GetCertificate: func(chi *tls.ClientHelloInfo) (*tls.Certificate, error) {
				if chi.SupportsCertificate(&ec.TLS) == nil {
					return &ec.TLS, nil
				}
				return &rc, nil
			},
		}
		// no NextProtos: the fill server ignores the client's ALPN offer instead of failing on unknown protocols
	})
	return srvCfg, srvErr
}

// fillCache performs one full handshake with cfg against the in-process server so that cfg.ClientSessionCache holds
// a session (TLS 1.3: the client reads one application byte so that NewSessionTicket is processed).
func fillCache(cfg *tls.Config) error {
	sc, err := fillServer()
	if err != nil {
		return err
	}
	cp, sp := net.Pipe()
	defer cp.Close()
	defer sp.Close()
	dl := time.Now().Add(10 * time.Second)
	_ = cp.SetDeadline(dl)
	_ = sp.SetDeadline(dl)
	done := make(chan error, 1)
	go func() {
		srv := tls.Server(sp, sc)
		if err := srv.Handshake(); err != nil {
			sp.Close()
			done <- err
			return
		}
		_, err := srv.Write([]byte{1})
		done <- err
	}()
	cl := tls.Client(cp, cfg)
	if err := cl.Handshake(); err != nil {
		cp.Close()
		<-done
		return err
	}
	b := make([]byte, 1)
	if _, err := cl.Read(b); err != nil {
		cp.Close()
		<-done
		return err
	}
	return <-done
}

// flightFor produces the first flight for a spec (after filling the session cache when resumption is requested).
func flightFor(s *Spec, r *mrand.Rand) (flight []byte, resumed bool, fillErr, err error) {
	cfg := s.config(r)
	if s.Resume {
		// on failure there is no session to resume (e.g. no mutually supported parameters): still a plain hello
		fillErr = fillCache(cfg)
	}
	flight, err = captureFlight(cfg)
	if err != nil {
		return nil, false, fillErr, err
	}
	if s.Resume {
		if _, msg, _, _, ok := flightMessage(flight); ok {
			if h, ok := parseHello(msg); ok {
				if i := h.find(41); i >= 0 {
					resumed = true
				}
				if i := h.find(35); i >= 0 && len(h.Exts[i].D) > 0 {
					resumed = true
				}
			}
		}
	}
	return flight, resumed, fillErr, nil
}

var _ = bytes.Equal
