// Package c07 is the differential monitor for the layer4 TLS matcher: ClientHellos emitted by crypto/tls' client for
// generated configurations (and length-consistent byte-level mutations of them) are evaluated by the real matcher
// (layer4.matchers.tls, loaded through the module loader with a recording sub-matcher) and by crypto/tls' server
// (the ClientHelloInfo handed to GetConfigForClient). Fields, placeholders, sni/alpn routing verdicts, the
// non-handshake rule and the every-proper-prefix-needs-more rule are compared.
package c07

import (
	"bytes"
	"crypto/tls"
	"encoding/hex"
	"encoding/json"
	"errors"
	"fmt"
	"io"
	"math/rand"
	"net"
	"runtime/debug"
	"sort"
	"strconv"
	"strings"
	"time"

	"github.com/caddyserver/caddy/v2"
	"github.com/caddyserver/caddy/v2/modules/caddytls"

	"github.com/mholt/caddy-l4/layer4"

	"verifharness/fw"
	"verifharness/hmods"
	"verifharness/mt"
)

func init() {
	fw.Register(&fw.Prop{
		ID: "C07",
		Rule: "nested sessions: tls matcher -> tls handler -> tls matchers on the decrypted stream (an inner ClientHello with another name, or no TLS): route and {l4.tls.server_name} must come from the inner bytes. " +
			"case = one first flight: the ClientHello crypto/tls' client emits for a generated tls.Config (server name kinds, 0..95 ALPN protocols incl. 255-byte " +
			"ones and >16 KiB lists, Min/MaxVersion TLS1.0..1.3, cipher-suite and curve subsets, session resumption via a filled ClientSessionCache, ECH outer hellos), or one " +
			"length-consistent mutation of it (14 classes); oracle: (a) the matcher matches and the ClientHelloInfo it hands to sub-matchers equals field by field the one " +
			"crypto/tls' server hands to GetConfigForClient, placeholders equal the reference server name / the hello's legacy_version; (b) sni and alpn sub-matcher verdicts equal " +
			"the same matcher modules evaluated on the reference ClientHelloInfo; (c) inputs whose first byte is not 0x16 never match; (d) every proper prefix asks for more data. " +
			"non-trivial = crypto/tls' server reached GetConfigForClient for the flight; distinct = hash(config class, mutation class/sub-variant, extension-presence mask). (e) two tls matchers (sni, alpn) as the matcher sets of one not matcher: verdict on the complete flight = negation of the reference sub-matchers. (f) the tls matcher without sub-matchers matches every flight the reference accepts, sets {l4.tls.server_name} to the reference's server name and asks for more on proper prefixes. nested sessions also send the outer hello itself, renamed to an inner name of the same length, inside the tunnel.",
		Assumptions: []string{
			"crypto/tls (go1.23.5) server is the reference: ClientHelloInfo as passed to GetConfigForClient, without any normalisation by the monitor",
			"mutated flights that crypto/tls rejects before GetConfigForClient are counted (reference_rejected_*), not judged, whatever the matcher says",
			"the matcher is evaluated directly on a connection preloaded with the bytes (no prefetch limit of the layer4 server applies)",
		},
		MinEvals: 1000,
		Plan: func(tier string) []fw.ChildSpec {
			if tier == "thorough" {
				return []fw.ChildSpec{{Name: "diff", Mode: "diff", Shards: 16, Timeout: 60 * time.Minute},
					{Name: "nested", Mode: "nested", Shards: 2, Timeout: 30 * time.Minute}}
			}
			return []fw.ChildSpec{{Name: "diff", Mode: "diff", Shards: 8, Timeout: 10 * time.Minute},
				{Name: "nested", Mode: "nested", Shards: 1, Timeout: 10 * time.Minute}}
		},
		Run:    run,
		Replay: replay,
	})
}

// ---------------------------------------------------------------------------
// Reference: crypto/tls server

type roConn struct{ r *bytes.Reader }

func (c *roConn) Read(p []byte) (int, error)         { return c.r.Read(p) }
func (c *roConn) Write(p []byte) (int, error)        { return len(p), nil }
func (c *roConn) Close() error                       { return nil }
func (c *roConn) LocalAddr() net.Addr                { return dummyAddr("server") }
func (c *roConn) RemoteAddr() net.Addr               { return dummyAddr("client") }
func (c *roConn) SetDeadline(t time.Time) error      { return nil }
func (c *roConn) SetReadDeadline(t time.Time) error  { return nil }
func (c *roConn) SetWriteDeadline(t time.Time) error { return nil }

var errStop = errors.New("verif: stop after GetConfigForClient")

// reference feeds the flight to crypto/tls' server and returns the ClientHelloInfo it reports (nil if the server
// rejected the flight before GetConfigForClient) and the number of flight bytes the server had read by then.
func reference(flight []byte) (*tls.ClientHelloInfo, int, error) {
	var got *tls.ClientHelloInfo
	rd := bytes.NewReader(flight)
	consumed := 0
	cfg := &tls.Config{MinVersion: tls.VersionTLS10, GetConfigForClient: func(chi *tls.ClientHelloInfo) (*tls.Config, error) {
		got = chi
		consumed = len(flight) - rd.Len()
		return nil, errStop
	}}
	err := tls.Server(&roConn{r: rd}, cfg).Handshake()
	if got != nil {
		return got, consumed, nil
	}
	if err == nil {
		err = io.ErrUnexpectedEOF
	}
	return nil, 0, err
}

// ---------------------------------------------------------------------------
// Code under test

type env struct {
	c       *fw.Ctx
	capture *mt.Matcher
	plain   *mt.Matcher // the tls matcher without any handshake sub-matcher
	routes  map[string]*routeM
}

type routeM struct {
	fork   *mt.Matcher
	refs   []caddytls.ConnectionMatcher
	cancel func()
	err    error
}

func newEnv(c *fw.Ctx) (*env, error) {
	m, err := mt.Load("tls", `{"verif_capture":{}}`)
	if err != nil {
		return nil, err
	}
	return &env{c: c, capture: m, routes: map[string]*routeM{}}, nil
}

func (e *env) route(cfg string) *routeM {
	if rm := e.routes[cfg]; rm != nil {
		return rm
	}
	if len(e.routes) > 2000 {
		for k, rm := range e.routes {
			if rm.fork != nil {
				rm.fork.Close()
			}
			if rm.cancel != nil {
				rm.cancel()
			}
			delete(e.routes, k)
		}
	}
	rm := &routeM{}
	e.routes[cfg] = rm
	rm.fork, rm.err = mt.Load("tls", cfg)
	if rm.err != nil {
		return rm
	}
	var parts map[string]json.RawMessage
	if rm.err = json.Unmarshal([]byte(cfg), &parts); rm.err != nil {
		return rm
	}
	ctx, cancel := hmods.NewContext()
	rm.cancel = cancel
	names := make([]string, 0, len(parts))
	for k := range parts {
		names = append(names, k)
	}
	sort.Strings(names)
	for _, name := range names {
		mod, err := ctx.LoadModuleByID("tls.handshake_match."+name, parts[name])
		if err != nil {
			rm.err = err
			return rm
		}
		cm, ok := mod.(caddytls.ConnectionMatcher)
		if !ok {
			rm.err = fmt.Errorf("%s is not a ConnectionMatcher", name)
			return rm
		}
		rm.refs = append(rm.refs, cm)
	}
	return rm
}

type evalOut struct {
	v       mt.Verdict
	err     error
	panicAt string
	info    *Info
	sni     any
	ver     any
	sniStr  string
	verStr  string
}

func topRepoFrame(stack string) string {
	for _, ln := range strings.Split(stack, "\n") {
		if strings.HasPrefix(ln, "github.com/mholt/caddy-l4/") {
			if i := strings.LastIndex(ln, "("); i > 0 {
				ln = ln[:i]
			}
			return ln
		}
	}
	return "?"
}

func evalOn(m *mt.Matcher, in []byte) (out evalOut) {
	cx, _ := mt.NewConn(in, mt.Opts{})
	capReset()
	func() {
		defer func() {
			if r := recover(); r != nil {
				out.v = "panic"
				out.err = fmt.Errorf("%v", r)
				out.panicAt = topRepoFrame(string(debug.Stack()))
			}
		}()
		out.v, out.err = m.EvalOn(cx)
	}()
	out.info = capGet()
	if repl, ok := cx.Context.Value(layer4.ReplacerCtxKey).(*caddy.Replacer); ok {
		out.sni, _ = repl.Get("l4.tls.server_name")
		out.ver, _ = repl.Get("l4.tls.version")
		out.sniStr = repl.ReplaceAll("{l4.tls.server_name}", "")
		out.verStr = repl.ReplaceAll("{l4.tls.version}", "")
	}
	return out
}

// ---------------------------------------------------------------------------
// Witness

type Witness struct {
	Kind      string `json:"kind"` // fields, routing, prefix, nonhs
	Class     string `json:"class"`
	Sub       string `json:"sub,omitempty"`
	RecordHex string `json:"record_hex"`
	Matcher   string `json:"matcher_config"`
	PrefixLen int    `json:"prefix_len,omitempty"`
	Spec      *Spec  `json:"client_config,omitempty"`
	Ref       *Info  `json:"reference,omitempty"`
	Fork      *Info  `json:"matcher,omitempty"`
	Note      string `json:"note,omitempty"`
}

func errStr(err error) string {
	if err == nil {
		return ""
	}
	return err.Error()
}

func eqU16(a, b []uint16) bool {
	if len(a) != len(b) {
		return false
	}
	for i := range a {
		if a[i] != b[i] {
			return false
		}
	}
	return true
}

func eqStr(a, b []string) bool {
	if len(a) != len(b) {
		return false
	}
	for i := range a {
		if a[i] != b[i] {
			return false
		}
	}
	return true
}

func short(v any) string {
	s := fmt.Sprintf("%q", fmt.Sprint(v))
	if len(s) > 200 {
		s = s[:200] + "..."
	}
	return s
}

// origin names where a flight came from, for the signatures of the multi-record family.
func origin(tag string) string {
	if strings.HasPrefix(tag, "native") {
		return "as emitted by crypto/tls' client"
	}
	if strings.HasPrefix(tag, "split_record") {
		return "client hello re-framed into several records"
	}
	return "mutated >16 KiB client hello"
}

func recordSizes(flight []byte) []int {
	var out []int
	for off := 0; off+5 <= len(flight); {
		n := int(flight[off+3])<<8 | int(flight[off+4])
		out = append(out, n)
		off += 5 + n
	}
	return out
}

// ---------------------------------------------------------------------------
// Oracles

// checkFields is oracle (a). cls is the mutation class ("native" for unmodified flights), sub its sub-variant.
// It returns the reference info (nil if the reference rejected the flight).
func (e *env) checkFields(flight []byte, spec *Spec, cfgClass, cls, sub string) *tls.ClientHelloInfo {
	c := e.c
	tag := cls
	if sub != "" {
		tag = cls + "/" + sub
	}
	ref, refUsed, rerr := reference(flight)
	c.Journal("fields %s %s", tag, hex.EncodeToString(flight))
	out := evalOn(e.capture, flight)
	wit := func(note string) *Witness {
		w := &Witness{Kind: "fields", Class: cls, Sub: sub, RecordHex: hex.EncodeToString(flight), Matcher: `{"verif_capture":{}}`, Spec: spec, Fork: out.info, Note: note}
		if ref != nil {
			w.Ref = infoOf(ref)
		}
		return w
	}
	var pres uint32
	_, msg, nrec, _, okMsg := flightMessage(flight)
	if okMsg {
		if h, ok := parseHello(msg); ok {
			pres = h.presence()
		}
	}
	c.Case(fw.Hash(cfgClass, tag, pres, nrec), ref != nil, func() any { return wit("sample") })
	c.Obs("flights_evaluated", 1)
	c.Obs("flights_"+cls, 1)
	if out.v == "panic" {
		c.Violation("C07 crash panic in "+out.panicAt+" ("+tag+")", fmt.Sprintf("matcher panicked on a %s flight: %v", tag, out.err), wit(""))
		return ref
	}
	if ref == nil {
		c.Obs("reference_rejected_"+cls, 1)
		c.SetAdd("reference_rejected_variants", tag)
		if out.v == mt.Yes {
			c.Obs("matcher_matched_reference_rejected_"+cls, 1)
			c.SetAdd("matcher_matched_reference_rejected_variants", tag+": "+errStr(rerr))
		}
		return nil
	}
	c.Obs("hellos_compared", 1)
	c.Obs("hellos_compared_"+cls, 1)
	c.SetAdd("compared_variants", tag)
	if nrec > 1 {
		c.Obs("hellos_compared_multi_record", 1)
	}
	// per-version counters
	maxv := uint16(0)
	for _, v := range ref.SupportedVersions {
		if v > maxv && v&0x0f0f != 0x0a0a {
			maxv = v
		}
	}
	c.Obs(fmt.Sprintf("hellos_max_version_%04x", maxv), 1)
	if out.v != mt.Yes {
		c.Violation("C07 complete hello not matched: "+tag, fmt.Sprintf("crypto/tls' server accepts the flight (server name %q) but the tls matcher answered %s %s", ref.ServerName, out.v, errStr(out.err)), wit(""))
		return ref
	}
	if out.info == nil {
		c.Violation("C07 sub-matcher not consulted: "+tag, "the tls matcher matched without calling its handshake sub-matcher", wit(""))
		return ref
	}
	ri := infoOf(ref)
	fi := out.info
	var multiDiffs []string
	diff := func(field string, rv, fv any) {
		if nrec > 1 {
			// one defect family: the hello spans several records and only the first one is parsed
			multiDiffs = append(multiDiffs, fmt.Sprintf("%s: reference %s, matcher %s", field, short(rv), short(fv)))
			return
		}
		c.Violation(fmt.Sprintf("C07 field %s differs: %s", field, tag),
			fmt.Sprintf("%s flight (%d record(s), reference consumed %d of %d bytes): crypto/tls' server reports %s=%s, the tls matcher's parser reports %s", tag, nrec, refUsed, len(flight), field, short(rv), short(fv)), wit(field))
	}
	defer func() {
		if len(multiDiffs) > 0 {
			c.Obs("multi_record_hellos_misparsed", 1)
			c.Violation("C07 multi-record hello ("+origin(cls)+"): fields/placeholders taken from the first record only",
				fmt.Sprintf("%s flight whose ClientHello spans %d TLS records (record payload sizes %v, %d bytes); crypto/tls' server reassembles it, the tls matcher parses the first record alone: %s",
					tag, nrec, recordSizes(flight), len(flight), strings.Join(multiDiffs, "; ")), wit(strings.Join(multiDiffs, "; ")))
		}
	}()
	if ri.ServerName != fi.ServerName {
		diff("ServerName", ri.ServerName, fi.ServerName)
	}
	if !eqStr(ri.SupportedProtos, fi.SupportedProtos) {
		diff("SupportedProtos", ri.SupportedProtos, fi.SupportedProtos)
	}
	if !eqU16(ri.SupportedVersions, fi.SupportedVersions) {
		diff("SupportedVersions", ri.SupportedVersions, fi.SupportedVersions)
	}
	if !eqU16(ri.CipherSuites, fi.CipherSuites) {
		diff("CipherSuites", ri.CipherSuites, fi.CipherSuites)
	}
	if !eqU16(ri.SupportedCurves, fi.SupportedCurves) {
		diff("SupportedCurves", ri.SupportedCurves, fi.SupportedCurves)
	}
	if !bytes.Equal(ri.SupportedPoints, fi.SupportedPoints) {
		diff("SupportedPoints", ri.SupportedPoints, fi.SupportedPoints)
	}
	if !eqU16(ri.SignatureSchemes, fi.SignatureSchemes) {
		diff("SignatureSchemes", ri.SignatureSchemes, fi.SignatureSchemes)
	}
	// placeholders
	if s, ok := out.sni.(string); !ok || s != ri.ServerName || out.sniStr != ri.ServerName {
		if nrec > 1 {
			multiDiffs = append(multiDiffs, fmt.Sprintf("{l4.tls.server_name}: reference %q, placeholder %q", ri.ServerName, out.sniStr))
		} else {
			c.Violation("C07 placeholder l4.tls.server_name differs: "+tag,
				fmt.Sprintf("crypto/tls' server reports server name %q, {l4.tls.server_name} is %v / expands to %q", ri.ServerName, out.sni, out.sniStr), wit("l4.tls.server_name"))
		}
	}
	if okMsg && len(msg) >= 6 {
		legacy := uint16(msg[4])<<8 | uint16(msg[5])
		c.Obs(fmt.Sprintf("legacy_version_%04x", legacy), 1)
		n, perr := strconv.ParseUint(out.verStr, 0, 32)
		if v, ok := out.ver.(uint16); (!ok || v != legacy || perr != nil || n != uint64(legacy)) && nrec > 1 {
			multiDiffs = append(multiDiffs, fmt.Sprintf("{l4.tls.version}: legacy_version %d, placeholder %q", legacy, out.verStr))
		} else if !ok || v != legacy || perr != nil || n != uint64(legacy) {
			c.Violation("C07 placeholder l4.tls.version differs: "+tag,
				fmt.Sprintf("legacy_version of the hello is 0x%04x (%d), {l4.tls.version} is %v / expands to %q", legacy, legacy, out.ver, out.verStr), wit("l4.tls.version"))
		}
	}
	if len(ri.SupportedProtos) > 0 {
		c.Obs("hellos_with_alpn", 1)
	}
	if ri.ServerName != "" {
		c.Obs("hellos_with_sni", 1)
	}
	return ref
}

// checkRouting is oracle (b).
func (e *env) checkRouting(flight []byte, ref *tls.ClientHelloInfo, cfg, kind, tag string, spec *Spec) {
	c := e.c
	_, _, nrec, _, _ := flightMessage(flight)
	rm := e.route(cfg)
	if rm.err != nil {
		c.Violation("C07 generated matcher configuration rejected", rm.err.Error(), &Witness{Kind: "routing", Matcher: cfg})
		return
	}
	want := true
	for _, m := range rm.refs {
		if !m.Match(ref) {
			want = false
			break
		}
	}
	c.Journal("routing %s %s %s", tag, cfg, hex.EncodeToString(flight))
	out := evalOn(rm.fork, flight)
	c.Obs(kind+"_verdicts_compared", 1)
	if want {
		c.Obs(kind+"_reference_yes", 1)
	} else {
		c.Obs(kind+"_reference_no", 1)
	}
	c.Evals(1)
	if out.v == "panic" {
		c.Violation("C07 crash panic in "+out.panicAt+" (routing "+tag+")", fmt.Sprintf("matcher panicked: %v", out.err), &Witness{Kind: "routing", Class: tag, RecordHex: hex.EncodeToString(flight), Matcher: cfg, Spec: spec})
		return
	}
	// reload law (a sample): the same matcher configuration is provisioned again while the first instance exists, the
	// first one is released; the new instance decides like the reference, and the released one - connections accepted
	// before the reload still reach it - does not start to match hellos that its sub-matchers reject
	if fw.Hash("c07reload", cfg, len(flight))%16 == 0 {
		vNew, vOld := out.v, out.v
		func() {
			defer func() { _ = recover() }()
			a, err := mt.Load("tls", cfg)
			if err != nil {
				return
			}
			b, err := mt.Load("tls", cfg)
			if err != nil {
				a.Close()
				return
			}
			a.Close()
			vNew = evalOn(b, flight).v
			vOld = evalOn(a, flight).v
			b.Close()
		}()
		c.Obs("reload_evaluations", 1)
		if (vNew == mt.Yes) != want && vNew != "panic" {
			c.Violation("C07 "+kind+" routing verdict differs after the configuration was provisioned again and the earlier instance released: "+origin(tag),
				fmt.Sprintf("matcher config %s: the reference sub-matchers say %v, an instance provisioned beside an earlier one with the same configuration (released since) says %s", cfg, want, vNew),
				&Witness{Kind: "routing", Class: tag, RecordHex: hex.EncodeToString(flight), Matcher: cfg, Spec: spec, Ref: infoOf(ref), Note: "reload"})
		}
		if vOld == mt.Yes && !want {
			c.Violation("C07 "+kind+" routing: a released tls matcher matches a hello that its sub-matchers reject: "+origin(tag),
				fmt.Sprintf("matcher config %s: the reference sub-matchers say no; the instance says %s after its configuration was unloaded", cfg, vOld),
				&Witness{Kind: "routing", Class: tag, RecordHex: hex.EncodeToString(flight), Matcher: cfg, Spec: spec, Ref: infoOf(ref), Note: "released"})
		}
	}
	if (out.v == mt.Yes) != want || (out.v != mt.Yes && out.v != mt.No) {
		sig := fmt.Sprintf("C07 %s routing verdict differs: %s", kind, tag)
		if nrec > 1 {
			sig = "C07 multi-record hello (" + origin(tag) + "): sni/alpn routing verdict differs"
		}
		c.Violation(sig,
			fmt.Sprintf("matcher config %s: evaluated on crypto/tls' ClientHelloInfo (server name %q, protos %s) the sub-matchers say %v; the tls matcher on the flight says %s %s", cfg, ref.ServerName, short(ref.SupportedProtos), want, out.v, errStr(out.err)),
			&Witness{Kind: "routing", Class: tag, RecordHex: hex.EncodeToString(flight), Matcher: cfg, Spec: spec, Ref: infoOf(ref)})
	}
}

// checkPlain: the tls matcher without sub-matchers ("match every TLS connection", typically in front of a proxy to
// {l4.tls.server_name}) reads the hello all the same: it matches the complete flight that the reference accepts, sets the
// server-name placeholder to what crypto/tls reports, and asks for more data on every proper prefix in lens.
func (e *env) checkPlain(flight []byte, lens []int, tag string, spec *Spec) {
	c := e.c
	if e.plain == nil {
		m, err := mt.Load("tls", `{}`)
		if err != nil {
			return
		}
		e.plain = m
	}
	ref, _, _ := reference(flight)
	if ref == nil {
		return
	}
	_, _, nrec, _, _ := flightMessage(flight)
	wit := func(n int) *Witness {
		return &Witness{Kind: "plain", Class: tag, RecordHex: hex.EncodeToString(flight), PrefixLen: n, Matcher: `{}`, Spec: spec, Ref: infoOf(ref)}
	}
	multi := ""
	if nrec > 1 {
		multi = " [hello in several records]"
	}
	out := evalOn(e.plain, flight)
	c.Obs("plain_matcher_flights", 1)
	c.Evals(1)
	switch {
	case out.v == "panic":
		c.Violation("C07 crash panic in "+out.panicAt+" (plain tls matcher, "+tag+")", fmt.Sprintf("matcher panicked: %v", out.err), wit(0))
		return
	case out.v != mt.Yes:
		c.Violation("C07 tls matcher without sub-matchers rejects a hello that crypto/tls accepts"+multi+": "+origin(tag), fmt.Sprintf("verdict %s %s on the complete flight", out.v, errStr(out.err)), wit(0))
	case out.sniStr != ref.ServerName:
		c.Violation("C07 tls matcher without sub-matchers: {l4.tls.server_name} differs from crypto/tls' server name"+multi+": "+origin(tag),
			fmt.Sprintf("crypto/tls' server reports server name %q, after the plain tls matcher matched {l4.tls.server_name} expands to %q", ref.ServerName, out.sniStr), wit(0))
	}
	bad := 0
	for _, n := range lens {
		if n < 0 || n >= len(flight) {
			continue
		}
		o := evalOn(e.plain, flight[:n])
		c.Obs("plain_matcher_prefixes", 1)
		if o.v == mt.More || o.v == "panic" {
			continue
		}
		if bad++; bad > 2 {
			continue
		}
		c.Violation(fmt.Sprintf("C07 tls matcher without sub-matchers decides (%s) before the hello is complete%s: %s", o.v, multi, origin(tag)),
			fmt.Sprintf("prefix of %d bytes of a %d-byte first flight whose ClientHello is not complete before the last byte: answered %s %s", n, len(flight), o.v, errStr(o.err)), wit(n))
	}
}

// checkPrefixes is oracle (d): every listed proper prefix length must ask for more data.
func (e *env) checkPrefixes(flight []byte, lens []int, tag string, spec *Spec) {
	e.checkPlain(flight, lens, tag, spec)
	c := e.c
	bad := 0
	_, _, nrec, _, _ := flightMessage(flight)
	for _, n := range lens {
		if n < 0 || n >= len(flight) {
			continue
		}
		out := evalOn(e.capture, flight[:n])
		c.Obs("prefixes_checked", 1)
		if out.v == mt.More {
			continue
		}
		bad++
		if bad > 3 {
			continue
		}
		if out.v == "panic" {
			c.Violation("C07 crash panic in "+out.panicAt+" (prefix of "+tag+")", fmt.Sprintf("matcher panicked on prefix %d/%d: %v", n, len(flight), out.err), &Witness{Kind: "prefix", Class: tag, RecordHex: hex.EncodeToString(flight), PrefixLen: n, Matcher: `{"verif_capture":{}}`, Spec: spec})
			continue
		}
		sig := fmt.Sprintf("C07 incomplete hello decided (%s): %s", out.v, tag)
		if nrec > 1 {
			sig = fmt.Sprintf("C07 multi-record hello (%s): decided (%s) before the hello is complete", origin(tag), out.v)
		}
		c.Violation(sig,
			fmt.Sprintf("prefix of %d bytes of a %d-byte first flight whose ClientHello is not complete before the last byte: the tls matcher answered %s %s instead of asking for more data", n, len(flight), out.v, errStr(out.err)),
			&Witness{Kind: "prefix", Class: tag, RecordHex: hex.EncodeToString(flight), PrefixLen: n, Matcher: `{"verif_capture":{}}`, Spec: spec, Fork: out.info})
	}
	c.Evals(int64(len(lens)))
}

// checkNonHS is oracle (c).
func (e *env) checkNonHS(in []byte, kind string) {
	c := e.c
	c.Journal("nonhs %s %s", kind, hex.EncodeToString(in))
	out := evalOn(e.capture, in)
	c.Obs("non_handshake_inputs", 1)
	c.Obs("non_handshake_verdict_"+string(out.v), 1)
	c.Case(fw.Hash("nonhs", kind, in[0], len(in) >= 5), true, func() any {
		return &Witness{Kind: "nonhs", Class: kind, RecordHex: hex.EncodeToString(in), Matcher: `{"verif_capture":{}}`}
	})
	if out.v == "panic" {
		c.Violation("C07 crash panic in "+out.panicAt+" (non-handshake "+kind+")", fmt.Sprintf("matcher panicked: %v", out.err), &Witness{Kind: "nonhs", Class: kind, RecordHex: hex.EncodeToString(in), Matcher: `{"verif_capture":{}}`})
		return
	}
	if out.v == mt.Yes {
		c.Violation("C07 non-handshake record matched: "+kind, fmt.Sprintf("input with first byte 0x%02x (not a TLS handshake record) matched", in[0]), &Witness{Kind: "nonhs", Class: kind, RecordHex: hex.EncodeToString(in), Matcher: `{"verif_capture":{}}`})
	}
	if len(in) >= 5 && out.v == mt.More {
		c.Obs("non_handshake_ge5_bytes_asked_for_more", 1)
	}
}

// ---------------------------------------------------------------------------
// Matcher configuration generation for oracle (b)

func sniConfig(r *rand.Rand, name string) string {
	alt := func() string {
		labels := strings.Split(name, ".")
		switch k := r.Intn(11); {
		case name == "" || k == 0:
			return []string{"other.example.net", "*.example.com", "", "*", "localhost"}[r.Intn(5)]
		case k == 1:
			return name
		case k == 2:
			return strings.ToUpper(name)
		case k == 3:
			return strings.ToLower(name)
		case k == 4 && len(labels) > 1:
			return "*." + strings.Join(labels[1:], ".")
		case k == 5 && len(labels) > 2:
			return "*.*." + strings.Join(labels[2:], ".")
		case k == 6 && len(labels) > 1:
			return labels[0] + ".*." + strings.Join(labels[min(2, len(labels)-1):], ".")
		case k == 7:
			return name + "."
		case k == 8:
			return "x" + name
		case k == 9 && len(labels) > 1:
			return "*." + strings.ToUpper(strings.Join(labels[1:], "."))
		}
		return "*." + name
	}
	n := 1 + r.Intn(3)
	var list []string
	for i := 0; i < n; i++ {
		list = append(list, alt())
	}
	b, _ := json.Marshal(list)
	return string(b)
}

func alpnConfig(r *rand.Rand, protos []string) string {
	alt := func() string {
		k := r.Intn(8)
		if len(protos) == 0 || k == 0 {
			return protoPool[r.Intn(len(protoPool))]
		}
		p := protos[r.Intn(len(protos))]
		switch k {
		case 1, 2, 3:
			return p
		case 4:
			return strings.ToUpper(p)
		case 5:
			return p[:len(p)-1]
		case 6:
			return p + "x"
		}
		return "h2"
	}
	n := r.Intn(4)
	list := []string{}
	for i := 0; i < n; i++ {
		s := alt()
		if strings.ContainsAny(s, "{}") || !json.Valid([]byte(strconv.Quote(s))) {
			s = "h2"
		}
		list = append(list, s)
	}
	b, _ := json.Marshal(list)
	return string(b)
}

func (e *env) routingFor(r *rand.Rand, flight []byte, ref *tls.ClientHelloInfo, tag string, spec *Spec, n int) {
	for i := 0; i < n; i++ {
		e.checkRouting(flight, ref, `{"sni":`+sniConfig(r, ref.ServerName)+`}`, "sni", tag, spec)
		e.checkRouting(flight, ref, `{"alpn":`+alpnConfig(r, ref.SupportedProtos)+`}`, "alpn", tag, spec)
	}
	if n > 1 {
		e.checkRouting(flight, ref, `{"sni":`+sniConfig(r, ref.ServerName)+`,"alpn":`+alpnConfig(r, ref.SupportedProtos)+`}`, "sni_and_alpn", tag, spec)
	}
	e.checkInsideNot(flight, ref, `{"sni":`+sniConfig(r, ref.ServerName)+`}`, `{"alpn":`+alpnConfig(r, ref.SupportedProtos)+`}`, tag, spec)
}

var notCache = map[string]*mt.Matcher{}

// checkInsideNot: two tls matchers as the matcher sets of one "not" matcher (neither this name nor these protocols):
// each of them has to see the hello from its first byte, whatever the one before it read. The verdict is the negation
// of what the reference sub-matchers say on crypto/tls' view of the hello.
func (e *env) checkInsideNot(flight []byte, ref *tls.ClientHelloInfo, cfgA, cfgB, tag string, spec *Spec) {
	c := e.c
	rmA, rmB := e.route(cfgA), e.route(cfgB)
	if rmA.err != nil || rmB.err != nil {
		return // reported by checkRouting
	}
	yes := func(rm *routeM) bool {
		for _, m := range rm.refs {
			if !m.Match(ref) {
				return false
			}
		}
		return true
	}
	want := !(yes(rmA) || yes(rmB))
	cfg := `[{"tls":` + cfgA + `},{"tls":` + cfgB + `}]`
	nm := notCache[cfg]
	if nm == nil {
		if len(notCache) > 500 {
			for k, m := range notCache {
				m.Close()
				delete(notCache, k)
			}
		}
		var err error
		if nm, err = mt.Load("not", cfg); err != nil {
			c.Violation("C07 generated matcher configuration rejected", err.Error(), &Witness{Kind: "routing", Matcher: cfg})
			return
		}
		notCache[cfg] = nm
	}
	c.Journal("routing-not %s %s %s", tag, cfg, hex.EncodeToString(flight))
	out := evalOn(nm, flight)
	c.Obs("inside_not_verdicts_compared", 1)
	c.Evals(1)
	if out.v == "panic" {
		c.Violation("C07 crash panic in "+out.panicAt+" (routing inside not "+tag+")", fmt.Sprintf("matcher panicked: %v", out.err), &Witness{Kind: "routing-not", Class: tag, RecordHex: hex.EncodeToString(flight), Matcher: cfg, Spec: spec})
		return
	}
	if (out.v == mt.Yes) != want || (out.v != mt.Yes && out.v != mt.No) {
		c.Violation("C07 routing verdict of tls matchers inside a not matcher differs: "+origin(tag),
			fmt.Sprintf("not %s: on crypto/tls' ClientHelloInfo (server name %q, protos %s) the negated sub-matchers say %v; the not matcher on the complete flight says %s %s", cfg, ref.ServerName, short(ref.SupportedProtos), want, out.v, errStr(out.err)),
			&Witness{Kind: "routing-not", Class: tag, RecordHex: hex.EncodeToString(flight), Matcher: cfg, Spec: spec, Ref: infoOf(ref)})
	}
}

// ---------------------------------------------------------------------------

func run(c *fw.Ctx) {
	if c.Mode == "nested" {
		runNested(c)
		return
	}
	hmods.Quiet(c.OutDir + "/caddyhome")
	e, err := newEnv(c)
	if err != nil {
		c.Violation("C07 cannot load the tls matcher with the capture sub-matcher", err.Error(), nil)
		return
	}
	nCfg := c.Pick(3000, 100000)
	var sample []byte
	for i := 0; i < nCfg; i++ {
		if !c.Mine(i) {
			continue
		}
		r := fw.Rand(c.Seed, "c07cfg", i)
		spec := genSpec(r, i)
		flight, resumed, fillErr, err := flightFor(spec, fw.Rand(c.Seed, "c07rand", i))
		c.Obs("client_configs", 1)
		if spec.Resume {
			c.Obs("resumption_configs", 1)
			if fillErr != nil {
				c.Obs("resumption_full_handshake_failed", 1)
				c.SetAdd("resumption_full_handshake_errors", fillErr.Error())
			}
		}
		if err != nil {
			c.Obs("client_config_rejected_by_crypto_tls", 1)
			c.SetAdd("client_config_errors", err.Error())
			continue
		}
		e.oneFlight(r, spec, flight, resumed)
		if sample == nil {
			sample = flight
		}
	}
	nNon := c.Pick(2400, 96000)
	for i := 0; i < nNon; i++ {
		if !c.Mine(i) {
			continue
		}
		in, kind := nonHandshake(fw.Rand(c.Seed, "c07non", i), i, sample)
		e.checkNonHS(in, kind)
	}
}

func sampledPrefixLens(r *rand.Rand, flight []byte, n int) []int {
	lens := []int{0, 1, 2, 3, 4, 5, 6, 8, 9, 10, 11, 43, len(flight) - 1, len(flight) - 2}
	off := 0
	for off+5 <= len(flight) {
		k := int(flight[off+3])<<8 | int(flight[off+4])
		off += 5 + k
		lens = append(lens, off-1, off, off+1, off+4, off+5, off+6)
	}
	for i := 0; i < n; i++ {
		lens = append(lens, r.Intn(len(flight)))
	}
	sort.Ints(lens)
	out := lens[:0]
	last := -1
	for _, l := range lens {
		if l != last && l >= 0 && l < len(flight) {
			out = append(out, l)
			last = l
		}
	}
	return out
}

func (e *env) oneFlight(r *rand.Rand, spec *Spec, flight []byte, resumed bool) {
	c := e.c
	cfgClass := spec.class()
	recVers, msg, nrec, used, ok := flightMessage(flight)
	if !ok || used != len(flight) {
		c.Inconclusive("client flight is not exactly the records of one handshake message")
		return
	}
	base, ok := parseHello(msg)
	if !ok {
		c.Inconclusive("harness decoder cannot parse the client's hello")
		return
	}
	cls := "native"
	if nrec > 1 {
		cls = "native-multi-record"
		c.Obs("native_multi_record_flights", 1)
	}
	if resumed {
		c.Obs("resumption_hellos", 1)
		if base.find(41) >= 0 {
			c.Obs("resumption_hellos_tls13_psk", 1)
		} else {
			c.Obs("resumption_hellos_session_ticket", 1)
		}
	}
	if spec.ECH && base.find(0xfe0d) >= 0 {
		c.Obs("ech_outer_hellos", 1)
	}
	c.ObsMax("max_flight_bytes", int64(len(flight)))
	ref := e.checkFields(flight, spec, cfgClass, cls, "")
	if ref == nil {
		c.Violation("C07 reference rejects a hello produced by crypto/tls ("+cls+")", "crypto/tls' server did not reach GetConfigForClient for a flight produced by crypto/tls' client", &Witness{Kind: "fields", Class: cls, RecordHex: hex.EncodeToString(flight), Spec: spec})
		return
	}
	e.routingFor(r, flight, ref, cls, spec, 2)
	// (d): every proper prefix of the flight
	if nrec == 1 {
		lens := make([]int, len(flight))
		for i := range lens {
			lens[i] = i
		}
		e.checkPrefixes(flight, lens, cls, spec)
	} else {
		e.checkPrefixes(flight, sampledPrefixLens(r, flight, 300), cls, spec)
	}
	// mutations
	for _, mc := range mutClasses {
		mf, sub, ok := mutate(r, base, recVers, mc)
		if !ok {
			continue
		}
		mref := e.checkFields(mf, spec, cfgClass, mc, sub)
		if mref == nil {
			continue
		}
		tag := mc + "/" + sub
		e.routingFor(r, mf, mref, tag, spec, 1)
		_, _, _, mused, mok := flightMessage(mf)
		if mok && mused == len(mf) {
			if c.Thorough() && len(mf) <= 2048 {
				lens := make([]int, len(mf))
				for i := range lens {
					lens[i] = i
				}
				e.checkPrefixes(mf, lens, tag, spec)
			} else {
				e.checkPrefixes(mf, sampledPrefixLens(r, mf, 12), tag, spec)
			}
		}
	}
}

// ---------------------------------------------------------------------------

func replay(c *fw.Ctx, raw json.RawMessage) {
	var w Witness
	if err := json.Unmarshal(raw, &w); err != nil {
		fmt.Println("replay: cannot decode witness:", err)
		return
	}
	hmods.Quiet(c.OutDir + "/caddyhome")
	e, err := newEnv(c)
	if err != nil {
		fmt.Println("replay:", err)
		return
	}
	flight, err := hex.DecodeString(w.RecordHex)
	if err != nil {
		fmt.Println("replay: bad hex:", err)
		return
	}
	tag := w.Class
	if w.Sub != "" && w.Kind == "fields" {
		tag = w.Class + "/" + w.Sub
	}
	switch w.Kind {
	case "nonhs":
		e.checkNonHS(flight, w.Class)
	case "prefix":
		out := evalOn(e.capture, flight[:w.PrefixLen])
		fmt.Printf("prefix %d/%d -> %s %s\n", w.PrefixLen, len(flight), out.v, errStr(out.err))
		e.checkPrefixes(flight, []int{w.PrefixLen}, tag, w.Spec)
	case "routing":
		ref, _, rerr := reference(flight)
		if ref == nil {
			fmt.Println("replay: reference rejects the flight:", rerr)
			return
		}
		kind := "sni"
		if strings.Contains(w.Matcher, `"alpn"`) {
			kind = "alpn"
			if strings.Contains(w.Matcher, `"sni"`) {
				kind = "sni_and_alpn"
			}
		}
		e.checkRouting(flight, ref, w.Matcher, kind, tag, w.Spec)
	case "plain":
		e.checkPlain(flight, []int{w.PrefixLen}, tag, w.Spec)
	case "routing-not":
		ref, _, rerr := reference(flight)
		if ref == nil {
			fmt.Println("replay: reference rejects the flight:", rerr)
			return
		}
		var sets []map[string]json.RawMessage
		if json.Unmarshal([]byte(w.Matcher), &sets) != nil || len(sets) != 2 {
			fmt.Println("replay: cannot decode the not matcher's sets")
			return
		}
		e.checkInsideNot(flight, ref, string(sets[0]["tls"]), string(sets[1]["tls"]), tag, w.Spec)
	default:
		ref, used, rerr := reference(flight)
		out := evalOn(e.capture, flight)
		if ref != nil {
			b, _ := json.Marshal(infoOf(ref))
			fmt.Printf("reference (consumed %d/%d bytes): %s\n", used, len(flight), b)
		} else {
			fmt.Println("reference rejected:", rerr)
		}
		b, _ := json.Marshal(out.info)
		fmt.Printf("matcher: verdict=%s err=%s info=%s server_name=%q version=%q\n", out.v, errStr(out.err), b, out.sniStr, out.verStr)
		e.checkFields(flight, w.Spec, "replay", w.Class, w.Sub)
	}
}
