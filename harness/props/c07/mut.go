package c07

import (
	"bytes"
	"math/rand"
)

// mutation classes; every class is applied to every base hello (one random sub-variant each)
var mutClasses = []string{
	"grease_ext", "unknown_ext", "reorder_ext", "sni_edit", "alpn_edit", "split_record",
	"versions_edit", "grease_values", "record_version", "dup_ext", "no_extensions", "msg_type",
	"known_ext_variants", "legacy_fields",
}

func randBytes(r *rand.Rand, n int) []byte {
	b := make([]byte, n)
	r.Read(b)
	return b
}

// extOffset returns the offset of extension i's header inside the marshalled message.
func (h *hello) extOffset(i int) int {
	off := 4 + 2 + 32 + 1 + len(h.SID) + 2 + 2*len(h.Suites) + 1 + len(h.Comp) + 2
	for j := 0; j < i; j++ {
		off += 4 + len(h.Exts[j].D)
	}
	return off
}

// mutate applies one mutation of the class to a copy of base and returns the new flight and the sub-variant name.
// ok=false means the class does not apply to this hello.
func mutate(r *rand.Rand, base *hello, recVers uint16, class string) (flight []byte, sub string, ok bool) {
	h := base.clone()
	switch class {
	case "grease_ext":
		n := 1 + r.Intn(3)
		used := map[uint16]bool{}
		for i := 0; i < n; i++ {
			var d []byte
			switch r.Intn(3) {
			case 1:
				d = []byte{0}
			case 2:
				d = randBytes(r, r.Intn(40))
			}
			t := grease(r)
			if used[t] || h.find(t) >= 0 {
				continue // a repeated extension type is a different class (dup_ext)
			}
			used[t] = true
			h.insert(r, ext{T: t, D: d})
		}
		return records(h.marshal(), recVers, nil), "insert", true
	case "unknown_ext":
		types := []uint16{21, 27, 17513, 17613, 28, 34, 49, 57, 0x1234, 65000, 65037, 22, 24, 15, 1, 4, 65280}
		n := 1 + r.Intn(3)
		used := map[uint16]bool{}
		for i := 0; i < n; i++ {
			t := types[r.Intn(len(types))]
			if used[t] || h.find(t) >= 0 {
				continue
			}
			used[t] = true
			h.insert(r, ext{T: t, D: randBytes(r, r.Intn(64))})
		}
		return records(h.marshal(), recVers, nil), "insert", true
	case "reorder_ext":
		if len(h.Exts) < 2 {
			return nil, "", false
		}
		n := len(h.Exts)
		if h.find(41) == n-1 {
			n--
		}
		r.Shuffle(n, func(i, j int) { h.Exts[i], h.Exts[j] = h.Exts[j], h.Exts[i] })
		return records(h.marshal(), recVers, nil), "shuffle", true
	case "sni_edit":
		var name []byte
		if i := h.find(0); i >= 0 && len(h.Exts[i].D) > 5 {
			name = append([]byte(nil), h.Exts[i].D[5:]...)
		} else {
			name = []byte("added.example.org")
		}
		other := []byte("second.example.net")
		var e ext
		switch k := r.Intn(12); k {
		case 0:
			sub, e = "other_type_before", sniExt([]sniEntry{{byte(1 + r.Intn(255)), other}, {0, name}}, nil)
		case 1:
			sub, e = "other_type_after", sniExt([]sniEntry{{0, name}, {byte(1 + r.Intn(255)), other}}, nil)
		case 2:
			sub, e = "two_host_names", sniExt([]sniEntry{{0, name}, {0, other}}, nil)
		case 3:
			sub, e = "only_other_type", sniExt([]sniEntry{{byte(1 + r.Intn(255)), name}}, nil)
		case 4:
			sub, e = "upper_case", sniExt([]sniEntry{{0, bytes.ToUpper(name)}}, nil)
		case 5:
			sub, e = "trailing_dot", sniExt([]sniEntry{{0, append(append([]byte(nil), name...), '.')}}, nil)
		case 6:
			sub = "raw_bytes"
			nm := randBytes(r, 1+r.Intn(60))
			if nm[len(nm)-1] == '.' {
				nm[len(nm)-1] = 'x'
			}
			e = sniExt([]sniEntry{{0, nm}}, nil)
		case 7:
			sub, e = "empty_name", sniExt([]sniEntry{{0, nil}}, nil)
		case 8:
			sub, e = "trailing_garbage", sniExt([]sniEntry{{0, name}}, randBytes(r, 1+r.Intn(4)))
		case 9:
			sub, e = "empty_list", sniExt(nil, nil)
		case 10:
			sub, e = "empty_ext", ext{T: 0}
		default:
			sub = "long_name"
			e = sniExt([]sniEntry{{0, bytes.Repeat([]byte("a"), 256+r.Intn(2000))}}, nil)
		}
		h.set(r, e)
		return records(h.marshal(), recVers, nil), sub, true
	case "alpn_edit":
		var e ext
		switch k := r.Intn(8); k {
		case 0:
			sub = "random_list"
			n := 1 + r.Intn(10)
			var ps [][]byte
			for i := 0; i < n; i++ {
				ps = append(ps, randBytes(r, 1+r.Intn(30)))
			}
			e = alpnExt(ps)
		case 1:
			sub, e = "one_byte_protos", alpnExt([][]byte{{byte(r.Intn(256))}, {0}, {0xff}})
		case 2:
			sub, e = "max_len_proto", alpnExt([][]byte{randBytes(r, 255), []byte("h2")})
		case 3:
			sub, e = "duplicates", alpnExt([][]byte{[]byte("h2"), []byte("h2"), []byte("http/1.1"), []byte("h2")})
		case 4:
			sub, e = "empty_proto", alpnExt([][]byte{[]byte("h2"), nil, []byte("http/1.1")})
		case 5:
			sub, e = "empty_list", alpnExt(nil)
		case 6:
			sub = "trailing_garbage"
			e = alpnExt([][]byte{[]byte("h2")})
			e.D = append(e.D, randBytes(r, 1+r.Intn(3))...)
		default:
			sub = "length_overrun"
			e = alpnExt([][]byte{[]byte("h2"), []byte("http/1.1")})
			e.D[2] = 200 // first proto claims more bytes than the list holds
		}
		h.set(r, e)
		return records(h.marshal(), recVers, nil), sub, true
	case "split_record":
		msg := h.marshal()
		var cuts []int
		switch k := r.Intn(10); {
		case k < 4:
			sub = "two_records"
			cuts = []int{1 + r.Intn(len(msg)-1)}
		case k < 5:
			sub = "first_fragment_le5"
			cuts = []int{1 + r.Intn(5)}
		case k < 8:
			// inside or right after the server_name / ALPN / supported_versions extension
			sub = "two_records_cut_in_ext"
			var cand []int
			for _, t := range []uint16{0, 16, 43, 10} {
				if i := h.find(t); i >= 0 {
					o := h.extOffset(i)
					cand = append(cand, o+r.Intn(4+len(h.Exts[i].D)+1))
				}
			}
			if len(cand) == 0 {
				cuts = []int{1 + r.Intn(len(msg)-1)}
			} else {
				cuts = []int{cand[r.Intn(len(cand))]}
			}
		default:
			sub = "three_records"
			a := 1 + r.Intn(len(msg)-2)
			b := 1 + r.Intn(len(msg)-a-1)
			cuts = []int{a, b}
		}
		return records(msg, recVers, cuts), sub, true
	case "versions_edit":
		legacy := []uint16{0x0300, 0x0301, 0x0302, 0x0303, 0x0304, 0x0305, 0x0200, 0x0002, 0xffff, 0x7f1c, 0x0a0a}
		switch k := r.Intn(5); k {
		case 0:
			sub = "drop_ext"
			if !h.remove(43) {
				return nil, "", false
			}
		case 1:
			sub = "drop_ext_set_legacy"
			h.remove(43)
			h.Legacy = legacy[r.Intn(len(legacy))]
		case 2:
			sub = "set_legacy_keep_ext"
			h.Legacy = legacy[r.Intn(len(legacy))]
		case 3:
			sub = "random_list"
			n := 1 + r.Intn(6)
			var vs []uint16
			for i := 0; i < n; i++ {
				vs = append(vs, append(legacy, grease(r), 0x0304, 0x0303)[r.Intn(len(legacy)+3)])
			}
			h.set(r, versionsExt(vs))
		default:
			sub = "empty_list"
			h.set(r, versionsExt(nil))
		}
		return records(h.marshal(), recVers, nil), sub, true
	case "grease_values":
		sub = "suites_curves_sigalgs_versions"
		h.Suites = append([]uint16{grease(r)}, h.Suites...)
		for _, t := range []uint16{10, 13} {
			if i := h.find(t); i >= 0 {
				if vs, ok := u16List(h.Exts[i].D); ok {
					p := r.Intn(len(vs) + 1)
					vs = append(vs[:p:p], append([]uint16{grease(r)}, vs[p:]...)...)
					h.Exts[i] = u16ListExt(t, vs)
				}
			}
		}
		if i := h.find(43); i >= 0 && len(h.Exts[i].D) >= 1 {
			d := h.Exts[i].D
			var vs []uint16
			for j := 1; j+1 < len(d); j += 2 {
				vs = append(vs, uint16(d[j])<<8|uint16(d[j+1]))
			}
			h.Exts[i] = versionsExt(append([]uint16{grease(r)}, vs...))
		}
		return records(h.marshal(), recVers, nil), sub, true
	case "record_version":
		vs := []uint16{0x0300, 0x0302, 0x0303, 0x0304, 0x0000, 0x0fff, 0x1000, 0x0201, 0xfefd}
		v := vs[r.Intn(len(vs))]
		if v >= 0x1000 {
			sub = "ge_0x1000"
		} else {
			sub = "lt_0x1000"
		}
		return records(h.marshal(), v, nil), sub, true
	case "dup_ext":
		if len(h.Exts) == 0 {
			return nil, "", false
		}
		cand := []uint16{0, 16, 43, 10}
		t := cand[r.Intn(len(cand))]
		i := h.find(t)
		if i < 0 {
			i = r.Intn(len(h.Exts))
			if h.Exts[i].T == 41 {
				return nil, "", false
			}
		}
		d := ext{T: h.Exts[i].T, D: append([]byte(nil), h.Exts[i].D...)}
		switch h.Exts[i].T {
		case 0:
			d = sniExt([]sniEntry{{0, []byte("dup.example.net")}}, nil)
		case 16:
			d = alpnExt([][]byte{[]byte("dup")})
		}
		h.insert(r, d)
		return records(h.marshal(), recVers, nil), "duplicate", true
	case "no_extensions":
		if r.Intn(2) == 0 {
			sub = "no_block"
			h.HasExt, h.Exts = false, nil
		} else {
			sub = "empty_block"
			h.HasExt, h.Exts = true, nil
		}
		if r.Intn(2) == 0 {
			h.Legacy = []uint16{0x0300, 0x0301, 0x0302, 0x0303}[r.Intn(4)]
		}
		return records(h.marshal(), recVers, nil), sub, true
	case "known_ext_variants":
		// well-formed alternative contents for extensions both parsers decode, placed at random positions, so that
		// the fields decoded after them are exercised; a few malformed ones to count reference rejections
		lp8 := func(b []byte) []byte { return append([]byte{byte(len(b))}, b...) }
		lp16 := func(b []byte) []byte { return append(put16(nil, len(b)), b...) }
		var e ext
		switch k := r.Intn(16); k {
		case 0:
			sub, e = "key_share_empty", ext{T: 51, D: lp16(nil)}
		case 1:
			sub = "key_share_unknown_groups"
			var ks []byte
			for i := 0; i < 1+r.Intn(3); i++ {
				ks = put16(ks, int(grease(r)))
				ks = append(ks, lp16(randBytes(r, 1+r.Intn(40)))...)
			}
			e = ext{T: 51, D: lp16(ks)}
		case 2:
			sub = "status_request_with_responders"
			d := []byte{1}
			d = append(d, lp16(lp16(randBytes(r, 1+r.Intn(20))))...)
			d = append(d, lp16(randBytes(r, r.Intn(10)))...)
			e = ext{T: 5, D: d}
		case 3:
			sub, e = "status_request_other_type", ext{T: 5, D: append([]byte{byte(2 + r.Intn(200))}, 0, 0, 0, 0)}
		case 4:
			sub, e = "cookie", ext{T: 44, D: lp16(randBytes(r, 1+r.Intn(64)))}
		case 5:
			sub, e = "signature_algorithms_cert", u16ListExt(50, []uint16{0x0804, 0x0403, grease(r), 0x0201})
		case 6:
			sub, e = "early_data", ext{T: 42}
		case 7:
			sub, e = "renegotiation_info_nonempty", ext{T: 0xff01, D: lp8(randBytes(r, 12))}
		case 8:
			sub, e = "session_ticket_random", ext{T: 35, D: randBytes(r, r.Intn(200))}
		case 9:
			sub, e = "psk_modes", ext{T: 45, D: lp8([]byte{1, 0, byte(r.Intn(256))})}
		case 10:
			sub, e = "sct_and_ems", ext{T: 18}
			h.set(r, ext{T: 23})
		case 11:
			sub, e = "quic_transport_parameters", ext{T: 57, D: randBytes(r, r.Intn(80))}
		case 12:
			sub, e = "point_formats_many", ext{T: 11, D: lp8([]byte{0, 1, 2, byte(r.Intn(256))})}
		case 13:
			sub, e = "signature_algorithms_random", u16ListExt(13, []uint16{uint16(r.Intn(65536)), 0x0804, grease(r), uint16(r.Intn(65536))})
		case 14:
			sub, e = "malformed_cookie_empty", ext{T: 44, D: lp16(nil)}
		default:
			sub, e = "malformed_point_formats_empty", ext{T: 11, D: lp8(nil)}
		}
		h.set(r, e)
		if r.Intn(2) == 0 && len(h.Exts) > 1 {
			n := len(h.Exts)
			if h.find(41) == n-1 {
				n--
			}
			r.Shuffle(n, func(i, j int) { h.Exts[i], h.Exts[j] = h.Exts[j], h.Exts[i] })
		}
		return records(h.marshal(), recVers, nil), sub, true
	case "legacy_fields":
		switch k := r.Intn(5); k {
		case 0:
			sub = "session_id_len"
			h.SID = randBytes(r, []int{0, 1, 16, 31, 32}[r.Intn(5)])
		case 1:
			sub = "compression_methods"
			h.Comp = [][]byte{{0}, {1, 0}, {0, 1, 64}, {1}, {}}[r.Intn(5)]
		case 2:
			sub = "scsv_suites"
			h.Suites = append(h.Suites, 0x00ff, 0x5600)
		case 3:
			sub = "random_suites"
			n := r.Intn(40)
			h.Suites = nil
			for i := 0; i < n; i++ {
				h.Suites = append(h.Suites, uint16(r.Intn(65536)))
			}
		default:
			sub = "no_suites"
			h.Suites = nil
		}
		return records(h.marshal(), recVers, nil), sub, true
	case "msg_type":
		sub = "not_client_hello"
		h.Type = []byte{0, 2, 4, 11, 20, 254}[r.Intn(6)]
		return records(h.marshal(), recVers, nil), sub, true
	}
	return nil, "", false
}

// nonHandshake generates inputs whose first byte is not 0x16.
func nonHandshake(r *rand.Rand, i int, sample []byte) (in []byte, kind string) {
	switch k := i % 12; k {
	case 0:
		kind = "random"
		in = randBytes(r, 5+r.Intn(600))
	case 1:
		kind = "random_consistent_length"
		n := r.Intn(300)
		in = append([]byte{byte(r.Intn(256)), 3, byte(r.Intn(4))}, byte(n>>8), byte(n))
		in = append(in, randBytes(r, n)...)
	case 2:
		kind = "http"
		in = []byte([]string{"GET / HTTP/1.1\r\nHost: a.example\r\n\r\n", "POST /x HTTP/1.0\r\n\r\n", "PRI * HTTP/2.0\r\n\r\nSM\r\n\r\n", "CONNECT a:443 HTTP/1.1\r\n\r\n"}[r.Intn(4)])
	case 3:
		kind = "ssh_banner"
		in = []byte("SSH-2.0-OpenSSH_9." + string(rune('0'+r.Intn(10))) + "\r\n")
	case 4:
		kind = "tls_alert"
		in = []byte{0x15, 3, byte(1 + r.Intn(3)), 0, 2, byte(1 + r.Intn(2)), byte(r.Intn(120))}
	case 5:
		kind = "tls_appdata"
		n := 1 + r.Intn(200)
		in = append([]byte{0x17, 3, 3, byte(n >> 8), byte(n)}, randBytes(r, n)...)
	case 6:
		kind = "tls_ccs"
		in = []byte{0x14, 3, 3, 0, 1, 1}
	case 7:
		kind = "sslv2_hello"
		in = append([]byte{0x80, 0x2e, 0x01, 0x00, 0x02, 0x00, 0x15, 0x00, 0x00, 0x00, 0x10}, randBytes(r, 37)...)
	case 8, 9, 10:
		// a genuine ClientHello record whose content type byte is replaced
		kind = "hello_with_other_content_type"
		in = append([]byte(nil), sample...)
		if len(in) == 0 {
			in = randBytes(r, 50)
		}
		b := byte(r.Intn(256))
		if k == 9 {
			b = []byte{0x14, 0x15, 0x17, 0x18, 0x00, 0x80, 0x06, 0x26}[r.Intn(8)]
		}
		in[0] = b
	default:
		kind = "text"
		in = []byte([]string{"\x05\x01\x00", "EHLO a\r\n", "\x00\x00\x00\x08\x04\xd2\x16\x2f", "*1\r\n$4\r\nPING\r\n", "\x03\x00\x00\x13\x0e\xe0\x00\x00\x00\x00\x00\x01\x00\x08\x00\x03\x00\x00\x00"}[r.Intn(5)])
	}
	if len(in) > 0 && in[0] == 0x16 {
		in[0] = 0x17
	}
	return in, kind
}
