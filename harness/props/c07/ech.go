//go:build go1.23

package c07

import "crypto/tls"

// setECH makes the client emit an ECH outer hello (go1.23+).
func setECH(cfg *tls.Config, list []byte) { cfg.EncryptedClientHelloConfigList = list }
