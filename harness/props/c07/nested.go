package c07

import (
	"bytes"
	"crypto/tls"
	"encoding/json"
	"fmt"
	"net"
	"time"

	"github.com/caddyserver/caddy/v2"

	"verifharness/drive"
	"verifharness/fw"
	"verifharness/gen"
	"verifharness/hmods"
	"verifharness/oracle"
	"verifharness/tlsutil"
)

// Nested: a tls matcher decides, the tls handler terminates, and another tls matcher looks at the decrypted stream.
// What the inner matcher reports (verdict of its sni filter, {l4.tls.server_name}) has to come from the bytes inside
// the tunnel - a ClientHello of its own with another server name, or no TLS at all - never from the outer hello.
func runNested(c *fw.Ctx) {
	hmods.Quiet(c.OutDir + "/caddyhome")
	outerNames := []string{"outer-a.c07.test", "outer-b.c07.test"}
	innerNames := []string{"inner-x.c07.test", "inner-y.c07.test", "outer-a.c07.test"}
	cert, err := tlsutil.NewCert(append([]string{"verif.test"}, outerNames...)...)
	if err != nil {
		c.Note("cert: %v", err)
		return
	}
	if err := caddy.Load([]byte(tlsutil.CaddyConfig(cert, nil)), true); err != nil {
		c.Note("caddy.Load: %v", err)
		return
	}
	defer func() { _ = caddy.Stop() }()
	hmods.UseActiveContext = true
	expand := []string{"{l4.tls.server_name}"}
	sub := map[string]any{"handler": "subroute", "matching_timeout": "10s", "routes": []any{
		map[string]any{"match": []any{map[string]any{"tls": map[string]any{"sni": []string{"inner-x.c07.test"}}}},
			"handle": []any{map[string]any{"handler": "verif_span", "name": "inner-x", "expand": expand}, map[string]any{"handler": "verif_sink", "name": "sink"}}},
		map[string]any{"match": []any{map[string]any{"tls": map[string]any{}}},
			"handle": []any{map[string]any{"handler": "verif_span", "name": "inner-tls", "expand": expand}, map[string]any{"handler": "verif_sink", "name": "sink"}}},
		map[string]any{"handle": []any{map[string]any{"handler": "verif_span", "name": "inner-plain", "expand": expand}, map[string]any{"handler": "verif_sink", "name": "sink"}}},
	}}
	routes := drive.J([]any{map[string]any{"match": []any{map[string]any{"tls": map[string]any{"sni": outerNames}}},
		"handle": []any{map[string]any{"handler": "tls"}, sub}}})
	app, err := drive.StartApp(routes, "10s")
	if err != nil {
		c.Violation("C07 nested config rejected", err.Error(), routes)
		return
	}
	defer app.Stop()
	n := c.Pick(120, 1500)
	for i := 0; i < n; i++ {
		if !c.Mine(i) {
			continue
		}
		r := fw.Rand(c.Seed, "c07nested", i)
		outer := outerNames[r.Intn(len(outerNames))]
		var inner []byte
		innerName, wantSpan := "", "inner-plain"
		sameSize := false
		switch r.Intn(4) {
		case 3: // the outer hello itself with another server name of the same length: same record header, other contents
			sameSize = true
			innerName = innerNames[r.Intn(2)]
			wantSpan = "inner-tls"
			if innerName == "inner-x.c07.test" {
				wantSpan = "inner-x"
			}
		case 0: // no TLS inside
			inner = append([]byte("GET / HTTP/1.1\r\nHost: plain\r\n\r\n"), oracle.Stream(0xC07, uint64(i), 50+r.Intn(300))...)
		default:
			innerName = innerNames[r.Intn(len(innerNames))]
			inner = append(gen.ClientHello(innerName, []string{"h2"}), oracle.Stream(0xC07, uint64(i), r.Intn(100))...)
			wantSpan = "inner-tls"
			if innerName == "inner-x.c07.test" {
				wantSpan = "inner-x"
			}
		}
		id := fmt.Sprintf("c07n-%d-%d", c.Shard, i)
		rec := hmods.Track(id)
		client, server := drive.NewPair(id)
		app.L.Inject(server)
		tcfg := &tls.Config{RootCAs: cert.Pool, ServerName: outer}
		if r.Intn(2) == 0 {
			tcfg.MaxVersion = tls.VersionTLS12
		}
		first := &firstWrite{Conn: client}
		tc := tls.Client(first, tcfg)
		_ = client.SetDeadline(time.Now().Add(20 * time.Second))
		if err := tc.Handshake(); err != nil {
			c.Inconclusive("nested: outer handshake failed")
			_ = client.Close()
			hmods.Untrack(id)
			continue
		}
		if sameSize {
			if !bytes.Contains(first.b, []byte(outer)) || len(innerName) != len(outer) {
				c.Inconclusive("nested: outer hello not captured")
				_ = client.Close()
				hmods.Untrack(id)
				continue
			}
			inner = append(bytes.Replace(first.b, []byte(outer), []byte(innerName), 1), oracle.Stream(0xC07, uint64(i), r.Intn(100))...)
		}
		_, _ = tc.Write(inner)
		_ = tc.CloseWrite()
		drive.ReadAll(tc)
		client.WaitPeerClosed(10 * time.Second)
		_ = client.Close()
		gotSpan, gotName := "", ""
		for _, e := range rec.Events() {
			if e.Kind == "enter" && (e.Who == "inner-x" || e.Who == "inner-tls" || e.Who == "inner-plain") {
				gotSpan = e.Who
				var si hmods.SpanInfo
				_ = json.Unmarshal([]byte(e.S2), &si)
				gotName = si.Expanded["{l4.tls.server_name}"]
			}
		}
		got := rec.Stream("sink")
		hmods.Untrack(id)
		w := map[string]any{"outer": outer, "inner_is_the_outer_hello_renamed": sameSize, "inner_server_name": innerName, "inner_is_tls": innerName != "", "want_route": wantSpan, "got_route": gotSpan, "placeholder": gotName}
		switch {
		case gotSpan != wantSpan:
			c.Violation(fmt.Sprintf("C07 nested: inner tls matcher decided from something else than the inner bytes [want %s, got %s]", wantSpan, orNone(gotSpan)),
				fmt.Sprintf("outer hello for %s terminated by the tls handler; inside the tunnel: %s; the routes behind the handler chose %q, the inner bytes call for %q", outer, describeInner(innerName), gotSpan, wantSpan), w)
		case wantSpan != "inner-plain" && gotName != innerName:
			c.Violation("C07 nested: {l4.tls.server_name} behind the tls handler is not the inner hello's",
				fmt.Sprintf("inner ClientHello names %q, the placeholder says %q (outer hello: %q)", innerName, gotName, outer), w)
		case string(got) != string(inner):
			c.Violation("C07 nested: inner stream altered", "the handler behind the inner tls matcher did not read the bytes sent inside the tunnel: "+oracle.Diff(got, inner), w)
		}
		c.Obs("nested_sessions", 1)
		c.Case(fw.Hash("nested", outer, innerName, sameSize, tcfg.MaxVersion), true, func() any { return w })
	}
}

// firstWrite remembers the first Write that goes through it (the client's hello record).
type firstWrite struct {
	net.Conn
	b []byte
}

func (f *firstWrite) Write(p []byte) (int, error) {
	if f.b == nil {
		f.b = append([]byte{}, p...)
	}
	return f.Conn.Write(p)
}

func orNone(s string) string {
	if s == "" {
		return "none"
	}
	return s
}

func describeInner(name string) string {
	if name == "" {
		return "plain HTTP, no TLS"
	}
	return "a ClientHello for " + name
}
