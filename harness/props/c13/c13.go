// Package c13 monitors the listener wrapper: every connection not consumed by
// a terminal layer4 handler reaches the wrapped listener's Accept exactly
// once, intact; consumed/rejected connections never do and are closed; after
// Close, Accept reports closure, pending connections are closed and no
// goroutine stays inside the listener.
package c13

import (
	"crypto/tls"
	"encoding/json"
	"errors"
	"fmt"
	"math/rand"
	"net"
	"sort"
	"strings"
	"sync"
	"sync/atomic"
	"time"

	"github.com/caddyserver/caddy/v2"

	"github.com/mholt/caddy-l4/layer4"

	"verifharness/drive"
	"verifharness/fw"
	"verifharness/hmods"
	"verifharness/oracle"
	"verifharness/tlsutil"
	"verifharness/vnet"
)

const streamDomain = 0xC13

func init() {
	fw.Register(&fw.Prop{
		ID: "C13",
		Rule: "case = one run of the listener wrapper over a scripted listener: a mix of connection classes (A terminal route, B falls through, C non-terminal route then falls through " +
			"[take / proxy_protocol / tls / subroute], D fails matching [matcher error / timeout / buffer full], L/M clients that send most of their stream long after the matching timeout; one run in six uses a route list " +
			"whose matchers all say no without reading), PRF streams with random segmentation, an Accept consumer with scripted pacing " +
			"(immediate / slower than arrival / stops), and a scripted close instant. every sixth run is followed by a two-listener run (one wrapper instance wraps two listeners: each connection must come out of its own listener's Accept, closing one leaves the other serving). oracle: each B/C connection is returned by Accept exactly once and reads the client's stream from the first " +
			"unconsumed byte (TLS: plaintext + ConnectionState) with no read deadline left armed by matching; A/D are never returned and are closed; a connection pending at Close is either returned once or closed, never both/neither; " +
			"after Close Accept returns net.ErrClosed and no goroutine remains in layer4.(*listener). non-trivial = >=1 fall-through connection accepted; distinct = hash(order signature of arrive/accept/close events). classes Q (v1 PROXY UNKNOWN header) and V (v2 header) fall through like P; in half of the runs the tls route is the first route, so the matchers of the other routes look at the plaintext before the connection falls through. class W: a non-terminal tee handler (which passes a wrapped connection on) in the matched route, then fall-through. class K: three-byte first message behind undecided routes, client waits. in a quarter of the runs one class A connection is a long-lived session (its client keeps its side open until the run has been judged): closing the listener must deal with the pending connections all the same.",
		Assumptions: []string{
			"scripted transport; the consumer reads each accepted connection to EOF on its own goroutine",
			"matching timeouts are 150-350 ms: a fall-through connection that layer4 dropped at its deadline while the scheduler canary shows stalls above an eighth of the timeout is counted as inconclusive (starved client), not as lost",
			"poison-on-release hook (VERIF_POISON=1) and yield points at the hand-off widen the windows; at GOMAXPROCS=1 the pool reuses a released buffer immediately",
		},
		MinEvals: 100,
		Plan: func(tier string) []fw.ChildSpec {
			env := []string{"VERIF_POISON=1", "VERIF_YIELD=lw.pipe.send=0.3:300,lw.loop.closing=0.5:2000"}
			if tier == "thorough" {
				return []fw.ChildSpec{
					{Name: "runs", Mode: "runs", Shards: 8, Timeout: 40 * time.Minute, Env: env},
					{Name: "runs-p1", Mode: "runs", Shards: 2, Timeout: 40 * time.Minute, Env: []string{"GOMAXPROCS=1"}},
					{Name: "runs-race", Mode: "runs", Race: true, Shards: 4, Timeout: 40 * time.Minute, Env: env},
				}
			}
			return []fw.ChildSpec{
				{Name: "runs", Mode: "runs", Shards: 6, Timeout: 10 * time.Minute, Env: env},
				{Name: "runs-p1", Mode: "runs", Shards: 2, Timeout: 10 * time.Minute, Env: []string{"GOMAXPROCS=1"}},
			}
		},
		Run:    run,
		Replay: replay,
	})
}

// noReadRoutesJSON is a route list whose matchers all decide (no) without looking at the stream: nothing is
// prefetched and every connection falls through at once.
func noReadRoutesJSON(matchTimeoutMs int) string {
	f := false
	rs := []any{
		map[string]any{"match": []any{map[string]any{"verif_m2": map[string]any{"id": "N1", "need": 0, "const": f}}},
			"handle": []any{map[string]any{"handler": "verif_sink", "name": "sinkA"}}},
		map[string]any{"match": []any{map[string]any{"verif_m3": map[string]any{"id": "N2", "need": 0, "const": f}}, map[string]any{"verif_m2": map[string]any{"id": "N3", "need": 0, "const": f}}},
			"handle": []any{map[string]any{"handler": "verif_sink", "name": "sinkE"}}},
	}
	return fmt.Sprintf(`{"routes":%s,"matching_timeout":"%dms"}`, drive.J(rs), matchTimeoutMs)
}

func routesJSON(matchTimeoutMs int, withTLS, tlsFirst bool) string {
	m := func(id string, b byte) map[string]any {
		return map[string]any{"verif_m1": map[string]any{"id": id, "need": 1, "at": 0, "eq": int(b)}}
	}
	rs := []any{
		// A: terminal
		map[string]any{"match": []any{m("A", 'A')}, "handle": []any{map[string]any{"handler": "verif_sink", "name": "sinkA", "bufsize": 512}}},
		// C: non-terminal take, then falls through
		map[string]any{"match": []any{m("C", 'C')}, "handle": []any{map[string]any{"handler": "verif_take", "name": "takeC", "n": 5}}},
		// P: proxy_protocol header stripped, then falls through
		map[string]any{"match": []any{map[string]any{"proxy_protocol": map[string]any{}}}, "handle": []any{map[string]any{"handler": "proxy_protocol"}}},
		// K: non-terminal take of one byte behind routes that are still undecided on a three-byte first message (tls needs 5
		// bytes, proxy_protocol 12): a later route that can be decided runs first, and the routes after it decide on two bytes
		map[string]any{"match": []any{m("K", 'K')}, "handle": []any{map[string]any{"handler": "verif_take", "name": "takeK", "n": 1}}},
		// E: matcher error
		map[string]any{"match": []any{map[string]any{"verif_m1": map[string]any{"id": "E", "need": 1, "at": 0, "eq": int('E'), "err_if": true}}},
			"handle": []any{map[string]any{"handler": "verif_sink", "name": "sinkE"}}},
		// U: undecided forever for streams that start with 'U' (timeout or buffer full), NO for all others
		map[string]any{"match": []any{map[string]any{"verif_m1": map[string]any{"id": "U", "gate": int('U'), "need": 1 << 20, "at": 0, "eq": 0}}},
			"handle": []any{map[string]any{"handler": "verif_sink", "name": "sinkU"}}},
	}
	// S: the route's last handler is a subroute that nothing inside matches: falls through the subroute, then through the list
	rs = append(rs, map[string]any{"match": []any{m("S", 'S')}, "handle": []any{map[string]any{"handler": "subroute", "routes": []any{
		map[string]any{"match": []any{map[string]any{"verif_m2": map[string]any{"id": "SZ", "need": 2, "at": 1, "eq": int('Z')}}},
			"handle": []any{map[string]any{"handler": "verif_sink", "name": "sinkS"}}}}}}})
	// W: non-terminal tee (the branch is a recording sink; the handler passes a wrapped connection on), then falls through
	rs = append(rs, map[string]any{"match": []any{m("W", 'W')}, "handle": []any{map[string]any{"handler": "tee", "branch": []any{map[string]any{"handler": "verif_sink", "name": "teeW", "bufsize": 700}}}}})
	if withTLS {
		tr := map[string]any{"match": []any{map[string]any{"tls": map[string]any{}}}, "handle": []any{map[string]any{"handler": "tls"}}}
		if tlsFirst {
			// TLS is terminated in front of the other routes: their matchers then look at (and prefetch) the plaintext
			// before the connection falls through to the wrapped listener
			rs = append([]any{tr}, rs...)
		} else {
			rs = append(rs, tr)
		}
	}
	return fmt.Sprintf(`{"routes":%s,"matching_timeout":"%dms"}`, drive.J(rs), matchTimeoutMs)
}

type connPlan struct {
	ID     string
	Class  byte // A B C P Q V W(tee) K(short first message) E U F(lood) T(ls) L(ate) N(o-read fall-through) M(no-read, late)
	Stream []byte
	Wire   []byte
	Expect []byte // what the accepted connection must read (nil for non-delivered classes)
	Segs   []int
	// hold: a class A connection whose client keeps its side open until the run has been judged (a long-lived session in a
	// terminal handler while the listener is closed)
	hold   bool
	client *vnet.End
	server *vnet.End
	rec    *hmods.ConnRec
	tlsOK  chan error
	// sentAt: when the client had written everything it sends without waiting (0: it never got that far)
	sentAt atomic.Int64
}

type accepted struct {
	id    string
	data  []byte
	tls   *tls.ConnectionState
	raddr string
	seq   int
	err   string
}

func run(c *fw.Ctx) {
	hmods.Quiet(c.OutDir + "/caddyhome")
	cert, err := tlsutil.NewCert("verif.test")
	if err != nil {
		c.Note("cannot create certificate: %v", err)
		return
	}
	// a running config with a tls app so that the wrapper's tls handler can be provisioned
	if err := caddy.Load([]byte(tlsutil.CaddyConfig(cert, nil)), true); err != nil {
		c.Note("caddy.Load: %v", err)
		return
	}
	nRuns := c.Pick(240, 1500)
	nConns := c.Pick(48, 160)
	if c.Mode == "runs" && c.NShards <= 2 { // the GOMAXPROCS=1 children
		nRuns = c.Pick(80, 300)
	}
	for i := 0; i < nRuns; i++ {
		if !c.Mine(i) {
			continue
		}
		oneRun(c, cert, i, nConns)
		if i%6 == 1 {
			twoListeners(c, i)
		}
	}
	_ = caddy.Stop()
}

func oneRun(c *fw.Ctx, cert *tlsutil.Cert, index, nConns int) {
	r := fw.Rand(c.Seed, "c13", index)
	timeoutMs := 150 + r.Intn(200)
	ctx := caddy.ActiveContext()
	noRead := fw.Rand(c.Seed, "c13flavour", index).Intn(6) == 0
	tlsFirst := fw.Rand(c.Seed, "c13tlspos", index).Intn(2) == 0
	cfg := routesJSON(timeoutMs, true, tlsFirst)
	if noRead {
		cfg = noReadRoutesJSON(timeoutMs)
	}
	lw, err := hmods.LoadWrapper(ctx, cfg)
	if err != nil {
		c.Violation("C13 config rejected", err.Error(), nil)
		return
	}
	base := vnet.NewListener(fmt.Sprintf("c13-%d-%d", c.Shard, index))
	ln := lw.WrapListener(base)

	rAcc := fw.Rand(c.Seed, "c13acc", index) // the Accept consumer's own generator (it runs on its own goroutine)
	pace := []string{"immediate", "slow", "stops"}[r.Intn(3)]
	closeMode := []string{"after-all", "midway", "early"}[r.Intn(3)]
	stopAfter := 1 + r.Intn(nConns/2+1)

	// plan connections
	// Q: like P with a v1 "PROXY UNKNOWN" header (no addresses declared), V: like P with a v2 header
	classes := []byte("ABBBCCPPQQVEUFTTLSSWW")
	plans := make([]*connPlan, nConns)
	for k := range plans {
		cl := classes[r.Intn(len(classes))]
		n := 24 + r.Intn(6000)
		if r.Intn(3) == 0 {
			n = 24 + r.Intn(40)
		}
		id := fmt.Sprintf("c13-%d-%d-%d", c.Shard, index, k)
		s := oracle.Stream(streamDomain, uint64(fw.Mix(c.Seed, id)), n)
		if cl == 'B' && tlsFirst && r.Intn(3) == 0 {
			cl = 'K' // (only with the tls route in front: behind K every route has to decide on two bytes)
		}
		if noRead {
			cl = "NNM"[r.Intn(3)] // N: plain fall-through, M: the same with a client that sends most of its stream late
		}
		p := &connPlan{ID: id, Class: cl, Stream: s}
		// Streams are long enough for every matcher to decide (proxy_protocol needs 12 bytes), and the first
		// byte that later routes will see is one that no later route matches.
		switch cl {
		case 'A', 'B', 'E', 'U':
			s[0] = cl
			p.Wire = s
			if cl == 'B' {
				p.Expect = s
			}
		case 'C', 'L':
			// L = like C, but the client delivers the bytes that the routes after the non-terminal one need only in a
			// second segment (so matching has to wait for data again after a route already matched) and sends the rest
			// of its stream long after the matching timeout: a handed-over connection must still deliver it
			s[0] = 'C'
			s[5] = 'x'
			p.Wire = s
			p.Expect = s[5:]
		case 'F': // flood behind the undecided route: buffer full
			big := oracle.Stream(streamDomain, uint64(fw.Mix(c.Seed, id, "f")), 16000)
			big[0] = 'U'
			p.Stream, p.Wire = big, big
		case 'P':
			s[0] = 'x'
			hdr := []byte(fmt.Sprintf("PROXY TCP4 10.1.%d.%d 10.2.2.2 %d 443\r\n", k/250, k%250+1, 1000+k))
			p.Wire = append(hdr, s...)
			p.Expect = s
		case 'Q':
			s[0] = 'x'
			p.Wire = append([]byte("PROXY UNKNOWN\r\n"), s...)
			p.Expect = s
		case 'V':
			s[0] = 'x'
			hdr := append([]byte("\r\n\r\n\x00\r\nQUIT\n"), 0x21, 0x11, 0, 12, 10, 1, byte(k/250), byte(k%250+1), 10, 2, 2, 2, byte((1000+k)>>8), byte(1000+k), 1, 187)
			p.Wire = append(hdr, s...)
			p.Expect = s
		case 'T':
			s[0] = 'x' // whatever routes follow the tls route see a first byte that none of them matches
			p.Expect = s
		case 'N', 'M':
			p.Wire, p.Expect = s, s
		case 'S':
			s[0], s[1] = 'S', 'q'
			p.Wire, p.Expect = s, s
		case 'W':
			s[0] = 'W'
			p.Wire, p.Expect = s, s
		case 'K':
			s[0], s[1], s[2] = 'K', 'x', 'y'
			p.Wire, p.Expect = s, s[1:]
		}
		p.Segs = drive.Segmentation(drive.SegClasses[r.Intn(len(drive.SegClasses))], len(p.Wire), rand.New(rand.NewSource(r.Int63())))
		if len(p.Segs) > 400 {
			p.Segs = drive.Segmentation("random", len(p.Wire), rand.New(rand.NewSource(r.Int63())))
		}
		plans[k] = p
	}
	byID := map[string]*connPlan{}
	for _, p := range plans {
		byID[p.ID] = p
	}
	holdRun := !noRead && fw.Rand(c.Seed, "c13hold", index).Intn(4) == 0
	holdRelease := make(chan struct{})
	if holdRun {
		for _, p := range plans[:min(len(plans), 6)] {
			if p.Class == 'A' {
				p.hold = true
				break
			}
		}
		defer close(holdRelease)
	}

	// consumer
	var mu sync.Mutex
	var acc []*accepted
	var readers sync.WaitGroup
	consumerDone := make(chan struct{})
	acceptErr := make(chan error, 1)
	go func() {
		defer close(consumerDone)
		n := 0
		for {
			if pace == "stops" && n >= stopAfter {
				// stop accepting until the listener is closed, then observe what Accept says
				for !base.Closed() {
					time.Sleep(time.Millisecond)
				}
				time.Sleep(5 * time.Millisecond)
			}
			cn, err := ln.Accept()
			if err != nil {
				acceptErr <- err
				return
			}
			n++
			a := &accepted{seq: n}
			if e, ok := hmods.BaseConn(cn).(*vnet.End); ok {
				a.id = e.ID
			}
			if cs, ok := cn.(interface{ ConnectionState() tls.ConnectionState }); ok {
				st := cs.ConnectionState()
				a.tls = &st
			}
			if cn.RemoteAddr() != nil {
				a.raddr = cn.RemoteAddr().String()
			}
			mu.Lock()
			acc = append(acc, a)
			mu.Unlock()
			readers.Add(1)
			go func() {
				defer readers.Done()
				// (no read deadline of our own: a deadline left armed by layer4 must show up as a truncated stream)
				b := drive.ReadAll(cn)
				mu.Lock()
				a.data = b
				mu.Unlock()
				_ = cn.Close()
			}()
			if pace == "slow" {
				time.Sleep(time.Duration(200+rAcc.Intn(2000)) * time.Microsecond)
			}
		}
	}()

	// clients
	var clients sync.WaitGroup
	canary := oracle.StartCanary()
	defer canary.Stop()
	didSettle, unsettledNoisy := false, false
	closeAt := nConns
	switch closeMode {
	case "midway":
		closeAt = nConns/2 + r.Intn(nConns/2)
	case "early":
		closeAt = 1 + r.Intn(nConns/3+1)
	}
	injected := 0
	for k, p := range plans {
		if k == closeAt {
			break
		}
		p.rec = hmods.Track(p.ID)
		p.client, p.server = drive.NewPair(p.ID)
		base.Inject(p.server)
		injected++
		clients.Add(1)
		go func(p *connPlan) {
			defer clients.Done()
			if p.Class == 'T' {
				tc := tls.Client(&drive.SegWriter{Conn: p.client, Sizes: p.Segs}, &tls.Config{RootCAs: cert.Pool, ServerName: "verif.test", NextProtos: []string{"http/1.1"}})
				_ = p.client.SetReadDeadline(time.Now().Add(20 * time.Second))
				if err := tc.Handshake(); err != nil {
					return
				}
				_, _ = tc.Write(p.Stream)
				p.sentAt.Store(int64(vnet.Now()))
				_ = tc.CloseWrite()
				return
			}
			if p.Class == 'M' {
				_, _ = p.client.Write(p.Wire[:9])
				p.sentAt.Store(int64(vnet.Now()))
				time.Sleep(time.Duration(timeoutMs)*time.Millisecond + 250*time.Millisecond)
				_, _ = p.client.Write(p.Wire[9:])
				_ = p.client.CloseWrite()
				return
			}
			if p.Class == 'K' {
				// a short first message, then the client waits (longer than the matching timeout) before it goes on
				_, _ = p.client.Write(p.Wire[:3])
				p.sentAt.Store(int64(vnet.Now()))
				time.Sleep(time.Duration(timeoutMs)*time.Millisecond + 250*time.Millisecond)
				_, _ = p.client.Write(p.Wire[3:])
				_ = p.client.CloseWrite()
				return
			}
			if p.Class == 'L' {
				_, _ = p.client.Write(p.Wire[:9])
				time.Sleep(3 * time.Millisecond)
				_, _ = p.client.Write(p.Wire[9:22])
				p.sentAt.Store(int64(vnet.Now()))
				time.Sleep(time.Duration(timeoutMs)*time.Millisecond + 250*time.Millisecond)
				_, _ = p.client.Write(p.Wire[22:])
				_ = p.client.CloseWrite()
				return
			}
			_ = drive.WriteSegments(p.client, p.Wire, p.Segs, 3, 30*time.Microsecond)
			p.sentAt.Store(int64(vnet.Now()))
			if p.hold {
				return // (its side stays open; the run closes it at the very end)
			}
			_ = p.client.CloseWrite()
		}(p)
		if r.Intn(4) == 0 {
			time.Sleep(time.Duration(r.Intn(300)) * time.Microsecond)
		}
	}
	if closeMode == "after-all" {
		// let everything settle: all fall-through connections accepted (unless the consumer stops)
		clients.Wait()
		// A lost connection never settles, so the wait is generous (it only costs time when something is wrong):
		// on a loaded machine matching plus hand-over of the last connections can take seconds.
		deadline := time.Now().Add(time.Duration(timeoutMs)*time.Millisecond + 20*time.Second)
		for time.Now().Before(deadline) {
			if settled(plans[:injected], &mu, &acc, pace != "stops") {
				didSettle = true
				break
			}
			time.Sleep(2 * time.Millisecond)
		}
		if !didSettle && canary.MaxOversleep() > 2*time.Second {
			c.Inconclusive("noisy scheduler: run did not settle")
			unsettledNoisy = true
		}
	} else {
		time.Sleep(time.Duration(r.Intn(3000)) * time.Microsecond)
	}
	tClose := vnet.Now()
	_ = ln.Close()

	// after Close: the consumer's Accept must report closure
	var aerr error
	select {
	case aerr = <-acceptErr:
	case <-time.After(time.Duration(timeoutMs)*time.Millisecond + 8*time.Second):
		c.Violation("C13 accept-blocked-after-close", "Accept did not return within matching_timeout + 8 s after the listener was closed", map[string]any{"run": index, "pace": pace, "close": closeMode})
	}
	if aerr != nil && !errors.Is(aerr, net.ErrClosed) {
		c.Violation("C13 accept-wrong-error", fmt.Sprintf("Accept returned %v after Close, want net.ErrClosed", aerr), map[string]any{"run": index})
	}
	// unblock clients whose connections will never be read
	doneClients := make(chan struct{})
	go func() { clients.Wait(); close(doneClients) }()
	select {
	case <-doneClients:
	case <-time.After(3 * time.Second):
		for _, p := range plans[:injected] {
			if !p.hold {
				_ = p.client.Close()
			}
		}
		<-doneClients
	}
	readersDone := make(chan struct{})
	go func() { readers.Wait(); close(readersDone) }()
	select {
	case <-readersDone:
	case <-time.After(25 * time.Second):
		c.Inconclusive("accepted-connection readers did not finish")
	}
	// census
	if holdRun {
		// (the held connection's terminal handler is still running, as it should)
	} else if censusFailed {
		// goroutines leaked by an earlier run of this process are still there; do not wait for them again
	} else if n, first := oracle.WaitGoroutinesGone("layer4.(*listener)", time.Duration(timeoutMs)*time.Millisecond+5*time.Second); n > 0 {
		censusFailed = true
		c.Violation("C13 goroutine-left-in-listener", fmt.Sprintf("%d goroutine(s) still inside layer4.(*listener) after Close", n), map[string]any{"run": index, "stack": first})
	}

	// judge
	mu.Lock()
	defer mu.Unlock()
	count := map[string]int{}
	for _, a := range acc {
		count[a.id]++
	}
	delivered := 0
	report := func(kind, what string, p *connPlan) {
		w := map[string]any{"run": index, "pace": pace, "close": closeMode, "tls_first": tlsFirst, "long_lived_terminal_session": holdRun, "conn": p.ID, "class": string(p.Class), "stream_len": len(p.Stream), "segs": len(p.Segs)}
		if p.rec != nil {
			ev := p.rec.Events()
			if len(ev) > 30 {
				ev = ev[:30]
			}
			w["events"] = ev
		}
		c.Violation("C13 "+kind, what, w)
	}
	time.Sleep(5 * time.Millisecond)
	neverAccepted := 0
	// one shared grace period per run for "must be closed by now" observations
	graceEnd := time.Now().Add(3 * time.Second)
	waitClosed := func(p *connPlan) bool {
		for p.server.CloseCalls.Load() == 0 {
			if time.Now().After(graceEnd) {
				return false
			}
			time.Sleep(2 * time.Millisecond)
		}
		return true
	}
	for _, p := range plans[:injected] {
		n := count[p.ID]
		fall := p.Expect != nil
		if !base.WasAccepted(p.server) {
			// still in the scripted listener's backlog when it was closed: layer4 never saw this connection
			neverAccepted++
			if n > 0 {
				report("unknown-connection-delivered", "Accept returned a connection that the wrapped listener never handed to layer4", p)
			}
			continue
		}
		switch {
		case !fall && n > 0:
			report(fmt.Sprintf("consumed-or-rejected-delivered class %c", p.Class), fmt.Sprintf("connection of class %c (consumed by a terminal handler or rejected) was returned by Accept", p.Class), p)
		case fall && n > 1:
			report("delivered-twice", fmt.Sprintf("a fall-through connection was returned by Accept %d times", n), p)
		case fall && n == 0:
			// not delivered: legitimate only if the listener was closed while it was pending (or the client
			// failed before handing over); then it must have been closed
			timedOut := false
			var timedOutAt, blocked time.Duration
			for _, l := range p.server.Log() {
				if l.Op == "read" && strings.Contains(l.Err, "timeout") && !timedOut {
					timedOut, timedOutAt, blocked = true, l.T1, l.T1-l.T0
				}
			}
			if timedOut && blocked < 10*time.Millisecond {
				// The matching deadline had passed before layer4 even asked for the next bytes (an expired deadline fails a
				// read at once, also with data queued): it did not give up waiting for data, it ran out of time between
				// reads - matching on this machine was slower than the 150-350 ms timeout allows. Giving up on a connection
				// at the matching timeout is layer4's right (C05); only a connection that layer4 kept waiting on, for data
				// that the client had long sent or was never going to send, is a lost hand-over.
				c.Inconclusive("matching deadline passed between reads (layer4 starved)")
				continue
			}
			if sent := time.Duration(p.sentAt.Load()); timedOut && (sent == 0 || sent > timedOutAt-2*time.Millisecond) {
				// layer4 gave up at its matching deadline (150-350 ms) before this client had even written what it sends
				// straight away (hundreds of small segments on a busy machine): slower than the timeout allows, which is
				// not the wrapper's doing
				c.Inconclusive("client slower than the matching timeout")
				continue
			}
			if timedOut && canary.MaxOversleep() > time.Duration(timeoutMs)*time.Millisecond/8 {
				// layer4 gave up on this connection at its matching deadline (150-350 ms) and the scheduler canary
				// shows that goroutines of this process were held up for a good part of that: the client was too
				// slow on this machine, which is not the wrapper's doing
				c.Inconclusive("noisy scheduler: matching timed out on a starved client")
				continue
			}
			if closeMode == "after-all" && pace != "stops" && !unsettledNoisy {
				report("never-delivered", "a fall-through connection was never returned by Accept although the consumer kept accepting and the listener stayed open until everything had settled", p)
			} else if p.server.CloseCalls.Load() == 0 {
				// give the drain a moment
				if !waitClosed(p) {
					report("pending-neither-delivered-nor-closed", "a connection pending when the listener was closed was neither returned by Accept nor closed", p)
				}
			}
		}
		if !fall && p.server.CloseCalls.Load() == 0 && !p.hold {
			if !waitClosed(p) {
				report(fmt.Sprintf("not-closed class %c", p.Class), fmt.Sprintf("connection of class %c was not closed by layer4", p.Class), p)
			}
		}
	}
	for _, a := range acc {
		p := byID[a.id]
		if p == nil {
			c.Violation("C13 unknown-connection-delivered", "Accept returned a connection that is not one of the injected ones: "+a.id, nil)
			continue
		}
		if p.Expect == nil {
			continue
		}
		delivered++
		// whatever deadline matching armed on the client connection must be gone when the connection is handed over
		// (the consumer sets none): the last deadline layer4 set has to be "none"
		var lastDL *vnet.CallLog
		for _, l := range p.server.Log() {
			if l.Op == "setreaddeadline" || l.Op == "setdeadline" {
				l := l
				lastDL = &l
			}
		}
		if lastDL != nil && !lastDL.Value.IsZero() {
			report(fmt.Sprintf("deadline-left-armed class %c", p.Class), "a connection was handed to the wrapped listener's consumer with the matching read deadline still armed (last deadline set on the client connection is not the zero time)", p)
		}
		if d := oracle.Diff(a.data, p.Expect); d != "" {
			kind := oracle.DiffKind(a.data, p.Expect)
			// a connection accepted around the close instant may have been closed by the drain as well
			report(fmt.Sprintf("accepted-stream %s class %c", kind, p.Class), fmt.Sprintf("the accepted connection read a stream that is not the client's stream from the first unconsumed byte: %s", d), p)
		}
		if p.Class == 'T' {
			if a.tls == nil {
				report("tls-state-missing", "the accepted connection of a TLS-terminated client does not expose ConnectionState()", p)
			} else if a.tls.ServerName != "verif.test" || a.tls.NegotiatedProtocol != "http/1.1" {
				report("tls-state-wrong", fmt.Sprintf("ConnectionState() exposes server name %q / protocol %q", a.tls.ServerName, a.tls.NegotiatedProtocol), p)
			}
		}
		if p.Class == 'P' || p.Class == 'V' {
			want := fmt.Sprintf("10.1.")
			if len(a.raddr) < 5 || a.raddr[:5] != want {
				report("proxy-address-lost", fmt.Sprintf("accepted connection after proxy_protocol has remote address %q, want the header's 10.1.x.y", a.raddr), p)
			}
		}
	}
	for _, p := range plans[:injected] {
		if p.hold && p.client != nil {
			_ = p.client.Close() // the long-lived session ends now that the run has been judged
		}
		hmods.Untrack(p.ID)
	}
	// order signature: accept order relative to injection order (inversions), pending at close
	order := make([]int, 0, len(acc))
	for _, a := range acc {
		var k int
		fmt.Sscanf(a.id[len(fmt.Sprintf("c13-%d-%d-", c.Shard, index)):], "%d", &k)
		order = append(order, k)
	}
	inv := 0
	for i := range order {
		for j := i + 1; j < len(order); j++ {
			if order[i] > order[j] {
				inv++
			}
		}
	}
	sorted := sort.IntsAreSorted(order)
	sig := fmt.Sprintf("%s/%s/inv%d/sorted%v/acc%d/of%d", pace, closeMode, bucket(inv), sorted, len(acc), injected)
	c.SetAdd("interleavings", sig)
	c.Obs("connections", int64(injected))
	c.Obs("left_in_backlog_at_close", int64(neverAccepted))
	c.Obs("accepted", int64(len(acc)))
	c.Obs("delivered_streams_compared", int64(delivered))
	_ = tClose
	c.Case(fw.Hash(sig, index), delivered > 0, func() any {
		return map[string]any{"run": index, "pace": pace, "close": closeMode, "connections": injected, "accepted": len(acc), "inversions": inv}
	})
}

var censusFailed bool

func bucket(n int) int {
	switch {
	case n == 0:
		return 0
	case n < 5:
		return 1
	case n < 50:
		return 2
	}
	return 3
}

func settled(plans []*connPlan, mu *sync.Mutex, acc *[]*accepted, needAccept bool) bool {
	mu.Lock()
	got := map[string]bool{}
	for _, a := range *acc {
		got[a.id] = true
	}
	mu.Unlock()
	for _, p := range plans {
		if p.Expect != nil {
			if needAccept && !got[p.ID] && p.server.CloseCalls.Load() == 0 {
				return false // (a connection that layer4 closed will not be delivered any more: nothing to wait for)
			}
		} else if p.server.CloseCalls.Load() == 0 && !p.hold {
			return false
		}
	}
	return true
}

var _ = json.Marshal
var _ layer4.Handler

func replay(c *fw.Ctx, raw json.RawMessage) {
	var w struct {
		Run int `json:"run"`
	}
	if err := json.Unmarshal(raw, &w); err != nil {
		fmt.Println("replay: cannot decode run:", err)
		return
	}
	hmods.Quiet(c.OutDir + "/caddyhome")
	cert, err := tlsutil.NewCert("verif.test")
	if err != nil {
		return
	}
	if err := caddy.Load([]byte(tlsutil.CaddyConfig(cert, nil)), true); err != nil {
		fmt.Println("replay:", err)
		return
	}
	for k := 0; k < 3; k++ { // interleavings vary: a few repetitions of the same scripted run
		oneRun(c, cert, w.Run, 48)
	}
	_ = caddy.Stop()
}
