package c13

import (
	"errors"
	"fmt"
	"net"
	"sync"
	"time"

	"github.com/caddyserver/caddy/v2"

	"verifharness/drive"
	"verifharness/fw"
	"verifharness/hmods"
	"verifharness/oracle"
	"verifharness/vnet"
)

// twoListeners: one listener wrapper instance wraps two listeners (Caddy calls WrapListener once per listen address of
// a server). Every fall-through connection has to come out of the Accept of the listener it arrived on, with its stream
// intact; closing one listener must leave the other one serving; closing both must not crash anything.
func twoListeners(c *fw.Ctx, index int) {
	r := fw.Rand(c.Seed, "c13two", index)
	lw, err := hmods.LoadWrapper(caddy.ActiveContext(), routesJSON(2000, false, false))
	if err != nil {
		c.Violation("C13 config rejected", err.Error(), nil)
		return
	}
	type side struct {
		name  string
		base  *vnet.Listener
		ln    net.Listener
		mu    sync.Mutex
		got   map[string][]byte
		errCh chan error
	}
	mk := func(name string) *side {
		s := &side{name: name, got: map[string][]byte{}, errCh: make(chan error, 1)}
		s.base = vnet.NewListener(fmt.Sprintf("c13two-%d-%d-%s", c.Shard, index, name))
		s.ln = lw.WrapListener(s.base)
		go func() {
			for {
				cn, err := s.ln.Accept()
				if err != nil {
					s.errCh <- err
					return
				}
				id := "?"
				if e, ok := hmods.BaseConn(cn).(*vnet.End); ok {
					id = e.ID
				}
				go func() {
					b := drive.ReadAll(cn)
					s.mu.Lock()
					s.got[id] = b
					s.mu.Unlock()
					_ = cn.Close()
				}()
			}
		}()
		return s
	}
	A, B := mk("A"), mk("B")
	sides := []*side{A, B}
	type sent struct {
		id     string
		side   int
		stream []byte
	}
	var all []sent
	offer := func(k, which int) {
		id := fmt.Sprintf("c13two-%d-%d-%d", c.Shard, index, k)
		st := oracle.Stream(streamDomain, uint64(fw.Mix(c.Seed, id)), 30+r.Intn(3000))
		st[0] = 'B' // falls through
		cl, sv := drive.NewPair(id)
		sides[which].base.Inject(sv)
		all = append(all, sent{id, which, st})
		go func() {
			_, _ = cl.Write(st)
			_ = cl.CloseWrite()
		}()
	}
	report := func(kind, what string) {
		c.Violation("C13 two listeners of one wrapper: "+kind, what, map[string]any{"run": index})
	}
	waitAll := func(from int) bool {
		for dl := time.Now().Add(15 * time.Second); time.Now().Before(dl); time.Sleep(2 * time.Millisecond) {
			done := true
			for _, s := range all[from:] {
				found := false
				for _, sd := range sides {
					sd.mu.Lock()
					_, ok := sd.got[s.id]
					sd.mu.Unlock()
					found = found || ok
				}
				done = done && found
			}
			if done {
				return true
			}
		}
		return false
	}
	judge := func(from int) {
		for _, s := range all[from:] {
			own, other := sides[s.side], sides[1-s.side]
			own.mu.Lock()
			b, ok := own.got[s.id]
			own.mu.Unlock()
			other.mu.Lock()
			_, stray := other.got[s.id]
			other.mu.Unlock()
			switch {
			case stray:
				report("delivered-by-the-other-listener", fmt.Sprintf("a connection that arrived on listener %s was returned by the Accept of listener %s", own.name, other.name))
			case !ok:
				report("never-delivered", fmt.Sprintf("a fall-through connection that arrived on listener %s was not returned by its Accept within 15 s", own.name))
			case string(b) != string(s.stream):
				report("stream "+oracle.DiffKind(b, s.stream), "the accepted connection did not deliver the client's stream: "+oracle.Diff(b, s.stream))
			}
		}
	}
	n := 8 + r.Intn(10)
	for k := 0; k < n; k++ {
		offer(k, k%2)
	}
	waitAll(0)
	judge(0)
	// close A: its Accept reports closure, B keeps serving
	_ = A.ln.Close()
	select {
	case err := <-A.errCh:
		if !errors.Is(err, net.ErrClosed) {
			report("accept-wrong-error", fmt.Sprintf("Accept of the closed listener returned %v", err))
		}
	case <-time.After(10 * time.Second):
		report("accept-blocked-after-close", "Accept of the closed listener did not return within 10 s")
	}
	select {
	case err := <-B.errCh:
		report("other-listener-closed-too", fmt.Sprintf("closing listener A made the Accept of listener B return %v", err))
		return
	default:
	}
	from := len(all)
	for k := n; k < n+4; k++ {
		offer(k, 1)
	}
	waitAll(from)
	judge(from)
	_ = B.ln.Close()
	select {
	case <-B.errCh:
	case <-time.After(10 * time.Second):
		report("accept-blocked-after-close", "Accept of listener B did not return within 10 s after it was closed")
	}
	c.Obs("two_listener_runs", 1)
	c.Case(fw.Hash("two-listeners", n), true, func() any { return map[string]any{"run": index, "connections": len(all)} })
}
