// Package c09 monitors UDP demultiplexing: datagrams are grouped per client
// address into virtual connections, delivered in order to their own
// association only, replies go to the owner's address, the server loop
// survives every arrival/close pattern, and a client whose association ended
// is served by a fresh one.
package c09

import (
	"bytes"
	"encoding/binary"
	"encoding/json"
	"fmt"
	"net"
	"os"
	"sort"
	"strings"
	"sync"
	"time"

	"verifharness/drive"
	"verifharness/fw"
	"verifharness/hmods"
	"verifharness/oracle"
	"verifharness/vnet"
)

const streamDomain = 0xC09

func init() {
	fw.Register(&fw.Prop{
		ID: "C09",
		Rule: "case = one scenario on a scripted packet conn (or a real UDP socket storm): 1-8 client addresses, bursts beyond the channel capacities, datagram sizes {1..9000}, handler kinds " +
			"(recording handler ending after 0/1/3/many reads, slow, small read buffer, closing the connection itself; shipped echo; non-matching route; proxy to a UDP echo upstream). " +
			"oracle: each association's delivered byte stream is a concatenation of an in-order subsequence of its own client's datagrams; a datagram reaches at most one association; every reply " +
			"is addressed to the owner; the process survives and answers a fresh probe client after each storm; after an association ended, one of 5 spaced probes of that client is served by a new association. " +
			"non-trivial = >=2 datagrams delivered; distinct = hash(scenario parameters, event-kind order signature). real-socket scenario proxydown: the proxy handler's upstream port is closed when the first clients send (ICMP unreachable ends the upstream side), then an echo upstream starts there and 2-4 clients with fresh addresses must each get their own datagram back. scripted scenarios may give the server further listen addresses (second packet listener, stream listener) after the UDP one. real-socket scenario twosock: a server with two UDP listen addresses and the echo handler; each client uses one socket for two conversations, one per server socket; every echo comes back from the socket it was sent to, with its own payload, in order.",
		Assumptions: []string{
			"datagram loss at association teardown is allowed (the statement does not promise reliability)",
			"the 30 s idle expiry is exercised only in the thorough tier",
		},
		MinEvals: 100,
		Plan: func(tier string) []fw.ChildSpec {
			y := []string{"VERIF_YIELD=udp.loop.send=0.2:150,udp.close=0.3:300,udp.idle=0.5:1500"}
			if tier == "thorough" {
				return []fw.ChildSpec{
					{Name: "scen", Mode: "scen", Shards: 8, Timeout: 40 * time.Minute, Env: y},
					{Name: "scen-noyield", Mode: "scen", Shards: 4, Timeout: 40 * time.Minute},
					{Name: "real", Mode: "real", Shards: 2, Timeout: 40 * time.Minute},
					{Name: "idle", Mode: "idle", Shards: 1, Timeout: 40 * time.Minute},
					{Name: "scen-race", Mode: "scen", Race: true, Shards: 4, Timeout: 40 * time.Minute, Env: y},
				}
			}
			return []fw.ChildSpec{
				{Name: "scen", Mode: "scen", Shards: 6, Timeout: 10 * time.Minute, Env: y},
				{Name: "scen-noyield", Mode: "scen", Shards: 2, Timeout: 10 * time.Minute},
				{Name: "real", Mode: "real", Shards: 1, Timeout: 10 * time.Minute},
			}
		},
		Run:    run,
		Replay: replay,
	})
}

// datagram: 'D' clientID(2) seq(4) padLen(2) pad
func makeDatagram(client, seq, size int) []byte {
	if size < 9 {
		size = 9
	}
	b := make([]byte, 9, size)
	b[0] = 'D'
	binary.BigEndian.PutUint16(b[1:], uint16(client))
	binary.BigEndian.PutUint32(b[3:], uint32(seq))
	binary.BigEndian.PutUint16(b[7:], uint16(size-9))
	b = append(b, oracle.Stream(streamDomain, uint64(client)<<32|uint64(seq), size-9)...)
	return b
}

type dgram struct{ client, seq, size int }

// parseStream splits a delivered byte stream into datagrams; ok=false if it is not a concatenation of whole datagrams
// with correct padding (a trailing partial datagram is tolerated only when the association ended mid-read: never here).
func parseStream(s []byte) ([]dgram, string) {
	var out []dgram
	for len(s) > 0 {
		if len(s) < 9 || s[0] != 'D' {
			return out, fmt.Sprintf("bytes that are not a datagram header at stream offset (remaining %d bytes: %x)", len(s), clip(s, 12))
		}
		cl, seq, pl := int(binary.BigEndian.Uint16(s[1:])), int(binary.BigEndian.Uint32(s[3:])), int(binary.BigEndian.Uint16(s[7:]))
		if len(s) < 9+pl {
			// the association may end in the middle of a datagram (small read buffers): tolerated at the very
			// end of the stream as long as what is there is an intact prefix of that datagram
			if bytes.Equal(s[9:], oracle.Stream(streamDomain, uint64(cl)<<32|uint64(seq), pl)[:len(s)-9]) {
				out = append(out, dgram{cl, seq, len(s)})
				return out, ""
			}
			return out, fmt.Sprintf("truncated datagram client=%d seq=%d with altered payload (have %d of %d payload bytes)", cl, seq, len(s)-9, pl)
		}
		if !bytes.Equal(s[9:9+pl], oracle.Stream(streamDomain, uint64(cl)<<32|uint64(seq), pl)) {
			return out, fmt.Sprintf("datagram client=%d seq=%d has altered payload", cl, seq)
		}
		out = append(out, dgram{cl, seq, 9 + pl})
		s = s[9+pl:]
	}
	return out, ""
}

func clip(b []byte, n int) []byte {
	if len(b) > n {
		return b[:n]
	}
	return b
}

// Scenario is one generated schedule.
type Scenario struct {
	Index    int    `json:"index"`
	Handler  string `json:"handler"` // rec, echo, nomatch, closeself, proxy
	EndAfter int    `json:"end_after"`
	DelayUs  int    `json:"delay_us"`
	BufSize  int    `json:"bufsize"`
	Clients  int    `json:"clients"`
	PerBurst int    `json:"per_burst"`
	Bursts   int    `json:"bursts"`
	Sizes    []int  `json:"sizes"`
	GapUs    int    `json:"gap_us"`
	// Match puts a data-reading matcher in front of the recording handler, so the first datagram is taken in
	// by the matching phase's prefetch (one chunk of 2048 bytes) before the handler reads.
	Match bool `json:"match,omitempty"`
	// Zones: the clients are IPv6 link-local peers with the same address and port that differ only in the zone
	// (interface) - still different clients
	Zones bool `json:"zones,omitempty"`
	// Pileup: 14 clients whose handlers each read one datagram, pause and end. 13 of them get one datagram; the last
	// one gets eight at once, so the server loop is held up behind its full queue while the other 13 associations end
	// (more than the loop's close-notification channel holds) - and then this one ends too.
	Pileup bool `json:"pileup,omitempty"`
	// PathAddrs: the clients' addresses are not UDP addresses but path names (a unixgram packet listener): they do not
	// look like ip:port, and they are different clients all the same
	PathAddrs bool `json:"path_addrs,omitempty"`
	// ExtraListen: the server has further listen addresses after the UDP one ("udp": a second packet listener that gets
	// no traffic, "tcp": a stream listener, "both")
	ExtraListen string `json:"extra_listen,omitempty"`
}

// pathAddr is the address of a unixgram client.
type pathAddr string

func (pathAddr) Network() string  { return "unixgram" }
func (a pathAddr) String() string { return string(a) }

var sizeChoices = []int{9, 10, 64, 1200, 2048, 2049, 8999, 9000}

// boundary sizes: a datagram exactly as large as the buffer it is read into (handler buffer or prefetch chunk)
var boundarySizes = []int{64, 1000, 2048, 2047, 4096}

func genScenario(seed int64, i int) *Scenario {
	r := fw.Rand(seed, "c09", i)
	s := &Scenario{Index: i}
	s.Handler = []string{"rec", "rec", "rec", "echo", "nomatch", "closeself", "proxy", "readclose", "readclose"}[r.Intn(9)]
	s.EndAfter = []int{0, 1, 3, 7, 0}[r.Intn(5)]
	s.DelayUs = []int{0, 0, 100, 1500}[r.Intn(4)]
	s.BufSize = []int{9000, 9000, 1000, 64}[r.Intn(4)]
	s.Clients = 1 + r.Intn(8)
	s.PerBurst = []int{1, 3, 6, 12, 30}[r.Intn(5)]
	s.Bursts = 1 + r.Intn(4)
	for k := 0; k < 4; k++ {
		s.Sizes = append(s.Sizes, sizeChoices[r.Intn(len(sizeChoices))])
	}
	s.GapUs = []int{0, 0, 200, 3000}[r.Intn(4)]
	if s.Handler == "echo" || s.Handler == "proxy" {
		s.EndAfter, s.BufSize = 0, 9000
	}
	s.Match = r.Intn(3) == 0
	s.Zones = r.Intn(5) == 0 && s.Handler != "proxy"
	s.PathAddrs = !s.Zones && s.Handler != "proxy" && r.Intn(6) == 0
	if i%16 == 5 {
		s.Pileup, s.Handler, s.Clients, s.EndAfter, s.DelayUs, s.BufSize, s.Match = true, []string{"rec", "closeself"}[r.Intn(2)], 14, 1, 30000, 9000, false
	}
	s.ExtraListen = []string{"", "", "", "udp", "tcp", "both"}[fw.Rand(seed, "c09listen", i).Intn(6)]
	if r.Intn(3) == 0 {
		s.Sizes[r.Intn(len(s.Sizes))] = boundarySizes[r.Intn(len(boundarySizes))]
		if r.Intn(2) == 0 {
			s.Sizes = s.Sizes[:1] // only that size
			s.Sizes[0] = boundarySizes[r.Intn(len(boundarySizes))]
		}
	}
	if s.Handler == "proxy" {
		// The relay pumps the client side with io.Copy into io.Discard (8 KiB buffer), so a datagram larger than
		// 8192 bytes reaches the upstream as two datagrams. The property speaks about which association and in
		// which order, not about datagram boundaries: keep relayed datagrams below that size (noted in DESIGN.md).
		for i := range s.Sizes {
			if s.Sizes[i] > 8192 {
				s.Sizes[i] = 2049
			}
		}
	}
	return s
}

func run(c *fw.Ctx) {
	hmods.Quiet(c.OutDir + "/caddyhome")
	switch c.Mode {
	case "real":
		runReal(c)
	case "idle":
		runIdle(c)
	default:
		if dbg := os.Getenv("VERIF_C09_DEBUG"); dbg != "" {
			var i int
			fmt.Sscanf(dbg, "%d", &i)
			debugScenario = true
			runScenario(c, genScenario(c.Seed, i))
			return
		}
		n := c.Pick(480, 8000)
		for i := 0; i < n; i++ {
			if c.Mine(i) {
				runScenario(c, genScenario(c.Seed, i))
			}
		}
	}
}

var udpEcho struct {
	once sync.Once
	addr string
}

// startUDPEcho starts one real UDP echo upstream for the proxy scenarios.
func startUDPEcho() string {
	udpEcho.once.Do(func() {
		pc, err := net.ListenPacket("udp", "127.0.0.1:0")
		if err != nil {
			return
		}
		udpEcho.addr = pc.LocalAddr().String()
		go func() {
			buf := make([]byte, 65536)
			for {
				n, a, err := pc.ReadFrom(buf)
				if err != nil {
					return
				}
				_, _ = pc.WriteTo(buf[:n], a)
			}
		}()
	})
	return udpEcho.addr
}

func routesFor(s *Scenario) string {
	switch s.Handler {
	case "echo":
		return `[{"handle":[{"handler":"echo"}]}]`
	case "nomatch":
		return `[{"match":[{"verif_m1":{"id":"never","need":0,"const":false}}],"handle":[{"handler":"verif_udp","name":"u"}]}]`
	case "proxy":
		return fmt.Sprintf(`[{"handle":[{"handler":"proxy","upstreams":[{"dial":["udp/%s"]}]}]}]`, startUDPEcho())
	}
	route := map[string]any{"handle": []any{map[string]any{"handler": "verif_udp", "name": "u", "end_after": s.EndAfter,
		"delay_us": s.DelayUs, "bufsize": s.BufSize, "close_self": s.Handler == "closeself", "read_close": s.Handler == "readclose"}}}
	if s.Match {
		route["match"] = []any{map[string]any{"verif_m1": map[string]any{"id": "any1", "need": 1, "at": 0, "eq": 0, "neg": true}}}
	}
	return drive.J([]any{route})
}

var addrSeq int
var debugScenario bool

// clientAddr fabricates client addresses: the clients of one scenario share an IP address and differ in the
// port (demultiplexing must use the whole address); across scenarios the IP changes.
func clientAddr(k int) *net.UDPAddr { return clientAddrZ(k, false) }

func clientAddrZ(k int, zones bool) *net.UDPAddr {
	if k == 0 || k == 99 {
		addrSeq++
	}
	if zones && k != 99 {
		return &net.UDPAddr{IP: net.ParseIP(fmt.Sprintf("fe80::%x", addrSeq&0xffff)), Port: 2000, Zone: fmt.Sprintf("if%d", k)}
	}
	return vnet.UDPAddr(fmt.Sprintf("198.18.%d.%d", (addrSeq>>8)&0xff, addrSeq&0xff), 2000+k)
}

func runScenario(c *fw.Ctx, s *Scenario) {
	name := vnet.UniqueName("c09pc")
	pc := vnet.NewNamedPacketConn(name)
	listen := []string{"verifudp/" + name + ":1"}
	if s.ExtraListen == "udp" || s.ExtraListen == "both" {
		_ = vnet.NewNamedPacketConn(name + "b")
		listen = append(listen, "verifudp/"+name+"b:1")
	}
	if s.ExtraListen == "tcp" || s.ExtraListen == "both" {
		listen = append(listen, "veriftcp/"+name+"t:1")
	}
	cfg := fmt.Sprintf(`{"servers":{"s":{"listen":%s,"routes":%s,"matching_timeout":"2s"}}}`, drive.J(listen), routesFor(s))
	app, err := drive.StartAppConfig(cfg, "")
	if err != nil {
		c.Violation("C09 config rejected", err.Error(), s)
		return
	}
	defer app.Stop()
	c.Journal("scenario %s", drive.J(s))

	addrs := make([]net.Addr, s.Clients)
	recs := make([]*hmods.ConnRec, s.Clients)
	for k := range addrs {
		addrs[k] = clientAddrZ(k, s.Zones)
		if s.PathAddrs {
			addrs[k] = pathAddr(fmt.Sprintf("/run/verif/c09-%d-client-%d.sock", addrSeq, k))
		}
		recs[k] = hmods.Track(addrs[k].Network() + ":" + addrs[k].String())
	}
	defer func() {
		for _, a := range addrs {
			hmods.Untrack(a.Network() + ":" + a.String())
		}
	}()
	r := fw.Rand(c.Seed, "c09sched", s.Index)
	sent := map[[2]int]int{} // (client, seq) -> size
	seqs := make([]int, s.Clients)
	if s.Pileup {
		for k := 0; k < s.Clients-1; k++ {
			seqs[k]++
			pc.Inject(makeDatagram(k, seqs[k], 32), addrs[k])
			sent[[2]int{k, seqs[k]}] = 32
		}
		k := s.Clients - 1
		for j := 0; j < 8; j++ {
			seqs[k]++
			pc.Inject(makeDatagram(k, seqs[k], 32), addrs[k])
			sent[[2]int{k, seqs[k]}] = 32
		}
	}
	for b := 0; b < s.Bursts && !s.Pileup; b++ {
		for j := 0; j < s.PerBurst; j++ {
			k := r.Intn(s.Clients)
			size := s.Sizes[r.Intn(len(s.Sizes))]
			seqs[k]++
			pc.Inject(makeDatagram(k, seqs[k], size), addrs[k])
			sent[[2]int{k, seqs[k]}] = size
		}
		if s.GapUs > 0 {
			time.Sleep(time.Duration(s.GapUs) * time.Microsecond)
		}
	}
	// let the loop and the handlers work through the backlog
	waitQuiet(pc, recs, 3*time.Second)

	report := func(kind, what string, extra any) {
		c.Violation(fmt.Sprintf("C09 %s [%s]", kind, s.Handler), what, map[string]any{"scenario": s, "detail": extra})
	}

	// survival probe: a fresh client must get service
	probe := clientAddr(99)
	prec := hmods.Track("udp:" + probe.String())
	defer hmods.Untrack("udp:" + probe.String())
	pc.Inject(makeDatagram(999, 1, 32), probe)
	served := false
	deadline := time.Now().Add(5 * time.Second)
	// The loop serves one datagram at a time and waits while the queue of the client it is delivering to is full, so
	// a slow handler with a long backlog legitimately delays everybody else: the 5 s count from the last sign of
	// progress (a read by any association, a shrinking backlog), with a generous cap.
	progress := func() int {
		n := -pc.Backlog()
		for _, rc := range recs {
			n += rc.Count("udp-read", "")
		}
		return n
	}
	last, hardStop := progress(), time.Now().Add(90*time.Second)
	for time.Now().Before(deadline) && time.Now().Before(hardStop) {
		if p := progress(); p != last {
			last, deadline = p, time.Now().Add(5*time.Second)
		}
		switch s.Handler {
		case "echo", "proxy":
			for _, sd := range pc.Sent() {
				if sd.Addr == probe.String() {
					served = true
				}
			}
		case "nomatch":
			served = pc.Backlog() == 0 // nothing observable but the loop consuming its queue
		default:
			served = prec.Count("udp-read", "") > 0
		}
		if served {
			break
		}
		time.Sleep(time.Millisecond)
	}
	if !served {
		report("loop-not-serving", "a fresh client's datagram was not served although nothing had moved for 5 s after the storm (server loop dead or stuck)", nil)
	}

	// delivery oracle (recording handlers)
	delivered := 0
	orderSig := ""
	if s.Handler == "rec" || s.Handler == "closeself" || s.Handler == "readclose" {
		seen := map[[2]int]int{}
		for k, rec := range recs {
			streams := map[int][]byte{}
			var assocOrder []int
			kinds := []byte{}
			for _, e := range rec.Events() {
				switch e.Kind {
				case "udp-start":
					kinds = append(kinds, 's')
				case "udp-read":
					if _, ok := streams[e.N]; !ok {
						assocOrder = append(assocOrder, e.N)
					}
					streams[e.N] = append(streams[e.N], e.Data...)
					kinds = append(kinds, 'r')
				case "udp-end":
					kinds = append(kinds, 'e')
				}
			}
			orderSig += compress(kinds) + "|"
			// a client has at most one open virtual connection at a time: a new one may only start after the
			// previous one ended (idle expiry, which notifies early by design, does not occur in these short runs)
			open := map[int]bool{}
			for _, e := range rec.Events() {
				switch e.Kind {
				case "udp-start":
					for a := range open {
						report("overlapping-associations", fmt.Sprintf("client %d: association %d started while association %d of the same client was still open; the client's datagrams are now split between two live connections", k, e.N, a), nil)
						break
					}
					open[e.N] = true
				case "udp-end":
					delete(open, e.N)
					// Nothing in these runs ends a virtual connection but the handler itself: no idle expiry (30 s),
					// no deadline after matching, no shutdown before the end of the scenario. A Read that reports
					// an error is a connection ended (or timed out) without cause.
					if e.S != "end_after" && e.S != "read_close" {
						report("ended-without-cause", fmt.Sprintf("client %d: a Read on association %d returned %q although the association was neither closed nor idle: the virtual connection ended while the client kept sending", k, e.N, e.S), nil)
					}
				}
			}
			for _, a := range assocOrder {
				ds, bad := parseStream(streams[a])
				if bad != "" {
					report("stream-corrupt", fmt.Sprintf("association %d of client %d read %s", a, k, bad), nil)
					continue
				}
				last := 0
				for _, d := range ds {
					if d.client != k {
						report("foreign-datagram", fmt.Sprintf("association %d of client %d received datagram seq %d of client %d", a, k, d.seq, d.client), nil)
						continue
					}
					if _, ok := sent[[2]int{d.client, d.seq}]; !ok {
						report("unknown-datagram", fmt.Sprintf("association of client %d received datagram seq %d that was never sent", k, d.seq), nil)
					}
					if d.seq <= last {
						report("reordered-or-duplicated", fmt.Sprintf("association %d of client %d received seq %d after seq %d", a, k, d.seq, last), nil)
					}
					last = d.seq
					seen[[2]int{d.client, d.seq}]++
					delivered++
				}
			}
		}
		for key, n := range seen {
			if n > 1 {
				report("delivered-twice", fmt.Sprintf("datagram seq %d of client %d was delivered %d times", key[1], key[0], n), nil)
			}
		}
		// replies: addressed to the owner
		for _, sd := range pc.Sent() {
			if len(sd.Payload) >= 8+9 && sd.Payload[8] == 'D' {
				cl := int(binary.BigEndian.Uint16(sd.Payload[9:]))
				if cl == 999 {
					if sd.Addr != probe.String() {
						report("reply-misaddressed", fmt.Sprintf("reply for the probe client went to %s", sd.Addr), nil)
					}
					continue
				}
				if cl < len(addrs) && sd.Addr != addrs[cl].String() {
					report("reply-misaddressed", fmt.Sprintf("reply to a datagram of client %d (%s) was sent to %s", cl, addrs[cl], sd.Addr), nil)
				}
			}
		}
	}
	if s.Handler == "echo" || s.Handler == "proxy" {
		// every echoed datagram must be one of the owner's datagrams, in order per client
		last := map[string]int{}
		for _, sd := range pc.Sent() {
			ds, bad := parseStream(sd.Payload)
			if bad != "" || len(ds) != 1 {
				report("echo-corrupt", fmt.Sprintf("datagram written to %s is not exactly one of the client's datagrams: %s", sd.Addr, bad), nil)
				continue
			}
			d := ds[0]
			if d.client == 999 {
				continue
			}
			if d.client >= len(addrs) || sd.Addr != addrs[d.client].String() {
				report("reply-misaddressed", fmt.Sprintf("echo of a datagram of client %d was sent to %s", d.client, sd.Addr), nil)
				continue
			}
			if s.Handler == "echo" && d.seq <= last[sd.Addr] {
				report("reordered-or-duplicated", fmt.Sprintf("echo to %s carries seq %d after seq %d", sd.Addr, d.seq, last[sd.Addr]), nil)
			}
			last[sd.Addr] = d.seq
			delivered++
		}
	}

	// fresh association after an ended one
	if (s.Handler == "rec" || s.Handler == "closeself" || s.Handler == "readclose") && s.EndAfter > 0 {
		for k, rec := range recs {
			ended := map[int]bool{}
			for _, e := range rec.Events() {
				if e.Kind == "udp-end" {
					ended[e.N] = true
				}
			}
			if len(ended) == 0 {
				continue
			}
			// Keep sending spaced datagrams. While some association of this client is still running it may
			// take them; once every association has ended, one of the next 5 datagrams must start a new one.
			fresh := false
			afterAllEnded := 0
			for p := 0; p < 60 && !fresh && afterAllEnded < 5; p++ {
				startedBefore := rec.Count("udp-start", "")
				allEnded := startedBefore <= rec.Count("udp-end", "")
				readsBefore := rec.Count("udp-read", "")
				seqs[k]++
				pc.Inject(makeDatagram(k, seqs[k], 16), addrs[k])
				t0 := time.Now()
				for time.Since(t0) < 400*time.Millisecond {
					if rec.Count("udp-start", "") > startedBefore {
						if allEnded {
							fresh = true
						}
						break
					}
					if !allEnded && rec.Count("udp-read", "") > readsBefore {
						break
					}
					time.Sleep(300 * time.Microsecond)
				}
				if allEnded && !fresh {
					afterAllEnded++
				}
				time.Sleep(10 * time.Millisecond)
			}
			// a read by an association after its own end event is a violation
			endedAt := map[int]int64{}
			for _, e := range rec.Events() {
				if e.Kind == "udp-end" {
					endedAt[e.N] = e.Seq
				}
				if e.Kind == "udp-read" {
					if t, ok := endedAt[e.N]; ok && e.Seq > t && s.Handler != "readclose" { // (readclose marks the end just before closing while its reader still runs)
						report("read-after-end", fmt.Sprintf("association %d of client %d read a datagram after it had ended", e.N, k), nil)
					}
				}
			}
			if debugScenario {
				for _, e := range rec.Events() {
					fmt.Printf("client %d: %v %s assoc=%d len=%d %s\n", k, e.T, e.Kind, e.N, len(e.Data), e.S)
				}
			}
			if !fresh && afterAllEnded >= 5 {
				report("no-fresh-association", fmt.Sprintf("client %d: every association had ended, yet 5 spaced datagrams sent afterwards did not start a new one", k), nil)
			}
			break // one client per scenario is enough
		}
	}
	c.SetAdd("interleavings", s.Handler+":"+orderSig)
	c.Obs("datagrams_sent", int64(len(sent)))
	c.Obs("datagrams_delivered", int64(delivered))
	c.Obs("scenarios_"+s.Handler, 1)
	c.Case(fw.Hash(s.Handler, s.EndAfter, s.DelayUs, s.BufSize, s.Clients, s.PerBurst, s.Bursts, s.GapUs, orderSig), delivered >= 2, func() any {
		return map[string]any{"scenario": s, "delivered": delivered, "sent": len(sent)}
	})
}

func compress(seq []byte) string {
	var out []byte
	for i := 0; i < len(seq); {
		j := i
		for j < len(seq) && seq[j] == seq[i] {
			j++
		}
		n := j - i
		if n > 3 {
			n = 3 // cap: the shape matters, not the exact burst length
		}
		out = append(out, fmt.Sprintf("%c%d", seq[i], n)...)
		i = j
	}
	return string(out)
}

// waitQuiet waits until the injected backlog is consumed and no new event appears for 30 ms.
func waitQuiet(pc *vnet.PacketConn, recs []*hmods.ConnRec, max time.Duration) {
	deadline := time.Now().Add(max)
	last := -1
	stable := 0
	for time.Now().Before(deadline) {
		n := len(pc.Sent())
		for _, r := range recs {
			n += len(r.Events())
		}
		if pc.Backlog() == 0 && n == last {
			stable++
			if stable >= 6 {
				return
			}
		} else {
			stable = 0
		}
		last = n
		time.Sleep(5 * time.Millisecond)
	}
}

// ---------------------------------------------------------------------------
// Real sockets: kernel-level storms against the shipped echo handler and a non-matching route.

func runReal(c *fw.Ctx) {
	storms := c.Pick(24, 240)
	for i := 0; i < storms; i++ {
		if !c.Mine(i) {
			continue
		}
		r := fw.Rand(c.Seed, "c09real", i)
		kind := []string{"echo", "nomatch", "rec1", "echo", "proxydown", "rec1", "nomatch"}[i%7]
		if kind == "proxydown" {
			realProxyDown(c, i)
			if i%2 == 0 {
				realTwoSockets(c, i)
			}
			continue
		}
		routes := `[{"handle":[{"handler":"echo"}]}]`
		switch kind {
		case "nomatch":
			routes = `[{"match":[{"verif_m1":{"id":"never","need":0,"const":false}}],"handle":[{"handler":"echo"}]}]`
		case "rec1":
			routes = `[{"handle":[{"handler":"verif_udp","name":"u","end_after":1}]}]`
		}
		name := vnet.UniqueName("c09real")
		cfg := fmt.Sprintf(`{"servers":{"s":{"listen":["verifrealudp/%s:1"],"routes":%s,"matching_timeout":"1s"}}}`, name, routes)
		app, err := drive.StartAppConfig(cfg, "")
		if err != nil {
			c.Violation("C09 config rejected", err.Error(), cfg)
			continue
		}
		addr, _ := vnet.RealUDPAddr(name)
		c.Journal("real storm %d kind=%s", i, kind)
		clients := 2 + r.Intn(7)
		per := c.Pick(1500, 6000)
		var wg sync.WaitGroup
		var mu sync.Mutex
		bad := ""
		echoed := 0
		for k := 0; k < clients; k++ {
			wg.Add(1)
			go func(k int) {
				defer wg.Done()
				conn, err := net.Dial("udp", addr)
				if err != nil {
					return
				}
				defer conn.Close()
				done := make(chan struct{})
				go func() {
					defer close(done)
					buf := make([]byte, 65536)
					last := 0
					for {
						_ = conn.SetReadDeadline(time.Now().Add(300 * time.Millisecond))
						n, err := conn.Read(buf)
						if err != nil {
							return
						}
						p := buf[:n]
						if kind == "rec1" && n > 8 {
							p = p[8:]
							if len(p) >= 9 && int(binary.BigEndian.Uint16(p[1:])) != k {
								mu.Lock()
								bad = fmt.Sprintf("client %d received a reply for client %d", k, binary.BigEndian.Uint16(p[1:]))
								mu.Unlock()
							}
							continue
						}
						ds, b := parseStream(p)
						mu.Lock()
						if b != "" || len(ds) != 1 {
							bad = fmt.Sprintf("client %d received a datagram that is not one of its own: %s", k, b)
						} else if ds[0].client != k {
							bad = fmt.Sprintf("client %d received the echo of client %d", k, ds[0].client)
						} else if ds[0].seq <= last {
							bad = fmt.Sprintf("client %d received echo seq %d after %d", k, ds[0].seq, last)
						} else {
							last = ds[0].seq
							echoed++
						}
						mu.Unlock()
					}
				}()
				for sq := 1; sq <= per; sq++ {
					_, _ = conn.Write(makeDatagram(k, sq, []int{9, 64, 1200}[sq%3]))
					if sq%64 == 0 {
						time.Sleep(200 * time.Microsecond)
					}
				}
				<-done
			}(k)
		}
		wg.Wait()
		if bad != "" {
			c.Violation("C09 real-socket cross-talk ["+kind+"]", bad, map[string]any{"storm": i, "kind": kind})
		}
		// survival: a fresh socket gets an echo (echo kind) / the process is simply still here (others)
		if kind == "echo" {
			conn, err := net.Dial("udp", addr)
			ok := false
			if err == nil {
				for try := 0; try < 10 && !ok; try++ {
					_, _ = conn.Write(makeDatagram(777, try+1, 32))
					_ = conn.SetReadDeadline(time.Now().Add(500 * time.Millisecond))
					buf := make([]byte, 2048)
					if n, err := conn.Read(buf); err == nil && n > 0 {
						ok = true
					}
				}
				conn.Close()
			}
			if !ok {
				c.Violation("C09 loop-not-serving [real echo]", "after a storm a fresh UDP client got no echo within 5 s", map[string]any{"storm": i})
			}
		}
		app.Stop()
		c.Obs("real_datagrams_sent", int64(clients*per))
		c.Obs("real_datagrams_echoed", int64(echoed))
		c.Case(fw.Hash("real", kind, clients, i), true, func() any {
			return map[string]any{"storm": i, "kind": kind, "clients": clients, "datagrams_each": per, "echoed": echoed}
		})
	}
}

// realProxyDown: a real UDP listener whose proxy handler dials an upstream that is not there yet (the kernel answers
// the relayed datagram with "port unreachable", the upstream side of that association ends with an error). Whatever
// the handler of that association does with its own virtual connection, the listener keeps serving: once the upstream
// is up, a client with a fresh address gets its datagrams relayed and the replies come back to it alone.
func realProxyDown(c *fw.Ctx, i int) {
	r := fw.Rand(c.Seed, "c09proxydown", i)
	// a port below the range from which the kernel picks ports for bind(0) and connect (32768..60999 here): nothing
	// else in this sandbox gets it while it is closed
	upAddr := ""
	for try := 0; try < 8 && upAddr == ""; try++ {
		a := fmt.Sprintf("127.0.0.1:%d", 20000+(os.Getpid()%1000)*12+(i+try)%12)
		if hold, err := net.ListenPacket("udp", a); err == nil {
			_ = hold.Close()
			upAddr = a
		}
	}
	if upAddr == "" {
		c.Inconclusive("cannot find a free UDP port for the absent upstream")
		return
	}
	name := vnet.UniqueName("c09real")
	cfg := fmt.Sprintf(`{"servers":{"s":{"listen":["verifrealudp/%s:1"],"routes":[{"handle":[{"handler":"proxy","upstreams":[{"dial":["udp/%s"]}]}]}],"matching_timeout":"1s"}}}`, name, upAddr)
	app, err := drive.StartAppConfig(cfg, "")
	if err != nil {
		c.Violation("C09 config rejected", err.Error(), cfg)
		return
	}
	defer app.Stop()
	addr, _ := vnet.RealUDPAddr(name)
	c.Journal("real proxydown %d", i)
	early := 1 + r.Intn(3)
	var earlyConns []net.Conn
	for k := 0; k < early; k++ {
		conn, err := net.Dial("udp", addr)
		if err != nil {
			continue
		}
		earlyConns = append(earlyConns, conn)
		for sq := 1; sq <= 1+r.Intn(4); sq++ {
			_, _ = conn.Write(makeDatagram(k, sq, 64))
			time.Sleep(time.Duration(200+r.Intn(2000)) * time.Microsecond)
		}
	}
	time.Sleep(time.Duration(20+r.Intn(60)) * time.Millisecond)
	up, err := net.ListenPacket("udp", upAddr)
	if err != nil {
		for _, ec := range earlyConns {
			ec.Close()
		}
		c.Inconclusive("cannot bind the reserved UDP port again")
		return
	}
	go func() {
		buf := make([]byte, 65536)
		for {
			n, a, err := up.ReadFrom(buf)
			if err != nil {
				return
			}
			_, _ = up.WriteTo(buf[:n], a)
		}
	}()
	defer up.Close()
	late := 2 + r.Intn(3)
	served := 0
	bad := ""
	for k := 0; k < late; k++ {
		id := 100 + k
		conn, err := net.Dial("udp", addr)
		if err != nil {
			continue
		}
		ok := false
		buf := make([]byte, 4096)
		for try := 1; try <= 10 && !ok && bad == ""; try++ {
			_, _ = conn.Write(makeDatagram(id, try, 48))
			_ = conn.SetReadDeadline(time.Now().Add(500 * time.Millisecond))
			n, err := conn.Read(buf)
			if err != nil {
				continue
			}
			ds, b := parseStream(buf[:n])
			if b != "" || len(ds) != 1 || ds[0].client != id {
				bad = fmt.Sprintf("client %d received a datagram that is not a reply to its own: %s", id, b)
			} else {
				ok = true
			}
		}
		conn.Close()
		if ok {
			served++
		}
	}
	for _, ec := range earlyConns {
		ec.Close()
	}
	w := map[string]any{"storm": i, "kind": "proxydown", "early_clients": early, "late_clients": late, "late_served": served}
	if bad != "" {
		c.Violation("C09 real-socket cross-talk [proxydown]", bad, w)
	}
	if served < late {
		c.Violation("C09 loop-not-serving [real proxy, upstream was down]", fmt.Sprintf("after associations whose upstream refused their datagrams, %d of %d clients with fresh addresses got no reply through the proxy within 5 s although the upstream was up by then", late-served, late), w)
	}
	c.Obs("real_proxydown_late_clients_served", int64(served))
	c.Case(fw.Hash("real", "proxydown", early, late, i), true, func() any { return w })
}

// realTwoSockets: one server with two real UDP listen addresses and the echo handler; every client uses ONE socket to talk
// to both of the server's sockets at the same time. The two conversations of a client are different virtual
// connections: each datagram comes back from the server socket it was sent to, with its own payload, in order.
func realTwoSockets(c *fw.Ctx, i int) {
	r := fw.Rand(c.Seed, "c09twosock", i)
	n1, n2 := vnet.UniqueName("c09real"), vnet.UniqueName("c09real")
	cfg := fmt.Sprintf(`{"servers":{"s":{"listen":["verifrealudp/%s:1","verifrealudp/%s:1"],"routes":[{"handle":[{"handler":"echo"}]}],"matching_timeout":"1s"}}}`, n1, n2)
	app, err := drive.StartAppConfig(cfg, "")
	if err != nil {
		c.Violation("C09 config rejected", err.Error(), cfg)
		return
	}
	defer app.Stop()
	a1, _ := vnet.RealUDPAddr(n1)
	a2, _ := vnet.RealUDPAddr(n2)
	u1, e1 := net.ResolveUDPAddr("udp", a1)
	u2, e2 := net.ResolveUDPAddr("udp", a2)
	if e1 != nil || e2 != nil {
		c.Inconclusive("cannot resolve the listeners' addresses")
		return
	}
	c.Journal("real twosock %d", i)
	clients := 1 + r.Intn(3)
	rounds := 20 + r.Intn(40)
	bad := ""
	echoed := 0
	for k := 0; k < clients && bad == ""; k++ {
		pc, err := net.ListenUDP("udp", &net.UDPAddr{IP: net.IPv4(127, 0, 0, 1)})
		if err != nil {
			continue
		}
		buf := make([]byte, 4096)
		for sq := 1; sq <= rounds && bad == ""; sq++ {
			// client id 2k goes to the first server socket, 2k+1 to the second
			_, _ = pc.WriteToUDP(makeDatagram(2*k, sq, 40), u1)
			_, _ = pc.WriteToUDP(makeDatagram(2*k+1, sq, 40), u2)
			got := 0
			for got < 2 {
				_ = pc.SetReadDeadline(time.Now().Add(10 * time.Second))
				n, from, err := pc.ReadFromUDP(buf)
				if err != nil {
					bad = fmt.Sprintf("client %d (one socket, two conversations): %d of the 2 echoes of round %d did not arrive within 10 s", k, 2-got, sq)
					break
				}
				ds, b := parseStream(buf[:n])
				if b != "" || len(ds) != 1 {
					bad = fmt.Sprintf("client %d received a datagram that is not one of its own: %s", k, b)
					break
				}
				wantFrom := u1
				if ds[0].client == 2*k+1 {
					wantFrom = u2
				} else if ds[0].client != 2*k {
					bad = fmt.Sprintf("client %d received the echo of conversation %d", k, ds[0].client)
					break
				}
				if from.Port != wantFrom.Port {
					bad = fmt.Sprintf("the echo of a datagram sent to server socket %v came back from server socket %v (the client's two conversations were mixed)", wantFrom, from)
					break
				}
				if ds[0].seq != sq {
					bad = fmt.Sprintf("client %d conversation %d: echo seq %d in round %d", k, ds[0].client, ds[0].seq, sq)
					break
				}
				got++
				echoed++
			}
		}
		pc.Close()
	}
	w := map[string]any{"storm": i, "kind": "twosock", "clients": clients, "rounds": rounds}
	if bad != "" {
		c.Violation("C09 real-socket cross-talk [one client socket, two server sockets]", bad, w)
	}
	c.Obs("real_twosock_echoes", int64(echoed))
	c.Case(fw.Hash("real", "twosock", clients, rounds, i), true, func() any { return w })
}

// runIdle lets many associations expire by the 30 s idle timeout in parallel and checks that afterwards each
// client is served by a fresh association.
func runIdle(c *fw.Ctx) {
	name := vnet.UniqueName("c09idle")
	pc := vnet.NewNamedPacketConn(name)
	cfg := fmt.Sprintf(`{"servers":{"s":{"listen":["verifudp/%s:1"],"routes":[{"handle":[{"handler":"verif_udp","name":"u"}]}],"matching_timeout":"2s"}}}`, name)
	app, err := drive.StartAppConfig(cfg, "")
	if err != nil {
		c.Violation("C09 config rejected", err.Error(), cfg)
		return
	}
	defer app.Stop()
	n := 200
	addrs := make([]*net.UDPAddr, n)
	recs := make([]*hmods.ConnRec, n)
	for k := range addrs {
		addrs[k] = clientAddr(k)
		recs[k] = hmods.Track("udp:" + addrs[k].String())
		pc.Inject(makeDatagram(k, 1, 40), addrs[k])
	}
	// beside them: one client of a second server whose handler takes 1.2 s to wind down after its association expired.
	// The association is over when the handler's read reports it; datagrams that the client sends from then on belong
	// to a new association, even while the old handler is still winding down.
	lingerDone := make(chan string, 1)
	go func() {
		name2 := vnet.UniqueName("c09idle")
		pc2 := vnet.NewNamedPacketConn(name2)
		cfg2 := fmt.Sprintf(`{"servers":{"s":{"listen":["verifudp/%s:1"],"routes":[{"handle":[{"handler":"verif_udp","name":"u","linger_ms":1200}]}],"matching_timeout":"2s"}}}`, name2)
		app2, err := drive.StartAppConfig(cfg2, "")
		if err != nil {
			lingerDone <- "config rejected: " + err.Error()
			return
		}
		defer app2.Stop()
		a := clientAddr(9000)
		rec := hmods.Track("udp:" + a.String())
		defer hmods.Untrack("udp:" + a.String())
		pc2.Inject(makeDatagram(9000, 1, 40), a)
		ended := func() (bool, int) {
			first := 0
			for _, e := range rec.Events() {
				if e.Kind == "udp-start" && first == 0 {
					first = e.N
				}
				if e.Kind == "udp-end" {
					return true, first
				}
			}
			return false, first
		}
		deadline := time.Now().Add(40 * time.Second)
		var first int
		for {
			var ok bool
			if ok, first = ended(); ok {
				break
			}
			if time.Now().After(deadline) {
				lingerDone <- "the lingering handler's association did not expire within 40 s"
				return
			}
			time.Sleep(time.Millisecond)
		}
		for p := 0; p < 5; p++ {
			pc2.Inject(makeDatagram(9000, 2+p, 40), a)
			time.Sleep(60 * time.Millisecond)
		}
		time.Sleep(400 * time.Millisecond) // (still within the old handler's 1.2 s)
		fresh, returned := false, false
		for _, e := range rec.Events() {
			if e.Kind == "udp-read" && e.N != first {
				fresh = true
			}
			if e.Kind == "udp-return" {
				returned = true
			}
		}
		switch {
		case returned:
			lingerDone <- "inconclusive: the old handler had returned before the probes were judged"
		case !fresh:
			lingerDone <- "none of five datagrams sent after the association had expired (while its handler was still winding down) was served by a new association"
		default:
			lingerDone <- ""
		}
	}()
	time.Sleep(31500 * time.Millisecond)
	for k := range addrs {
		pc.Inject(makeDatagram(k, 2, 40), addrs[k])
	}
	switch msg := <-lingerDone; {
	case msg == "":
		c.Obs("idle_expiry_with_lingering_handler", 1)
	case strings.HasPrefix(msg, "inconclusive"):
		c.Inconclusive("idle: " + msg)
	default:
		c.Violation("C09 no-fresh-association [idle, handler winding down]", msg, nil)
	}
	time.Sleep(500 * time.Millisecond)
	for k, rec := range recs {
		assocs := map[int]bool{}
		ends := 0
		for _, e := range rec.Events() {
			if e.Kind == "udp-read" {
				assocs[e.N] = true
			}
			if e.Kind == "udp-end" {
				ends++
			}
		}
		if ends < 1 {
			c.Violation("C09 idle-expiry-missing", fmt.Sprintf("client %d: association did not end after 31.5 s of silence", k), nil)
		} else if len(assocs) < 2 {
			c.Violation("C09 no-fresh-association [idle]", fmt.Sprintf("client %d: datagram after idle expiry was not served by a new association", k), nil)
		}
		c.Case(fw.Hash("idle", k), true, nil)
	}
	c.Obs("idle_expired_associations", int64(n))
	sort.Ints(nil)
	_ = json.Marshal
}

func replay(c *fw.Ctx, raw json.RawMessage) {
	var w struct {
		Scenario *Scenario `json:"scenario"`
	}
	if err := json.Unmarshal(raw, &w); err != nil || w.Scenario == nil {
		fmt.Println("replay: only scripted scenarios can be replayed:", err)
		return
	}
	hmods.Quiet(c.OutDir + "/caddyhome")
	for k := 0; k < 5; k++ { // schedules are racy: a few repetitions
		runScenario(c, w.Scenario)
	}
}
