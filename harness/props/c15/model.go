package c15

import (
	"math/rand"
	"strings"
)

// ---------------------------------------------------------------------------
// Abstract configuration. It mirrors the documented grammar: a Node is one
// module/option occurrence (name, same-line arguments, block lines); a
// Container is the common body of a server, a listener wrapper and a
// subroute (matching_timeout, named matcher sets, routes).

// Node is one directive of the documented grammar.
type Node struct {
	Name string   `json:"name"`
	Args []string `json:"args,omitempty"`
	// Kids are the lines of the directive's block. With Inline, the single kid is written on the same line
	// (documented inline forms: "not <matcher>", "tls <matcher> <args>", "http <matcher> <args>", "@a <matcher>").
	Kids   []*Node    `json:"kids,omitempty"`
	Inline bool       `json:"inline,omitempty"`
	Body   *Container `json:"body,omitempty"` // subroute
}

// Item is one line/block of a Container, in file order.
type Item struct {
	Timeout string    `json:"timeout,omitempty"` // matching_timeout <duration>
	Set     *NamedSet `json:"set,omitempty"`
	Route   *Route    `json:"route,omitempty"`
}

// NamedSet is "@name <matcher> ..." (Inline, exactly one matcher) or "@name { <matcher>... }".
type NamedSet struct {
	Name     string  `json:"name"`
	Matchers []*Node `json:"matchers"`
	Inline   bool    `json:"inline,omitempty"`
}

// Route is "route [@set...] { <handler>... }".
type Route struct {
	Sets     []string `json:"sets,omitempty"`
	Handlers []*Node  `json:"handlers,omitempty"`
}

// Container is the body shared by servers, the listener wrapper and subroutes.
type Container struct {
	Items []*Item `json:"items,omitempty"`
}

// Server is one "<addresses...> { ... }" block of a global layer4 option.
type Server struct {
	Listen []string   `json:"listen"`
	Body   *Container `json:"body"`
}

// Config is a whole Caddyfile.
type Config struct {
	// Blocks are the global "layer4 { ... }" options (several are combined by the adapter), each with its servers.
	Blocks [][]*Server `json:"blocks,omitempty"`
	// LW is the listener wrapper form inside "servers { listener_wrappers { layer4 { ... } tls } }"; LWBare writes
	// "layer4" without a block.
	HasLW    bool       `json:"has_lw,omitempty"`
	LW       *Container `json:"lw,omitempty"`
	LWBare   bool       `json:"lw_bare,omitempty"`
	LWFirst  bool       `json:"lw_first,omitempty"`  // layer4 wrapper before the tls wrapper
	LWBefore bool       `json:"lw_before,omitempty"` // "servers" option written before the layer4 options
	LWPort   int        `json:"lw_port,omitempty"`

	// SkipValidate != "" : the provisioning oracle is not applicable (reason).
	SkipValidate string `json:"skip_validate,omitempty"`
	// ExactInts: integers far outside any sensible range that were written for integer options. The adapter may refuse
	// such a Caddyfile; if it adapts, the JSON has to carry these very digits.
	ExactInts []string `json:"exact_ints,omitempty"`
	// Uses is the sorted multiset of (module, option) names used.
	Uses []string `json:"-"`
}

// ---------------------------------------------------------------------------
// Durations: documented as <duration>; the JSON value is an integer number of nanoseconds.

var durTable = []struct {
	Text string
	NS   int64
}{
	{"1s", 1e9}, {"5s", 5e9}, {"250ms", 250e6}, {"1m", 60e9}, {"1m30s", 90e9}, {"2h", 7200e9}, {"1.5s", 1500e6},
	{"10s", 10e9}, {"30s", 30e9}, {"500ms", 500e6}, {"1d", 86400e9}, {"2h45m", 9900e9}, {"15s", 15e9}, {"100us", 100e3},
	{"3s", 3e9}, {"750ms", 750e6},
}

func durNS(text string) int64 {
	for _, d := range durTable {
		if d.Text == text {
			return d.NS
		}
	}
	panic("c15: unknown duration " + text)
}

// ---------------------------------------------------------------------------
// Generator

type gen struct {
	r    *rand.Rand
	fx   *Fixtures
	uses []string
	cfg  *Config
	nset int
	port int
	// prevListen: the last plain listen address handed out, as (network is udp?, host:port), so that the same
	// host and port can come up again on the other network (DNS-style tcp/:53 + udp/:53)
	prevUDP      bool
	prevHostPort string
}

func (g *gen) use(kind, module, option string) {
	s := kind + "_" + module
	if option != "" {
		s += "." + option
	}
	g.uses = append(g.uses, s)
}

func (g *gen) n(k int) int              { return g.r.Intn(k) }
func (g *gen) p(prob float64) bool      { return g.r.Float64() < prob }
func (g *gen) pick(xs ...string) string { return xs[g.r.Intn(len(xs))] }
func (g *gen) dur() string              { return durTable[g.r.Intn(len(durTable))].Text }

// some picks k..m distinct elements (order random) from xs.
func (g *gen) some(min, max int, xs ...string) []string {
	if max > len(xs) {
		max = len(xs)
	}
	k := min
	if max > min {
		k += g.r.Intn(max - min + 1)
	}
	perm := g.r.Perm(len(xs))
	out := make([]string, 0, k)
	for _, i := range perm[:k] {
		out = append(out, xs[i])
	}
	return out
}

// shuffle returns the nodes in random order (options of a block may come in any order).
func (g *gen) shuffle(ns []*Node) []*Node {
	g.r.Shuffle(len(ns), func(i, j int) { ns[i], ns[j] = ns[j], ns[i] })
	return ns
}

var (
	poolCIDR    = []string{"192.168.0.0/16", "10.0.0.0/8", "172.16.0.0/12", "127.0.0.0/8", "fd00::/8", "2001:db8::/32", "203.0.113.0/24", "198.51.100.128/25"}
	poolIP      = []string{"192.168.1.10", "10.1.2.3", "127.0.0.1", "::1", "2001:db8::1", "203.0.113.7"}
	poolDomain  = []string{"example.com", "alpha.example.com", "beta.example.com", "*.example.org", "localhost", "xn--e1afmkfd.example", "a.b.c.example.net"}
	poolALPN    = []string{"h2", "http/1.1", "http/1", "h3", "acme-tls/1", "custom-proto"}
	poolRegexp  = []string{`^GET`, `^[A-Z]+\s`, `^\x16\x03`, `^(foo|bar)`, `^SSH-2\.0`, `^.{4}$`, `^[0-9a-f]{8}`, `hello|world`}
	poolUser    = []string{"admin", "toms", "user.name", "svc-01", "a@b", "guest_1"}
	poolUserRE  = []string{`^adm.*$`, `^[a-z]+$`, `^(toms|jane)$`, `^user\d{2}$`}
	poolDigest  = []string{"sha256", "SHA-512", "sha1", "SHA3-256", "md5", "BLAKE2s-256", "sha2-384", "RIPEMD160"}
	poolCipher  = []string{"TLS_ECDHE_ECDSA_WITH_AES_128_GCM_SHA256", "TLS_ECDHE_RSA_WITH_AES_256_GCM_SHA384", "TLS_ECDHE_ECDSA_WITH_CHACHA20_POLY1305_SHA256", "TLS_ECDHE_RSA_WITH_AES_128_GCM_SHA256"}
	poolCurve   = []string{"x25519", "secp256r1", "secp384r1", "secp521r1"}
	poolTZ      = []string{"UTC", "America/Los_Angeles", "Europe/Berlin", "Local", "+02", "-03:30", "+12:34:56", "Asia/Tokyo"}
	poolClock   = []string{"00:00:00", "05:00:00", "08:30:00", "12:00:00", "17:45:10", "21:00:00", "23:59:59"}
	poolPrivate = "private_ranges"
)

func (g *gen) ranges(min, max int) []string {
	all := append(append([]string{}, poolCIDR...), poolIP...)
	return g.some(min, max, all...)
}

func (g *gen) cidrs(min, max int) []string { return g.some(min, max, poolCIDR...) }

// rangesP is ranges() that sometimes appends the "private_ranges" shortcut every <ranges...> option accepts.
func (g *gen) rangesP(kind, module, option string, min, max int) []string {
	rs := g.ranges(min, max)
	if g.p(0.15) {
		at := g.n(len(rs) + 1)
		rs = append(rs[:at:at], append([]string{poolPrivate}, rs[at:]...)...)
		g.use(kind, module, option+"_private_ranges")
	}
	return rs
}

func (g *gen) nextPort() int {
	g.port++
	return 2000 + (g.port*37+g.n(30))%60000
}

func itoa(i int) string {
	if i == 0 {
		return "0"
	}
	neg := i < 0
	if neg {
		i = -i
	}
	var b []byte
	for i > 0 {
		b = append([]byte{byte('0' + i%10)}, b...)
		i /= 10
	}
	if neg {
		b = append([]byte{'-'}, b...)
	}
	return string(b)
}

func (g *gen) listenAddr() string {
	if g.prevHostPort != "" && g.p(0.2) {
		hp, udp := g.prevHostPort, g.prevUDP
		g.prevHostPort = ""
		if udp {
			return "tcp/" + hp
		}
		return "udp/" + hp
	}
	a := g.listenAddrFresh()
	g.prevHostPort = ""
	if !strings.Contains(a, "-") && !strings.HasPrefix(a, "localhost") && !strings.HasPrefix(a, "tcp4/") {
		g.prevUDP = strings.HasPrefix(a, "udp/")
		g.prevHostPort = strings.TrimPrefix(strings.TrimPrefix(a, "udp/"), "tcp/")
	}
	return a
}

func (g *gen) listenAddrFresh() string {
	port := itoa(1024 + g.n(64000))
	switch g.n(12) {
	case 0:
		return ":" + port
	case 1:
		return "0.0.0.0:" + port
	case 2:
		return "127.0.0.1:" + port
	case 3:
		return "[::]:" + port
	case 4:
		return "[::1]:" + port
	case 5:
		return "tcp/127.0.0.1:" + port
	case 6:
		return "udp/:" + port
	case 7:
		return "udp/0.0.0.0:" + port
	case 8:
		return "localhost:" + port
	case 9:
		p := 1024 + g.n(60000)
		return "tcp/:" + itoa(p) + "-" + itoa(p+2)
	case 10:
		return "udp/[::1]:" + port
	default:
		return "tcp4/127.0.0.1:" + port
	}
}

func (g *gen) upstreamAddr() string {
	port := itoa(1024 + g.n(64000))
	switch g.n(8) {
	case 0:
		return "localhost:" + port
	case 1:
		return "127.0.0.1:" + port
	case 2:
		return "[::1]:" + port
	case 3:
		return "udp/127.0.0.1:" + port
	case 4:
		return "tcp/127.0.0.1:" + port
	case 5:
		return "127.0.0.2:" + port
	case 6:
		return "{l4.tls.server_name}:" + port
	default:
		return "127.0.0.1:" + port
	}
}

// ---------------------------------------------------------------------------
// Matchers

var matcherNames = []string{"clock", "dns", "http", "local_ip", "not", "openvpn", "postgres", "proxy_protocol", "quic", "rdp",
	"regexp", "remote_ip", "socks4", "socks5", "ssh", "tls", "winbox", "wireguard", "xmpp"}

func (g *gen) matcher(depth int, exclude map[string]bool) *Node {
	for {
		name := matcherNames[g.n(len(matcherNames))]
		if exclude[name] {
			continue
		}
		if name == "not" && depth >= 3 {
			continue
		}
		return g.matcherNamed(name, depth)
	}
}

func opt(name string, args ...string) *Node { return &Node{Name: name, Args: args} }

func (g *gen) matcherNamed(name string, depth int) *Node {
	g.use("matcher", name, "")
	u := func(o string) { g.use("matcher", name, o) }
	n := &Node{Name: name}
	switch name {
	case "clock":
		tz := func() {
			if g.p(0.4) {
				n.Args = append(n.Args, g.pick(poolTZ...))
				u("timezone")
			}
		}
		switch g.n(3) {
		case 0:
			n.Args = []string{g.pick(poolClock...), g.pick(poolClock...)}
			u("after_before")
		case 1:
			n.Args = []string{g.pick("after", "from"), g.pick(poolClock...)}
			u("after")
		default:
			n.Args = []string{g.pick("before", "till", "to", "until"), g.pick(poolClock...)}
			u("before")
		}
		tz()
	case "dns":
		if g.p(0.2) {
			return n
		}
		k := 1 + g.n(4)
		for i := 0; i < k; i++ {
			o := g.pick("allow", "deny", "allow_regexp", "deny_regexp")
			u(o)
			var vals []string
			na := 1 + g.n(3)
			re := strings.HasSuffix(o, "regexp")
			for j := 0; j < na; j++ {
				if g.p(0.25) {
					vals = append(vals, "*")
					continue
				}
				switch {
				case j == 0 && !re:
					vals = append(vals, g.pick("example.com.", "www.example.org.", "a.b.c.", "."))
				case j == 0:
					vals = append(vals, g.pick(`^(|[-0-9a-z]+\.)example\.com\.$`, `\.local\.$`, `^[a-z]{1,8}\.test\.$`))
				case j == 1 && !re:
					vals = append(vals, g.pick("A", "AAAA", "MX", "NS", "TXT", "ANY"))
				case j == 1:
					vals = append(vals, g.pick(`^(MX|NS)$`, `^A+$`, `^(A|AAAA)$`))
				case !re:
					vals = append(vals, g.pick("IN", "CH", "ANY"))
				default:
					vals = append(vals, g.pick(`^(IN|CH)$`, `^IN$`))
				}
			}
			n.Kids = append(n.Kids, opt(o, vals...))
		}
		if g.p(0.4) {
			n.Kids = append(n.Kids, opt("default_deny"))
			u("default_deny")
		}
		if g.p(0.4) {
			n.Kids = append(n.Kids, opt("prefer_allow"))
			u("prefer_allow")
		}
		// allow/deny lines keep their relative order (lists); flags may come anywhere: rotate them in
		if g.p(0.5) && len(n.Kids) > 1 {
			last := n.Kids[len(n.Kids)-1]
			if len(last.Args) == 0 {
				n.Kids = append([]*Node{last}, n.Kids[:len(n.Kids)-1]...)
			}
		}
	case "http":
		names := g.some(1, 3, "host", "path", "method", "header", "protocol", "remote_ip", "not", "path_regexp", "query")
		for _, hn := range names {
			n.Kids = append(n.Kids, g.httpMatcher(hn, 0))
		}
		if len(n.Kids) == 1 && g.p(0.6) {
			n.Inline = true
		}
	case "local_ip", "remote_ip":
		n.Args = g.ranges(1, 3)
		u("ranges")
		if g.p(0.3) {
			// the shortcut anywhere among the ranges: first, in the middle, last, or on its own
			at := g.n(len(n.Args) + 1)
			n.Args = append(n.Args[:at:at], append([]string{poolPrivate}, n.Args[at:]...)...)
			if g.p(0.15) {
				n.Args = []string{poolPrivate}
			}
			u("private_ranges")
		}
	case "not":
		k := 1
		if g.p(0.4) {
			k = 2 + g.n(2)
		}
		ex := map[string]bool{}
		for i := 0; i < k; i++ {
			m := g.matcher(depth+1, ex)
			ex[m.Name] = true
			n.Kids = append(n.Kids, m)
		}
		if k == 1 && g.p(0.7) {
			n.Inline = true
		}
	case "openvpn":
		if g.p(0.15) {
			return n
		}
		var ks []*Node
		add := func(o string, args ...string) { ks = append(ks, opt(o, args...)); u(o) }
		if g.p(0.6) {
			ms := g.some(1, 4, "plain", "auth", "crypt", "crypt2")
			if g.p(0.15) { // "Values in the list are case-insensitive"
				ms[0] = strings.ToUpper(ms[0])
			}
			add("modes", ms...)
		}
		if g.p(0.2) {
			add("ignore_crypto")
		}
		if g.p(0.2) {
			add("ignore_timestamp")
		}
		switch g.n(4) {
		case 0:
			add("group_key", g.fx.GroupKeyHex)
		case 1:
			add("group_key_file", g.fx.GroupKeyFile)
		}
		if g.p(0.3) {
			add("auth_digest", g.pick(poolDigest...))
		}
		if g.p(0.3) {
			add("group_key_direction", g.pick("normal", "inverse", "bidi", "bidirectional"))
		}
		hasServer := false
		switch g.n(5) {
		case 0:
			add("server_key", g.fx.ServerKeyB64)
			hasServer = true
		case 1:
			add("server_key_file", g.fx.ServerKeyFile)
			hasServer = true
		}
		nck := 0
		if g.p(0.3) {
			nck = 1 + g.n(2)
		}
		for i := 0; i < nck; i++ {
			if g.p(0.5) {
				add("client_key", g.fx.ClientKeyB64[i])
			} else {
				add("client_key_file", g.fx.ClientKeyFile[i])
			}
		}
		if hasServer && nck > 0 && !g.fx.ClientKeysWrapped && g.cfg.SkipValidate == "" {
			g.cfg.SkipValidate = "openvpn client keys would have to be wrapped with the configured server key"
		}
		if len(ks) == 0 {
			add("modes", "plain")
		}
		n.Kids = g.shuffle(ks)
	case "postgres", "proxy_protocol", "ssh", "xmpp":
	case "quic", "tls":
		switch g.n(4) {
		case 0: // bare
		default:
			names := g.some(1, 3, "sni", "alpn", "remote_ip", "local_ip")
			for _, hn := range names {
				n.Kids = append(n.Kids, g.handshakeMatcher("matcher", name, hn))
			}
			if len(n.Kids) == 1 && g.p(0.6) {
				n.Inline = true
			}
		}
	case "rdp":
		switch g.n(6) {
		case 0:
		case 1:
			n.Kids = []*Node{opt("cookie_hash", g.pick("a0123", "user1", "DOMAIN-u"))}
			u("cookie_hash")
		case 2:
			n.Kids = []*Node{opt("cookie_hash_regexp", g.pick(`^[a-z]-\d{3,5}$`, `^adm`))}
			u("cookie_hash_regexp")
		case 3:
			if g.p(0.7) {
				n.Kids = append(n.Kids, opt("cookie_ip", g.rangesP("matcher", "rdp", "cookie_ip", 1, 3)...))
				u("cookie_ip")
			}
			if g.p(0.7) || len(n.Kids) == 0 {
				n.Kids = append(n.Kids, opt("cookie_port", g.ports(1, 3)...))
				u("cookie_port")
			}
			g.shuffle(n.Kids)
		case 4:
			n.Kids = []*Node{opt("custom_info", g.pick("anything", "route-42", "some info here"))}
			u("custom_info")
		default:
			n.Kids = []*Node{opt("custom_info_regexp", g.pick(`^[A-Za-z0-9]{4,16}$`, `^x+$`))}
			u("custom_info_regexp")
		}
	case "regexp":
		n.Args = []string{g.pick(poolRegexp...)}
		u("pattern")
		if g.p(0.5) {
			n.Args = append(n.Args, g.pick("4", "8", "16", "100", "65535", "1", "0"))
			u("count")
		}
	case "socks4":
		if g.p(0.2) {
			return n
		}
		var ks []*Node
		if g.p(0.6) {
			ks = append(ks, opt("commands", g.some(1, 2, "CONNECT", "BIND")...))
			u("commands")
		}
		if g.p(0.5) {
			ks = append(ks, opt("networks", g.rangesP("matcher", "socks4", "networks", 1, 3)...))
			u("networks")
		}
		if g.p(0.5) || len(ks) == 0 {
			ks = append(ks, opt("ports", g.ports(1, 3)...))
			u("ports")
		}
		n.Kids = g.shuffle(ks)
	case "socks5":
		if g.p(0.4) {
			return n
		}
		n.Kids = []*Node{opt("auth_methods", g.some(1, 4, "0", "1", "2", "3", "128", "255")...)}
		u("auth_methods")
	case "winbox":
		if g.p(0.2) {
			return n
		}
		var ks []*Node
		if g.p(0.6) {
			ms := g.some(1, 2, "standard", "romon")
			if g.p(0.15) { // "Values in the list are case-insensitive"
				ms[0] = strings.ToUpper(ms[0][:1]) + ms[0][1:]
			}
			ks = append(ks, opt("modes", ms...))
			u("modes")
		}
		switch g.n(3) {
		case 0:
			ks = append(ks, opt("username", g.pick(poolUser...)))
			u("username")
		case 1:
			ks = append(ks, opt("username_regexp", g.pick(poolUserRE...)))
			u("username_regexp")
		}
		if len(ks) == 0 {
			ks = append(ks, opt("modes", "standard"))
			u("modes")
		}
		n.Kids = g.shuffle(ks)
	case "wireguard":
		if g.p(0.5) {
			n.Args = []string{g.pick("4285988864", "1", "255", "4294967295", "65536", "0")}
			u("zero")
		}
	}
	return n
}

func (g *gen) ports(min, max int) []string {
	return g.some(min, max, "80", "443", "1080", "3389", "8080", "65535", "1", "5000")
}

// handshakeMatcher generates one tls.handshake_match.* matcher line (used by the tls and quic matchers and by
// connection_policy match).
func (g *gen) handshakeMatcher(kind, parent, name string) *Node {
	g.use(kind, parent, "match_"+name)
	switch name {
	case "sni":
		return opt("sni", g.some(1, 3, poolDomain...)...)
	case "alpn":
		return opt("alpn", g.some(1, 3, poolALPN...)...)
	case "local_ip":
		return opt("local_ip", g.rangesP(kind, parent, "match_local_ip", 1, 3)...)
	default:
		rs := g.rangesP(kind, parent, "match_remote_ip", 1, 3)
		for i := range rs {
			if g.p(0.3) {
				rs[i] = "!" + rs[i]
			}
		}
		return opt("remote_ip", rs...)
	}
}

// httpMatcher generates one http.matchers.* line inside the http matcher.
func (g *gen) httpMatcher(name string, depth int) *Node {
	g.use("matcher", "http", name)
	switch name {
	case "host":
		return opt("host", g.some(1, 3, "example.com", "localhost", "*.example.org", "alpha.example.com")...)
	case "path":
		return opt("path", g.some(1, 3, "/index.html", "/api/*", "*.php", "/")...)
	case "method":
		return opt("method", g.some(1, 3, "GET", "POST", "PUT", "CONNECT")...)
	case "header":
		return opt("header", g.pick("X-Test", "Content-Type", "Upgrade"), g.pick("value", "websocket", "*json*"))
	case "protocol":
		return opt("protocol", g.pick("http", "https", "grpc"))
	case "remote_ip":
		return opt("remote_ip", g.ranges(1, 3)...)
	case "path_regexp":
		if g.p(0.5) {
			return opt("path_regexp", g.pick("static", "re1"), g.pick(`\.(css|js)$`, `^/v[0-9]+/`))
		}
		return opt("path_regexp", g.pick(`\.(css|js)$`, `^/v[0-9]+/`))
	case "query":
		return opt("query", g.pick("debug=1", "sort=asc", "q=*"))
	default: // not
		n := &Node{Name: "not"}
		k := 1
		if depth == 0 && g.p(0.3) {
			k = 2
		}
		for _, hn := range g.some(k, k, "host", "path", "method", "protocol", "remote_ip") {
			n.Kids = append(n.Kids, g.httpMatcher(hn, depth+1))
		}
		if k == 1 && g.p(0.7) {
			n.Inline = true
		}
		return n
	}
}

// ---------------------------------------------------------------------------
// Handlers

var handlerNames = []string{"echo", "proxy", "proxy_protocol", "socks5", "subroute", "tee", "throttle", "tls"}

func (g *gen) handler(depth int) *Node {
	for {
		name := handlerNames[g.n(len(handlerNames))]
		if (name == "subroute" || name == "tee") && depth >= 3 {
			continue
		}
		return g.handlerNamed(name, depth)
	}
}

func (g *gen) handlerNamed(name string, depth int) *Node {
	g.use("handler", name, "")
	u := func(o string) { g.use("handler", name, o) }
	n := &Node{Name: name}
	switch name {
	case "echo":
	case "proxy":
		na := 0
		if g.p(0.7) {
			na = 1 + g.n(3)
		}
		for i := 0; i < na; i++ {
			n.Args = append(n.Args, g.upstreamAddr())
		}
		if na > 0 {
			u("upstreams_inline")
		}
		var ks []*Node
		add := func(o string, args ...string) { ks = append(ks, opt(o, args...)); u(o) }
		full := g.p(0.15) // occasionally every documented option at once
		pr := func(x float64) bool { return full || g.p(x) }
		if pr(0.15) {
			add("health_interval", g.dur())
		}
		if pr(0.15) {
			add("health_port", g.pick("8080", "1", "65535", "9000", "0"))
		}
		if pr(0.15) {
			add("health_timeout", g.dur())
		}
		if pr(0.15) {
			add("fail_duration", g.dur())
		}
		if pr(0.15) {
			add("max_fails", g.pick("1", "3", "10", "0"))
		}
		if pr(0.15) {
			add("unhealthy_connection_count", g.pick("1", "5", "100"))
		}
		if pr(0.3) {
			pol := g.pick("random", "random_choose", "least_conn", "round_robin", "first", "ip_hash")
			args := []string{pol}
			if pol == "random_choose" && g.p(0.7) {
				args = append(args, g.pick("2", "3", "5"))
				u("lb_policy_choose")
			}
			add("lb_policy", args...)
			u("lb_policy_" + pol)
		}
		if pr(0.15) {
			add("lb_try_duration", g.dur())
		}
		if pr(0.15) {
			add("lb_try_interval", g.dur())
		}
		if pr(0.2) {
			add("proxy_protocol", g.pick("v1", "v2"))
		}
		ks = g.shuffle(ks)
		// upstream options keep their relative order (list), inserted at random positions
		nu := 0
		if na == 0 {
			nu = 1 + g.n(3)
		} else if g.p(0.3) {
			nu = 1 + g.n(2)
		}
		for i := 0; i < nu; i++ {
			up := g.upstream()
			pos := len(ks)
			if g.p(0.5) {
				// insert after the last upstream already present, anywhere up to the end
				lastUp := -1
				for j, k := range ks {
					if k.Name == "upstream" {
						lastUp = j
					}
				}
				pos = lastUp + 1 + g.n(len(ks)-lastUp)
			}
			ks = append(ks[:pos], append([]*Node{up}, ks[pos:]...)...)
		}
		n.Kids = ks
	case "proxy_protocol":
		if g.p(0.3) {
			return n
		}
		var ks []*Node
		if g.p(0.7) {
			a := g.cidrs(1, 3)
			if g.p(0.35) {
				// plain addresses (a subnet of one address each), of either family
				a = g.ranges(1, 4)
				u("allow_plain_address")
			}
			u("allow")
			if g.p(0.06) {
				a = append(a, poolPrivate)
				u("allow_private_ranges")
			}
			ks = append(ks, opt("allow", a...))
		}
		if g.p(0.6) || len(ks) == 0 {
			ks = append(ks, opt("timeout", g.dur()))
			u("timeout")
		}
		n.Kids = g.shuffle(ks)
	case "socks5":
		var ks []*Node
		if g.p(0.5) {
			ks = append(ks, opt("bind_ip", g.pick("127.0.0.1", "10.0.0.1", "::1", "0.0.0.0")))
			u("bind_ip")
		}
		if g.p(0.6) {
			cmds := g.some(1, 3, "CONNECT", "ASSOCIATE", "BIND")
			if len(cmds) > 1 && g.p(0.5) {
				// "multiple commands ... options are supported"
				ks = append(ks, opt("commands", cmds[:1]...), opt("commands", cmds[1:]...))
			} else {
				ks = append(ks, opt("commands", cmds...))
			}
			u("commands")
		}
		if g.p(0.5) || len(ks) == 0 {
			users := g.some(1, 3, "account1", "account2", "bob", "alice")
			var flat []string
			for _, us := range users {
				flat = append(flat, us, g.pick("password1", "s3cr3t", "p w d", "x"))
			}
			if len(users) > 1 && g.p(0.5) {
				ks = append(ks, opt("credentials", flat[:2]...), opt("credentials", flat[2:]...))
			} else {
				ks = append(ks, opt("credentials", flat...))
			}
			u("credentials")
		}
		// relative order of repeated commands lines matters (list); a stable shuffle keeps it: shuffle blocks by name
		n.Kids = g.shuffleKeepingOrderOf(ks, "commands")
	case "subroute":
		n.Body = g.container(depth+1, "handler", "subroute")
	case "tee":
		k := 1 + g.n(2)
		for i := 0; i < k; i++ {
			n.Kids = append(n.Kids, g.handler(depth+1))
		}
		u("branch")
	case "throttle":
		var ks []*Node
		add := func(o string, args ...string) { ks = append(ks, opt(o, args...)); u(o) }
		full := g.p(0.2)
		pr := func(x float64) bool { return full || g.p(x) }
		if pr(0.4) {
			add("latency", g.dur())
		}
		if pr(0.4) {
			add("read_burst_size", g.pick("20000", "1", "4096", "0", "2147483647"))
		}
		if pr(0.4) {
			add("read_bytes_per_second", g.pick("100000", "1500.5", "1", "0.5"))
		}
		if pr(0.4) {
			add("total_read_burst_size", g.pick("100000", "65536", "7", "2147483647"))
		}
		if pr(0.4) || len(ks) == 0 {
			add("total_read_bytes_per_second", g.pick("500000", "2500.25", "10"))
		}
		if len(g.cfg.ExactInts) == 0 && g.p(0.015) {
			// an absurdly large burst size (a typo, a unit mix-up): refused, or taken over digit by digit
			v := g.pick("9007199254740993", "4611686018427387905", "9223372036854775807", "4294967297")
			o := g.pick("read_burst_size", "total_read_burst_size")
			kept := ks[:0]
			for _, k := range ks {
				if k.Name != o {
					kept = append(kept, k)
				}
			}
			ks = append(kept, opt(o, v))
			u(o)
			g.cfg.ExactInts = append(g.cfg.ExactInts, v)
		}
		n.Kids = g.shuffle(ks)
	case "tls":
		if g.p(0.4) {
			return n
		}
		k := 1 + g.n(2)
		for i := 0; i < k; i++ {
			n.Kids = append(n.Kids, g.connPolicy())
		}
		u("connection_policy")
	}
	return n
}

// shuffleKeepingOrderOf shuffles the nodes but keeps the relative order of the nodes called name.
func (g *gen) shuffleKeepingOrderOf(ns []*Node, name string) []*Node {
	var kept []*Node
	for _, x := range ns {
		if x.Name == name {
			kept = append(kept, x)
		}
	}
	g.shuffle(ns)
	i := 0
	for j, x := range ns {
		if x.Name == name {
			ns[j] = kept[i]
			i++
		}
	}
	return ns
}

func (g *gen) upstream() *Node {
	u := func(o string) { g.use("handler", "proxy", "upstream."+o) }
	g.use("handler", "proxy", "upstream")
	n := &Node{Name: "upstream"}
	na := g.n(3)
	for i := 0; i < na; i++ {
		n.Args = append(n.Args, g.upstreamAddr())
	}
	var ks []*Node
	add := func(o string, args ...string) { ks = append(ks, opt(o, args...)); u(o) }
	if na == 0 || g.p(0.3) {
		add("dial", g.upstreamAddr())
		if g.p(0.4) {
			ks[len(ks)-1].Args = append(ks[len(ks)-1].Args, g.upstreamAddr())
		}
	}
	if na > 0 && len(ks) == 0 && g.p(0.5) {
		return n // "upstream <address:port>"
	}
	if g.p(0.4) {
		add("max_connections", g.pick("1", "2", "100", "0"))
	}
	full := g.p(0.1)
	pr := func(x float64) bool { return full || g.p(x) }
	if pr(0.25) {
		add("tls")
	}
	if pr(0.12) {
		if g.p(0.1) {
			add("tls_client_auth", g.pick("client.example.com", "automate.internal"))
			u("tls_client_auth_automate")
			if g.cfg.SkipValidate == "" {
				g.cfg.SkipValidate = "tls_client_auth <automate_name> makes the tls app manage (obtain) a certificate at provisioning"
			}
		} else {
			add("tls_client_auth", g.fx.ClientCert, g.fx.ClientKey)
			u("tls_client_auth_files")
		}
	}
	if pr(0.12) {
		add("tls_curves", g.some(1, 3, poolCurve...)...)
	}
	if pr(0.12) {
		add("tls_except_ports", g.ports(1, 3)...)
	}
	if pr(0.12) {
		add("tls_insecure_skip_verify")
	}
	if pr(0.12) {
		add("tls_renegotiation", g.pick("never", "once", "freely"))
	}
	if pr(0.12) {
		add("tls_server_name", g.pick(poolDomain[:3]...))
	}
	if pr(0.12) {
		add("tls_timeout", g.dur())
	}
	switch {
	case pr(0.12):
		ks = append(ks, g.trustPool("tls_trust_pool"))
		u("tls_trust_pool")
	case g.p(0.05):
		add("tls_trusted_ca_certs", g.some(1, 2, g.fx.CAPEMFile, g.fx.CAPEMFile2)...)
	case g.p(0.05):
		add("tls_trusted_ca_pool", g.some(1, 2, g.fx.CADERb64[0], g.fx.CADERb64[1])...)
	}
	n.Kids = g.shuffleKeepingOrderOf(ks, "dial")
	return n
}

// trustPool generates "<opt> inline { trust_der <b64>... }" or "<opt> file [<pem>...] { pem_file <pem>... }".
func (g *gen) trustPool(optName string) *Node {
	n := &Node{Name: optName}
	if g.p(0.5) {
		n.Args = []string{"inline"}
		n.Kids = []*Node{opt("trust_der", g.some(1, 2, g.fx.CADERb64[0], g.fx.CADERb64[1])...)}
		return n
	}
	n.Args = []string{"file"}
	files := g.some(1, 2, g.fx.CAPEMFile, g.fx.CAPEMFile2)
	if g.p(0.5) {
		n.Args = append(n.Args, files...)
	} else {
		n.Kids = []*Node{opt("pem_file", files...)}
	}
	return n
}

func (g *gen) connPolicy() *Node {
	u := func(o string) { g.use("handler", "tls", "connection_policy."+o) }
	n := &Node{Name: "connection_policy"}
	var ks []*Node
	add := func(o string, args ...string) { ks = append(ks, opt(o, args...)); u(o) }
	full := g.p(0.1)
	pr := func(x float64) bool { return full || g.p(x) }
	if pr(0.3) {
		add("alpn", g.some(1, 3, poolALPN...)...)
	}
	if pr(0.25) {
		cs := &Node{Name: "cert_selection"}
		var cks []*Node
		cadd := func(o string, args ...string) { cks = append(cks, opt(o, args...)); u("cert_selection." + o) }
		if g.p(0.4) {
			cadd("all_tags", g.some(1, 2, "tag1", "tag2", "prod")...)
		}
		if g.p(0.4) {
			cadd("any_tag", g.some(1, 2, "tag3", "tag4", "edge")...)
		}
		if g.p(0.12) {
			cadd("public_key_algorithm", g.pick("rsa", "ecdsa", "dsa"))
		}
		if g.p(0.4) {
			cadd("serial_number", g.some(1, 2, "123456789012", "1", "340282366920938463463374607431768211456")...)
		}
		if g.p(0.4) || len(cks) == 0 {
			cadd("subject_organization", g.some(1, 2, "Example Org", "ACME", "Verif C15")...)
		}
		cs.Kids = g.shuffle(cks)
		ks = append(ks, cs)
		u("cert_selection")
	}
	if pr(0.2) {
		add("ciphers", g.some(1, 3, poolCipher...)...)
	}
	if pr(0.2) {
		ca := &Node{Name: "client_auth"}
		var cks []*Node
		if g.p(0.6) {
			cks = append(cks, opt("mode", g.pick("request", "require", "verify_if_given", "require_and_verify")))
			u("client_auth.mode")
		}
		if g.p(0.5) {
			cks = append(cks, g.trustPool("trust_pool"))
			u("client_auth.trust_pool")
		}
		if g.p(0.3) || len(cks) == 0 {
			cks = append(cks, opt("trusted_leaf_cert", g.fx.LeafDERb64))
			u("client_auth.trusted_leaf_cert")
		}
		ca.Kids = g.shuffle(cks)
		ks = append(ks, ca)
		u("client_auth")
	}
	if pr(0.2) {
		add("curves", g.some(1, 3, poolCurve...)...)
	}
	if pr(0.2) {
		add("default_sni", g.pick(poolDomain[:3]...))
	}
	if pr(0.3) {
		m := &Node{Name: "match"}
		for _, hn := range g.some(1, 2, "sni", "alpn", "remote_ip", "local_ip") {
			m.Kids = append(m.Kids, g.handshakeMatcher("handler", "tls", hn))
		}
		if len(m.Kids) == 1 && g.p(0.4) {
			m.Inline = true
		}
		ks = append(ks, m)
		u("match")
	}
	if pr(0.25) {
		switch g.n(3) {
		case 0:
			add("protocols", "tls1.2")
		case 1:
			add("protocols", "tls1.2", "tls1.3")
		default:
			add("protocols", "tls1.3", "tls1.3")
		}
	}
	if pr(0.1) {
		add("drop")
	}
	if pr(0.15) {
		add("fallback_sni", g.pick(poolDomain[:3]...))
	}
	if pr(0.08) {
		add("insecure_secrets_log", g.fx.SecretsLog)
	}
	if len(ks) == 0 {
		add("alpn", "h2")
	}
	n.Kids = g.shuffle(ks)
	return n
}

// ---------------------------------------------------------------------------
// Containers

func (g *gen) container(depth int, kind, module string) *Container {
	c := &Container{}
	u := func(o string) { g.use(kind, module, o) }
	// named matcher sets
	nsets := g.n(4)
	if depth >= 2 {
		nsets = g.n(3)
	}
	var sets []*NamedSet
	for i := 0; i < nsets; i++ {
		g.nset++
		s := &NamedSet{Name: "@" + g.pick("a", "m", "set", "x_", "tls-") + itoa(g.nset)}
		k := 1
		if g.p(0.4) {
			k = 2 + g.n(2)
		}
		ex := map[string]bool{}
		for j := 0; j < k; j++ {
			m := g.matcher(depth, ex)
			ex[m.Name] = true
			s.Matchers = append(s.Matchers, m)
		}
		// both address matchers in one set, each written as the shortcut followed by one or two ranges of its own
		if g.p(0.06) && !ex["remote_ip"] && !ex["local_ip"] {
			for _, name := range []string{"remote_ip", "local_ip"} {
				m := &Node{Name: name, Args: append([]string{poolPrivate}, g.ranges(1, 2)...)}
				g.use("matcher", name, "")
				g.use("matcher", name, "ranges")
				g.use("matcher", name, "private_ranges")
				ex[name] = true
				s.Matchers = append(s.Matchers, m)
			}
			k += 2
		}
		if k == 1 && g.p(0.7) {
			s.Inline = true
			u("set_inline")
		} else {
			u("set_block")
		}
		sets = append(sets, s)
	}
	// routes
	nroutes := g.n(4)
	if depth == 0 && nroutes == 0 && g.p(0.7) {
		nroutes = 1
	}
	var routes []*Route
	for i := 0; i < nroutes; i++ {
		rt := &Route{}
		if len(sets) > 0 && g.p(0.75) {
			k := 1
			if g.p(0.3) {
				k = 2
			}
			if g.p(0.1) {
				k = 3
			}
			for j := 0; j < k; j++ {
				// the same named set may be used by several routes
				rt.Sets = append(rt.Sets, sets[g.n(len(sets))].Name)
			}
			// a set listed twice in one route is legal but pointless: deduplicate
			seen := map[string]bool{}
			var ded []string
			for _, s := range rt.Sets {
				if !seen[s] {
					seen[s] = true
					ded = append(ded, s)
				}
			}
			rt.Sets = ded
			if len(rt.Sets) > 1 {
				u("route_multi_sets")
			}
		}
		nh := g.n(4)
		if nh == 0 && g.p(0.7) {
			nh = 1
		}
		for j := 0; j < nh; j++ {
			rt.Handlers = append(rt.Handlers, g.handler(depth))
		}
		routes = append(routes, rt)
		u("route")
	}
	// lay the items out: routes keep their order; sets may be defined anywhere (before or after use)
	var items []*Item
	for _, s := range sets {
		items = append(items, &Item{Set: s})
	}
	if g.p(0.3) {
		// interleave: sets in order, each placed at a random position among routes
		var out []*Item
		ri := 0
		for _, it := range items {
			for ri < len(routes) && g.p(0.4) {
				out = append(out, &Item{Route: routes[ri]})
				ri++
			}
			out = append(out, it)
		}
		for ; ri < len(routes); ri++ {
			out = append(out, &Item{Route: routes[ri]})
		}
		items = out
	} else {
		for _, rt := range routes {
			items = append(items, &Item{Route: rt})
		}
	}
	if g.p(0.35) {
		pos := g.n(len(items) + 1)
		t := &Item{Timeout: g.dur()}
		items = append(items[:pos], append([]*Item{t}, items[pos:]...)...)
		u("matching_timeout")
	}
	c.Items = items
	return c
}

func generate(seed int64, i int, fx *Fixtures, r *rand.Rand) *Config {
	cfg := &Config{}
	g := &gen{r: r, fx: fx, cfg: cfg}
	shape := g.n(10)
	nblocks := 1
	switch {
	case shape == 0:
		nblocks = 0
		cfg.HasLW = true
	case shape <= 2:
		cfg.HasLW = true
	}
	if nblocks == 1 && g.p(0.2) {
		nblocks = 2
		g.use("global", "layer4", "multiple_blocks")
	}
	nservers := 1 + g.n(3)
	for b := 0; b < nblocks; b++ {
		var servers []*Server
		k := nservers
		if nblocks == 2 {
			k = 1 + g.n(2)
		}
		for s := 0; s < k; s++ {
			srv := &Server{}
			na := 1
			if g.p(0.3) {
				na = 2 + g.n(2)
			}
			for a := 0; a < na; a++ {
				srv.Listen = append(srv.Listen, g.listenAddr())
			}
			if na > 1 {
				g.use("server", "layer4", "multi_listen")
			}
			srv.Body = g.container(0, "server", "layer4")
			servers = append(servers, srv)
		}
		cfg.Blocks = append(cfg.Blocks, servers)
	}
	if cfg.HasLW {
		g.use("listener_wrapper", "layer4", "")
		cfg.LWPort = 1024 + g.n(60000)
		cfg.LWFirst = true // Caddy rejects an explicit tls wrapper in the first position
		cfg.LWBefore = g.p(0.5)
		if g.p(0.1) {
			cfg.LWBare = true
		} else {
			cfg.LW = g.container(0, "listener_wrapper", "layer4")
		}
	}
	cfg.Uses = g.uses
	return cfg
}
