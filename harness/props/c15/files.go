package c15

import (
	"crypto/ed25519"
	"crypto/sha256"
	"crypto/x509"
	"crypto/x509/pkix"
	"encoding/base64"
	"encoding/binary"
	"encoding/hex"
	"encoding/pem"
	"fmt"
	"math/big"
	"os"
	"path/filepath"
	"strings"
	"time"

	"github.com/mholt/caddy-l4/modules/l4openvpn"
)

// Fixtures are the external files and inline key/certificate values that some
// documented options refer to (openvpn key files, proxy upstream TLS client
// certificates, CA pools, ...). All contents are deterministic so that the
// generated Caddyfile text only depends on the seed and on the directory.
type Fixtures struct {
	Dir string `json:"dir"`

	CAPEMFile     string    `json:"-"` // PEM file with one CA certificate
	CAPEMFile2    string    `json:"-"` // a second CA PEM file
	ClientCert    string    `json:"-"` // PEM client certificate file
	ClientKey     string    `json:"-"` // PEM client key file
	GroupKeyFile  string    `json:"-"` // OpenVPN static key V1 file
	ServerKeyFile string    `json:"-"` // OpenVPN tls-crypt-v2 server key file
	ClientKeyFile [2]string `json:"-"` // OpenVPN tls-crypt-v2 client key files
	SecretsLog    string    `json:"-"` // insecure_secrets_log target

	CADERb64     [2]string `json:"-"` // base64 DER of the CA certificates
	LeafDERb64   string    `json:"-"` // base64 DER of the client (leaf) certificate
	GroupKeyHex  string    `json:"-"` // 256 bytes
	ServerKeyB64 string    `json:"-"` // 128 bytes
	ClientKeyB64 [2]string `json:"-"` // 256 bytes key + wrapped key
	// ClientKeysWrapped: the client keys authenticate under the server key
	ClientKeysWrapped bool `json:"-"`
}

// detBytes returns n deterministic pseudo-random bytes for a label.
func detBytes(label string, n int) []byte {
	var out []byte
	var ctr uint32
	for len(out) < n {
		var b [4]byte
		binary.BigEndian.PutUint32(b[:], ctr)
		s := sha256.Sum256(append([]byte("verif-c15/"+label+"/"), b[:]...))
		out = append(out, s[:]...)
		ctr++
	}
	return out[:n]
}

func detCert(label string, ca bool, parent *x509.Certificate, parentKey ed25519.PrivateKey) (der []byte, cert *x509.Certificate, key ed25519.PrivateKey, err error) {
	key = ed25519.NewKeyFromSeed(detBytes("key/"+label, ed25519.SeedSize))
	tmpl := &x509.Certificate{
		SerialNumber:          new(big.Int).SetBytes(detBytes("serial/"+label, 8)),
		Subject:               pkix.Name{CommonName: label + ".c15.test", Organization: []string{"Verif C15"}},
		NotBefore:             time.Date(2020, 1, 1, 0, 0, 0, 0, time.UTC),
		NotAfter:              time.Date(2120, 1, 1, 0, 0, 0, 0, time.UTC),
		KeyUsage:              x509.KeyUsageDigitalSignature,
		ExtKeyUsage:           []x509.ExtKeyUsage{x509.ExtKeyUsageClientAuth, x509.ExtKeyUsageServerAuth},
		BasicConstraintsValid: true,
		IsCA:                  ca,
		DNSNames:              []string{label + ".c15.test"},
	}
	if ca {
		tmpl.KeyUsage |= x509.KeyUsageCertSign
	}
	signer, signerKey := tmpl, key
	if parent != nil {
		signer, signerKey = parent, parentKey
	}
	der, err = x509.CreateCertificate(nil, tmpl, signer, key.Public(), signerKey)
	if err != nil {
		return
	}
	cert, err = x509.ParseCertificate(der)
	return
}

func wrap64(s string) string {
	var sb strings.Builder
	for len(s) > 64 {
		sb.WriteString(s[:64])
		sb.WriteByte('\n')
		s = s[64:]
	}
	sb.WriteString(s)
	sb.WriteByte('\n')
	return sb.String()
}

// openvpnClientKey builds a tls-crypt-v2 client key: a 256-byte key Kc followed by a wrapped key
// WKc = 32-byte tag || >=256 bytes ciphertext || 2-byte length of WKc. The wrapping is done with the module's own
// exported key-wrapping API under the fixture server key, so that client keys authenticate when a server key is
// configured as well (this is fixture data, not an oracle). If that API fails, an unauthenticated stand-in is
// returned and wrapped is false: configurations that combine client keys with a server key then skip provisioning.
func openvpnClientKey(label string, server []byte) (key []byte, wrapped bool) {
	kc := detBytes("ovpn-kc/"+label, 256)
	func() {
		defer func() { _ = recover() }()
		sk := &l4openvpn.StaticKey{KeyBytes: server}
		wk := &l4openvpn.WrappedKey{}
		wk.StaticKey.KeyBytes = kc
		wk.Digest, wk.Cipher = l4openvpn.AuthDigestDefault, l4openvpn.CryptCipherDefault
		if wk.Sign(nil, sk) != nil {
			return
		}
		if wk.MessageTraitCrypt.EncryptOnServer(sk, &wk.MessageTraitAuth, wk.ToBytesCrypt) != nil {
			return
		}
		all := append(append([]byte{}, kc...), wk.ToBytes()...)
		chk := &l4openvpn.WrappedKey{}
		if chk.FromBase64(base64.StdEncoding.EncodeToString(all)) == nil && chk.DecryptAndAuthenticate(nil, sk) {
			key, wrapped = all, true
		}
	}()
	if wrapped {
		return key, true
	}
	tag := detBytes("ovpn-tag/"+label, 32)
	enc := detBytes("ovpn-enc/"+label, 256+5)
	wkc := append(append([]byte{}, tag...), enc...)
	wkc = binary.BigEndian.AppendUint16(wkc, uint16(len(wkc)+2))
	return append(kc, wkc...), false
}

// NewFixtures creates (or re-creates) the fixture files under dir.
func NewFixtures(dir string) (*Fixtures, error) {
	if err := os.MkdirAll(dir, 0o755); err != nil {
		return nil, err
	}
	f := &Fixtures{Dir: dir, ClientKeysWrapped: true}
	// several shards share the directory: contents are deterministic, so an existing identical file is left alone
	// and a new one is moved into place atomically (a reader never sees a partial file)
	write := func(name, content string) (string, error) {
		p := filepath.Join(dir, name)
		if old, err := os.ReadFile(p); err == nil && string(old) == content {
			return p, nil
		}
		tmp := fmt.Sprintf("%s.tmp-%d", p, os.Getpid())
		if err := os.WriteFile(tmp, []byte(content), 0o600); err != nil {
			return p, err
		}
		return p, os.Rename(tmp, p)
	}
	var err error
	caDER, caCert, caKey, err := detCert("ca1", true, nil, nil)
	if err != nil {
		return nil, err
	}
	ca2DER, _, _, err := detCert("ca2", true, nil, nil)
	if err != nil {
		return nil, err
	}
	leafDER, _, leafKey, err := detCert("client", false, caCert, caKey)
	if err != nil {
		return nil, err
	}
	pemOf := func(typ string, b []byte) string {
		return string(pem.EncodeToMemory(&pem.Block{Type: typ, Bytes: b}))
	}
	if f.CAPEMFile, err = write("ca1.pem", pemOf("CERTIFICATE", caDER)); err != nil {
		return nil, err
	}
	if f.CAPEMFile2, err = write("ca2.pem", pemOf("CERTIFICATE", ca2DER)); err != nil {
		return nil, err
	}
	if f.ClientCert, err = write("client.crt", pemOf("CERTIFICATE", leafDER)); err != nil {
		return nil, err
	}
	kb, err := x509.MarshalPKCS8PrivateKey(leafKey)
	if err != nil {
		return nil, err
	}
	if f.ClientKey, err = write("client.key", pemOf("PRIVATE KEY", kb)); err != nil {
		return nil, err
	}
	f.CADERb64 = [2]string{base64.StdEncoding.EncodeToString(caDER), base64.StdEncoding.EncodeToString(ca2DER)}
	f.LeafDERb64 = base64.StdEncoding.EncodeToString(leafDER)

	// OpenVPN keys
	f.GroupKeyHex = hex.EncodeToString(detBytes("ovpn-group", 256))
	fileGroup := hex.EncodeToString(detBytes("ovpn-group-file", 256))
	var gsb strings.Builder
	gsb.WriteString("#\n# 2048 bit OpenVPN static key\n#\n-----BEGIN OpenVPN Static key V1-----\n")
	for i := 0; i < len(fileGroup); i += 32 {
		gsb.WriteString(fileGroup[i:i+32] + "\n")
	}
	gsb.WriteString("-----END OpenVPN Static key V1-----\n")
	if f.GroupKeyFile, err = write("ta.key", gsb.String()); err != nil {
		return nil, err
	}
	// one server key, written inline and in the file, so that every client key is wrapped with "the" server key
	server := detBytes("ovpn-server", 128)
	f.ServerKeyB64 = base64.StdEncoding.EncodeToString(server)
	srvFile := f.ServerKeyB64
	if f.ServerKeyFile, err = write("v2-server.key", "-----BEGIN OpenVPN tls-crypt-v2 server key-----\n"+wrap64(srvFile)+"-----END OpenVPN tls-crypt-v2 server key-----\n"); err != nil {
		return nil, err
	}
	for i := 0; i < 2; i++ {
		k1, w1 := openvpnClientKey(fmt.Sprintf("inline%d", i), server)
		k2, w2 := openvpnClientKey(fmt.Sprintf("file%d", i), server)
		f.ClientKeysWrapped = f.ClientKeysWrapped && w1 && w2
		f.ClientKeyB64[i] = base64.StdEncoding.EncodeToString(k1)
		cf := base64.StdEncoding.EncodeToString(k2)
		if f.ClientKeyFile[i], err = write(fmt.Sprintf("v2-client%d.key", i), "-----BEGIN OpenVPN tls-crypt-v2 client key-----\n"+wrap64(cf)+"-----END OpenVPN tls-crypt-v2 client key-----\n"); err != nil {
			return nil, err
		}
	}
	f.SecretsLog = filepath.Join(dir, "sslkeylog.txt")
	return f, nil
}
