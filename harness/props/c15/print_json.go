package c15

import (
	"fmt"
	"strconv"
	"strings"
)

// Printer (b): the EXPECTED JSON, written from the documented JSON structure of each module (field names from the
// struct tags and their doc comments; custom array/map shapes of not/http/tls/quic from their type docs). Fields whose
// value is the zero value are absent (every field is tagged omitempty).

type obj = map[string]any

func strs(xs []string) []any {
	out := make([]any, 0, len(xs))
	for _, x := range xs {
		out = append(out, x)
	}
	return out
}

func atoi(s string) float64 {
	v, err := strconv.ParseFloat(s, 64)
	if err != nil {
		panic("c15: not a number: " + s)
	}
	return v
}

func nums(xs []string) []any {
	out := make([]any, 0, len(xs))
	for _, x := range xs {
		out = append(out, atoi(x))
	}
	return out
}

// setNum sets a numeric field unless it is zero.
func setNum(o obj, key string, v float64) {
	if v != 0 {
		o[key] = v
	}
}

// privateRanges is the documented expansion of Caddy's "private_ranges" shortcut.
var privateRanges = []string{"192.168.0.0/16", "172.16.0.0/12", "10.0.0.0/8", "127.0.0.1/8", "fd00::/8", "::1"}

func expandRanges(args []string) []any {
	var out []any
	for _, a := range args {
		if a == "private_ranges" {
			out = append(out, strs(privateRanges)...)
			continue
		}
		out = append(out, a)
	}
	return out
}

// matcherSetJSON: a matcher set is an object keyed by matcher name.
func matcherSetJSON(ms []*Node) obj {
	o := obj{}
	for _, m := range ms {
		o[m.Name] = matcherJSON(m)
	}
	return o
}

func handshakeSetJSON(ms []*Node) obj {
	o := obj{}
	for _, m := range ms {
		switch m.Name {
		case "sni", "alpn":
			o[m.Name] = strs(m.Args)
		case "local_ip":
			o[m.Name] = obj{"ranges": expandRanges(m.Args)}
		case "remote_ip":
			// "IPs and CIDRs starting with ! symbol are treated as not_ranges"
			var in, out []string
			for _, a := range m.Args {
				if len(a) > 1 && a[0] == '!' {
					out = append(out, a[1:])
				} else {
					in = append(in, a)
				}
			}
			ro := obj{}
			if len(in) > 0 {
				ro["ranges"] = expandRanges(in)
			}
			if len(out) > 0 {
				ro["not_ranges"] = expandRanges(out)
			}
			o[m.Name] = ro
		default:
			panic("c15: unknown handshake matcher " + m.Name)
		}
	}
	return o
}

func httpSetJSON(ms []*Node) obj {
	o := obj{}
	for _, m := range ms {
		switch m.Name {
		case "host", "path", "method":
			o[m.Name] = strs(m.Args)
		case "header":
			o[m.Name] = obj{m.Args[0]: []any{m.Args[1]}}
		case "protocol":
			o[m.Name] = m.Args[0]
		case "remote_ip":
			o[m.Name] = obj{"ranges": expandRanges(m.Args)}
		case "path_regexp":
			if len(m.Args) == 2 {
				o[m.Name] = obj{"name": m.Args[0], "pattern": m.Args[1]}
			} else {
				o[m.Name] = obj{"pattern": m.Args[0]}
			}
		case "query":
			kv := strings.SplitN(m.Args[0], "=", 2)
			o[m.Name] = obj{kv[0]: []any{kv[1]}}
		case "not":
			o[m.Name] = []any{httpSetJSON(m.Kids)}
		default:
			panic("c15: unknown http matcher " + m.Name)
		}
	}
	return o
}

func findOpts(n *Node, name string) []*Node {
	var out []*Node
	for _, k := range n.Kids {
		if k.Name == name {
			out = append(out, k)
		}
	}
	return out
}

func findOpt(n *Node, name string) *Node {
	if os := findOpts(n, name); len(os) > 0 {
		return os[0]
	}
	return nil
}

func matcherJSON(n *Node) any {
	switch n.Name {
	case "clock":
		o := obj{}
		args := n.Args
		switch args[0] {
		case "after", "from":
			// "clock <after|from> <time_after>": till the end of the day; 00:00:00 as before is treated as 24:00:00
			o["after"], o["before"] = args[1], "00:00:00"
		case "before", "till", "to", "until":
			// "clock <before|...> <time_before>": from the lowest value 00:00:00
			o["after"], o["before"] = "00:00:00", args[1]
		default:
			o["after"], o["before"] = args[0], args[1]
		}
		if len(args) == 3 {
			o["timezone"] = args[2]
		}
		return o
	case "dns":
		o := obj{}
		for _, k := range n.Kids {
			switch k.Name {
			case "default_deny", "prefer_allow":
				o[k.Name] = true
			default:
				rule := obj{}
				re := strings.HasSuffix(k.Name, "_regexp")
				for i, f := range []string{"name", "type", "class"} {
					if i < len(k.Args) && k.Args[i] != "*" {
						if re {
							rule[f+"_regexp"] = k.Args[i]
						} else {
							rule[f] = k.Args[i]
						}
					}
				}
				list := "allow"
				if strings.HasPrefix(k.Name, "deny") {
					list = "deny"
				}
				prev, _ := o[list].([]any)
				o[list] = append(prev, rule)
			}
		}
		return o
	case "http":
		// "an array of matcher set objects"; the Caddyfile form states a single set
		return []any{httpSetJSON(n.Kids)}
	case "local_ip", "remote_ip":
		return obj{"ranges": expandRanges(n.Args)}
	case "not":
		// "each of the array elements is a matcher set"; the Caddyfile form states a single (ANDed) set
		return []any{matcherSetJSON(n.Kids)}
	case "openvpn":
		o := obj{}
		for _, k := range n.Kids {
			switch k.Name {
			case "modes":
				o["modes"] = strs(k.Args)
			case "ignore_crypto", "ignore_timestamp":
				o[k.Name] = true
			case "group_key", "group_key_file", "auth_digest", "group_key_direction", "server_key", "server_key_file":
				o[k.Name] = k.Args[0]
			case "client_key":
				prev, _ := o["client_keys"].([]any)
				o["client_keys"] = append(prev, k.Args[0])
			case "client_key_file":
				prev, _ := o["client_key_files"].([]any)
				o["client_key_files"] = append(prev, k.Args[0])
			default:
				panic("c15: openvpn option " + k.Name)
			}
		}
		return o
	case "postgres", "proxy_protocol", "ssh", "xmpp":
		return obj{}
	case "quic", "tls":
		// "a map of matcher names to their values"
		return handshakeSetJSON(n.Kids)
	case "rdp":
		o := obj{}
		for _, k := range n.Kids {
			switch k.Name {
			case "cookie_hash", "cookie_hash_regexp", "custom_info", "custom_info_regexp":
				o[k.Name] = k.Args[0]
			case "cookie_ip":
				o["cookie_ips"] = expandRanges(k.Args)
			case "cookie_port":
				o["cookie_ports"] = nums(k.Args)
			default:
				panic("c15: rdp option " + k.Name)
			}
		}
		return o
	case "regexp":
		o := obj{"pattern": n.Args[0]}
		if len(n.Args) > 1 {
			setNum(o, "count", atoi(n.Args[1]))
		}
		return o
	case "socks4":
		o := obj{}
		for _, k := range n.Kids {
			switch k.Name {
			case "commands":
				o["commands"] = strs(k.Args)
			case "networks":
				o["networks"] = expandRanges(k.Args)
			case "ports":
				o["ports"] = nums(k.Args)
			default:
				panic("c15: socks4 option " + k.Name)
			}
		}
		return o
	case "socks5":
		o := obj{}
		if k := findOpt(n, "auth_methods"); k != nil {
			o["auth_methods"] = nums(k.Args)
		}
		return o
	case "winbox":
		o := obj{}
		for _, k := range n.Kids {
			switch k.Name {
			case "modes":
				o["modes"] = strs(k.Args)
			case "username", "username_regexp":
				o[k.Name] = k.Args[0]
			default:
				panic("c15: winbox option " + k.Name)
			}
		}
		return o
	case "wireguard":
		o := obj{}
		if len(n.Args) > 0 {
			setNum(o, "zero", atoi(n.Args[0]))
		}
		return o
	}
	panic("c15: unknown matcher " + n.Name)
}

// trustPoolJSON: a tls.ca_pool.source module with the inline key "provider".
func trustPoolJSON(n *Node) obj {
	switch n.Args[0] {
	case "inline":
		var certs []any
		for _, k := range findOpts(n, "trust_der") {
			certs = append(certs, strs(k.Args)...)
		}
		return obj{"provider": "inline", "trusted_ca_certs": certs}
	case "file":
		files := strs(n.Args[1:])
		for _, k := range findOpts(n, "pem_file") {
			files = append(files, strs(k.Args)...)
		}
		return obj{"provider": "file", "pem_files": files}
	}
	panic("c15: trust pool " + n.Args[0])
}

func upstreamJSON(n *Node) obj {
	o := obj{}
	dial := strs(n.Args)
	var tls obj
	t := func() obj {
		if tls == nil {
			tls = obj{}
		}
		return tls
	}
	for _, k := range n.Kids {
		switch k.Name {
		case "dial":
			dial = append(dial, strs(k.Args)...)
		case "max_connections":
			setNum(o, "max_connections", atoi(k.Args[0]))
		case "tls":
			t()
		case "tls_client_auth":
			if len(k.Args) == 1 {
				t()["client_certificate_automate"] = k.Args[0]
			} else {
				t()["client_certificate_file"], t()["client_certificate_key_file"] = k.Args[0], k.Args[1]
			}
		case "tls_curves":
			t()["curves"] = strs(k.Args)
		case "tls_except_ports":
			t()["except_ports"] = strs(k.Args)
		case "tls_insecure_skip_verify":
			t()["insecure_skip_verify"] = true
		case "tls_renegotiation":
			t()["renegotiation"] = k.Args[0]
		case "tls_server_name":
			t()["server_name"] = k.Args[0]
		case "tls_timeout":
			setNum(t(), "handshake_timeout", float64(durNS(k.Args[0])))
		case "tls_trust_pool":
			t()["ca"] = trustPoolJSON(k)
		case "tls_trusted_ca_certs":
			t()["root_ca_pem_files"] = strs(k.Args)
		case "tls_trusted_ca_pool":
			t()["root_ca_pool"] = strs(k.Args)
		default:
			panic("c15: upstream option " + k.Name)
		}
	}
	o["dial"] = dial
	if tls != nil {
		o["tls"] = tls
	}
	return o
}

func connPolicyJSON(n *Node) obj {
	o := obj{}
	for _, k := range n.Kids {
		switch k.Name {
		case "alpn":
			o["alpn"] = strs(k.Args)
		case "cert_selection":
			cs := obj{}
			for _, c := range k.Kids {
				switch c.Name {
				case "all_tags", "any_tag", "subject_organization":
					cs[c.Name] = strs(c.Args)
				case "public_key_algorithm":
					// documented JSON values are the lower-case algorithm names
					cs[c.Name] = c.Args[0]
				case "serial_number":
					// big integers are strings in JSON
					cs[c.Name] = strs(c.Args)
				default:
					panic("c15: cert_selection option " + c.Name)
				}
			}
			o["certificate_selection"] = cs
		case "ciphers":
			o["cipher_suites"] = strs(k.Args)
		case "client_auth":
			ca := obj{}
			for _, c := range k.Kids {
				switch c.Name {
				case "mode":
					ca["mode"] = c.Args[0]
				case "trust_pool":
					ca["ca"] = trustPoolJSON(c)
				case "trusted_leaf_cert":
					prev, _ := ca["trusted_leaf_certs"].([]any)
					ca["trusted_leaf_certs"] = append(prev, c.Args[0])
				default:
					panic("c15: client_auth option " + c.Name)
				}
			}
			o["client_authentication"] = ca
		case "curves":
			o["curves"] = strs(k.Args)
		case "default_sni", "fallback_sni", "insecure_secrets_log":
			o[k.Name] = k.Args[0]
		case "drop":
			o["drop"] = true
		case "match":
			o["match"] = handshakeSetJSON(k.Kids)
		case "protocols":
			o["protocol_min"] = k.Args[0]
			if len(k.Args) > 1 {
				o["protocol_max"] = k.Args[1]
			}
		default:
			panic("c15: connection_policy option " + k.Name)
		}
	}
	return o
}

func handlerJSON(n *Node) obj {
	o := obj{"handler": n.Name}
	switch n.Name {
	case "echo":
	case "proxy":
		var ups []any
		for _, a := range n.Args {
			ups = append(ups, obj{"dial": []any{a}})
		}
		var active, passive, lb obj
		mk := func(p *obj) obj {
			if *p == nil {
				*p = obj{}
			}
			return *p
		}
		for _, k := range n.Kids {
			switch k.Name {
			case "health_interval":
				setNum(mk(&active), "interval", float64(durNS(k.Args[0])))
			case "health_port":
				setNum(mk(&active), "port", atoi(k.Args[0]))
			case "health_timeout":
				setNum(mk(&active), "timeout", float64(durNS(k.Args[0])))
			case "fail_duration":
				setNum(mk(&passive), "fail_duration", float64(durNS(k.Args[0])))
			case "max_fails":
				setNum(mk(&passive), "max_fails", atoi(k.Args[0]))
			case "unhealthy_connection_count":
				setNum(mk(&passive), "unhealthy_connection_count", atoi(k.Args[0]))
			case "lb_policy":
				sel := obj{"policy": k.Args[0]}
				if len(k.Args) > 1 {
					setNum(sel, "choose", atoi(k.Args[1]))
				}
				mk(&lb)["selection"] = sel
			case "lb_try_duration":
				setNum(mk(&lb), "try_duration", float64(durNS(k.Args[0])))
			case "lb_try_interval":
				setNum(mk(&lb), "try_interval", float64(durNS(k.Args[0])))
			case "proxy_protocol":
				o["proxy_protocol"] = k.Args[0]
			case "upstream":
				ups = append(ups, upstreamJSON(k))
			default:
				panic("c15: proxy option " + k.Name)
			}
		}
		if len(ups) > 0 {
			o["upstreams"] = ups
		}
		if active != nil || passive != nil {
			hc := obj{}
			if active != nil {
				hc["active"] = active
			}
			if passive != nil {
				hc["passive"] = passive
			}
			o["health_checks"] = hc
		}
		if lb != nil {
			o["load_balancing"] = lb
		}
	case "proxy_protocol":
		for _, k := range n.Kids {
			switch k.Name {
			case "allow":
				prev, _ := o["allow"].([]any)
				o["allow"] = append(prev, expandRanges(k.Args)...)
			case "timeout":
				setNum(o, "timeout", float64(durNS(k.Args[0])))
			default:
				panic("c15: proxy_protocol option " + k.Name)
			}
		}
	case "socks5":
		for _, k := range n.Kids {
			switch k.Name {
			case "bind_ip":
				o["bind_ip"] = k.Args[0]
			case "commands":
				prev, _ := o["commands"].([]any)
				o["commands"] = append(prev, strs(k.Args)...)
			case "credentials":
				cr, _ := o["credentials"].(obj)
				if cr == nil {
					cr = obj{}
				}
				for i := 0; i+1 < len(k.Args); i += 2 {
					cr[k.Args[i]] = k.Args[i+1]
				}
				o["credentials"] = cr
			default:
				panic("c15: socks5 option " + k.Name)
			}
		}
	case "subroute":
		containerJSON(n.Body, o)
	case "tee":
		var br []any
		for _, k := range n.Kids {
			br = append(br, handlerJSON(k))
		}
		o["branch"] = br
	case "throttle":
		for _, k := range n.Kids {
			switch k.Name {
			case "latency":
				setNum(o, "latency", float64(durNS(k.Args[0])))
			case "read_burst_size", "read_bytes_per_second", "total_read_burst_size", "total_read_bytes_per_second":
				setNum(o, k.Name, atoi(k.Args[0]))
			default:
				panic("c15: throttle option " + k.Name)
			}
		}
	case "tls":
		var cps []any
		for _, k := range n.Kids {
			cps = append(cps, connPolicyJSON(k))
		}
		if len(cps) > 0 {
			o["connection_policies"] = cps
		}
	default:
		panic("c15: unknown handler " + n.Name)
	}
	return o
}

// containerJSON writes "routes" and "matching_timeout" of a server / listener wrapper / subroute into o.
func containerJSON(c *Container, o obj) {
	if c == nil {
		return
	}
	sets := map[string]*NamedSet{}
	for _, it := range c.Items {
		if it.Set != nil {
			sets[it.Set.Name] = it.Set
		}
	}
	var routes []any
	for _, it := range c.Items {
		switch {
		case it.Timeout != "":
			setNum(o, "matching_timeout", float64(durNS(it.Timeout)))
		case it.Route != nil:
			ro := obj{}
			var match []any
			for _, sn := range it.Route.Sets {
				s := sets[sn]
				if s == nil {
					panic(fmt.Sprintf("c15: undefined set %s", sn))
				}
				match = append(match, matcherSetJSON(s.Matchers))
			}
			if len(match) > 0 {
				ro["match"] = match
			}
			var handle []any
			for _, h := range it.Route.Handlers {
				handle = append(handle, handlerJSON(h))
			}
			if len(handle) > 0 {
				ro["handle"] = handle
			}
			routes = append(routes, ro)
		}
	}
	if len(routes) > 0 {
		o["routes"] = routes
	}
}

// Expected is the expected adapter output restricted to the two subtrees the property talks about.
type Expected struct {
	// Layer4 is apps.layer4 (nil when the Caddyfile has no global layer4 option).
	Layer4 any `json:"layer4"`
	// Wrappers is apps.http.servers.srv0.listener_wrappers (nil without the listener-wrapper form).
	Wrappers any `json:"listener_wrappers"`
}

// ExpectedJSON prints the expected JSON of the configuration.
func (cfg *Config) ExpectedJSON() Expected {
	var e Expected
	if len(cfg.Blocks) > 0 {
		servers := obj{}
		i := 0
		for _, blk := range cfg.Blocks {
			for _, s := range blk {
				so := obj{"listen": strs(s.Listen)}
				containerJSON(s.Body, so)
				servers["srv"+strconv.Itoa(i)] = so
				i++
			}
		}
		e.Layer4 = obj{"servers": servers}
	}
	if cfg.HasLW {
		lw := obj{"wrapper": "layer4"}
		if !cfg.LWBare {
			containerJSON(cfg.LW, lw)
		}
		tls := obj{"wrapper": "tls"}
		if cfg.LWFirst {
			e.Wrappers = []any{lw, tls}
		} else {
			e.Wrappers = []any{tls, lw}
		}
	}
	return e
}
