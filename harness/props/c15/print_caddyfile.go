package c15

import (
	"math/rand"
	"strings"
)

// Printer (a): Caddyfile text following the documented syntax. It is generic over Nodes: "<name> <args...>" and, if
// the directive has block lines, " {" ... "}" with one more tab of indentation.

type cfPrinter struct {
	sb strings.Builder
	r  *rand.Rand // token quoting style
}

// needsQuote reports whether a token cannot be written as a bare word.
func needsQuote(s string) bool {
	if s == "" || s == "{" || s == "}" {
		return true
	}
	if strings.HasPrefix(s, "#") || strings.HasPrefix(s, "<<") || strings.HasPrefix(s, "{$") {
		return true
	}
	return strings.ContainsAny(s, " \t\n\"`")
}

// tok writes one argument token: bare when possible, sometimes quoted (quoted and bare tokens are the same value in
// the Caddyfile syntax); inside double quotes only the quote character is escaped, backquoted text is literal.
func (p *cfPrinter) tok(s string) string {
	q := needsQuote(s)
	if !q && p.r.Intn(12) != 0 {
		return s
	}
	if !strings.Contains(s, "`") && (strings.Contains(s, "\"") || p.r.Intn(3) == 0) {
		return "`" + s + "`"
	}
	// a trailing backslash would escape the closing quote
	if strings.HasSuffix(s, "\\") {
		return "`" + s + "`"
	}
	return "\"" + strings.ReplaceAll(s, "\"", "\\\"") + "\""
}

func (p *cfPrinter) line(ind int, s string) {
	p.sb.WriteString(strings.Repeat("\t", ind))
	p.sb.WriteString(s)
	p.sb.WriteByte('\n')
}

// header returns "<name> <args...>" including an inline kid chain, and the node whose block must be written.
func (p *cfPrinter) header(n *Node) (string, *Node) {
	parts := []string{n.Name}
	for _, a := range n.Args {
		parts = append(parts, p.tok(a))
	}
	if n.Inline && len(n.Kids) == 1 {
		h, last := p.header(n.Kids[0])
		return strings.Join(parts, " ") + " " + h, last
	}
	return strings.Join(parts, " "), n
}

// comment sometimes writes a comment or an empty line (both are insignificant in the Caddyfile syntax).
func (p *cfPrinter) comment(ind int) {
	switch p.r.Intn(40) {
	case 0:
		p.line(ind, "# a comment { with braces } and \"quotes\"")
	case 1:
		p.sb.WriteByte('\n')
	}
}

func (p *cfPrinter) node(ind int, n *Node) {
	p.comment(ind)
	h, blk := p.header(n)
	p.block(ind, h, blk)
}

func (p *cfPrinter) block(ind int, h string, blk *Node) {
	if blk.Body != nil {
		p.line(ind, h+" {")
		p.container(ind+1, blk.Body)
		p.line(ind, "}")
		return
	}
	if len(blk.Kids) == 0 {
		p.line(ind, h)
		return
	}
	p.line(ind, h+" {")
	for _, k := range blk.Kids {
		p.node(ind+1, k)
	}
	p.line(ind, "}")
}

func (p *cfPrinter) container(ind int, c *Container) {
	for _, it := range c.Items {
		p.comment(ind)
		switch {
		case it.Timeout != "":
			p.line(ind, "matching_timeout "+it.Timeout)
		case it.Set != nil:
			s := it.Set
			if s.Inline && len(s.Matchers) == 1 {
				h, blk := p.header(s.Matchers[0])
				p.block(ind, s.Name+" "+h, blk)
			} else {
				p.line(ind, s.Name+" {")
				for _, m := range s.Matchers {
					p.node(ind+1, m)
				}
				p.line(ind, "}")
			}
		case it.Route != nil:
			h := "route"
			for _, s := range it.Route.Sets {
				h += " " + s
			}
			p.line(ind, h+" {")
			for _, hd := range it.Route.Handlers {
				p.node(ind+1, hd)
			}
			p.line(ind, "}")
		}
	}
}

// Caddyfile prints the whole configuration.
func (cfg *Config) Caddyfile(r *rand.Rand) string {
	p := &cfPrinter{r: r}
	p.line(0, "{")
	lw := func() {
		if !cfg.HasLW {
			return
		}
		p.line(1, "servers {")
		p.line(2, "listener_wrappers {")
		if !cfg.LWFirst {
			p.line(3, "tls")
		}
		if cfg.LWBare || cfg.LW == nil {
			p.line(3, "layer4")
		} else {
			p.line(3, "layer4 {")
			p.container(4, cfg.LW)
			p.line(3, "}")
		}
		if cfg.LWFirst {
			p.line(3, "tls")
		}
		p.line(2, "}")
		p.line(1, "}")
	}
	if cfg.LWBefore {
		lw()
	}
	for _, servers := range cfg.Blocks {
		p.line(1, "layer4 {")
		for _, s := range servers {
			var as []string
			for _, a := range s.Listen {
				as = append(as, a)
			}
			p.line(2, strings.Join(as, " ")+" {")
			p.container(3, s.Body)
			p.line(2, "}")
		}
		p.line(1, "}")
	}
	if !cfg.LWBefore {
		lw()
	}
	p.line(0, "}")
	if cfg.HasLW {
		p.line(0, ":"+itoa(cfg.LWPort)+" {")
		p.line(1, "respond \"OK\" 200")
		p.line(0, "}")
	}
	return p.sb.String()
}
