// Package c15 is a generative differential monitor for "Caddyfile and JSON
// configurations are equivalent, loadable and round-trip". A seeded generator
// draws abstract layer4 configurations from the grammar documented on every
// UnmarshalCaddyfile; two independent printers turn one abstract configuration
// into (a) Caddyfile text and (b) the expected JSON; the real adapter, loader
// (caddy.Validate) and JSON codecs are run on the text and compared.
package c15

import (
	"bytes"
	"encoding/json"
	"fmt"
	"reflect"
	"regexp"
	"runtime/debug"
	"sort"
	"strings"
	"time"

	"github.com/caddyserver/caddy/v2"
	"github.com/caddyserver/caddy/v2/caddyconfig"
	_ "github.com/caddyserver/caddy/v2/caddyconfig/httpcaddyfile"

	"github.com/mholt/caddy-l4/layer4"

	"verifharness/fw"
	"verifharness/hmods"
)

func init() {
	fw.Register(&fw.Prop{
		ID: "C15",
		Rule: "case = one Caddyfile generated (seeded) from the grammar documented on the UnmarshalCaddyfile of the layer4 app, servers, listener wrapper, " +
			"all 19 matchers and all 8 handlers (options, inline and block forms, named matcher sets shared between routes, nesting via subroute/tee/not to depth 3, " +
			"several servers and several global layer4 blocks, listener-wrapper form; <ranges...> options occasionally use the private_ranges shortcut their parsers accept); between two generated files a Caddyfile that must be rejected is adapted (unknown matcher set / handler / matcher at nesting depths 1-3), which has to fail cleanly and leave the next adaptation unaffected; oracles: (i) adapter output == expected JSON printed independently from the " +
			"documented JSON structure (semantic comparison), (ii) adapting twice is byte-identical, (iii) the adapted JSON passes caddy.Validate (loads and provisions), " +
			"(iv) every module's JSON survives unmarshal+marshal (layer4.App, layer4.ListenerWrapper and each nested module with strict decoding). " +
			"non-trivial = uses >= 2 distinct modules and >= 1 option; distinct = hash of the sorted multiset of (module, option) names used. allow lists of the proxy_protocol handler hold CIDRs and plain addresses of both families; now and then an integer option gets an absurdly large value: the adapter may refuse the Caddyfile, and if it adapts it the JSON must carry the same digits (those cases are not compared further).",
		Assumptions: []string{
			"expected JSON follows the struct tags / doc comments of the modules and of the Caddy modules they embed (tls.handshake_match.*, http.matchers.*, tls.ca_pool.source.*, reverseproxy.TLSConfig, caddytls.ConnectionPolicy); zero values are absent (omitempty)",
			"caddy.Validate provisions every module without binding listeners; configurations whose provisioning needs ACME are not validated (counted as abstentions)",
			"upstream and listen addresses are loopback addresses with ports >= 1024",
		},
		MinEvals: 300,
		Plan: func(tier string) []fw.ChildSpec {
			if tier == "thorough" {
				return []fw.ChildSpec{{Name: "gen", Mode: "gen", Shards: 16, Timeout: 60 * time.Minute}}
			}
			return []fw.ChildSpec{{Name: "gen", Mode: "gen", Shards: 8, Timeout: 10 * time.Minute}}
		},
		Run:    run,
		Replay: replay,
	})
}

// Witness is what a violation carries; Replay re-runs the oracles on it.
type Witness struct {
	Index        int      `json:"index"`
	Seed         int64    `json:"seed"`
	Caddyfile    string   `json:"caddyfile"`
	Expected     Expected `json:"expected"`
	FixturesDir  string   `json:"fixtures_dir"`
	SkipValidate string   `json:"skip_validate,omitempty"`
	ExactInts    []string `json:"exact_ints,omitempty"`
	Actual       any      `json:"actual,omitempty"`
	Detail       string   `json:"detail,omitempty"`
}

func run(c *fw.Ctx) {
	hmods.Quiet(c.OutDir + "/caddyhome")
	fx, err := NewFixtures(c.OutDir + "/c15files")
	if err != nil {
		c.Violation("C15 machinery: fixtures", err.Error(), nil)
		return
	}
	n := c.Pick(400, 15000)
	for i := 0; i < n; i++ {
		if !c.Mine(i) {
			continue
		}
		one(c, fx, i)
		// A Caddyfile the adapter has to reject, between two good ones (a long-running Caddy adapts many files, not
		// all of them valid): it must come back with an error, and it must not change what happens to the next file.
		bad := badCaddyfiles[i%len(badCaddyfiles)]
		var err error
		if p := guard(func() { _, _, err = adapt(bad) }); p != nil {
			c.Violation("C15 adapter panics on an invalid Caddyfile in "+p.frame, p.val, map[string]any{"caddyfile": bad})
		} else if err == nil {
			c.Violation("C15 adapter accepts an invalid Caddyfile", "no error for: "+bad, map[string]any{"caddyfile": bad})
		}
		c.Obs("invalid_caddyfiles_rejected", 1)
	}
}

// badCaddyfiles fail at different nesting depths of the layer4 route grammar.
var badCaddyfiles = []string{
	"{\n\tlayer4 {\n\t\t:7001 {\n\t\t\troute @undefined {\n\t\t\t\techo\n\t\t\t}\n\t\t}\n\t}\n}\n",
	"{\n\tlayer4 {\n\t\t:7002 {\n\t\t\troute {\n\t\t\t\tno_such_handler\n\t\t\t}\n\t\t}\n\t}\n}\n",
	"{\n\tlayer4 {\n\t\t:7003 {\n\t\t\troute {\n\t\t\t\tsubroute {\n\t\t\t\t\troute @nope {\n\t\t\t\t\t\techo\n\t\t\t\t\t}\n\t\t\t\t}\n\t\t\t}\n\t\t}\n\t}\n}\n",
	"{\n\tlayer4 {\n\t\t:7004 {\n\t\t\t@m no_such_matcher\n\t\t\troute @m {\n\t\t\t\techo\n\t\t\t}\n\t\t}\n\t}\n}\n",
	"{\n\tlayer4 {\n\t\t:7005 {\n\t\t\troute {\n\t\t\t\tsubroute {\n\t\t\t\t\troute {\n\t\t\t\t\t\tsubroute {\n\t\t\t\t\t\t\troute {\n\t\t\t\t\t\t\t\tbogus\n\t\t\t\t\t\t\t}\n\t\t\t\t\t\t}\n\t\t\t\t\t}\n\t\t\t\t}\n\t\t\t}\n\t\t}\n\t}\n}\n",
}

func one(c *fw.Ctx, fx *Fixtures, i int) {
	cfg := generate(c.Seed, i, fx, fw.Rand(c.Seed, "c15", i))
	text := cfg.Caddyfile(fw.Rand(c.Seed, "c15-quote", i))
	var exp Expected
	func() {
		defer func() {
			if r := recover(); r != nil {
				c.Violation("C15 machinery: expected-JSON printer panicked", fmt.Sprint(r), map[string]any{"index": i, "caddyfile": text})
			}
		}()
		exp = cfg.ExpectedJSON()
	}()
	w := &Witness{Index: i, Seed: c.Seed, Caddyfile: text, Expected: exp, FixturesDir: fx.Dir, SkipValidate: cfg.SkipValidate, ExactInts: cfg.ExactInts}

	uses := append([]string(nil), cfg.Uses...)
	sort.Strings(uses)
	mods, opts := map[string]bool{}, 0
	for _, u := range uses {
		if k := strings.IndexByte(u, '.'); k >= 0 {
			opts++
			mods[u[:k]] = true
		} else {
			mods[u] = true
		}
	}
	seen := map[string]bool{}
	for _, u := range uses {
		if seen[u] {
			continue
		}
		seen[u] = true
		if strings.IndexByte(u, '.') >= 0 {
			c.Obs("opt_"+u, 1)
			c.SetAdd("options", u)
		} else {
			c.Obs("uses_"+u, 1)
			c.SetAdd("modules", u)
		}
	}
	c.Journal("case %d seed %d", i, c.Seed)
	judge(c, w)
	c.Case(fw.Hash(strings.Join(uses, ",")), len(mods) >= 2 && opts >= 1, func() any {
		return map[string]any{"index": i, "caddyfile": text, "expected": exp}
	})
}

// ---------------------------------------------------------------------------
// Running the real code

type panicInfo struct {
	val   string
	frame string
	stack string
}

// guard runs f and converts a panic into a panicInfo with the top frame inside the repository.
func guard(f func()) (pi *panicInfo) {
	defer func() {
		if r := recover(); r != nil {
			st := string(debug.Stack())
			pi = &panicInfo{val: fmt.Sprint(r), stack: st, frame: topRepoFrame(st)}
		}
	}()
	f()
	return nil
}

func topRepoFrame(stack string) string {
	lines := strings.Split(stack, "\n")
	for i, l := range lines {
		if strings.HasPrefix(l, "github.com/mholt/caddy-l4/") {
			fn := l
			if k := strings.LastIndexByte(fn, '('); k > 0 {
				fn = fn[:k]
			}
			loc := ""
			if i+1 < len(lines) {
				loc = strings.TrimSpace(lines[i+1])
				if k := strings.IndexByte(loc, ' '); k > 0 {
					loc = loc[:k]
				}
			}
			return fn + " " + loc
		}
	}
	return "(no repository frame)"
}

var (
	reDigits = regexp.MustCompile(`[0-9]+`)
	reQuoted = regexp.MustCompile(`'[^']*'|"[^"]*"`)
)

// errClass keeps the innermost module-specific part of a loader error ("... provision <module>: <cause>"), so that
// the same cause under different nesting gives the same violation signature.
func errClass(s, dir string) string {
	k := strings.LastIndex(s, "provision ")
	if j := strings.LastIndex(s, "decoding module config: "); j > k {
		k = j
	}
	if k > 0 {
		s = s[k:]
	}
	return normErr(s, dir)
}

var reHandlerElem = regexp.MustCompile(`^(handle|branch)\[(\w+)\]$`)

// pathClass reduces a normalised difference path to the innermost module and the field inside it.
func pathClass(norm string) string {
	suffix := ""
	if k := strings.Index(norm, " ("); k > 0 {
		norm, suffix = norm[:k], norm[k:]
	}
	el := strings.Split(norm, ".")
	ctx, rest := "", el
	for i := len(el) - 1; i >= 0; i-- {
		if m := reHandlerElem.FindStringSubmatch(el[i]); m != nil {
			ctx, rest = "handler "+m[2], el[i+1:]
			break
		}
	}
	for i := len(rest) - 1; i >= 0; i-- {
		if rest[i] == "match[]" && i+1 < len(rest) {
			j := i + 1
			for j+1 < len(rest) && rest[j] == "not[]" {
				j++
			}
			ctx, rest = "matcher "+strings.TrimSuffix(rest[j], "[]"), rest[j+1:]
			break
		}
	}
	if ctx == "" {
		return norm + suffix
	}
	return ctx + ": " + strings.Join(rest, ".") + suffix
}

func normErr(s, dir string) string {
	if dir != "" {
		s = strings.ReplaceAll(s, dir, "$DIR")
	}
	s = reQuoted.ReplaceAllString(s, "'..'")
	s = reDigits.ReplaceAllString(s, "N")
	if len(s) > 140 {
		s = s[:140]
	}
	return s
}

func (w *Witness) with(detail string, actual any) *Witness {
	cp := *w
	cp.Detail, cp.Actual = detail, actual
	return &cp
}

func adapt(text string) (out []byte, warn []caddyconfig.Warning, err error) {
	ad := caddyconfig.GetAdapter("caddyfile")
	if ad == nil {
		return nil, nil, fmt.Errorf("caddyfile adapter is not registered")
	}
	return ad.Adapt([]byte(text), map[string]any{"filename": "Caddyfile"})
}

func judge(c *fw.Ctx, w *Witness) {
	// (ii) adapt twice
	var out1, out2 []byte
	var warns []caddyconfig.Warning
	var err1, err2 error
	if pi := guard(func() { out1, warns, err1 = adapt(w.Caddyfile) }); pi != nil {
		c.Violation("C15 panic while adapting: "+pi.frame, pi.val, w.with(pi.stack, nil))
		return
	}
	if pi := guard(func() { out2, _, err2 = adapt(w.Caddyfile) }); pi != nil {
		c.Violation("C15 panic while adapting: "+pi.frame, pi.val, w.with(pi.stack, nil))
		return
	}
	c.Obs("adapter_warnings", int64(len(warns)))
	for _, wn := range warns {
		c.SetAdd("adapter_warning_kinds", normErr(wn.Message, w.FixturesDir))
		c.Obs("adapter_warning: "+normErr(wn.Message, w.FixturesDir), 1)
	}
	if len(w.ExactInts) > 0 {
		// integers far outside any sensible range: refusing the Caddyfile is fine; adapting it to other digits is not
		if err1 != nil {
			c.Obs("extreme_integer_refused", 1)
			return
		}
		for _, v := range w.ExactInts {
			if !bytes.Contains(out1, []byte(":"+v)) {
				c.Violation("C15 adapt != expected: integer option not taken over digit by digit", fmt.Sprintf("the Caddyfile gives %s for an integer option; the adapter accepted it, but these digits are not in the adapted JSON", v), w.with(string(out1), nil))
			}
		}
		c.Obs("extreme_integer_adapted", 1)
		return
	}
	if err1 != nil {
		c.Violation("C15 adapter rejects documented syntax: "+normErr(err1.Error(), w.FixturesDir), err1.Error(), w.with(err1.Error(), nil))
		return
	}
	if err2 != nil || !bytes.Equal(out1, out2) {
		c.Violation("C15 adapting the same Caddyfile twice differs", "two runs of the adapter on the same text gave different output",
			w.with(fmt.Sprintf("second error: %v", err2), map[string]any{"first": json.RawMessage(out1), "second": json.RawMessage(out2)}))
	}
	c.Obs("adapted", 1)

	// (i) semantic equality with the expected JSON
	var full map[string]any
	if err := json.Unmarshal(out1, &full); err != nil {
		c.Violation("C15 adapter output is not JSON", err.Error(), w.with(string(out1), nil))
		return
	}
	actL4 := dig(full, "apps", "layer4")
	actLW := dig(full, "apps", "http", "servers", "srv0", "listener_wrappers")
	expL4, expLW := canon(w.Expected.Layer4), canon(w.Expected.Wrappers)
	if expL4 == nil && actL4 != nil && w.Expected.Layer4 == nil {
		// no global layer4 option was written: the adapter must not invent one
		c.Violation("C15 adapt != expected: layer4 app without a layer4 option", "apps.layer4 present although the Caddyfile has no global layer4 option", w.with("", actL4))
	} else if w.Expected.Layer4 != nil {
		if ds := diff("layer4", expL4, actL4, nil); len(ds) > 0 {
			c.Violation("C15 adapt != expected: "+pathClass(ds[0].Norm), fmt.Sprintf("apps.layer4: %d difference(s); first at %s: expected %s, adapter gave %s", len(ds), ds[0].Path, js(ds[0].Exp), js(ds[0].Act)),
				w.with(describe(ds)+"expected JSON on its own: "+validateApps(map[string]any{"layer4": expL4}), actL4))
		} else {
			c.Obs("equal_layer4", 1)
		}
	}
	if w.Expected.Wrappers != nil {
		if ds := diff("listener_wrappers", expLW, actLW, nil); len(ds) > 0 {
			c.Violation("C15 adapt != expected: "+pathClass(ds[0].Norm), fmt.Sprintf("listener_wrappers: %d difference(s); first at %s: expected %s, adapter gave %s", len(ds), ds[0].Path, js(ds[0].Exp), js(ds[0].Act)),
				w.with(describe(ds), actLW))
		} else {
			c.Obs("equal_listener_wrappers", 1)
		}
	}

	// (iv) JSON round trip of what the adapter produced
	if actL4 != nil {
		raw, _ := json.Marshal(actL4)
		roundTripTop(c, w, "layer4.App", raw, func() any { return new(layer4.App) })
		var app struct {
			Servers map[string]struct {
				Routes []json.RawMessage `json:"routes"`
			} `json:"servers"`
		}
		_ = json.Unmarshal(raw, &app)
		var names []string
		for k := range app.Servers {
			names = append(names, k)
		}
		sort.Strings(names)
		for _, k := range names {
			for _, r := range app.Servers[k].Routes {
				rtRoute(c, w, r)
			}
		}
	}
	if lws, ok := actLW.([]any); ok {
		for _, lw := range lws {
			if m, ok := lw.(map[string]any); ok && m["wrapper"] == "layer4" {
				delete(m, "wrapper")
				raw, _ := json.Marshal(m)
				roundTripTop(c, w, "layer4.ListenerWrapper", raw, func() any { return new(layer4.ListenerWrapper) })
				var l struct {
					Routes []json.RawMessage `json:"routes"`
				}
				_ = json.Unmarshal(raw, &l)
				for _, r := range l.Routes {
					rtRoute(c, w, r)
				}
				m["wrapper"] = "layer4"
			}
		}
	}

	// (iii) the adapted JSON loads and provisions
	if w.SkipValidate != "" {
		c.Inconclusive("abstain: validate skipped: " + w.SkipValidate)
		return
	}
	full["admin"] = map[string]any{"disabled": true, "config": map[string]any{"persist": false}}
	full["logging"] = map[string]any{"logs": map[string]any{"default": map[string]any{"writer": map[string]any{"output": "discard"}}}}
	patched, _ := json.Marshal(full)
	var verr error
	pi := guard(func() {
		var cc caddy.Config
		if err := caddy.StrictUnmarshalJSON(patched, &cc); err != nil {
			verr = fmt.Errorf("decoding into caddy.Config: %w", err)
			return
		}
		verr = caddy.Validate(&cc)
	})
	if pi != nil {
		c.Violation("C15 panic while validating: "+pi.frame, pi.val, w.with(pi.stack, json.RawMessage(out1)))
		return
	}
	if verr != nil {
		c.Violation("C15 adapted JSON fails to load/provision: "+errClass(verr.Error(), w.FixturesDir), verr.Error(), w.with(verr.Error(), json.RawMessage(out1)))
		return
	}
	c.Obs("validated", 1)
}

// validateApps loads and provisions a configuration made of the given apps only (diagnostic for a disagreement:
// does the expected JSON load?).
func validateApps(apps map[string]any) (res string) {
	full := map[string]any{"apps": apps,
		"admin":   map[string]any{"disabled": true, "config": map[string]any{"persist": false}},
		"logging": map[string]any{"logs": map[string]any{"default": map[string]any{"writer": map[string]any{"output": "discard"}}}}}
	b, _ := json.Marshal(full)
	if pi := guard(func() {
		var cc caddy.Config
		if err := caddy.StrictUnmarshalJSON(b, &cc); err != nil {
			res = "does not decode: " + err.Error()
			return
		}
		if err := caddy.Validate(&cc); err != nil {
			res = "fails to load/provision: " + err.Error()
			return
		}
		res = "loads and provisions"
	}); pi != nil {
		res = "panics: " + pi.val
	}
	return res
}

func dig(v any, path ...string) any {
	for _, p := range path {
		m, ok := v.(map[string]any)
		if !ok {
			return nil
		}
		v = m[p]
	}
	return v
}

// canon converts the printer's Go values into what json.Unmarshal into `any` would give.
func canon(v any) any {
	if v == nil {
		return nil
	}
	b, err := json.Marshal(v)
	if err != nil {
		return nil
	}
	var out any
	if json.Unmarshal(b, &out) != nil {
		return nil
	}
	return out
}

func js(v any) string {
	b, _ := json.Marshal(v)
	if len(b) > 300 {
		return string(b[:300]) + "..."
	}
	return string(b)
}

// ---------------------------------------------------------------------------
// Semantic diff

type difference struct {
	Path string // concrete path
	Norm string // path without indices/server names, with handler names: the violation class
	Exp  any
	Act  any
}

func describe(ds []difference) string {
	var sb strings.Builder
	for i, d := range ds {
		if i == 8 {
			fmt.Fprintf(&sb, "... %d more\n", len(ds)-i)
			break
		}
		fmt.Fprintf(&sb, "%s: expected %s, got %s\n", d.Path, js(d.Exp), js(d.Act))
	}
	return sb.String()
}

type pathElem struct{ conc, norm string }

func diff(root string, exp, act any, path []pathElem) []difference {
	if path == nil {
		path = []pathElem{{root, root}}
	}
	mk := func() []difference {
		var cs, ns []string
		for _, p := range path {
			cs = append(cs, p.conc)
			ns = append(ns, p.norm)
		}
		return []difference{{Path: strings.Join(cs, "."), Norm: strings.Join(ns, "."), Exp: exp, Act: act}}
	}
	switch e := exp.(type) {
	case map[string]any:
		a, ok := act.(map[string]any)
		if !ok {
			return mk()
		}
		keys := map[string]bool{}
		for k := range e {
			keys[k] = true
		}
		for k := range a {
			keys[k] = true
		}
		var ks []string
		for k := range keys {
			ks = append(ks, k)
		}
		sort.Strings(ks)
		var out []difference
		for _, k := range ks {
			nk := k
			if len(path) > 0 && path[len(path)-1].norm == "servers" {
				nk = "*"
			}
			ev, eok := e[k]
			av, aok := a[k]
			sub := append(append([]pathElem{}, path...), pathElem{k, nk})
			switch {
			case !eok:
				out = append(out, difference{Path: joinC(sub), Norm: joinN(sub) + " (unexpected field)", Exp: nil, Act: av})
			case !aok:
				out = append(out, difference{Path: joinC(sub), Norm: joinN(sub) + " (missing field)", Exp: ev, Act: nil})
			default:
				out = append(out, diff(root, ev, av, sub)...)
			}
		}
		return out
	case []any:
		a, ok := act.([]any)
		if !ok || len(a) != len(e) {
			return mk()
		}
		var out []difference
		for i := range e {
			tag := "[]"
			if m, ok := e[i].(map[string]any); ok {
				if h, ok := m["handler"].(string); ok {
					tag = "[" + h + "]"
				}
			}
			sub := append([]pathElem{}, path...)
			last := sub[len(sub)-1]
			sub[len(sub)-1] = pathElem{fmt.Sprintf("%s[%d]", last.conc, i), last.norm + tag}
			out = append(out, diff(root, e[i], a[i], sub)...)
		}
		return out
	default:
		if !reflect.DeepEqual(exp, act) {
			return mk()
		}
		return nil
	}
}

func joinC(p []pathElem) string {
	var s []string
	for _, e := range p {
		s = append(s, e.conc)
	}
	return strings.Join(s, ".")
}

func joinN(p []pathElem) string {
	var s []string
	for _, e := range p {
		s = append(s, e.norm)
	}
	return strings.Join(s, ".")
}

// ---------------------------------------------------------------------------
// (iv) JSON round trip, module by module

func semEqual(a, b []byte) (bool, any, any) {
	var x, y any
	if json.Unmarshal(a, &x) != nil || json.Unmarshal(b, &y) != nil {
		return false, string(a), string(b)
	}
	return reflect.DeepEqual(x, y), x, y
}

func roundTripTop(c *fw.Ctx, w *Witness, what string, raw []byte, mk func() any) {
	var out []byte
	var err error
	pi := guard(func() {
		v := mk()
		if err = caddy.StrictUnmarshalJSON(raw, v); err != nil {
			return
		}
		out, err = json.Marshal(v)
	})
	c.Obs("roundtrips", 1)
	switch {
	case pi != nil:
		c.Violation("C15 panic in JSON round trip of "+what+": "+pi.frame, pi.val, w.with(pi.stack, json.RawMessage(raw)))
	case err != nil:
		c.Violation("C15 round trip "+what+": "+normErr(err.Error(), w.FixturesDir), err.Error(), w.with(err.Error(), json.RawMessage(raw)))
	default:
		if eq, x, y := semEqual(raw, out); !eq {
			ds := diff(what, x, y, nil)
			first := "?"
			if len(ds) > 0 {
				first = pathClass(ds[0].Norm)
			}
			c.Violation("C15 round trip "+what+" differs at "+first, "unmarshal+marshal does not reproduce the JSON", w.with(describe(ds), map[string]any{"in": json.RawMessage(raw), "out": json.RawMessage(out)}))
		}
	}
}

// rtModule round-trips one module value: strict unmarshal into a fresh instance, marshal, compare.
func rtModule(c *fw.Ctx, w *Witness, id string, raw json.RawMessage, inlineKey string) {
	mod, err := caddy.GetModule(id)
	if err != nil {
		c.Violation("C15 round trip: adapter emitted unknown module "+id, err.Error(), w.with(id, raw))
		return
	}
	in := []byte(raw)
	if inlineKey != "" {
		var m map[string]any
		if json.Unmarshal(raw, &m) == nil {
			delete(m, inlineKey)
			in, _ = json.Marshal(m)
		}
	}
	c.Obs("roundtrips_module", 1)
	roundTripTop(c, w, id, in, func() any { return mod.New() })
}

func rtRoute(c *fw.Ctx, w *Witness, raw json.RawMessage) {
	var r struct {
		Match  []map[string]json.RawMessage `json:"match"`
		Handle []json.RawMessage            `json:"handle"`
	}
	if err := json.Unmarshal(raw, &r); err != nil {
		c.Violation("C15 round trip: route is not an object", err.Error(), w.with(err.Error(), raw))
		return
	}
	for _, set := range r.Match {
		rtMatcherSet(c, w, set)
	}
	for _, h := range r.Handle {
		rtHandler(c, w, h)
	}
}

func sortedKeys(m map[string]json.RawMessage) []string {
	var ks []string
	for k := range m {
		ks = append(ks, k)
	}
	sort.Strings(ks)
	return ks
}

func rtMatcherSet(c *fw.Ctx, w *Witness, set map[string]json.RawMessage) {
	for _, name := range sortedKeys(set) {
		raw := set[name]
		rtModule(c, w, "layer4.matchers."+name, raw, "")
		switch name {
		case "not":
			var sets []map[string]json.RawMessage
			if json.Unmarshal(raw, &sets) == nil {
				for _, s := range sets {
					rtMatcherSet(c, w, s)
				}
			}
		case "http":
			var sets []map[string]json.RawMessage
			if json.Unmarshal(raw, &sets) == nil {
				for _, s := range sets {
					for _, hn := range sortedKeys(s) {
						rtModule(c, w, "http.matchers."+hn, s[hn], "")
					}
				}
			}
		case "tls", "quic":
			var s map[string]json.RawMessage
			if json.Unmarshal(raw, &s) == nil {
				for _, hn := range sortedKeys(s) {
					rtModule(c, w, "tls.handshake_match."+hn, s[hn], "")
				}
			}
		}
	}
}

func rtHandler(c *fw.Ctx, w *Witness, raw json.RawMessage) {
	var h struct {
		Handler       string            `json:"handler"`
		Routes        []json.RawMessage `json:"routes"`
		Branch        []json.RawMessage `json:"branch"`
		LoadBalancing *struct {
			Selection json.RawMessage `json:"selection"`
		} `json:"load_balancing"`
		Upstreams []struct {
			TLS *struct {
				CA json.RawMessage `json:"ca"`
			} `json:"tls"`
		} `json:"upstreams"`
		ConnectionPolicies []struct {
			Match map[string]json.RawMessage `json:"match"`
			CA    *struct {
				CA json.RawMessage `json:"ca"`
			} `json:"client_authentication"`
		} `json:"connection_policies"`
	}
	if err := json.Unmarshal(raw, &h); err != nil || h.Handler == "" {
		c.Violation("C15 round trip: handler without inline key", fmt.Sprint(err), w.with("", raw))
		return
	}
	rtModule(c, w, "layer4.handlers."+h.Handler, raw, "handler")
	for _, r := range h.Routes {
		rtRoute(c, w, r)
	}
	for _, b := range h.Branch {
		rtHandler(c, w, b)
	}
	provider := func(raw json.RawMessage, key, ns string) {
		if len(raw) == 0 {
			return
		}
		var m map[string]any
		if json.Unmarshal(raw, &m) == nil {
			if p, ok := m[key].(string); ok {
				rtModule(c, w, ns+p, raw, key)
			}
		}
	}
	if h.LoadBalancing != nil {
		provider(h.LoadBalancing.Selection, "policy", "layer4.proxy.selection_policies.")
	}
	for _, u := range h.Upstreams {
		if u.TLS != nil {
			provider(u.TLS.CA, "provider", "tls.ca_pool.source.")
		}
	}
	for _, cp := range h.ConnectionPolicies {
		for _, hn := range sortedKeys(cp.Match) {
			rtModule(c, w, "tls.handshake_match."+hn, cp.Match[hn], "")
		}
		if cp.CA != nil {
			provider(cp.CA.CA, "provider", "tls.ca_pool.source.")
		}
	}
}

// ---------------------------------------------------------------------------

func replay(c *fw.Ctx, raw json.RawMessage) {
	var w Witness
	if err := json.Unmarshal(raw, &w); err != nil {
		fmt.Println("replay: cannot decode case:", err)
		return
	}
	hmods.Quiet(c.OutDir + "/caddyhome")
	if w.FixturesDir != "" {
		if _, err := NewFixtures(w.FixturesDir); err != nil {
			fmt.Println("replay: cannot re-create the fixture files:", err)
		}
	}
	w.Actual, w.Detail = nil, ""
	fmt.Println("---- Caddyfile ----")
	fmt.Print(w.Caddyfile)
	fmt.Println("---- expected ----")
	b, _ := json.MarshalIndent(w.Expected, "", "  ")
	fmt.Println(string(b))
	if out, _, err := adapt(w.Caddyfile); err == nil {
		var buf bytes.Buffer
		_ = json.Indent(&buf, out, "", "  ")
		fmt.Println("---- adapter output ----")
		fmt.Println(buf.String())
	} else {
		fmt.Println("---- adapter error ----")
		fmt.Println(err)
	}
	judge(c, &w)
	c.Case(fw.Hash(w.Caddyfile), true, nil)
}
