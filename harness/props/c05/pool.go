package c05

import (
	"bytes"
	"fmt"
	"time"

	"verifharness/drive"
	"verifharness/fw"
	"verifharness/hmods"
)

// Pool mode (one scheduler thread, so that pooled buffers are handed out in a fixed order): connections of one server
// alternate between a client that feeds an undecided route in small pieces up to the matching limit (the matching buffer
// grows step by step) and a client that floods in 64 KiB segments. Whatever buffers earlier connections left behind, no
// connection has more than the matching limit plus one prefetch chunk pulled from its client during matching.
func runPool(c *fw.Ctx) {
	hmods.Quiet(c.OutDir + "/caddyhome")
	routes := drive.J([]any{undecidedRoute("H")})
	app, err := drive.StartApp(routes, "150ms")
	if err != nil {
		c.Violation("C05 config rejected", err.Error(), routes)
		return
	}
	defer app.Stop()
	n := c.Pick(24, 200)
	for i := 0; i < n; i++ {
		id := fmt.Sprintf("c05pool-%d", i)
		client, server := drive.NewPair(id)
		app.L.Inject(server)
		kind := "ramp"
		if i%2 == 1 {
			kind = "flood-64k"
			chunk := bytes.Repeat([]byte{3}, 65536)
			for k := 0; k < 8; k++ {
				if _, err := client.Write(chunk); err != nil {
					break
				}
			}
		} else {
			piece := bytes.Repeat([]byte{3}, 700)
			for k := 0; k < 14; k++ {
				if _, err := client.Write(piece); err != nil {
					break
				}
				time.Sleep(300 * time.Microsecond)
			}
		}
		closed := client.WaitPeerClosed(5 * time.Second)
		pulled := server.BytesRead.Load()
		_ = client.Close()
		w := map[string]any{"connection": i, "client": kind, "bytes_pulled": pulled}
		if !closed {
			c.Inconclusive("pool: connection not closed within 5 s")
		} else if pulled > 8192+2048 {
			c.Violation("C05 c-buffer-limit pool/"+kind, fmt.Sprintf("connection %d of one server (earlier connections grew their matching buffers): %d bytes were pulled from the client during matching (limit 8192 + one 2048-byte chunk)", i, pulled), w)
		}
		c.Obs("pool_connections", 1)
		c.Case(fw.Hash("pool", kind, i%4), true, func() any { return w })
	}
}
