// Package c05 monitors the bounds of the matching phase: never abandoned
// before the matching timeout while a route is undecided (one-sided, sound
// against observer delay), ended by timeout + slack (guarded by a scheduler
// canary), at most MaxMatchingBytes + one chunk pulled from the client, fails
// closed, and the deadline no longer applies once a route has matched.
package c05

import (
	"bytes"
	"encoding/json"
	"fmt"
	"net"
	"strings"
	"sync"
	"time"

	"verifharness/drive"
	"verifharness/fw"
	"verifharness/hmods"
	"verifharness/oracle"
	"verifharness/vnet"
)

func init() {
	fw.Register(&fw.Prop{
		ID: "C05",
		Rule: "case = timed run (transport tcp|udp over the scripted transport, client silent|trickle|flood, matching timeout, wall-clock sub-second phase of the start, variant " +
			"undecided|subroute|http|wrapper|errmatcher|aftermatch). oracles: (a) never-early, one-sided: observed end - observed start >= timeout when the abort reason is the timeout; " +
			"(b) bounded: ended by timeout+max(1s,timeout), evaluated only when the scheduler canary stayed below slack/4; (c) bytes pulled from the client <= 8192+2048; " +
			"(d) fails closed: no handler/fallback event, connection closed; (e) after a match a sink still receives bytes sent 2x timeout later. " +
			"non-trivial = the run reached its deciding observation; distinct = hash(all run parameters). variant aftermatch-nodata: every route of a subroute is decided as not matching without any read; the handler behind the subroute still receives data sent 2x timeout later and no deadline is left armed. flooding tcp clients write segments of 4 KiB or 64 KiB. pool child (one scheduler thread): connections of one server alternate between a client that feeds an undecided route up to the limit in small pieces and one that floods in 64 KiB segments; none has more than limit + chunk pulled",
		Assumptions: []string{
			"UDP end-of-association is observed through the scripted matcher's evaluation history (a restart of the accumulated prefix), which bounds the abort time from above only",
			"upper bounds are statistical (canary-guarded); lower bounds are exact up to the observer clock",
		},
		MinEvals: 40,
		Plan: func(tier string) []fw.ChildSpec {
			if tier == "thorough" {
				return []fw.ChildSpec{{Name: "timed", Mode: "timed", Shards: 8, Timeout: 30 * time.Minute},
					{Name: "pool", Mode: "pool", Shards: 1, Timeout: 30 * time.Minute, Env: []string{"GOMAXPROCS=1"}}}
			}
			return []fw.ChildSpec{{Name: "timed", Mode: "timed", Shards: 4, Timeout: 8 * time.Minute},
				{Name: "pool", Mode: "pool", Shards: 1, Timeout: 8 * time.Minute, Env: []string{"GOMAXPROCS=1"}}}
		},
		Run:    run,
		Replay: replay,
	})
}

// Run describes one timed execution.
type Run struct {
	Transport string  `json:"transport"` // tcp, udp
	Client    string  `json:"client"`    // silent, trickle, flood
	TimeoutMs int     `json:"timeout_ms"`
	Phase     float64 `json:"phase"`
	Variant   string  `json:"variant"`
	Index     int     `json:"index"`
}

func (r *Run) timeout() time.Duration { return time.Duration(r.TimeoutMs) * time.Millisecond }

const never = 1 << 20 // bytes the always-undecided matcher asks for

func undecidedRoute(sink string) map[string]any {
	return map[string]any{
		"match":  []any{map[string]any{"verif_m1": map[string]any{"id": "undecided", "need": never, "at": 0, "eq": 1}}},
		"handle": []any{map[string]any{"handler": "verif_sink", "name": sink}},
	}
}

func routesFor(r *Run) (routes string, outerTimeout string) {
	T := fmt.Sprintf("%dms", r.TimeoutMs)
	switch r.Variant {
	case "subroute":
		inner := map[string]any{"handler": "subroute", "matching_timeout": T, "routes": []any{undecidedRoute("H")}}
		return drive.J([]any{map[string]any{"handle": []any{inner, map[string]any{"handler": "verif_sink", "name": "AFTER"}}}}), "30s"
	case "http2":
		return drive.J([]any{map[string]any{"match": []any{map[string]any{"http": []any{map[string]any{"host": []string{"example.com"}}}}}, "handle": []any{map[string]any{"handler": "verif_sink", "name": "H"}}}}), T
	case "http":
		return drive.J([]any{map[string]any{"match": []any{map[string]any{"http": []any{}}}, "handle": []any{map[string]any{"handler": "verif_sink", "name": "H"}}}}), T
	case "errmatcher":
		return drive.J([]any{map[string]any{
			"match":  []any{map[string]any{"verif_m1": map[string]any{"id": "boom", "need": 1, "at": 0, "eq": 'x', "err_if": true}}},
			"handle": []any{map[string]any{"handler": "verif_sink", "name": "H"}}},
			map[string]any{"handle": []any{map[string]any{"handler": "verif_sink", "name": "H2"}}}}), T
	case "aftermatch":
		return drive.J([]any{map[string]any{
			"match":  []any{map[string]any{"verif_m1": map[string]any{"id": "one", "need": 1, "at": 0, "eq": 'x'}}},
			"handle": []any{map[string]any{"handler": "verif_sink", "name": "H", "bufsize": 64}}}}), T
	case "aftermatch-empty", "aftermatch-empty-nomatcher", "aftermatch-take":
		// the route that matches is the last one of a subroute and has no handlers (or only a non-terminal one):
		// the handler that follows the subroute runs after a match, so the subroute's deadline must not limit it
		inner := map[string]any{}
		if r.Variant != "aftermatch-empty-nomatcher" {
			inner["match"] = []any{map[string]any{"verif_m1": map[string]any{"id": "one", "need": 1, "at": 0, "eq": 'x', "pattern": "peek"}}}
		}
		if r.Variant == "aftermatch-take" {
			inner["handle"] = []any{map[string]any{"handler": "verif_take", "name": "T", "n": 1}}
		}
		f := false
		sub := map[string]any{"handler": "subroute", "matching_timeout": T, "routes": []any{
			map[string]any{"match": []any{map[string]any{"verif_m2": map[string]any{"id": "never", "need": 0, "const": f}}},
				"handle": []any{map[string]any{"handler": "verif_sink", "name": "H2"}}},
			inner}}
		return drive.J([]any{map[string]any{"handle": []any{sub, map[string]any{"handler": "verif_sink", "name": "H", "bufsize": 64}}}}), "30s"
	case "aftermatch-nodata":
		// every route of the subroute is decided as not matching without looking at the stream (no prefetch at all): the
		// connection falls through the subroute at once and the handler behind it must not be limited by the subroute's deadline
		f := false
		sub := map[string]any{"handler": "subroute", "matching_timeout": T, "routes": []any{
			map[string]any{"match": []any{map[string]any{"verif_m2": map[string]any{"id": "never", "need": 0, "const": f}}},
				"handle": []any{map[string]any{"handler": "verif_sink", "name": "H2"}}},
			map[string]any{"match": []any{map[string]any{"verif_m3": map[string]any{"id": "never2", "need": 0, "const": f}}},
				"handle": []any{map[string]any{"handler": "verif_sink", "name": "H3"}}}}}
		return drive.J([]any{map[string]any{"handle": []any{sub, map[string]any{"handler": "verif_sink", "name": "H", "bufsize": 64}}}}), "30s"
	case "after-nonterminal-late":
		// like after-nonterminal, but the non-terminal route needs three bytes: with a trickling client it matches only
		// after several prefetch rounds in which the undecided route behind it has already been seen as undecided
		return drive.J([]any{
			map[string]any{"match": []any{map[string]any{"verif_m1": map[string]any{"id": "first", "need": 3, "at": 0, "eq": 2}}},
				"handle": []any{map[string]any{"handler": "verif_take", "name": "T", "n": 1}}},
			undecidedRoute("H")}), T
	case "after-nonterminal":
		// a route that matches on the first byte and is not terminal, then an undecided route: the timeout
		// still bounds the matching that continues after the first route
		return drive.J([]any{
			map[string]any{"match": []any{map[string]any{"verif_m1": map[string]any{"id": "first", "need": 1, "at": 0, "eq": 2}}},
				"handle": []any{map[string]any{"handler": "verif_take", "name": "T", "n": 1}}},
			undecidedRoute("H")}), T
	case "or-sets":
		// one route whose first matcher set is undecided for ever and whose second set says no at once
		f := false
		return drive.J([]any{map[string]any{
			"match": []any{
				map[string]any{"verif_m1": map[string]any{"id": "undecided", "need": never, "at": 0, "eq": 1}},
				map[string]any{"verif_m2": map[string]any{"id": "no", "need": 0, "const": f}}},
			"handle": []any{map[string]any{"handler": "verif_sink", "name": "H"}}}}), T
	}
	// undecided / wrapper: one undecided route followed by a route that is decided as not matching
	f := false
	return drive.J([]any{undecidedRoute("H"),
		map[string]any{"match": []any{map[string]any{"verif_m2": map[string]any{"id": "never", "need": 0, "const": f}}},
			"handle": []any{map[string]any{"handler": "verif_sink", "name": "H2"}}}}), T
}

func alignPhase(phase float64) {
	now := time.Now()
	frac := float64(now.Nanosecond()) / 1e9
	wait := phase - frac
	if wait < 0 {
		wait += 1
	}
	time.Sleep(time.Duration(wait * float64(time.Second)))
}

func run(c *fw.Ctx) {
	if c.Mode == "pool" {
		runPool(c)
		return
	}
	hmods.Quiet(c.OutDir + "/caddyhome")
	canary := oracle.StartCanary()
	defer canary.Stop()
	var runs []*Run
	timeouts := []int{150, 400, 700, 1100}
	phases := []float64{.05, .35, .65, .95}
	reps := 1
	if c.Thorough() {
		timeouts = append(timeouts, 2500, 250, 999)
		reps = 4
	}
	idx := 0
	for rep := 0; rep < reps; rep++ {
		for _, to := range timeouts {
			for _, ph := range phases {
				for _, tr := range []string{"tcp", "udp"} {
					for _, cl := range []string{"silent", "trickle", "flood"} {
						idx++
						runs = append(runs, &Run{Transport: tr, Client: cl, TimeoutMs: to, Phase: ph, Variant: "undecided", Index: idx})
					}
				}
				// tcp: pieces up to just below the limit, then a burst
				idx++
				runs = append(runs, &Run{Transport: "tcp", Client: "ramp", TimeoutMs: to, Phase: ph, Variant: "undecided", Index: idx})
				// udp: a silent client behind a matched non-terminal route
				idx++
				runs = append(runs, &Run{Transport: "udp", Client: "silent", TimeoutMs: to, Phase: ph, Variant: "after-nonterminal", Index: idx})
				// extra variants, on tcp
				for _, v := range []string{"subroute", "http", "wrapper", "errmatcher", "aftermatch", "after-nonterminal", "after-nonterminal-late", "or-sets", "http2",
					"aftermatch-empty", "aftermatch-empty-nomatcher", "aftermatch-take", "aftermatch-nodata"} {
					idx++
					cl := "trickle"
					if v == "wrapper" && int(ph*100)%2 == 1 {
						cl = "silent"
					}
					runs = append(runs, &Run{Transport: "tcp", Client: cl, TimeoutMs: to, Phase: ph, Variant: v, Index: idx})
				}
			}
		}
	}
	var mine []*Run
	for _, r := range runs {
		if c.Mine(r.Index) {
			mine = append(mine, r)
		}
	}
	// run in waves of 24 so that the machine stays mostly idle (timing assertions)
	for i := 0; i < len(mine); i += 24 {
		j := i + 24
		if j > len(mine) {
			j = len(mine)
		}
		canary.Reset()
		var wg sync.WaitGroup
		for _, r := range mine[i:j] {
			wg.Add(1)
			go func(r *Run) {
				defer wg.Done()
				for attempt := 0; attempt < 3; attempt++ {
					if execute(c, canary, r, attempt == 2) {
						return
					}
				}
			}(r)
		}
		wg.Wait()
	}
}

type outcome struct {
	violations []string // kind|what
	inconcl    string
	observed   map[string]any
}

// execute returns true when the run reached a verdict (held or violated); false = inconclusive, retry.
func execute(c *fw.Ctx, canary *oracle.Canary, r *Run, last bool) bool {
	var o *outcome
	if r.Transport == "udp" && r.Variant == "after-nonterminal" {
		o = runUDPSilent(canary, r)
	} else if r.Transport == "udp" {
		o = runUDP(canary, r)
	} else {
		o = runTCP(canary, r)
	}
	if o.inconcl != "" {
		if last {
			c.Inconclusive(o.inconcl)
			c.Case(fw.Hash(r.Transport, r.Client, r.TimeoutMs, r.Phase, r.Variant), false, nil)
		}
		return false
	}
	for _, v := range o.violations {
		kind, what := v, v
		if k := bytes.IndexByte([]byte(v), '|'); k > 0 {
			kind, what = v[:k], v[k+1:]
		}
		c.Violation(fmt.Sprintf("C05 %s %s/%s/%s", kind, r.Transport, r.Client, r.Variant), what, map[string]any{"run": r, "observed": o.observed})
	}
	c.Case(fw.Hash(r.Transport, r.Client, r.TimeoutMs, r.Phase, r.Variant), true, func() any { return map[string]any{"run": r, "observed": o.observed} })
	c.Obs("runs_"+r.Transport+"_"+r.Client+"_"+r.Variant, 1)
	return true
}

var idSeq struct {
	sync.Mutex
	n int
}

func nextID(p string) string {
	idSeq.Lock()
	defer idSeq.Unlock()
	idSeq.n++
	return fmt.Sprintf("%s-%d", p, idSeq.n)
}

func runTCP(canary *oracle.Canary, r *Run) *outcome {
	o := &outcome{observed: map[string]any{}}
	T := r.timeout()
	slack := T
	if slack < time.Second {
		slack = time.Second
	}
	routes, outer := routesFor(r)
	id := nextID("c05")
	rec := hmods.Track(id)
	defer hmods.Untrack(id)

	var client, server *vnet.End
	var accepted chan net.Conn
	var stop func()
	if r.Variant == "wrapper" {
		ctx, cancel := hmods.NewContext()
		lw, err := hmods.LoadWrapper(ctx, fmt.Sprintf(`{"routes":%s,"matching_timeout":%q}`, routes, outer))
		if err != nil {
			cancel()
			o.violations = append(o.violations, "config-rejected|"+err.Error())
			return o
		}
		base := vnet.NewListener(id)
		ln := lw.WrapListener(base)
		accepted = make(chan net.Conn, 4)
		go func() {
			for {
				cn, err := ln.Accept()
				if err != nil {
					return
				}
				accepted <- cn
			}
		}()
		stop = func() { _ = ln.Close(); cancel() }
		alignPhase(r.Phase)
		client, server = drive.NewPair(id)
		o.observed["t_start"] = vnet.Now().String()
		base.Inject(server)
	} else {
		app, err := drive.StartApp(routes, outer)
		if err != nil {
			o.violations = append(o.violations, "config-rejected|"+err.Error())
			return o
		}
		stop = app.Stop
		alignPhase(r.Phase)
		client, server = drive.NewPair(id)
		o.observed["t_start"] = vnet.Now().String()
		app.L.Inject(server)
	}
	defer stop()
	tStart := vnet.Now() // taken after Inject returned? no: see below
	_ = tStart
	// observed start must not be later than the real start: use the time before Inject
	start, _ := time.ParseDuration(o.observed["t_start"].(string))

	stopClient := make(chan struct{})
	var sent int
	var sentMu sync.Mutex
	clientDone := make(chan struct{})
	go func() {
		defer close(clientDone)
		switch {
		case strings.HasPrefix(r.Variant, "aftermatch"):
			_, _ = client.Write([]byte("x1"))
			select {
			case <-time.After(2*T + 100*time.Millisecond):
			case <-stopClient:
				return
			}
			_, _ = client.Write([]byte("LATE-DATA"))
			_ = client.CloseWrite()
		case r.Variant == "errmatcher":
			_, _ = client.Write([]byte("x"))
		case r.Variant == "http2":
			// HTTP/2 with prior knowledge: preface and SETTINGS at once, then a HEADERS frame that announces 200 bytes of
			// header block and delivers them one byte at a time (never all of them within the timeout)
			_, _ = client.Write([]byte("PRI * HTTP/2.0\r\n\r\nSM\r\n\r\n"))
			_, _ = client.Write([]byte{0, 0, 0, 4, 0, 0, 0, 0, 0})
			_, _ = client.Write([]byte{0, 0, 200, 1, 5, 0, 0, 0, 1})
			for {
				select {
				case <-time.After(40 * time.Millisecond):
					if _, err := client.Write([]byte{0x82}); err != nil {
						return
					}
				case <-stopClient:
					return
				}
			}
		case r.Variant == "http":
			_, _ = client.Write([]byte("GET / HTTP/1.1\r\nHost: example.com\r\nX-Slow: "))
			for {
				select {
				case <-time.After(40 * time.Millisecond):
					if _, err := client.Write([]byte("a")); err != nil {
						return
					}
				case <-stopClient:
					return
				}
			}
		case r.Client == "silent":
		case r.Client == "trickle":
			for {
				select {
				case <-time.After(40 * time.Millisecond):
					if _, err := client.Write([]byte{2}); err != nil {
						return
					}
					sentMu.Lock()
					sent++
					sentMu.Unlock()
				case <-stopClient:
					return
				}
			}
		case r.Client == "ramp":
			// small pieces up to just below the matching limit (the buffer grows piece by piece), then a burst
			piece := bytes.Repeat([]byte{3}, 100)
			for i := 0; i < 81; i++ {
				if _, err := client.Write(piece); err != nil {
					return
				}
				time.Sleep(200 * time.Microsecond)
			}
			chunk := bytes.Repeat([]byte{3}, 4096)
			for i := 0; i < 16; i++ {
				if _, err := client.Write(chunk); err != nil {
					return
				}
			}
		case r.Client == "flood":
			// (every other run floods in segments far larger than a prefetch chunk: a read gets as much as it asks for)
			chunk := bytes.Repeat([]byte{3}, []int{4096, 65536}[r.Index%2])
			for i := 0; i < 64; i++ {
				if _, err := client.Write(chunk); err != nil {
					return
				}
			}
		}
	}()
	defer func() { close(stopClient); <-clientDone; _ = client.Close() }()

	if strings.HasPrefix(r.Variant, "aftermatch") {
		want := "x1LATE-DATA"
		if r.Variant == "aftermatch-take" {
			want = "1LATE-DATA"
		}
		ok := rec.WaitDone("H", 2*T+slack+5*time.Second)
		got := rec.Stream("H")
		o.observed["sink_bytes"] = string(got)
		if !ok {
			if canary.MaxOversleep() > slack/4 {
				o.inconcl = "noisy scheduler"
				return o
			}
			o.violations = append(o.violations, "e-handler-stalled|a handler that runs after a match did not finish within 2x timeout + slack")
			return o
		}
		if string(got) != want {
			o.violations = append(o.violations, fmt.Sprintf("e-deadline-armed-after-match|a sink running after the route matched read %q instead of %q: data sent 2x timeout after the match was cut off", got, want))
		}
		// the read deadline must have been cleared before the handler's reads
		lastDL := time.Time{}
		seenSet := false
		for _, l := range server.Log() {
			if l.Op == "setreaddeadline" || l.Op == "setdeadline" {
				lastDL = l.Value
				seenSet = true
			}
		}
		if seenSet && !lastDL.IsZero() {
			o.violations = append(o.violations, "e-deadline-not-cleared|the last read deadline set on the client connection is not the zero time although a route matched")
		}
		return o
	}

	// wait for the server to close the connection
	limit := T + slack
	closed := client.WaitPeerClosed(limit + 3*time.Second)
	end := vnet.Now()
	elapsed := end - start
	o.observed["elapsed"] = elapsed.String()
	o.observed["closed"] = closed
	o.observed["bytes_pulled"] = server.BytesRead.Load()
	o.observed["canary_max"] = canary.MaxOversleep().String()

	abortByTimeout := r.Client == "silent" || r.Client == "trickle" || r.Variant == "http" || r.Variant == "http2"
	if r.Variant == "errmatcher" {
		abortByTimeout = false
	}
	if !closed {
		if canary.MaxOversleep() > slack/4 {
			o.inconcl = "noisy scheduler"
			return o
		}
		o.violations = append(o.violations, fmt.Sprintf("b-not-bounded|matching did not end within timeout %v + slack %v (+3 s): the connection was still open after %v", T, slack, elapsed))
		return o
	}
	if abortByTimeout {
		if elapsed < T {
			o.violations = append(o.violations, fmt.Sprintf("a-early|matching was abandoned %v after the connection was offered, before the matching timeout %v had elapsed, while a route was still undecided", elapsed, T))
		}
		if elapsed > limit {
			if canary.MaxOversleep() > slack/4 {
				o.inconcl = "noisy scheduler"
				return o
			}
			o.violations = append(o.violations, fmt.Sprintf("b-not-bounded|matching ended %v after the start although timeout is %v (slack %v)", elapsed, T, slack))
		}
	}
	if n := server.BytesRead.Load(); n > 8192+2048 {
		o.violations = append(o.violations, fmt.Sprintf("c-buffer-limit|%d bytes were pulled from the client during matching (limit 8192 + one 2048-byte chunk)", n))
	}
	// (d) fails closed
	time.Sleep(20 * time.Millisecond)
	for _, e := range rec.Events() {
		if (e.Kind == "enter" && e.Who != "T") || e.Kind == "fallback" {
			o.violations = append(o.violations, fmt.Sprintf("d-handler-after-abort|handler %q was invoked although matching ended without a match", e.Who))
		}
	}
	if accepted != nil {
		select {
		case <-accepted:
			o.violations = append(o.violations, "d-fallback-after-abort|the wrapped listener's Accept received a connection whose matching was aborted")
		default:
		}
	}
	if server.CloseCalls.Load() == 0 {
		o.violations = append(o.violations, "d-not-closed|the connection was not closed after matching was aborted")
	}
	return o
}

// runUDP drives one client address on a scripted packet conn. Datagram i carries the single byte i+1, so the
// scripted matcher's accumulated prefix shows which datagrams one association has seen.
func runUDP(canary *oracle.Canary, r *Run) *outcome {
	o := &outcome{observed: map[string]any{}}
	T := r.timeout()
	slack := T
	if slack < time.Second {
		slack = time.Second
	}
	routes, outer := routesFor(r)
	name := nextID("c05udp")
	pc := vnet.NewNamedPacketConn(name)
	cfg := fmt.Sprintf(`{"servers":{"s":{"listen":["verifudp/%s:1"],"routes":%s,"matching_timeout":%q}}}`, name, routes, outer)
	app, err := drive.StartAppConfig(cfg, "")
	if err != nil {
		o.violations = append(o.violations, "config-rejected|"+err.Error())
		return o
	}
	defer app.Stop()
	addr := vnet.UDPAddr("203.0.113.5", 5000+len(name))
	id := "udp:" + addr.String()
	// several runs share the process: make the client address unique
	idSeq.Lock()
	idSeq.n++
	addr = vnet.UDPAddr(fmt.Sprintf("203.0.%d.%d", (idSeq.n>>8)&0xff, idSeq.n&0xff), 5000)
	idSeq.Unlock()
	id = "udp:" + addr.String()
	rec := hmods.Track(id)
	defer hmods.Untrack(id)

	alignPhase(r.Phase)
	start := vnet.Now()
	period := 40 * time.Millisecond
	var payload func(i int) []byte
	switch r.Client {
	case "flood":
		payload = func(i int) []byte { return bytes.Repeat([]byte{byte(i + 1)}, 2048) }
		period = 0
	default:
		payload = func(i int) []byte { return []byte{byte(i%250 + 1)} }
		if r.Client == "silent" {
			period = T / 3 // nearly silent: only enough datagrams to observe the end of the association
			if period < 40*time.Millisecond {
				period = 40 * time.Millisecond
			}
		}
	}
	total := int((T+slack+500*time.Millisecond)/max(period, time.Millisecond)) + 2
	if r.Client == "flood" {
		total = 12
	}
	if total > 240 {
		total = 240
	}
	sendT := make([]time.Duration, 0, total)
	for i := 0; i < total; i++ {
		sendT = append(sendT, vnet.Now())
		pc.Inject(payload(i), addr)
		if period > 0 {
			time.Sleep(period)
		}
	}
	time.Sleep(50 * time.Millisecond)
	end := vnet.Now()
	o.observed["canary_max"] = canary.MaxOversleep().String()
	o.observed["datagrams"] = total

	// split the matcher's evaluation history into associations: a new association starts when the
	// prefix it sees does not extend the previous one
	type assoc struct {
		first, last time.Duration
		firstByte   byte
		maxSeen     int
	}
	var assocs []*assoc
	var prev []byte
	for _, e := range rec.Events() {
		if e.Kind == "enter" || e.Kind == "fallback" {
			o.violations = append(o.violations, fmt.Sprintf("d-handler-after-abort|handler %q was invoked although no route matched", e.Who))
		}
		if e.Kind != "match" || e.Who != "undecided" || len(e.Data) == 0 {
			continue
		}
		if len(assocs) == 0 || !bytes.HasPrefix(e.Data, prev) || len(e.Data) < len(prev) {
			assocs = append(assocs, &assoc{first: e.T, firstByte: e.Data[0]})
		}
		a := assocs[len(assocs)-1]
		a.last = e.T
		if len(e.Data) > a.maxSeen {
			a.maxSeen = len(e.Data)
		}
		prev = append(prev[:0], e.Data...)
	}
	o.observed["associations"] = len(assocs)
	if len(assocs) == 0 {
		o.inconcl = "no matcher evaluation observed"
		return o
	}
	var desc []string
	for _, a := range assocs {
		desc = append(desc, fmt.Sprintf("first=%v last=%v firstbyte=%d maxseen=%d", a.first-start, a.last-start, a.firstByte, a.maxSeen))
	}
	o.observed["assoc_history"] = desc
	if r.Client == "flood" {
		for _, a := range assocs {
			if a.maxSeen > 8192+2048 {
				o.violations = append(o.violations, fmt.Sprintf("c-buffer-limit|an association buffered %d bytes during matching (limit 8192 + one 2048-byte chunk)", a.maxSeen))
			}
		}
		return o
	}
	// (a) never early, one-sided: association k was aborted no later than the first evaluation of
	// association k+1; its deadline was computed no earlier than the injection of its first datagram.
	for k := 0; k+1 < len(assocs); k++ {
		a, b := assocs[k], assocs[k+1]
		// injection time of the datagram that started association k (payload byte = index+1)
		idx := int(a.firstByte) - 1
		if idx < 0 || idx >= len(sendT) {
			continue
		}
		if lived := b.first - sendT[idx]; lived < T {
			o.violations = append(o.violations, fmt.Sprintf("a-early|a UDP association whose first datagram was injected at +%v was already replaced by a new one at +%v: matching was abandoned after at most %v, before the matching timeout %v",
				sendT[idx]-start, b.first-start, lived, T))
			break
		}
	}
	// (b) bounded: the first association must have ended by timeout + slack: some later datagram starts a new one
	if len(assocs) < 2 && end-start > T+slack+200*time.Millisecond {
		if canary.MaxOversleep() > slack/4 {
			o.inconcl = "noisy scheduler"
			return o
		}
		o.violations = append(o.violations, fmt.Sprintf("b-not-bounded|datagrams sent for %v all reached the same undecided association although the matching timeout is %v", end-start, T))
	}
	return o
}

func replay(c *fw.Ctx, raw json.RawMessage) {
	var w struct {
		Run *Run `json:"run"`
	}
	if err := json.Unmarshal(raw, &w); err != nil || w.Run == nil {
		fmt.Println("replay:", err)
		return
	}
	hmods.Quiet(c.OutDir + "/caddyhome")
	canary := oracle.StartCanary()
	defer canary.Stop()
	execute(c, canary, w.Run, true)
}

// runUDPSilent: a UDP client whose first datagram is matched by a non-terminal route (which clears the deadline) while
// a later route stays undecided (which arms the same deadline again), and which then falls completely silent. The
// blocked read has to be woken at the matching deadline: a probe datagram sent after timeout + slack must be served
// by a fresh association (its first matcher is evaluated on the probe alone), not appended to the old one.
func runUDPSilent(canary *oracle.Canary, r *Run) *outcome {
	o := &outcome{observed: map[string]any{}}
	T := r.timeout()
	slack := T
	if slack < time.Second {
		slack = time.Second
	}
	routes, outer := routesFor(r)
	name := nextID("c05udps")
	pc := vnet.NewNamedPacketConn(name)
	cfg := fmt.Sprintf(`{"servers":{"s":{"listen":["verifudp/%s:1"],"routes":%s,"matching_timeout":%q}}}`, name, routes, outer)
	app, err := drive.StartAppConfig(cfg, "")
	if err != nil {
		o.violations = append(o.violations, "config-rejected|"+err.Error())
		return o
	}
	defer app.Stop()
	idSeq.Lock()
	idSeq.n++
	addr := vnet.UDPAddr(fmt.Sprintf("203.1.%d.%d", (idSeq.n>>8)&0xff, idSeq.n&0xff), 5000)
	idSeq.Unlock()
	id := "udp:" + addr.String()
	rec := hmods.Track(id)
	defer hmods.Untrack(id)

	alignPhase(r.Phase)
	start := vnet.Now()
	pc.Inject([]byte{2, 7}, addr) // route "first" matches on the 2 and takes it; the undecided route then waits for ever
	time.Sleep(T + slack)
	probeAt := vnet.Now()
	pc.Inject([]byte{9}, addr)
	fresh := false
	deadline := time.Now().Add(2 * time.Second)
	for time.Now().Before(deadline) && !fresh {
		for _, e := range rec.Events() {
			if e.Kind == "match" && e.Who == "first" && len(e.Data) == 1 && e.Data[0] == 9 {
				fresh = true
			}
		}
		time.Sleep(2 * time.Millisecond)
	}
	o.observed["probe_at"] = (probeAt - start).String()
	o.observed["fresh_association_for_probe"] = fresh
	o.observed["canary_max"] = canary.MaxOversleep().String()
	sawFirst := false
	for _, e := range rec.Events() {
		if e.Kind == "enter" && e.Who == "T" {
			sawFirst = true
		}
		if (e.Kind == "enter" && e.Who != "T") || e.Kind == "fallback" {
			o.violations = append(o.violations, fmt.Sprintf("d-handler-after-abort|handler %q was invoked although matching ended without a match", e.Who))
		}
	}
	if !sawFirst {
		o.inconcl = "the non-terminal route did not run"
		return o
	}
	if !fresh {
		if canary.MaxOversleep() > slack/4 {
			o.inconcl = "noisy scheduler"
			return o
		}
		o.violations = append(o.violations, fmt.Sprintf("b-not-bounded|a silent UDP client's matching (one route matched and was not terminal, a later route undecided) was still going on %v after its start: a datagram sent then was not served by a fresh association (matching timeout %v)", probeAt-start, T))
	}
	return o
}
