// Package c02 monitors routing order: routes run in order and only when
// matched; otherwise the fallback runs exactly once. It is a trace checker:
// scripted matchers and recording handlers emit events, and property-level
// rules R1..R6 are evaluated over the trace with the monitor's own (pure,
// order-insensitive) evaluation of every matcher set.
package c02

import (
	"bytes"
	"encoding/json"
	"fmt"
	"strings"
	"time"

	"github.com/mholt/caddy-l4/layer4"

	"verifharness/drive"
	"verifharness/fw"
	"verifharness/hmods"
	"verifharness/vnet"
)

func init() {
	fw.Register(&fw.Prop{
		ID: "C02",
		Rule: "case = (route list over a matcher alphabet {none, need-1/2/3 byte predicates, not, AND pair, OR pair, never} and handler alphabet " +
			"{terminal sink, take0, take1, take0 passing on a wrapped connection that swaps a and b, two nested subroutes}, stream over {a,b} of length<=4, composition of the stream into segments); " +
			"exhaustive for the stated number of routes, plus seeded random larger instances (<=6 routes, nesting<=3, streams<=48 bytes) at route level and through the App; " +
			"oracle = trace rules R1-R6 with set-valued (evaluation-order-insensitive) matcher-set verdicts. non-trivial = at least one handler or fallback event; " +
			"distinct = hash(config, stream, composition). random route lists may hold an empty matcher set (matches everything once reached) at any position",
		Assumptions: []string{
			"scripted matchers are N-monotone pure functions of the prefix, as C06 demands of real matchers",
			"matching timeout is far away (30 s); timeouts are C05",
			"arrival schedule = one segment per prefetch round (segments queued in advance, then EOF)",
		},
		MinEvals: 1000,
		Plan: func(tier string) []fw.ChildSpec {
			if tier == "thorough" {
				return []fw.ChildSpec{
					{Name: "exh3", Mode: "exh3", Shards: 16, Timeout: 60 * time.Minute},
					{Name: "rand", Mode: "rand", Shards: 8, Timeout: 60 * time.Minute},
				}
			}
			return []fw.ChildSpec{
				{Name: "exh2", Mode: "exh2", Shards: 10, Timeout: 10 * time.Minute},
				{Name: "rand", Mode: "rand", Shards: 4, Timeout: 10 * time.Minute},
			}
		},
		Run:    run,
		Replay: replay,
	})
}

// ---------------------------------------------------------------------------
// Model of a configuration

type vset uint8

const (
	vYES vset = 1 << iota
	vNO
	vMORE
)

func (v vset) String() string {
	var p []string
	if v&vYES != 0 {
		p = append(p, "YES")
	}
	if v&vNO != 0 {
		p = append(p, "NO")
	}
	if v&vMORE != 0 {
		p = append(p, "MORE")
	}
	return "{" + strings.Join(p, ",") + "}"
}

// Member is one matcher of a set: a scripted spec or a "not" over inner sets.
type Member struct {
	Spec *hmods.MatcherSpec `json:"spec,omitempty"`
	Not  [][]Member         `json:"not,omitempty"`
}

// Route is the model of one route.
type Route struct {
	Sets     [][]Member `json:"sets"`     // OR of AND-sets; empty = match all
	Handlers []Handler  `json:"handlers"` // executed in order
}

// Handler is the model of one handler of a route.
type Handler struct {
	Kind string   `json:"kind"` // sink, take, sub
	N    int      `json:"n,omitempty"`
	Flip bool     `json:"flip,omitempty"` // take: pass a wrapped connection on that swaps 'a' and 'b'
	Sub  []*Route `json:"sub,omitempty"`
}

func evalMember(m Member, p []byte) vset {
	if m.Spec != nil {
		switch m.Spec.Eval(p) {
		case "yes":
			return vYES
		case "no":
			return vNO
		}
		return vMORE
	}
	// not: inner sets in order; error -> MORE, match -> NO, all no -> YES
	var out vset
	cont := true
	for _, s := range m.Not {
		if !cont {
			break
		}
		vs := evalAnd(s, p)
		if vs&vMORE != 0 {
			out |= vMORE
		}
		if vs&vYES != 0 {
			out |= vNO
		}
		cont = vs&vNO != 0
	}
	if cont {
		out |= vYES
	}
	return out
}

// evalAnd: members are evaluated in an unspecified order, stopping at the first non-YES.
func evalAnd(set []Member, p []byte) vset {
	allYes := true
	var out vset
	for _, m := range set {
		v := evalMember(m, p)
		if v&vYES == 0 {
			allYes = false
		}
		if v&vNO != 0 {
			out |= vNO
		}
		if v&vMORE != 0 {
			out |= vMORE
		}
	}
	if allYes {
		out |= vYES
	}
	return out
}

// evalSets: sets are tried in list order; first YES or MORE wins, NO if all say NO.
func evalSets(sets [][]Member, p []byte) vset {
	if len(sets) == 0 {
		return vYES
	}
	var out vset
	cont := true
	for _, s := range sets {
		if !cont {
			break
		}
		vs := evalAnd(s, p)
		if vs&vYES != 0 {
			out |= vYES
		}
		if vs&vMORE != 0 {
			out |= vMORE
		}
		cont = vs&vNO != 0
	}
	if cont {
		out |= vNO
	}
	return out
}

// ---------------------------------------------------------------------------
// JSON generation with path names

type namer struct{ specs map[string]*hmods.MatcherSpec }

func setJSON(level string, ri int, sets [][]Member, ctr *int) []any {
	var out []any
	for _, s := range sets {
		mm := map[string]any{}
		k := 0
		for _, m := range s {
			if m.Spec != nil {
				k++
				*ctr++
				m.Spec.ID = fmt.Sprintf("%s/%d#m%d", level, ri, *ctr)
				mm[fmt.Sprintf("verif_m%d", k)] = m.Spec
			} else {
				mm["not"] = setJSON(level, ri, m.Not, ctr)
			}
		}
		out = append(out, mm)
	}
	return out
}

func routesJSON(level string, routes []*Route) []any {
	var out []any
	for ri, r := range routes {
		ctr := 0
		rj := map[string]any{}
		if len(r.Sets) > 0 {
			rj["match"] = setJSON(level, ri, r.Sets, &ctr)
		}
		var hs []any
		for hi, h := range r.Handlers {
			name := fmt.Sprintf("%s/%d#h%d", level, ri, hi)
			switch h.Kind {
			case "sink":
				hs = append(hs, map[string]any{"handler": "verif_sink", "name": name, "bufsize": 3})
			case "take":
				hs = append(hs, map[string]any{"handler": "verif_take", "name": name, "n": h.N, "flip": h.Flip})
			case "sub":
				sub := fmt.Sprintf("%s/%d.s", level, ri)
				hs = append(hs, map[string]any{"handler": "verif_take", "name": name + "pre", "n": 0})
				hs = append(hs, map[string]any{"handler": "subroute", "matching_timeout": "30s", "routes": routesJSON(sub, h.Sub)})
				hs = append(hs, map[string]any{"handler": "verif_take", "name": name + "after", "n": 0})
			}
		}
		if n := len(r.Handlers); n == 0 || r.Handlers[n-1].Kind != "sink" {
			// marker: reaching it means every handler of the route called next (the route is non-terminal)
			hs = append(hs, map[string]any{"handler": "verif_take", "name": fmt.Sprintf("%s/%d#end", level, ri), "n": 0})
		}
		rj["handle"] = hs
		out = append(out, rj)
	}
	return out
}

// ---------------------------------------------------------------------------
// Alphabets for the exhaustive scope

func sp(need, at int, eq byte) *hmods.MatcherSpec {
	return &hmods.MatcherSpec{Need: need, At: at, Eq: int(eq)}
}

func cloneSets(sets [][]Member) [][]Member {
	b, _ := json.Marshal(sets)
	var out [][]Member
	_ = json.Unmarshal(b, &out)
	return out
}

func matcherAlphabet() [][][]Member {
	f := false
	return [][][]Member{
		nil, // match all
		{{{Spec: sp(1, 0, 'a')}}},
		{{{Spec: sp(2, 1, 'b')}}},
		{{{Spec: sp(3, 2, 'a')}}},
		{{{Not: [][]Member{{{Spec: sp(1, 0, 'a')}}}}}},
		{{{Spec: sp(1, 0, 'a')}, {Spec: sp(2, 1, 'a')}}},
		{{{Spec: sp(2, 1, 'a')}}, {{Spec: sp(1, 0, 'b')}}},
		{{{Spec: &hmods.MatcherSpec{Need: 0, Const: &f}}}},
	}
}

func handlerAlphabet() [][]Handler {
	subA := []*Route{
		{Sets: [][]Member{{{Spec: sp(1, 0, 'b')}}}, Handlers: []Handler{{Kind: "take", N: 1}}},
		{Sets: [][]Member{{{Spec: sp(2, 1, 'a')}}}, Handlers: []Handler{{Kind: "sink"}}},
	}
	subB := []*Route{
		{Sets: [][]Member{{{Spec: sp(2, 0, 'a')}}}, Handlers: []Handler{{Kind: "take", N: 0}}},
		{Sets: [][]Member{{{Not: [][]Member{{{Spec: sp(1, 0, 'b')}}}}}}, Handlers: []Handler{{Kind: "take", N: 1}}},
	}
	return [][]Handler{
		{{Kind: "sink"}},
		{{Kind: "take", N: 0}},
		{{Kind: "take", N: 1}},
		{{Kind: "take", N: 0, Flip: true}},
		{{Kind: "sub", Sub: subA}},
		{{Kind: "sub", Sub: subB}},
	}
}

func cloneRoutes(rs []*Route) []*Route {
	b, _ := json.Marshal(rs)
	var out []*Route
	_ = json.Unmarshal(b, &out)
	return out
}

// streams over {a,b} up to length n with all compositions
type streamCase struct {
	S    []byte
	Segs []int
}

func allStreamCases(maxLen int) []streamCase {
	var out []streamCase
	for n := 0; n <= maxLen; n++ {
		for bits := 0; bits < 1<<n; bits++ {
			s := make([]byte, n)
			for i := range s {
				s[i] = 'a' + byte((bits>>i)&1)
			}
			if n == 0 {
				out = append(out, streamCase{S: s})
				continue
			}
			for cuts := 0; cuts < 1<<(n-1); cuts++ {
				var segs []int
				cur := 1
				for i := 0; i < n-1; i++ {
					if cuts>>i&1 == 1 {
						segs = append(segs, cur)
						cur = 1
					} else {
						cur++
					}
				}
				segs = append(segs, cur)
				out = append(out, streamCase{S: s, Segs: segs})
			}
		}
	}
	return out
}

// ---------------------------------------------------------------------------
// Running one case at route level

// Case is what a replay file holds.
type Case struct {
	Routes []*Route `json:"routes"`
	S      []byte   `json:"s"`
	Segs   []int    `json:"segs"`
	Flavor string   `json:"flavor"` // route, app
}

type compiled struct {
	routes  []*Route
	handler layer4.Handler
	fb      *hmods.Fallback
	json    string
	cancel  func()
}

func compileRoutes(routes []*Route) (*compiled, error) {
	js := drive.J(routesJSON("T", routes))
	ctx, cancel := hmods.NewContext()
	rl, err := hmods.LoadRoutes(ctx, js)
	if err != nil {
		cancel()
		return nil, err
	}
	fb := &hmods.Fallback{Name: "fb", Read: true, BufSize: 5}
	return &compiled{routes: routes, handler: rl.Compile(hmods.NopLogger, 30*time.Second, fb), fb: fb, json: js, cancel: cancel}, nil
}

var caseCtr int

func runRouteLevel(cp *compiled, s []byte, segs []int) (*hmods.ConnRec, *vnet.End, error) {
	caseCtr++
	id := fmt.Sprintf("c02-%d", caseCtr)
	rec := hmods.Track(id)
	client, server := drive.NewPair(id)
	_ = drive.WriteSegments(client, s, segs, 0, 0)
	_ = client.CloseWrite()
	cx := layer4.WrapConnection(server, make([]byte, 0, 2048), hmods.NopLogger)
	err := cp.handler.Handle(cx)
	hmods.Untrack(id)
	return rec, server, err
}

// ---------------------------------------------------------------------------
// The trace checker

type levelState struct {
	routes    []*Route
	entered   bool
	lastRun   int
	fbCount   int
	inHandler bool
}

type violation struct{ kind, what string }

func findLevel(top []*Route, level string) []*Route {
	// level names: "T", "T/1.s", "T/1.s/0.s", ...
	if level == "T" {
		return top
	}
	parts := strings.Split(strings.TrimPrefix(level, "T/"), "/")
	cur := top
	for _, p := range parts {
		var ri int
		if _, err := fmt.Sscanf(p, "%d.s", &ri); err != nil || ri >= len(cur) {
			return nil
		}
		var sub []*Route
		for _, h := range cur[ri].Handlers {
			if h.Kind == "sub" {
				sub = h.Sub
			}
		}
		if sub == nil {
			return nil
		}
		cur = sub
	}
	return cur
}

// parseWho splits "T/1.s/0#h0after" into level "T/1.s", route 0, tail "h0after".
func parseWho(who string) (level string, route int, tail string, ok bool) {
	k := strings.LastIndex(who, "#")
	if k < 0 {
		return "", 0, "", false
	}
	tail = who[k+1:]
	head := who[:k]
	j := strings.LastIndex(head, "/")
	if j < 0 {
		return "", 0, "", false
	}
	level = head[:j]
	if _, err := fmt.Sscanf(head[j+1:], "%d", &route); err != nil {
		return "", 0, "", false
	}
	return level, route, tail, true
}

func checkTrace(top []*Route, S []byte, rec *hmods.ConnRec, flavor string, serverClosed bool) []violation {
	var out []violation
	add := func(kind, format string, a ...any) {
		out = append(out, violation{kind, fmt.Sprintf(format, a...)})
	}
	events := rec.Events()
	levels := map[string]*levelState{}
	getLevel := func(name string) *levelState {
		ls := levels[name]
		if ls == nil {
			ls = &levelState{routes: findLevel(top, name), lastRun: -1}
			levels[name] = ls
		}
		return ls
	}
	consumed := 0
	sinkSeen := false
	sinkStart := -1
	sinkName := ""
	stopped := false
	fbStart := -1
	checkPrefix := func(what string, seen []byte) bool {
		if consumed+len(seen) > len(S) || !bytes.Equal(seen, S[consumed:consumed+len(seen)]) {
			add("R4 stream-not-intact", "%s saw %q but the client's stream from the offset the handlers left (%d) is %q", what, seen, consumed, S[min(consumed, len(S)):])
			return false
		}
		return true
	}
	// fallback rule shared by top-level fallback and nested "after" markers
	onFallback := func(lname string, seen []byte) {
		ls := getLevel(lname)
		ls.entered = true
		ls.fbCount++
		if ls.fbCount > 1 {
			add("R5 fallback-twice", "fallback of level %s ran %d times", lname, ls.fbCount)
		}
		if !checkPrefix("fallback of "+lname, seen) {
			return
		}
		for i := ls.lastRun + 1; i < len(ls.routes); i++ {
			if v := evalSets(ls.routes[i].Sets, seen); v&vNO == 0 {
				add("R5 fallback-while-route-not-rejected", "fallback of level %s ran on prefix %q although route %d evaluates to %v there", lname, seen, i, v)
			}
		}
	}
	for _, e := range events {
		if sinkSeen && (e.Kind == "match" || e.Kind == "enter" || e.Kind == "fallback" || e.Kind == "take") {
			add("R4 event-after-terminal", "event %s %s after terminal handler %s started", e.Kind, e.Who, sinkName)
			continue
		}
		switch e.Kind {
		case "match":
			lname, ri, _, ok := parseWho(e.Who)
			if !ok {
				continue
			}
			ls := getLevel(lname)
			ls.entered = true
			if ls.inHandler {
				// the router is evaluating again, so the previous route's chain returned
				ls.inHandler = false
			}
			checkPrefix(fmt.Sprintf("matcher %s", e.Who), e.Data)
			if ri <= ls.lastRun {
				// evaluating an already-run route again is not forbidden; running it would be (R2)
			}
		case "fallback":
			fbStart = consumed
			onFallback("T", e.Data)
		case "enter":
			lname, ri, tail, ok := parseWho(e.Who)
			if !ok {
				continue
			}
			ls := getLevel(lname)
			ls.entered = true
			first := tail == "h0" || tail == "h0pre"
			if strings.HasSuffix(tail, "after") {
				// the nested level of this route handed over to its fallback (the outer chain)
				onFallback(fmt.Sprintf("%s/%d.s", lname, ri), e.Data)
			}
			if tail == "end" {
				ls.inHandler = false
			}
			if strings.HasSuffix(tail, "pre") {
				getLevel(fmt.Sprintf("%s/%d.s", lname, ri)).entered = true
			}
			if first {
				if ls.routes == nil || ri >= len(ls.routes) {
					add("harness", "unknown route %s", e.Who)
					continue
				}
				if !checkPrefix("handler "+e.Who, e.Data) {
					continue
				}
				P := e.Data
				if ri <= ls.lastRun {
					add("R2 order", "route %d of level %s started after route %d had already run", ri, lname, ls.lastRun)
				}
				if v := evalSets(ls.routes[ri].Sets, P); v&vYES == 0 {
					add("R1 ran-unmatched", "route %d of level %s started on prefix %q where its matchers evaluate to %v", ri, lname, P, v)
				}
				for i := ls.lastRun + 1; i < ri; i++ {
					if v := evalSets(ls.routes[i].Sets, P); v == vYES {
						add("R3 passed-over", "route %d of level %s started on prefix %q although earlier route %d certainly matches it", ri, lname, P, i)
					}
				}
				if ls.fbCount > 0 {
					add("R5 route-after-fallback", "route %d of level %s started after the level's fallback ran", ri, lname)
				}
				if ri > ls.lastRun {
					ls.lastRun = ri
				}
				ls.inHandler = true
			}
			if strings.HasPrefix(e.Who, "T/") && strings.Contains(tail, "h") && !strings.HasSuffix(tail, "pre") && !strings.HasSuffix(tail, "after") {
				// sink or take enter: sinks are terminal
				if isSink(top, lname, ri, tail) {
					sinkSeen = true
					sinkStart = consumed
					sinkName = e.Who
				}
			}
		case "take":
			got := rec.Stream(e.Who)
			if consumed+e.N > len(S) || !bytes.Equal(got, S[consumed:consumed+e.N]) {
				add("R4 stream-not-intact", "handler %s consumed %q but the next bytes of the client's stream at offset %d are %q", e.Who, got, consumed, S[min(consumed, len(S)):])
			}
			consumed += e.N
			if e.S != "" {
				stopped = true
			}
			if e.S2 == "flip" {
				// from here on the chain works on a wrapped connection that swaps 'a' and 'b'
				S = append([]byte(nil), S...)
				for i := consumed; i < len(S); i++ {
					switch S[i] {
					case 'a':
						S[i] = 'b'
					case 'b':
						S[i] = 'a'
					}
				}
			}
		case "exit":
		case "read", "sink-end":
		}
	}
	if sinkSeen {
		if got := rec.Stream(sinkName); !bytes.Equal(got, S[sinkStart:]) {
			add("R4 stream-not-intact", "terminal handler %s read %q but the rest of the client's stream is %q", sinkName, got, S[sinkStart:])
		}
	}
	if fbStart >= 0 && (flavor == "route" || flavor == "wrapper") {
		if got := rec.Stream("fb"); !bytes.Equal(got, S[fbStart:]) {
			add("R5 fallback-stream-not-intact", "fallback read %q but the rest of the client's stream is %q", got, S[fbStart:])
		}
	}
	// end-of-case obligations for levels that neither went terminal nor fell back
	if !sinkSeen && !stopped {
		P := S[min(consumed, len(S)):]
		for name, ls := range levels {
			if !ls.entered || ls.fbCount > 0 || ls.inHandler || ls.routes == nil {
				continue
			}
			if name != "T" && flavor != "route" {
				// nested levels are judged the same way in every flavor
			}
			allNo := true
			firstYes := -1
			for i := ls.lastRun + 1; i < len(ls.routes); i++ {
				v := evalSets(ls.routes[i].Sets, P)
				if v == vNO {
					continue
				}
				allNo = false
				if v == vYES {
					firstYes = i
				}
				break
			}
			switch {
			case allNo && (name != "T" || flavor == "route" || flavor == "wrapper"):
				add("R5 fallback-never-ran", "every remaining route of level %s is decided as not matching on %q (routes after %d) but its fallback never received the connection", name, P, ls.lastRun)
			case firstYes >= 0:
				add("R6 first-match-never-ran", "route %d of level %s certainly matches %q and every earlier remaining route is rejected, yet no handler ran before the connection was dropped", firstYes, name, P)
			}
		}
		// a level that was never entered although the connection was offered: top level with zero events
		if _, ok := levels["T"]; !ok && len(top) > 0 {
			allNo := true
			firstYes := -1
			for i := range top {
				v := evalSets(top[i].Sets, S)
				if v == vNO {
					continue
				}
				allNo = false
				if v == vYES {
					firstYes = i
				}
				break
			}
			if allNo && (flavor == "route" || flavor == "wrapper") {
				add("R5 fallback-never-ran", "every route is decided as not matching on %q but the fallback never received the connection", S)
			} else if firstYes >= 0 {
				add("R6 first-match-never-ran", "route %d certainly matches %q and every earlier route is rejected, yet nothing ran", firstYes, S)
			}
		}
	}
	if (flavor == "app" || flavor == "wrapper") && !serverClosed {
		add("R5 not-closed", "the server did not close the connection after routing finished")
	}
	return out
}

func isSink(top []*Route, level string, ri int, tail string) bool {
	rs := findLevel(top, level)
	if rs == nil || ri >= len(rs) {
		return false
	}
	var hi int
	if _, err := fmt.Sscanf(tail, "h%d", &hi); err != nil || hi >= len(rs[ri].Handlers) {
		return false
	}
	return rs[ri].Handlers[hi].Kind == "sink"
}

// ---------------------------------------------------------------------------

func run(c *fw.Ctx) {
	hmods.Quiet(c.OutDir + "/caddyhome")
	switch c.Mode {
	case "exh2":
		runExhaustive(c, 2)
	case "exh3":
		runExhaustive(c, 3)
	case "rand":
		runRandom(c)
	}
}

func report(c *fw.Ctx, cs *Case, rec *hmods.ConnRec, vs []violation) {
	for _, v := range vs {
		ev := rec.Events()
		if len(ev) > 80 {
			ev = ev[:80]
		}
		c.Violation("C02 "+v.kind, v.what, map[string]any{"case": cs, "routes_json": json.RawMessage(drive.J(routesJSON("T", cs.Routes))), "events": ev})
	}
}

func runExhaustive(c *fw.Ctx, maxRoutes int) {
	ma := matcherAlphabet()
	ha := handlerAlphabet()
	scs := allStreamCases(4)
	nAlpha := len(ma) * len(ha)
	idx := 0
	var total int64
	for n := 1; n <= maxRoutes; n++ {
		count := 1
		for i := 0; i < n; i++ {
			count *= nAlpha
		}
		for code := 0; code < count; code++ {
			idx++
			if !c.Mine(idx) {
				continue
			}
			routes := make([]*Route, n)
			x := code
			for i := 0; i < n; i++ {
				a := x % nAlpha
				x /= nAlpha
				routes[i] = &Route{Sets: cloneSets(ma[a%len(ma)]), Handlers: cloneHandlers(ha[a/len(ma)])}
			}
			cp, err := compileRoutes(routes)
			if err != nil {
				c.Violation("C02 config rejected", err.Error(), routes)
				continue
			}
			for si, sc := range scs {
				rec, _, herr := runRouteLevel(cp, sc.S, sc.Segs)
				vs := checkTrace(routes, sc.S, rec, "route", true)
				if herr != nil {
					vs = append(vs, violation{"handler-error", "route list returned error: " + herr.Error()})
				}
				total++
				nt := rec.Count("enter", "") > 0 || rec.Count("fallback", "") > 0
				c.Case(fw.Hash(code, n, si), nt, func() any {
					return map[string]any{"routes": json.RawMessage(cp.json), "stream": string(sc.S), "segments": sc.Segs, "events": len(rec.Events())}
				})
				if len(vs) > 0 {
					report(c, &Case{Routes: routes, S: sc.S, Segs: sc.Segs, Flavor: "route"}, rec, vs)
				}
			}
			cp.cancel()
		}
	}
	c.Obs("exhaustive_cases", total)
	c.Note("exhaustive scope: routes<=%d over %d matcher x %d handler alphabet, all %d (stream,composition) pairs over {a,b}^<=4 (sharded %d/%d)", maxRoutes, len(ma), len(ha), len(scs), c.Shard, c.NShards)
}

func cloneHandlers(hs []Handler) []Handler {
	b, _ := json.Marshal(hs)
	var out []Handler
	_ = json.Unmarshal(b, &out)
	return out
}

func replay(c *fw.Ctx, raw json.RawMessage) {
	var w struct {
		Case *Case `json:"case"`
	}
	if err := json.Unmarshal(raw, &w); err != nil || w.Case == nil {
		fmt.Println("replay: cannot decode case:", err)
		return
	}
	hmods.Quiet(c.OutDir + "/caddyhome")
	cs := w.Case
	if cs.Flavor == "app" {
		rec, closed := runAppLevel(cs)
		report(c, cs, rec, checkTrace(cs.Routes, cs.S, rec, "app", closed))
		return
	}
	cp, err := compileRoutes(cs.Routes)
	if err != nil {
		fmt.Println("replay:", err)
		return
	}
	rec, _, _ := runRouteLevel(cp, cs.S, cs.Segs)
	for _, e := range rec.Events() {
		fmt.Printf("  event %-8s %-22s data=%q n=%d s=%s\n", e.Kind, e.Who, e.Data, e.N, e.S)
	}
	report(c, cs, rec, checkTrace(cs.Routes, cs.S, rec, "route", true))
}
