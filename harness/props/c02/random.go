package c02

import (
	"encoding/json"
	"net"

	"fmt"
	"github.com/mholt/caddy-l4/layer4"
	"math/rand"
	"time"
	"verifharness/vnet"

	"verifharness/drive"
	"verifharness/fw"
	"verifharness/hmods"
)

var alphabet = []byte("abc")

func randSpec(r *rand.Rand) *hmods.MatcherSpec {
	need := 1 + r.Intn(8)
	if r.Intn(6) == 0 {
		need = 9 + r.Intn(24)
	}
	m := &hmods.MatcherSpec{Need: need, At: r.Intn(need), Eq: int(alphabet[r.Intn(len(alphabet))]), Neg: r.Intn(4) == 0}
	m.Pattern = []string{"full", "sip", "peek", "over"}[r.Intn(4)]
	if m.Pattern == "sip" {
		m.Sip = 1 + r.Intn(3)
	}
	return m
}

func randSets(r *rand.Rand, depth int) [][]Member {
	switch r.Intn(9) {
	case 0:
		return nil
	case 1:
		f := false
		return [][]Member{{{Spec: &hmods.MatcherSpec{Need: 0, Const: &f}}}}
	}
	nsets := 1
	if r.Intn(3) == 0 {
		nsets = 2 + r.Intn(2)
	}
	var sets [][]Member
	for i := 0; i < nsets; i++ {
		n := 1
		if r.Intn(3) == 0 {
			n = 2 + r.Intn(2)
		}
		var set []Member
		usedNot := false
		for k := 0; k < n; k++ {
			if depth < 2 && !usedNot && r.Intn(5) == 0 {
				usedNot = true
				set = append(set, Member{Not: randSets2(r, depth+1)})
			} else {
				set = append(set, Member{Spec: randSpec(r)})
			}
		}
		sets = append(sets, set)
	}
	// an empty matcher set ("match": [{...}, {}]) matches everything once it is reached
	if r.Intn(12) == 0 {
		k := r.Intn(len(sets) + 1)
		sets = append(sets[:k], append([][]Member{{}}, sets[k:]...)...)
	}
	return sets
}

// randSets2 never returns an empty list (a "not" needs at least one set).
func randSets2(r *rand.Rand, depth int) [][]Member {
	for {
		if s := randSets(r, depth); len(s) > 0 {
			return s
		}
	}
}

func randRoutes(r *rand.Rand, depth, maxRoutes int) []*Route {
	n := 1 + r.Intn(maxRoutes)
	var rs []*Route
	for i := 0; i < n; i++ {
		rt := &Route{Sets: randSets(r, 0)}
		switch k := r.Intn(10); {
		case k < 3:
			rt.Handlers = []Handler{{Kind: "sink"}}
		case k < 6:
			rt.Handlers = []Handler{{Kind: "take", N: r.Intn(5), Flip: r.Intn(4) == 0}}
		case k < 7:
			rt.Handlers = []Handler{{Kind: "take", N: r.Intn(4)}, {Kind: "sink"}}
		case k < 8:
			rt.Handlers = []Handler{{Kind: "take", N: r.Intn(3)}, {Kind: "take", N: r.Intn(3)}}
		default:
			if depth < 3 {
				rt.Handlers = []Handler{{Kind: "sub", Sub: randRoutes(r, depth+1, 3)}}
				if r.Intn(3) == 0 {
					rt.Handlers = append([]Handler{{Kind: "take", N: r.Intn(3)}}, rt.Handlers...)
				}
			} else {
				rt.Handlers = []Handler{{Kind: "take", N: 1}}
			}
		}
		rs = append(rs, rt)
	}
	return rs
}

func randStream(r *rand.Rand) ([]byte, []int) {
	n := r.Intn(49)
	s := make([]byte, n)
	for i := range s {
		s[i] = alphabet[r.Intn(len(alphabet))]
	}
	var segs []int
	for rem := n; rem > 0; {
		k := 1 + r.Intn(6)
		if r.Intn(5) == 0 {
			k = rem
		}
		if k > rem {
			k = rem
		}
		segs = append(segs, k)
		rem -= k
	}
	return s, segs
}

func runRandom(c *fw.Ctx) {
	n := c.Pick(1500, 25000)
	for i := 0; i < n; i++ {
		if !c.Mine(i) {
			continue
		}
		r := fw.Rand(c.Seed, "c02rand", i)
		routes := randRoutes(r, 0, 6)
		flavor := "route"
		if i%4 == 3 {
			flavor = "app"
		} else if i%4 == 2 {
			flavor = "wrapper"
		}
		var cp *compiled
		var app *drive.AppRun
		var wr *wrapperRun
		var err error
		switch flavor {
		case "route":
			cp, err = compileRoutes(routes)
		case "app":
			app, err = drive.StartApp(drive.J(routesJSON("T", routes)), "30s")
		default:
			wr, err = startWrapper(routes)
		}
		if err != nil {
			c.Violation("C02 config rejected", err.Error(), routes)
			continue
		}
		nStreams := 8
		if flavor != "route" && i%8 >= 6 {
			// a long-lived server: many connections through one compiled route list, among the later ones clients that
			// send nothing at all (what the routes decide on zero bytes has to happen for them too)
			nStreams = 48
		}
		for k := 0; k < nStreams; k++ {
			s, segs := randStream(r)
			if nStreams > 8 && k >= 20 && r.Intn(3) == 0 {
				s, segs = nil, nil
			}
			cs := &Case{Routes: routes, S: s, Segs: segs, Flavor: flavor}
			var rec *hmods.ConnRec
			closed := true
			if flavor == "route" {
				var herr error
				rec, _, herr = runRouteLevel(cp, s, segs)
				if herr != nil {
					report(c, cs, rec, []violation{{"handler-error", herr.Error()}})
				}
			} else if flavor == "app" {
				rec, closed = playApp(app, cs)
			} else {
				rec, closed = wr.play(cs)
			}
			vs := checkTrace(routes, s, rec, flavor, closed)
			nt := rec.Count("enter", "") > 0 || rec.Count("fallback", "") > 0
			c.Case(fw.Hash("rand", i, k), nt, func() any {
				return map[string]any{"flavor": flavor, "routes": json.RawMessage(drive.J(routesJSON("T", routes))), "stream": string(s), "segments": segs, "events": len(rec.Events())}
			})
			c.Obs("events_checked", int64(len(rec.Events())))
			c.Obs("cases_"+flavor, 1)
			if len(vs) > 0 {
				report(c, cs, rec, vs)
			}
		}
		if cp != nil {
			cp.cancel()
		}
		if app != nil {
			app.Stop()
		}
		if wr != nil {
			wr.stop()
		}
	}
}

// wrapperRun drives the route list through the listener wrapper: the fallback is the wrapped listener's Accept.
type wrapperRun struct {
	base *vnet.Listener
	ln   net.Listener
	stop func()
}

func startWrapper(routes []*Route) (*wrapperRun, error) {
	ctx, cancel := hmods.NewContext()
	lw, err := hmods.LoadWrapper(ctx, fmt.Sprintf(`{"routes":%s,"matching_timeout":"30s"}`, drive.J(routesJSON("T", routes))))
	if err != nil {
		cancel()
		return nil, err
	}
	w := &wrapperRun{base: vnet.NewListener(vnet.UniqueName("c02lw"))}
	w.ln = lw.WrapListener(w.base)
	w.stop = func() { _ = w.ln.Close(); cancel() }
	go func() {
		fb := &hmods.Fallback{Name: "fb", Read: true, BufSize: 5}
		for {
			cn, err := w.ln.Accept()
			if err != nil {
				return
			}
			go func() {
				if cx, ok := cn.(*layer4.Connection); ok {
					_ = fb.Handle(cx) // records the fallback event and reads the stream to EOF
				}
				_ = cn.Close()
			}()
		}
	}()
	return w, nil
}

func (w *wrapperRun) play(cs *Case) (*hmods.ConnRec, bool) {
	appCtr++
	id := fmt.Sprintf("c02lw-%d", appCtr)
	rec := hmods.Track(id)
	defer hmods.Untrack(id)
	client, server := drive.NewPair(id)
	w.base.Inject(server)
	_ = drive.WriteSegments(client, cs.S, cs.Segs, 0, 0)
	_ = client.CloseWrite()
	closed := client.WaitPeerClosed(20 * time.Second)
	_ = client.Close()
	return rec, closed
}

var appCtr int

func playApp(app *drive.AppRun, cs *Case) (*hmods.ConnRec, bool) {
	appCtr++
	id := fmt.Sprintf("c02app-%d", appCtr)
	rec := hmods.Track(id)
	defer hmods.Untrack(id)
	client, _ := app.Dial(id)
	_ = drive.WriteSegments(client, cs.S, cs.Segs, 0, 0)
	_ = client.CloseWrite()
	closed := client.WaitPeerClosed(20 * time.Second)
	_ = client.Close()
	return rec, closed
}

func runAppLevel(cs *Case) (*hmods.ConnRec, bool) {
	app, err := drive.StartApp(drive.J(routesJSON("T", cs.Routes)), "30s")
	if err != nil {
		fmt.Println("replay: load:", err)
		return hmods.Track("none"), true
	}
	defer app.Stop()
	return playApp(app, cs)
}
