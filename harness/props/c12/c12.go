// Package c12 monitors PROXY protocol handling: received headers are stripped
// exactly and honoured (addresses seen by later matchers, placeholders and
// handlers), peers outside the allow list pass through untouched, and the
// proxy handler sends exactly one well-formed header with the client's
// effective addresses followed by the client's stream.
package c12

import (
	"bufio"
	"bytes"
	"encoding/json"
	"fmt"
	"io"
	"math/rand"
	"net"
	"time"

	"verifharness/drive"
	"verifharness/fw"
	"verifharness/hmods"
	"verifharness/oracle"
	"verifharness/ref"
	"verifharness/vnet"
)

const streamDomain = 0xC12

func init() {
	fw.Register(&fw.Prop{
		ID: "C12",
		Rule: "receiver case = (independently encoded v1/v2 header over all families/commands/boundary addresses, optional TLVs / v1 trailing text, allow list, payload 0..12 KiB PRF, segmentation incl. header split " +
			"at every offset and payload prefetched beyond 4 KiB): oracle: sink bytes == payload exactly; RemoteAddr/LocalAddr, {l4.conn.*} placeholders and the remote_ip matcher see the declared addresses " +
			"(LOCAL/UNKNOWN: the real peer's); peers outside the allow list get the stream untouched; a header the handler does not accept must end the connection without any handler. " +
			"sender case = proxy handler with proxy_protocol v1|v2 to a harness upstream, plain or behind a receiving proxy_protocol handler: an independent parser must find exactly one header of the configured " +
			"version with the client's effective addresses, immediately followed by the client's stream. non-trivial = header accepted or sent; distinct = hash(all case parameters). a quarter of the sender cases run while another proxy handler for the same upstream addresses (with the other version, or no header) is alive. one long-lived sender session per header version: exchange, six seconds of silence, exchange again",
		Assumptions: []string{
			"the PROXY library in use rejects v2 headers with TLVs and padding; such cases are counted as 'rejected' and only checked for failing closed",
			"unix-family addresses are exercised on the sender side only",
		},
		MinEvals: 500,
		Plan: func(tier string) []fw.ChildSpec {
			if tier == "thorough" {
				return []fw.ChildSpec{{Name: "pp", Mode: "pp", Shards: 12, Timeout: 40 * time.Minute}}
			}
			return []fw.ChildSpec{{Name: "pp", Mode: "pp", Shards: 8, Timeout: 10 * time.Minute}}
		},
		Run:    run,
		Replay: replay,
	})
}

// Case is one receiver or sender execution.
type Case struct {
	Index     int              `json:"index"`
	Kind      string           `json:"kind"` // recv, send, chain
	Header    *ref.ProxyHeader `json:"header,omitempty"`
	HdrHex    string           `json:"hdr_hex,omitempty"`
	Peer      string           `json:"peer"`  // real client address
	Allow     []string         `json:"allow"` // allow list of the handler (nil = everyone)
	Allowed   bool             `json:"allowed"`
	Payload   int              `json:"payload"`
	Seg       string           `json:"seg"`
	Split     int              `json:"split"`               // header split offset (-1 none)
	WireNeed  int              `json:"wire_need"`           // extra scripted matcher on the wire (forces prefetch)
	Companion string           `json:"companion,omitempty"` // sender case: proxy_protocol setting of another live handler for the same upstream ("<nil>" = none)
	Unloaded  bool             `json:"unloaded,omitempty"`  // receiver case: the configuration was unloaded before the client sent its first byte
	Silent    bool             `json:"silent,omitempty"`    // sender case: the client stays silent until the upstream has the header
	Flat      bool             `json:"flat,omitempty"`      // address route and a data-hungry route in the same list as the proxy_protocol route
	Version   string           `json:"version,omitempty"`
}

var ip4s = []string{"1.2.3.4", "0.0.0.0", "255.255.255.255", "10.0.0.1", "192.168.255.254", "127.0.0.1", "203.0.113.77"}
var ip6s = []string{"2001:db8::1", "::1", "::", "ffff:ffff:ffff:ffff:ffff:ffff:ffff:ffff", "fe80::1", "2001:db8:0:1::ffff", "::ffff:1.2.3.4"}
var ports = []int{0, 1, 80, 443, 1111, 32768, 65535}

func genHeader(r *rand.Rand) *ref.ProxyHeader {
	h := &ref.ProxyHeader{Version: 1 + r.Intn(2)}
	pick := func(l []string) net.IP { return net.ParseIP(l[r.Intn(len(l))]) }
	h.SrcPort, h.DstPort = ports[r.Intn(len(ports))], ports[r.Intn(len(ports))]
	switch k := r.Intn(10); {
	case k < 4:
		h.Family = "tcp4"
		h.SrcIP, h.DstIP = pick(ip4s), pick(ip4s)
	case k < 7:
		h.Family = "tcp6"
		h.SrcIP, h.DstIP = pick(ip6s), pick(ip6s)
		for h.SrcIP.To4() != nil || h.DstIP.To4() != nil { // v4-mapped cannot be written as TCP6 in v1 text reliably
			h.SrcIP, h.DstIP = pick(ip6s[:6]), pick(ip6s[:6])
		}
	case k < 8:
		h.Family = "unknown"
		if h.Version == 1 && r.Intn(2) == 0 {
			h.V1Tail = " ffff:f...f:ffff ffff:f...f:ffff 65535 65535"[:r.Intn(30)]
		}
	case k < 9 && h.Version == 2:
		h.Family = []string{"udp4", "udp6"}[r.Intn(2)]
		if h.Family == "udp4" {
			h.SrcIP, h.DstIP = pick(ip4s), pick(ip4s)
		} else {
			h.SrcIP, h.DstIP = pick(ip6s[:6]), pick(ip6s[:6])
		}
	default:
		h.Family = "tcp4"
		h.SrcIP, h.DstIP = pick(ip4s), pick(ip4s)
		if h.Version == 2 {
			h.Local = r.Intn(2) == 0
		}
	}
	if h.Version == 2 && r.Intn(8) == 0 {
		h.TLVs = []byte{0x04, 0x00, 0x02, 0xaa, 0xbb}
	}
	return h
}

func declared(h *ref.ProxyHeader) (src, dst string, has bool) {
	if h.Local || h.Family == "unknown" {
		return "", "", false
	}
	return net.JoinHostPort(h.SrcIP.String(), fmt.Sprint(h.SrcPort)), net.JoinHostPort(h.DstIP.String(), fmt.Sprint(h.DstPort)), true
}

func run(c *fw.Ctx) {
	hmods.Quiet(c.OutDir + "/caddyhome")
	n := c.Pick(3600, 110000)
	up, err := drive.NewUpstream("tcp", "", nil, func(uc *drive.UpConn) { uc.ReadAllRecord(); uc.Conn.Close() })
	if err != nil {
		c.Note("upstream: %v", err)
		return
	}
	defer up.Close()
	if c.Shard < 2 {
		// (runs beside the other cases; it sleeps most of the time)
		ll := make(chan struct{})
		go longLived(c, []string{"v1", "v2"}[c.Shard], ll)
		defer func() { <-ll }()
	}
	for i := 0; i < n; i++ {
		if !c.Mine(i) {
			continue
		}
		r := fw.Rand(c.Seed, "c12", i)
		switch {
		case i%10 < 7:
			recvCase(c, r, i)
		default:
			sendCase(c, r, i, up)
		}
	}
}

var peers4 = []string{"198.51.100.7", "10.1.2.3", "192.0.2.200"}
var peers6 = []string{"2001:db8:ffff::7", "fd00::1"}

func recvCase(c *fw.Ctx, r *rand.Rand, i int) {
	h := genHeader(r)
	hdr := h.Encode()
	cs := &Case{Index: i, Kind: "recv", Header: h, HdrHex: fmt.Sprintf("%x", hdr), Split: -1}
	peerIP := peers4[r.Intn(len(peers4))]
	if r.Intn(4) == 0 {
		peerIP = peers6[r.Intn(len(peers6))]
	}
	peerPort := 20000 + r.Intn(30000)
	cs.Peer = net.JoinHostPort(peerIP, fmt.Sprint(peerPort))
	cs.Allowed = true
	switch r.Intn(6) {
	case 0: // non-matching allow list
		cs.Allow, cs.Allowed = []string{"172.31.0.0/16", "2001:db9::/32"}, false
	case 1: // matching among several prefixes
		cs.Allow = []string{"172.31.0.0/16", "198.51.100.0/24", "10.0.0.0/8", "192.0.2.0/24", "2001:db8::/32", "fd00::/8"}
	case 2: // exact host
		if net.ParseIP(peerIP).To4() != nil {
			cs.Allow = []string{peerIP + "/32", "203.0.113.0/24"}
		} else {
			cs.Allow = []string{peerIP + "/128"}
		}
	}
	cs.Payload = []int{0, 1, 5, 100, 2047, 2048, 2049, 4095, 4096, 4097, 6000, 12288}[r.Intn(12)]
	payload := oracle.Stream(streamDomain, uint64(fw.Mix(c.Seed, i)), cs.Payload)
	if cs.Payload > 0 {
		payload[0] = 'x' // never looks like another PROXY header or matcher trigger
	}
	wire := append(append([]byte(nil), hdr...), payload...)
	// optional scripted matcher on the wire forcing a large prefetch before the handler runs
	set := map[string]any{"proxy_protocol": map[string]any{}}
	if r.Intn(3) == 0 && len(wire) > 12 {
		need := []int{13, 100, 2048, 4097, 5000, 8192}[r.Intn(6)]
		if need > len(wire) {
			need = len(wire)
		}
		cs.WireNeed = need
		set["verif_m4"] = map[string]any{"id": "wire", "need": need, "at": need - 1, "eq": int(wire[need-1]), "pattern": "peek"}
	}
	// typical deployment: the route that accepts PROXY headers is itself guarded by the load balancer's address,
	// so remote_ip / local_ip matchers have already been evaluated on the real addresses before the handler runs
	if r.Intn(2) == 0 {
		bits := "/32"
		if net.ParseIP(peerIP).To4() == nil {
			bits = "/128"
		}
		set["remote_ip"] = map[string]any{"ranges": []string{peerIP + bits}}
		if r.Intn(2) == 0 {
			set["local_ip"] = map[string]any{"ranges": []string{"192.0.2.1/32"}}
		}
	}
	ppCfg := map[string]any{"handler": "proxy_protocol"}
	if cs.Allow != nil {
		ppCfg["allow"] = cs.Allow
	}
	src, dst, has := declared(h)
	expand := []string{"{l4.conn.remote_addr}", "{l4.conn.local_addr}"}
	// The routes that look at the connection after the header live in a subroute behind the proxy_protocol
	// handler: as top-level routes they could legitimately run while the proxy_protocol matcher is still waiting
	// for its 12 bytes (a later route may run while an earlier one is undecided).
	var routes []any
	if has {
		srcIP, _, _ := net.SplitHostPort(src)
		bits := "/32"
		if net.ParseIP(srcIP).To4() == nil {
			bits = "/128"
		}
		dstIP, _, _ := net.SplitHostPort(dst)
		dbits := "/32"
		if net.ParseIP(dstIP).To4() == nil {
			dbits = "/128"
		}
		routes = append(routes, map[string]any{
			"match":  []any{map[string]any{"remote_ip": map[string]any{"ranges": []string{srcIP + bits}}, "local_ip": map[string]any{"ranges": []string{dstIP + dbits}}}},
			"handle": []any{map[string]any{"handler": "verif_span", "name": "declared", "expand": expand}, map[string]any{"handler": "verif_sink", "name": "sink", "bufsize": 1500}}})
	}
	routes = append(routes, map[string]any{
		"handle": []any{map[string]any{"handler": "verif_span", "name": "other", "expand": expand}, map[string]any{"handler": "verif_sink", "name": "sink", "bufsize": 1500}}})

	flat := false
	if has && cs.WireNeed == 0 && cs.Allowed && len(h.TLVs) == 0 && h.V1Tail == "" {
		if srcIP, _, _ := net.SplitHostPort(src); srcIP != peerIP && r.Intn(3) == 0 {
			flat = true
		}
	}
	if flat {
		// Flat layout: the address route and a data-hungry route follow the proxy_protocol route in the same list.
		// While the header is incomplete the address route is decided (no) against the real peer and the third route
		// is undecided; once the handler has run, the address route has to be evaluated again, on the declared address.
		third := map[string]any{
			"match":  []any{map[string]any{"verif_m3": map[string]any{"id": "hungry", "need": 64, "at": 0, "eq": 256, "neg": true, "pattern": "peek"}}},
			"handle": []any{map[string]any{"handler": "verif_span", "name": "other", "expand": expand}, map[string]any{"handler": "verif_sink", "name": "sink", "bufsize": 1500}}}
		routes = []any{map[string]any{"match": []any{set}, "handle": []any{ppCfg}}, routes[0], third}
	} else {
		routes = []any{map[string]any{"match": []any{set}, "handle": []any{ppCfg,
			map[string]any{"handler": "subroute", "matching_timeout": "20s", "routes": routes}}}}
	}
	cs.Flat = flat
	app, err := drive.StartApp(drive.J(routes), "20s")
	if err != nil {
		c.Violation("C12 config rejected", err.Error(), cs)
		return
	}
	defer app.Stop()
	id := fmt.Sprintf("c12-%d-%d", c.Shard, i)
	rec := hmods.Track(id)
	defer hmods.Untrack(id)
	local := vnet.TCPAddr("192.0.2.1", 443)
	client, server := vnet.Pair(id, vnet.TCPAddr(peerIP, peerPort), local)
	app.L.Inject(server)
	if cs.Allow != nil && !cs.Allowed && fw.Rand(c.Seed, "c12unload", i).Intn(2) == 0 {
		// the configuration is unloaded (listener closed, modules cleaned up) after layer4 took the connection and before
		// the client says anything: a peer outside the allow list is still outside it for the handler instance that goes
		// on serving this connection
		for dl := time.Now().Add(5 * time.Second); !app.L.WasAccepted(server) && time.Now().Before(dl); time.Sleep(200 * time.Microsecond) {
		}
		time.Sleep(2 * time.Millisecond)
		app.Stop()
		cs.Unloaded = true
	}
	// segmentation
	var segs []int
	switch k := r.Intn(5); {
	case k == 0 && len(hdr) > 1: // split inside the header
		cs.Split = 1 + r.Intn(len(hdr)-1)
		cs.Seg = "header-split"
		segs = []int{cs.Split, len(wire) - cs.Split}
	case k == 1:
		cs.Seg = "header-then-payload"
		segs = []int{len(hdr), len(payload)}
	case k == 2:
		cs.Seg = "single"
		segs = []int{len(wire)}
	default:
		cs.Seg = drive.SegClasses[r.Intn(len(drive.SegClasses))]
		segs = drive.Segmentation(cs.Seg, len(wire), r)
		if len(segs) > 500 {
			segs = drive.Segmentation("random", len(wire), r)
		}
	}
	go func() {
		_ = drive.WriteSegments(client, wire, segs, 4, 30*time.Microsecond)
		_ = client.CloseWrite()
	}()
	_ = client.SetReadDeadline(time.Now().Add(30 * time.Second))
	drive.ReadAll(client)
	closed := client.WaitPeerClosed(30 * time.Second)
	_ = client.Close()

	class := fmt.Sprintf("v%d/%s", h.Version, h.Family)
	if h.Local {
		class += "/local"
	}
	if len(h.TLVs) > 0 {
		class += "+tlv"
	}
	report := func(kind, what string) {
		ev := rec.Events()
		if len(ev) > 20 {
			ev = ev[:20]
		}
		c.Violation(fmt.Sprintf("C12 recv %s [%s]", kind, class), what, map[string]any{"case": cs, "events": ev})
	}
	if !closed {
		report("stall", "connection not finished within 30 s")
		return
	}
	got := rec.Stream("sink")
	var span *hmods.SpanInfo
	spanName := ""
	for _, e := range rec.Events() {
		if e.Kind == "enter" && (e.Who == "declared" || e.Who == "other") {
			var si hmods.SpanInfo
			_ = json.Unmarshal([]byte(e.S2), &si)
			span, spanName = &si, e.Who
			break
		}
	}
	nontrivial := false
	switch {
	case !cs.Allowed:
		// untouched: header bytes included, real addresses
		if d := oracle.Diff(got, wire); d != "" {
			report("not-allowed-peer-stream-touched", "peer outside the allow list: the next handler did not read the stream untouched (header included): "+d)
		}
		if span != nil && (span.Remote != cs.Peer || span.Local != local.String()) {
			report("not-allowed-peer-addresses-changed", fmt.Sprintf("peer outside the allow list, yet RemoteAddr/LocalAddr are %s / %s (real %s / %s)", span.Remote, span.Local, cs.Peer, local))
		}
	case span == nil:
		// the handler did not accept this header: fine only if nothing ran at all
		c.Obs("headers_rejected_"+class, 1)
		if len(got) > 0 {
			report("rejected-but-consumed", "no span ran but a sink consumed bytes")
		}
		if len(h.TLVs) == 0 && h.V1Tail == "" {
			report("well-formed-header-rejected", fmt.Sprintf("a well-formed %s header from an allowed peer was not accepted (no handler ran): %x", class, hdr))
		}
	default:
		nontrivial = true
		c.Obs("headers_accepted_"+class, 1)
		if d := oracle.Diff(got, payload); d != "" {
			report("payload "+oracle.DiffKind(got, payload), "after the header was accepted the next handler did not read exactly the payload: "+d)
		}
		wantR, wantL := cs.Peer, local.String()
		if has {
			wantR, wantL = src, dst
			if spanName != "declared" {
				report("matcher-sees-other-address", fmt.Sprintf("remote_ip/local_ip matchers for the declared addresses %s -> %s did not match after the header was accepted", src, dst))
			}
		}
		if !sameAddr(span.Remote, wantR) || !sameAddr(span.Local, wantL) {
			report("addresses", fmt.Sprintf("RemoteAddr/LocalAddr after the header are %s / %s, want %s / %s", span.Remote, span.Local, wantR, wantL))
		}
		if !sameAddr(span.Expanded["{l4.conn.remote_addr}"], wantR) || !sameAddr(span.Expanded["{l4.conn.local_addr}"], wantL) {
			report("placeholders", fmt.Sprintf("{l4.conn.remote_addr}/{l4.conn.local_addr} expand to %s / %s, want %s / %s", span.Expanded["{l4.conn.remote_addr}"], span.Expanded["{l4.conn.local_addr}"], wantR, wantL))
		}
	}
	c.Obs("recv_cases", 1)
	c.Case(fw.Hash("recv", class, cs.Allowed, cs.Allow != nil, cs.Payload, cs.Seg, cs.Split, cs.WireNeed, cs.Flat), nontrivial, func() any { return cs })
}

func sameAddr(a, b string) bool {
	if a == b {
		return true
	}
	ha, pa, e1 := net.SplitHostPort(a)
	hb, pb, e2 := net.SplitHostPort(b)
	if e1 != nil || e2 != nil || pa != pb {
		return false
	}
	ia, ib := net.ParseIP(ha), net.ParseIP(hb)
	return ia != nil && ib != nil && ia.Equal(ib)
}

func sendCase(c *fw.Ctx, r *rand.Rand, i int, up *drive.Upstream) {
	cs := &Case{Index: i, Kind: "send", Version: []string{"v1", "v2"}[r.Intn(2)], Split: -1}
	chain := r.Intn(3) == 0
	peerIP := peers4[r.Intn(len(peers4))]
	if r.Intn(3) == 0 {
		peerIP = peers6[r.Intn(len(peers6))]
	}
	peerPort := 1 + r.Intn(65535)
	cs.Peer = net.JoinHostPort(peerIP, fmt.Sprint(peerPort))
	localIP := "192.0.2.1"
	if net.ParseIP(peerIP).To4() == nil {
		localIP = "2001:db8::443"
	}
	local := vnet.TCPAddr(localIP, 443)
	cs.Payload = []int{0, 1, 100, 2048, 5000, 12288}[r.Intn(6)]
	payload := oracle.Stream(streamDomain, uint64(fw.Mix(c.Seed, "s", i)), cs.Payload)
	if cs.Payload > 0 {
		payload[0] = 'x'
	}
	wire := payload
	effSrc, effDst := cs.Peer, local.String()
	var routes []any
	if chain {
		cs.Kind = "chain"
		h := genHeader(r)
		h.TLVs, h.V1Tail = nil, ""
		for h.Family == "udp4" || h.Family == "udp6" {
			h = genHeader(r)
			h.TLVs, h.V1Tail = nil, ""
		}
		cs.Header = h
		hdr := h.Encode()
		cs.HdrHex = fmt.Sprintf("%x", hdr)
		wire = append(append([]byte(nil), hdr...), payload...)
		if s, d, has := declared(h); has {
			effSrc, effDst = s, d
		}
	}
	dials := []string{up.Addr}
	var extra []*drive.Upstream
	if r.Intn(3) == 0 {
		// an upstream with several peers: every peer must receive the header
		for k := 0; k < 1+r.Intn(2); k++ {
			u2, err := drive.NewUpstream("tcp", "", nil, func(uc *drive.UpConn) { uc.ReadAllRecord(); uc.Conn.Close() })
			if err != nil {
				break
			}
			defer u2.Close()
			extra = append(extra, u2)
			dials = append(dials, u2.Addr)
		}
	}
	proxyH := map[string]any{"handler": "proxy", "proxy_protocol": cs.Version, "upstreams": []any{map[string]any{"dial": dials}}}
	if chain {
		routes = append(routes, map[string]any{"match": []any{map[string]any{"proxy_protocol": map[string]any{}}}, "handle": []any{map[string]any{"handler": "proxy_protocol"}, proxyH}})
	} else {
		routes = append(routes, map[string]any{"handle": []any{proxyH}})
	}
	if fw.Rand(c.Seed, "c12companion", i).Intn(4) == 0 {
		// another proxy handler for the same upstream addresses exists already (another server of the configuration, or the
		// configuration as it was before a reload), with a different proxy_protocol setting: each handler sends what it
		// was configured to send
		other := map[string]any{"handler": "proxy", "upstreams": []any{map[string]any{"dial": dials}}}
		switch cs.Version {
		case "v1":
			other["proxy_protocol"] = "v2"
		case "v2":
			if i%2 == 0 {
				other["proxy_protocol"] = "v1"
			}
		}
		cs.Companion = fmt.Sprint(other["proxy_protocol"])
		app0, err := drive.StartApp(drive.J([]any{map[string]any{"handle": []any{other}}}), "20s")
		if err != nil {
			c.Violation("C12 config rejected", err.Error(), cs)
			return
		}
		defer app0.Stop()
	}
	app, err := drive.StartApp(drive.J(routes), "20s")
	if err != nil {
		c.Violation("C12 config rejected", err.Error(), cs)
		return
	}
	defer app.Stop()
	before := up.Count()
	id := fmt.Sprintf("c12s-%d-%d", c.Shard, i)
	client, server := vnet.Pair(id, vnet.TCPAddr(peerIP, peerPort), local)
	app.L.Inject(server)
	cs.Seg = drive.SegClasses[r.Intn(len(drive.SegClasses))]
	segs := drive.Segmentation(cs.Seg, len(wire), r)
	if len(segs) > 400 {
		segs = drive.Segmentation("random", len(wire), r)
	}
	report := func(kind, what string) {
		c.Violation(fmt.Sprintf("C12 %s %s [%s]", cs.Kind, kind, cs.Version), what, map[string]any{"case": cs})
	}
	if !chain && r.Intn(4) == 0 {
		// a client that says nothing at first (the upstream may be the one that speaks first): the header has to
		// reach the upstream all the same, before a single client byte was sent
		cs.Silent = true
		got := false
		for dl := time.Now().Add(5 * time.Second); time.Now().Before(dl) && !got; time.Sleep(time.Millisecond) {
			if cc := up.Conns(); int64(len(cc)) > before {
				b := cc[len(cc)-1].Received()
				got = (cs.Version == "v1" && bytes.Contains(b, []byte("\r\n"))) || (cs.Version == "v2" && len(b) >= 16)
			}
		}
		if !got {
			report("header-withheld-from-a-silent-client's-upstream", "5 s after a client connected and stayed silent the upstream has not received the PROXY header: it is held back until the client sends")
		}
	}
	go func() {
		_ = drive.WriteSegments(client, wire, segs, 4, 30*time.Microsecond)
		_ = client.CloseWrite()
	}()
	_ = client.SetReadDeadline(time.Now().Add(30 * time.Second))
	drive.ReadAll(client)
	client.WaitPeerClosed(30 * time.Second)
	_ = client.Close()
	// this process runs its cases sequentially, so the connection(s) after `before` are ours
	deadline := time.Now().Add(10 * time.Second)
	for up.Count() == before && time.Now().Before(deadline) {
		time.Sleep(time.Millisecond)
	}
	conns := up.Conns()
	if int64(len(conns)) != before+1 {
		report("upstream-connections", fmt.Sprintf("the upstream saw %d connections for one proxied connection", int64(len(conns))-before))
		return
	}
	ucs := []*drive.UpConn{conns[len(conns)-1]}
	for pi, u2 := range extra {
		deadline := time.Now().Add(10 * time.Second)
		for u2.Count() == 0 && time.Now().Before(deadline) {
			time.Sleep(time.Millisecond)
		}
		c2 := u2.Conns()
		if len(c2) != 1 {
			report("upstream-connections", fmt.Sprintf("peer %d of a multi-peer upstream saw %d connections for one proxied connection", pi+1, len(c2)))
			return
		}
		ucs = append(ucs, c2[0])
	}
	for pi, uc := range ucs {
		checkSent(cs, uc, pi, effSrc, effDst, payload, report)
	}
	c.Obs("send_cases_"+cs.Kind, 1)
	c.Obs("send_peers_checked", int64(len(ucs)))
	c.Case(fw.Hash(cs.Kind, cs.Version, peerIP, cs.Payload, cs.Seg, cs.HdrHex, len(ucs)), true, func() any { return cs })
}

func checkSent(cs *Case, uc *drive.UpConn, pi int, effSrc, effDst string, payload []byte, report func(kind, what string)) {
	select {
	case <-uc.Done():
	case <-time.After(20 * time.Second):
		report("upstream-stall", "the upstream connection did not end")
		return
	}
	recv := uc.Received()
	h, n, err := ref.ParseProxyHeader(recv)
	if err != nil {
		kind := "no-well-formed-header"
		if pi > 0 {
			kind = "no-well-formed-header at a later peer of the upstream"
		}
		report(kind, fmt.Sprintf("the stream received by peer %d does not start with a well-formed PROXY header (%v): %x", pi, err, clip(recv, 64)))
		return
	}
	if (cs.Version == "v1") != (h.Version == 1) {
		report("wrong-version", fmt.Sprintf("configured %s, the header sent is version %d", cs.Version, h.Version))
	}
	if h.Local || h.Family == "unknown" {
		report("addresses-missing", fmt.Sprintf("the header sent is LOCAL/UNKNOWN although the client has TCP addresses %s -> %s", effSrc, effDst))
	} else {
		gs, gd := net.JoinHostPort(h.SrcIP.String(), fmt.Sprint(h.SrcPort)), net.JoinHostPort(h.DstIP.String(), fmt.Sprint(h.DstPort))
		if !sameAddr(gs, effSrc) || !sameAddr(gd, effDst) {
			report("wrong-addresses", fmt.Sprintf("the header sent carries %s -> %s, the client's effective addresses are %s -> %s", gs, gd, effSrc, effDst))
		}
	}
	rest := recv[n:]
	if d := oracle.Diff(rest, payload); d != "" {
		if bytes.HasPrefix(rest, []byte("PROXY")) || bytes.HasPrefix(rest, []byte{0x0d, 0x0a, 0x0d, 0x0a}) {
			report("second-header", "a second PROXY header follows the first one")
		} else {
			report("stream-after-header "+oracle.DiffKind(rest, payload), "the bytes after the header are not exactly the client's stream: "+d)
		}
	}
}

func clip(b []byte, n int) []byte {
	if len(b) > n {
		return b[:n]
	}
	return b
}

// replay re-runs the case with the recorded index and seed (cases are a pure function of both).
func replay(c *fw.Ctx, raw json.RawMessage) {
	var ll struct {
		Kind    string `json:"kind"`
		Version string `json:"version"`
	}
	if json.Unmarshal(raw, &ll) == nil && ll.Kind == "long-lived" {
		hmods.Quiet(c.OutDir + "/caddyhome")
		done := make(chan struct{})
		longLived(c, ll.Version, done)
		return
	}
	var w struct {
		Case *Case `json:"case"`
	}
	if err := json.Unmarshal(raw, &w); err != nil || w.Case == nil {
		fmt.Println("replay: cannot decode case:", err)
		return
	}
	hmods.Quiet(c.OutDir + "/caddyhome")
	up, err := drive.NewUpstream("tcp", "", nil, func(uc *drive.UpConn) { uc.ReadAllRecord(); uc.Conn.Close() })
	if err != nil {
		fmt.Println("replay:", err)
		return
	}
	defer up.Close()
	i := w.Case.Index
	r := fw.Rand(c.Seed, "c12", i)
	if i%10 < 7 {
		recvCase(c, r, i)
	} else {
		sendCase(c, r, i, up)
	}
}

// longLived: one proxied connection behind a proxy handler that sends a PROXY header stays in use for seven seconds. The
// upstream answers every line; after a silence of six seconds both directions still work and no side has seen end-of-
// stream (whatever deadline guarded the header's transmission is gone once the header is out).
func longLived(c *fw.Ctx, version string, done chan<- struct{}) {
	defer close(done)
	up, err := drive.NewUpstream("tcp", "", nil, func(uc *drive.UpConn) {
		defer uc.Conn.Close()
		br := bufio.NewReader(uc.Conn)
		if version == "v1" {
			if _, err := br.ReadString('\n'); err != nil { // the header line
				return
			}
		} else {
			hdr := make([]byte, 16)
			if _, err := io.ReadFull(br, hdr); err != nil {
				return
			}
			if _, err := io.CopyN(io.Discard, br, int64(hdr[14])<<8|int64(hdr[15])); err != nil {
				return
			}
		}
		for {
			line, err := br.ReadString('\n')
			if err != nil {
				return
			}
			if _, err := uc.Conn.Write([]byte("echo:" + line)); err != nil {
				return
			}
		}
	})
	if err != nil {
		c.Inconclusive("long-lived: cannot start the upstream")
		return
	}
	defer up.Close()
	routes := drive.J([]any{map[string]any{"handle": []any{map[string]any{"handler": "proxy", "proxy_protocol": version, "upstreams": []any{map[string]any{"dial": []string{up.Addr}}}}}}})
	app, err := drive.StartApp(routes, "20s")
	if err != nil {
		c.Violation("C12 config rejected", err.Error(), routes)
		return
	}
	defer app.Stop()
	client, _ := app.Dial("c12-long-" + version)
	defer client.Close()
	br := bufio.NewReader(client)
	exchange := func(msg string) string {
		_ = client.SetReadDeadline(time.Now().Add(10 * time.Second))
		if _, err := client.Write([]byte(msg + "\n")); err != nil {
			return "write: " + err.Error()
		}
		got, err := br.ReadString('\n')
		if err != nil {
			return fmt.Sprintf("read %q: %v", got, err)
		}
		if got != "echo:"+msg+"\n" {
			return fmt.Sprintf("got %q", got)
		}
		return ""
	}
	w := map[string]any{"kind": "long-lived", "version": version}
	if e := exchange("first"); e != "" {
		c.Violation("C12 send long-lived session: first exchange fails ["+version+"]", e, w)
		return
	}
	time.Sleep(6 * time.Second)
	if e := exchange("after six seconds"); e != "" {
		c.Violation("C12 send long-lived session: the connection does not work any more six seconds after the header was sent ["+version+"]",
			"after a silence of six seconds the client's line is not answered through the proxy: "+e, w)
	}
	c.Obs("long_lived_sessions", 1)
	c.Case(fw.Hash("long-lived", version), true, func() any { return w })
}
