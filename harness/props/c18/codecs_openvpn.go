package c18

import (
	"encoding/binary"
	"fmt"
	"math/rand"

	ov "github.com/mholt/caddy-l4/modules/l4openvpn"
)

// Wire sizes of the OpenVPN control messages the module models (P_CONTROL_HARD_RESET_CLIENT_V2/V3), written
// down from the protocol layout; boundsSelfCheck compares them with the module's documented constants.
//
//	header            1   opcode(5 bits) | key id(3 bits)
//	plain            14   header 1 + session id 8 + ack count 1 + packet id 4
//	tls-auth      38..86  plain 14 + HMAC h + replay packet id 4 + timestamp 4, h = output size of the --auth digest
//	tls-crypt        54   header 1 + session id 8 + packet id 4 + timestamp 4 + HMAC-SHA256 32 + encrypted(ack count 1 + packet id 4)
//	wrapped key 290..1024 HMAC-SHA256 32 + encrypted(key 256 + optional metadata 0..734) + length 2 (length counts the whole thing)
//	tls-crypt-v2 344..1078 tls-crypt 54 + wrapped key
const (
	ovHeaderLen   = 1
	ovPlainLen    = 14
	ovAuthMin     = 38
	ovAuthMax     = 86
	ovCryptLen    = 54
	ovWKMin       = 290
	ovWKMax       = 1024
	ovCrypt2Min   = 344
	ovCrypt2Max   = 1078
	ovKeyLen      = 256
	ovWKPlainMax  = ovWKMax - 2 - 32 // 990
	ovCryptPlain  = 5
	ovOpResetV2   = 7
	ovOpResetV3   = 10
	ovMetaDataMax = ovWKPlainMax - ovKeyLen - 1 // 733 payload bytes after the type byte
)

// HMAC sizes of the digests OpenVPN offers for --auth: MD5 16, SHA1/RIPEMD160 20, SHA224 28, SHA256 32, MD5+SHA1 36, SHA384 48, SHA512 64.
var ovHMACSizes = []int{16, 20, 28, 32, 36, 48, 64}

func ovAuthLenOK(n int) bool {
	for _, h := range ovHMACSizes {
		if n == 22+h {
			return true
		}
	}
	return false
}

func ovHdrFromByte(b byte) *ov.MessageHeader { return &ov.MessageHeader{Opcode: b >> 3, KeyID: b & 7} }

// ovSplit turns a headless codec's input (header byte || body) into the two arguments; an empty input means "no header".
func ovSplit(in []byte) (*ov.MessageHeader, []byte) {
	if len(in) == 0 {
		return nil, nil
	}
	return ovHdrFromByte(in[0]), in[1:]
}

func genOVHeader(r *rand.Rand, fixedOp int) (ov.MessageHeader, string) {
	kid, kc := pickU(r, 3)
	if fixedOp >= 0 {
		return ov.MessageHeader{Opcode: uint8(fixedOp), KeyID: uint8(kid)}, "k" + kc
	}
	op, oc := pickU(r, 5)
	return ov.MessageHeader{Opcode: uint8(op), KeyID: uint8(kid)}, "op" + oc + "k" + kc
}

func genOVPlain(r *rand.Rand, fixedOp int) (ov.MessagePlain, string) {
	h, hc := genOVHeader(r, fixedOp)
	sid, sc := pickU(r, 64)
	cnt, cc := pickU(r, 8)
	pid, pc := pickU(r, 32)
	return ov.MessagePlain{MessageHeader: h, LocalSessionID: sid, PrevPacketIDsCount: uint8(cnt), ThisPacketID: uint32(pid)}, hc + "s" + sc + "c" + cc + "p" + pc
}

func genOVAuth(r *rand.Rand, j, fixedOp int) (ov.MessageAuth, string) {
	p, pc := genOVPlain(r, fixedOp)
	hs := ovHMACSizes[j%len(ovHMACSizes)]
	hm, hc := pickBytes(r, hs)
	rp, rc := pickU(r, 32)
	ts, tc := pickU(r, 32)
	m := ov.MessageAuth{MessagePlain: p}
	m.HMAC = hm
	m.ReplayPacketID, m.ReplayTimestamp = uint32(rp), uint32(ts)
	return m, fmt.Sprintf("%sh%d%sr%st%s", pc, hs, hc, rc, tc)
}

// genOVCrypt: the wire carries ack count and packet id only inside the 5 encrypted bytes, so the canonical parsed form has them zero.
func genOVCrypt(r *rand.Rand, fixedOp int) (ov.MessageCrypt, string) {
	h, hc := genOVHeader(r, fixedOp)
	sid, sc := pickU(r, 64)
	rp, rc := pickU(r, 32)
	ts, tc := pickU(r, 32)
	hm, mc := pickBytes(r, 32)
	enc, ec := pickBytes(r, ovCryptPlain)
	var m ov.MessageCrypt
	m.MessageHeader = h
	m.LocalSessionID = sid
	m.ReplayPacketID, m.ReplayTimestamp = uint32(rp), uint32(ts)
	m.MessageAuth.MessageTraitAuth.Digest, m.MessageAuth.MessageTraitAuth.HMAC = ov.AuthDigestDefault, hm
	m.MessageTraitCrypt.Cipher, m.MessageTraitCrypt.Encrypted = ov.CryptCipherDefault, enc
	return m, hc + "s" + sc + "r" + rc + "t" + tc + "h" + mc + "e" + ec
}

var ovEncLens = []int{ovKeyLen, ovKeyLen + 1, ovKeyLen + 2, ovKeyLen + 9, 500, ovWKPlainMax - 1, ovWKPlainMax}

func genOVWrapped(r *rand.Rand, j int) (ov.WrappedKey, string) {
	var n int
	var nc string
	if k := j % (len(ovEncLens) + 1); k < len(ovEncLens) {
		n, nc = ovEncLens[k], fmt.Sprint(ovEncLens[k])
	} else {
		n, nc = ovKeyLen+r.Intn(ovWKPlainMax-ovKeyLen+1), "r"
	}
	hm, hc := pickBytes(r, 32)
	enc, ec := pickBytes(r, n)
	var wk ov.WrappedKey
	wk.MessageTraitAuth.Digest, wk.MessageTraitAuth.HMAC = ov.AuthDigestDefault, hm
	wk.MessageTraitCrypt.Cipher, wk.MessageTraitCrypt.Encrypted = ov.CryptCipherDefault, enc
	return wk, "n" + nc + "h" + hc + "e" + ec
}

// shapeOVOp sets the header byte to the given opcode (any opcode if op < 0 and half of the time).
func shapeOVOp(r *rand.Rand, b []byte, op int) {
	if len(b) == 0 {
		return
	}
	if op >= 0 {
		b[0] = byte(op)<<3 | byte(r.Intn(8))
	}
}

func init() {
	register(&codec{
		Name: "openvpn.MessageHeader", Min: ovHeaderLen, Max: ovHeaderLen, SweepMax: ovHeaderLen + 300,
		Bounds: "exactly 1 byte: opcode in the high 5 bits, key id in the low 3 bits (OpcodeKeyIDBytesTotal)",
		New:    func() any { return &ov.MessageHeader{} },
		Parse: func(in []byte) (any, error) {
			m := &ov.MessageHeader{}
			return m, m.FromBytes(in)
		},
		Ser: func(m any) ([]byte, error) { return m.(*ov.MessageHeader).ToBytes(), nil },
		Gen: func(r *rand.Rand, j int) gmsg {
			v := j % 256 // exhaustive over the 256 (opcode, key id) pairs
			return gmsg{M: &ov.MessageHeader{Opcode: uint8(v >> 3), KeyID: uint8(v & 7)}, Class: fmt.Sprintf("op%d,k%d", v>>3, v&7)}
		},
		Shape: func(r *rand.Rand, b []byte) []byte { return b },
	})

	// --- MessagePlain
	register(&codec{
		Name: "openvpn.MessagePlain", Min: ovPlainLen, Max: ovPlainLen, SweepMax: ovPlainLen + 300,
		Bounds: "exactly 14 bytes: header 1 + session id 8 + ack count 1 + packet id 4 (MessagePlainBytesTotal)",
		New:    func() any { return &ov.MessagePlain{} },
		Parse: func(in []byte) (any, error) {
			m := &ov.MessagePlain{}
			return m, m.FromBytes(in)
		},
		Ser: func(m any) ([]byte, error) { return m.(*ov.MessagePlain).ToBytes(), nil },
		Gen: func(r *rand.Rand, j int) gmsg {
			m, c := genOVPlain(r, ovOpResetV2)
			return gmsg{M: &m, Class: c}
		},
		Shape: func(r *rand.Rand, b []byte) []byte { shapeOVOp(r, b, ovOpResetV2); return b },
	})
	register(&codec{
		Name: "openvpn.MessagePlain/headless", Min: ovPlainLen, Max: ovPlainLen, SweepMax: ovPlainLen + 300,
		Bounds: "input = header byte || body; body exactly 13 bytes (MessagePlainBytesTotalHL), i.e. 14 with the header",
		New:    func() any { return &ov.MessagePlain{} },
		Parse: func(in []byte) (any, error) {
			h, body := ovSplit(in)
			m := &ov.MessagePlain{}
			return m, m.FromBytesHeadless(body, h)
		},
		Ser: func(m any) ([]byte, error) { return m.(*ov.MessagePlain).ToBytes(), nil },
		Gen: func(r *rand.Rand, j int) gmsg {
			m, c := genOVPlain(r, -1)
			return gmsg{M: &m, Class: c}
		},
		Shape: func(r *rand.Rand, b []byte) []byte { return b },
		NilHeader: func() error {
			return (&ov.MessagePlain{}).FromBytesHeadless(make([]byte, ovPlainLen-1), nil)
		},
	})

	// --- MessageAuth
	register(&codec{
		Name: "openvpn.MessageAuth", Min: ovAuthMin, Max: ovAuthMax, LenOK: ovAuthLenOK, SweepMax: ovAuthMax + 300,
		Bounds: "22 + h bytes with h the HMAC size of an OpenVPN --auth digest {16,20,28,32,36,48,64}: 38..86 (MessageAuthBytesMin/Max, AuthDigests)",
		New:    func() any { return &ov.MessageAuth{} },
		Parse: func(in []byte) (any, error) {
			m := &ov.MessageAuth{}
			return m, m.FromBytes(in)
		},
		Ser: func(m any) ([]byte, error) { return m.(*ov.MessageAuth).ToBytes(), nil },
		Gen: func(r *rand.Rand, j int) gmsg {
			m, c := genOVAuth(r, j, ovOpResetV2)
			return gmsg{M: &m, Class: c}
		},
		Shape: func(r *rand.Rand, b []byte) []byte { shapeOVOp(r, b, ovOpResetV2); return b },
	})
	register(&codec{
		Name: "openvpn.MessageAuth/headless", Min: ovAuthMin, Max: ovAuthMax, LenOK: ovAuthLenOK, SweepMax: ovAuthMax + 300,
		Bounds: "input = header byte || body; body 21 + h bytes, h in {16,20,28,32,36,48,64}: 37..85 (MessageAuthBytesMinHL/MaxHL), i.e. 38..86 with the header",
		New:    func() any { return &ov.MessageAuth{} },
		Parse: func(in []byte) (any, error) {
			h, body := ovSplit(in)
			m := &ov.MessageAuth{}
			return m, m.FromBytesHeadless(body, h)
		},
		Ser: func(m any) ([]byte, error) { return m.(*ov.MessageAuth).ToBytes(), nil },
		Gen: func(r *rand.Rand, j int) gmsg {
			m, c := genOVAuth(r, j, -1)
			return gmsg{M: &m, Class: c}
		},
		Shape: func(r *rand.Rand, b []byte) []byte { return b },
		NilHeader: func() error {
			return (&ov.MessageAuth{}).FromBytesHeadless(make([]byte, ovAuthMin-1), nil)
		},
	})

	// --- MessageCrypt
	register(&codec{
		Name: "openvpn.MessageCrypt", Min: ovCryptLen, Max: ovCryptLen, SweepMax: ovCryptLen + 300,
		Bounds: "exactly 54 bytes: header 1 + session id 8 + packet id 4 + timestamp 4 + HMAC-SHA256 32 + 5 encrypted bytes (MessageCryptBytesTotal)",
		New:    func() any { return &ov.MessageCrypt{} },
		Parse: func(in []byte) (any, error) {
			m := &ov.MessageCrypt{}
			return m, m.FromBytes(in)
		},
		Ser: func(m any) ([]byte, error) { return m.(*ov.MessageCrypt).ToBytes(), nil },
		Gen: func(r *rand.Rand, j int) gmsg {
			m, c := genOVCrypt(r, ovOpResetV2)
			return gmsg{M: &m, Class: c}
		},
		Shape: func(r *rand.Rand, b []byte) []byte { shapeOVOp(r, b, ovOpResetV2); return b },
	})
	register(&codec{
		Name: "openvpn.MessageCrypt/headless", Min: ovCryptLen, Max: ovCryptLen, SweepMax: ovCryptLen + 300,
		Bounds: "input = header byte || body; body exactly 53 bytes (MessageCryptBytesTotalHL), i.e. 54 with the header",
		New:    func() any { return &ov.MessageCrypt{} },
		Parse: func(in []byte) (any, error) {
			h, body := ovSplit(in)
			m := &ov.MessageCrypt{}
			return m, m.FromBytesHeadless(body, h)
		},
		Ser: func(m any) ([]byte, error) { return m.(*ov.MessageCrypt).ToBytes(), nil },
		Gen: func(r *rand.Rand, j int) gmsg {
			m, c := genOVCrypt(r, -1)
			return gmsg{M: &m, Class: c}
		},
		Shape: func(r *rand.Rand, b []byte) []byte { return b },
		NilHeader: func() error {
			return (&ov.MessageCrypt{}).FromBytesHeadless(make([]byte, ovCryptLen-1), nil)
		},
	})
	register(&codec{
		Name: "openvpn.MessageCrypt/plaintext", Min: ovCryptPlain, Max: ovCryptPlain, SweepMax: ovCryptPlain + 300,
		Bounds: "FromBytesCrypt/ToBytesCrypt: exactly 5 bytes of decrypted payload: ack count 1 + packet id 4 (called on a message whose Encrypted part has the 5 bytes FromBytes gives it)",
		New:    func() any { return &ov.MessageCrypt{} },
		Parse: func(in []byte) (any, error) {
			m := &ov.MessageCrypt{}
			m.Encrypted = make([]byte, ovCryptPlain)
			return m, m.FromBytesCrypt(in)
		},
		Ser: func(m any) ([]byte, error) { return m.(*ov.MessageCrypt).ToBytesCrypt(), nil },
		Gen: func(r *rand.Rand, j int) gmsg {
			cnt, cc := pickU(r, 8)
			pid, pc := pickU(r, 32)
			m := &ov.MessageCrypt{}
			m.Encrypted = make([]byte, ovCryptPlain)
			m.PrevPacketIDsCount, m.ThisPacketID = uint8(cnt), uint32(pid)
			return gmsg{M: m, Class: "c" + cc + "p" + pc}
		},
		Shape: func(r *rand.Rand, b []byte) []byte { return b },
	})

	// --- WrappedKey
	shapeWK := func(b []byte, off int) {
		if n := len(b) - off; n >= 2 && n <= 0xFFFF {
			binary.BigEndian.PutUint16(b[len(b)-2:], uint16(n))
		}
	}
	register(&codec{
		Name: "openvpn.WrappedKey", Min: ovWKMin, Max: ovWKMax, SweepMax: ovWKMax + 300,
		Bounds: "290..1024 bytes: HMAC-SHA256 32 + encrypted(key 256 + optional metadata) + 2-byte total length (WrappedKeyBytesMin/Max)",
		New:    func() any { return &ov.WrappedKey{} },
		Parse: func(in []byte) (any, error) {
			m := &ov.WrappedKey{}
			return m, m.FromBytes(in)
		},
		Ser: func(m any) ([]byte, error) { return m.(*ov.WrappedKey).ToBytes(), nil },
		Gen: func(r *rand.Rand, j int) gmsg {
			m, c := genOVWrapped(r, j)
			return gmsg{M: &m, Class: c}
		},
		Shape: func(r *rand.Rand, b []byte) []byte { shapeWK(b, 0); return b },
	})
	wkPlainN := func(n int) int {
		if n < ovKeyLen {
			return ovKeyLen
		}
		if n > ovWKPlainMax {
			return ovWKPlainMax
		}
		return n
	}
	register(&codec{
		Name: "openvpn.WrappedKey/plaintext", Min: ovKeyLen, Max: ovWKPlainMax, SweepMax: ovWKPlainMax + 300,
		Bounds: "FromBytesCrypt/ToBytesCrypt: 256..990 bytes of decrypted payload: key 256 + optional (metadata type 1 + payload) (called on a key whose Encrypted part has an in-bounds length, as FromBytes gives it)",
		New:    func() any { return &ov.WrappedKey{} },
		Parse: func(in []byte) (any, error) {
			m := &ov.WrappedKey{}
			m.Encrypted = make([]byte, wkPlainN(len(in)))
			return m, m.FromBytesCrypt(in)
		},
		Ser: func(m any) ([]byte, error) { return m.(*ov.WrappedKey).ToBytesCrypt(), nil },
		Gen: func(r *rand.Rand, j int) gmsg {
			m := &ov.WrappedKey{}
			key, kc := pickBytes(r, ovKeyLen)
			m.StaticKey.KeyBytes = key
			var c string
			switch j % 6 {
			case 0: // no metadata at all
				c = "nometa"
			case 1: // timestamp metadata (type 1), 8-byte payload as OpenVPN writes it
				m.MetaData.Type, m.MetaData.Payload = 1, randBytes(r, 8)
				c = "ts8"
			case 2: // timestamp metadata with the 4-byte payload the module's comment describes
				m.MetaData.Type, m.MetaData.Payload = 1, randBytes(r, 4)
				c = "ts4"
			case 3: // user metadata (type 0), one byte
				m.MetaData.Type, m.MetaData.Payload = 0, randBytes(r, 1)
				c = "user1"
			case 4: // user metadata, maximum length
				m.MetaData.Type, m.MetaData.Payload = 0, randBytes(r, ovMetaDataMax)
				c = "usermax"
			default:
				t, tc := pickU(r, 8)
				m.MetaData.Type, m.MetaData.Payload = uint8(t), randBytes(r, 1+r.Intn(ovMetaDataMax))
				c = "t" + tc + "r"
			}
			n := ovKeyLen
			if len(m.MetaData.Payload) > 0 {
				n += 1 + len(m.MetaData.Payload)
			}
			m.Encrypted = make([]byte, n)
			return gmsg{M: m, Class: "k" + kc + c}
		},
		Shape: func(r *rand.Rand, b []byte) []byte { return b },
	})

	// --- MessageCrypt2
	genC2 := func(r *rand.Rand, j, op int) gmsg {
		mc, cc := genOVCrypt(r, op)
		wk, wc := genOVWrapped(r, j)
		return gmsg{M: &ov.MessageCrypt2{MessageCrypt: mc, WrappedKey: wk}, Class: cc + "|" + wc}
	}
	register(&codec{
		Name: "openvpn.MessageCrypt2", Min: ovCrypt2Min, Max: ovCrypt2Max, SweepMax: ovCrypt2Max + 300,
		Bounds: "344..1078 bytes: tls-crypt message 54 + wrapped client key 290..1024 (MessageCrypt2BytesMin/Max)",
		New:    func() any { return &ov.MessageCrypt2{} },
		Parse: func(in []byte) (any, error) {
			m := &ov.MessageCrypt2{}
			return m, m.FromBytes(in)
		},
		Ser:   func(m any) ([]byte, error) { return m.(*ov.MessageCrypt2).ToBytes(), nil },
		Gen:   func(r *rand.Rand, j int) gmsg { return genC2(r, j, ovOpResetV3) },
		Shape: func(r *rand.Rand, b []byte) []byte { shapeOVOp(r, b, ovOpResetV3); shapeWK(b, ovCryptLen); return b },
	})
	register(&codec{
		Name: "openvpn.MessageCrypt2/headless", Min: ovCrypt2Min, Max: ovCrypt2Max, SweepMax: ovCrypt2Max + 300,
		Bounds: "input = header byte || body; body 343..1077 bytes (MessageCrypt2BytesMinHL/MaxHL), i.e. 344..1078 with the header",
		New:    func() any { return &ov.MessageCrypt2{} },
		Parse: func(in []byte) (any, error) {
			h, body := ovSplit(in)
			m := &ov.MessageCrypt2{}
			return m, m.FromBytesHeadless(body, h)
		},
		Ser:   func(m any) ([]byte, error) { return m.(*ov.MessageCrypt2).ToBytes(), nil },
		Gen:   func(r *rand.Rand, j int) gmsg { return genC2(r, j, -1) },
		Shape: func(r *rand.Rand, b []byte) []byte { shapeWK(b, ovCryptLen); return b },
		NilHeader: func() error {
			body := make([]byte, ovCrypt2Min-1)
			binary.BigEndian.PutUint16(body[len(body)-2:], ovWKMin)
			return (&ov.MessageCrypt2{}).FromBytesHeadless(body, nil)
		},
	})
}

// boundsSelfCheck compares the harness's wire-derived size table with the constants the modules document.
func boundsSelfCheck() []string {
	var out []string
	chk := func(name string, mine, theirs int) {
		if mine != theirs {
			out = append(out, fmt.Sprintf("%s: wire definition says %d, module constant says %d", name, mine, theirs))
		}
	}
	chk("openvpn OpcodeKeyIDBytesTotal", ovHeaderLen, ov.OpcodeKeyIDBytesTotal)
	chk("openvpn MessagePlainBytesTotal", ovPlainLen, ov.MessagePlainBytesTotal)
	chk("openvpn MessageAuthBytesMin", ovAuthMin, ov.MessageAuthBytesMin)
	chk("openvpn MessageAuthBytesMax", ovAuthMax, ov.MessageAuthBytesMax)
	chk("openvpn MessageCryptBytesTotal", ovCryptLen, ov.MessageCryptBytesTotal)
	chk("openvpn WrappedKeyBytesMin", ovWKMin, ov.WrappedKeyBytesMin)
	chk("openvpn WrappedKeyBytesMax", ovWKMax, ov.WrappedKeyBytesMax)
	chk("openvpn MessageCrypt2BytesMin", ovCrypt2Min, ov.MessageCrypt2BytesMin)
	chk("openvpn MessageCrypt2BytesMax", ovCrypt2Max, ov.MessageCrypt2BytesMax)
	if fmt.Sprint(ov.AuthDigestSizes) != fmt.Sprint(ovHMACSizes) {
		out = append(out, fmt.Sprintf("openvpn AuthDigestSizes: wire definition says %v, module says %v", ovHMACSizes, ov.AuthDigestSizes))
	}
	out = append(out, boundsSelfCheckOthers()...)
	return out
}
