package c18

import (
	"encoding/binary"
	"fmt"
	"math/rand"

	rdp "github.com/mholt/caddy-l4/modules/l4rdp"
	wb "github.com/mholt/caddy-l4/modules/l4winbox"
	wg "github.com/mholt/caddy-l4/modules/l4wireguard"
)

// RDP connection request pieces ([MS-RDPBCGR] 2.2.1.1, RFC 1006, X.224):
//
//	tpktHeader          4 = version 1 + reserved 1 + length 2 (big endian)
//	x224Crq             7 = length indicator 1 + type/credit 1 + dst-ref 2 + src-ref 2 + class options 1
//	routingToken   >= 11 = tpkt 4 + x224 7 + optional cookie (variable); no maximum of its own: it is bounded by the
//	                       enclosing X.224 CR (length indicator <= 254, so <= 248 bytes of user data), which the matcher checks
//	rdpNegReq           8 = type 1 + flags 1 + length 2 + requestedProtocols 4 (little endian)
//	rdpCorrelationInfo 36 = type 1 + flags 1 + length 2 + correlationId 16 + reserved 16
const (
	rdpTPKTLen  = 4
	rdpX224Len  = 7
	rdpTokenMin = 11
	rdpNegLen   = 8
	rdpCorrLen  = 36
)

func boundsSelfCheckOthers() []string {
	var out []string
	chk := func(name string, mine, theirs int) {
		if mine != theirs {
			out = append(out, fmt.Sprintf("%s: wire definition says %d, module constant says %d", name, mine, theirs))
		}
	}
	chk("rdp TPKTHeaderBytesTotal", rdpTPKTLen, int(rdp.TPKTHeaderBytesTotal))
	chk("rdp X224CrqBytesTotal", rdpX224Len, int(rdp.X224CrqBytesTotal))
	chk("rdp RDPTokenBytesMin", rdpTokenMin, int(rdp.RDPTokenBytesMin))
	chk("rdp RDPNegReqBytesTotal", rdpNegLen, int(rdp.RDPNegReqBytesTotal))
	chk("rdp RDPCorrInfoBytesTotal", rdpCorrLen, int(rdp.RDPCorrInfoBytesTotal))
	chk("wireguard MessageInitiationBytesTotal", wgInitLen, wg.MessageInitiationBytesTotal)
	chk("wireguard MessageTransportBytesMin", wgTransportMin, wg.MessageTransportBytesMin)
	chk("winbox MessageAuthBytesMin", wbBytesMin, wb.MessageAuthBytesMin)
	chk("winbox MessageAuthBytesMax", wbBytesMax, wb.MessageAuthBytesMax)
	chk("winbox MessageChunkBytesMax", wbChunkMax, wb.MessageChunkBytesMax)
	return out
}

func init() {
	register(&codec{
		Name: "rdp.TPKTHeader", Min: rdpTPKTLen, Max: rdpTPKTLen, SweepMax: rdpTPKTLen + 300,
		Bounds: "exactly 4 bytes: version 1 + reserved 1 + length 2 (TPKTHeaderBytesTotal, RFC 1006)",
		New:    func() any { return &rdp.TPKTHeader{} },
		Parse: func(in []byte) (any, error) {
			m := &rdp.TPKTHeader{}
			return m, m.FromBytes(in)
		},
		Ser: func(m any) ([]byte, error) { return m.(*rdp.TPKTHeader).ToBytes() },
		Gen: func(r *rand.Rand, j int) gmsg {
			v, vc := pickU(r, 8)
			rs, rc := pickU(r, 8)
			l, lc := pickU(r, 16)
			if j%3 == 0 {
				v, vc, rs, rc = 3, "3", 0, "0"
			}
			return gmsg{M: &rdp.TPKTHeader{Version: byte(v), Reserved: byte(rs), Length: uint16(l)}, Class: "v" + vc + "r" + rc + "l" + lc}
		},
		Shape: func(r *rand.Rand, b []byte) []byte {
			if len(b) >= 4 {
				b[0], b[1] = 3, 0
				binary.BigEndian.PutUint16(b[2:], uint16(11+r.Intn(249)))
			}
			return b
		},
	})
	register(&codec{
		Name: "rdp.X224Crq", Min: rdpX224Len, Max: rdpX224Len, SweepMax: rdpX224Len + 300,
		Bounds: "exactly 7 bytes: length indicator 1 + type/credit 1 + dst-ref 2 + src-ref 2 + class options 1 (X224CrqBytesTotal)",
		New:    func() any { return &rdp.X224Crq{} },
		Parse: func(in []byte) (any, error) {
			m := &rdp.X224Crq{}
			return m, m.FromBytes(in)
		},
		Ser: func(m any) ([]byte, error) { return m.(*rdp.X224Crq).ToBytes() },
		Gen: func(r *rand.Rand, j int) gmsg {
			l, lc := pickU(r, 8)
			t, tc := pickU(r, 8)
			d, dc := pickU(r, 16)
			s, sc := pickU(r, 16)
			o, oc := pickU(r, 8)
			if j%3 == 0 {
				t, tc, d, dc, s, sc, o, oc = 0xE0, "e0", 0, "0", 0, "0", 0, "0"
			}
			return gmsg{M: &rdp.X224Crq{Length: uint8(l), TypeCredit: uint8(t), DstRef: uint16(d), SrcRef: uint16(s), ClassOptions: uint8(o)},
				Class: "l" + lc + "t" + tc + "d" + dc + "s" + sc + "o" + oc}
		},
		Shape: func(r *rand.Rand, b []byte) []byte {
			if len(b) >= 7 {
				b[0] = byte(6 + r.Intn(249))
				b[1], b[2], b[3], b[4], b[5], b[6] = 0xE0, 0, 0, 0, 0, 0
			}
			return b
		},
	})
	optLens := []int{0, 1, 2, 24, 37, 237, 300}
	register(&codec{
		Name: "rdp.RDPToken", Min: rdpTokenMin, Max: -1, SweepMax: 248 + 300,
		Bounds: "at least 11 bytes: TPKT-like header 4 + X.224-like header 7 + optional cookie (RDPTokenBytesMin); no upper bound of its own (the enclosing X.224 CR allows 248 bytes, checked by the matcher)",
		New:    func() any { return &rdp.RDPToken{} },
		Parse: func(in []byte) (any, error) {
			m := &rdp.RDPToken{}
			return m, m.FromBytes(in)
		},
		Ser: func(m any) ([]byte, error) { return m.(*rdp.RDPToken).ToBytes() },
		Gen: func(r *rand.Rand, j int) gmsg {
			m := &rdp.RDPToken{}
			v, vc := pickU(r, 8)
			rs, rc := pickU(r, 8)
			l, lc := pickU(r, 16)
			li, lic := pickU(r, 8)
			t, tc := pickU(r, 8)
			d, dc := pickU(r, 16)
			s, sc := pickU(r, 16)
			o, oc := pickU(r, 8)
			m.Version, m.Reserved, m.Length, m.LengthIndicator = uint8(v), uint8(rs), uint16(l), uint8(li)
			m.TypeCredit, m.DstRef, m.SrcRef, m.ClassOptions = uint8(t), uint16(d), uint16(s), uint8(o)
			var nc string
			switch k := j % (len(optLens) + 2); {
			case k < len(optLens):
				m.Optional, nc = randBytes(r, optLens[k]), fmt.Sprint(optLens[k])
			case k == len(optLens):
				// a real routing cookie, with consistent length fields
				m.Optional, nc = []byte(fmt.Sprintf("Cookie: msts=%d.%d.0000\r\n", r.Uint32(), r.Intn(65536))), "cookie"
				m.Version, m.Reserved, m.TypeCredit, m.DstRef, m.SrcRef, m.ClassOptions = 3, 0, 0xE0, 0, 0, 0
				m.Length = uint16(11 + len(m.Optional))
				m.LengthIndicator = uint8(m.Length - 5)
				vc, rc, lc, lic, tc, dc, sc, oc = "3", "0", "ok", "ok", "e0", "0", "0", "0"
			default:
				m.Optional, nc = randBytes(r, r.Intn(300)), "r"
			}
			return gmsg{M: m, Class: "v" + vc + "r" + rc + "l" + lc + "i" + lic + "t" + tc + "d" + dc + "s" + sc + "o" + oc + "n" + nc}
		},
		Shape: func(r *rand.Rand, b []byte) []byte {
			if len(b) >= 11 {
				b[0], b[1] = 3, 0
				binary.BigEndian.PutUint16(b[2:], uint16(len(b)))
				b[4] = byte(len(b) - 5)
				b[5], b[6], b[7], b[8], b[9], b[10] = 0xE0, 0, 0, 0, 0, 0
				if len(b) >= 13 {
					b[len(b)-2], b[len(b)-1] = 0x0D, 0x0A
				}
			}
			return b
		},
	})
	register(&codec{
		Name: "rdp.RDPNegReq", Min: rdpNegLen, Max: rdpNegLen, SweepMax: rdpNegLen + 300,
		Bounds: "exactly 8 bytes: type 1 + flags 1 + length 2 + requestedProtocols 4 (RDPNegReqBytesTotal)",
		New:    func() any { return &rdp.RDPNegReq{} },
		Parse: func(in []byte) (any, error) {
			m := &rdp.RDPNegReq{}
			return m, m.FromBytes(in)
		},
		Ser: func(m any) ([]byte, error) { return m.(*rdp.RDPNegReq).ToBytes() },
		Gen: func(r *rand.Rand, j int) gmsg {
			t, tc := pickU(r, 8)
			f, fc := pickU(r, 8)
			l, lc := pickU(r, 16)
			p, pc := pickU(r, 32)
			if j%3 == 0 {
				t, tc, l, lc = 1, "1", 8, "8"
			}
			return gmsg{M: &rdp.RDPNegReq{Type: uint8(t), Flags: uint8(f), Length: uint16(l), Protocols: uint32(p)}, Class: "t" + tc + "f" + fc + "l" + lc + "p" + pc}
		},
		Shape: func(r *rand.Rand, b []byte) []byte {
			if len(b) >= 8 {
				b[0], b[1], b[2], b[3] = 1, byte(r.Intn(16)), 8, 0
				binary.LittleEndian.PutUint32(b[4:], uint32(r.Intn(32)))
			}
			return b
		},
	})
	register(&codec{
		Name: "rdp.RDPCorrInfo", Min: rdpCorrLen, Max: rdpCorrLen, SweepMax: rdpCorrLen + 300,
		Bounds: "exactly 36 bytes: type 1 + flags 1 + length 2 + correlationId 16 + reserved 16 (RDPCorrInfoBytesTotal)",
		New:    func() any { return &rdp.RDPCorrInfo{} },
		Parse: func(in []byte) (any, error) {
			m := &rdp.RDPCorrInfo{}
			return m, m.FromBytes(in)
		},
		Ser: func(m any) ([]byte, error) { return m.(*rdp.RDPCorrInfo).ToBytes() },
		Gen: func(r *rand.Rand, j int) gmsg {
			m := &rdp.RDPCorrInfo{}
			t, tc := pickU(r, 8)
			f, fc := pickU(r, 8)
			l, lc := pickU(r, 16)
			if j%3 == 0 {
				t, tc, f, fc, l, lc = 6, "6", 0, "0", 36, "36"
			}
			m.Type, m.Flags, m.Length = uint8(t), uint8(f), uint16(l)
			id, ic := pickBytes(r, 16)
			copy(m.Identity[:], id)
			rs, rc := pickBytes(r, 16)
			copy(m.Reserved[:], rs)
			return gmsg{M: m, Class: "t" + tc + "f" + fc + "l" + lc + "i" + ic + "r" + rc}
		},
		Shape: func(r *rand.Rand, b []byte) []byte {
			if len(b) >= 36 {
				b[0], b[1], b[2], b[3] = 6, 0, 36, 0
				for i := 20; i < 36; i++ {
					b[i] = 0
				}
			}
			return b
		},
	})
}
