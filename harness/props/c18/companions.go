package c18

import (
	"encoding/hex"
	"fmt"

	"verifharness/fw"
	"verifharness/hmods"
	"verifharness/mt"
)

// provisionCompanions: the codecs are not alone in their process - the matchers built on them are provisioned next to
// them (at start-up and on every configuration reload). Provisioning any valid matcher configuration must leave what the
// codecs accept and produce as it was, so before the codec cases run (and again between codecs) a set of matchers is
// provisioned and released: OpenVPN matchers over modes, digests (every supported one, with and without a group key,
// with ignore_crypto), keys and directions, and the WireGuard, Winbox and RDP matchers with and without filters.
func provisionCompanions(c *fw.Ctx, round int) {
	r := caseRand(c.Seed, "companions", round)
	key := hex.EncodeToString(randBytes(r, 256))
	var cfgs [][2]string
	add := func(name, cfg string) { cfgs = append(cfgs, [2]string{name, cfg}) }
	add("openvpn", `{}`)
	for _, d := range []string{"SHA-512", "sha1", "SHA-256", "md5", "SHA3-384", "RIPEMD-160", "SHA-224"} {
		add("openvpn", fmt.Sprintf(`{"auth_digest":%q}`, d))
		add("openvpn", fmt.Sprintf(`{"modes":["auth"],"auth_digest":%q}`, d))
		add("openvpn", fmt.Sprintf(`{"modes":["auth"],"auth_digest":%q,"group_key":%q}`, d, key))
		add("openvpn", fmt.Sprintf(`{"auth_digest":%q,"group_key":%q,"ignore_crypto":true}`, d, key))
		add("openvpn", fmt.Sprintf(`{"auth_digest":%q,"group_key":%q,"group_key_direction":"inverse","ignore_timestamp":true}`, d, key))
	}
	add("openvpn", fmt.Sprintf(`{"modes":["crypt"],"group_key":%q}`, key))
	add("openvpn", fmt.Sprintf(`{"modes":["crypt2"],"server_key":%q}`, key[:256]))
	add("openvpn", `{"modes":["plain"]}`)
	add("wireguard", `{}`)
	add("wireguard", `{"zero":4294967295}`)
	add("winbox", `{}`)
	add("winbox", `{"modes":["standard"],"username":"admin"}`)
	add("winbox", `{"username_regexp":"^a.*$"}`)
	add("rdp", `{}`)
	add("rdp", `{"cookie_hash":"user"}`)
	add("rdp", `{"custom_info":"anything"}`)
	r.Shuffle(len(cfgs), func(i, j int) { cfgs[i], cfgs[j] = cfgs[j], cfgs[i] })
	ok := 0
	for _, nc := range cfgs {
		m, err := mt.Load(nc[0], nc[1])
		if err != nil {
			c.Obs("companion_matcher_configs_rejected", 1)
			continue
		}
		ok++
		m.Close()
	}
	c.Obs("companion_matchers_provisioned", int64(ok))
	_ = hmods.NewContext
}
