package c18

import (
	"bytes"
	"fmt"
	"math/rand"

	wb "github.com/mholt/caddy-l4/modules/l4winbox"
)

// Winbox auth message (module documentation + Margin Research write-ups): the payload
//
//	username (1..255 bytes incl. an optional "+r" RoMON suffix) 0x00 public key (32 bytes) parity (1 byte: 0 or 1)
//
// i.e. 35..289 bytes, is cut into chunks of at most 255 bytes, each prefixed by [length][type] with type 0x06 for
// the first and 0xFF for every following chunk; only the last chunk may be shorter than 255. So the byte form has
// payload + 2*ceil(payload/255) bytes: 37..257 (one chunk) or 260..293 (two chunks). MessageAuthBytesMin/Max = 37/293.
const (
	wbPayloadMin = 35
	wbPayloadMax = 289
	wbBytesMin   = 37
	wbBytesMax   = 293
	wbChunkMax   = 255
	wbTypeAuth   = 0x06
	wbTypePrev   = 0xFF
)

func wbBytesLenOK(n int) bool {
	return (n >= wbBytesMin && n <= wbChunkMax+2) || (n >= 2*2+wbChunkMax+1 && n <= wbBytesMax)
}

const (
	wbAlnum  = "0123456789ABCDEFGHIJKLMNOPQRSTUVWXYZabcdefghijklmnopqrstuvwxyz"
	wbMiddle = wbAlnum + "_.#-@"
)

// wbUser generates a username of n >= 1 bytes as the module documents it: starts and ends with an alphanumeric
// character and may contain "_", ".", "#", "-", "@" in between.
func wbUser(r *rand.Rand, n int) string {
	b := make([]byte, n)
	for i := range b {
		if i == 0 || i == n-1 {
			b[i] = wbAlnum[r.Intn(len(wbAlnum))]
		} else {
			b[i] = wbMiddle[r.Intn(len(wbMiddle))]
		}
	}
	return string(b)
}

// wbFrame is the harness's own serialiser of a payload into canonical chunks.
func wbFrame(payload []byte) []byte {
	var out []byte
	first := true
	for len(payload) > 0 {
		n := len(payload)
		if n > wbChunkMax {
			n = wbChunkMax
		}
		t := byte(wbTypePrev)
		if first {
			t = wbTypeAuth
		}
		out = append(out, byte(n), t)
		out = append(out, payload[:n]...)
		payload, first = payload[n:], false
	}
	return out
}

// wbSplit reads a byte string as a list of [length][type][bytes] chunks (any lengths, any types); ok is false if it does not divide exactly.
func wbSplit(in []byte) (chunks []*wb.MessageChunk, ok bool) {
	for p := 0; p < len(in); {
		if p+2 > len(in) {
			return nil, false
		}
		l := int(in[p])
		if p+2+l > len(in) {
			return nil, false
		}
		chunks = append(chunks, &wb.MessageChunk{Length: in[p], Type: in[p+1], Bytes: in[p+2 : p+2+l]})
		p += 2 + l
	}
	return chunks, true
}

func wbJoin(chunks []*wb.MessageChunk) []byte {
	var out []byte
	for _, ch := range chunks {
		out = append(out, ch.Length, ch.Type)
		out = append(out, ch.Bytes...)
	}
	return out
}

func wbPayload(chunks []*wb.MessageChunk) []byte {
	var out []byte
	for _, ch := range chunks {
		out = append(out, ch.Bytes...)
	}
	return out
}

// wbCanonical: first chunk type 0x06, the others 0xFF, no empty chunk, every chunk but the last is full.
func wbCanonical(chunks []*wb.MessageChunk) bool {
	for i, ch := range chunks {
		if int(ch.Length) != len(ch.Bytes) || ch.Length == 0 {
			return false
		}
		if (i == 0 && ch.Type != wbTypeAuth) || (i > 0 && ch.Type != wbTypePrev) {
			return false
		}
		if i < len(chunks)-1 && ch.Length != wbChunkMax {
			return false
		}
	}
	return len(chunks) > 0
}

// wbShape builds, for the length of b, a message whose framing is canonical and whose payload is a well-formed
// auth payload (where that length admits one); otherwise only the first chunk header is made plausible.
func wbShape(r *rand.Rand, b []byte) []byte {
	n := len(b)
	for q := 1; q <= n/2; q++ {
		c := n - 2*q
		if c < 1 {
			break
		}
		if (c+wbChunkMax-1)/wbChunkMax != q {
			continue
		}
		payload := append([]byte(nil), b[:c]...)
		if ulen := c - 34; ulen >= 1 && r.Intn(8) != 0 {
			var user string
			if ulen >= 3 && r.Intn(3) == 0 {
				user = wbUser(r, ulen-2) + "+r"
			} else {
				user = wbUser(r, ulen)
			}
			copy(payload, user)
			payload[ulen] = 0x00
			payload[c-1] = byte(r.Intn(2))
		}
		return wbFrame(payload)
	}
	if n >= 2 {
		l := n - 2
		if l > wbChunkMax {
			l = wbChunkMax
		}
		b[0], b[1] = byte(l), wbTypeAuth
	}
	return b
}

var wbUserLens = []int{1, 2, 3, 4, 5, 16, 219, 220, 221, 222, 252, 253, 254, 255}

func genWinbox(r *rand.Rand, j int) gmsg {
	total := wbUserLens[j%len(wbUserLens)]
	lc := fmt.Sprint(total)
	if (j/len(wbUserLens))%4 == 3 {
		total, lc = 1+r.Intn(255), "r"
	}
	romon := (j/len(wbUserLens))%2 == 1 && total >= 3
	var user string
	base := total
	if romon {
		base = total - 2
		user = wbUser(r, base) + "+r"
	} else {
		user = wbUser(r, base)
	}
	key, kc := pickBytes(r, 32)
	parity := uint8(r.Intn(2))
	kind := ""
	if base == 2 {
		kind = "2-character username"
	}
	return gmsg{M: &wb.MessageAuth{PublicKeyParity: parity, PublicKeyBytes: key, Username: user},
		Class: fmt.Sprintf("u%s,romon=%v,k%s,p%d", lc, romon, kc, parity), Kind: kind}
}

func init() {
	register(&codec{
		Name: "winbox.MessageAuth", Min: wbBytesMin, Max: wbBytesMax, LenOK: wbBytesLenOK, SweepMax: wbBytesMax + 300,
		Bounds: "37..257 or 260..293 bytes: payload 35..289 (username 1..255, NUL, key 32, parity 1) + 2 header bytes per chunk of <=255 payload bytes (MessageAuthBytesMin/Max, MessageChunkBytesMax)",
		New:    func() any { return &wb.MessageAuth{} },
		Parse: func(in []byte) (any, error) {
			m := &wb.MessageAuth{}
			return m, m.FromBytes(in)
		},
		Ser:   func(m any) ([]byte, error) { return m.(*wb.MessageAuth).ToBytes(), nil },
		Gen:   genWinbox,
		Shape: wbShape,
	})
	register(&codec{
		Name: "winbox.MessageAuth/chunks", Min: wbPayloadMin, Max: wbPayloadMax, SweepMax: wbBytesMax + 300,
		Size: func(in []byte) int {
			if chunks, ok := wbSplit(in); ok {
				return len(wbPayload(chunks))
			}
			return len(in)
		},
		Bounds: "FromChunks/ToChunks; input = chunk list written as [length][type][bytes]...; bounds are on the total payload: 35..289 bytes (username 1..255, NUL, key 32, parity 1)",
		New:    func() any { return &wb.MessageAuth{} },
		Parse: func(in []byte) (any, error) {
			chunks, ok := wbSplit(in)
			if !ok {
				return nil, errNA
			}
			m := &wb.MessageAuth{}
			return m, m.FromChunks(chunks)
		},
		Ser: func(m any) ([]byte, error) { return wbJoin(m.(*wb.MessageAuth).ToChunks()), nil },
		Gen: genWinbox,
		Shape: func(r *rand.Rand, b []byte) []byte {
			out := wbShape(r, b)
			if r.Intn(4) != 0 {
				return out
			}
			// the same payload cut at arbitrary points: a non-canonical chunk list
			chunks, ok := wbSplit(out)
			if !ok {
				return out
			}
			payload := wbPayload(chunks)
			var re []byte
			first := true
			for len(payload) > 0 {
				n := 1 + r.Intn(wbChunkMax)
				if n > len(payload) {
					n = len(payload)
				}
				t := byte(wbTypePrev)
				if first {
					t = wbTypeAuth
				}
				re = append(re, byte(n), t)
				re = append(re, payload[:n]...)
				payload, first = payload[n:], false
			}
			return re
		},
		// exact reproduction is demanded of canonical chunk lists only; for any other accepted list the payload must survive
		L1Equal: func(in, out []byte) bool {
			ci, ok1 := wbSplit(in)
			co, ok2 := wbSplit(out)
			if !ok1 || !ok2 {
				return false
			}
			if wbCanonical(ci) {
				return bytes.Equal(in, out)
			}
			return bytes.Equal(wbPayload(ci), wbPayload(co))
		},
	})
}
