package c18

import (
	"fmt"
	"math/rand"
)

// sm64 is a splitmix64 rand.Source64: cheap to seed, so every case gets its own PRNG.
type sm64 struct{ s uint64 }

func (p *sm64) Uint64() uint64 {
	p.s += 0x9E3779B97F4A7C15
	z := p.s
	z = (z ^ (z >> 30)) * 0xBF58476D1CE4E5B9
	z = (z ^ (z >> 27)) * 0x94D049BB133111EB
	return z ^ (z >> 31)
}
func (p *sm64) Int63() int64 { return int64(p.Uint64() >> 1) }
func (p *sm64) Seed(s int64) { p.s = uint64(s) }

func randBytes(r *rand.Rand, n int) []byte {
	b := make([]byte, n)
	for i := 0; i+8 <= n; i += 8 {
		v := r.Uint64()
		b[i], b[i+1], b[i+2], b[i+3], b[i+4], b[i+5], b[i+6], b[i+7] = byte(v), byte(v>>8), byte(v>>16), byte(v>>24), byte(v>>32), byte(v>>40), byte(v>>48), byte(v>>56)
	}
	for i := n &^ 7; i < n; i++ {
		b[i] = byte(r.Intn(256))
	}
	return b
}

// biasedBytes returns n bytes of a "suspicious" pattern: all zero, all 0xFF, ASCII letters, a repeated byte, CR/LF/NUL sprinkled, or random.
func biasedBytes(r *rand.Rand, n int) []byte {
	b := make([]byte, n)
	switch r.Intn(6) {
	case 0: // zeros
	case 1:
		for i := range b {
			b[i] = 0xFF
		}
	case 2:
		for i := range b {
			b[i] = byte('a' + r.Intn(26))
		}
	case 3:
		v := byte(r.Intn(256))
		for i := range b {
			b[i] = v
		}
	case 4:
		b = randBytes(r, n)
		sp := []byte{0x00, 0x0D, 0x0A, 0xFF, 0x06}
		for k := 0; k < 1+n/16; k++ {
			if n > 0 {
				b[r.Intn(n)] = sp[r.Intn(len(sp))]
			}
		}
	default:
		b = randBytes(r, n)
	}
	return b
}

// mutate applies one mutation to a copy of b.
func mutate(r *rand.Rand, b []byte) ([]byte, string) {
	out := append([]byte(nil), b...)
	small := func() int {
		if r.Intn(4) == 0 {
			return 1 + r.Intn(300)
		}
		return 1 + r.Intn(8)
	}
	switch op := r.Intn(8); op {
	case 0:
		if len(out) > 0 {
			out[r.Intn(len(out))] ^= byte(1 << uint(r.Intn(8)))
		}
		return out, "bit-flip"
	case 1:
		if len(out) > 0 {
			out[r.Intn(len(out))] = byte(r.Intn(256))
		}
		return out, "byte-set"
	case 2:
		k := small()
		if k > len(out) {
			k = len(out)
		}
		return out[:len(out)-k], "truncate"
	case 3:
		return append(out, randBytes(r, small())...), "append"
	case 4:
		p := r.Intn(len(out) + 1)
		ins := randBytes(r, 1+r.Intn(4))
		out = append(out[:p], append(ins, out[p:]...)...)
		return out, "insert"
	case 5:
		if len(out) > 0 {
			p := r.Intn(len(out))
			out = append(out[:p], out[p+1:]...)
		}
		return out, "delete"
	case 6:
		k := small()
		if k > len(out) {
			k = len(out)
		}
		return out[k:], "drop-head"
	default:
		return append(out, make([]byte, small())...), "append-zeros"
	}
}

// pickU picks a value of a bits-wide unsigned field from the boundary classes {0,1,max,max-1,msb,random}.
func pickU(r *rand.Rand, bits uint) (uint64, string) {
	max := uint64(1)<<bits - 1
	if bits == 64 {
		max = ^uint64(0)
	}
	switch r.Intn(6) {
	case 0:
		return 0, "z"
	case 1:
		return 1 & max, "o"
	case 2:
		return max, "m"
	case 3:
		return max - 1, "n"
	case 4:
		return uint64(1) << (bits - 1), "h"
	default:
		return r.Uint64() & max, "r"
	}
}

// pickBytes fills n bytes from the content classes {zero, ff, random, special}.
func pickBytes(r *rand.Rand, n int) ([]byte, string) {
	b := make([]byte, n)
	switch r.Intn(4) {
	case 0:
		return b, "z"
	case 1:
		for i := range b {
			b[i] = 0xFF
		}
		return b, "f"
	case 2:
		b = randBytes(r, n)
		sp := []byte{0x00, 0x0D, 0x0A, 0xF4}
		for k := 0; k < 1+n/8 && n > 0; k++ {
			b[r.Intn(n)] = sp[r.Intn(len(sp))]
		}
		return b, "s"
	default:
		return randBytes(r, n), "r"
	}
}

func cls(parts ...any) string { return fmt.Sprint(parts...) }
