package c18

import (
	"fmt"
	"math/rand"

	wg "github.com/mholt/caddy-l4/modules/l4wireguard"
)

// WireGuard wire sizes (https://www.wireguard.com/protocol/):
//
//	handshake initiation 148 = type 1 + reserved 3 + sender 4 + ephemeral 32 + static 32+16 + timestamp 12+16 + mac1 16 + mac2 16
//	transport data       >= 32 = type 1 + reserved 3 + receiver 4 + counter 8 + encrypted packet (>= 16: the Poly1305 tag of an empty keepalive)
const (
	wgInitLen      = 148
	wgTransportMin = 32
	wgTransportHdr = 16
)

func init() {
	register(&codec{
		Name: "wireguard.MessageInitiation", Min: wgInitLen, Max: wgInitLen, SweepMax: wgInitLen + 300,
		Bounds: "exactly 148 bytes: 4+4+32+48+28+16+16 (MessageInitiationBytesTotal)",
		New:    func() any { return &wg.MessageInitiation{} },
		Parse: func(in []byte) (any, error) {
			m := &wg.MessageInitiation{}
			return m, m.FromBytes(in)
		},
		Ser: func(m any) ([]byte, error) { return m.(*wg.MessageInitiation).ToBytes() },
		Gen: func(r *rand.Rand, j int) gmsg {
			m := &wg.MessageInitiation{}
			t, tc := pickU(r, 32)
			if j%2 == 0 {
				t, tc = 1, "init" // the protocol's type 1 with zero reserved bytes
			}
			s, sc := pickU(r, 32)
			m.Type, m.Sender = uint32(t), uint32(s)
			e, ec := pickBytes(r, len(m.Ephemeral))
			copy(m.Ephemeral[:], e)
			st, stc := pickBytes(r, len(m.Static))
			copy(m.Static[:], st)
			ts, tsc := pickBytes(r, len(m.Timestamp))
			copy(m.Timestamp[:], ts)
			m1, m1c := pickBytes(r, 16)
			copy(m.MAC1[:], m1)
			m2, m2c := pickBytes(r, 16)
			copy(m.MAC2[:], m2)
			return gmsg{M: m, Class: "t" + tc + "s" + sc + ec + stc + tsc + m1c + m2c}
		},
		Shape: func(r *rand.Rand, b []byte) []byte {
			if len(b) >= 4 && r.Intn(2) == 0 {
				b[0], b[1], b[2], b[3] = 1, 0, 0, 0
			}
			return b
		},
	})
	contentLens := []int{16, 17, 31, 32, 48, 16 + 1420, 16 + 1500}
	register(&codec{
		Name: "wireguard.MessageTransport", Min: wgTransportMin, Max: -1, SweepMax: wgTransportMin + 600,
		Bounds: "at least 32 bytes: header 16 (type 4, receiver 4, counter 8) + encrypted packet of at least the 16-byte Poly1305 tag (MessageTransportBytesMin); no upper bound of its own",
		New:    func() any { return &wg.MessageTransport{} },
		Parse: func(in []byte) (any, error) {
			m := &wg.MessageTransport{}
			return m, m.FromBytes(in)
		},
		Ser: func(m any) ([]byte, error) { return m.(*wg.MessageTransport).ToBytes() },
		Gen: func(r *rand.Rand, j int) gmsg {
			m := &wg.MessageTransport{}
			t, tc := pickU(r, 32)
			if j%2 == 0 {
				t, tc = 4, "data"
			}
			rc, rcc := pickU(r, 32)
			ct, ctc := pickU(r, 64)
			m.Type, m.Receiver, m.Counter = uint32(t), uint32(rc), ct
			var n int
			var nc string
			if k := j % (len(contentLens) + 1); k < len(contentLens) {
				n, nc = contentLens[k], fmt.Sprint(contentLens[k])
			} else {
				n, nc = 16+r.Intn(600), "r"
			}
			body, bc := pickBytes(r, n)
			m.Content = body
			return gmsg{M: m, Class: "t" + tc + "r" + rcc + "c" + ctc + "n" + nc + bc}
		},
		Shape: func(r *rand.Rand, b []byte) []byte {
			if len(b) >= 4 && r.Intn(2) == 0 {
				b[0], b[1], b[2], b[3] = 4, 0, 0, 0
			}
			return b
		},
	})
}
