package c18

import (
	"bytes"
	"encoding/base64"
	"encoding/hex"
	"fmt"
	"os"

	ov "github.com/mholt/caddy-l4/modules/l4openvpn"

	"verifharness/fw"
)

// runCryptoLaws: the wire form of a tls-crypt-v2 wrapped client key is its encrypted and signed form. For generated keys
// (with and without metadata) the path Sign -> EncryptAndSign -> ToBytes -> FromBytes -> DecryptAndAuthenticate has to give
// back the key and the metadata, must leave the original object's plain fields as they were, and must be repeatable
// (the same wire bytes the second time).
func runCryptoLaws(c *fw.Ctx) {
	n := c.Pick(400, 20000)
	for i := 0; i < n; i++ {
		if !c.Mine(i) {
			continue
		}
		r := caseRand(c.Seed, "openvpn-crypto", i)
		// the digest handed to Sign / EncryptAndSign / DecryptAndAuthenticate: the format's own (SHA-256, the HMAC field of
		// a wrapped key is 32 bytes wide), none, or any other supported one - whichever the caller names, what is written
		// has to be the wire form of the key
		ad := ov.AuthDigestDefault
		switch r.Intn(4) {
		case 0:
			ad = ov.AuthDigests[r.Intn(len(ov.AuthDigests))]
		case 1:
			ad = nil
		}
		// (a tls-crypt-v2 server key has no direction: both sides use the same quarters of it)
		server := &ov.StaticKey{KeyBytes: randBytes(r, 256), Bidi: true}
		ck := randBytes(r, 256)
		var meta []byte
		if k := []int{0, 0, 1, 8, 100}[r.Intn(5)]; k > 0 {
			meta = randBytes(r, k)
		}
		mtype := uint8(r.Intn(2))
		build := func() *ov.WrappedKey {
			wk := &ov.WrappedKey{}
			wk.StaticKey.KeyBytes = append([]byte(nil), ck...)
			wk.MetaData.Payload, wk.MetaData.Type = append([]byte(nil), meta...), mtype
			wk.MessageTraitAuth.Digest = ov.AuthDigestDefault
			wk.MessageTraitAuth.HMAC = make([]byte, ov.AuthDigestDefault.Size)
			wk.MessageTraitCrypt.Cipher = ov.CryptCipherDefault
			return wk
		}
		adName := "none"
		if ad != nil {
			adName = ad.Names[0]
		}
		class := fmt.Sprintf("meta%d/%s", len(meta), adName)
		report := func(kind, what string) {
			c.Violation("C18 openvpn.WrappedKey crypto round trip: "+kind+" ["+map[bool]string{true: "with metadata", false: "without metadata"}[len(meta) > 0]+"]", what,
				map[string]any{"index": i, "meta_len": len(meta), "digest_argument": adName, "bidi": server.Bidi, "inverse": server.Inverse})
		}
		wk := build()
		var wire1, wire2 []byte
		var ok bool
		var back *ov.WrappedKey
		p := guard(func() {
			if err := wk.Sign(ad, server); err != nil {
				return
			}
			if err := wk.EncryptAndSign(ad, server); err != nil {
				return
			}
			wire1 = append([]byte(nil), wk.ToBytes()...)
			if err := wk.EncryptAndSign(ad, server); err == nil {
				wire2 = append([]byte(nil), wk.ToBytes()...)
			}
			back = &ov.WrappedKey{}
			back.MessageTraitAuth.Digest = ov.AuthDigestDefault
			back.MessageTraitCrypt.Cipher = ov.CryptCipherDefault
			if back.FromBytes(wire1) == nil {
				// (the reader names the format's digest or none: a reader that insists on another digest rejects, rightly)
				rd := ov.AuthDigestDefault
				if i%2 == 1 {
					rd = nil
				}
				ok = back.DecryptAndAuthenticate(rd, server)
			}
		})
		c.Case(fw.Hash("crypto", class, server.Bidi, server.Inverse), true, func() any { return map[string]any{"index": i, "meta_len": len(meta)} })
		c.Obs("crypto_round_trips", 1)
		switch {
		case p != nil:
			report("panic in "+p.Func, p.Value)
		case wire1 == nil:
			report("cannot encrypt and sign a well-formed key", "Sign / EncryptAndSign returned an error")
		case !bytes.Equal(wk.StaticKey.KeyBytes, ck) || !bytes.Equal(wk.MetaData.Payload, meta):
			report("encrypting changes the key object itself", fmt.Sprintf("after EncryptAndSign the object's own key bytes / metadata differ from what they were (key changed: %v)", !bytes.Equal(wk.StaticKey.KeyBytes, ck)))
		case wire2 != nil && !bytes.Equal(wire1, wire2):
			report("not repeatable", "EncryptAndSign + ToBytes gives different wire bytes the second time")
		case !ok:
			report("does not decrypt and authenticate", "the wire form of a wrapped key made with the server key is not accepted by DecryptAndAuthenticate with the same key")
		case !bytes.Equal(back.StaticKey.KeyBytes, ck) || (len(meta) > 0 && (!bytes.Equal(back.MetaData.Payload, meta) || back.MetaData.Type != mtype)):
			report("different key or metadata", "the key / metadata read back from the wire form differ from the original")
		}
	}
}

// runKeyFileLaws: what a key file holds is what reading it gives - each time it is read. A group key file and a server
// key file are written, read, rewritten with another key under the same path and read again (a key rotation followed by
// a configuration reload in one process): ToHex / ToBase64 of what was read reproduces the file's current contents.
func runKeyFileLaws(c *fw.Ctx) {
	if c.Shard != 0 {
		return
	}
	dir := c.OutDir + "/keyfiles"
	_ = os.MkdirAll(dir, 0o755)
	n := c.Pick(40, 400)
	for i := 0; i < n; i++ {
		r := caseRand(c.Seed, "openvpn-keyfile", i)
		path := fmt.Sprintf("%s/k%d.key", dir, i%3) // paths are reused: every third file replaces an earlier one
		kind := []string{"group", "server"}[r.Intn(2)]
		var text, want string
		var read func() (string, error)
		switch kind {
		case "group":
			key := randBytes(r, 256)
			want = hex.EncodeToString(key)
			text = "#\n# 2048 bit OpenVPN static key\n#\n-----BEGIN OpenVPN Static key V1-----\n"
			for o := 0; o < len(want); o += 32 {
				text += want[o:o+32] + "\n"
			}
			text += "-----END OpenVPN Static key V1-----\n"
			read = func() (string, error) {
				sk := &ov.StaticKey{}
				if err := sk.FromGroupKeyFile(path); err != nil {
					return "", err
				}
				return sk.ToHex(), nil
			}
		default:
			key := randBytes(r, 128)
			want = base64.StdEncoding.EncodeToString(key)
			text = "-----BEGIN OpenVPN tls-crypt-v2 server key-----\n"
			for o := 0; o < len(want); o += 64 {
				text += want[o:min(o+64, len(want))] + "\n"
			}
			text += "-----END OpenVPN tls-crypt-v2 server key-----\n"
			read = func() (string, error) {
				sk := &ov.StaticKey{}
				if err := sk.FromServerKeyFile(path); err != nil {
					return "", err
				}
				return sk.ToBase64(), nil
			}
		}
		if err := os.WriteFile(path, []byte(text), 0o600); err != nil {
			c.Inconclusive("cannot write a key file")
			return
		}
		var got string
		var err error
		p := guard(func() { got, err = read() })
		c.Obs("key_files_read", 1)
		c.Case(fw.Hash("keyfile", kind, i%3), true, func() any { return map[string]any{"index": i, "kind": kind} })
		w := map[string]any{"index": i, "kind": kind, "path_reused": i >= 3}
		switch {
		case p != nil:
			c.Violation("C18 openvpn key file: panic in "+p.Func, p.Value, w)
		case err != nil:
			c.Violation("C18 openvpn key file: a well-formed "+kind+" key file is rejected", err.Error(), w)
		case got != want:
			c.Violation("C18 openvpn key file: reading a "+kind+" key file does not give the key the file holds", fmt.Sprintf("the file holds %.24s..., reading it gives %.24s... (the path held another key earlier in this process: %v)", want, got, i >= 3), w)
		}
	}
}
