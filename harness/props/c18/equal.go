package c18

import (
	"bytes"
	"encoding/hex"
	"encoding/json"
	"fmt"
	"reflect"
	"strconv"

	ov "github.com/mholt/caddy-l4/modules/l4openvpn"
)

// deepEq is reflect.DeepEqual with nil == empty slice; it returns the path of the first difference.
func deepEq(a, b any) (bool, string) {
	return eqv(reflect.ValueOf(a), reflect.ValueOf(b), "")
}

func eqv(a, b reflect.Value, path string) (bool, string) {
	if a.IsValid() != b.IsValid() {
		return false, path
	}
	if !a.IsValid() {
		return true, ""
	}
	if a.Type() != b.Type() {
		return false, path + "(type)"
	}
	switch a.Kind() {
	case reflect.Ptr:
		if a.IsNil() || b.IsNil() {
			if a.IsNil() == b.IsNil() {
				return true, ""
			}
			return false, path
		}
		if a.Pointer() == b.Pointer() {
			return true, ""
		}
		return eqv(a.Elem(), b.Elem(), path)
	case reflect.Struct:
		for i := 0; i < a.NumField(); i++ {
			p := a.Type().Field(i).Name
			if path != "" {
				p = path + "." + p
			}
			if ok, where := eqv(a.Field(i), b.Field(i), p); !ok {
				return false, where
			}
		}
		return true, ""
	case reflect.Slice:
		if a.Len() != b.Len() {
			return false, path + "(len)"
		}
		if a.Type().Elem().Kind() == reflect.Uint8 {
			if a.Len() == 0 || bytes.Equal(a.Bytes(), b.Bytes()) {
				return true, ""
			}
			return false, path
		}
		for i := 0; i < a.Len(); i++ {
			if ok, where := eqv(a.Index(i), b.Index(i), fmt.Sprintf("%s[%d]", path, i)); !ok {
				return false, where
			}
		}
		return true, ""
	case reflect.Array:
		for i := 0; i < a.Len(); i++ {
			if ok, _ := eqv(a.Index(i), b.Index(i), path); !ok {
				return false, path
			}
		}
		return true, ""
	case reflect.Func:
		if a.IsNil() && b.IsNil() {
			return true, ""
		}
		return false, path
	case reflect.String:
		return a.String() == b.String(), path
	case reflect.Bool:
		return a.Bool() == b.Bool(), path
	case reflect.Uint, reflect.Uint8, reflect.Uint16, reflect.Uint32, reflect.Uint64:
		return a.Uint() == b.Uint(), path
	case reflect.Int, reflect.Int8, reflect.Int16, reflect.Int32, reflect.Int64:
		return a.Int() == b.Int(), path
	case reflect.Interface:
		if a.IsNil() || b.IsNil() {
			return a.IsNil() == b.IsNil(), path
		}
		return eqv(a.Elem(), b.Elem(), path)
	}
	return false, path + "(unsupported kind " + a.Kind().String() + ")"
}

var (
	digestT = reflect.TypeOf((*ov.AuthDigest)(nil))
	cipherT = reflect.TypeOf((*ov.CryptCipher)(nil))
)

// describe turns a message into a JSON-able tree: byte strings as hex, strings Go-quoted, 64-bit integers as
// decimal strings, OpenVPN digest/cipher pointers by name.
func describe(m any) any { return desc(reflect.ValueOf(m)) }

func describeString(m any) string {
	b, err := json.Marshal(describe(m))
	if err != nil {
		return fmt.Sprintf("%+v", m)
	}
	if len(b) > 700 {
		return string(b[:700]) + "..."
	}
	return string(b)
}

func desc(v reflect.Value) any {
	if !v.IsValid() {
		return nil
	}
	switch v.Type() {
	case digestT:
		if v.IsNil() {
			return nil
		}
		return "digest:" + v.Interface().(*ov.AuthDigest).Names[0]
	case cipherT:
		if v.IsNil() {
			return nil
		}
		return "cipher:" + v.Interface().(*ov.CryptCipher).Names[0]
	}
	switch v.Kind() {
	case reflect.Ptr:
		if v.IsNil() {
			return nil
		}
		return desc(v.Elem())
	case reflect.Struct:
		m := map[string]any{}
		for i := 0; i < v.NumField(); i++ {
			m[v.Type().Field(i).Name] = desc(v.Field(i))
		}
		return m
	case reflect.Slice, reflect.Array:
		if v.Type().Elem().Kind() == reflect.Uint8 {
			b := make([]byte, v.Len())
			for i := range b {
				b[i] = byte(v.Index(i).Uint())
			}
			return hex.EncodeToString(b)
		}
		var out []any
		for i := 0; i < v.Len(); i++ {
			out = append(out, desc(v.Index(i)))
		}
		return out
	case reflect.String:
		return strconv.Quote(v.String())
	case reflect.Bool:
		return v.Bool()
	case reflect.Uint, reflect.Uint8, reflect.Uint16, reflect.Uint32, reflect.Uint64:
		return strconv.FormatUint(v.Uint(), 10)
	case reflect.Int, reflect.Int8, reflect.Int16, reflect.Int32, reflect.Int64:
		return strconv.FormatInt(v.Int(), 10)
	}
	return fmt.Sprintf("%v", v)
}

// undescribeJSON is the inverse of describe: it fills the message m points to.
func undescribeJSON(raw json.RawMessage, m any) error {
	var x any
	if err := json.Unmarshal(raw, &x); err != nil {
		return err
	}
	return undesc(x, reflect.ValueOf(m))
}

func undesc(x any, v reflect.Value) error {
	switch v.Type() {
	case digestT:
		if x == nil {
			return nil
		}
		s, _ := x.(string)
		if len(s) < 7 {
			return fmt.Errorf("bad digest %v", x)
		}
		d := ov.AuthDigestFindByName(s[7:])
		if d == nil {
			return fmt.Errorf("unknown digest %v", x)
		}
		v.Set(reflect.ValueOf(d))
		return nil
	case cipherT:
		if x == nil {
			return nil
		}
		s, _ := x.(string)
		if len(s) < 7 {
			return fmt.Errorf("bad cipher %v", x)
		}
		cc := ov.CryptCipherFindByName(s[7:])
		if cc == nil {
			return fmt.Errorf("unknown cipher %v", x)
		}
		v.Set(reflect.ValueOf(cc))
		return nil
	}
	switch v.Kind() {
	case reflect.Ptr:
		if x == nil {
			return nil
		}
		if v.IsNil() {
			v.Set(reflect.New(v.Type().Elem()))
		}
		return undesc(x, v.Elem())
	case reflect.Struct:
		m, ok := x.(map[string]any)
		if !ok {
			return fmt.Errorf("expected object for %s", v.Type())
		}
		for i := 0; i < v.NumField(); i++ {
			if fx, ok := m[v.Type().Field(i).Name]; ok {
				if err := undesc(fx, v.Field(i)); err != nil {
					return fmt.Errorf("%s: %w", v.Type().Field(i).Name, err)
				}
			}
		}
		return nil
	case reflect.Slice, reflect.Array:
		if v.Type().Elem().Kind() == reflect.Uint8 {
			if x == nil {
				return nil
			}
			s, ok := x.(string)
			if !ok {
				return fmt.Errorf("expected hex string")
			}
			b, err := hex.DecodeString(s)
			if err != nil {
				return err
			}
			if v.Kind() == reflect.Array {
				if len(b) != v.Len() {
					return fmt.Errorf("array length %d != %d", len(b), v.Len())
				}
				for i := range b {
					v.Index(i).SetUint(uint64(b[i]))
				}
				return nil
			}
			v.SetBytes(b)
			return nil
		}
		return fmt.Errorf("unsupported slice %s", v.Type())
	case reflect.String:
		s, ok := x.(string)
		if !ok {
			return fmt.Errorf("expected quoted string")
		}
		u, err := strconv.Unquote(s)
		if err != nil {
			return err
		}
		v.SetString(u)
		return nil
	case reflect.Bool:
		b, _ := x.(bool)
		v.SetBool(b)
		return nil
	case reflect.Uint, reflect.Uint8, reflect.Uint16, reflect.Uint32, reflect.Uint64:
		s, ok := x.(string)
		if !ok {
			return fmt.Errorf("expected decimal string")
		}
		u, err := strconv.ParseUint(s, 10, 64)
		if err != nil {
			return err
		}
		v.SetUint(u)
		return nil
	case reflect.Int, reflect.Int8, reflect.Int16, reflect.Int32, reflect.Int64:
		s, ok := x.(string)
		if !ok {
			return fmt.Errorf("expected decimal string")
		}
		n, err := strconv.ParseInt(s, 10, 64)
		if err != nil {
			return err
		}
		v.SetInt(n)
		return nil
	}
	return fmt.Errorf("unsupported kind %s", v.Kind())
}
