// Package c08 monitors interference between concurrent connections: many
// overlapping connections with unique content go through one configuration
// with shared matchers, handlers, selection policies and the buffer pool;
// every consumer checks that it read exactly its own connection's bytes, the
// route taken must be the class's route, and the race detector watches the
// shared state (race children).
package c08

import (
	"bytes"
	"crypto/tls"
	"encoding/json"
	"fmt"
	"github.com/caddyserver/caddy/v2"
	"net"
	"os"
	"strings"
	"sync"
	"sync/atomic"
	"time"
	"verifharness/tlsutil"

	"github.com/mholt/caddy-l4/layer4"

	"verifharness/drive"
	"verifharness/fw"
	"verifharness/gen"
	"verifharness/hmods"
	"verifharness/oracle"
	"verifharness/props/c14"
	"verifharness/vnet"
)

const streamDomain = 0xC08

func init() {
	fw.Register(&fw.Prop{
		ID: "C08",
		Rule: "case = one connection of a content class (http, tls, regexp+tee+throttle, six proxy classes one per selection policy, a two-peer upstream, a dial address with a per-connection placeholder, openvpn auth-mode, fall-through) with unique PRF content, " +
			"run concurrently with 32-64 others through one App and one listener wrapper at several GOMAXPROCS settings; oracle: every consumer (sink, tee branch, echo upstream round trip, " +
			"Accept consumer) read exactly this connection's bytes (no foreign or poison byte), the connection took the route of its class, no crash; in the race children any race report " +
			"attributed to repository code is a violation. non-trivial = the connection overlapped with at least one other; distinct = hash(class, overlap bucket, entry level, GOMAXPROCS)",
		Assumptions: []string{
			"the race detector only sees executed access pairs within its history window",
			"poison-on-release (VERIF_POISON=1) marks released pool buffers; the GOMAXPROCS=1 non-race child detects stale buffer references without any hook because the pool hands a released buffer to the next Get",
		},
		MinEvals: 1000,
		Plan: func(tier string) []fw.ChildSpec {
			caCert := makeCA()
			poison := []string{"VERIF_POISON=1", "VERIF_YIELD=lw.pipe.send=0.2:200", "SSL_CERT_FILE=" + caCert, "SSL_CERT_DIR=/nonexistent-verif"}
			if tier == "thorough" {
				return []fw.ChildSpec{
					{Name: "race-p2", Mode: "stress", Race: true, Shards: 1, Timeout: 40 * time.Minute, Env: append([]string{"GOMAXPROCS=2"}, poison...)},
					{Name: "race-p4", Mode: "stress", Race: true, Shards: 1, Timeout: 40 * time.Minute, Env: append([]string{"GOMAXPROCS=4"}, poison...)},
					{Name: "race-p16", Mode: "stress", Race: true, Shards: 2, Timeout: 40 * time.Minute, Env: append([]string{"GOMAXPROCS=16"}, poison...)},
					{Name: "plain-p1", Mode: "stress", Shards: 2, Timeout: 40 * time.Minute, Env: []string{"GOMAXPROCS=1", "SSL_CERT_FILE=" + caCert, "SSL_CERT_DIR=/nonexistent-verif"}},
					{Name: "plain-p16", Mode: "stress", Shards: 2, Timeout: 40 * time.Minute, Env: append([]string{"GOMAXPROCS=16"}, poison...)},
				}
			}
			return []fw.ChildSpec{
				{Name: "race-p2", Mode: "stress", Race: true, Shards: 1, Timeout: 10 * time.Minute, Env: append([]string{"GOMAXPROCS=2"}, poison...)},
				{Name: "race-p16", Mode: "stress", Race: true, Shards: 1, Timeout: 10 * time.Minute, Env: append([]string{"GOMAXPROCS=16"}, poison...)},
				{Name: "plain-p1", Mode: "stress", Shards: 1, Timeout: 10 * time.Minute, Env: []string{"GOMAXPROCS=1", "SSL_CERT_FILE=" + caCert, "SSL_CERT_DIR=/nonexistent-verif"}},
				{Name: "plain-p16", Mode: "stress", Shards: 1, Timeout: 10 * time.Minute, Env: append([]string{"GOMAXPROCS=16"}, poison...)},
			}
		},
		Run:    run,
		Replay: replay,
	})
}

var policies = []string{"first", "round_robin", "ip_hash", "least_conn", "random", "random_choose"}

type env struct {
	ups      []*drive.Upstream
	dyn      []*drive.Upstream // tagged echo upstreams on 127.0.0.1/2/3, same port (dial address with a placeholder)
	dynPort  int
	cert     *tlsutil.Cert
	tlsUp    *drive.Upstream // TLS echo upstream that first reports the server name and ALPN list of the handshake it saw
	ovpnCfg  string
	ovpnMsgs [][]byte
	hellos   [][]byte
}

func (e *env) routes() string {
	var upstreams []any
	for _, u := range e.ups {
		upstreams = append(upstreams, map[string]any{"dial": []string{u.Addr}})
	}
	rs := []any{
		map[string]any{"match": []any{map[string]any{"http": []any{map[string]any{"host": []string{"example.com"}}}}},
			"handle": []any{map[string]any{"handler": "verif_sink", "name": "http", "bufsize": 1024}}},
		map[string]any{"match": []any{map[string]any{"tls": map[string]any{}}},
			"handle": []any{map[string]any{"handler": "verif_sink", "name": "tls", "bufsize": 4096}}},
		map[string]any{"match": []any{map[string]any{"regexp": map[string]any{"pattern": "^RGX[0-9]", "count": 4}}},
			"handle": []any{
				map[string]any{"handler": "tee", "branch": []any{map[string]any{"handler": "verif_sink", "name": "teeb", "bufsize": 700}}},
				map[string]any{"handler": "throttle", "total_read_bytes_per_second": 1e9, "total_read_burst_size": 1 << 16, "read_bytes_per_second": 1e9, "read_burst_size": 1 << 15},
				map[string]any{"handler": "verif_sink", "name": "rgx", "bufsize": 333}}},
	}
	// a route whose last handler is a subroute that nothing inside matches, followed by the route that takes the connection
	rs = append(rs,
		map[string]any{"match": []any{map[string]any{"regexp": map[string]any{"pattern": "^SUB", "count": 3}}},
			"handle": []any{map[string]any{"handler": "subroute", "routes": []any{map[string]any{
				"match":  []any{map[string]any{"regexp": map[string]any{"pattern": "^SUBX", "count": 4}}},
				"handle": []any{map[string]any{"handler": "verif_sink", "name": "subx"}}}}}}},
		map[string]any{"match": []any{map[string]any{"regexp": map[string]any{"pattern": "^SUB", "count": 3}}},
			"handle": []any{map[string]any{"handler": "verif_sink", "name": "sub", "bufsize": 256}}})
	if e.tlsUp != nil {
		// TLS terminated, then relayed to a TLS upstream with the default client settings: they follow this
		// connection's own ClientHello (server name, ALPN list), and nobody else's
		rs = append([]any{map[string]any{
			"match": []any{map[string]any{"tls": map[string]any{"sni": tlsDefNames}}},
			"handle": []any{map[string]any{"handler": "tls"}, map[string]any{"handler": "verif_span", "name": "tlsdef"},
				map[string]any{"handler": "proxy", "upstreams": []any{map[string]any{"dial": []string{e.tlsUp.Addr}, "tls": map[string]any{}}}}}}}, rs...)
	}
	if e.tlsUp != nil {
		// TLS terminated, then relayed to a TLS upstream whose client settings are customised (so they do not follow
		// the downstream ClientHello): what the upstream sees must not depend on any connection's hello
		rs = append([]any{map[string]any{
			"match": []any{map[string]any{"tls": map[string]any{"sni": tlsUpNames}}},
			"handle": []any{map[string]any{"handler": "tls"},
				map[string]any{"handler": "proxy", "upstreams": []any{map[string]any{"dial": []string{e.tlsUp.Addr}, "tls": map[string]any{"insecure_skip_verify": true}}}}}}}, rs...)
	}
	for i, p := range policies {
		pol := map[string]any{"policy": p}
		if p == "random_choose" {
			pol["choose"] = 2
		}
		rs = append(rs, map[string]any{
			"match": []any{map[string]any{"regexp": map[string]any{"pattern": fmt.Sprintf("^PX%d", i), "count": 3}}},
			"handle": []any{map[string]any{"handler": "proxy", "upstreams": upstreams,
				"load_balancing": map[string]any{"selection": pol}}}})
	}
	// one upstream with two peers: the relay writes to the client from one goroutine per peer
	rs = append(rs, map[string]any{
		"match":  []any{map[string]any{"regexp": map[string]any{"pattern": "^PXM", "count": 3}}},
		"handle": []any{map[string]any{"handler": "proxy", "upstreams": []any{map[string]any{"dial": []string{e.ups[0].Addr, e.ups[1].Addr}}}}}})
	if len(e.dyn) > 0 {
		// the upstream's dial address contains a placeholder whose value differs from connection to connection
		rs = append(rs, map[string]any{
			"match": []any{map[string]any{"regexp": map[string]any{"pattern": "^PXD[0-2]", "count": 4}}},
			"handle": []any{
				map[string]any{"handler": "verif_setrepl", "key": "verif.uphost", "n": 4, "values": dynHosts},
				map[string]any{"handler": "proxy", "upstreams": []any{map[string]any{"dial": []string{fmt.Sprintf("tcp/{verif.uphost}:%d", e.dynPort)}}}}}})
	}
	if e.ovpnCfg != "" {
		var cfg any
		_ = jsonUnmarshal(e.ovpnCfg, &cfg)
		rs = append(rs, map[string]any{"match": []any{map[string]any{"openvpn": cfg}},
			"handle": []any{map[string]any{"handler": "verif_sink", "name": "ovpn", "bufsize": 64}}})
	}
	rs = append(rs, map[string]any{"match": []any{map[string]any{"ssh": map[string]any{}}},
		"handle": []any{map[string]any{"handler": "verif_sink", "name": "ssh", "bufsize": 128}}})
	return drive.J(rs)
}

type connCase struct {
	id     string
	class  string
	wire   []byte
	sink   string // consumer that must read the stream ("" for proxy / fall-through)
	proxy  bool
	accept bool // falls through (wrapper: delivered to Accept; app: closed)
	dynK   int  // pxd: which of the placeholder-addressed upstreams this connection names
}

// caFiles are the files through which the parent hands the harness certificate to its children.
func caFiles() (certFile, keyFile string) {
	root := os.Getenv("VERIF_ROOT")
	if root == "" {
		return "", ""
	}
	dir := root + "/evidence/.work/C08/tls"
	return dir + "/ca.pem", dir + "/ca.key"
}

// makeCA (parent) creates the certificate and writes the files; it returns the certificate file's path.
func makeCA() string {
	cf, kf := caFiles()
	if cf == "" {
		return ""
	}
	cert, err := tlsutil.NewCert(append(append([]string{"verif.test"}, tlsUpNames...), tlsDefNames...)...)
	if err != nil {
		return ""
	}
	_ = os.MkdirAll(cf[:strings.LastIndex(cf, "/")], 0o755)
	if os.WriteFile(cf, []byte(cert.CertPEM), 0o644) != nil || os.WriteFile(kf, []byte(cert.KeyPEM), 0o600) != nil {
		return ""
	}
	return cf
}

var tlsUpNames = []string{"one.c08.test", "two.c08.test", "three.c08.test"}
var tlsDefNames = []string{"four.c08.test", "five.c08.test", "six.c08.test"}

var dynHosts = []string{"127.0.0.1", "127.0.0.2", "127.0.0.3"}

// startDyn starts three tagged echo servers on the same port of three loopback addresses.
func (e *env) startDyn() {
	for try := 0; try < 30 && len(e.dyn) == 0; try++ {
		l0, err := net.Listen("tcp", dynHosts[0]+":0")
		if err != nil {
			return
		}
		port := l0.Addr().(*net.TCPAddr).Port
		ls := []net.Listener{l0}
		for _, h := range dynHosts[1:] {
			l, err := net.Listen("tcp", fmt.Sprintf("%s:%d", h, port))
			if err != nil {
				break
			}
			ls = append(ls, l)
		}
		if len(ls) != len(dynHosts) {
			for _, l := range ls {
				_ = l.Close()
			}
			continue
		}
		e.dynPort = port
		for k, l := range ls {
			tag := byte('A' + k)
			e.dyn = append(e.dyn, drive.NewUpstreamOn(l, func(uc *drive.UpConn) {
				_, _ = uc.Conn.Write([]byte{tag})
				drive.EchoHandler(uc)
			}))
		}
	}
}

var classNames = []string{"http", "tls", "rgx", "px0", "px1", "px2", "px3", "px4", "px5", "ovpn", "ssh", "none", "pxd", "pxd", "pxm", "tlsup", "tlsdef", "sub"}

func (e *env) makeCase(seed int64, shard, n int, level string) *connCase {
	r := fw.Rand(seed, "c08case", shard, n, level)
	class := classNames[r.Intn(len(classNames))]
	if class == "ovpn" && len(e.ovpnMsgs) == 0 {
		class = "ssh"
	}
	if class == "pxd" && len(e.dyn) == 0 {
		class = "px0"
	}
	if (class == "tlsup" || class == "tlsdef") && e.tlsUp == nil {
		class = "px1"
	}
	id := fmt.Sprintf("c08-%s-%d-%d", level, shard, n)
	size := 1 + r.Intn(5000)
	if r.Intn(4) == 0 {
		size = 6000 + r.Intn(20000)
	}
	body := oracle.Stream(streamDomain, uint64(fw.Mix(seed, id)), size)
	cc := &connCase{id: id, class: class}
	switch {
	case class == "http":
		hdr := fmt.Sprintf("POST /%s HTTP/1.1\r\nHost: example.com\r\nX-Conn: %s\r\nContent-Length: %d\r\n\r\n", id, id, size)
		cc.wire, cc.sink = append([]byte(hdr), body...), "http"
	case class == "tls":
		cc.wire, cc.sink = append(append([]byte(nil), e.hellos[r.Intn(len(e.hellos))]...), body...), "tls"
	case class == "rgx":
		cc.wire, cc.sink = append([]byte(fmt.Sprintf("RGX%d", r.Intn(10))), body...), "rgx"
	case class == "tlsup", class == "tlsdef":
		cc.dynK = r.Intn(len(tlsUpNames))
		cc.wire, cc.proxy = body, true
	case class == "sub":
		if body[0] == 'X' {
			body[0] = 'Y'
		}
		cc.wire, cc.sink = append([]byte("SUB"), body...), "sub"
	case class == "pxm":
		cc.wire, cc.proxy = append([]byte("PXM"), body...), true
	case class == "pxd":
		cc.dynK = r.Intn(len(dynHosts))
		cc.wire, cc.proxy = append([]byte(fmt.Sprintf("PXD%d", cc.dynK)), body...), true
	case strings.HasPrefix(class, "px"):
		cc.wire, cc.proxy = append([]byte("PX"+class[2:]), body...), true
	case class == "ovpn":
		cc.wire, cc.sink = append([]byte(nil), e.ovpnMsgs[r.Intn(len(e.ovpnMsgs))]...), "ovpn"
	case class == "ssh":
		cc.wire, cc.sink = append([]byte("SSH-2.0-verif_"+id+"\r\n"), body...), "ssh"
	default:
		// matches nothing: first bytes chosen so that every matcher says no quickly
		if len(body) < 64 {
			body = append(body, oracle.Stream(streamDomain, 99, 64)...)
		}
		// (the http matcher stays undecided until it has seen a line end)
		copy(body, "zzzzzzzzzzzzzz\n")
		cc.wire, cc.accept = body, true
	}
	return cc
}

func run(c *fw.Ctx) {
	// The default upstream TLS settings verify the upstream's certificate against the system roots. Those are loaded
	// when the process starts (a dependency installs fallback roots in its init), so the parent creates the harness
	// certificate and starts every child with SSL_CERT_FILE pointing at it (see caFiles).
	var cert0 *tlsutil.Cert
	cerr := fmt.Errorf("no certificate from the parent")
	if cp, kp := caFiles(); cp != "" {
		cb, e1 := os.ReadFile(cp)
		kb, e2 := os.ReadFile(kp)
		if e1 == nil && e2 == nil {
			cert0, cerr = tlsutil.FromPEM(string(cb), string(kb), append(append([]string{"verif.test"}, tlsUpNames...), tlsDefNames...)...)
		}
	}
	if cerr != nil {
		c.Note("tls classes disabled: %v", cerr)
	}
	hmods.Quiet(c.OutDir + "/caddyhome")
	e := &env{}
	for i := 0; i < 3; i++ {
		up, err := drive.NewUpstream("tcp", "", nil, drive.EchoHandler)
		if err != nil {
			c.Note("cannot start upstream: %v", err)
			return
		}
		defer up.Close()
		e.ups = append(e.ups, up)
	}
	if cert, err := cert0, cerr; err == nil {
		if err := caddy.Load([]byte(tlsutil.CaddyConfig(cert, nil)), true); err == nil {
			e.cert = cert
			hmods.UseActiveContext = true
			defer func() { _ = caddy.Stop() }()
			if l, err := net.Listen("tcp", "127.0.0.1:0"); err == nil {
				var seen sync.Map // remote address -> "SNI=..;ALPN=.."
				tl := tls.NewListener(l, &tls.Config{Certificates: []tls.Certificate{cert.TLS}, NextProtos: []string{"h2", "http/1.1", "verif"},
					GetConfigForClient: func(chi *tls.ClientHelloInfo) (*tls.Config, error) {
						seen.Store(chi.Conn.RemoteAddr().String(), fmt.Sprintf("SNI=%s;ALPN=%s", chi.ServerName, strings.Join(chi.SupportedProtos, ",")))
						return nil, nil
					}})
				e.tlsUp = drive.NewUpstreamOn(tl, func(uc *drive.UpConn) {
					v, _ := seen.LoadAndDelete(uc.Conn.RemoteAddr().String())
					_, _ = uc.Conn.Write([]byte(fmt.Sprint(v) + "\n"))
					drive.EchoHandler(uc)
				})
				e.tlsUp.Addr = "tcp/" + l.Addr().String()
				defer e.tlsUp.Close()
			}
		}
	}
	e.startDyn()
	for _, up := range e.dyn {
		defer up.Close()
	}
	c.Obs("placeholder_addressed_upstreams", int64(len(e.dyn)))
	for _, name := range []string{"a.example.com", "b.example.org", "", "c.verif.test"} {
		e.hellos = append(e.hellos, gen.ClientHello(name, []string{"h2"}))
	}
	// auth-mode OpenVPN messages (they make the matcher update its shared digest cache)
	for _, s := range c14.Seeds("openvpn", c.Seed, 400) {
		if !strings.Contains(s.Class, "auth") || strings.Contains(s.Class, "ts-now") || s.Opts.UDP {
			continue
		}
		if e.ovpnCfg == "" {
			e.ovpnCfg = s.Config
		}
		if s.Config == e.ovpnCfg && len(e.ovpnMsgs) < 24 {
			e.ovpnMsgs = append(e.ovpnMsgs, s.Input)
		}
	}
	c.Obs("openvpn_auth_seed_messages", int64(len(e.ovpnMsgs)))

	total := c.Pick(1500, 20000)
	workers := 48
	runLevel(c, e, "app", total, workers)
	runLevel(c, e, "wrapper", total/2, workers)
	rel, pts := layer4.VerifStats()
	c.Obs("pool_buffer_releases", rel)
	for k, v := range pts {
		c.Obs("yield_point_"+k, v)
	}
}

func runLevel(c *fw.Ctx, e *env, level string, total, workers int) {
	routes := e.routes()
	var inject func(*vnet.End)
	var stop func()
	var accMu sync.Mutex
	accepted := map[string][]byte{}
	acceptedN := map[string]int{}
	var readers sync.WaitGroup
	if level == "app" {
		app, err := drive.StartApp(routes, "20s")
		if err != nil {
			c.Violation("C08 config rejected", err.Error(), routes)
			return
		}
		inject, stop = func(s *vnet.End) { app.L.Inject(s) }, app.Stop
	} else {
		ctx, cancel := hmods.NewContext()
		lw, err := hmods.LoadWrapper(ctx, fmt.Sprintf(`{"routes":%s,"matching_timeout":"20s"}`, routes))
		if err != nil {
			cancel()
			c.Violation("C08 config rejected", err.Error(), routes)
			return
		}
		base := vnet.NewListener(vnet.UniqueName("c08lw"))
		ln := lw.WrapListener(base)
		go func() {
			for {
				cn, err := ln.Accept()
				if err != nil {
					return
				}
				id := "?"
				if end, ok := hmods.BaseConn(cn).(*vnet.End); ok {
					id = end.ID
				}
				accMu.Lock()
				acceptedN[id]++
				accMu.Unlock()
				readers.Add(1)
				go func() {
					defer readers.Done()
					time.Sleep(time.Duration(500+len(id)*37%1500) * time.Microsecond) // slow consumer
					_ = cn.SetReadDeadline(time.Now().Add(30 * time.Second))
					b := drive.ReadAll(cn)
					accMu.Lock()
					accepted[id] = b
					accMu.Unlock()
					_ = cn.Close()
					if len(b)%2 == 0 {
						// net/http closes a connection from more than one place (serving goroutine, Server.Close,
						// HTTP/2 teardown): Close on an accepted connection must be idempotent
						_ = cn.Close()
					}
				}()
			}
		}()
		inject = func(s *vnet.End) { base.Inject(s) }
		stop = func() { _ = ln.Close(); cancel() }
	}

	var next atomic.Int64
	var active, maxActive atomic.Int64
	type result struct {
		cc      *connCase
		overlap int64
		echo    []byte
		rec     *hmods.ConnRec
		closed  bool
		server  *vnet.End
	}
	results := make([]*result, total)
	var wg sync.WaitGroup
	for w := 0; w < workers; w++ {
		wg.Add(1)
		go func() {
			defer wg.Done()
			for {
				n := int(next.Add(1)) - 1
				if n >= total {
					return
				}
				cc := e.makeCase(c.Seed, c.Shard, n, level)
				res := &result{cc: cc}
				results[n] = res
				res.rec = hmods.Track(cc.id)
				a := active.Add(1)
				for {
					m := maxActive.Load()
					if a <= m || maxActive.CompareAndSwap(m, a) {
						break
					}
				}
				res.overlap = a
				client, server := drive.NewPair(cc.id)
				res.server = server
				inject(server)
				_ = client.SetReadDeadline(time.Now().Add(40 * time.Second))
				r := fw.Rand(c.Seed, "c08seg", n)
				segs := drive.Segmentation(drive.SegClasses[r.Intn(len(drive.SegClasses))], len(cc.wire), r)
				if len(segs) > 300 {
					segs = drive.Segmentation("random", len(cc.wire), r)
				}
				if cc.class == "tlsup" || cc.class == "tlsdef" {
					// a real handshake with this connection's own server name, ALPN list and version range
					sni := tlsUpNames[cc.dynK]
					if cc.class == "tlsdef" {
						sni = tlsDefNames[cc.dynK]
					}
					tcfg := &tls.Config{RootCAs: e.cert.Pool, ServerName: sni, NextProtos: [][]string{{"http/1.1"}, {"h2", "http/1.1"}, nil}[n%3]}
					if n%2 == 0 {
						tcfg.MaxVersion = tls.VersionTLS12
					}
					tc := tls.Client(client, tcfg)
					if err := tc.Handshake(); err != nil {
						res.echo = []byte("handshake: " + err.Error())
					} else {
						go func() {
							_ = drive.WriteSegments(tc, cc.wire, segs, 5, 20*time.Microsecond)
							_ = tc.CloseWrite()
						}()
						res.echo = drive.ReadAll(tc)
					}
					_ = client.Close()
					res.closed = client.WaitPeerClosed(40 * time.Second)
					active.Add(-1)
					continue
				}
				go func() {
					_ = drive.WriteSegments(client, cc.wire, segs, 5, 20*time.Microsecond)
					_ = client.CloseWrite()
				}()
				res.echo = drive.ReadAll(client)
				res.closed = client.WaitPeerClosed(40 * time.Second)
				if cc.class == "rgx" {
					res.rec.WaitDone("teeb", 10*time.Second)
				}
				_ = client.Close()
				active.Add(-1)
			}
		}()
	}
	wg.Wait()
	if level == "wrapper" {
		// wait for the accept consumer to finish its reads
		done := make(chan struct{})
		go func() { readers.Wait(); close(done) }()
		select {
		case <-done:
		case <-time.After(60 * time.Second):
			c.Inconclusive("accept readers did not finish")
		}
	}
	stop()
	c.ObsMax("max_simultaneous_connections", maxActive.Load())

	for n, res := range results {
		if res == nil {
			continue
		}
		cc := res.cc
		report := func(kind, what string) {
			ev := res.rec.Events()
			if len(ev) > 20 {
				ev = ev[:20]
			}
			c.Violation(fmt.Sprintf("C08 %s class %s (%s)", kind, classGroup(cc.class), level), what,
				map[string]any{"conn": cc.id, "class": cc.class, "level": level, "wire_len": len(cc.wire), "overlap": res.overlap, "events": ev})
		}
		classify := func(got, want []byte) string {
			if bytes.Contains(got, bytes.Repeat([]byte{layer4.VerifPoisonByte}, 16)) {
				return "poison-read (pooled buffer used after release)"
			}
			return "foreign-or-wrong-bytes (" + oracle.DiffKind(got, want) + ")"
		}
		if !res.closed {
			report("stall", "the connection was not finished by the server within 40 s")
		}
		// routing oracle + stream oracle
		consumers := res.rec.Consumers()
		for _, name := range consumers {
			if name != cc.sink && !(cc.class == "rgx" && name == "teeb") {
				report("wrong-route", fmt.Sprintf("a connection of class %s was consumed by handler %q (another class's route)", cc.class, name))
			}
		}
		if cc.sink != "" {
			got := res.rec.Stream(cc.sink)
			if d := oracle.Diff(got, cc.wire); d != "" {
				report(classify(got, cc.wire), fmt.Sprintf("handler %q read bytes that are not this connection's stream: %s", cc.sink, d))
			}
			if cc.class == "rgx" {
				got := res.rec.Stream("teeb")
				if d := oracle.Diff(got, cc.wire); d != "" {
					report("tee-branch "+classify(got, cc.wire), "the tee branch read bytes that are not this connection's stream: "+d)
				}
			}
		}
		if cc.class == "tlsdef" {
			alpn := [][]string{{"http/1.1"}, {"h2", "http/1.1"}, nil}[n%3]
			hdr := fmt.Sprintf("SNI=%s;ALPN=%s\n", tlsDefNames[cc.dynK], strings.Join(alpn, ","))
			want := append([]byte(hdr), cc.wire...)
			if i := bytes.IndexByte(res.echo, '\n'); i >= 0 && bytes.HasPrefix(res.echo, []byte("SNI=")) && !bytes.HasPrefix(res.echo, []byte(hdr)) {
				report("upstream-handshake-depends-on-a-client", fmt.Sprintf("the upstream's default TLS client settings follow the connection's own ClientHello (%q), yet the upstream saw %q in the handshake made for this connection", strings.TrimSpace(hdr), res.echo[:i]))
			} else if d := oracle.Diff(res.echo, want); d != "" {
				report("proxy-echo "+classify(res.echo, want), "bytes relayed through TLS termination to a TLS echo upstream (default client settings) and back differ from this connection's stream: "+d)
			}
		} else if cc.class == "tlsup" {
			want := append([]byte("SNI=;ALPN=\n"), cc.wire...)
			if i := bytes.IndexByte(res.echo, '\n'); i >= 0 && bytes.HasPrefix(res.echo, []byte("SNI=")) && !bytes.HasPrefix(res.echo, []byte("SNI=;ALPN=\n")) {
				report("upstream-handshake-depends-on-a-client", fmt.Sprintf("the upstream's TLS client settings are fixed by the configuration (no server name, no ALPN), yet the upstream saw %q in the handshake made for this connection (own hello: %s)", res.echo[:i], tlsUpNames[cc.dynK]))
			} else if d := oracle.Diff(res.echo, want); d != "" {
				report("proxy-echo "+classify(res.echo, want), "bytes relayed through TLS termination to a TLS echo upstream and back differ from this connection's stream: "+d)
			}
		} else if cc.class == "pxm" {
			// both peers echo the stream: the client reads an order-preserving interleaving of two copies of it
			if !selfShuffle(res.echo, cc.wire) {
				report("proxy-echo "+classify(res.echo, cc.wire), fmt.Sprintf("bytes relayed to two echo peers and back (%d bytes) are not an interleaving of two copies of this connection's stream (%d bytes)", len(res.echo), len(cc.wire)))
			}
		} else if cc.class == "pxd" {
			// the upstream is named by this connection's own placeholder value: its tag comes first, then the echo
			// of what follows the four bytes the placeholder handler consumed
			want := append([]byte{byte('A' + cc.dynK)}, cc.wire[4:]...)
			switch {
			case len(res.echo) > 0 && res.echo[0] != want[0] && res.echo[0] >= 'A' && res.echo[0] < byte('A'+len(dynHosts)):
				report("wrong-upstream", fmt.Sprintf("the connection's own placeholder value names upstream %s, it was connected to upstream %s (the address another connection asked for)", dynHosts[cc.dynK], dynHosts[res.echo[0]-'A']))
			case oracle.Diff(res.echo, want) != "":
				report("proxy-echo "+classify(res.echo, want), "bytes relayed to the placeholder-addressed echo upstream and back differ from this connection's stream: "+oracle.Diff(res.echo, want))
			}
		} else if cc.proxy {
			if d := oracle.Diff(res.echo, cc.wire); d != "" {
				report("proxy-echo "+classify(res.echo, cc.wire), "bytes relayed to an echo upstream and back differ from this connection's stream: "+d)
			}
		}
		if cc.accept {
			if len(consumers) > 0 {
				report("wrong-route", fmt.Sprintf("a connection that matches no route was consumed by %v", consumers))
			}
			if level == "wrapper" {
				accMu.Lock()
				n, got := acceptedN[cc.id], accepted[cc.id]
				accMu.Unlock()
				if n != 1 {
					report("accept-count", fmt.Sprintf("a fall-through connection was returned by Accept %d times", n))
				} else if d := oracle.Diff(got, cc.wire); d != "" {
					report("accepted "+classify(got, cc.wire), "the connection handed to the wrapped listener read bytes that are not its own stream: "+d)
				}
			}
		}
		hmods.Untrack(cc.id)
		ob := "1"
		switch {
		case res.overlap >= 32:
			ob = "32+"
		case res.overlap >= 8:
			ob = "8+"
		case res.overlap >= 2:
			ob = "2+"
		}
		c.Case(fw.Hash(cc.class, ob, level, len(cc.wire)/2048), res.overlap > 1, func() any {
			return map[string]any{"conn": cc.id, "class": cc.class, "level": level, "wire_len": len(cc.wire), "simultaneous": res.overlap}
		})
		c.Obs("connections_"+level+"_"+classGroup(cc.class), 1)
	}
}

func classGroup(class string) string {
	if class == "pxd" {
		return "proxy/placeholder-address"
	}
	if class == "pxm" {
		return "proxy/two-peers"
	}
	if class == "tlsup" {
		return "proxy/tls-terminated-to-tls-upstream"
	}
	if class == "tlsdef" {
		return "proxy/tls-terminated-to-tls-upstream-default-settings"
	}
	if strings.HasPrefix(class, "px") {
		i := int(class[2] - '0')
		return "proxy/" + policies[i]
	}
	return class
}

var _ net.Conn

// selfShuffle reports whether got is an order-preserving interleaving of two copies of w. The frontier holds the
// positions (i, k-i), i >= k-i, that the first k bytes of got can correspond to; PRF content keeps it tiny.
func selfShuffle(got, w []byte) bool {
	if len(got) != 2*len(w) {
		return false
	}
	frontier := map[int]bool{0: true}
	for k := 0; k < len(got); k++ {
		next := map[int]bool{}
		for i := range frontier {
			j := k - i
			if i < len(w) && w[i] == got[k] {
				next[i+1] = true
			}
			if j < len(w) && j < i && w[j] == got[k] {
				next[i] = true
			}
		}
		if len(next) == 0 {
			return false
		}
		frontier = next
	}
	return true
}

func jsonUnmarshal(s string, v any) error { return json.Unmarshal([]byte(s), v) }

// replay cannot reproduce one interleaving; it repeats a short stress run of the same configuration.
func replay(c *fw.Ctx, raw json.RawMessage) {
	c.Mode = "stress"
	run(c)
}
