package main

import (
	"crypto/tls"
	"fmt"
	"time"

	"github.com/caddyserver/caddy/v2"
	_ "github.com/caddyserver/caddy/v2/modules/standard"
	_ "github.com/mholt/caddy-l4"

	"verifharness/drive"
	"verifharness/hmods"
	"verifharness/tlsutil"
	"verifharness/vnet"
)

func main() {
	cert, _ := tlsutil.NewCert("verif.test")
	cfg := tlsutil.CaddyConfig(cert, nil)
	cfg = cfg[:len(cfg)-1]
	// enable logs
	cfg = `{"admin":{"disabled":true},"logging":{"logs":{"default":{"level":"DEBUG"}}},` + cfg[len(`{"admin":{"config":{"persist":false},"disabled":true},`):] + "}"
	fmt.Println(cfg[:200])
	if err := caddy.Load([]byte(tlsutil.CaddyConfig(cert, nil)), true); err != nil {
		panic(err)
	}
	ctx := caddy.ActiveContext()
	lw, err := hmods.LoadWrapper(ctx, `{"routes":[{"match":[{"tls":{}}],"handle":[{"handler":"tls"}]}],"matching_timeout":"2s"}`)
	if err != nil {
		panic(err)
	}
	base := vnet.NewListener("x")
	ln := lw.WrapListener(base)
	cl, sv := drive.NewPair("c1")
	base.Inject(sv)
	go func() {
		tc := tls.Client(cl, &tls.Config{RootCAs: cert.Pool, ServerName: "verif.test"})
		cl.SetReadDeadline(time.Now().Add(3 * time.Second))
		fmt.Println("handshake:", tc.Handshake())
		tc.Write([]byte("hello"))
		tc.CloseWrite()
	}()
	cn, err := ln.Accept()
	fmt.Println("accept", cn, err)
	fmt.Println(string(drive.ReadAll(cn)))
}
