package main

import (
	"fmt"
	"time"

	_ "github.com/caddyserver/caddy/v2/modules/standard"
	_ "github.com/mholt/caddy-l4"

	"verifharness/drive"
	"verifharness/hmods"
	"verifharness/vnet"
)

func main() {
	routes := `[{"match":[{"proxy_protocol":{}}],"handle":[{"handler":"proxy_protocol"}]},{"handle":[{"handler":"verif_span","name":"other","expand":["{l4.conn.remote_addr}"]},{"handler":"verif_sink","name":"sink"}]}]`
	app, err := drive.StartApp(routes, "5s")
	if err != nil {
		panic(err)
	}
	rec := hmods.Track("x1")
	cl, sv := vnet.Pair("x1", vnet.TCPAddr("10.1.2.3", 999), vnet.TCPAddr("192.0.2.1", 443))
	app.L.Inject(sv)
	cl.Write([]byte("PROXY TCP4 1.2.3.4 5.6.7.8 1111 2222\r\nhello"))
	cl.CloseWrite()
	cl.WaitPeerClosed(3 * time.Second)
	for _, e := range rec.Events() {
		fmt.Println(e.Kind, e.Who, e.S, e.S2, e.N)
	}
	fmt.Printf("%q\n", rec.Stream("sink"))
}
