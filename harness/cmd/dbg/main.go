package main

import (
	"fmt"
	"os"
	"strconv"

	_ "github.com/caddyserver/caddy/v2/modules/standard"
	_ "github.com/mholt/caddy-l4"

	"verifharness/hmods"
	"verifharness/mt"
)

func main() {
	hmods.Quiet("")
	m, err := mt.Load(os.Args[1], os.Args[2])
	if err != nil {
		panic(err)
	}
	s, _ := strconv.Unquote(`"` + os.Args[3] + `"`)
	for k := 0; k <= len(s); k++ {
		v, err := m.Eval([]byte(s[:k]), mt.Opts{})
		fmt.Printf("%3d %-5s %v\n", k, v, err)
	}
}
