// vprops is the single binary that holds every property monitor.
package main

import (
	_ "github.com/caddyserver/caddy/v2/modules/standard"
	_ "github.com/mholt/caddy-l4"

	"verifharness/fw"
	_ "verifharness/props/c01"
	_ "verifharness/props/c02"
	_ "verifharness/props/c03"
	_ "verifharness/props/c04"
	_ "verifharness/props/c05"
	_ "verifharness/props/c06"
	_ "verifharness/props/c07"
	_ "verifharness/props/c08"
	_ "verifharness/props/c09"
	_ "verifharness/props/c10"
	_ "verifharness/props/c11"
	_ "verifharness/props/c12"
	_ "verifharness/props/c13"
	_ "verifharness/props/c14"
	_ "verifharness/props/c15"
	_ "verifharness/props/c16"
	_ "verifharness/props/c17"
	_ "verifharness/props/c18"
)

func main() { fw.Main() }
