package hmods

import (
	"encoding/binary"
	"sync/atomic"
	"time"

	"github.com/caddyserver/caddy/v2"

	"github.com/mholt/caddy-l4/layer4"
)

func init() { caddy.RegisterModule(&UDPHandler{}) }

var assocSeq atomic.Int64

// UDPHandler is a terminal recording handler for UDP associations: it takes an
// association id when it starts, records every read, replies to each read with
// (association id, first bytes of what it read) and ends after EndAfter reads.
type UDPHandler struct {
	Name      string `json:"name,omitempty"`
	EndAfter  int    `json:"end_after,omitempty"` // 0 = until EOF
	DelayUs   int    `json:"delay_us,omitempty"`  // per read (slow handler)
	BufSize   int    `json:"bufsize,omitempty"`   // read buffer (default 9000)
	CloseSelf bool   `json:"close_self,omitempty"`
	NoReply   bool   `json:"no_reply,omitempty"`
	// ReadClose: one goroutine keeps reading while another closes the connection after EndAfter reads
	// (what the proxy handler's two copy directions do): the blocked Read wakes up on the close.
	ReadClose bool `json:"read_close,omitempty"`
	// LingerMs: after its last read the handler takes this long to wind down before it returns
	LingerMs int `json:"linger_ms,omitempty"`
}

func (*UDPHandler) CaddyModule() caddy.ModuleInfo {
	return caddy.ModuleInfo{ID: "layer4.handlers.verif_udp", New: func() caddy.Module { return new(UDPHandler) }}
}

func (h *UDPHandler) Handle(cx *layer4.Connection, _ layer4.Handler) error {
	rec := recOf(cx)
	assoc := assocSeq.Add(1)
	rec.Add(Event{Kind: "udp-start", Who: h.Name, N: int(assoc)})
	bs := h.BufSize
	if bs <= 0 {
		bs = 9000
	}
	buf := make([]byte, bs)
	reads := 0
	if h.ReadClose {
		var nreads atomic.Int64
		done := make(chan struct{})
		go func() {
			defer close(done)
			for {
				n, err := cx.Read(buf)
				if n > 0 {
					nreads.Add(1)
					rec.Add(Event{Kind: "udp-read", Who: h.Name, N: int(assoc), Data: append([]byte(nil), buf[:n]...)})
				}
				if err != nil {
					return
				}
			}
		}()
		want := int64(h.EndAfter)
		if want <= 0 {
			want = 2
		}
		deadline := time.Now().Add(50 * time.Millisecond)
		for nreads.Load() < want && time.Now().Before(deadline) {
			time.Sleep(100 * time.Microsecond)
		}
		rec.Add(Event{Kind: "udp-end", Who: h.Name, N: int(assoc), S: "read_close"})
		_ = cx.Close()
		<-done
		return nil
	}
	for {
		n, err := cx.Read(buf)
		if n > 0 {
			reads++
			rec.Add(Event{Kind: "udp-read", Who: h.Name, N: int(assoc), Data: append([]byte(nil), buf[:n]...)})
			if !h.NoReply {
				reply := make([]byte, 8, 8+24)
				binary.BigEndian.PutUint64(reply, uint64(assoc))
				k := n
				if k > 24 {
					k = 24
				}
				reply = append(reply, buf[:k]...)
				_, _ = cx.Write(reply)
			}
		}
		if err != nil {
			rec.Add(Event{Kind: "udp-end", Who: h.Name, N: int(assoc), S: err.Error()})
			break
		}
		if h.DelayUs > 0 {
			time.Sleep(time.Duration(h.DelayUs) * time.Microsecond)
		}
		if h.EndAfter > 0 && reads >= h.EndAfter {
			rec.Add(Event{Kind: "udp-end", Who: h.Name, N: int(assoc), S: "end_after"})
			break
		}
	}
	if h.LingerMs > 0 {
		time.Sleep(time.Duration(h.LingerMs) * time.Millisecond)
		rec.Add(Event{Kind: "udp-return", Who: h.Name, N: int(assoc)})
	}
	if h.CloseSelf {
		_ = cx.Close()
	}
	return nil
}
