package hmods

import (
	"sync"
	"time"

	"github.com/caddyserver/caddy/v2"

	"github.com/mholt/caddy-l4/layer4"
	"github.com/mholt/caddy-l4/modules/l4proxy"

	"verifharness/vnet"
)

func init() { caddy.RegisterModule(&Selector{}) }

// SelectEvent is one logged call of the recording selection policy.
type SelectEvent struct {
	Conn   string
	T      time.Duration
	Result string // dial addresses of the chosen upstream, "" for none
}

var (
	selMu  sync.Mutex
	selLog = map[string][]SelectEvent{} // by policy name
)

// Selector is a selection policy that logs every Select (connection id and time) and then behaves like "first".
type Selector struct {
	Name string `json:"name,omitempty"`
}

func (*Selector) CaddyModule() caddy.ModuleInfo {
	return caddy.ModuleInfo{ID: "layer4.proxy.selection_policies.verif_select", New: func() caddy.Module { return new(Selector) }}
}

func (s *Selector) Select(pool l4proxy.UpstreamPool, cx *layer4.Connection) *l4proxy.Upstream {
	t := vnet.Now()
	u := (&l4proxy.FirstSelection{}).Select(pool, cx)
	ev := SelectEvent{Conn: ConnID(cx), T: t}
	if u != nil {
		ev.Result = u.String()
	}
	selMu.Lock()
	selLog[s.Name] = append(selLog[s.Name], ev)
	selMu.Unlock()
	return u
}

// SelectLog returns and clears the events logged under the policy name.
func SelectLog(name string) []SelectEvent {
	selMu.Lock()
	defer selMu.Unlock()
	out := selLog[name]
	delete(selLog, name)
	return out
}
